/-
  C03 helper lemmas, part 14: the reply's "carries close" flag of the framing automaton tied to the
  reply on the wire through C04 (`Mhd.C04.close_announced_iff`, read-only import).

  `connOf s` is the connection as C04's reply builder sees it in the framing state `s`; for a response
  object inside C03's stated assumptions (no upgrade, no HTTP/1.0 response flags, known size) the two
  models of `keepalive_possible` agree, so "the wire head announces close" — a statement about
  bytes — implies the framing automaton leaves `startReply` tainted, and `no_reparse` /
  `no_further_request` apply.
-/
import Mhd.Props.C04
import Mhd.Proofs.FramingConn
namespace Mhd.Framing
open Mhd.Gen.Framing

/-- the connection fields the reply builder consults, read off the framing state -/
def connOf (s : St) : Mhd.Reply.Conn :=
  { keepalive := match s.keepalive with | .unknown => .unknown | .use => .useKeepalive | .mustClose => .mustClose
    ver := if s.head.http11 then .v11 else .v10
    readClosed := s.readClosed
    discardRequest := s.discard
    reqClose := lookupToken s.head.fields hdrConnection tokClose
    reqKeepAlive := lookupToken s.head.fields hdrConnection tokKeepAlive }

/-- C03's assumptions on the response object -/
structure PlainResp (r : Mhd.Resp.Resp) : Prop where
  noUpgrade : r.upgrade = false
  noStrict : r.flags.http10Strict = false
  noServer : r.flags.http10Server = false
  knownSize : r.totalSize ≠ Mhd.Gen.Reply.sizeUnknown

theorem ka_bridge (s : St) (r : Mhd.Resp.Resp) (h : PlainResp r) :
    Mhd.Reply.keepalivePossible (connOf s) r = .mustClose ↔ keepalivePossible s r.fa.connClose = .mustClose := by
  unfold Mhd.Reply.keepalivePossible keepalivePossible connOf
  simp only [h.noUpgrade, h.noStrict, h.noServer]
  cases hk : s.keepalive <;> cases hr : s.readClosed <;> cases hd : s.discard <;> cases hc : r.fa.connClose <;>
    cases hq : lookupToken s.head.fields hdrConnection tokClose <;>
    cases hv : s.head.http11 <;> cases hka : lookupToken s.head.fields hdrConnection tokKeepAlive <;>
    simp [Mhd.Reply.verSupported, Mhd.Reply.ver11Compat, Mhd.Reply.Ver.num, Mhd.Gen.Reply.ver10, Mhd.Gen.Reply.ver11,
      Mhd.Gen.Reply.ver12]

theorem setup_ka_plain (c : Mhd.Reply.Conn) (r : Mhd.Resp.Resp) (code : Nat) (h : PlainResp r) :
    (Mhd.Reply.setupReplyProperties c r code).1 = Mhd.Reply.keepalivePossible c r := by
  unfold Mhd.Reply.setupReplyProperties
  have : (r.totalSize == Mhd.Gen.Reply.sizeUnknown) = false := by simpa using h.knownSize
  simp only [this, Bool.false_and, Bool.false_eq_true, if_false]
  split <;> rfl

/-- **a reply that announces close on the wire is the last thing the connection serves** -/
theorem announced_close_taints [HeadParser] (r0 : Mhd.Resp.Resp) (cs : List Mhd.Resp.Call)
    (h0 : (∃ size, r0 = Mhd.Resp.Resp.create size) ∨ (∃ f, f.insanity = false ∧ r0 = Mhd.Resp.Resp.createEmpty f) ∨
      r0 = Mhd.Resp.Resp.createUpgrade)
    (hl : ∀ c ∈ cs, c.Legal) (hplain : PlainResp (Mhd.Resp.runCalls r0 cs))
    (lvl : Int) (app : App) (s : St) (status : Nat) (hs : s.state = .startReply) (wf : FlagsWF s)
    (hresp : s.resp = some (status, (Mhd.Resp.runCalls r0 cs).fa.connClose))
    (st : Mhd.Reply.CState) (allow : Bool) (code0 : Nat) (q : Mhd.Reply.Queued) (src : Mhd.Reply.BodySrc)
    (date : Option Mhd.ReplyStr.Bytes) (wb : Nat)
    (hq : Mhd.Reply.queueResponse (connOf s) st false false allow code0 (Mhd.Resp.runCalls r0 cs) = some q)
    (hdate : ∀ d, date = some d → Mhd.Http.NoCRLF d) (hsz : (Mhd.Resp.runCalls r0 cs).totalSize < 2 ^ 64)
    (hsrc : Mhd.Reply.SrcLegal (Mhd.Resp.runCalls r0 cs) wb src) (hwb : 128 ≤ wb)
    (hcomp : (Mhd.Reply.sendReply (connOf s) (Mhd.Resp.runCalls r0 cs) q src date wb
      (Mhd.Reply.startPosAfterQueue q (Mhd.Resp.runCalls r0 cs) 0)).complete = true) :
    ∃ p, Mhd.Http.parseReply (Mhd.Reply.reqOf (connOf s)) (Mhd.Reply.sendReply (connOf s) (Mhd.Resp.runCalls r0 cs) q src date wb
        (Mhd.Reply.startPosAfterQueue q (Mhd.Resp.runCalls r0 cs) 0)).wire = some p ∧
      (Mhd.Http.announcesClose p.fields = true →
        ∃ s1, idleStep lvl app s = some s1 ∧ NoReparse s1 ∧ PastFirst s1 ∧
          ∀ s', Reach lvl s1 s' → s'.state ≠ .init ∧ countFirst s'.out = countFirst s1.out) := by
  obtain ⟨p, hp, hiff, _⟩ := Mhd.C04.close_announced_iff r0 cs h0 hl (connOf s) st allow code0 q src date wb hq hdate hsz hsrc hwb hcomp
  refine ⟨p, hp, fun hann => ?_⟩
  have hka := hiff.1 hann
  rw [Mhd.C04.sendReply_ka, setup_ka_plain _ _ _ hplain, ka_bridge s _ hplain] at hka
  let s1 : St := { s with keepalive := keepalivePossible s (Mhd.Resp.runCalls r0 cs).fa.connClose, state := .fullReplySent,
                          out := .reply status (keepalivePossible s (Mhd.Resp.runCalls r0 cs).fa.connClose == .mustClose) :: s.out }
  have hstep : idleStep lvl app s = some s1 := by
    unfold idleStep; rw [hs]; simp only [hresp, s1]
  have hnr : NoReparse s1 := ⟨wf, Or.inr (Or.inr hka), by simp [s1]⟩
  have hpf : PastFirst s1 := ⟨by simp [s1], by simp [s1], by simp [s1]⟩
  refine ⟨s1, hstep, hnr, hpf, fun s' hr => ⟨(reach_noReparse lvl s1 s' hr hnr).2.2, (reach_past lvl s1 s' hr hnr hpf).2.2⟩⟩

end Mhd.Framing
