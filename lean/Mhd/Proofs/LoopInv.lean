/-
  C06 — proofs, part 3: what a round does before the traversal, the invariant of a
  select / poll daemon between rounds, and the round post-condition of the two loops.
-/
import Mhd.Proofs.LoopTrav
namespace Mhd.Loop
open Mhd.Gen.Loop
variable {W : Type}

/-! ### eraseConn / membership -/

theorem mem_ids {l : List (Conn W)} {c : Conn W} (h : c ∈ l) : c.id ∈ ids l := List.mem_map.mpr ⟨c, h, rfl⟩

theorem eraseConn_perm {l : List (Conn W)} {id : CId} (h : id ∈ ids l) : (id :: ids (eraseConn l id)).Perm (ids l) := by
  induction l with
  | nil => simp at h
  | cons x rest ih =>
    simp only [eraseConn]
    by_cases hx : x.id = id
    · rw [if_pos hx, ids_cons, hx]
    · rw [if_neg hx]
      simp only [ids_cons, List.mem_cons] at h
      rcases h with h | h
      · exact absurd h.symm hx
      · simp only [ids_cons]
        exact (List.Perm.swap _ _ _).trans (List.Perm.cons _ (ih h))

theorem eraseConn_subset {l : List (Conn W)} {id : CId} {x : Conn W} (h : x ∈ eraseConn l id) : x ∈ l := by
  induction l with
  | nil => simp [eraseConn] at h
  | cons y rest ih =>
    simp only [eraseConn] at h
    by_cases hy : y.id = id
    · rw [if_pos hy] at h; exact List.mem_cons_of_mem _ h
    · rw [if_neg hy] at h
      rcases List.mem_cons.mp h with h | h
      · rw [h]; exact List.mem_cons_self
      · exact List.mem_cons_of_mem _ (ih h)

theorem eraseConn_mem_ne {l : List (Conn W)} {id q : CId} (hq : q ∈ ids l) (hne : q ≠ id) : q ∈ ids (eraseConn l id) := by
  induction l with
  | nil => simp at hq
  | cons y rest ih =>
    simp only [eraseConn]
    by_cases hy : y.id = id
    · rw [if_pos hy]
      simp only [ids_cons, List.mem_cons] at hq
      rcases hq with h | h
      · rw [h, hy] at hne; exact absurd rfl hne
      · exact h
    · rw [if_neg hy]
      simp only [ids_cons, List.mem_cons] at hq ⊢
      rcases hq with h | h
      · exact Or.inl h
      · exact Or.inr (ih h)

theorem eraseConn_keep {l : List (Conn W)} {id : CId} {x : Conn W} (hx : x ∈ l) (hne : x.id ≠ id) : x ∈ eraseConn l id := by
  induction l with
  | nil => simp at hx
  | cons y rest ih =>
    simp only [eraseConn]
    by_cases hy : y.id = id
    · rw [if_pos hy]
      rcases List.mem_cons.mp hx with h | h
      · rw [h] at hne; exact absurd hy hne
      · exact h
    · rw [if_neg hy]
      rcases List.mem_cons.mp hx with h | h
      · rw [h]; exact List.mem_cons_self
      · exact List.mem_cons_of_mem _ (ih h)

/-! ### resume_suspended_connections without epoll -/

structure ResumeSpec (d d' : Daemon W) : Prop where
  perm : (ids d'.conns ++ ids d'.susp).Perm (ids d.conns ++ ids d.susp)
  connsFrom : ∀ x ∈ d'.conns, x ∈ d.conns ∨ ∃ y ∈ d.susp, x = { y with resuming := false }
  suspFrom : ∀ x ∈ d'.susp, x ∈ d.susp
  oldConns : ∃ R, d'.conns = R ++ d.conns
  cleanup : d'.cleanup = d.cleanup
  newc : d'.newc = d.newc
  haveNew : d'.haveNew = d.haveNew
  shutdown : d'.shutdown = d.shutdown
  epoll : d'.epoll = d.epoll
  allowSuspend : d'.allowSuspend = d.allowSuspend
  fault : d'.fault = d.fault
  dap : d'.dap = d.dap
  log : d'.log = d.log
  eready : d'.eready = d.eready

theorem ResumeSpec.refl (d : Daemon W) : ResumeSpec d d :=
  ⟨List.Perm.refl _, fun _ h => Or.inl h, fun _ h => h, ⟨[], rfl⟩, rfl, rfl, rfl, rfl, rfl, rfl, rfl, rfl, rfl, rfl⟩

theorem ResumeSpec.trans {a b c : Daemon W} (h1 : ResumeSpec a b) (h2 : ResumeSpec b c) : ResumeSpec a c := by
  refine ⟨h2.perm.trans h1.perm, ?_, fun x h => h1.suspFrom x (h2.suspFrom x h), ?_, h2.cleanup.trans h1.cleanup,
    h2.newc.trans h1.newc, h2.haveNew.trans h1.haveNew, h2.shutdown.trans h1.shutdown, h2.epoll.trans h1.epoll,
    h2.allowSuspend.trans h1.allowSuspend, h2.fault.trans h1.fault, h2.dap.trans h1.dap, h2.log.trans h1.log,
    h2.eready.trans h1.eready⟩
  · intro x hx
    rcases h2.connsFrom x hx with h | ⟨y, hy, rfl⟩
    · exact h1.connsFrom x h
    · exact Or.inr ⟨y, h1.suspFrom y hy, rfl⟩
  · obtain ⟨R1, e1⟩ := h1.oldConns
    obtain ⟨R2, e2⟩ := h2.oldConns
    exact ⟨R2 ++ R1, by rw [e2, e1, List.append_assoc]⟩

theorem resumeOne_spec {d : Daemon W} (hep : d.epoll = false) {c : Conn W} (hc : c ∈ d.susp) :
    ResumeSpec d (resumeOne d c) := by
  unfold resumeOne
  cases hr : c.resuming
  · simp only [Bool.not_false, if_true]; exact ResumeSpec.refl d
  · simp only [Bool.not_true, Bool.false_eq_true, if_false, hep]
    refine ⟨?_, ?_, ?_, ⟨[_], rfl⟩, rfl, rfl, rfl, rfl, hep.symm, rfl, rfl, rfl, rfl, rfl⟩
    · have := eraseConn_perm (mem_ids hc)
      simp only [ids_cons]
      rw [List.perm_iff_count] at this ⊢
      intro y
      have := this y
      simp only [List.count_append, List.count_cons] at this ⊢
      omega
    · intro x hx
      rcases List.mem_cons.mp hx with h | h
      · exact Or.inr ⟨c, hc, h⟩
      · exact Or.inl h
    · intro x hx; exact eraseConn_subset hx

theorem resumeFold_spec : ∀ (work : List (Conn W)) (d : Daemon W), d.epoll = false → (ids work).Nodup →
    (∀ c ∈ work, c ∈ d.susp) → (ids d.susp).Nodup → ResumeSpec d (work.foldl resumeOne d) := by
  intro work
  induction work with
  | nil => intro d _ _ _ _; exact ResumeSpec.refl d
  | cons c rest ih =>
    intro d hep hnd hmem hsn
    simp only [List.foldl_cons]
    have h1 := resumeOne_spec hep (hmem c List.mem_cons_self)
    simp only [ids_cons, List.nodup_cons] at hnd
    have hne : ∀ x ∈ rest, x.id ≠ c.id := fun x hx e => hnd.1 (e ▸ mem_ids hx)
    have hstep : (resumeOne d c).epoll = false ∧ (∀ x ∈ rest, x ∈ (resumeOne d c).susp) ∧ (ids (resumeOne d c).susp).Nodup := by
      unfold resumeOne
      cases hr : c.resuming
      · simp only [Bool.not_false, if_true]
        exact ⟨hep, fun x hx => hmem x (List.mem_cons_of_mem _ hx), hsn⟩
      · simp only [Bool.not_true, Bool.false_eq_true, if_false]
        refine ⟨hep, ?_, ?_⟩
        · intro x hx
          exact eraseConn_keep (hmem x (List.mem_cons_of_mem _ hx)) (hne x hx)
        · have := eraseConn_perm (mem_ids (hmem c List.mem_cons_self))
          have h2 := (this.nodup_iff).mpr hsn
          exact (List.nodup_cons.mp h2).2
    exact h1.trans (ih _ hstep.1 hnd.2 hstep.2.1 hstep.2.2)


theorem resumeSuspended_spec {d : Daemon W} (hep : d.epoll = false) (hsn : (ids d.susp).Nodup) :
    ResumeSpec d (resumeSuspended d) := by
  have h : ResumeSpec { d with resuming := false } (resumeSuspended d) := by
    unfold resumeSuspended
    simp only []
    apply resumeFold_spec _ { d with resuming := false } hep
    · split
      · rw [show ids d.susp.reverse = (ids d.susp).reverse by simp [ids, List.map_reverse]]
        exact (List.reverse_perm _).nodup_iff.mpr hsn
      · simp
    · intro c hc
      split at hc
      · exact List.mem_reverse.mp hc
      · simp at hc
    · exact hsn
  exact ⟨h.perm, h.connsFrom, h.suspFrom, h.oldConns, h.cleanup, h.newc, h.haveNew, h.shutdown, h.epoll,
    h.allowSuspend, h.fault, h.dap, h.log, h.eready⟩

theorem resumeSuspended_spec_old {d : Daemon W} (hep : d.epoll = false) (hsn : (ids d.susp).Nodup) :
    ResumeSpec { d with resuming := false } (resumeSuspended d) := by
  unfold resumeSuspended
  simp only []
  apply resumeFold_spec _ { d with resuming := false } hep
  · split
    · rw [show ids d.susp.reverse = (ids d.susp).reverse by simp [ids, List.map_reverse]]
      exact (List.reverse_perm _).nodup_iff.mpr hsn
    · simp
  · intro c hc
    split at hc
    · exact List.mem_reverse.mp hc
    · simp at hc
  · exact hsn

/-! ### new_connections_list_process_ -/

def newConnF (ep : Bool) (c : Conn W) : Conn W := { c with loc := { c.loc with eli := .read }, inEpollSet := ep }

theorem newConnFold (l : List (Conn W)) : ∀ (d0 : Daemon W),
    l.reverse.foldl newConnOne d0 = { d0 with conns := l.map (newConnF d0.epoll) ++ d0.conns } := by
  induction l with
  | nil => intro d0; rfl
  | cons x xs ih =>
    intro d0
    rw [List.reverse_cons, List.foldl_append, ih]
    simp [newConnOne, newConnF]

theorem newConnsProcess_eq (d : Daemon W) :
    newConnsProcess d = { d with newc := [], haveNew := false, conns := d.newc.map (newConnF d.epoll) ++ d.conns } := by
  unfold newConnsProcess
  rw [newConnFold]

theorem ids_map_newConnF (ep : Bool) (l : List (Conn W)) : ids (l.map (newConnF ep)) = ids l := by
  simp [ids, newConnF, Function.comp_def]


/-! ### the invariant of a select / poll daemon between rounds -/

structure InvSP (needs : Local W → Bool) (d : Daemon W) : Prop where
  noep : d.epoll = false
  nodup : (ids d.conns ++ ids d.susp ++ ids d.cleanup ++ ids d.newc).Nodup
  valid : ∀ c, c ∈ d.conns ∨ c ∈ d.susp ∨ c ∈ d.newc → c.sockValid = true
  /-- every active connection that has work which can proceed without network input says so -/
  sync : ∀ c ∈ d.conns, Sync needs c
  /-- … and then the daemon knows it -/
  flag : ∀ c ∈ d.conns, c.loc.eli.hasProcess = true → d.dap = true
  fresh : ∀ c ∈ d.newc, c.loc.eli = .read ∧ needs c.loc = false
  newcFlag : d.haveNew = false → d.newc = []
  nocleanup : d.cleanup = []
  fault : d.fault = none

theorem visitRes_static (ops : Ops W) (ep : Bool) (rdy : Ready) (y : Conn W) : SameStatic (visitRes ops ep rdy y).c y :=
  chLocal_static _ _ _ _ _ _ _
theorem visitRes_sync {ops : Ops W} {needs : Local W → Bool} (L : Laws ops needs) (ep : Bool) (rdy : Ready) (y : Conn W)
    (h : (visitRes ops ep rdy y).wh = .active) : Sync needs (visitRes ops ep rdy y).c :=
  chLocal_sync L ep y .active _ _ _ h
theorem visitRes_dapCheck {ops : Ops W} {needs : Local W → Bool} (L : Laws ops needs) (ep : Bool) (rdy : Ready) (y : Conn W)
    (h : (visitRes ops ep rdy y).wh = .active) : (visitRes ops ep rdy y).dapCheck = true :=
  chLocal_dapCheck L ep y _ _ _ h
theorem visitRes_idled (ops : Ops W) (ep : Bool) (rdy : Ready) (y : Conn W) : Ev.idle y.id ∈ (visitRes ops ep rdy y).evs :=
  chLocal_idled _ _ _ _ _ _ _

theorem mem_fm {ops : Ops W} {ep : Bool} {rdy : Ready} {wh : Wh} {V : List (Conn W)} {x : Conn W} :
    x ∈ V.filterMap (fun y => keepIf wh (visitRes ops ep rdy y)) ↔
      ∃ y ∈ V, (visitRes ops ep rdy y).wh = wh ∧ x = (visitRes ops ep rdy y).c := by
  simp only [List.mem_filterMap, keepIf]
  constructor
  · rintro ⟨y, hy, h⟩
    split at h
    · rename_i hw; cases h; exact ⟨y, hy, hw, rfl⟩
    · cases h
  · rintro ⟨y, hy, hw, rfl⟩
    exact ⟨y, hy, by rw [if_pos hw]⟩

/-- after the handler traversal (visited part `V`, unvisited fresh part `P`) and the cleanup
    the invariant holds again, and every surviving visited connection went through handle_idle -/
theorem inv_after_trav {ops : Ops W} {needs : Local W → Bool} (L : Laws ops needs) {rdy : Ready}
    {d3 d4 : Daemon W} {P V : List (Conn W)}
    (T : TravSpec ops rdy d3 d4 P V []) (hc : d3.conns = P ++ V) (hep : d3.epoll = false)
    (hnd : (ids d3.conns ++ ids d3.susp ++ ids d3.cleanup).Nodup) (hnewc : d3.newc = [])
    (hval : ∀ c, c ∈ d3.conns ∨ c ∈ d3.susp → c.sockValid = true)
    (hP : ∀ c ∈ P, Sync needs c ∧ c.loc.eli.hasProcess = false) (hf : d3.fault = none) (hdap : d3.dap = false) :
    InvSP needs (cleanupConns d4) ∧
    (cleanupConns d4).log = V.flatMap (fun y => (visitRes ops false rdy y).evs) ++ d3.log ∧
    ∀ c ∈ (cleanupConns d4).conns, c ∈ P ∨ ∃ y ∈ V, c = (visitRes ops false rdy y).c ∧ (visitRes ops false rdy y).wh = .active := by
  have hconns : d4.conns = P ++ V.filterMap (fun y => keepIf .active (visitRes ops false rdy y)) := by
    have := T.conns; rw [hep] at this; simpa using this
  have hsusp : d4.susp = V.filterMap (fun y => keepIf .susp (visitRes ops false rdy y)) ++ d3.susp := by
    have := T.susp; rw [hep] at this; exact this
  have hmemc : ∀ c ∈ d4.conns, c ∈ P ∨ ∃ y ∈ V, c = (visitRes ops false rdy y).c ∧ (visitRes ops false rdy y).wh = .active := by
    intro c hcm
    rw [hconns] at hcm
    rcases List.mem_append.mp hcm with h | h
    · exact Or.inl h
    · obtain ⟨y, hy, hw, rfl⟩ := mem_fm.mp h
      exact Or.inr ⟨y, hy, rfl, hw⟩
  refine ⟨⟨?_, ?_, ?_, ?_, ?_, ?_, ?_, rfl, ?_⟩, ?_, hmemc⟩
  · show d4.epoll = false
    rw [T.epoll, hep]
  · show (ids d4.conns ++ ids d4.susp ++ ids ([] : List (Conn W)) ++ ids d4.newc).Nodup
    rw [T.newc, hnewc]
    have := (T.perm.nodup_iff).mpr hnd
    simp only [ids_nil, List.append_nil]
    exact List.Nodup.sublist (List.sublist_append_left _ _) this
  · intro c hcm
    show c.sockValid = true
    have hcm' : c ∈ d4.conns ∨ c ∈ d4.susp ∨ c ∈ d4.newc := hcm
    rw [T.newc, hnewc] at hcm'
    rcases hcm' with h | h | h
    · rcases hmemc c h with hp | ⟨y, hy, rfl, _⟩
      · exact hval c (Or.inl (by rw [hc]; exact List.mem_append_left _ hp))
      · rw [(visitRes_static _ _ _ _).sockValid]
        exact hval y (Or.inl (by rw [hc]; exact List.mem_append_right _ hy))
    · rw [hsusp] at h
      rcases List.mem_append.mp h with h | h
      · obtain ⟨y, hy, _, rfl⟩ := mem_fm.mp h
        rw [(visitRes_static _ _ _ _).sockValid]
        exact hval y (Or.inl (by rw [hc]; exact List.mem_append_right _ hy))
      · exact hval c (Or.inr h)
    · simp at h
  · intro c hcm
    rcases hmemc c hcm with hp | ⟨y, hy, rfl, hw⟩
    · exact (hP c hp).1
    · exact visitRes_sync L false rdy y hw
  · intro c hcm hpr
    show d4.dap = true
    rw [T.dap, hdap, hep]
    rcases hmemc c hcm with hp | ⟨y, hy, rfl, hw⟩
    · rw [(hP c hp).2] at hpr; cases hpr
    · simp only [Bool.false_or, List.any_eq_true]
      exact ⟨y, hy, by rw [visitRes_dapCheck L false rdy y hw, hpr]; rfl⟩
  · intro c hcm
    have : c ∈ d4.newc := hcm
    rw [T.newc, hnewc] at this
    simp at this
  · intro _
    show d4.newc = []
    rw [T.newc, hnewc]
  · show d4.fault = none
    rw [T.fault, hf]
  · show d4.log = _
    rw [T.log, hep]


theorem nodup_parts {a b c e : List CId} (h : (a ++ b ++ c ++ e).Nodup) :
    a.Nodup ∧ b.Nodup ∧ (a ++ b).Nodup := by
  have h1 : (a ++ b).Nodup := List.Nodup.sublist (by
    rw [List.append_assoc (a ++ b)]; exact List.sublist_append_left _ _) h
  exact ⟨(List.nodup_append.mp h1).1, (List.nodup_append.mp h1).2.1, h1⟩

/-- everything of a round before the handler traversal, for select and poll:
    resume, (reset of data_already_pending,) new connections -/
structure PreSpec (needs : Local W → Bool) (d d3 : Daemon W) (R N : List (Conn W)) : Prop where
  conns : d3.conns = N ++ (R ++ d.conns)
  freshN : ∀ c ∈ N, Sync needs c ∧ c.loc.eli.hasProcess = false
  epoll : d3.epoll = false
  nodup : (ids d3.conns ++ ids d3.susp ++ ids d3.cleanup).Nodup
  newc : d3.newc = []
  valid : ∀ c, c ∈ d3.conns ∨ c ∈ d3.susp → c.sockValid = true
  fault : d3.fault = none
  log : d3.log = d.log
  resumed : (if d.allowSuspend then resumeSuspended d else d).conns = R ++ d.conns
  newIds : ids N = ids d.newc ∨ N = []
  newFrom : ∀ x ∈ N, ∃ y ∈ d.newc, x.loc.st = y.loc.st

theorem hasProcess_read : Eli.read.hasProcess = false := by decide

theorem newConnF_loc {needs : Local W → Bool} {y : Conn W} (h : y.loc.eli = .read ∧ needs y.loc = false) :
    (newConnF false y).loc = y.loc := by
  unfold newConnF
  cases hl : y.loc with
  | mk st eli rd wr bs w =>
    rw [hl] at h
    simp only at h
    simp [h.1]

def preStage (d : Daemon W) : Daemon W :=
  let d1 := if d.allowSuspend then resumeSuspended d else d
  let d2 := { d1 with dap := false }
  if d2.haveNew then newConnsProcess d2 else d2

theorem pre_stage {needs : Local W → Bool} {d : Daemon W} (h : InvSP needs d) :
    ∃ R N, PreSpec needs d (preStage d) R N ∧ (preStage d).dap = false := by
  have hp := nodup_parts h.nodup
  have RS : ResumeSpec d (if d.allowSuspend then resumeSuspended d else d) := by
    split
    · exact resumeSuspended_spec h.noep hp.2.1
    · exact ResumeSpec.refl d
  generalize hd1 : (if d.allowSuspend then resumeSuspended d else d) = d1 at RS
  obtain ⟨R, hR⟩ := RS.oldConns
  have hvalid1 : ∀ c, c ∈ d1.conns ∨ c ∈ d1.susp → c.sockValid = true := by
    intro c hc
    rcases hc with hc | hc
    · rcases RS.connsFrom c hc with h1 | ⟨y, hy, rfl⟩
      · exact h.valid c (Or.inl h1)
      · exact h.valid y (Or.inr (Or.inl hy))
    · exact h.valid c (Or.inr (Or.inl (RS.suspFrom c hc)))
  have hnd1 : (ids d.newc ++ (ids d1.conns ++ ids d1.susp)).Nodup := by
    have h0 := h.nodup
    rw [h.nocleanup] at h0
    have hperm : (ids d.newc ++ (ids d1.conns ++ ids d1.susp)).Perm (ids d.conns ++ ids d.susp ++ ids ([] : List (Conn W)) ++ ids d.newc) := by
      have := RS.perm
      rw [List.perm_iff_count] at this ⊢
      intro y
      have := this y
      simp only [List.count_append, ids_nil, List.count_nil] at this ⊢
      omega
    exact hperm.nodup_iff.mpr h0
  unfold preStage
  rw [hd1]
  simp only []
  cases hn : d1.haveNew
  · -- no new connections
    have hnew : d.newc = [] := h.newcFlag (by rw [← RS.haveNew]; exact hn)
    refine ⟨R, [], ⟨?_, ?_, ?_, ?_, ?_, ?_, ?_, ?_, by rw [hd1]; exact hR, Or.inr rfl,
      by intro x hx; simp at hx⟩, ?_⟩
    · simpa using hR
    · intro c hc; simp at hc
    · simp only [Bool.false_eq_true, if_false]; rw [RS.epoll]; exact h.noep
    · simp only [Bool.false_eq_true, if_false]
      rw [hnew] at hnd1
      rw [RS.cleanup, h.nocleanup]
      simpa using hnd1
    · simp only [Bool.false_eq_true, if_false]; rw [RS.newc]; exact hnew
    · simp only [Bool.false_eq_true, if_false]; exact hvalid1
    · simp only [Bool.false_eq_true, if_false]; rw [RS.fault]; exact h.fault
    · simp only [Bool.false_eq_true, if_false]; exact RS.log
    · simp
  · -- new connections are put at the head of the active list
    simp only [if_true]
    rw [newConnsProcess_eq]
    simp only []
    have hep1 : d1.epoll = false := by rw [RS.epoll]; exact h.noep
    refine ⟨R, d.newc.map (newConnF false), ⟨?_, ?_, ?_, ?_, ?_, ?_, ?_, ?_, by rw [hd1]; exact hR,
      Or.inl (ids_map_newConnF _ _),
      by intro x hx; obtain ⟨y, hy, rfl⟩ := List.mem_map.mp hx; exact ⟨y, hy, rfl⟩⟩, ?_⟩
    · show List.map (newConnF d1.epoll) d1.newc ++ d1.conns = _
      rw [hep1, RS.newc, hR]
    · intro c hc
      obtain ⟨y, hy, rfl⟩ := List.mem_map.mp hc
      have hf := h.fresh y hy
      rw [Sync, newConnF_loc hf]
      refine ⟨fun hn => ?_, ?_⟩
      · rw [hf.2] at hn; cases hn
      · rw [hf.1]; exact hasProcess_read
    · exact hep1
    · show (ids (List.map (newConnF d1.epoll) d1.newc ++ d1.conns) ++ ids d1.susp ++ ids d1.cleanup).Nodup
      rw [RS.cleanup, h.nocleanup, RS.newc, ids_append, ids_map_newConnF]
      simpa [List.append_assoc] using hnd1
    · rfl
    · intro c hc
      show c.sockValid = true
      have hc' : c ∈ List.map (newConnF d1.epoll) d1.newc ++ d1.conns ∨ c ∈ d1.susp := hc
      rcases hc' with hc' | hc'
      · rcases List.mem_append.mp hc' with h1 | h1
        · obtain ⟨y, hy, rfl⟩ := List.mem_map.mp h1
          rw [RS.newc] at hy
          exact h.valid y (Or.inr (Or.inr hy))
        · exact hvalid1 c (Or.inl h1)
      · exact hvalid1 c (Or.inr hc')
    · show d1.fault = none
      rw [RS.fault]; exact h.fault
    · exact RS.log
    · trivial


/-- the traversal starting at the tail of a non-empty or empty active list -/
theorem selectTrav_all (ops : Ops W) (rdy : Ready) (d : Daemon W) (hnd : (ids d.conns).Nodup)
    (hv : ∀ x ∈ d.conns, x.sockValid = true) :
    TravSpec ops rdy d (selectTrav ops true rdy (d.conns.length + 1) (tailId d.conns) d) [] d.conns [] := by
  rcases List.eq_nil_or_concat d.conns with h0 | ⟨A, c, hA⟩
  · rw [h0, tailId_nil, selectTrav]
    refine ⟨by simp [h0], by simp, by simp, rfl, rfl, rfl, rfl, rfl, rfl, rfl, by simp, by simp, fun _ => rfl, List.Perm.refl _⟩
  · rw [List.concat_eq_append] at hA
    rw [hA, tailId_concat]
    have := selectTrav_closed ops rdy A.length A rfl c [] d ((A ++ [c]).length + 1) (by simpa using hA) hnd (by simp)
      (fun x hx => hv x (by rw [hA]; exact hx))
    exact this

/-- **Round post-condition, select loop with the next pointer saved before the call.** -/
theorem select_round {ops : Ops W} {needs : Local W → Bool} (L : Laws ops needs) {d : Daemon W}
    (h : InvSP needs d) (rdy : Ready) :
    InvSP needs (runFromSelectWith ops true d rdy) ∧
    ∃ pre, (runFromSelectWith ops true d rdy).log = pre ++ d.log ∧
      ∀ c ∈ (runFromSelectWith ops true d rdy).conns, Ev.idle c.id ∈ pre := by
  obtain ⟨R, N, PS, hdap⟩ := pre_stage h
  have heq : runFromSelectWith ops true d rdy =
      cleanupConns (selectTrav ops true rdy ((preStage d).conns.length + 1) (tailId (preStage d).conns) (preStage d)) := rfl
  rw [heq]
  have hndc : (ids (preStage d).conns).Nodup :=
    List.Nodup.sublist (by rw [List.append_assoc]; exact List.sublist_append_left _ _) PS.nodup
  have T := selectTrav_all ops rdy (preStage d) hndc (fun x hx => PS.valid x (Or.inl hx))
  have := inv_after_trav L T (by simp) PS.epoll PS.nodup PS.newc PS.valid (by intro c hc; simp at hc) PS.fault hdap
  refine ⟨this.1, _, by rw [this.2.1, PS.log], ?_⟩
  intro c hc
  rcases this.2.2 c hc with hp | ⟨y, hy, rfl, _⟩
  · simp at hp
  · rw [(visitRes_static _ _ _ _).id]
    exact List.mem_flatMap.mpr ⟨y, hy, visitRes_idled _ _ _ _⟩


def rsStage (d : Daemon W) : Daemon W := if d.allowSuspend then resumeSuspended d else d

def pollStage (d : Daemon W) : Daemon W :=
  { (if (rsStage d).haveNew then newConnsProcess (rsStage d) else rsStage d) with dap := false }

theorem pollAllWith_eq (ops : Ops W) (d : Daemon W) (rdy : Ready) :
    pollAllWith ops true d rdy =
      cleanupConns (pollTrav ops true ((rsStage d).conns.reverse.map (·.id)) rdy ((pollStage d).conns.length + 1) 0
        (tailId (pollStage d).conns) (pollStage d)) := rfl

theorem pollStage_eq (d : Daemon W) : pollStage d = preStage d := by
  unfold pollStage preStage rsStage
  simp only []
  generalize (if d.allowSuspend then resumeSuspended d else d) = d1
  cases hn : d1.haveNew
  · simp [hn]
  · simp only [if_true]
    rw [newConnsProcess_eq, newConnsProcess_eq]

/-- the handler loop of MHD_poll_all over the array built before the new connections were added -/
theorem pollTrav_all (ops : Ops W) (rdy : Ready) (d : Daemon W) (N V : List (Conn W)) (hc : d.conns = N ++ V)
    (hnd : (ids d.conns).Nodup) :
    TravSpec ops rdy d (pollTrav ops true (V.reverse.map (·.id)) rdy (d.conns.length + 1) 0 (tailId d.conns) d) N V [] := by
  rcases List.eq_nil_or_concat V with h0 | ⟨A, c, hA⟩
  · subst h0
    have triv : TravSpec ops rdy d d N [] [] :=
      ⟨by simp [hc], by simp, by simp, rfl, rfl, rfl, rfl, rfl, rfl, rfl, by simp, by simp, fun _ => rfl, List.Perm.refl _⟩
    rcases List.eq_nil_or_concat N with hN | ⟨N', p, hN⟩
    · subst hN
      simp only [List.append_nil] at hc
      rw [hc, tailId_nil, pollTrav]
      exact triv
    · rw [List.concat_eq_append] at hN
      subst hN
      simp only [List.append_nil] at hc
      rw [hc, tailId_concat]
      have hp : p.id ∉ ids N' := by rw [hc] at hnd; exact nodup_mid_notin hnd
      have hb := pollTrav_break ops rdy (([] : List (Conn W)).reverse.map (·.id)) (d := d) (A := N') (B := []) (c := p)
        (N' ++ [p]).length 0 (by simpa using hc) hp (by simp)
      rw [hb]
      exact triv
  · rw [List.concat_eq_append] at hA
    subst hA
    have hc' : d.conns = N ++ A ++ c :: [] := by rw [hc]; simp [List.append_assoc]
    have := pollTrav_closed ops rdy ((A ++ [c]).reverse.map (·.id)) A.length A rfl c [] N d (d.conns.length + 1) 0 hc' hnd
      (by rw [hc']; simp) (by simp [ids, List.map_reverse])
    rw [hc'] at this ⊢
    rw [show tailId (N ++ A ++ [c]) = some c.id from tailId_concat _ _]
    exact this

/-- **Round post-condition, poll loop.**  Connections added during the round are not in the
    poll array and are not visited; they are fresh (waiting for their first bytes). -/
theorem poll_round {ops : Ops W} {needs : Local W → Bool} (L : Laws ops needs) {d : Daemon W}
    (h : InvSP needs d) (rdy : Ready) :
    InvSP needs (pollAllWith ops true d rdy) ∧
    ∃ pre, (pollAllWith ops true d rdy).log = pre ++ d.log ∧
      ∀ c ∈ (pollAllWith ops true d rdy).conns, c.id ∈ ids d.newc ∨ Ev.idle c.id ∈ pre := by
  obtain ⟨R, N, PS, hdap⟩ := pre_stage h
  have heq : pollAllWith ops true d rdy =
      cleanupConns (pollTrav ops true ((R ++ d.conns).reverse.map (·.id)) rdy ((preStage d).conns.length + 1) 0
        (tailId (preStage d).conns) (preStage d)) := by
    rw [pollAllWith_eq, pollStage_eq, show (rsStage d).conns = R ++ d.conns from PS.resumed]
  rw [heq]
  have hndc : (ids (preStage d).conns).Nodup :=
    List.Nodup.sublist (by rw [List.append_assoc]; exact List.sublist_append_left _ _) PS.nodup
  have T := pollTrav_all ops rdy (preStage d) N (R ++ d.conns) PS.conns hndc
  have := inv_after_trav L T PS.conns PS.epoll PS.nodup PS.newc PS.valid PS.freshN PS.fault hdap
  refine ⟨this.1, _, by rw [this.2.1, PS.log], ?_⟩
  intro c hc
  rcases this.2.2 c hc with hp | ⟨y, hy, rfl, _⟩
  · left
    rcases PS.newIds with hN | hN
    · rw [← hN]; exact mem_ids hp
    · rw [hN] at hp; simp at hp
  · right
    rw [(visitRes_static _ _ _ _).id]
    exact List.mem_flatMap.mpr ⟨y, hy, visitRes_idled _ _ _ _⟩

end Mhd.Loop
