/-
  C14 helper lemmas, part 10: the information API (digestauth.c) depends only on the meaning of the
  parameters; specification predicates `canon`, `Elem.infoWf`, `eraseCnl`.
-/
import Mhd.Proofs.AuthSem
namespace Mhd.Auth
open Mhd.Gen.Auth

/-! ### the information API depends only on the meaning of the parameters -/

/-- every '%' is followed by at least two bytes (no read beyond the value by the percent-decoder) -/
def pctComplete : Bytes → Bool
  | [] => true
  | c :: r =>
    if c = 37 then
      match r with
      | _ :: _ :: r' => pctComplete r'
      | _ => false
    else pctComplete r

theorem pctStrict_complete (next : Option UInt8) (enc : Bytes) (h : pctComplete enc = true) :
    pctStrict next enc = pctStrict none enc := by
  fun_induction pctComplete enc with
  | case1 => rw [pctStrict.eq_def, pctStrict.eq_def]
  | case2 r' a b ih =>
    rw [pctStrict.eq_def, pctStrict.eq_def (next := none)]
    simp only [if_true]
    rw [ih h]
  | case3 r hr =>
    simp at h
  | case4 c r hc ih =>
    rw [pctStrict.eq_def, pctStrict.eq_def (next := none)]
    simp only [hc, if_false]
    rw [ih h]

/-- the percent-encoded part of an extended-notation value is complete -/
def extEncComplete (ext : Bytes) : Bool :=
  match skipLang (ext.drop extPrefix.length) with
  | some enc => pctComplete enc
  | none => true

theorem extUname_complete (ext : Bytes) (next : Option UInt8) (h : extEncComplete ext = true) :
    extUname ext next = extUname ext none := by
  unfold extUname
  unfold extEncComplete at h
  split
  · rfl
  · split
    · rfl
    · cases hs : skipLang (ext.drop extPrefix.length) with
      | none => rfl
      | some enc =>
        rw [hs] at h
        simp only
        rw [pctStrict_complete next enc h]

/-- two parsed parameters that the information API cannot tell apart -/
def ParamSim (k : Nat) (p p' : Option Param) : Prop :=
  match p, p' with
  | none, none => True
  | some a, some b =>
    paramUnq a = paramUnq b ∧
    (k = kUsernameExt → a.quoted = false ∧ b.quoted = false ∧ extEncComplete a.raw = true) ∧
    (k = kNc → b.quoted = false ∧ (a.quoted = true → a.raw.length ≤ ncUnqBuf ∧ a.raw ≠ [] ∧ unquoteLoop a.raw ≠ none))
  | _, _ => False

def DSim (d d' : DAuth) : Prop :=
  (∀ k, ParamSim k (d.slots k) (d'.slots k)) ∧ d.userhash = d'.userhash ∧ d.algo3 = d'.algo3 ∧ d.qop = d'.qop

theorem paramUnq_unquoted (p : Param) (h : p.quoted = false) : paramUnq p = p.raw := by
  simp [paramUnq, h]

theorem unameType_sim (d d' : DAuth) (h : DSim d d') : unameType d = unameType d' := by
  obtain ⟨hs, hu, _, _⟩ := h
  have h4 := hs kUsername
  have h5 := hs kUsernameExt
  unfold unameType
  rw [hu]
  cases a4 : d.slots kUsername <;> cases b4 : d'.slots kUsername <;> simp only [a4, b4, ParamSim] at h4 <;>
    cases a5 : d.slots kUsernameExt <;> cases b5 : d'.slots kUsernameExt <;> simp only [a5, b5, ParamSim] at h5 <;>
    try rfl
  rename_i e e'
  obtain ⟨hunq, hq, _⟩ := h5
  obtain ⟨hq1, hq2, _⟩ := hq trivial
  rw [paramUnq_unquoted _ hq1, paramUnq_unquoted _ hq2] at hunq
  simp only [hq1, hq2, hunq]

theorem rqUname_sim (s s' : Bytes) (term term' : Option UInt8) (d d' : DAuth) (ut : Nat) (h : DSim d d') :
    rqUname s term d ut = rqUname s' term' d' ut := by
  obtain ⟨hs, hu, _, _⟩ := h
  have h4 := hs kUsername
  have h5 := hs kUsernameExt
  unfold rqUname
  split
  · cases a4 : d.slots kUsername <;> cases b4 : d'.slots kUsername <;> simp only [a4, b4, ParamSim] at h4 <;> try rfl
    simp only [h4.1]
  · split
    · cases a4 : d.slots kUsername <;> cases b4 : d'.slots kUsername <;> simp only [a4, b4, ParamSim] at h4 <;> try rfl
      simp only [h4.1]
    · split
      · cases a5 : d.slots kUsernameExt <;> cases b5 : d'.slots kUsernameExt <;> simp only [a5, b5, ParamSim] at h5 <;> try rfl
        rename_i e e'
        obtain ⟨hunq, hq, _⟩ := h5
        obtain ⟨hq1, hq2, hc⟩ := hq trivial
        rw [paramUnq_unquoted _ hq1, paramUnq_unquoted _ hq2] at hunq
        simp only
        rw [extUname_complete e.raw _ hc, ← hunq, extUname_complete e.raw (byteAt s' term' _) hc]
      · rfl

theorem unquoteLoop_nil_iff (q : Bytes) (h : unquoteLoop q = some []) : q = [] := by
  cases q with
  | nil => rfl
  | cons c r =>
    by_cases hc : c = 92
    · subst hc
      cases r with
      | nil => simp [unquoteLoop_bs] at h
      | cons c2 r2 => simp [unquoteLoop_esc] at h
    · simp [unquoteLoop_plain _ _ hc] at h

theorem rqNc_sim (d d' : DAuth) (h : DSim d d') : rqNc d = rqNc d' := by
  have hn := h.1 kNc
  unfold rqNc
  cases a : d.slots kNc <;> cases b : d'.slots kNc <;> simp only [a, b, ParamSim] at hn <;> try rfl
  rename_i p p'
  obtain ⟨hunq, _, hnc⟩ := hn
  obtain ⟨hq', hq⟩ := hnc trivial
  rw [paramUnq_unquoted _ hq'] at hunq
  simp only [hq', Bool.not_false, if_true]
  cases hpq : p.quoted
  · rw [paramUnq_unquoted _ hpq] at hunq
    simp only [Bool.not_false, if_true, hunq]
  · obtain ⟨hlen, hne, hsome⟩ := hq hpq
    have hunq' : unquote p.raw = p'.raw := by simpa [paramUnq, hpq] using hunq
    have hnl : ¬ ncUnqBuf < p.raw.length := by omega
    have hp0 : p.raw.length ≠ 0 := by simpa using hne
    have hp'0 : p'.raw.length ≠ 0 := by
      intro h0
      have : p'.raw = [] := List.length_eq_zero_iff.mp h0
      rw [this] at hunq'
      cases hu : unquoteLoop p.raw with
      | none => exact hsome hu
      | some v =>
        simp only [unquote, hu, Option.getD_some] at hunq'
        subst hunq'
        exact hne (unquoteLoop_nil_iff _ hu)
    simp only [hp0, hp'0, if_false, Bool.not_true, Bool.false_eq_true, hnl, hunq']

/-- the structure returned by `MHD_digest_auth_get_request_info3`, the raw cnonce length aside -/
def eraseCnl : IRes DigestInfo → IRes DigestInfo
  | .ok i => .ok { i with cnonceLen := 0 }
  | .null => .null
  | .overread => .overread

theorem slot_unq_sim (d d' : DAuth) (h : DSim d d') (k : Nat) :
    (d.slots k).map paramUnq = (d'.slots k).map paramUnq := by
  have hk := h.1 k
  cases a : d.slots k <;> cases b : d'.slots k <;> simp only [a, b, ParamSim] at hk <;> try rfl
  simp [hk.1]

theorem requestInfo_sim (s s' : Bytes) (term term' : Option UInt8) (d d' : DAuth) (h : DSim d d') :
    eraseCnl (requestInfo s term d) = eraseCnl (requestInfo s' term' d') := by
  unfold requestInfo
  simp only [unameType_sim d d' h, fun ut => rqUname_sim s s' term term' d d' ut h, slot_unq_sim d d' h kOpaque,
    slot_unq_sim d d' h kRealm, rqNc_sim d d' h, h.2.2.1, h.2.2.2]
  split <;> rfl

theorem usernameInfo_sim (s s' : Bytes) (term term' : Option UInt8) (d d' : DAuth) (h : DSim d d') :
    usernameInfo s term d = usernameInfo s' term' d' := by
  unfold usernameInfo
  simp only [unameType_sim d d' h, fun ut => rqUname_sim s s' term term' d d' ut h, h.2.2.1]

/-! ### from the rendered list to the canonical parameters -/

def canonSlots (v : Nat → Option Bytes) : Slots := fun k => (v k).map fun b => ⟨0, b, false⟩

/-- the parameters written in the plainest way: every value as is, nothing quoted -/
def canon (v : Nat → Option Bytes) : DAuth :=
  { slots := canonSlots v, userhash := userhashSem (v kUserhash), algo3 := algoSem (v kAlgorithm), qop := qopSem (v kQop) }

/-- extra conditions under which the information API is rendering-independent: `username*` is not written
    with backslash escapes and its percent-encoding is complete; a backslash-escaped `nc` fits the 16-byte
    buffer of `get_rq_nc` -/
def Elem.infoWf (e : Elem) : Bool :=
  (e.item.slot != kUsernameExt || (!quotedOf e && extEncComplete e.item.value)) &&
  (e.item.slot != kNc || !quotedOf e || decide ((rawOf e).length ≤ ncUnqBuf))

def LastOf (Q : Elem → Prop) (k : Nat) (a : Option (Bytes × Bool)) (b : Option Bytes) : Prop :=
  (a = none ∧ b = none) ∨ ∃ e, Q e ∧ e.item.slot = k ∧ a = some (rawOf e, quotedOf e) ∧ b = some e.item.value

theorem lastOf_fold (Q : Elem → Prop) (k : Nat) (es : List Elem) (hq : ∀ e ∈ es, Q e) :
    ∀ (init : Option (Bytes × Bool)) (initv : Option Bytes), LastOf Q k init initv →
      LastOf Q k (rawView es init k) (es.foldl (fun acc e => if e.item.slot = k then some e.item.value else acc) initv) := by
  induction es with
  | nil => intro init initv h; exact h
  | cons e es ih =>
    intro init initv h
    simp only [rawView, List.foldl_cons]
    apply ih (fun x hx => hq x (by simp [hx]))
    by_cases hk : e.item.slot = k
    · simp only [hk, if_true]
      exact Or.inr ⟨e, hq e (by simp), hk, rfl, rfl⟩
    · simp only [hk, if_false]; exact h

theorem quoted_raw_ne (e : Elem) (h : quotedOf e = true) : rawOf e ≠ [] := by
  unfold quotedOf at h
  unfold rawOf
  cases hf : e.r.form with
  | token => simp [hf] at h
  | quoted esc =>
    simp only [hf] at h ⊢
    intro he
    have := escRender_of_anyEsc_false esc e.item.value
    cases hv : e.item.value with
    | nil => rw [hv] at h; cases esc <;> simp [anyEsc] at h
    | cons c r => rw [hv] at he; cases esc <;> simp only [escRender] at he <;> split at he <;> simp at he

theorem dsim_canon (es : List Elem) (d : DAuth) (hinfo : es.all Elem.infoWf = true)
    (hraw : ∀ k, (d.slots k).map pr = rawView es none k)
    (ha : d.algo3 = algoSem (view es kAlgorithm)) (hq : d.qop = qopSem (view es kQop))
    (hu : d.userhash = userhashSem (view es kUserhash)) : DSim d (canon (view es)) := by
  refine ⟨?_, hu, ha, hq⟩
  intro k
  have hl := lastOf_fold (fun e => e.infoWf = true) k es (fun e he => List.all_eq_true.mp hinfo e he) none none (Or.inl ⟨rfl, rfl⟩)
  rw [← hraw k] at hl
  change LastOf _ k _ (view es k) at hl
  unfold canon canonSlots
  simp only
  rcases hl with ⟨h1, h2⟩ | ⟨e, hwf, hslot, h1, h2⟩
  · rw [h2]
    cases hd : d.slots k with
    | none => simp [ParamSim]
    | some p => rw [hd] at h1; simp at h1
  · rw [h2]
    cases hd : d.slots k with
    | none => rw [hd] at h1; simp at h1
    | some p =>
      rw [hd] at h1
      simp only [Option.map_some, Option.some.injEq, pr, Prod.mk.injEq] at h1
      obtain ⟨hr, hqd⟩ := h1
      have hden := denotes_elem e
      rw [← hr, ← hqd] at hden
      have hunq : paramUnq p = e.item.value := by
        obtain ⟨off, raw, q⟩ := p
        exact paramUnq_denotes off (raw, q) _ hden
      simp only [ParamSim, Option.map_some]
      refine ⟨by rw [hunq]; simp [paramUnq], ?_, ?_⟩
      · intro hk
        subst hk
        simp only [Elem.infoWf, Bool.and_eq_true, Bool.or_eq_true, bne_iff_ne, ne_eq, Bool.not_eq_true',
          decide_eq_true_eq] at hwf
        rcases hwf.1 with h | h
        · exact absurd hslot h
        · have hqf : p.quoted = false := by rw [hqd]; exact h.1
          refine ⟨hqf, trivial, ?_⟩
          simp only [Denotes, hqf, Bool.false_eq_true, if_false] at hden
          rw [hden]; exact h.2
      · intro hk
        subst hk
        refine ⟨trivial, ?_⟩
        intro hpq
        simp only [Elem.infoWf, Bool.and_eq_true, Bool.or_eq_true, bne_iff_ne, ne_eq, Bool.not_eq_true',
          decide_eq_true_eq] at hwf
        have hqe : quotedOf e = true := by rw [← hqd]; exact hpq
        rcases hwf.2 with (h | h) | h
        · exact absurd hslot h
        · rw [hqe] at h; simp at h
        · refine ⟨by rw [hr]; exact h, by rw [hr]; exact quoted_raw_ne e hqe, ?_⟩
          simp only [Denotes, hpq, if_true] at hden
          rw [hden]; simp

/-- parse ∘ render followed by the information API: the structures returned for a rendered parameter
    list are those of the canonical (unquoted) parameters; only `cnonce_len`, which by its API definition
    counts the backslashes, is that of the rendering -/
theorem info_render (lead : Bytes) (es : List Elem) (t : UInt8) (ht : t ≠ 59) (hwf : WF lead es = true)
    (hinfo : es.all Elem.infoWf = true) (s' : Bytes) (term' : Option UInt8) :
    ∃ d, parseDigest (render lead es) (some t) = .ok d ∧
      eraseCnl (requestInfo (render lead es) (some t) d) = eraseCnl (requestInfo s' term' (canon (view es))) ∧
      usernameInfo (render lead es) (some t) d = usernameInfo s' term' (canon (view es)) ∧
      (d.slots kCnonce).map (fun p => p.raw.length) = (rawView es none kCnonce).map (fun x => x.1.length) := by
  obtain ⟨d, hp, hraw, ha, hq, hu⟩ := parseDigest_render_raw lead es t ht hwf
  obtain ⟨d2, hp2, _, ha2, hq2, hu2⟩ := parseDigest_render lead es t ht hwf
  rw [hp] at hp2
  simp only [Res.ok.injEq] at hp2
  subst hp2
  have hsim := dsim_canon es d hinfo hraw ha2 hq2 hu2
  refine ⟨d, hp, requestInfo_sim _ _ _ _ _ _ hsim, usernameInfo_sim _ _ _ _ _ _ hsim, ?_⟩
  rw [← hraw kCnonce]
  cases d.slots kCnonce <;> simp [pr]

end Mhd.Auth
