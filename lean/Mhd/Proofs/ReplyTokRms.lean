import Mhd.Proofs.ReplyTokRm
set_option linter.unusedSimpArgs false
set_option linter.unusedVariables false
namespace Mhd.Tok
open Mhd.ReplyStr Mhd.Resp

/-! ### specification of `MHD_str_remove_tokens_caseless_` (in-place model `removeTokensCaseless`) -/

theorem rd_at (A s0 : Bytes) (pw i : Nat) (hpw : pw = A.length) (h : pw ≤ i) :
    rd (A ++ s0.drop pw) i = s0[i]? := by
  unfold rd
  rw [List.getElem?_append_right (by omega), List.getElem?_drop]
  congr 1; omega

theorem wr_at (A s0 : Bytes) (pw : Nat) (c : UInt8) (hpw : pw = A.length) (h : pw < s0.length) :
    wr (A ++ s0.drop pw) pw c = some ((A ++ [c]) ++ s0.drop (pw + 1)) := by
  unfold wr
  have hl : pw < (A ++ s0.drop pw).length := by simp; omega
  rw [if_pos hl]
  congr 1
  rw [List.set_append_right _ _ (by omega)]
  have : pw - A.length = 0 := by omega
  rw [this]
  cases hd : s0.drop pw with
  | nil => have := congrArg List.length hd; simp at this; omega
  | cons x T =>
    have : s0.drop (pw + 1) = T := by
      rw [← List.drop_drop, hd]; rfl
    simp [this]

theorem drop_eq_getElem_cons' (s0 : Bytes) (i : Nat) (c : UInt8) (T : Bytes) (h : s0.drop i = c :: T) :
    s0[i]? = some c ∧ s0.drop (i + 1) = T ∧ i < s0.length := by
  have h1 : s0[i]? = (s0.drop i)[0]? := by rw [List.getElem?_drop]; simp
  have h2 : s0.drop (i + 1) = T := by rw [← List.drop_drop, h]; rfl
  have h3 : i < s0.length := by
    have := congrArg List.length h; simp at this; omega
  exact ⟨by rw [h1, h]; rfl, h2, h3⟩
theorem copyTok_spec (s0 : Bytes) (len : Nat) : ∀ (fuel : Nat) (e : Bytes) (A Y : Bytes) (pr pw : Nat),
    e ≠ [] → (∀ b ∈ e, b ≠ 44) → e.length ≤ fuel → pw = A.length → pw ≤ pr →
    s0.drop pr = e ++ Y → pr + e.length ≤ len → (pr + e.length = len ∨ Y.head? = some 44) →
    copyTok len fuel (A ++ s0.drop pw) pr pw
      = some ((A ++ e) ++ s0.drop (pw + e.length), pr + e.length, pw + e.length) := by
  intro fuel
  induction fuel with
  | zero =>
    intro e A Y pr pw he _ hf
    cases e with
    | nil => exact absurd rfl he
    | cons _ _ => simp at hf
  | succ f ih =>
    intro e A Y pr pw he hnc hf hpw hle hdrop hlen hend
    cases e with
    | nil => exact absurd rfl he
    | cons c e' =>
      obtain ⟨hc, hd1, hlt⟩ := drop_eq_getElem_cons' s0 pr c (e' ++ Y) hdrop
      have step1 : (if (pr != pw) = true then (rd (A ++ s0.drop pw) pr).bind (fun c => wr (A ++ s0.drop pw) pw c)
            else some (A ++ s0.drop pw)) = some ((A ++ [c]) ++ s0.drop (pw + 1)) := by
        by_cases hpp : pr = pw
        · subst hpp
          simp only [bne_self_eq_false, Bool.false_eq_true, if_false]
          rw [hdrop, hd1]; simp
        · have : (pr != pw) = true := by simpa using hpp
          rw [if_pos this, rd_at A s0 pw pr hpw hle, hc]
          simp only [Option.bind_some]
          exact wr_at A s0 pw c hpw (by omega)
      unfold copyTok
      simp only [bind, Option.bind] at step1 ⊢
      rw [step1]
      simp only
      by_cases hl1 : pr + 1 < len
      · rw [if_pos hl1]
        rw [rd_at (A ++ [c]) s0 (pw + 1) (pr + 1) (by simp [hpw]) (by omega)]
        cases e' with
        | nil =>
          simp only [List.length_cons, List.length_nil] at hend hlen
          rcases hend with hend | hend
          · omega
          · simp only [List.nil_append] at hd1
            cases Y with
            | nil => simp at hend
            | cons y Y' =>
              simp at hend; subst hend
              obtain ⟨hy, _, _⟩ := drop_eq_getElem_cons' s0 (pr + 1) 44 Y' hd1
              rw [hy]
              simp
        | cons d e'' =>
          obtain ⟨hy, _, _⟩ := drop_eq_getElem_cons' s0 (pr + 1) d (e'' ++ Y) hd1
          rw [hy]
          have hd44 : d ≠ 44 := hnc d (by simp)
          simp only [hd44, bne_iff_ne, ne_eq, not_false_eq_true, if_true]
          have := ih (d :: e'') (A ++ [c]) Y (pr + 1) (pw + 1) (by simp) (fun b hb => hnc b (by simp [hb]))
            (by simp at hf ⊢; omega) (by simp [hpw]) (by omega) hd1 (by simp at hlen ⊢; omega)
            (by rcases hend with h | h
                · left; simp at h ⊢; omega
                · right; exact h)
          rw [this]
          simp [List.append_assoc, Nat.add_assoc, Nat.add_comm 1]
      · rw [if_neg hl1]
        have : e' = [] := by
          cases e' with
          | nil => rfl
          | cons _ _ => simp at hlen; omega
        subst this
        simp

theorem moveDown_spec (s0 : Bytes) : ∀ (n : Nat) (X A Y : Bytes) (dst src : Nat),
    X.length = n → dst = A.length → dst ≤ src → s0.drop src = X ++ Y →
    moveDown n (A ++ s0.drop dst) dst src = some ((A ++ X) ++ s0.drop (dst + n)) := by
  intro n
  induction n with
  | zero =>
    intro X A Y dst src hx _ _ _
    have : X = [] := List.length_eq_zero_iff.1 hx
    subst this
    simp [moveDown]
  | succ n ih =>
    intro X A Y dst src hx hd hle hdrop
    cases X with
    | nil => simp at hx
    | cons c X' =>
      obtain ⟨hc, hd1, hlt⟩ := drop_eq_getElem_cons' s0 src c (X' ++ Y) hdrop
      unfold moveDown
      simp only [bind, Option.bind]
      rw [rd_at A s0 dst src hd hle, hc]
      simp only
      rw [wr_at A s0 dst c hd (by omega)]
      simp only
      rw [ih X' (A ++ [c]) Y (dst + 1) (src + 1) (by simpa using hx) (by simp [hd]) (by omega) hd1]
      simp [List.append_assoc, Nat.add_assoc, Nat.add_comm 1]

/-- `sepWrite`: nothing at the very beginning, otherwise `", "` is (or already stands) behind what was written -/
theorem sepWrite_spec (A s0 : Bytes) (pr pw : Nat) (hpw : pw = A.length)
    (h : (pr = 0 ∧ pw = 0) ∨ (pw + 2 ≤ pr ∧ pr < s0.length ∧ s0.drop (pr - 2) = 44 :: 32 :: s0.drop pr)) :
    sepWrite (A ++ s0.drop pw) pr pw =
      some ((if pw = 0 then A else A ++ [44, 32]) ++ s0.drop (if pw = 0 then pw else pw + 2), if pw = 0 then pw else pw + 2) := by
  unfold sepWrite
  by_cases h0 : pw = 0
  · subst h0; simp
  · have hb : (pw != 0) = true := by simpa using h0
    rw [if_pos hb]
    simp only [h0, if_false]
    rcases h with ⟨_, h⟩ | ⟨h1, h2, h3⟩
    · exact absurd h h0
    · by_cases hp : pr = pw + 2
      · have : (pr != pw + 2) = false := by simp [hp]
        rw [this]
        simp only [Bool.false_eq_true, if_false]
        subst hp
        simp only [Nat.add_sub_cancel] at h3
        rw [h3]; simp
      · have : (pr != pw + 2) = true := by simpa using hp
        rw [if_pos this]
        simp only [bind, Option.bind]
        rw [wr_at A s0 pw 44 hpw (by omega)]
        simp only
        rw [wr_at (A ++ [44]) s0 (pw + 1) 32 (by simp [hpw]) (by omega)]
        simp [List.append_assoc]

/-! #### positions in a `", "`-list -/

theorem joinE_length_cons (e : Bytes) (t : List Bytes) :
    (joinE (e :: t)).length = e.length + (if t = [] then 0 else 2 + (joinE t).length) := by
  cases t with
  | nil => simp [joinE]
  | cons a b => simp [joinE]; omega

theorem joinE_length_sublist {d p : List Bytes} (h : d.Sublist p) : (joinE d).length ≤ (joinE p).length := by
  induction h with
  | slnil => simp
  | @cons d' t a hs ih =>
    rw [joinE_length_cons]
    split
    · rename_i ht; subst ht
      have := List.sublist_nil.1 hs; subst this; simp [joinE]
    · omega
  | @cons_cons d' t a hs ih =>
    rw [joinE_length_cons, joinE_length_cons]
    by_cases hd : d' = []
    · subst hd; simp
    · have ht : t ≠ [] := by intro h; subst h; exact hd (List.sublist_nil.1 hs)
      simp [hd, ht]; omega

/-- read position after the elements `p` have been consumed -/
def pos (p : List Bytes) : Nat := if p = [] then 0 else (joinE p).length + 2

theorem pos_append (p a : List Bytes) (ha : a ≠ []) : pos (p ++ a) = pos p + (joinE a).length + 2 := by
  unfold pos
  by_cases hp : p = []
  · subst hp; simp [ha]
  · have : p ++ a ≠ [] := by simp [hp]
    simp only [this, hp, if_false]
    rw [joinE_append p a hp ha]; simp; omega

theorem joinE_split (p rest : List Bytes) (hr : rest ≠ []) :
    ∃ X, joinE (p ++ rest) = X ++ joinE rest ∧ X.length = pos p ∧ (p ≠ [] → X = joinE p ++ [44, 32]) := by
  by_cases hp : p = []
  · subst hp; exact ⟨[], by simp, by simp [pos], fun h => absurd rfl h⟩
  · refine ⟨joinE p ++ [44, 32], ?_, ?_, fun _ => rfl⟩
    · rw [joinE_append p rest hp hr]; simp
    · simp [pos, hp]

theorem elem_getElem_ne (e : Bytes) (he : ∀ b ∈ e, b ≠ 44) (n : Nat) (h : e[n]? = some 44) : False := by
  have := List.mem_of_getElem? h
  exact he 44 this rfl

/-- a comma (or the end) of a `", "`-list stands directly behind a whole number of elements -/
theorem comma_split : ∀ (rest : List Bytes), rest ≠ [] → (∀ e ∈ rest, ElemOK e) → ∀ n,
    (n = (joinE rest).length ∨ (n < (joinE rest).length ∧ (joinE rest)[n]? = some 44)) →
    ∃ a b, rest = a ++ b ∧ a ≠ [] ∧ (joinE a).length = n
  | [], h, _, _, _ => absurd rfl h
  | [e], _, hok, n, hn => by
    rcases hn with hn | ⟨_, hn⟩
    · exact ⟨[e], [], rfl, by simp, hn.symm⟩
    · exact (elem_getElem_ne e (hok e (by simp)).2 n (by simpa [joinE] using hn)).elim
  | e :: e' :: t, _, hok, n, hn => by
    rcases hn with hn | ⟨hlt, hn⟩
    · exact ⟨e :: e' :: t, [], by simp, by simp, hn.symm⟩
    · simp only [joinE] at hn hlt
      by_cases h1 : n < e.length
      · rw [List.getElem?_append_left h1] at hn
        exact (elem_getElem_ne e (hok e (by simp)).2 n hn).elim
      · rw [List.getElem?_append_right (by omega)] at hn
        by_cases h2 : n = e.length
        · exact ⟨[e], e' :: t, rfl, by simp, by simp [joinE, h2]⟩
        · by_cases h3 : n = e.length + 1
          · subst h3; simp at hn
          · obtain ⟨k, hk⟩ : ∃ k, n - e.length = k + 2 := ⟨n - e.length - 2, by omega⟩
            rw [hk] at hn
            simp only [List.getElem?_cons_succ] at hn
            have hlt' : k < (joinE (e' :: t)).length := by simp at hlt; omega
            obtain ⟨a, b, hab, ha, hl⟩ := comma_split (e' :: t) (by simp) (fun x hx => hok x (by simp [hx])) k
              (Or.inr ⟨hlt', hn⟩)
            refine ⟨e :: a, b, by simp [hab], by simp, ?_⟩
            rw [joinE_length_cons]; simp [ha]; omega

/-! #### one removal pass -/

/-- state of the in-place pass over the list `all` (followed in the buffer by `G`): the elements `processed`
    have been read, `done` of them are kept and stand (joined) at the start of the buffer, the buffer behind
    the write position is still untouched -/
structure PInv (all : List Bytes) (G : Bytes) (processed rest done : List Bytes) (s : Bytes) (pr pw : Nat) : Prop where
  hok : ∀ e ∈ all, ElemOK e
  hall : all = processed ++ rest
  hsub : done.Sublist processed
  hs : s = joinE done ++ (joinE all ++ G).drop pw
  hpw : pw = (joinE done).length
  hpr : pr = pos processed

theorem PInv.facts {all G processed rest done s pr pw} (I : PInv all G processed rest done s pr pw) (hr : rest ≠ []) :
    (joinE all ++ G).drop pr = joinE rest ++ G ∧ pr + (joinE rest).length = (joinE all).length ∧
    ((pr = 0 ∧ pw = 0) ∨ (pw + 2 ≤ pr ∧ pr < (joinE all ++ G).length ∧
        (joinE all ++ G).drop (pr - 2) = 44 :: 32 :: (joinE all ++ G).drop pr)) ∧ pw ≤ pr := by
  obtain ⟨X, hx1, hx2, hx3⟩ := joinE_split processed rest hr
  have hrne : joinE rest ≠ [] := fun h =>
    hr ((joinE_eq_nil rest (fun e he => I.hok e (by rw [I.hall]; simp [he]))).1 h)
  have hrl : 0 < (joinE rest).length := List.length_pos_iff.2 hrne
  have e1 : (joinE all ++ G).drop pr = joinE rest ++ G := by
    rw [I.hall, hx1, I.hpr, ← hx2, List.append_assoc, List.drop_left]
  have e2 : pr + (joinE rest).length = (joinE all).length := by
    rw [I.hall, hx1, I.hpr, ← hx2]; simp
  refine ⟨e1, e2, ?_, ?_⟩
  · by_cases hp : processed = []
    · left
      have hd : done = [] := by have := I.hsub; rw [hp] at this; exact List.sublist_nil.1 this
      exact ⟨by rw [I.hpr, hp]; rfl, by rw [I.hpw, hd]; rfl⟩
    · right
      have hl := joinE_length_sublist I.hsub
      have hprv : pr = (joinE processed).length + 2 := by rw [I.hpr]; simp [pos, hp]
      refine ⟨by rw [I.hpw, hprv]; omega, by simp; omega, ?_⟩
      rw [e1, I.hall, hx1, hx3 hp, hprv]
      simp only [Nat.add_sub_cancel, List.append_assoc]
      rw [List.drop_left]; simp
  · by_cases hp : processed = []
    · have hd : done = [] := by have := I.hsub; rw [hp] at this; exact List.sublist_nil.1 this
      rw [I.hpw, hd]; simp [joinE]
    · have hl := joinE_length_sublist I.hsub
      rw [I.hpw, I.hpr]; simp [pos, hp]; omega

theorem passMatch_true (tkn : Bytes) (len : Nat) (s : Bytes) (pr : Nat) (h : passMatch tkn len s pr = some true) :
    len = pr + tkn.length ∨ rd s (pr + tkn.length) = some 44 := by
  unfold passMatch at h
  simp only [bind, Option.bind] at h
  by_cases hl : len = pr + tkn.length
  · exact Or.inl hl
  · right
    have : (len == pr + tkn.length) = false := by simpa using hl
    simp only [this, Bool.false_eq_true, if_false] at h
    cases hrd : rd s (pr + tkn.length) with
    | none => rw [hrd] at h; simp at h
    | some c =>
      rw [hrd] at h
      simp only at h
      by_cases hc : c = 44
      · rw [hc]
      · have : (c == 44) = false := by simpa using hc
        simp [this] at h

theorem joinE_snoc (done : List Bytes) (e : Bytes) (hok : ∀ x ∈ done, ElemOK x) :
    (if (joinE done).length = 0 then joinE done else joinE done ++ [44, 32]) ++ e = joinE (done ++ [e]) := by
  by_cases hd : done = []
  · subst hd; simp [joinE]
  · have : joinE done ≠ [] := fun h => hd ((joinE_eq_nil done hok).1 h)
    have hl : (joinE done).length ≠ 0 := fun h => this (List.length_eq_zero_iff.1 h)
    simp only [hl, if_false]
    rw [joinE_append done [e] hd (by simp)]; simp [joinE]

theorem passStep_spec (tkn : Bytes) (all : List Bytes) (G : Bytes) (processed rest done : List Bytes) (s : Bytes)
    (pr pw : Nat) (rem : Bool) (I : PInv all G processed rest done s pr pw) (hr : rest ≠ [])
    (hfit : pr + tkn.length ≤ (joinE all).length) (s1 : Bytes) (pr1 pw1 : Nat) (rem1 : Bool)
    (h : passStep tkn (joinE all).length s pr pw rem = some (s1, pr1, pw1, rem1)) :
    ∃ a b done', rest = a ++ b ∧ a ≠ [] ∧ PInv all G (processed ++ a) b done' s1 pr1 pw1 := by
  obtain ⟨f1, f2, f3, f4⟩ := I.facts hr
  have hokr : ∀ e ∈ rest, ElemOK e := fun e he => I.hok e (by rw [I.hall]; simp [he])
  unfold passStep at h
  simp only [bind, Option.bind] at h
  cases hm : passMatch tkn (joinE all).length s pr with
  | none => rw [hm] at h; simp at h
  | some m =>
    rw [hm] at h
    simp only at h
    cases m with
    | true =>
      simp only [if_true, Option.some.injEq, Prod.mk.injEq] at h
      obtain ⟨rfl, rfl, rfl, rfl⟩ := h
      have hb : tkn.length = (joinE rest).length ∨
          (tkn.length < (joinE rest).length ∧ (joinE rest)[tkn.length]? = some 44) := by
        by_cases hlt : tkn.length < (joinE rest).length
        · right
          refine ⟨hlt, ?_⟩
          rcases passMatch_true _ _ _ _ hm with h1 | h1
          · omega
          · rw [I.hs, rd_at _ _ pw _ I.hpw (by omega)] at h1
            have : (joinE all ++ G)[pr + tkn.length]? = ((joinE all ++ G).drop pr)[tkn.length]? := by
              rw [List.getElem?_drop]
            rw [this, f1, List.getElem?_append_left hlt] at h1
            exact h1
        · left; omega
      obtain ⟨a, b, hab, ha, hl⟩ := comma_split rest hr hokr _ hb
      refine ⟨a, b, s |> fun _ => done, hab, ha, ⟨I.hok, by rw [I.hall, hab, List.append_assoc], ?_, I.hs, I.hpw, ?_⟩⟩
      · exact I.hsub.trans (List.sublist_append_left _ _)
      · rw [pos_append _ _ ha, I.hpr, hl]
    | false =>
      simp only [Bool.false_eq_true, if_false] at h
      cases rest with
      | nil => exact absurd rfl hr
      | cons e rest' =>
        have hoke := hokr e (by simp)
        have hokd : ∀ x ∈ done, ElemOK x := fun x hx => I.hok x (by rw [I.hall]; simp [I.hsub.subset hx])
        -- what follows the element
        obtain ⟨Y, hY1, hY2⟩ : ∃ Y, joinE (e :: rest') ++ G = e ++ Y ∧
            (e.length = (joinE (e :: rest')).length ∨ Y.head? = some 44) := by
          cases rest' with
          | nil => exact ⟨G, by simp [joinE], Or.inl (by simp [joinE])⟩
          | cons x t => exact ⟨44 :: 32 :: joinE (x :: t) ++ G, by simp [joinE], Or.inr rfl⟩
        have hel : e.length ≤ (joinE (e :: rest')).length := by rw [joinE_length_cons]; omega
        rw [I.hs, sepWrite_spec (joinE done) (joinE all ++ G) pr pw I.hpw f3] at h
        simp only at h
        have hpw' : (if pw = 0 then pw else pw + 2) = (if pw = 0 then joinE done else joinE done ++ [44, 32]).length := by
          by_cases h0 : pw = 0
          · simp [h0]; rw [← I.hpw, h0]
          · simp [h0]; exact I.hpw
        rw [copyTok_spec (joinE all ++ G) (joinE all).length _ e _ Y pr _ hoke.1 hoke.2 (by omega) hpw'
            (by split <;> rcases f3 with ⟨_, _⟩ | ⟨_, _, _⟩ <;> omega) (by rw [f1, hY1]) (by omega)
            (by rcases hY2 with h | h
                · left; omega
                · right; exact h)] at h
        simp only [Option.some.injEq, Prod.mk.injEq] at h
        obtain ⟨rfl, rfl, rfl, rfl⟩ := h
        have hj : (if pw = 0 then joinE done else joinE done ++ [44, 32]) ++ e = joinE (done ++ [e]) := by
          rw [← joinE_snoc done e hokd, I.hpw]
        refine ⟨[e], rest', done ++ [e], rfl, by simp, ⟨I.hok, by rw [I.hall]; simp, ?_, ?_, ?_, ?_⟩⟩
        · exact List.Sublist.append I.hsub (List.Sublist.refl _)
        · rw [hj]
        · rw [← hj]; simp [← hpw']
        · rw [pos_append _ _ (by simp), I.hpr]; simp [joinE]

theorem joinE_app' (done rest : List Bytes) (hok : ∀ x ∈ done, ElemOK x) (hr : rest ≠ []) :
    (if (joinE done).length = 0 then joinE done else joinE done ++ [44, 32]) ++ joinE rest = joinE (done ++ rest) := by
  by_cases hd : done = []
  · subst hd; simp [joinE]
  · have : joinE done ≠ [] := fun h => hd ((joinE_eq_nil done hok).1 h)
    have hl : (joinE done).length ≠ 0 := fun h => this (List.length_eq_zero_iff.1 h)
    simp only [hl, if_false]
    rw [joinE_append done rest hd hr]; simp

/-- result of a pass: a `", "`-list of a sublist of the elements stands at the start of the buffer -/
def PassOut (all : List Bytes) (s : Bytes) (pw : Nat) : Prop :=
  ∃ fs tail, fs.Sublist all ∧ s = joinE fs ++ tail ∧ pw = (joinE fs).length

theorem PInv.out {all G processed rest done s pr pw} (I : PInv all G processed rest done s pr pw) : PassOut all s pw :=
  ⟨done, _, by rw [I.hall]; exact I.hsub.trans (List.sublist_append_left _ _), I.hs, I.hpw⟩

theorem passFinish_spec (all : List Bytes) (G : Bytes) (processed rest done : List Bytes) (s : Bytes)
    (pr pw : Nat) (I : PInv all G processed rest done s pr pw) (sb : Bytes) (pwb : Nat)
    (h : passFinish (joinE all).length s pr pw = some (sb, pwb)) : PassOut all sb pwb := by
  unfold passFinish at h
  by_cases hr : rest = []
  · have : ¬ (joinE all).length > pr := by
      have hp : processed = all := by rw [I.hall, hr]; simp
      rw [I.hpr, hp]; unfold pos
      split
      · rename_i ha; rw [ha]; simp [joinE]
      · omega
    rw [if_neg this] at h
    simp only [Option.some.injEq, Prod.mk.injEq] at h
    obtain ⟨rfl, rfl⟩ := h
    exact I.out
  · obtain ⟨f1, f2, f3, f4⟩ := I.facts hr
    have hokr : ∀ e ∈ rest, ElemOK e := fun e he => I.hok e (by rw [I.hall]; simp [he])
    have hokd : ∀ x ∈ done, ElemOK x := fun x hx => I.hok x (by rw [I.hall]; simp [I.hsub.subset hx])
    have hrne : joinE rest ≠ [] := fun h => hr ((joinE_eq_nil rest hokr).1 h)
    have hrl : 0 < (joinE rest).length := List.length_pos_iff.2 hrne
    have : (joinE all).length > pr := by omega
    rw [if_pos this] at h
    simp only [bind, Option.bind] at h
    rw [I.hs, sepWrite_spec (joinE done) (joinE all ++ G) pr pw I.hpw f3] at h
    simp only at h
    have hpw' : (if pw = 0 then pw else pw + 2) = (if pw = 0 then joinE done else joinE done ++ [44, 32]).length := by
      by_cases h0 : pw = 0
      · simp [h0]; rw [← I.hpw, h0]
      · simp [h0]; exact I.hpw
    have hle : (if pw = 0 then pw else pw + 2) ≤ pr := by
      split <;> rcases f3 with ⟨_, _⟩ | ⟨_, _, _⟩ <;> omega
    have hcs : (joinE all).length - pr = (joinE rest).length := by omega
    have hj : (if pw = 0 then joinE done else joinE done ++ [44, 32]) ++ joinE rest = joinE (done ++ rest) := by
      rw [← joinE_app' done rest hokd hr, I.hpw]
    have hsubl : (done ++ rest).Sublist all := by
      rw [I.hall]; exact List.Sublist.append I.hsub (List.Sublist.refl _)
    by_cases hpp : pr = (if pw = 0 then pw else pw + 2)
    · have : (pr != (if pw = 0 then pw else pw + 2)) = false := by simp [← hpp]
      rw [this] at h
      simp only [Bool.false_eq_true, if_false, Option.some.injEq, Prod.mk.injEq] at h
      obtain ⟨rfl, rfl⟩ := h
      refine ⟨done ++ rest, G, hsubl, ?_, ?_⟩
      · rw [← hpp, f1, ← List.append_assoc, hj]
      · rw [← hj, hcs]; simp [← hpw']
    · have : (pr != (if pw = 0 then pw else pw + 2)) = true := by simpa using hpp
      rw [this, hcs] at h
      simp only [if_true] at h
      rw [moveDown_spec (joinE all ++ G) _ (joinE rest) _ G _ pr rfl hpw' hle f1] at h
      simp only [Option.some.injEq, Prod.mk.injEq] at h
      obtain ⟨rfl, rfl⟩ := h
      refine ⟨done ++ rest, _, hsubl, by rw [hj], ?_⟩
      rw [← hj]; simp [← hpw']

theorem removePass_spec (tkn : Bytes) (all : List Bytes) (G : Bytes) :
    ∀ (fuel : Nat) (processed rest done : List Bytes) (s : Bytes) (pr pw : Nat) (rem : Bool),
    PInv all G processed rest done s pr pw → rest ≠ [] → pr + tkn.length ≤ (joinE all).length →
    ∀ s' pw' rem', removePass tkn (joinE all).length fuel s pr pw rem = some (s', pw', rem') → PassOut all s' pw' := by
  intro fuel
  induction fuel with
  | zero =>
    intro processed rest done s pr pw rem I _ _ s' pw' rem' h
    simp only [removePass, Option.some.injEq, Prod.mk.injEq] at h
    obtain ⟨rfl, rfl, _⟩ := h
    exact I.out
  | succ f ih =>
    intro processed rest done s pr pw rem I hr hfit s' pw' rem' h
    unfold removePass at h
    cases hps : passStep tkn (joinE all).length s pr pw rem with
    | none => rw [hps] at h; simp at h
    | some q =>
      obtain ⟨s1, pr1, pw1, rem1⟩ := q
      rw [hps] at h
      simp only at h
      obtain ⟨a, b, done', hab, ha, I'⟩ := passStep_spec tkn all G processed rest done s pr pw rem I hr hfit _ _ _ _ hps
      by_cases hfin : (joinE all).length < pr1 + tkn.length
      · rw [if_pos hfin] at h
        cases hpf : passFinish (joinE all).length s1 pr1 pw1 with
        | none => rw [hpf] at h; simp at h
        | some q2 =>
          obtain ⟨sb, pwb⟩ := q2
          rw [hpf] at h
          simp only [Option.some.injEq, Prod.mk.injEq] at h
          obtain ⟨rfl, rfl, _⟩ := h
          exact passFinish_spec all G _ _ _ _ _ _ I' _ _ hpf
      · rw [if_neg hfin] at h
        have hb : b ≠ [] := by
          intro hb
          have hp : processed ++ a = all := by rw [I'.hall, hb]; simp
          have : pr1 = (joinE all).length + 2 := by
            rw [I'.hpr, hp]; unfold pos
            have : all ≠ [] := by rw [← hp]; simp [ha]
            simp [this]
          omega
        exact ih _ _ _ _ _ _ _ I' hb (by omega) _ _ _ h

/-! #### all tokens -/

theorem removeTokensLoop_spec : ∀ (fuel : Nat) (st : InPlace) (t : Bytes) (res : InPlace) (cur : List Bytes) (tail : Bytes),
    (∀ e ∈ cur, ElemOK e) → st.str = joinE cur ++ tail → st.len = (joinE cur).length →
    removeTokensLoop fuel st t = some res → PassOut cur res.str res.len := by
  intro fuel
  induction fuel with
  | zero =>
    intro st t res cur tail hok hs hl h
    simp only [removeTokensLoop, Option.some.injEq] at h
    subst h
    exact ⟨cur, tail, List.Sublist.refl _, hs, hl⟩
  | succ f ih =>
    intro st t res cur tail hok hs hl h
    have base : ∀ r : InPlace, some st = some r → PassOut cur r.str r.len := by
      intro r hr; simp only [Option.some.injEq] at hr; subst hr
      exact ⟨cur, tail, List.Sublist.refl _, hs, hl⟩
    have lift : ∀ (fs : List Bytes) (r : InPlace), fs.Sublist cur → PassOut fs r.str r.len → PassOut cur r.str r.len := by
      intro fs r hsub ⟨gs, tl, h1, h2, h3⟩
      exact ⟨gs, tl, h1.trans hsub, h2, h3⟩
    unfold removeTokensLoop at h
    by_cases h0 : (t.isEmpty || st.len == 0) = true
    · rw [if_pos h0] at h; exact base _ h
    · rw [if_neg h0] at h
      simp only at h
      cases ht1 : t.dropWhile isWsComma with
      | nil => rw [ht1] at h; exact base _ h
      | cons c t1' =>
        rw [ht1] at h
        simp only at h
        generalize nextTokWords ((c :: t1').length + 1) [] [] (c :: t1') = nt at h
        obtain ⟨tkn, rest⟩ := nt
        simp only at h
        by_cases hA : (st.len == tkn.length) = true
        · rw [if_pos hA] at h
          cases he : eqCaselessBinN st.str tkn tkn.length with
          | none => rw [he] at h; simp at h
          | some b =>
            rw [he] at h
            cases b with
            | true =>
              simp only at h
              have := ih { st with len := 0, removed := true } rest res [] st.str (by intro e he; cases he) (by simp [joinE])
                (by simp [joinE]) h
              exact lift [] res (List.nil_sublist _) this
            | false =>
              simp only at h
              exact ih st rest res cur tail hok hs hl h
        · rw [if_neg hA] at h
          by_cases hB : st.len > tkn.length + 2
          · rw [if_pos hB] at h
            cases hp : removePass tkn st.len (st.len + 1) st.str 0 0 st.removed with
            | none => rw [hp] at h; simp at h
            | some q =>
              obtain ⟨s1, pw, rem⟩ := q
              rw [hp] at h
              simp only at h
              have hcne : cur ≠ [] := by
                intro hc; rw [hc] at hl; simp [joinE] at hl; omega
              have I0 : PInv cur tail [] cur [] st.str 0 0 :=
                ⟨hok, by simp, List.Sublist.refl _, by simp [joinE, hs], by simp [joinE], by simp [pos]⟩
              rw [hl] at hp
              obtain ⟨fs, tl, h1, h2, h3⟩ := removePass_spec tkn cur tail _ _ _ _ _ _ _ _ I0 hcne (by omega) _ _ _ hp
              have := ih { str := s1, len := pw, removed := rem } rest res fs tl
                (fun e he => hok e (h1.subset he)) h2 h3 h
              exact lift fs res h1 this
          · rw [if_neg hB] at h
            exact ih st rest res cur tail hok hs hl h

/-- SPEC of `MHD_str_remove_tokens_caseless_` on a `", "`-list: whatever tokens are given, what is left is the
    `", "`-list of a sublist of the elements (nothing is invented, reordered or glued together) -/
theorem removeTokens_sublist_spec (es : List Bytes) (toks out : Bytes) (rem : Bool) (hok : ∀ e ∈ es, ElemOK e)
    (h : removeTokensCaseless (joinE es) toks = some ⟨out, rem⟩) :
    ∃ fs : List Bytes, fs.Sublist es ∧ out = joinE fs := by
  unfold removeTokensCaseless at h
  cases hl : removeTokensLoop (toks.length + 1) ⟨joinE es, (joinE es).length, false⟩ toks with
  | none => rw [hl] at h; simp at h
  | some st =>
    rw [hl] at h
    simp only [Option.some.injEq, RemoveRes.mk.injEq] at h
    obtain ⟨fs, tl, h1, h2, h3⟩ := removeTokensLoop_spec _ _ _ _ es [] hok (by simp) rfl hl
    refine ⟨fs, h1, ?_⟩
    rw [← h.1, h2, h3]; simp

/-- both editor specifications hold: nothing is assumed any more -/
theorem editorSpecs : EditorSpecs :=
  ⟨removeToken_close_spec, fun es toks out rem hok h => removeTokens_sublist_spec es toks out rem hok h⟩
end Mhd.Tok
