import Mhd.Model.ConnMem
import Mhd.Proofs.PoolInv
namespace Mhd.ConnMem
open Mhd.Pool

/-- the cursor part of the pool invariant (no statement about the bytes) -/
def Geo (p : Pool) : Prop :=
  p.pos ≤ p.end_ ∧ p.end_ ≤ p.size ∧ p.pos % A = 0 ∧ p.end_ % A = 0 ∧ p.size % A = 0 ∧ p.size < 2 ^ 62

/-- safety invariant of the buffer layer -/
def CMInv (c : CM) : Prop :=
  Geo c.p ∧ c.poolSize ≤ c.p.size ∧
  (match c.rb with
   | none => c.rbSize = 0 ∧ c.rbOff = 0
   | some r => c.rbBase ≤ r ∧ c.rbOff ≤ c.rbSize ∧ r + c.rbSize ≤ c.p.pos) ∧
  (c.sending = false →
     c.wb = none ∧ c.wbSize = 0 ∧ c.wbApp = 0 ∧ c.wbSend = 0 ∧
     ∀ r, c.rb = some r → c.p.pos = roundUp (r + c.rbSize)) ∧
  (c.sending = true →
     match c.wb with
     | none => c.wbSize = 0 ∧ c.wbApp = 0 ∧ c.wbSend = 0
     | some w => w % A = 0 ∧ c.wbSend ≤ c.wbApp ∧ c.wbApp ≤ c.wbSize ∧ w + c.wbSize ≤ c.p.pos ∧
                 c.p.pos = roundUp (w + c.wbSize) ∧ ∀ r, c.rb = some r → r + c.rbSize ≤ w)

/-- the statement the property is about: both windows lie inside the arena, below
    the back-allocated region, with ordered cursors, and do not overlap -/
def WindowsInside (c : CM) : Prop :=
  c.p.pos ≤ c.p.end_ ∧ c.p.end_ ≤ c.p.size ∧
  c.rbOff ≤ c.rbSize ∧ c.wbSend ≤ c.wbApp ∧ c.wbApp ≤ c.wbSize ∧
  (∀ r, c.rb = some r → r + c.rbSize ≤ c.p.pos) ∧ (c.rb = none → c.rbSize = 0) ∧
  (∀ w, c.wb = some w → w + c.wbSize ≤ c.p.pos) ∧ (c.wb = none → c.wbSize = 0) ∧
  (∀ r w, c.rb = some r → c.wb = some w → 0 < c.rbSize → 0 < c.wbSize → r + c.rbSize ≤ w ∨ w + c.wbSize ≤ r)

theorem windows_of_inv (c : CM) (h : CMInv c) : WindowsInside c := by
  obtain ⟨hg, _, hrb, hr, hs⟩ := h
  obtain ⟨g1, g2, _⟩ := hg
  cases hsd : c.sending
  · have := hr hsd
    obtain ⟨w0, w1, w2, w3, _⟩ := this
    refine ⟨g1, g2, ?_, by omega, by omega, ?_, ?_, ?_, ?_, ?_⟩
    · cases hb : c.rb <;> simp [hb] at hrb <;> omega
    · intro r hb; simp [hb] at hrb; omega
    · intro hb; simp [hb] at hrb; omega
    · intro w hw; rw [w0] at hw; simp at hw
    · intro _; exact w1
    · intro r w _ hw; rw [w0] at hw; simp at hw
  · have := hs hsd
    cases hw : c.wb with
    | none =>
      simp [hw] at this
      refine ⟨g1, g2, ?_, by omega, by omega, ?_, ?_, ?_, ?_, ?_⟩
      · cases hb : c.rb <;> simp [hb] at hrb <;> omega
      · intro r hb; simp [hb] at hrb; omega
      · intro hb; simp [hb] at hrb; omega
      · intro w hw'; rw [hw] at hw'; exact absurd hw' (by simp)
      · intro _; omega
      · intro r w _ hw'; rw [hw] at hw'; exact absurd hw' (by simp)
    | some w =>
      simp [hw] at this
      obtain ⟨_, t1, t2, t3, _, t5⟩ := this
      refine ⟨g1, g2, ?_, t1, t2, ?_, ?_, ?_, ?_, ?_⟩
      · cases hb : c.rb <;> simp [hb] at hrb <;> omega
      · intro r hb; simp [hb] at hrb; omega
      · intro hb; simp [hb] at hrb; omega
      · intro w' hw'; rw [hw] at hw'; have : w = w' := Option.some.inj hw'; subst this; exact t3
      · intro hw'; rw [hw] at hw'; exact absurd hw' (by simp)
      · intro r w' hb hw' _ _; rw [hw] at hw'; have : w = w' := Option.some.inj hw'; subst this; left; exact t5 r hb

/-- flattened view of the invariant while receiving -/
theorem inv_recv {c : CM} (h : CMInv c) (hs : c.sending = false) :
    Geo c.p ∧ c.poolSize ≤ c.p.size ∧ c.wb = none ∧ c.wbSize = 0 ∧ c.wbApp = 0 ∧ c.wbSend = 0 ∧
    (c.rb = none → c.rbSize = 0 ∧ c.rbOff = 0) ∧
    (∀ r, c.rb = some r → c.rbBase ≤ r ∧ c.rbOff ≤ c.rbSize ∧ r + c.rbSize ≤ c.p.pos ∧
        c.p.pos = roundUp (r + c.rbSize)) := by
  obtain ⟨hg, hp, hrb, hr, _⟩ := h
  obtain ⟨w0, w1, w2, w3, w4⟩ := hr hs
  refine ⟨hg, hp, w0, w1, w2, w3, ?_, ?_⟩
  · intro hb; simpa [hb] using hrb
  · intro r hb; simp [hb] at hrb; exact ⟨hrb.1, hrb.2.1, hrb.2.2, w4 r hb⟩

theorem mk_recv {c : CM} (hs : c.sending = false) (hg : Geo c.p) (hp : c.poolSize ≤ c.p.size)
    (hw : c.wb = none ∧ c.wbSize = 0 ∧ c.wbApp = 0 ∧ c.wbSend = 0)
    (hn : c.rb = none → c.rbSize = 0 ∧ c.rbOff = 0)
    (hr : ∀ r, c.rb = some r → c.rbBase ≤ r ∧ c.rbOff ≤ c.rbSize ∧ r + c.rbSize ≤ c.p.pos ∧
        c.p.pos = roundUp (r + c.rbSize)) : CMInv c := by
  refine ⟨hg, hp, ?_, fun _ => ⟨hw.1, hw.2.1, hw.2.2.1, hw.2.2.2, fun r hb => (hr r hb).2.2.2⟩, fun h => by rw [hs] at h; simp at h⟩
  cases hb : c.rb with
  | none => exact hn hb
  | some r => exact ⟨(hr r hb).1, (hr r hb).2.1, (hr r hb).2.2.1⟩

/-- flattened view while sending -/
theorem inv_send {c : CM} (h : CMInv c) (hs : c.sending = true) :
    Geo c.p ∧ c.poolSize ≤ c.p.size ∧
    (c.rb = none → c.rbSize = 0 ∧ c.rbOff = 0) ∧
    (∀ r, c.rb = some r → c.rbBase ≤ r ∧ c.rbOff ≤ c.rbSize ∧ r + c.rbSize ≤ c.p.pos) ∧
    (c.wb = none → c.wbSize = 0 ∧ c.wbApp = 0 ∧ c.wbSend = 0) ∧
    (∀ w, c.wb = some w → w % A = 0 ∧ c.wbSend ≤ c.wbApp ∧ c.wbApp ≤ c.wbSize ∧ w + c.wbSize ≤ c.p.pos ∧
        c.p.pos = roundUp (w + c.wbSize) ∧ ∀ r, c.rb = some r → r + c.rbSize ≤ w) := by
  obtain ⟨hg, hp, hrb, _, hsd⟩ := h
  have hw := hsd hs
  refine ⟨hg, hp, ?_, ?_, ?_, ?_⟩
  · intro hb; simpa [hb] using hrb
  · intro r hb; simpa [hb] using hrb
  · intro hb; simpa [hb] using hw
  · intro w hb; simpa [hb] using hw

theorem mk_send {c : CM} (hs : c.sending = true) (hg : Geo c.p) (hp : c.poolSize ≤ c.p.size)
    (hn : c.rb = none → c.rbSize = 0 ∧ c.rbOff = 0)
    (hr : ∀ r, c.rb = some r → c.rbBase ≤ r ∧ c.rbOff ≤ c.rbSize ∧ r + c.rbSize ≤ c.p.pos)
    (hwn : c.wb = none → c.wbSize = 0 ∧ c.wbApp = 0 ∧ c.wbSend = 0)
    (hw : ∀ w, c.wb = some w → w % A = 0 ∧ c.wbSend ≤ c.wbApp ∧ c.wbApp ≤ c.wbSize ∧ w + c.wbSize ≤ c.p.pos ∧
        c.p.pos = roundUp (w + c.wbSize) ∧ ∀ r, c.rb = some r → r + c.rbSize ≤ w) : CMInv c := by
  refine ⟨hg, hp, ?_, fun h => by rw [hs] at h; simp at h, fun _ => ?_⟩
  · cases hb : c.rb with
    | none => exact hn hb
    | some r => exact hr r hb
  · cases hb : c.wb with
    | none => exact hwn hb
    | some w => exact hw w hb

/-! ### pool steps at cursor level -/

theorem allocate_end_geo (p : Pool) (n : Nat) (h : Geo p) (hn : n < W) :
    Geo (allocate p n true).1 ∧ (allocate p n true).1.pos = p.pos ∧ (allocate p n true).1.size = p.size ∧
    (allocate p n true).1.end_ ≤ p.end_ := by
  unfold Geo at *
  unfold allocate
  by_cases h1 : (roundUp n = 0 ∧ n ≠ 0)
  · simp [h1]; exact h
  · by_cases h2 : roundUp n > p.end_ - p.pos
    · simp [h1, h2]; exact h
    · simp only [h1, h2, if_false, if_true]
      simp only [roundUp, W_eq, A, Mhd.Gen.Pool.alignSize] at *
      simp; omega

theorem tryAlloc_geo (p : Pool) (n : Nat) (h : Geo p) (hn : n < W) :
    (∃ need, tryAlloc p n = (p, none, need)) ∨
    (∃ p' off, tryAlloc p n = (p', some off, none) ∧ Geo p' ∧ p'.pos = p.pos ∧ p'.size = p.size ∧ p'.end_ ≤ p.end_) := by
  unfold Geo at *
  unfold tryAlloc
  by_cases h1 : (roundUp n = 0 ∧ n ≠ 0)
  · left; simp [h1]
  · by_cases h2 : roundUp n > p.end_ - p.pos
    · left; by_cases h3 : roundUp n ≤ p.end_ <;> simp [h1, h2, h3]
    · right
      refine ⟨{ p with end_ := p.end_ - roundUp n }, p.end_ - roundUp n, by simp [h1, h2], ?_⟩
      simp only [roundUp, W_eq, A, Mhd.Gen.Pool.alignSize] at *
      simp; omega

theorem reallocate_none_cases (p : Pool) (n : Nat) :
    reallocate p none 0 n = (p, none) ∨
    (reallocate p none 0 n = ({ p with pos := p.pos + roundUp n }, some p.pos) ∧
      roundUp n ≤ p.end_ - p.pos ∧ (roundUp n = 0 → n = 0)) := by
  unfold reallocate
  simp only
  by_cases hf : (roundUp n = 0 ∧ n ≠ 0) ∨ roundUp n > p.end_ - p.pos
  · left; simp [hf]
  · right; simp [hf]; omega

def Op.Valid : Op → Prop
  | .alloc n => n < W
  | _ => True

theorem geo_arith {p : Pool} (h : Geo p) : p.pos ≤ p.end_ ∧ p.end_ ≤ p.size ∧ p.pos % A = 0 ∧ p.end_ % A = 0 ∧ p.size % A = 0 ∧ p.size < 2 ^ 62 := h

theorem step_simple_recv (c : CM) (k : Nat) (h : CMInv c) : CMInv (step c (.recv k)).1 := by
  simp only [step]
  split
  · rename_i hc
    have hs : c.sending = false := by cases hsd : c.sending <;> simp [hsd] at hc ⊢
    have f := inv_recv h hs
    apply mk_recv (c := { c with rbOff := c.rbOff + k }) hs f.1 f.2.1 ⟨f.2.2.1, f.2.2.2.1, f.2.2.2.2.1, f.2.2.2.2.2.1⟩
    · intro hb; simp at hb; rw [hb] at hc; simp at hc
    · intro r hb
      have := f.2.2.2.2.2.2.2 r hb
      have hk : k ≤ c.rbSize - c.rbOff := hc.2.2
      exact ⟨this.1, by show c.rbOff + k ≤ c.rbSize; omega, this.2.2.1, this.2.2.2⟩
  · exact h

theorem step_bodyDrop (c : CM) (k : Nat) (h : CMInv c) : CMInv (step c (.bodyDrop k)).1 := by
  simp only [step]
  split
  · rename_i hc
    have hs : c.sending = false := by cases hsd : c.sending <;> simp [hsd] at hc ⊢
    have f := inv_recv h hs
    apply mk_recv (c := { c with rbOff := c.rbOff - k }) hs f.1 f.2.1 ⟨f.2.2.1, f.2.2.2.1, f.2.2.2.2.1, f.2.2.2.2.2.1⟩
    · intro hb; simp at hb; rw [hb] at hc; simp at hc
    · intro r hb
      have := f.2.2.2.2.2.2.2 r hb
      exact ⟨this.1, by show c.rbOff - k ≤ c.rbSize; omega, this.2.2.1, this.2.2.2⟩
  · exact h

theorem step_consume (c : CM) (k : Nat) (h : CMInv c) : CMInv (step c (.consume k)).1 := by
  simp only [step]
  cases hb : c.rb with
  | none => exact h
  | some r =>
    simp only
    split
    · rename_i hc
      have hs : c.sending = false := by cases hsd : c.sending <;> simp [hsd] at hc ⊢
      have f := inv_recv h hs
      have fr := f.2.2.2.2.2.2.2 r hb
      apply mk_recv (c := { c with rb := some (r + k), rbSize := c.rbSize - k, rbOff := c.rbOff - k }) hs f.1 f.2.1
        ⟨f.2.2.1, f.2.2.2.1, f.2.2.2.2.1, f.2.2.2.2.2.1⟩
      · intro hb'; simp at hb'
      · intro r' hb'
        have : r + k = r' := Option.some.inj hb'
        subst this
        have hk : k ≤ c.rbOff := hc.2
        have e : r + k + (c.rbSize - k) = r + c.rbSize := by omega
        refine ⟨by show c.rbBase ≤ r + k; omega, by show c.rbOff - k ≤ c.rbSize - k; omega, by show r + k + (c.rbSize - k) ≤ c.p.pos; omega, ?_⟩
        show c.p.pos = roundUp (r + k + (c.rbSize - k))
        rw [e]; exact fr.2.2.2
    · exact h

theorem step_shiftBack (c : CM) (k : Nat) (h : CMInv c) : CMInv (step c (.shiftBack k)).1 := by
  simp only [step]
  cases hb : c.rb with
  | none => exact h
  | some r =>
    simp only
    split
    · rename_i hc
      have hs : c.sending = false := by cases hsd : c.sending <;> simp [hsd] at hc ⊢
      have f := inv_recv h hs
      have fr := f.2.2.2.2.2.2.2 r hb
      apply mk_recv (c := { c with rb := some (r - k), rbSize := c.rbSize + k }) hs f.1 f.2.1
        ⟨f.2.2.1, f.2.2.2.1, f.2.2.2.2.1, f.2.2.2.2.2.1⟩
      · intro hb'; simp at hb'
      · intro r' hb'
        have : r - k = r' := Option.some.inj hb'
        subst this
        have hk : c.rbBase + k ≤ r := hc.2
        have e : r - k + (c.rbSize + k) = r + c.rbSize := by omega
        refine ⟨by show c.rbBase ≤ r - k; omega, by show c.rbOff ≤ c.rbSize + k; omega, by show r - k + (c.rbSize + k) ≤ c.p.pos; omega, ?_⟩
        show c.p.pos = roundUp (r - k + (c.rbSize + k))
        rw [e]; exact fr.2.2.2
    · exact h

theorem step_wAppend (c : CM) (k : Nat) (h : CMInv c) : CMInv (step c (.wAppend k)).1 := by
  simp only [step]
  split
  · rename_i hc
    have hs : c.sending = true := hc.1
    have f := inv_send h hs
    apply mk_send (c := { c with wbApp := c.wbApp + k }) hs f.1 f.2.1 f.2.2.1 f.2.2.2.1
    · intro hb; simp at hb; rw [hb] at hc; simp at hc
    · intro w hb
      have := f.2.2.2.2.2 w hb
      have hk : k ≤ c.wbSize - c.wbApp := hc.2.2
      exact ⟨this.1, by show c.wbSend ≤ c.wbApp + k; omega, by show c.wbApp + k ≤ c.wbSize; omega, this.2.2.2.1, this.2.2.2.2.1, this.2.2.2.2.2⟩
  · exact h

theorem step_wSend (c : CM) (k : Nat) (h : CMInv c) : CMInv (step c (.wSend k)).1 := by
  simp only [step]
  split
  · rename_i hc
    have hs : c.sending = true := hc.1
    have f := inv_send h hs
    have hk : k ≤ c.wbApp - c.wbSend := hc.2
    apply mk_send (c := { c with wbSend := c.wbSend + k }) hs f.1 f.2.1 f.2.2.1 f.2.2.2.1
    · intro hb
      have := f.2.2.2.2.1 hb
      exact ⟨this.1, this.2.1, by show c.wbSend + k = 0; omega⟩
    · intro w hb
      have := f.2.2.2.2.2 w hb
      exact ⟨this.1, by show c.wbSend + k ≤ c.wbApp; omega, this.2.2.1, this.2.2.2.1, this.2.2.2.2.1, this.2.2.2.2.2⟩
  · exact h

/-- `reallocate` of the LAST front block (pos = roundUp (o + os)), cursor level -/
theorem realloc_last (p : Pool) (o os n : Nat) (h : Geo p) (ho : o + os ≤ p.pos) (hl : p.pos = roundUp (o + os)) :
    (reallocate p (some o) os n = (p, none) ∧ os ≤ n) ∨
    ∃ p', reallocate p (some o) os n = (p', some o) ∧ Geo p' ∧ p'.size = p.size ∧ p'.end_ = p.end_ ∧
      o + n ≤ p'.pos ∧ p'.pos = roundUp (o + n) ∧ (n ≤ os → p'.pos ≤ p.pos) := by
  have hg := geo_arith h
  have hmod : (o + os) % W = o + os := by
    simp only [W_eq, A, Mhd.Gen.Pool.alignSize] at *; omega
  rcases reallocate_cases p o os n with ⟨hc, hle⟩ | ⟨hc, h1, h2⟩ | ⟨hc, _, h2⟩ | ⟨hc, _, _, _, h4⟩
  · left; exact ⟨hc, hle⟩
  · right
    refine ⟨_, hc, ?_, rfl, rfl, ?_, ?_, ?_⟩
    all_goals
      simp only [Geo, roundUp, W_eq, A, Mhd.Gen.Pool.alignSize] at *
      by_cases hsn : os ≤ n
      · have := h2 hsn
        omega
      · omega
  · rw [hmod] at h2; exact absurd hl h2
  · rw [hmod] at h4; exact absurd hl h4

theorem growSizeG_bounds (m : Bool) (c : CM) (req : Bool) (n : Nat) (h : growSizeG m c req = some n) :
    c.rbSize ≤ n ∧ n ≤ c.rbSize + getFree c.p := by
  unfold growSizeG at h
  simp only at h
  by_cases h0 : getFree c.p = 0
  · simp [h0] at h
  · rw [if_neg h0] at h
    by_cases h1 : c.rbSize = 0
    · rw [if_pos h1] at h
      have := Option.some.inj h; omega
    · rw [if_neg h1] at h
      by_cases h2 : c.inc > getFree c.p / 8
      · rw [if_pos h2] at h
        by_cases h3 : c.inc ≤ getFree c.p / 8 + (c.rbSize - c.rbOff) ∧ c.rbSize - c.rbOff < c.inc
        · rw [if_pos h3] at h
          have := Option.some.inj h; omega
        · rw [if_neg h3] at h
          cases req with
          | false => simp at h
          | true =>
            simp only [Bool.not_true, Bool.false_eq_true, if_false] at h
            have key : ∀ si : Nat, (if si < getFree c.p then some (c.rbSize + si) else some (c.rbSize + getFree c.p)) = some n →
                c.rbSize ≤ n ∧ n ≤ c.rbSize + getFree c.p := by
              intro si hh
              split at hh <;> (have := Option.some.inj hh; omega)
            exact key _ h
      · rw [if_neg h2] at h
        have := Option.some.inj h; omega

theorem growSize_bounds (c : CM) (req : Bool) (n : Nat) (h : growSize c req = some n) :
    c.rbSize ≤ n ∧ n ≤ c.rbSize + getFree c.p := growSizeG_bounds _ c req n h

theorem step_grow (c : CM) (req : Bool) (h : CMInv c) : CMInv (step c (.grow req)).1 := by
  simp only [step]
  cases hs : c.sending with
  | true => simp; exact h
  | false =>
    simp only [Bool.false_eq_true, if_false]
    unfold grow
    cases hgs : growSize c req with
    | none => exact h
    | some newSize =>
      simp only
      have f := inv_recv h hs
      have hg := geo_arith f.1
      cases hb : c.rb with
      | none =>
        simp only [Option.isSome_none, Bool.false_eq_true, false_and, if_false]
        have hz := f.2.2.2.2.2.2.1 hb
        rw [hz.1]
        rcases reallocate_none_cases c.p newSize with he | ⟨he, h1, h2⟩
        · rw [he]; exact h
        · rw [he]
          simp only
          refine mk_recv hs ?_ ?_ ?_ ?_ ?_
          · simp only [Geo, roundUp, W_eq, A, Mhd.Gen.Pool.alignSize] at *; simp; omega
          · exact f.2.1
          · exact ⟨f.2.2.1, f.2.2.2.1, f.2.2.2.2.1, f.2.2.2.2.2.1⟩
          · intro hb'; simp at hb'
          · intro r hb'
            have : c.p.pos = r := Option.some.inj hb'
            subst this
            have hoff : c.rbOff = 0 := hz.2
            have hb2 := growSize_bounds c req newSize hgs
            have hfree : getFree c.p = c.p.end_ - c.p.pos := rfl
            refine ⟨Nat.le_refl _, by show c.rbOff ≤ newSize; omega, ?_, ?_⟩
            · show c.p.pos + newSize ≤ c.p.pos + roundUp newSize
              simp only [Geo, roundUp, W_eq, A, Mhd.Gen.Pool.alignSize] at *; omega
            · show c.p.pos + roundUp newSize = roundUp (c.p.pos + newSize)
              simp only [Geo, roundUp, W_eq, A, Mhd.Gen.Pool.alignSize] at *; omega
      | some r =>
        have fr := f.2.2.2.2.2.2.2 r hb
        simp only [Option.isSome_some, true_and]
        by_cases hres : isResizableInplace c.p (some r) c.rbSize = true
        · simp only [hres, Bool.not_true, Bool.false_eq_true, if_false]
          rcases realloc_last c.p r c.rbSize newSize f.1 fr.2.2.1 fr.2.2.2 with ⟨he, _⟩ | ⟨p', he, hg', hsz, hend, hle, hlast, _⟩
          · rw [he]; exact h
          · rw [he]
            simp only [if_true]
            refine mk_recv hs hg' (by show c.poolSize ≤ p'.size; rw [hsz]; exact f.2.1)
              ⟨f.2.2.1, f.2.2.2.1, f.2.2.2.2.1, f.2.2.2.2.2.1⟩ ?_ ?_
            · intro hb'; simp at hb'
            · intro r' hb'
              have : r = r' := Option.some.inj hb'
              subst this
              -- the new size is never below the fill: growSize only adds to rbSize (or rbSize = 0 = rbOff … )
              have hns : c.rbOff ≤ newSize := by have := (growSize_bounds c req newSize hgs).1; have := fr.2.1; omega
              exact ⟨fr.1, hns, hle, hlast⟩
        · simp [hres]; exact h

theorem isResizable_iff (p : Pool) (o n : Nat) (h : o + n < W) :
    isResizableInplace p (some o) n = true ↔ p.pos = roundUp (o + n) := by
  unfold isResizableInplace
  simp only [beq_iff_eq]
  rw [Nat.mod_eq_of_lt h]

/-- deallocating a front window `[r, r+n)` that ends at or below `pos` -/
theorem dealloc_front_geo (p : Pool) (r n : Nat) (h : Geo p) (hn : 0 < n) (hr : r + n ≤ p.pos) :
    Geo (deallocate p (some r) n) ∧ (deallocate p (some r) n).size = p.size ∧
    (deallocate p (some r) n).end_ = p.end_ ∧ (deallocate p (some r) n).pos ≤ p.pos ∧
    (deallocate p (some r) n).pos % A = 0 := by
  have hg := geo_arith h
  have hn0 : ¬ n = 0 := by omega
  have hle : r ≤ p.pos := by omega
  have key : roundUp r ≤ p.pos ∧ roundUp r % A = 0 := by
    simp only [roundUp, W_eq, A, Mhd.Gen.Pool.alignSize] at *; omega
  by_cases hl : roundUp ((r + n) % W) = p.pos
  · have e : deallocate p (some r) n = { p with mem := zeroRange p.mem r n, pos := roundUp r } := by
      unfold deallocate; simp [hn0, hle, hl]
    rw [e]
    exact ⟨⟨by show roundUp r ≤ p.end_; omega, hg.2.1, key.2, hg.2.2.2.1, hg.2.2.2.2.1, hg.2.2.2.2.2⟩, rfl, rfl, key.1, key.2⟩
  · have e : deallocate p (some r) n = { p with mem := zeroRange p.mem r n } := by
      unfold deallocate; simp [hn0, hle, hl]
    rw [e]
    exact ⟨h, rfl, rfl, Nat.le_refl _, hg.2.2.1⟩

theorem step_errRelease (c : CM) (h : CMInv c) : CMInv (step c .errRelease).1 := by
  simp only [step]
  cases hs : c.sending with
  | true => simp; exact h
  | false =>
    simp only [Bool.false_eq_true, if_false]
    have f := inv_recv h hs
    by_cases hz : c.rbSize ≠ 0
    · rw [if_pos hz]
      cases hb : c.rb with
      | none => have := (f.2.2.2.2.2.2.1 hb).1; omega
      | some r =>
        have fr := f.2.2.2.2.2.2.2 r hb
        have d := dealloc_front_geo c.p r c.rbSize f.1 (by omega) fr.2.2.1
        refine mk_send rfl d.1 (by show c.poolSize ≤ (deallocate c.p (some r) c.rbSize).size; rw [d.2.1]; exact f.2.1) ?_ ?_ ?_ ?_
        · intro _; exact ⟨rfl, rfl⟩
        · intro r' hb'; simp at hb'
        · intro _; exact ⟨f.2.2.2.1, f.2.2.2.2.1, f.2.2.2.2.2.1⟩
        · intro w hw; have : c.wb = some w := hw; rw [f.2.2.1] at this; simp at this
    · rw [if_neg hz]
      have hz' : c.rbSize = 0 := by omega
      refine mk_send rfl f.1 f.2.1 ?_ ?_ ?_ ?_
      · exact f.2.2.2.2.2.2.1
      · intro r hb; have := f.2.2.2.2.2.2.2 r hb; exact ⟨this.1, this.2.1, this.2.2.1⟩
      · intro _; exact ⟨f.2.2.2.1, f.2.2.2.2.1, f.2.2.2.2.2.1⟩
      · intro w hw; have : c.wb = some w := hw; rw [f.2.2.1] at this; simp at this

theorem reset_geo (p : Pool) (keep : Option Nat) (copy n : Nat) (h : Geo p) (hn : n ≤ p.size) :
    Geo (Mhd.Pool.reset p keep copy n) ∧ (Mhd.Pool.reset p keep copy n).size = p.size ∧
    (Mhd.Pool.reset p keep copy n).pos = roundUp n ∧ n ≤ roundUp n := by
  have hg := geo_arith h
  unfold Mhd.Pool.reset
  simp only [Geo, roundUp, W_eq, A, Mhd.Gen.Pool.alignSize] at *
  simp; omega

theorem step_errReset (c : CM) (h : CMInv c) : CMInv (step c .errReset).1 := by
  simp only [step]
  cases hs : c.sending with
  | false => simp; exact h
  | true =>
    simp only [Bool.not_true, Bool.false_eq_true, if_false]
    have f := inv_send h hs
    have g := reset_geo c.p none 0 0 f.1 (Nat.zero_le _)
    refine mk_send rfl g.1 (by show c.poolSize ≤ (Mhd.Pool.reset c.p none 0 0).size; rw [g.2.1]; exact f.2.1) ?_ ?_ ?_ ?_
    · intro hb; simp at hb
    · intro r hb
      have : 0 = r := Option.some.inj hb
      subst this
      exact ⟨Nat.le_refl _, Nat.le_refl _, by show 0 + 0 ≤ (Mhd.Pool.reset c.p none 0 0).pos; omega⟩
    · intro _; exact ⟨rfl, rfl, rfl⟩
    · intro w hw; simp at hw

theorem step_resetConn (c : CM) (h : CMInv c) : CMInv (step c .resetConn).1 := by
  simp only [step]
  split
  · rename_i hc
    have hs : c.sending = true := hc.1
    have f := inv_send h hs
    have hg := geo_arith f.1
    unfold resetConn
    simp only
    have hoff : c.rbOff ≤ c.p.size := by
      cases hb : c.rb with
      | none => have := (f.2.2.1 hb).2; omega
      | some r => have := f.2.2.2.1 r hb; omega
    have hnew : (if c.rbOff > c.poolSize / 2 then c.rbOff else c.poolSize / 2) ≤ c.p.size := by
      have := f.2.1; split <;> omega
    have g := reset_geo c.p c.rb c.rbOff _ f.1 hnew
    refine mk_recv rfl g.1 (by show c.poolSize ≤ (Mhd.Pool.reset c.p c.rb c.rbOff _).size; rw [g.2.1]; exact f.2.1) ⟨rfl, rfl, rfl, rfl⟩ ?_ ?_
    · intro hb; simp at hb
    · intro r hb
      have : 0 = r := Option.some.inj hb
      subst this
      refine ⟨Nat.le_refl _, ?_, ?_, ?_⟩
      · show c.rbOff ≤ (if c.rbOff > c.poolSize / 2 then c.rbOff else c.poolSize / 2); split <;> omega
      · show 0 + (if c.rbOff > c.poolSize / 2 then c.rbOff else c.poolSize / 2) ≤ (Mhd.Pool.reset c.p c.rb c.rbOff _).pos; rw [g.2.2.1]; have := g.2.2.2; omega
      · show (Mhd.Pool.reset c.p c.rb c.rbOff _).pos = roundUp (0 + _); rw [g.2.2.1, Nat.zero_add]
  · exact h

/-- `reallocate` of the last front block never refuses when the new size fits below `end_` -/
theorem realloc_last_fit (p : Pool) (o os n : Nat) (h : Geo p) (ho : o + os ≤ p.pos) (hl : p.pos = roundUp (o + os))
    (hfit : os ≤ n → o + n ≤ p.end_) :
    ∃ p', reallocate p (some o) os n = (p', some o) ∧ Geo p' ∧ p'.size = p.size ∧ p'.end_ = p.end_ ∧
      o + n ≤ p'.pos ∧ p'.pos = roundUp (o + n) ∧ (n ≤ os → p'.pos ≤ p.pos) := by
  rcases realloc_last p o os n h ho hl with ⟨he, hle⟩ | hx
  · exfalso
    have hg := geo_arith h
    have hf := hfit hle
    have hmod : (o + os) % W = o + os := by simp only [W_eq] at *; omega
    have hmod2 : (o + n) % W = o + n := by simp only [W_eq] at *; omega
    have hns : ¬ os > n := by omega
    unfold reallocate at he
    simp only [hns, if_false, hmod, hmod2] at he
    rw [if_pos hl] at he
    have hguard : ¬ (roundUp (o + n) > p.end_ ∨ roundUp (o + n) < p.pos ∨ n > (p.end_ + W - o) % W) := by
      simp only [roundUp, W_eq, A, Mhd.Gen.Pool.alignSize] at *; omega
    simp [hguard] at he
  · exact hx

theorem realloc_none_fit (p : Pool) (n : Nat) (h : Geo p) (hn : n % A = 0) (hfit : n ≤ p.end_ - p.pos) :
    reallocate p none 0 n = ({ p with pos := p.pos + n }, some p.pos) := by
  have hg := geo_arith h
  have hr : roundUp n = n := by simp only [roundUp, W_eq, A, Mhd.Gen.Pool.alignSize] at *; omega
  rcases reallocate_none_cases p n with he | ⟨he, _, _⟩
  · exfalso
    unfold reallocate at he
    simp only [hr] at he
    simp at he
    omega
  · rw [he, hr]

theorem step_shrinkRead (c : CM) (h : CMInv c) : CMInv (step c .shrinkRead).1 := by
  simp only [step]
  cases hs : c.sending with
  | true => simp; exact h
  | false =>
    simp only [Bool.false_eq_true, if_false]
    have f := inv_recv h hs
    have hwn : c.wbSize = 0 ∧ c.wbApp = 0 ∧ c.wbSend = 0 := ⟨f.2.2.2.1, f.2.2.2.2.1, f.2.2.2.2.2.1⟩
    unfold shrinkRead
    cases hb : c.rb with
    | none =>
      simp only
      refine mk_send rfl f.1 f.2.1 ?_ ?_ (fun _ => hwn) ?_
      · intro _; exact f.2.2.2.2.2.2.1 hb
      · intro r hb'; have : c.rb = some r := hb'; rw [hb] at this; simp at this
      · intro w hw; have : c.wb = some w := hw; rw [f.2.2.1] at this; simp at this
    | some r =>
      simp only
      have fr := f.2.2.2.2.2.2.2 r hb
      by_cases hz : c.rbSize = 0
      · rw [if_pos hz]
        refine mk_send rfl f.1 f.2.1 ?_ ?_ (fun _ => hwn) ?_
        · intro hb'; have : c.rb = none := hb'; rw [hb] at this; simp at this
        · intro r' hb'; have : c.rb = some r' := hb'; rw [hb] at this; have e : r = r' := Option.some.inj this; subst e
          exact ⟨fr.1, fr.2.1, fr.2.2.1⟩
        · intro w hw; have : c.wb = some w := hw; rw [f.2.2.1] at this; simp at this
      · rw [if_neg hz]
        by_cases ho : c.rbOff = 0
        · rw [if_pos ho]
          have d := dealloc_front_geo c.p r c.rbSize f.1 (by omega) fr.2.2.1
          refine mk_send rfl d.1 (by show c.poolSize ≤ (deallocate c.p (some r) c.rbSize).size; rw [d.2.1]; exact f.2.1) ?_ ?_ (fun _ => hwn) ?_
          · intro _; exact ⟨rfl, ho⟩
          · intro r' hb'; simp at hb'
          · intro w hw; have : c.wb = some w := hw; rw [f.2.2.1] at this; simp at this
        · rw [if_neg ho]
          obtain ⟨p', he, hg', hsz, _, hle, _, _⟩ := realloc_last_fit c.p r c.rbSize c.rbOff f.1 fr.2.2.1 fr.2.2.2
            (by intro hh; have := geo_arith f.1; have := fr.2.1; have := fr.2.2.1; omega)
          rw [he]
          simp only
          refine mk_send rfl hg' (by show c.poolSize ≤ p'.size; rw [hsz]; exact f.2.1) ?_ ?_ (fun _ => hwn) ?_
          · intro hb'; simp at hb'
          · intro r' hb'; have e : r = r' := Option.some.inj hb'; subst e
            exact ⟨fr.1, Nat.le_refl _, hle⟩
          · intro w hw; have : c.wb = some w := hw; rw [f.2.2.1] at this; simp at this

theorem step_maxWrite (c : CM) (h : CMInv c) : CMInv (step c .maxWrite).1 := by
  simp only [step]
  cases hs : c.sending with
  | false => simp; exact h
  | true =>
    simp only [Bool.not_true, Bool.false_eq_true, if_false]
    have f := inv_send h hs
    have hg := geo_arith f.1
    unfold maxWrite
    simp only
    by_cases hfree : getFree c.p ≠ 0
    · rw [if_pos hfree]
      have hfr : getFree c.p = c.p.end_ - c.p.pos := rfl
      cases hw : c.wb with
      | none =>
        have hz := f.2.2.2.2.1 hw
        rw [hz.1, Nat.zero_add]
        have hal : getFree c.p % A = 0 := by
          rw [hfr]; simp only [A, Mhd.Gen.Pool.alignSize] at *; omega
        rw [realloc_none_fit c.p (getFree c.p) f.1 hal (by rw [hfr]; exact Nat.le_refl _)]
        simp only
        have hsa : c.wbSend = c.wbApp := by omega
        rw [if_pos hsa]
        refine mk_send hs ?_ f.2.1 ?_ ?_ ?_ ?_
        · show Geo { c.p with pos := c.p.pos + getFree c.p }
          rw [hfr]; simp only [Geo, A, Mhd.Gen.Pool.alignSize] at *; simp; omega
        · exact f.2.2.1
        · intro r hb; have := f.2.2.2.1 r hb
          exact ⟨this.1, this.2.1, by show r + c.rbSize ≤ c.p.pos + getFree c.p; omega⟩
        · intro hb; simp at hb
        · intro w hb
          have e : c.p.pos = w := Option.some.inj hb
          subst e
          refine ⟨hg.2.2.1, Nat.le_refl _, Nat.zero_le _, Nat.le_refl _, ?_, ?_⟩
          · show c.p.pos + getFree c.p = roundUp (c.p.pos + getFree c.p)
            rw [hfr]; simp only [roundUp, W_eq, A, Mhd.Gen.Pool.alignSize] at *; omega
          · intro r hb'; have := f.2.2.2.1 r hb'; show r + c.rbSize ≤ c.p.pos; omega
      | some w =>
        have fw := f.2.2.2.2.2 w hw
        obtain ⟨p', he, hg', hsz, hend, hle, hlast, _⟩ := realloc_last_fit c.p w c.wbSize (c.wbSize + getFree c.p) f.1 fw.2.2.2.1 fw.2.2.2.2.1
          (by intro _; rw [hfr]; omega)
        rw [he]
        simp only
        by_cases hsa : c.wbSend = c.wbApp
        · rw [if_pos hsa]
          refine mk_send hs hg' (by show c.poolSize ≤ p'.size; rw [hsz]; exact f.2.1) f.2.2.1 ?_ ?_ ?_
          · intro r hb; have := f.2.2.2.1 r hb; have := fw.2.2.2.2.2 r hb
            exact ⟨by show c.rbBase ≤ r; omega, by show c.rbOff ≤ c.rbSize; omega, by show r + c.rbSize ≤ p'.pos; omega⟩
          · intro hb; simp at hb
          · intro w' hb
            have e : w = w' := Option.some.inj hb
            subst e
            exact ⟨fw.1, Nat.le_refl _, Nat.zero_le _, hle, hlast, fw.2.2.2.2.2⟩
        · rw [if_neg hsa]
          refine mk_send hs hg' (by show c.poolSize ≤ p'.size; rw [hsz]; exact f.2.1) f.2.2.1 ?_ ?_ ?_
          · intro r hb; have := f.2.2.2.1 r hb; have := fw.2.2.2.2.2 r hb
            exact ⟨by show c.rbBase ≤ r; omega, by show c.rbOff ≤ c.rbSize; omega, by show r + c.rbSize ≤ p'.pos; omega⟩
          · intro hb; simp at hb
          · intro w' hb
            have e : w = w' := Option.some.inj hb
            subst e
            exact ⟨fw.1, fw.2.1, by show c.wbApp ≤ c.wbSize + getFree c.p; omega, hle, hlast, fw.2.2.2.2.2⟩
    · rw [if_neg hfree]; exact h

/-- replacing the pool by one with the same front cursor and size keeps the invariant -/
theorem inv_swap (c : CM) (p' : Pool) (h : CMInv c) (hg : Geo p') (hpos : p'.pos = c.p.pos)
    (hsz : p'.size = c.p.size) : CMInv { c with p := p' } := by
  obtain ⟨_, hp, hrb, hr, hs⟩ := h
  refine ⟨hg, by show c.poolSize ≤ p'.size; rw [hsz]; exact hp, ?_, ?_, ?_⟩
  · show (match c.rb with
      | none => c.rbSize = 0 ∧ c.rbOff = 0
      | some r => c.rbBase ≤ r ∧ c.rbOff ≤ c.rbSize ∧ r + c.rbSize ≤ p'.pos)
    rw [hpos]; exact hrb
  · intro hsd
    have := hr hsd
    refine ⟨this.1, this.2.1, this.2.2.1, this.2.2.2.1, ?_⟩
    intro r hb; show p'.pos = _; rw [hpos]; exact this.2.2.2.2 r hb
  · intro hsd
    have := hs hsd
    show (match c.wb with
      | none => c.wbSize = 0 ∧ c.wbApp = 0 ∧ c.wbSend = 0
      | some w => w % A = 0 ∧ c.wbSend ≤ c.wbApp ∧ c.wbApp ≤ c.wbSize ∧ w + c.wbSize ≤ p'.pos ∧
                 p'.pos = roundUp (w + c.wbSize) ∧ ∀ r, c.rb = some r → r + c.rbSize ≤ w)
    rw [hpos]; exact this

theorem resizable_none (p : Pool) (n : Nat) : isResizableInplace p none n = false := rfl

theorem step_alloc (c : CM) (n : Nat) (h : CMInv c) (hn : n < W) : CMInv (step c (.alloc n)).1 := by
  simp only [step]
  unfold allocMem
  have hgeo : Geo c.p := h.1
  have hg := geo_arith hgeo
  rcases tryAlloc_geo c.p n hgeo hn with ⟨need, he⟩ | ⟨p', off, he, hg', hpos, hsz, _⟩
  · rw [he]
    cases need with
    | none => exact h
    | some need =>
      simp only
      by_cases hrw : isResizableInplace c.p c.wb c.wbSize = true
      · rw [if_pos hrw]
        by_cases hroom : c.wbSize - c.wbApp ≥ need
        · rw [if_pos hroom]
          cases hw : c.wb with
          | none => rw [hw, resizable_none] at hrw; simp at hrw
          | some w =>
            cases hs : c.sending with
            | false => have := (inv_recv h hs).2.2.1; rw [hw] at this; simp at this
            | true =>
              have f := inv_send h hs
              have fw := f.2.2.2.2.2 w hw
              obtain ⟨p1, he1, hg1, hsz1, hend1, hle1, hlast1, hdec1⟩ :=
                realloc_last_fit c.p w c.wbSize (c.wbSize - need) hgeo fw.2.2.2.1 fw.2.2.2.2.1
                  (by intro hh; have := fw.2.2.2.1; omega)
              rw [he1]
              simp only
              have a := allocate_end_geo p1 n hg1 hn
              refine mk_send rfl a.1 (by show c.poolSize ≤ (allocate p1 n true).1.size; rw [a.2.2.1, hsz1]; exact f.2.1) f.2.2.1 ?_ ?_ ?_
              · intro r hb; have := f.2.2.2.1 r hb; have := fw.2.2.2.2.2 r hb
                exact ⟨by show c.rbBase ≤ r; omega, by show c.rbOff ≤ c.rbSize; omega,
                       by show r + c.rbSize ≤ (allocate p1 n true).1.pos; rw [a.2.1]; omega⟩
              · intro hb; simp at hb
              · intro w' hb
                have e : w = w' := Option.some.inj hb
                subst e
                refine ⟨fw.1, fw.2.1, by show c.wbApp ≤ c.wbSize - need; omega, ?_, ?_, fw.2.2.2.2.2⟩
                · show w + (c.wbSize - need) ≤ (allocate p1 n true).1.pos; rw [a.2.1]; exact hle1
                · show (allocate p1 n true).1.pos = roundUp (w + (c.wbSize - need)); rw [a.2.1]; exact hlast1
        · rw [if_neg hroom]; exact h
      · rw [if_neg hrw]
        by_cases hrr : isResizableInplace c.p c.rb c.rbSize = true
        · rw [if_pos hrr]
          by_cases hroom : c.rbSize - c.rbOff ≥ need
          · rw [if_pos hroom]
            cases hb : c.rb with
            | none => rw [hb, resizable_none] at hrr; simp at hrr
            | some r =>
              rw [hb] at hrr
              cases hs : c.sending with
              | false =>
                have f := inv_recv h hs
                have fr := f.2.2.2.2.2.2.2 r hb
                obtain ⟨p1, he1, hg1, hsz1, hend1, hle1, hlast1, hdec1⟩ :=
                  realloc_last_fit c.p r c.rbSize (c.rbSize - need) hgeo fr.2.2.1 fr.2.2.2
                    (by intro hh; have := fr.2.2.1; omega)
                rw [he1]
                simp only
                have a := allocate_end_geo p1 n hg1 hn
                refine mk_recv rfl a.1 (by show c.poolSize ≤ (allocate p1 n true).1.size; rw [a.2.2.1, hsz1]; exact f.2.1)
                  ⟨f.2.2.1, f.2.2.2.1, f.2.2.2.2.1, f.2.2.2.2.2.1⟩ ?_ ?_
                · intro hb'; simp at hb'
                · intro r' hb'
                  have e : r = r' := Option.some.inj hb'
                  subst e
                  refine ⟨fr.1, by show c.rbOff ≤ c.rbSize - need; omega, ?_, ?_⟩
                  · show r + (c.rbSize - need) ≤ (allocate p1 n true).1.pos; rw [a.2.1]; exact hle1
                  · show (allocate p1 n true).1.pos = roundUp (r + (c.rbSize - need)); rw [a.2.1]; exact hlast1
              | true =>
                have f := inv_send h hs
                have fr := f.2.2.2.1 r hb
                have hlast : c.p.pos = roundUp (r + c.rbSize) :=
                  (isResizable_iff c.p r c.rbSize (by simp only [W_eq] at *; omega)).mp hrr
                -- the write buffer cannot exist here: it would be the last block and the first branch would apply
                have hwn : c.wb = none := by
                  cases hw : c.wb with
                  | none => rfl
                  | some w =>
                    have fw := f.2.2.2.2.2 w hw
                    have : isResizableInplace c.p (some w) c.wbSize = true :=
                      (isResizable_iff c.p w c.wbSize (by simp only [W_eq] at *; omega)).mpr fw.2.2.2.2.1
                    rw [hw] at hrw; exact absurd this hrw
                obtain ⟨p1, he1, hg1, hsz1, hend1, hle1, hlast1, hdec1⟩ :=
                  realloc_last_fit c.p r c.rbSize (c.rbSize - need) hgeo fr.2.2 hlast
                    (by intro hh; have := fr.2.2; omega)
                rw [he1]
                simp only
                have a := allocate_end_geo p1 n hg1 hn
                refine mk_send rfl a.1 (by show c.poolSize ≤ (allocate p1 n true).1.size; rw [a.2.2.1, hsz1]; exact f.2.1) ?_ ?_ ?_ ?_
                · intro hb'; simp at hb'
                · intro r' hb'
                  have e : r = r' := Option.some.inj hb'
                  subst e
                  exact ⟨fr.1, by show c.rbOff ≤ c.rbSize - need; omega,
                         by show r + (c.rbSize - need) ≤ (allocate p1 n true).1.pos; rw [a.2.1]; exact hle1⟩
                · intro _; exact f.2.2.2.2.1 hwn
                · intro w hw; have : c.wb = some w := hw; rw [hwn] at this; simp at this
          · rw [if_neg hroom]; exact h
        · rw [if_neg hrr]; exact h
  · rw [he]
    exact inv_swap c p' h hg' hpos hsz

theorem step_inv (c : CM) (o : Op) (h : CMInv c) (ho : o.Valid) : CMInv (step c o).1 := by
  cases o with
  | grow r => exact step_grow c r h
  | recv k => exact step_simple_recv c k h
  | consume k => exact step_consume c k h
  | shiftBack k => exact step_shiftBack c k h
  | bodyDrop k => exact step_bodyDrop c k h
  | alloc n => exact step_alloc c n h ho
  | shrinkRead => exact step_shrinkRead c h
  | maxWrite => exact step_maxWrite c h
  | wAppend k => exact step_wAppend c k h
  | wSend k => exact step_wSend c k h
  | resetConn => exact step_resetConn c h
  | errRelease => exact step_errRelease c h
  | errReset => exact step_errReset c h

theorem init_inv (allocSize poolSize inc : Nat) (ha : allocSize % A = 0) (hs : allocSize < 2 ^ 62)
    (hp : poolSize ≤ allocSize) : CMInv (init allocSize poolSize inc) := by
  have hgeo : Geo (create allocSize) :=
    ⟨Nat.zero_le _, Nat.le_refl _, Nat.zero_mod _, ha, ha, hs⟩
  unfold init
  simp only
  have hn : poolSize / 2 < W := by simp only [W_eq]; omega
  unfold allocate
  by_cases h1 : (roundUp (poolSize / 2) = 0 ∧ poolSize / 2 ≠ 0)
  · exfalso
    simp only [roundUp, W_eq, A, Mhd.Gen.Pool.alignSize] at *; omega
  · by_cases h2 : roundUp (poolSize / 2) > (create allocSize).end_ - (create allocSize).pos
    · exfalso
      simp only [create, roundUp, W_eq, A, Mhd.Gen.Pool.alignSize] at *; omega
    · simp only [h1, h2, if_false, Bool.false_eq_true]
      refine mk_recv rfl ?_ hp ⟨rfl, rfl, rfl, rfl⟩ ?_ ?_
      · simp only [Geo, create, roundUp, W_eq, A, Mhd.Gen.Pool.alignSize] at *; simp; omega
      · intro hb; simp at hb
      · intro r hb
        simp only [create] at hb
        have e : 0 = r := Option.some.inj hb
        subst e
        refine ⟨Nat.le_refl _, Nat.zero_le _, ?_, ?_⟩
        · simp only [create, roundUp, W_eq, A, Mhd.Gen.Pool.alignSize] at *; simp; omega
        · simp only [create, roundUp, W_eq, A, Mhd.Gen.Pool.alignSize] at *; simp

theorem run_inv (c : CM) (ops : List Op) (h : CMInv c) (ho : ∀ o ∈ ops, o.Valid) : CMInv (run c ops) := by
  induction ops generalizing c with
  | nil => exact h
  | cons o ops ih =>
    simp only [run, List.foldl_cons]
    exact ih _ (step_inv c o h (ho o (List.mem_cons_self ..))) (fun o' ho' => ho o' (List.mem_cons_of_mem _ ho'))

end Mhd.ConnMem
