/-
  Specification predicates for C15: what it means that a sequence of iterator calls
  delivers a list of fields (per field at least one call, same metadata, contiguous
  offsets from 0, data concatenating to the value).
-/
import Mhd.Model.PP
namespace Mhd.PP


/-- the metadata arguments of an iterator call -/
structure Meta where
  key : Option Bytes
  filename : Option Bytes := none
  ctype : Option Bytes := none
  enc : Option Bytes := none
  deriving DecidableEq, Repr

def Event.meta (e : Event) : Meta := ⟨e.key, e.filename, e.ctype, e.enc⟩

/-- `es` are iterator calls that all carry the metadata `m`, whose offsets are contiguous
    starting at `o` and whose data concatenate to `v` -/
def Pieces (m : Meta) : Nat → Bytes → List Event → Prop
  | _, v, [] => v = []
  | o, v, e :: es => e.meta = m ∧ e.off = o ∧ ∃ v', v = e.data ++ v' ∧ Pieces m (o + e.data.length) v' es

/-- the calls `evs` deliver exactly the fields `fs`, in order: for each field at least one call,
    all with the field's metadata, offsets contiguous from 0, data concatenating to the value -/
def Delivers : List Event → List (Meta × Bytes) → Prop
  | evs, [] => evs = []
  | evs, (m, v) :: fs => ∃ es rest, evs = es ++ rest ∧ es ≠ [] ∧ Pieces m 0 v es ∧ Delivers rest fs

theorem Pieces.append {m : Meta} : ∀ {es1 : List Event} {o : Nat} {v1 v2 : Bytes} {es2 : List Event},
    Pieces m o v1 es1 → Pieces m (o + v1.length) v2 es2 → Pieces m o (v1 ++ v2) (es1 ++ es2)
  | [], o, v1, v2, es2, h1, h2 => by
    simp [Pieces] at h1; subst h1; simpa using h2
  | e :: es1, o, v1, v2, es2, h1, h2 => by
    obtain ⟨hm, ho, v', hv, hp⟩ := h1
    refine ⟨hm, ho, v' ++ v2, by simp [hv], ?_⟩
    apply Pieces.append hp
    subst hv
    simpa [Nat.add_assoc] using h2

theorem Delivers.snoc : ∀ {fs : List (Meta × Bytes)} {evs : List Event} {m : Meta} {v : Bytes} {es : List Event},
    Delivers evs fs → es ≠ [] → Pieces m 0 v es → Delivers (evs ++ es) (fs ++ [(m, v)])
  | [], evs, m, v, es, h, hne, hp => by
    simp [Delivers] at h; subst h
    exact ⟨es, [], by simp, hne, hp, rfl⟩
  | (m', v') :: fs, evs, m, v, es, h, hne, hp => by
    obtain ⟨es', rest, he, hne', hp', hd⟩ := h
    exact ⟨es', rest ++ es, by simp [he], hne', hp', Delivers.snoc hd hne hp⟩

end Mhd.PP
