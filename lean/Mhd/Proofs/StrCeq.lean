/-
  C17 proofs: `charsequalcaseless` is equality after US-ASCII lower-casing
  (a `decide` over all 65 536 pairs of bytes; kept in its own file because it
  takes a minute to check).
-/
import Mhd.Proofs.StrBase

namespace Mhd.Str

/-- US-ASCII lower-casing -/
def toLower (c : UInt8) : UInt8 := if 0x41 ≤ c ∧ c ≤ 0x5a then c + 32 else c

theorem ceq_table : ∀ a b : Fin 256,
    charsEqualCaseless (UInt8.ofNat a.val) (UInt8.ofNat b.val) =
      (toLower (UInt8.ofNat a.val) == toLower (UInt8.ofNat b.val)) := by
  decide +kernel

/-- `charsequalcaseless (a, b)` ⇔ equal after US-ASCII lower-casing -/
theorem charsEqualCaseless_iff (a b : UInt8) : charsEqualCaseless a b = (toLower a == toLower b) := by
  have := ceq_table ⟨a.toNat, a.toNat_lt⟩ ⟨b.toNat, b.toNat_lt⟩
  simpa using this

theorem ceq_zero_right (x : UInt8) (h : x ≠ 0) : charsEqualCaseless x 0 = false := by
  rw [charsEqualCaseless_iff]
  have : ∀ n : Fin 256, n.val ≠ 0 → (toLower (UInt8.ofNat n.val) == toLower 0) = false := by decide +kernel
  have h2 := this ⟨x.toNat, x.toNat_lt⟩ (by
    intro h0; apply h; rw [← ofNat_toNat_u8 x]; simp only at h0; rw [h0]; rfl)
  simpa using h2

end Mhd.Str
