import Mhd.Proofs.ReplyFields
set_option linter.unusedSimpArgs false
set_option linter.unusedVariables false
namespace Mhd.Reply
open Mhd.ReplyStr Mhd.Resp
open Mhd.Http (FieldOK NameOK NoCRLF normField ChunkOK chunkBytes)
open Mhd.Gen.Reply (sizeUnknown maxChunk)

/-! ### footer -/

def footerFields (hs : List Hdr) : List Field :=
  (hs.filter fun h => h.kind == .footer).map fun h => ⟨h.name, h.value⟩

theorem buildFooterLoop_eq (bs : Nat) : ∀ (hs : List Hdr) (buf out : Bytes), buildFooterLoop bs hs buf = some out →
    out = buf ++ ((footerFields hs).map fieldLine).flatten
  | [], buf, out, h => by simp [buildFooterLoop] at h; simp [h, footerFields]
  | x :: rest, buf, out, h => by
    simp only [buildFooterLoop] at h
    by_cases hk : (x.kind == Kind.footer) = true
    · simp only [hk, if_true] at h
      split at h
      · simp at h
      · have := buildFooterLoop_eq bs rest _ out h
        simp [this, footerFields, hk, fieldLine, List.append_assoc]
    · simp only [hk, Bool.false_eq_true, if_false] at h
      have := buildFooterLoop_eq bs rest _ out h
      simp [this, footerFields, hk]

theorem buildFooter_eq (r : Resp) (bs : Nat) (out : Bytes) (h : buildFooter r bs = some out) :
    out = 48 :: 13 :: 10 :: (Mhd.Http.renderFields ((footerFields r.hdrs).map toHttp) ++ [13, 10]) := by
  unfold buildFooter at h
  split at h
  · simp at h
  · split at h
    · simp at h
    · rename_i buf hb
      split at h
      · simp at h
      · simp at h
        have := buildFooterLoop_eq bs r.hdrs _ buf hb
        rw [← h, this, render_http]
        simp [crlf]

theorem footer_fieldOK (r : Resp) (hinv : Inv r) : ∀ f ∈ (footerFields r.hdrs).map toHttp, FieldOK f := by
  intro f hf
  simp only [footerFields, List.map_map, List.mem_map, List.mem_filter] at hf
  obtain ⟨h, ⟨hm, _⟩, rfl⟩ := hf
  have := hinv.clean h hm
  exact ⟨this.1, this.2.2⟩

/-! ### chunk frames -/

theorem maxChunk_lt : maxChunk < 16 ^ 6 := by decide

theorem chunkFrame_ok (p : Bytes) (h0 : p ≠ []) (hl : p.length ≤ maxChunk) :
    ∃ hex, chunkFrame p = some (chunkBytes hex p) ∧ ChunkOK (hex, p) := by
  have hpos : 0 < p.length := by
    cases p with
    | nil => exact absurd rfl h0
    | cons _ _ => simp
  have hlt : p.length < 16 ^ 6 := by have := maxChunk_lt; omega
  have hmod : p.length % 2 ^ 32 = p.length := by
    apply Nat.mod_eq_of_lt
    have : (16:Nat) ^ 6 < 2 ^ 32 := by decide
    omega
  obtain ⟨hs, h1, h2, h3, h4⟩ := Mhd.ReplyNum.strx_spec p.length hpos hlt
  refine ⟨hs, ?_, ⟨h4, h3, h0⟩⟩
  unfold chunkFrame
  rw [hmod, h1]
  simp [chunkBytes, crlf, List.append_assoc]

def framesOf (cs : List (Bytes × Bytes)) : Bytes := (cs.map fun (c : Bytes × Bytes) => chunkBytes c.1 c.2).flatten

theorem framesOf_cons (c : Bytes × Bytes) (t : List (Bytes × Bytes)) : framesOf (c :: t) = chunkBytes c.1 c.2 ++ framesOf t := by
  simp [framesOf]

def chunkLimit (wb : Nat) : Nat := if maxChunk < wb - 10 then maxChunk else wb - 10

theorem stf_eq (wb left : Nat) : chunkSizeToFill wb left = if left < chunkLimit wb then left else chunkLimit wb := by
  unfold chunkSizeToFill chunkLimit; rfl

def sumLen (ps : List Bytes) : Nat := (ps.map List.length).sum

/-- chunked body produced by a content-reader callback -/
theorem chunkedCallback_spec (wb total : Nat) : ∀ (pieces : List Bytes) (pos : Nat) (acc : Bytes),
    (∀ p ∈ pieces, p ≠ [] ∧ p.length ≤ chunkLimit wb) →
    (total ≠ sizeUnknown → pos + sumLen pieces = total) → (total = sizeUnknown → pos + sumLen pieces < sizeUnknown) →
    ∃ cs, chunkedCallbackBody wb total .eos pieces pos acc = (acc ++ framesOf cs, true) ∧ cs.map (·.2) = pieces ∧
      ∀ c ∈ cs, ChunkOK c
  | [], pos, acc, _, _, _ => by
    refine ⟨[], ?_, rfl, by intro c hc; cases hc⟩
    simp [chunkedCallbackBody, framesOf]
  | p :: ps, pos, acc, hp, hk, hu => by
    obtain ⟨hp0, hpl⟩ := hp p (by simp)
    have hplen : 0 < p.length := by
      cases p with
      | nil => exact absurd rfl hp0
      | cons _ _ => simp
    have hsum : sumLen (p :: ps) = p.length + sumLen ps := by simp [sumLen]
    have hne : (pos == total) = false := by
      cases hx : (pos == total) with
      | false => rfl
      | true =>
        have hx' : pos = total := by simpa using hx
        by_cases ht : total = sizeUnknown
        · have := hu ht; rw [hsum] at this; omega
        · have := hk ht; rw [hsum] at this; omega
    have hcl : chunkLimit wb ≤ maxChunk := by unfold chunkLimit; split <;> omega
    have htake : p.take (chunkSizeToFill wb (if total == sizeUnknown then sizeUnknown else total - pos)) = p := by
      apply List.take_of_length_le
      rw [stf_eq]
      by_cases ht : total = sizeUnknown
      · have := hu ht; rw [hsum] at this
        simp only [ht, beq_self_eq_true, if_true]
        split <;> omega
      · have := hk ht; rw [hsum] at this
        have hb : (total == sizeUnknown) = false := by simpa using ht
        simp only [hb, Bool.false_eq_true, if_false]
        split <;> omega
    obtain ⟨hex, hf, hok⟩ := chunkFrame_ok p hp0 (by omega)
    obtain ⟨cs, h1, h2, h3⟩ := chunkedCallback_spec wb total ps (pos + p.length) (acc ++ chunkBytes hex p)
      (fun q hq => hp q (by simp [hq]))
      (fun ht => by have := hk ht; rw [hsum] at this; omega)
      (fun ht => by have := hu ht; rw [hsum] at this; omega)
    refine ⟨(hex, p) :: cs, ?_, by simp [h2], ?_⟩
    · simp only [chunkedCallbackBody, hne, Bool.false_eq_true, if_false, htake, hf, h1]
      simp [framesOf_cons, List.append_assoc]
    · intro c hc
      rcases List.mem_cons.1 hc with rfl | hc'
      · exact hok
      · exact h3 c hc'

/-- chunked body of a buffer response: the data is cut into chunks of at most `size_to_fill` bytes -/
theorem chunkedBuffer_spec (wb total : Nat) (data : Bytes) (hd : data.length = total) (hwb : 128 ≤ wb) :
    ∀ (fuel pos : Nat) (acc : Bytes), pos ≤ total → total - pos < fuel →
    ∃ cs, chunkedBufferBody wb total data fuel pos acc = some (acc ++ framesOf cs) ∧
      (cs.map (·.2)).flatten = data.drop pos ∧ ∀ c ∈ cs, ChunkOK c
  | 0, pos, acc, _, hf => by omega
  | fuel + 1, pos, acc, hp, hf => by
    by_cases he : pos = total
    · refine ⟨[], ?_, ?_, by intro c hc; cases hc⟩
      · simp [chunkedBufferBody, he, framesOf]
      · rw [he, ← hd]; simp
    · have hne : (pos == total) = false := by simpa using he
      have hlt : pos < total := by omega
      have hcl1 : 1 ≤ chunkLimit wb := by
        unfold chunkLimit
        have : 1 ≤ maxChunk := by decide
        split <;> omega
      have hcl2 : chunkLimit wb ≤ maxChunk := by unfold chunkLimit; split <;> omega
      let stf := chunkSizeToFill wb (total - pos)
      let n := if data.length - pos > stf then stf else data.length - pos
      have hstf : 1 ≤ stf ∧ stf ≤ maxChunk ∧ stf ≤ total - pos := by
        simp only [stf, stf_eq]
        split <;> omega
      have hn : 1 ≤ n ∧ n ≤ maxChunk ∧ n ≤ total - pos := by
        simp only [n]
        split <;> omega
      have hn0 : (n == 0) = false := by
        cases hx : (n == 0) with
        | false => rfl
        | true => have : n = 0 := by simpa using hx
                  omega
      have hsl : ((data.drop pos).take n).length = n := by
        rw [List.length_take, List.length_drop]; omega
      have hsl0 : (data.drop pos).take n ≠ [] := by
        intro hh; rw [hh] at hsl; simp at hsl; omega
      obtain ⟨hex, hfr, hok⟩ := chunkFrame_ok ((data.drop pos).take n) hsl0 (by omega)
      obtain ⟨cs, h1, h2, h3⟩ := chunkedBuffer_spec wb total data hd hwb fuel (pos + n)
        (acc ++ chunkBytes hex ((data.drop pos).take n)) (by omega) (by omega)
      refine ⟨(hex, (data.drop pos).take n) :: cs, ?_, ?_, ?_⟩
      · simp only [chunkedBufferBody, hne, Bool.false_eq_true, if_false]
        show (if (n == 0) = true then none else
          match chunkFrame ((data.drop pos).take n) with
          | none => none
          | some f => chunkedBufferBody wb total data fuel (pos + n) (acc ++ f)) = _
        simp only [hn0, Bool.false_eq_true, if_false, hfr, h1]
        simp [framesOf_cons, List.append_assoc]
      · simp only [List.map_cons, List.flatten_cons, h2]
        rw [← List.drop_drop]
        exact List.take_append_drop n (data.drop pos)
      · intro c hc
        rcases List.mem_cons.1 hc with rfl | hc'
        · exact hok
        · exact h3 c hc'

/-! ### identity-coded bodies -/

theorem normalCallback_spec (total : Nat) : ∀ (pieces : List Bytes) (pos : Nat) (acc : Bytes),
    (∀ p ∈ pieces, p ≠ []) →
    (total ≠ sizeUnknown → pos + sumLen pieces = total) → (total = sizeUnknown → pos + sumLen pieces < sizeUnknown) →
    (normalCallbackBody total pieces pos acc).bytes = acc ++ pieces.flatten ∧
    (total ≠ sizeUnknown → (normalCallbackBody total pieces pos acc).complete = true)
  | [], pos, acc, _, hk, _ => by
    refine ⟨by simp [normalCallbackBody], ?_⟩
    intro ht
    have := hk ht
    simp [normalCallbackBody, sumLen] at this ⊢
    exact this
  | p :: ps, pos, acc, hp, hk, hu => by
    have hp0 := hp p (by simp)
    have hplen : 0 < p.length := by
      cases p with
      | nil => exact absurd rfl hp0
      | cons _ _ => simp
    have hsum : sumLen (p :: ps) = p.length + sumLen ps := by simp [sumLen]
    have hne : (pos == total) = false := by
      cases hx : (pos == total) with
      | false => rfl
      | true =>
        have hx' : pos = total := by simpa using hx
        by_cases ht : total = sizeUnknown
        · have := hu ht; rw [hsum] at this; omega
        · have := hk ht; rw [hsum] at this; omega
    have htake : p.take (total - pos) = p := by
      apply List.take_of_length_le
      by_cases ht : total = sizeUnknown
      · have := hu ht; rw [hsum] at this; omega
      · have := hk ht; rw [hsum] at this; omega
    obtain ⟨i1, i2⟩ := normalCallback_spec total ps (pos + p.length) (acc ++ p)
      (fun q hq => hp q (by simp [hq]))
      (fun ht => by have := hk ht; rw [hsum] at this; omega)
      (fun ht => by have := hu ht; rw [hsum] at this; omega)
    simp only [normalCallbackBody, hne, Bool.false_eq_true, if_false, htake]
    exact ⟨by rw [i1]; simp [List.append_assoc], i2⟩
end Mhd.Reply
