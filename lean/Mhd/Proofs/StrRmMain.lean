/-
  C17 proofs: `MHD_str_remove_token_caseless_` = the reference editor
  (`removeTokenOut`, `hasTokenSpec`) for every input, every permitted token and
  every buffer size.
-/
import Mhd.Proofs.StrRmFun

namespace Mhd.Str

theorem removeTokenOut_eq (str tok : Bytes) : removeTokenOut str tok = joinWith [0x2c, 0x20] (keptOut tok str) := rfl

/-- loop invariant of the outer loop: what has been written, followed by what the
    reference still owes for the rest of the input, is the reference output; the flag
    is the reference flag of the part already seen -/
def OutInv (str tok : Bytes) (L : Nat) (st : RmSt) : Prop :=
  RmBnd str L st ∧
  removeTokenOut str tok = st.out.take st.w ++ emitCS (decide (st.w = 0)) (keptOut tok (str.drop st.s1)) ∧
  hasTokenSpec str tok = (st.removed || anyTok tok (str.drop st.s1))

def OutPost (str tok : Bytes) (L : Nat) : RmRes → Prop
  | .fail => ¬ (removeTokenOut str tok).length ≤ L
  | .done st => st.out.length = L ∧ st.w ≤ L ∧ removeTokenOut str tok = st.out.take st.w ∧
      st.removed = hasTokenSpec str tok

theorem peek_isEnd (str : Bytes) (j : Nat) (hj : j ≤ str.length) :
    (if j = str.length then pure true else do
        let c ← rd str j
        pure (c == 0x2c) : M Bool) = .ok (headElem (str.drop j)).isEmpty := by
  by_cases he : j = str.length
  · simp only [he, if_true, pure_eq_ok]
    rw [List.drop_eq_nil_of_le (by omega)]; rfl
  · have hjl : j < str.length := by omega
    simp only [he, if_false, rd_lt hjl, bind_ok', pure_eq_ok]
    rw [List.drop_eq_getElem_cons hjl]
    by_cases hc : str[j] = 0x2c
    · simp [hc, headElem, notComma]
    · rw [headElem_cons _ _ hc]; simp [hc]

theorem dropWhile_all (p : UInt8 → Bool) (a : Bytes) (h : ∀ x ∈ a, p x = true) : a.dropWhile p = [] := by
  induction a with
  | nil => rfl
  | cons x t ih =>
    simp only [List.dropWhile, h x List.mem_cons_self]
    exact ih (fun y hy => h y (List.mem_cons_of_mem _ hy))

theorem restElems_append_word (a v : Bytes) (ha : ∀ x ∈ a, notComma x = true) : restElems (a ++ v) = restElems v := by
  induction a with
  | nil => rfl
  | cons x t ih =>
    have hx := ha x List.mem_cons_self
    simp only [List.cons_append, restElems, List.dropWhile, hx]
    exact ih (fun y hy => ha y (List.mem_cons_of_mem _ hy))

theorem headElem_nil_stops {u : Bytes} (h : headElem u = []) : StopsAt notComma u := by
  cases u with
  | nil => left; rfl
  | cons z t =>
    right
    refine ⟨z, t, rfl, ?_⟩
    by_cases hz : notComma z = true
    · simp [headElem, List.takeWhile, hz] at h
    · simpa using hz

theorem trimR_cons_ne_nil (x : UInt8) (e : Bytes) (hx : isWs x = false) : trimR (x :: e) ≠ [] := by
  rw [trimR_cons]; simp [hx]

theorem emitCS_cons (first : Bool) (k : Bytes) (ks : List Bytes) :
    emitCS first (k :: ks) = (if first then [] else [0x2c, 0x20]) ++ k ++ emitCS false ks := rfl

theorem rmOuter_exact_step (str tok : Bytes) (L : Nat) (hne : tok ≠ [])
    (htk' : ∀ x ∈ tok, x ≠ 0x20 ∧ x ≠ 0x09 ∧ x ≠ 0x2c) (st : RmSt) (hi : OutInv str tok L st) :
    (∃ s', rmOuterStep str tok st = .ok (.inl s') ∧ OutInv str tok L s' ∧ str.length - s'.s1 < str.length - st.s1) ∨
    (∃ r, rmOuterStep str tok st = .ok (.inr r) ∧ OutPost str tok L r) := by
  obtain ⟨⟨h1, h2, h3⟩, hg1, hg2⟩ := hi
  have hlw : (st.out.take st.w).length = st.w := take_len _ _ (by omega)
  unfold rmOuterStep
  by_cases hlt : st.s1 < str.length
  · simp only [hlt, if_true]
    obtain ⟨hcur, hcd, hcl⟩ := skipN_exact str isWsComma st.s1 h1
    have hhead0 := dropWhile_head_not isWsComma (str.drop st.s1)
    rw [← hcd] at hhead0
    have hk1 : keptOut tok (str.drop st.s1) = keptOut tok (str.drop (st.s1 + ((str.drop st.s1).takeWhile isWsComma).length)) := by
      rw [hcd]; exact keptOut_skip tok _
    have ha1 : anyTok tok (str.drop st.s1) = anyTok tok (str.drop (st.s1 + ((str.drop st.s1).takeWhile isWsComma).length)) := by
      rw [hcd]; exact anyTok_skip tok hne _
    rw [hk1] at hg1
    rw [ha1] at hg2
    have hcge : st.s1 ≤ st.s1 + ((str.drop st.s1).takeWhile isWsComma).length := by omega
    generalize hcurdef : st.s1 + ((str.drop st.s1).takeWhile isWsComma).length = cur at *
    generalize hr1 : str.drop cur = r1 at *
    simp only [hcur, bind_ok']
    by_cases hend : cur ≥ str.length
    · right
      simp only [hend, if_true, pure_eq_ok]
      have hr1nil : r1 = [] := by rw [← hr1]; exact List.drop_eq_nil_of_le hend
      rw [hr1nil, keptOut_nil] at hg1
      rw [hr1nil, anyTok_nil tok hne] at hg2
      refine ⟨_, rfl, h3, h2, ?_, ?_⟩
      · simpa [emitCS] using hg1
      · simpa using hg2.symm
    · have hcl' : cur < str.length := by omega
      simp only [hend, if_false]
      -- r1 starts with a character that is neither space, tab nor comma
      obtain ⟨x, r1', hr1c, hxw⟩ : ∃ x r1', r1 = x :: r1' ∧ isWsComma x = false := by
        rcases hhead0 with h | ⟨z, b', h, hz⟩
        · exfalso; have := congrArg List.length hr1; rw [h] at this; simp at this; omega
        · exact ⟨z, b', h, hz⟩
      obtain ⟨hxws, hxc⟩ := isWsComma_of_isWs hxw
      have hhead : trimWs (headElem r1) = trimR (headElem r1) := by
        apply trimWs_of_head_not_ws
        right; rw [hr1c, headElem_cons _ _ hxc]; exact ⟨x, _, rfl, hxws⟩
      have helem := elemIs_eq r1 tok htk'
      rw [← hhead] at helem
      -- the matching loop
      have hmatch := rmMatch_exact str tok cur
      rw [hr1] at hmatch
      simp only [hmatch, bind_ok']
      have hkle := matchLen_le r1 tok
      have hr1len : cur + r1.length = str.length := by
        have := congrArg List.length hr1; simp at this; omega
      generalize hkdef : matchLen r1 tok = k at *
      have hpw : ∀ y ∈ r1.take k, isWordB y = true := by rw [← hkdef]; exact matchLen_prefix_word tok htk' r1
      have hdropk : str.drop (cur + k) = r1.drop k := by rw [← hr1, List.drop_drop]
      -- the "full match?" block
      have hfullblock : ∃ s1 full,
          (if k = tok.length ∧ tok.length ≠ 0 then (do
              let s1' ← skipN str isWs (cur + k)
              let isEnd ← (if s1' = str.length then pure true else do
                              let c ← rd str s1'
                              pure (c == 0x2c) : M Bool)
              if isEnd then pure (s1', true) else pure (cur + k, false))
           else pure (cur + k, false) : M (Nat × Bool)) = .ok (s1, full) ∧
          ((full = true ∧ elemIs r1 tok = true ∧ cur + k ≤ s1 ∧ s1 ≤ str.length ∧ k = tok.length ∧
              str.drop s1 = (r1.drop k).dropWhile isWs ∧ headElem (str.drop s1) = []) ∨
           (full = false ∧ s1 = cur + k ∧ elemIs r1 tok = false)) := by
        have hiff := elemIs_iff_match tok htk' r1
        rw [hkdef] at hiff
        by_cases hm : k = tok.length ∧ tok.length ≠ 0
        · simp only [hm, ne_eq, not_false_eq_true, and_self, if_true]
          obtain ⟨hj, hjd, hjl⟩ := skipN_exact str isWs (cur + k) (by omega)
          rw [hdropk] at hj hjd hjl
          rw [hm.1] at hj
          simp only [hj, bind_ok']
          rw [← hm.1]
          rw [peek_isEnd str _ hjl]
          simp only [bind_ok']
          by_cases hE : (headElem (str.drop (cur + k + ((r1.drop k).takeWhile isWs).length))).isEmpty = true
          · simp only [hE, if_true, pure_eq_ok]
            have hEn : headElem (str.drop (cur + k + ((r1.drop k).takeWhile isWs).length)) = [] := List.isEmpty_iff.mp hE
            refine ⟨_, _, rfl, Or.inl ⟨rfl, ?_, by omega, hjl, (by first | exact hm.1 | trivial), hjd, hEn⟩⟩
            rw [hiff]; refine ⟨hm.1, ?_⟩
            rw [← hm.1, ← hjd]; exact hEn
          · simp only [hE, if_false, pure_eq_ok, Bool.false_eq_true]
            refine ⟨_, _, rfl, Or.inr ⟨rfl, rfl, ?_⟩⟩
            cases hel : elemIs r1 tok with
            | false => rfl
            | true =>
              exfalso; apply hE
              have := (hiff.mp hel).2
              rw [← hm.1, ← hjd] at this
              rw [this]; rfl
        · simp only [hm, if_false, pure_eq_ok]
          refine ⟨_, _, rfl, Or.inr ⟨rfl, rfl, ?_⟩⟩
          cases hel : elemIs r1 tok with
          | false => rfl
          | true =>
            exfalso; apply hm
            refine ⟨(hiff.mp hel).1, ?_⟩
            intro h0; exact hne (List.eq_nil_of_length_eq_zero h0)
      obtain ⟨s1, full, hfb, hcase⟩ := hfullblock
      simp only [hfb, bind_ok']
      rcases hcase with ⟨hf, hel, hf1, hf2, hkt, hsd, hsE⟩ | ⟨hf, hs1, hel⟩
      · -- the element is the token: skip it
        left
        subst hf
        simp only [if_true, pure_eq_ok]
        have hk1' : 1 ≤ k := by
          rw [hkt]; cases tok with
          | nil => exact absurd rfl hne
          | cons _ _ => simp
        have hrest : restElems r1 = str.drop s1 := by
          have hsplit : r1 = (r1.take k ++ (r1.drop k).takeWhile isWs) ++ (r1.drop k).dropWhile isWs := by
            rw [List.append_assoc, List.takeWhile_append_dropWhile, List.take_append_drop]
          conv => lhs; rw [hsplit]
          rw [restElems_append_word _ _ (by
            intro y hy
            rcases List.mem_append.mp hy with h | h
            · exact isWordB_notComma (hpw y h)
            · exact isWs_notComma y (takeWhile_mem isWs _ y h))]
          rw [← hsd]
          unfold restElems
          rcases headElem_nil_stops hsE with h | ⟨z, t, h, hz⟩
          · rw [h]; rfl
          · rw [h]; simp [List.dropWhile, hz]
        have hceq : ceqBytes (trimWs (headElem r1)) tok = true := by rw [← helem]; exact hel
        refine ⟨_, rfl, ⟨⟨hf2, h2, h3⟩, ?_, ?_⟩, by simp only []; omega⟩
        · simp only []
          rw [hg1, keptOut_rest tok r1, hceq, hrest]; simp
        · simp only []
          rw [hg2, anyTok_rest tok r1 hne, hceq]; simp
      · -- the element is kept: copy it in normalised form
        subst hf
        subst hs1
        simp only [Bool.false_eq_true, if_false, Nat.add_sub_cancel_left]
        have hkr : k ≤ r1.length := hkle.1
        have hpc : ∀ y ∈ r1.take k, notComma y = true := fun y hy => isWordB_notComma (hpw y hy)
        have hhe : headElem r1 = r1.take k ++ headElem (r1.drop k) := headElem_prefix r1 k hkr hpc
        have hplen : (r1.take k).length = k := by simp; omega
        -- the normalised element
        have hN : normElem (trimWs (headElem r1)) = r1.take k ++ restOutput (headElem (r1.drop k)) := by
          rw [normElem_trimWs]
          unfold normElem
          by_cases hk0 : k = 0
          · subst hk0
            simp only [List.take_zero, List.nil_append, List.drop_zero]
            rw [hr1c, headElem_cons _ _ hxc]
            exact (restOutput_eq_norm _ (Or.inr ⟨x, _, rfl, hxws⟩)).symm
          · rw [hhe]
            exact norm_prefix _ _ (fun y hy => isWordB_notWs (hpw y hy)) (by
              intro h; rw [h] at hplen; simp at hplen; omega)
        have hkeep : (!(trimWs (headElem r1)).isEmpty && !ceqBytes (trimWs (headElem r1)) tok) = true := by
          rw [← helem, hel, hhead, hr1c, headElem_cons _ _ hxc]
          have := trimR_cons_ne_nil x (headElem r1') hxws
          cases hh : trimR (x :: headElem r1') with
          | nil => exact absurd hh this
          | cons _ _ => rfl
        have hkept : keptOut tok r1 = (r1.take k ++ restOutput (headElem (r1.drop k))) :: keptOut tok (restElems r1) := by
          rw [keptOut_rest tok r1, hkeep, hN]; rfl
        have hany : anyTok tok r1 = anyTok tok (restElems r1) := by
          rw [anyTok_rest tok r1 hne, ← helem, hel]; rfl
        rw [hkept, emitCS_cons] at hg1
        -- total length of the reference output
        have htot : (removeTokenOut str tok).length =
            st.w + (if decide (st.w = 0) = true then 0 else 2) + k + (restOutput (headElem (r1.drop k))).length +
              (emitCS false (keptOut tok (restElems r1))).length := by
          rw [hg1]
          simp only [List.length_append, hlw, hplen]
          by_cases hw0 : st.w = 0 <;> simp [hw0] <;> omega
        -- space check and separator
        have hsep : (∃ w o, (if st.w = 0 then
               if st.out.length < k then (pure none : M (Option (Nat × Bytes))) else pure (some (st.w, st.out))
             else
               if st.out.length < st.w + k + 2 then pure none
               else do
                 let o ← wr st.out st.w 0x2c
                 let o ← wr o (st.w + 1) 0x20
                 pure (some (st.w + 2, o))) = .ok (some (w, o)) ∧ w + k ≤ L ∧ o.length = L ∧
               w = st.w + (if decide (st.w = 0) = true then 0 else 2) ∧
               o.take w = st.out.take st.w ++ (if decide (st.w = 0) = true then [] else [0x2c, 0x20])) ∨
            ((if st.w = 0 then
               if st.out.length < k then (pure none : M (Option (Nat × Bytes))) else pure (some (st.w, st.out))
             else
               if st.out.length < st.w + k + 2 then pure none
               else do
                 let o ← wr st.out st.w 0x2c
                 let o ← wr o (st.w + 1) 0x20
                 pure (some (st.w + 2, o))) = .ok none ∧
              L < st.w + (if decide (st.w = 0) = true then 0 else 2) + k) := by
          by_cases hw0 : st.w = 0
          · simp only [hw0, if_true, decide_true]
            by_cases hsz : st.out.length < k
            · right; simp only [hsz, if_true, pure_eq_ok]; exact ⟨(by first | rfl | trivial), by omega⟩
            · left; simp only [hsz, if_false, pure_eq_ok]
              exact ⟨_, _, rfl, by omega, h3, by simp, by simp⟩
          · simp only [hw0, if_false, decide_false, Bool.false_eq_true]
            by_cases hsz : st.out.length < st.w + k + 2
            · right; simp only [hsz, if_true, pure_eq_ok]; exact ⟨(by first | rfl | trivial), by omega⟩
            · left
              have hw1 : st.w < st.out.length := by omega
              have hw2 : st.w + 1 < (st.out.set st.w 0x2c).length := by simp; omega
              simp only [hsz, if_false, wr_ok _ hw1, wr_ok _ hw2, bind_ok', pure_eq_ok]
              exact ⟨_, _, rfl, by omega, by simp [h3], rfl, take_set_two _ _ _ _ (by omega)⟩
        rcases hsep with ⟨w, o, hso, hwk, hol, hwdef, hotake⟩ | ⟨hsn, hbig⟩
        · simp only [hso, bind_ok']
          -- memcpy of the matched prefix
          obtain ⟨o2, ho2, hol2, ho2take⟩ : ∃ o2, (if k ≠ 0 then copyBytes str cur o w k else pure o : M Bytes) = .ok o2 ∧
              o2.length = L ∧ o2.take (w + k) = o.take w ++ r1.take k := by
            by_cases hk0 : k ≠ 0
            · simp only [hk0, ne_eq, not_false_eq_true, if_true]
              obtain ⟨d, hd, hdl, hdt⟩ := copyBytes_exact str cur o w k (by omega) (by omega)
              exact ⟨d, hd, by omega, by rw [hdt, hr1]⟩
            · have hk0' : k = 0 := by omega
              simp only [hk0, if_false, pure_eq_ok]
              exact ⟨o, rfl, hol, by simp [hk0']⟩
          simp only [ho2, bind_ok']
          obtain ⟨res, hres, hpost⟩ := rmCopyRest_go str L (str.length + 1) ⟨cur + k, w + k, o2, st.removed⟩ (str.length + 1)
            (by simp only []; rw [hdropk]
                have := takeWhile_length_le notComma (r1.drop k)
                unfold headElem; simp at this ⊢; omega)
            (Nat.le_refl _) (by simp only []; omega) hwk hol2
          simp only [hres, bind_ok']
          simp only [] at hpost
          rw [hdropk] at hpost
          unfold RestRes at hpost
          simp only [] at hpost
          by_cases hfit : w + k + (restOutput (headElem (r1.drop k))).length ≤ L
          · left
            simp only [hfit, if_true] at hpost
            obtain ⟨st2, rfl, q1, q2, q3, q4, q5⟩ := hpost
            simp only [pure_eq_ok]
            have hdrop2 : str.drop st2.s1 = restElems r1 := by
              rw [q1, ← List.drop_drop, hdropk]
              have : restElems r1 = restElems (r1.drop k) := by
                conv => lhs; rw [← List.take_append_drop k r1]
                exact restElems_append_word _ _ hpc
              rw [this]; exact drop_takeWhile_length notComma (r1.drop k)
            have hElen : (headElem r1).length = k + (headElem (r1.drop k)).length := by
              rw [hhe, List.length_append, hplen]
            have hepos : 0 < (headElem r1).length := by rw [hr1c, headElem_cons _ _ hxc]; simp
            have hw2pos : st2.w ≠ 0 := by
              rw [q2]
              by_cases hk0 : k = 0
              · -- the first word of the element is non-empty
                subst hk0
                have : 0 < (restOutput (headElem (r1.drop 0))).length := by
                  rw [List.drop_zero, hr1c, headElem_cons _ _ hxc]
                  unfold restOutput
                  have hnw : notWsB x = true := (notWsB_true_iff x).mpr hxws
                  simp [List.takeWhile, hnw]
                omega
              · omega
            refine ⟨st2, rfl, ⟨⟨by rw [q1]; have := takeWhile_length_le notComma (r1.drop k); unfold headElem; simp at this ⊢; omega,
                by rw [q2]; exact hfit, q3⟩, ?_, ?_⟩, by rw [q1]; omega⟩
            · rw [hdrop2, hg1, q4, ho2take, hotake]
              have : decide (st2.w = 0) = false := by simp [hw2pos]
              rw [this]
              simp [List.append_assoc]
            · rw [hdrop2, hg2, hany, q5]
          · right
            simp only [hfit, if_false] at hpost
            subst hpost
            simp only [pure_eq_ok]
            refine ⟨.fail, rfl, ?_⟩
            show ¬ (removeTokenOut str tok).length ≤ L
            rw [htot]; omega
        · right
          rw [hsn]
          refine ⟨.fail, rfl, ?_⟩
          show ¬ (removeTokenOut str tok).length ≤ L
          rw [htot]; omega
  · right
    simp only [hlt, if_false, pure_eq_ok]
    have hnil : str.drop st.s1 = [] := List.drop_eq_nil_of_le (by omega)
    rw [hnil, keptOut_nil] at hg1
    rw [hnil, anyTok_nil tok hne] at hg2
    refine ⟨_, rfl, h3, h2, ?_, ?_⟩
    · simpa [emitCS] using hg1
    · simpa using hg2.symm

/-- the precondition `MHD_str_remove_token_caseless_` documents for its token (the `mhd_assert`s
    on entry), without the "no NUL" part, which the function does not need: non-empty, no
    space, tab or comma -/
def tokenLegal (tok : Bytes) : Bool := !tok.isEmpty && tok.all (fun x => x != 0x20 && x != 0x09 && x != 0x2c)

theorem tokenLegal_iff (tok : Bytes) :
    tokenLegal tok = true ↔ (tok ≠ [] ∧ ∀ x ∈ tok, x ≠ 0x20 ∧ x ≠ 0x09 ∧ x ≠ 0x2c) := by
  unfold tokenLegal
  cases tok with
  | nil => simp
  | cons a t => simp [and_assoc]

theorem tokenLegal_of_TokenOk (tok : Bytes) (h : TokenOk tok) : tokenLegal tok = true :=
  (tokenLegal_iff tok).mpr ⟨h.1, fun x hx => (h.2 x hx).2⟩

/-- the `SSIZE_MAX <= (str_len / 2) * 3 + 3` refusal does not wrap for any object size -/
theorem rm_refuse_nowrap (n : Nat) (h : n ≤ Mhd.Gen.Str.ssizeMax) : (n / 2 * 3 + 3) % 2 ^ 64 = n / 2 * 3 + 3 := by
  apply Nat.mod_eq_of_lt
  simp only [Mhd.Gen.Str.ssizeMax] at h
  omega

/-- `MHD_str_remove_token_caseless_ (str, str_len, token, token_len, buf, &buf_size)` for every
    input string, every permitted token and every buffer:
    * a string so long that the `ssize_t` result could overflow (`SSIZE_MAX <= str_len / 2 * 3 + 3`)
      is refused: false, `*buf_size = -1`;
    * otherwise, if the reference output `removeTokenOut str tok` — the elements of `tokensOf str`
      that are non-empty and not caselessly equal to the token, each with its inner runs of
      spaces/tabs collapsed to one space, joined with ", " — fits into the buffer, the call
      returns `hasTokenSpec str tok` (⇔ the token is an element), sets `*buf_size` to the exact
      length and the buffer starts with that output;
    * otherwise it returns false with `*buf_size = -1`;
    in every case without reading or writing out of bounds, and the buffer keeps its size.
    `str.length ≤ SSIZE_MAX` holds for every C object (it keeps `str_len / 2 * 3 + 3` from
    wrapping in `size_t`). -/
theorem removeTokenCaseless_spec (str tok out : Bytes) (htok : tokenLegal tok = true)
    (hlen : str.length ≤ Mhd.Gen.Str.ssizeMax) :
    ∃ o, o.length = out.length ∧
      if Mhd.Gen.Str.ssizeMax ≤ str.length / 2 * 3 + 3 then removeTokenCaseless str tok out = .ok (false, -1, o)
      else if (removeTokenOut str tok).length ≤ out.length then
        removeTokenCaseless str tok out = .ok (hasTokenSpec str tok, ((removeTokenOut str tok).length : Int), o) ∧
        o.take (removeTokenOut str tok).length = removeTokenOut str tok
      else removeTokenCaseless str tok out = .ok (false, -1, o) := by
  obtain ⟨hne, htk'⟩ := (tokenLegal_iff tok).mp htok
  unfold removeTokenCaseless
  rw [rm_refuse_nowrap _ hlen]
  by_cases hbig : Mhd.Gen.Str.ssizeMax ≤ str.length / 2 * 3 + 3
  · exact ⟨out, rfl, by simp only [hbig, if_true, pure_eq_ok]⟩
  simp only [hbig, if_false]
  obtain ⟨r, hr, hp⟩ := iter_spec (rmOuterStep str tok) (OutInv str tok out.length) (fun st => str.length - st.s1)
    (OutPost str tok out.length) (rmOuter_exact_step str tok out.length hne htk') (str.length + 1) ⟨0, 0, out, false⟩
    ⟨⟨by simp, by simp, rfl⟩, by simp [removeTokenOut_eq, joinWith_eq_emit], by simp [anyTok]⟩ (by simp)
  simp only [hr, bind_ok']
  cases r with
  | fail =>
    have hp' : ¬ (removeTokenOut str tok).length ≤ out.length := hp
    exact ⟨out, rfl, by simp only [hp', if_false, pure_eq_ok]⟩
  | done st =>
    obtain ⟨q1, q2, q3, q4⟩ := hp
    have hl : (removeTokenOut str tok).length = st.w := by rw [q3]; exact take_len _ _ (by omega)
    refine ⟨st.out, q1, ?_⟩
    have hfit : (removeTokenOut str tok).length ≤ out.length := by omega
    simp only [hfit, if_true, pure_eq_ok]
    exact ⟨by rw [q4, hl], by rw [hl]; exact q3.symm⟩

end Mhd.Str
