/-
  API-level facts: override takes effect immediately, resume restarts the timer.
-/
import Mhd.Proofs.TmoExact
namespace Mhd.Tmo
open Mhd.Gen.Tmo

/-- override: whatever list the connection is on and whether or not it is suspended, the new value is
    in force as soon as `MHD_set_connection_option` returns (repaired behaviour) -/
theorem setTimeout_tmo {v : Variant} (hv : v.optSusp = true) (d : Daemon) (i : Id) (s : Nat) :
    ((setTimeout v d i s).c i).tmo = s * msPerSec := by
  unfold setTimeout Daemon.remTimeout Daemon.remNormal Daemon.remManual
  dsimp only
  repeat' split
  all_goals first | (simp; done) | (simp [hv] at *; done) | grind

/-- … and a live connection sits on the list that `MHD_get_timeout64` and the loops consult for that
    value: the normal list iff the value equals the daemon's default -/
theorem setTimeout_list {v : Variant} (hv : Fixed v) {d : Daemon} (h : Inv d) (i : Id) (s : Nat)
    (hi : i ∈ d.conns) (hs : s ≤ 4000000) :
    (i ∈ (setTimeout v d i s).normal ↔ s * msPerSec = d.cfg.dtmo) ∧
    (i ∈ (setTimeout v d i s).manual ↔ s * msPerSec ≠ d.cfg.dtmo) := by
  have h' := inv_setTimeout hv h i s (Or.inl hi) hs
  have ht := setTimeout_tmo hv.2.1 d i s
  have hcfg : (setTimeout v d i s).cfg = d.cfg := (others_setTimeout v d i s).2.2.1
  have hc : i ∈ (setTimeout v d i s).conns := by
    have : (setTimeout v d i s).conns = d.conns := by
      unfold setTimeout Daemon.remTimeout Daemon.remNormal Daemon.remManual
      dsimp only
      repeat' split
      all_goals rfl
    rw [this]; exact hi
  have hm := (h'.connsIff i).1 hc
  constructor
  · constructor
    · intro x; have := h'.normalT i x; rw [ht, hcfg] at this; exact this
    · intro x
      rcases hm with y | y
      · exact y
      · have := h'.manualT i y; rw [ht, hcfg] at this; exact absurd x this
  · constructor
    · intro x; have := h'.manualT i x; rw [ht, hcfg] at this; exact this
    · intro x
      rcases hm with y | y
      · have := h'.normalT i y; rw [ht, hcfg] at this; exact absurd this x
      · exact y

/-- resume: the connection processed by `resume_suspended_connections` is no longer suspended and
    its timer starts again at the current time -/
theorem resumeOne_restarts (v : Variant) (d : Daemon) (i : Id) (hr : (d.c i).resuming = true) :
    ((resumeOne v d i).c i).suspended = false ∧ ((resumeOne v d i).c i).tmo = (d.c i).tmo ∧
    ((d.c i).tmo ≠ 0 → ((resumeOne v d i).c i).la = d.now) := by
  unfold resumeOne Daemon.remSusp Daemon.insTimeout
  dsimp only
  repeat' split
  all_goals first | (simp [hr] at *; done) | (simp [hr] at *; grind) | grind

end Mhd.Tmo
