/-
  C05 — refinement relation between the connection model (`Mhd.ConnSM`) and the call-protocol
  automaton (`Mhd.Protocol`), and the lemmas that every function of the model preserves it.
-/
import Mhd.Model.ConnSM
namespace Mhd.ConnSM
open Mhd.Gen.ConnState Mhd.Protocol

@[simp] theorem Site.rank_first : Site.first.rank = 0 := rfl
@[simp] theorem Site.rank_upload : Site.upload.rank = 1 := rfl
@[simp] theorem Site.rank_final : Site.final.rank = 2 := rfl
theorem Site.rank_le_two (s : Site) : s.rank ≤ 2 := by cases s <;> simp

/-- call-site rank the connection state belongs to -/
def stateSite (s : CState) : Nat := if s.toNat ≤ 6 then 0 else if s.toNat ≤ 10 then 1 else 2

/-- invariant of the connection record (holds between any two calls of the functions below) -/
def Inv {σ} (c : Conn σ) : Prop :=
  (c.response.isSome = true → 11 ≤ c.state.toNat ∧ c.state.toNat ≤ 21) ∧
  (c.stopWithError = true → 13 ≤ c.state.toNat) ∧
  (c.stopWithError = true → c.discard = true) ∧
  (c.state = .closed → c.clientAware = false ∧ c.response = none) ∧
  (c.clientAware = false → c.state.toNat ≤ 5 → c.ctx = none ∧ c.upOff = 0) ∧
  (c.inCleanup = true → 22 ≤ c.state.toNat ∧ c.clientAware = false ∧ c.response = none) ∧
  (6 ≤ c.state.toNat → c.state.toNat ≤ 12 → c.clientAware = true) ∧
  (c.state.toNat ≤ 1 → c.clientAware = false) ∧
  (c.stopWithError = true → c.response = none ∨ c.response = some errResp) ∧
  (c.clientAware = false → c.response = none ∨ c.response = some errResp)

/-- a response is queued, or the connection has been handed over by an upgrade response -/
def respOrUpg {σ} (c : Conn σ) : Bool := c.response.isSome || decide (c.state.toNat = 23)

theorem respOrUpg_of_none {σ} (c : Conn σ) (h : c.response = none) (hs : c.state.toNat ≤ 22) : respOrUpg c = false := by
  have : c.state.toNat ≠ 23 := by omega
  simp [respOrUpg, h, this]

/-- the refinement relation between the connection and the protocol automaton -/
def Rel {σ} (c : Conn σ) : PSt → Prop
  | .fresh => c.started = false ∧ c.cleaned = false ∧ c.clientAware = false ∧ Inv c
  | .closed => c.started = true ∧ c.cleaned = true
  | .bad => False
  | .idle => c.started = true ∧ c.cleaned = false ∧ c.clientAware = false ∧ Inv c
  | .req r => c.started = true ∧ c.cleaned = false ∧ c.clientAware = true ∧ Inv c ∧
      r.ctx = c.ctx ∧ r.nextOff = c.upOff ∧ r.replied = respOrUpg c ∧ r.failed = false ∧
      r.site.rank ≤ stateSite c.state ∧ (r.handlerSeen = false → c.state.toNat ≤ 5 ∨ r.replied = true) ∧
      r.upgraded = decide (c.state.toNat = 23)

/-! ### the automaton, one transition at a time (all by `rfl`) -/
@[simp] theorem step_fresh_start : Protocol.step .fresh .connStart = .idle := rfl
@[simp] theorem step_idle_close : Protocol.step .idle .connClose = .closed := rfl
@[simp] theorem step_idle_uri (x : Option Nat) : Protocol.step .idle (.uriLog x) =
    .req { handlerSeen := false, site := .first, ctx := x, nextOff := 0, replied := false, failed := false } := rfl
@[simp] theorem step_idle_handler (site : Site) (off len taken : Nat) (ci co : Option Nat) (ret : Bool) :
    Protocol.step .idle (.handler site off len taken ci co ret) =
    handlerStep { handlerSeen := false, site := .first, ctx := none, nextOff := 0, replied := false, failed := false }
      site off len taken ci co ret := rfl
@[simp] theorem step_req_handler (q : ReqSt) (site : Site) (off len taken : Nat) (ci co : Option Nat) (ret : Bool) :
    Protocol.step (.req q) (.handler site off len taken ci co ret) = handlerStep q site off len taken ci co ret := rfl
@[simp] theorem step_req_queued (q : ReqSt) :
    Protocol.step (.req q) .queued = if q.replied then .bad else .req { q with replied := true } := rfl
@[simp] theorem step_idle_queued : Protocol.step .idle .queued = .idle := rfl
@[simp] theorem step_req_completed (q : ReqSt) (code : Nat) (x : Option Nat) :
    Protocol.step (.req q) (.completed code x) = if x = q.ctx then .idle else .bad := rfl
@[simp] theorem step_idle_invalidate : Protocol.step .idle .invalidate = .idle := rfl
@[simp] theorem step_idle_freeCb (n : Nat) : Protocol.step .idle (.freeCb n) = .idle := rfl
@[simp] theorem step_req_freeCb (q : ReqSt) (n : Nat) : Protocol.step (.req q) (.freeCb n) = .req q := rfl
@[simp] theorem step_req_interimSent (q : ReqSt) :
    Protocol.step (.req q) .interimSent =
      if q.replied && !q.upgraded then .req { q with replied := false, site := .first } else .bad := rfl
@[simp] theorem step_req_upgrade (q : ReqSt) :
    Protocol.step (.req q) .upgrade = if q.replied && !q.upgraded then .req { q with upgraded := true } else .bad := rfl
@[simp] theorem step_closed_freeCb (n : Nat) : Protocol.step .closed (.freeCb n) = .closed := rfl

/-- weak precondition of the closing functions -/
def Open {σ} (c : Conn σ) : PSt → Prop
  | .idle => c.started = true ∧ c.cleaned = false ∧ c.clientAware = false
  | .req r => c.started = true ∧ c.cleaned = false ∧ c.clientAware = true ∧ r.ctx = c.ctx
  | _ => False

@[simp] theorem run_nil (p : PSt) : Protocol.run p [] = p := rfl
@[simp] theorem run_cons (p : PSt) (e : LEv) (l : List LEv) :
    Protocol.run p (e :: l) = Protocol.run (Protocol.step p e) l := rfl

theorem closeConn_rel {σ} (c : Conn σ) (p : PSt) (code : Nat) (h : Open c p)
    (hsd : c.stopWithError = true → c.discard = true) :
    Rel (closeConn c code).1 (Protocol.run p (closeConn c code).2) ∧
    Protocol.run p (closeConn c code).2 = .idle ∧ (closeConn c code).1.state = .closed ∧
    (closeConn c code).1.inCleanup = c.inCleanup := by
  cases p <;> simp [Open] at h
  · obtain ⟨hs, hc, ha⟩ := h
    unfold closeConn notify dropResp
    cases hr : c.response with
    | none => simp [ha, Rel, Inv, hs, hc]; exact hsd
    | some r =>
      by_cases hf : r.freeCb <;> simp [ha, hf, Rel, Inv, hs, hc] <;> exact hsd
  · obtain ⟨hs, hc, ha, hx⟩ := h
    unfold closeConn notify dropResp
    cases hr : c.response with
    | none => simp [ha, Rel, Inv, hs, hc, hx]; exact hsd
    | some r =>
      by_cases hf : r.freeCb <;> simp [ha, hf, Rel, Inv, hs, hc, hx] <;> exact hsd

theorem Rel.toOpen {σ} {c : Conn σ} {p : PSt} (h : Rel c p) (hs : c.started = true) (hc : c.cleaned = false) : Open c p := by
  cases p <;> simp_all [Rel, Open]

theorem Rel.stopDiscard {σ} {c : Conn σ} {p : PSt} (h : Rel c p) (hs : c.started = true) (hc : c.cleaned = false) :
    c.stopWithError = true → c.discard = true := by
  cases p <;> simp_all [Rel, Inv, respOrUpg]

theorem closeError_rel {σ} (c : Conn σ) (p : PSt) (h : Open c p) :
    Rel (closeError c).1 (Protocol.run p (closeError c).2) ∧
    Protocol.run p (closeError c).2 = .idle ∧ (closeError c).1.state = .closed ∧
    (closeError c).1.inCleanup = c.inCleanup := by
  unfold closeError
  apply closeConn_rel
  · cases p <;> simp_all [Open]
  · simp


theorem cleanupConnection_rel {σ} (c : Conn σ) (p : PSt) (h : Rel c p) (hst : c.state = .closed)
    (hs : c.started = true) (hc : c.cleaned = false) :
    Rel (cleanupConnection c).1 (Protocol.run p (cleanupConnection c).2) ∧
    (cleanupConnection c).1.inCleanup = true := by
  unfold cleanupConnection
  by_cases hi : c.inCleanup = true
  · simp [hi, h]
  · have hr : c.response = none := by cases p <;> simp_all [Rel, Inv, respOrUpg]
    simp [hi, dropResp, hr]
    cases p <;> simp_all [Rel, Inv, respOrUpg] <;> grind

/-- the environment does not exercise a path that is known to be defective in an unrepaired tree -/
def EnvOk (cfg : Cfg) (env : IdleEnv) : Prop :=
  (cfg.f9Fixed = true ∨ env.chunkExt = false) ∧
  (cfg.allocBypassFixed = true ∨ env.errAllocFail = false) ∧
  (cfg.epollBypassFixed = true ∨ env.epollAdd ≠ some false) ∧
  ((cfg.f14Fixed = true ∧ cfg.f14ClearsAware = true) ∨ env.errHdrFail1 = false)

theorem connectionReset_rel {σ} (c : Conn σ) (p : PSt) (reuse : Bool) (h : Rel c p)
    (hst : c.state = .fullReplySent) (hs : c.started = true) (hc : c.cleaned = false)
    (hre : reuse = true → c.discard = false) :
    Rel (connectionReset c reuse).1 (Protocol.run p (connectionReset c reuse).2) := by
  unfold connectionReset
  cases reuse with
  | false =>
    have := closeConn_rel c p (if c.stopWithError = true then terminatedWithError else terminatedCompletedOk)
      (h.toOpen hs hc) (h.stopDiscard hs hc)
    obtain ⟨h1, h2, h3, h4⟩ := this
    simp only [Bool.not_false, if_true]
    rw [h2] at h1
    simp only [h2]
    simp only [Rel, Inv, respOrUpg] at h1 ⊢
    simp_all []
  | true =>
    have hd := hre rfl
    unfold notify dropResp clearRq
    match p, h with
    | .idle, h =>
      obtain ⟨_, _, ha, hinv⟩ := h
      simp only [Inv] at hinv
      cases hr : c.response with
      | none => simp_all [Rel, Inv, respOrUpg]
      | some r => by_cases hf : r.freeCb <;> simp_all [Rel, Inv, respOrUpg]
    | .req q, h =>
      obtain ⟨_, _, ha, hinv, hx, _⟩ := h
      simp only [Inv] at hinv
      cases hr : c.response with
      | none => simp_all [Rel, Inv, respOrUpg]
      | some r => by_cases hf : r.freeCb <;> simp_all [Rel, Inv, respOrUpg]
    | .fresh, h => simp_all [Rel]
    | .closed, h => simp_all [Rel]


theorem closeConn_eq {σ} {c c' : Conn σ} {l : List LEv} {p : PSt} {code : Nat}
    (heq : closeConn c code = (c', l)) (h : Open c p)
    (hsd : c.stopWithError = true → c.discard = true) :
    Protocol.run p l = .idle ∧ Rel c' .idle ∧ c'.state = .closed ∧ c'.inCleanup = c.inCleanup := by
  have := closeConn_rel c p code h hsd
  rw [heq] at this
  obtain ⟨t1, t2, t3, t4⟩ := this
  simp only at t1 t2 t3 t4
  rw [t2] at t1
  exact ⟨t2, t1, t3, t4⟩

theorem closeError_eq {σ} {c c' : Conn σ} {l : List LEv} {p : PSt} (heq : closeError c = (c', l)) (h : Open c p) :
    Protocol.run p l = .idle ∧ Rel c' .idle ∧ c'.state = .closed ∧ c'.inCleanup = c.inCleanup := by
  have := closeError_rel c p h
  rw [heq] at this
  obtain ⟨t1, t2, t3, t4⟩ := this
  simp only at t1 t2 t3 t4
  rw [t2] at t1
  exact ⟨t2, t1, t3, t4⟩

theorem transmitError_eq {σ} (cfg : Cfg) (env : IdleEnv) (c : Conn σ) (p : PSt) (h : Rel c p)
    (hok : EnvOk cfg env) (hst : c.state.toNat ≤ 10) (hs : c.started = true) (hc : c.cleaned = false)
    (c' : Conn σ) (l : List LEv) (heq : transmitError cfg env c = (c', l)) :
    Rel c' (Protocol.run p l) ∧ 13 ≤ c'.state.toNat ∧ c'.started = true ∧ c'.cleaned = false := by
  have hinv : Inv c := by cases p <;> simp_all [Rel]
  have hswe : c.stopWithError = false := by
    simp only [Inv] at hinv
    cases hq : c.stopWithError <;> simp_all <;> omega
  have hresp : c.response = none := by
    simp only [Inv] at hinv
    cases hq : c.response <;> simp_all <;> omega
  have hlt : lt .startReply c.state = false := by
    have : ¬ (12 < c.state.toNat) := by omega
    simp [lt, this]
  have hic : c.inCleanup = false := by
    simp only [Inv] at hinv
    cases hq : c.inCleanup
    · rfl
    · have := (hinv.2.2.2.2.2.1 hq).1; omega
  have hrou : respOrUpg c = false := respOrUpg_of_none c hresp (by omega)
  have hop : ∀ (c' : Conn σ), c'.started = c.started → c'.cleaned = c.cleaned → c'.clientAware = c.clientAware →
      c'.ctx = c.ctx → Open c' p := by
    intro c' e1 e2 e3 e4
    cases p <;> simp_all [Rel, Open]
  unfold transmitError at heq
  simp only [hswe, Bool.false_eq_true, if_false, hlt] at heq
  simp only [dropResp, hresp] at heq
  by_cases ha : env.errAllocFail = true
  · have hfix : cfg.allocBypassFixed = true := by
      rcases hok.2.1 with h1 | h1 <;> simp_all
    simp only [ha, hfix, if_true] at heq
    generalize hce : closeError _ = r at heq
    obtain ⟨c2, l2⟩ := r
    have := closeError_eq hce (hop _ rfl rfl rfl rfl)
    simp at heq
    obtain ⟨rfl, rfl⟩ := heq
    have t2 := this.2.1
    simp only [Rel] at t2
    simp [this.1, this.2.1, this.2.2.1, t2.1, t2.2.1]
  · simp only [ha, Bool.false_eq_true, if_false] at heq
    by_cases hsh : env.shutdown = true
    · simp only [hsh, if_true] at heq
      generalize hce : closeError _ = r at heq
      obtain ⟨c2, l2⟩ := r
      have := closeError_eq hce (hop _ rfl rfl rfl rfl)
      simp at heq
      obtain ⟨rfl, rfl⟩ := heq
      have t2 := this.2.1
      simp only [Rel] at t2
      simp [this.1, this.2.1, this.2.2.1, t2.1, t2.2.1]
    · simp only [hsh, Bool.false_eq_true, if_false] at heq
      by_cases h1 : env.errHdrFail1 = true
      · have hfix : cfg.f14Fixed = true := by
          rcases hok.2.2.2 with hh | hh <;> simp_all
        have hfix2 : cfg.f14ClearsAware = true := by
          rcases hok.2.2.2 with hh | hh <;> simp_all
        simp only [h1, if_true, releaseEverything, hfix, hfix2, notify] at heq
        by_cases h2 : env.errHdrFail2 = true
        · simp only [h2, if_true] at heq
          by_cases haw : c.clientAware = true
          · simp only [haw, if_true] at heq
            generalize hce : closeError _ = r at heq
            obtain ⟨c2, l2⟩ := r
            have := closeError_eq (p := .idle) hce (by simp [Open, hs, hc])
            simp at heq
            obtain ⟨rfl, rfl⟩ := heq
            obtain ⟨t1, t2, t3, t4⟩ := this
            cases p <;> simp_all [Rel]
          · simp only [haw, Bool.false_eq_true, if_false] at heq
            generalize hce : closeError _ = r at heq
            obtain ⟨c2, l2⟩ := r
            have := closeError_eq (p := .idle) hce (by simp_all [Open])
            simp at heq
            obtain ⟨rfl, rfl⟩ := heq
            obtain ⟨t1, t2, t3, t4⟩ := this
            cases p <;> simp_all [Rel]
        · simp only [h2, Bool.false_eq_true, if_false] at heq
          simp only [Inv] at hinv
          by_cases haw : c.clientAware = true <;> simp [haw] at heq <;> obtain ⟨rfl, rfl⟩ := heq <;>
            cases p <;> simp_all [Rel, Inv, respOrUpg, errResp, stateSite]
      · simp only [h1, Bool.false_eq_true, if_false] at heq
        simp only [Inv] at hinv
        simp at heq
        obtain ⟨rfl, rfl⟩ := heq
        cases p <;> simp_all [Rel, Inv, respOrUpg, errResp, stateSite] <;> grind

end Mhd.ConnSM
