/-
  Proofs about the cookie parser model (`Mhd.Model.ReqCookie`), namespace `Mhd.Req.CK`:
  * `body` etc.: a staged presentation of one round of `parseCookiesString`, equal to the
    model by `rfl` (`parseCookiesString_succ`);
  * `parseCookiesString_no_fault`, `parseCookieHeader_no_fault`, `parseCookieHeader_ok_of_inBounds`:
    fault freedom for all inputs;
  * `cookies_roundtrip`, `cookieHeader_roundtrip`: the canonical rendering `n1=v1; n2=v2; …`
    (values optionally quoted) parses at every flag record to the strict result with exactly the
    cookies, in order.
-/
import Mhd.Model.ReqCookie
import Mhd.Proofs.ReqRoundtrip
import Mhd.Proofs.ReqLineRoundtrip
namespace Mhd.Req
open Mhd.Gen
namespace CK

/-- closing quote of a quoted value -/
def closeQ (str : Bytes) (n : Nat) (quoted : Bool) (i : Nat) : Except Fault (Ctl Nat) :=
  if quoted then
    if n == i then pure (.ret .malformed) else do
      let c ← ckRd str i 98
      if c != 34 then pure (.ret .malformed) else pure (.go (i + 1))
  else pure (.go i)

/-- "Skip any whitespaces" after the value -/
def trail (F : CKFlags) (str : Bytes) (n : Nat) (i : Nat) (ns : Bool) : Except Fault (Ctl (Nat × Bool)) :=
  if n > i then do
    let b ← ckRd str i 99
    if isSpHt b then do
      let j ← ckSkipTrail str n (str.size + 1) (i + 1)
      if n > j then
        if !F.allowWspEmpty then pure (.ret .malformed) else pure (.go (j, true))
      else pure (.go (j, ns))
    else pure (.go (i, ns))
  else pure (.go (i, ns))

/-- the end-of-cookie check: end of string or ';' -/
def valEnd (str : Bytes) (n valueStart valueLen i : Nat) (ns : Bool) :
    Except Fault (Ctl (Nat × Nat × Nat × Bool)) :=
  if n == i then pure (.go (i, valueStart, valueLen, ns)) else do
    let c ← ckRd str i 100
    if c == 59 then pure (.go (i, valueStart, valueLen, ns)) else pure (.ret .malformed)

/-- the cookie value -/
def value (F : CKFlags) (str : Bytes) (n : Nat) (i : Nat) (ns : Bool) :
    Except Fault (Ctl (Nat × Nat × Nat × Bool)) :=
  if n == i then pure (.go (i, 0, 0, ns)) else do
    let q ← ckRd str i 97
    let quoted := q == 34
    let i := if quoted then i + 1 else i
    let valueStart := i
    match ← ckValueEnd F str n quoted (str.size + 1) i ns with
    | .ret r => pure (.ret r)
    | .go (i, ns) =>
    let valueLen := i - valueStart
    match ← closeQ str n quoted i with
    | .ret r => pure (.ret r)
    | .go i =>
    match ← trail F str n i ns with
    | .ret r => pure (.ret r)
    | .go (i, ns) => valEnd str n valueStart valueLen i ns

/-- zero-terminate the value and build the element (`str` already has the name terminated) -/
def store (str : Bytes) (key : Slice) (valueStart valueLen : Nat) : Except Fault (Bytes × Elem) :=
  if valueLen != 0 then
    if valueStart + valueLen < str.size then
      pure (str.setIfInBounds (valueStart + valueLen) 0,
            ⟨Http.kindCookie, key, some ⟨1, valueStart, valueLen⟩⟩)
    else throw (Fault.write 102 (valueStart + valueLen))
  else pure (str, ⟨Http.kindCookie, key, some ⟨2, 0, 0⟩⟩)

/-- what follows a stored cookie: the separator and the next round -/
def next (F : CKFlags) (n : Nat) (rec : Bytes → Nat → Bool → List Elem → Except Fault CKOut)
    (str : Bytes) (i : Nat) (ns : Bool) (acc : List Elem) : Except Fault CKOut :=
  if n > i then do
    let i := i + 1
    if n == i then
      if !F.allowWspEmpty then pure ⟨.malformed, str, acc⟩
      else rec str i true acc
    else do
      let c ← ckRd str i 103
      if c != cSP then
        if c == cHT && F.tabAsSp then rec str (i + 1) true acc
        else if !F.allowNoSpace then pure ⟨.malformed, str, acc⟩
        else rec str i true acc
      else
        let i := i + 1
        if n == i then
          if !F.allowWspEmpty then pure ⟨.malformed, str, acc⟩
          else rec str i true acc
        else rec str i ns acc
  else rec str i ns acc

/-- one round of the main loop with the recursive call abstracted -/
def body (F : CKFlags) (n : Nat) (rec : Bytes → Nat → Bool → List Elem → Except Fault CKOut)
    (str : Bytes) (i : Nat) (ns : Bool) (acc : List Elem) : Except Fault CKOut :=
  if !(i < n) then pure ⟨if ns then .okLax else .ok, str, acc⟩ else do
  match ← ckSkipEmpty F str n (str.size + 1) i ns with
  | .ret r => pure ⟨r, str, acc⟩
  | .go (i, ns) =>
  let nameStart := i
  let i ← ckNameEnd str n (str.size + 1) i
  let nameLen := i - nameStart
  match ← ckSkipWsp F str n (str.size + 1) i ns with
  | .ret r => pure ⟨r, str, acc⟩
  | .go (i, ns) =>
  if n == i then pure ⟨.malformed, str, acc⟩ else do
  let e ← ckRd str i 96
  if e != 61 || nameLen == 0 then pure ⟨.malformed, str, acc⟩ else
  match ← ckSkipWsp F str n (str.size + 1) (i + 1) ns with
  | .ret r => pure ⟨r, str, acc⟩
  | .go (i, ns) =>
  match ← value F str n i ns with
  | .ret r => pure ⟨r, str, acc⟩
  | .go (i, valueStart, valueLen, ns) =>
  if !(nameStart + nameLen < str.size) then throw (Fault.write 101 (nameStart + nameLen)) else do
  let (str, el) ← store (str.setIfInBounds (nameStart + nameLen) 0) ⟨1, nameStart, nameLen⟩ valueStart valueLen
  next F n rec str i ns (acc ++ [el])

theorem parseCookiesString_zero (F : CKFlags) (n : Nat) (str : Bytes) (i : Nat) (ns : Bool) (acc : List Elem) :
    parseCookiesString F n 0 str i ns acc = .error (.read 95 i) := rfl

theorem parseCookiesString_succ (F : CKFlags) (n fuel : Nat) (str : Bytes) (i : Nat) (ns : Bool) (acc : List Elem) :
    parseCookiesString F n (fuel + 1) str i ns acc = body F n (parseCookiesString F n fuel) str i ns acc := by
  rw [parseCookiesString.eq_2]; rfl


/-! ### reads and helper loops never fault -/

theorem ckRd_ok {str : Bytes} {i : Nat} (h : i < str.size) (site : Nat) : ckRd str i site = .ok str[i] := by
  simp [ckRd, h]

theorem bind_ok {α β : Type} {x : Except Fault α} {a : α} (h : x = .ok a) (f : α → Except Fault β) :
    (x >>= f) = f a := by subst h; rfl

theorem ckSkipEmpty_ok (F : CKFlags) (str : Bytes) (n : Nat) (hn : n < str.size) :
    ∀ (fuel i : Nat) (ns : Bool), i < n → n - i ≤ fuel →
      ∃ r, ckSkipEmpty F str n fuel i ns = .ok r ∧ ∀ j ns', r = .go (j, ns') → i ≤ j ∧ j < n := by
  intro fuel
  induction fuel with
  | zero => intro i ns hi hf; omega
  | succ f ih =>
    intro i ns hi hf
    rw [ckSkipEmpty, bind_ok (ckRd_ok (by omega) 90)]
    split
    · split
      · exact ⟨_, rfl, by intro j ns' h; cases h⟩
      · split
        · exact ⟨_, rfl, by intro j ns' h; cases h⟩
        · rename_i h1 h2 h3
          have : i + 1 ≠ n := by simpa using h3
          obtain ⟨r, hr, hs⟩ := ih (i + 1) true (by omega) (by omega)
          exact ⟨r, hr, fun j ns' h => by have := hs j ns' h; omega⟩
    · exact ⟨_, rfl, by intro j ns' h; cases h; omega⟩

theorem ckNameEnd_ok (str : Bytes) (n : Nat) (hn : n < str.size) :
    ∀ (fuel i : Nat), i < n → n - i ≤ fuel →
      ∃ k, ckNameEnd str n fuel i = .ok k ∧ i ≤ k ∧ k ≤ n := by
  intro fuel
  induction fuel with
  | zero => intro i hi hf; omega
  | succ f ih =>
    intro i hi hf
    rw [ckNameEnd, bind_ok (ckRd_ok (by omega) 91)]
    split
    · exact ⟨_, rfl, by omega⟩
    · split
      · obtain ⟨k, hk, hs⟩ := ih (i + 1) (by omega) (by omega)
        exact ⟨k, hk, by omega⟩
      · exact ⟨_, rfl, by omega⟩

theorem ckSkipWsp_ok (F : CKFlags) (str : Bytes) (n : Nat) (hn : n < str.size) :
    ∀ (fuel i : Nat) (ns : Bool), i ≤ n → n - i < fuel →
      ∃ r, ckSkipWsp F str n fuel i ns = .ok r ∧ ∀ j ns', r = .go (j, ns') → i ≤ j ∧ j ≤ n := by
  intro fuel
  induction fuel with
  | zero => intro i ns hi hf; omega
  | succ f ih =>
    intro i ns hi hf
    rw [ckSkipWsp]
    split
    · rw [bind_ok (ckRd_ok (by omega) 92)]
      split
      · split
        · exact ⟨_, rfl, by intro j ns' h; cases h⟩
        · obtain ⟨r, hr, hs⟩ := ih (i + 1) true (by omega) (by omega)
          exact ⟨r, hr, fun j ns' h => by have := hs j ns' h; omega⟩
      · exact ⟨_, rfl, by intro j ns' h; cases h; omega⟩
    · exact ⟨_, rfl, by intro j ns' h; cases h; omega⟩

theorem ckValueEnd_ok (F : CKFlags) (str : Bytes) (n : Nat) (hn : n < str.size) (quoted : Bool) :
    ∀ (fuel i : Nat) (ns : Bool), i ≤ n → n - i < fuel →
      ∃ r, ckValueEnd F str n quoted fuel i ns = .ok r ∧ ∀ j ns', r = .go (j, ns') → i ≤ j ∧ j ≤ n := by
  intro fuel
  induction fuel with
  | zero => intro i ns hi hf; omega
  | succ f ih =>
    intro i ns hi hf
    rw [ckValueEnd]
    split
    · rw [bind_ok (ckRd_ok (by omega) 93)]
      split
      · exact ⟨_, rfl, by intro j ns' h; cases h; omega⟩
      · split
        · split
          · exact ⟨_, rfl, by intro j ns' h; cases h; omega⟩
          · split
            · exact ⟨_, rfl, by intro j ns' h; cases h⟩
            · obtain ⟨r, hr, hs⟩ := ih (i + 1) true (by omega) (by omega)
              exact ⟨r, hr, fun j ns' h => by have := hs j ns' h; omega⟩
        · obtain ⟨r, hr, hs⟩ := ih (i + 1) ns (by omega) (by omega)
          exact ⟨r, hr, fun j ns' h => by have := hs j ns' h; omega⟩
    · exact ⟨_, rfl, by intro j ns' h; cases h; omega⟩

theorem ckSkipTrail_ok (str : Bytes) (n : Nat) (hn : n < str.size) :
    ∀ (fuel i : Nat), i ≤ n → n - i < fuel →
      ∃ k, ckSkipTrail str n fuel i = .ok k ∧ i ≤ k ∧ k ≤ n := by
  intro fuel
  induction fuel with
  | zero => intro i hi hf; omega
  | succ f ih =>
    intro i hi hf
    rw [ckSkipTrail]
    split
    · rw [bind_ok (ckRd_ok (by omega) 94)]
      split
      · obtain ⟨k, hk, hs⟩ := ih (i + 1) (by omega) (by omega)
        exact ⟨k, hk, by omega⟩
      · exact ⟨_, rfl, by omega⟩
    · exact ⟨_, rfl, by omega⟩

/-! ### the stages of one round never fault -/

theorem closeQ_ok (str : Bytes) (n : Nat) (hn : n < str.size) (quoted : Bool) (i : Nat) (hi : i ≤ n) :
    ∃ r, closeQ str n quoted i = .ok r ∧ ∀ j, r = .go j → i ≤ j ∧ j ≤ n := by
  unfold closeQ
  split
  · split
    · exact ⟨_, rfl, by intro j h; cases h⟩
    · rename_i h1 h2
      have : n ≠ i := by simpa using h2
      rw [bind_ok (ckRd_ok (by omega) 98)]
      split
      · exact ⟨_, rfl, by intro j h; cases h⟩
      · exact ⟨_, rfl, by intro j h; cases h; omega⟩
  · exact ⟨_, rfl, by intro j h; cases h; omega⟩

theorem trail_ok (F : CKFlags) (str : Bytes) (n : Nat) (hn : n < str.size) (i : Nat) (ns : Bool) (hi : i ≤ n) :
    ∃ r, trail F str n i ns = .ok r ∧ ∀ j ns', r = .go (j, ns') → i ≤ j ∧ j ≤ n := by
  unfold trail
  split
  · rw [bind_ok (ckRd_ok (by omega) 99)]
    split
    · obtain ⟨k, hk, hs⟩ := ckSkipTrail_ok str n hn (str.size + 1) (i + 1) (by omega) (by omega)
      rw [bind_ok hk]
      split
      · split
        · exact ⟨_, rfl, by intro j ns' h; cases h⟩
        · exact ⟨_, rfl, by intro j ns' h; cases h; omega⟩
      · exact ⟨_, rfl, by intro j ns' h; cases h; omega⟩
    · exact ⟨_, rfl, by intro j ns' h; cases h; omega⟩
  · exact ⟨_, rfl, by intro j ns' h; cases h; omega⟩

theorem valEnd_ok (str : Bytes) (n : Nat) (hn : n < str.size) (vs vl i : Nat) (ns : Bool) (hi : i ≤ n) :
    ∃ r, valEnd str n vs vl i ns = .ok r ∧
      ∀ j vs' vl' ns', r = .go (j, vs', vl', ns') → j = i ∧ vs' = vs ∧ vl' = vl := by
  unfold valEnd
  split
  · exact ⟨_, rfl, by intro j a b c h; cases h; simp⟩
  · rename_i h2
    have : n ≠ i := by simpa using h2
    rw [bind_ok (ckRd_ok (by omega) 100)]
    split
    · exact ⟨_, rfl, by intro j a b c h; cases h; simp⟩
    · exact ⟨_, rfl, by intro j a b c h; cases h⟩

theorem value_ok (F : CKFlags) (str : Bytes) (n : Nat) (hn : n < str.size) (i : Nat) (ns : Bool) (hi : i ≤ n) :
    ∃ r, value F str n i ns = .ok r ∧
      ∀ j vs vl ns', r = .go (j, vs, vl, ns') → i ≤ j ∧ j ≤ n ∧ vs + vl ≤ n := by
  unfold value
  split
  · exact ⟨_, rfl, by intro j a b c h; cases h; omega⟩
  · rename_i h2
    have hne : n ≠ i := by simpa using h2
    rw [bind_ok (ckRd_ok (by omega) 97)]
    simp only []
    generalize hq : (str[i] == 34) = quoted
    generalize hi1 : (if quoted = true then i + 1 else i) = i1
    have hi1b : i ≤ i1 ∧ i1 ≤ n := by subst hi1; split <;> omega
    obtain ⟨r, hr, hs⟩ := ckValueEnd_ok F str n hn quoted (str.size + 1) i1 ns (by omega) (by omega)
    rw [bind_ok hr]
    cases r with
    | ret r => exact ⟨_, rfl, by intro j a b c h; cases h⟩
    | go p =>
      obtain ⟨i2, ns2⟩ := p
      have h2 := hs i2 ns2 rfl
      simp only []
      obtain ⟨r, hr, hs⟩ := closeQ_ok str n hn quoted i2 (by omega)
      rw [bind_ok hr]
      cases r with
      | ret r => exact ⟨_, rfl, by intro j a b c h; cases h⟩
      | go i3 =>
        have h3 := hs i3 rfl
        simp only []
        obtain ⟨r, hr, hs⟩ := trail_ok F str n hn i3 ns2 (by omega)
        rw [bind_ok hr]
        cases r with
        | ret r => exact ⟨_, rfl, by intro j a b c h; cases h⟩
        | go p =>
          obtain ⟨i4, ns4⟩ := p
          have h4 := hs i4 ns4 rfl
          simp only []
          obtain ⟨r, hr, hs⟩ := valEnd_ok str n hn i1 (i2 - i1) i4 ns4 (by omega)
          exact ⟨r, hr, by
            intro j a b c h
            obtain ⟨rfl, rfl, rfl⟩ := hs j a b c h
            omega⟩

theorem store_ok (str : Bytes) (key : Slice) (vs vl : Nat) (h : vs + vl < str.size) :
    ∃ s el, store str key vs vl = .ok (s, el) ∧ s.size = str.size := by
  unfold store
  split
  · exact ⟨_, _, rfl, by simp⟩
  · exact ⟨_, _, rfl, rfl⟩

/-- `.ok` with the buffer size unchanged -/
def Good (sz : Nat) (r : Except Fault CKOut) : Prop := ∃ out, r = .ok out ∧ out.str.size = sz

theorem next_ok (F : CKFlags) (n : Nat) (rec : Bytes → Nat → Bool → List Elem → Except Fault CKOut)
    (str : Bytes) (hn : n < str.size) (i0 i : Nat) (ns : Bool) (acc : List Elem) (hi0 : i0 < i) (hi : i ≤ n)
    (hrec : ∀ i' ns' acc', i0 < i' → i' ≤ n → Good str.size (rec str i' ns' acc')) :
    Good str.size (next F n rec str i ns acc) := by
  unfold next
  split
  · simp only []
    split
    · split
      · exact ⟨_, rfl, rfl⟩
      · exact hrec _ _ _ (by omega) (by omega)
    · rename_i h1 h2
      have : n ≠ i + 1 := by simpa using h2
      rw [bind_ok (ckRd_ok (by omega) 103)]
      split
      · split
        · exact hrec _ _ _ (by omega) (by omega)
        · split
          · exact ⟨_, rfl, rfl⟩
          · exact hrec _ _ _ (by omega) (by omega)
      · split
        · split
          · exact ⟨_, rfl, rfl⟩
          · exact hrec _ _ _ (by omega) (by omega)
        · exact hrec _ _ _ (by omega) (by omega)
  · exact hrec _ _ _ (by omega) (by omega)

theorem body_ok (F : CKFlags) (n : Nat) (rec : Bytes → Nat → Bool → List Elem → Except Fault CKOut)
    (str : Bytes) (hn : n < str.size) (i : Nat) (ns : Bool) (acc : List Elem)
    (hrec : ∀ (s : Bytes) i' ns' acc', s.size = str.size → i < i' → i' ≤ n → Good str.size (rec s i' ns' acc')) :
    Good str.size (body F n rec str i ns acc) := by
  unfold body
  split
  · exact ⟨_, rfl, rfl⟩
  · rename_i h0
    have hi : i < n := by simpa using h0
    obtain ⟨r, hr, hs⟩ := ckSkipEmpty_ok F str n hn (str.size + 1) i ns hi (by omega)
    rw [bind_ok hr]
    cases r with
    | ret r => exact ⟨_, rfl, rfl⟩
    | go p =>
      obtain ⟨i1, ns1⟩ := p
      have h1 := hs i1 ns1 rfl
      simp only []
      obtain ⟨i2, hr, h2⟩ := ckNameEnd_ok str n hn (str.size + 1) i1 (by omega) (by omega)
      rw [bind_ok hr]
      obtain ⟨r, hr, hs⟩ := ckSkipWsp_ok F str n hn (str.size + 1) i2 ns1 (by omega) (by omega)
      rw [bind_ok hr]
      cases r with
      | ret r => exact ⟨_, rfl, rfl⟩
      | go p =>
        obtain ⟨i3, ns3⟩ := p
        have h3 := hs i3 ns3 rfl
        simp only []
        split
        · exact ⟨_, rfl, rfl⟩
        · rename_i hne
          have hne : n ≠ i3 := by simpa using hne
          rw [bind_ok (ckRd_ok (by omega) 96)]
          split
          · exact ⟨_, rfl, rfl⟩
          · obtain ⟨r, hr, hs⟩ := ckSkipWsp_ok F str n hn (str.size + 1) (i3 + 1) ns3 (by omega) (by omega)
            rw [bind_ok hr]
            cases r with
            | ret r => exact ⟨_, rfl, rfl⟩
            | go p =>
              obtain ⟨i4, ns4⟩ := p
              have h4 := hs i4 ns4 rfl
              simp only []
              obtain ⟨r, hr, hs⟩ := value_ok F str n hn i4 ns4 (by omega)
              rw [bind_ok hr]
              cases r with
              | ret r => exact ⟨_, rfl, rfl⟩
              | go p =>
                obtain ⟨i5, vs, vl, ns5⟩ := p
                have h5 := hs i5 vs vl ns5 rfl
                simp only []
                have hw : i1 + (i2 - i1) < str.size := by omega
                rw [if_neg (by simpa using hw)]
                obtain ⟨s, el, hr, hsz⟩ := store_ok (str.setIfInBounds (i1 + (i2 - i1)) 0)
                  ⟨1, i1, i2 - i1⟩ vs vl (by simp; omega)
                rw [bind_ok hr]
                simp only []
                have hsz' : s.size = str.size := by simpa using hsz
                rw [← hsz']
                exact next_ok F n rec s (by omega) i i5 ns5 _ (by omega) (by omega)
                  (fun i' ns' acc' ha hb => by rw [hsz']; exact hrec s i' ns' acc' hsz' ha hb)

/-- **Fault freedom of `parse_cookies_string`.**  For every flag record, every byte array with
    `n < str.size` (the terminating position `n` is inside the array; nothing is assumed about the
    bytes, not even that `str[n]` is NUL), every start index, `non_strict` flag and accumulator, and
    every fuel `≥ n - i + 1` the model returns `.ok` with the buffer size unchanged: no read or write
    outside `str`, and the loop terminates within its fuel. -/
theorem parseCookiesString_no_fault (F : CKFlags) (n : Nat) :
    ∀ (fuel : Nat) (str : Bytes) (i : Nat) (ns : Bool) (acc : List Elem),
      n < str.size → n - i + 1 ≤ fuel →
      ∃ out, parseCookiesString F n fuel str i ns acc = .ok out ∧ out.str.size = str.size := by
  intro fuel
  induction fuel with
  | zero => intro str i ns acc hn hf; omega
  | succ f ih =>
    intro str i ns acc hn hf
    rw [parseCookiesString_succ]
    exact body_ok F n _ str hn i ns acc (fun s i' ns' acc' hsz ha hb => by
      obtain ⟨out, ho, hz⟩ := ih s i' ns' acc' (by omega) (by omega)
      exact ⟨out, ho, by omega⟩)

theorem rdRange_some {buf : Bytes} {off n : Nat} {bs : List UInt8} (h : rdRange buf off n = some bs) :
    off + n ≤ buf.size ∧ bs.length = n := by
  unfold rdRange at h
  split at h
  · cases h; simp; omega
  · cases h

theorem rdRange_none {buf : Bytes} {off n : Nat} (h : rdRange buf off n = none) : ¬ (off + n ≤ buf.size) := by
  unfold rdRange at h
  split at h
  · cases h
  · assumption

/-- **Fault freedom of `parse_cookie_header`.**  For all inputs the model either returns `.ok`, or it
    reports the read fault 104 — and the latter only when the looked-up `Cookie` element has a
    non-empty value slice that does not lie inside `buf` (the `memcpy` source would be outside
    the read buffer; the field-line parser never produces such an element). -/
theorem parseCookieHeader_no_fault (F : CKFlags) (buf : Bytes) (elems : List Elem) :
    (∃ c, parseCookieHeader F buf elems = .ok c) ∨
    (∃ e v, lookupElem buf elems Http.kindHeader Http.hdrCookieBytes = some e ∧ e.value = some v ∧
        v.len ≠ 0 ∧ ¬ (v.off + v.len ≤ buf.size) ∧
        parseCookieHeader F buf elems = .error (Fault.read 104 v.off)) := by
  unfold parseCookieHeader
  cases hl : lookupElem buf elems Http.kindHeader Http.hdrCookieBytes with
  | none => exact .inl ⟨_, rfl⟩
  | some e =>
    simp only []
    cases hv : e.value with
    | none => exact .inl ⟨_, rfl⟩
    | some v =>
      simp only []
      split
      · exact .inl ⟨_, rfl⟩
      · rename_i hz
        have hz : v.len ≠ 0 := by simpa using hz
        cases hr : rdRange buf v.off v.len with
        | none => exact .inr ⟨e, v, rfl, hv, hz, rdRange_none hr, rfl⟩
        | some bs =>
          left
          simp only []
          have hb := (rdRange_some hr).2
          have hi0 : (bs.takeWhile isSpHt).length ≤ bs.length := (List.takeWhile_sublist _).length_le
          obtain ⟨out, ho, _⟩ := parseCookiesString_no_fault F v.len (v.len + 2) (bs ++ [0]).toArray
            (bs.takeWhile isSpHt).length false [] (by simp; omega) (by omega)
          rw [bind_ok ho]
          split
          · split <;> exact ⟨_, rfl⟩
          · exact ⟨_, rfl⟩

/-- the form used by callers: when every element's value slice lies inside `buf`, no fault -/
theorem parseCookieHeader_ok_of_inBounds (F : CKFlags) (buf : Bytes) (elems : List Elem)
    (h : ∀ e ∈ elems, ∀ v, e.value = some v → v.off + v.len ≤ buf.size) :
    ∃ c, parseCookieHeader F buf elems = .ok c := by
  rcases parseCookieHeader_no_fault F buf elems with hc | ⟨e, v, hl, hv, _, hout, _⟩
  · exact hc
  · exact absurd (h e (List.mem_of_find?_eq_some hl) v hv) hout

/-! non-vacuity (tests on samples, labelled as such) -/
section examples
/-- the strictest flags -/
def strictF : CKFlags := ⟨false, false, false, false, false, false⟩
/-- the most lenient flags -/
def laxF : CKFlags := ⟨true, true, true, true, true, true⟩

-- "a=b" (n = 3, NUL at 3): the hypotheses of `parseCookiesString_no_fault` are satisfiable
example : ∃ out, parseCookiesString strictF 3 5 #[97, 61, 98, 0] 0 false [] = .ok out ∧ out.str.size = 4 :=
  parseCookiesString_no_fault strictF 3 5 #[97, 61, 98, 0] 0 false [] (by decide) (by decide)
-- … and the result is the expected one (sample)
example : parseCookiesString strictF 3 5 #[97, 61, 98, 0] 0 false [] =
    .ok ⟨.ok, #[97, 0, 98, 0], [⟨Http.kindCookie, ⟨1, 0, 1⟩, some ⟨1, 2, 1⟩⟩]⟩ := by rfl
-- no assumption on the bytes: garbage without NUL, every byte a separator
example : ∃ out, parseCookiesString laxF 3 5 #[59, 59, 59, 59] 0 false [] = .ok out ∧ out.str.size = 4 :=
  parseCookiesString_no_fault laxF 3 5 #[59, 59, 59, 59] 0 false [] (by decide) (by decide)
-- the fault alternative of `parseCookieHeader_no_fault` does occur for an out-of-buffer slice (sample)
example : parseCookieHeader strictF #[67, 111, 111, 107, 105, 101] [⟨Http.kindHeader, ⟨0, 0, 6⟩, some ⟨0, 6, 3⟩⟩] =
    .error (Fault.read 104 6) := by rfl
-- … and the in-bounds hypothesis of `parseCookieHeader_ok_of_inBounds` is satisfiable: "Cookiea=b"
example : ∃ c, parseCookieHeader strictF #[67, 111, 111, 107, 105, 101, 97, 61, 98]
    [⟨Http.kindHeader, ⟨0, 0, 6⟩, some ⟨0, 6, 3⟩⟩] = .ok c :=
  parseCookieHeader_ok_of_inBounds _ _ _ (by decide)
example : (parseCookieHeader strictF #[67, 111, 111, 107, 105, 101, 97, 61, 98]
    [⟨Http.kindHeader, ⟨0, 0, 6⟩, some ⟨0, 6, 3⟩⟩]) =
    .ok ⟨.ok, #[97, 0, 98, 0], [⟨Http.kindHeader, ⟨0, 0, 6⟩, some ⟨0, 6, 3⟩⟩,
                                ⟨Http.kindCookie, ⟨1, 0, 1⟩, some ⟨1, 2, 1⟩⟩]⟩ := by rfl
end examples

/-! ### canonical round trip -/

open RLP (BufIs)

theorem ckRd_some {str : Bytes} {i : Nat} {b : UInt8} (h : str[i]? = some b) (site : Nat) :
    ckRd str i site = .ok b := by simp [ckRd, h]

/-- a byte allowed in a cookie name: none of `= SP HT " , ; NUL` -/
def isTok (b : UInt8) : Bool := !(b == 61 || b == cSP || b == cHT || b == 34 || b == 44 || b == 59 || b == 0)
/-- a byte allowed in a cookie value: none of `; " , \ NUL SP HT` -/
def isVal (b : UInt8) : Bool := !(b == 59 || b == 34 || b == 44 || b == 92 || b == 0) && !isSpHt b

theorem isTok_nameStop {b : UInt8} (h : isTok b = true) :
    (b == 61 || b == cSP || b == cHT || b == 34 || b == 44 || b == 59 || b == 0) = false := by
  simpa [isTok] using h

theorem isTok_notSep {b : UInt8} (h : isTok b = true) : (isSpHt b || b == 59) = false := by
  simp only [isTok, isSpHt] at *
  cases h1 : b == cSP <;> cases h2 : b == cHT <;> cases h3 : b == 59 <;> simp_all

theorem isVal_stop {b : UInt8} (h : isVal b = true) :
    (b == 59 || b == 34 || b == 44 || b == 92 || b == 0) = false := by
  simp only [isVal, Bool.and_eq_true, Bool.not_eq_true'] at h; exact h.1

theorem isVal_notWsp {b : UInt8} (h : isVal b = true) : isSpHt b = false := by
  simp only [isVal, Bool.and_eq_true, Bool.not_eq_true'] at h; exact h.2

theorem isVal_notQuote {b : UInt8} (h : isVal b = true) : (b == 34) = false := by
  have := isVal_stop h
  cases h2 : b == 34 <;> simp_all

theorem ckSkipEmpty_tok (F : CKFlags) {str : Bytes} (n f : Nat) {i : Nat} (ns : Bool) {b : UInt8}
    (hb : str[i]? = some b) (ht : isTok b = true) :
    ckSkipEmpty F str n (f + 1) i ns = .ok (.go (i, ns)) := by
  rw [ckSkipEmpty, bind_ok (ckRd_some hb 90), if_neg (by simp [isTok_notSep ht])]; rfl

theorem ckNameEnd_tok {str : Bytes} (n : Nat) :
    ∀ (nm : List UInt8) (fuel a : Nat), BufIs str a (nm ++ [61]) → (∀ b ∈ nm, isTok b = true) →
      a + nm.length < n → nm.length < fuel → ckNameEnd str n fuel a = .ok (a + nm.length) := by
  intro nm
  induction nm with
  | nil =>
    intro fuel a hb _ _ hf
    obtain ⟨f, rfl⟩ : ∃ f, fuel = f + 1 := ⟨fuel - 1, by simp at hf; omega⟩
    have h0 : str[a]? = some 61 := hb.head
    rw [ckNameEnd, bind_ok (ckRd_some h0 91), if_pos (by rfl)]; rfl
  | cons x xs ih =>
    intro fuel a hb ht hn hf
    simp only [List.length_cons] at hn hf
    obtain ⟨f, rfl⟩ : ∃ f, fuel = f + 1 := ⟨fuel - 1, by omega⟩
    have h0 : str[a]? = some x := hb.head
    rw [ckNameEnd, bind_ok (ckRd_some h0 91), if_neg (by simp [isTok_nameStop (ht x (by simp))]),
      if_pos (by omega), ih f (a + 1) hb.tail (fun b hb => ht b (by simp [hb])) (by omega) (by omega)]
    simp only [List.length_cons]; congr 1; omega

theorem ckSkipWsp_stay (F : CKFlags) {str : Bytes} (n f : Nat) {i : Nat} (ns : Bool)
    (h : n > i → ∃ b, str[i]? = some b ∧ isSpHt b = false) :
    ckSkipWsp F str n (f + 1) i ns = .ok (.go (i, ns)) := by
  rw [ckSkipWsp]
  split
  · rename_i hni
    obtain ⟨b, hb, hw⟩ := h hni
    rw [bind_ok (ckRd_some hb 92), if_neg (by simp [hw])]; rfl
  · rfl

theorem ckValueEnd_val (F : CKFlags) {str : Bytes} (n : Nat) (quoted : Bool) :
    ∀ (v : List UInt8) (fuel i : Nat) (ns : Bool), BufIs str i v → (∀ b ∈ v, isVal b = true) →
      i + v.length ≤ n →
      (n > i + v.length → ∃ d, str[i + v.length]? = some d ∧ (d == 59 || d == 34) = true) →
      v.length < fuel → ckValueEnd F str n quoted fuel i ns = .ok (.go (i + v.length, ns)) := by
  intro v
  induction v with
  | nil =>
    intro fuel i ns _ _ _ hstop hf
    obtain ⟨f, rfl⟩ : ∃ f, fuel = f + 1 := ⟨fuel - 1, by simp at hf; omega⟩
    rw [ckValueEnd]
    split
    · rename_i hni
      obtain ⟨d, hd, hs⟩ := hstop (by simpa using hni)
      simp only [List.length_nil, Nat.add_zero] at hd
      rw [bind_ok (ckRd_some hd 93), if_pos (by
        cases h1 : d == 59 <;> cases h2 : d == 34 <;> simp_all)]; rfl
    · rfl
  | cons x xs ih =>
    intro fuel i ns hb hv hn hstop hf
    simp only [List.length_cons] at hn hf hstop
    obtain ⟨f, rfl⟩ : ∃ f, fuel = f + 1 := ⟨fuel - 1, by omega⟩
    have h0 : str[i]? = some x := hb.head
    have hx := hv x (by simp)
    rw [ckValueEnd, if_pos (by omega), bind_ok (ckRd_some h0 93), if_neg (by simp [isVal_stop hx]),
      if_neg (by simp [isVal_notWsp hx]),
      ih f (i + 1) ns hb.tail (fun b hb => hv b (by simp [hb])) (by omega)
        (fun h => by
          obtain ⟨d, hd, hs⟩ := hstop (by omega)
          exact ⟨d, by rw [← hd]; congr 1; omega, hs⟩) (by omega)]
    simp only [List.length_cons]; congr 3; omega

theorem trail_stay (F : CKFlags) {str : Bytes} (n : Nat) {i : Nat} (ns : Bool)
    (h : n > i → ∃ b, str[i]? = some b ∧ isSpHt b = false) :
    trail F str n i ns = .ok (.go (i, ns)) := by
  unfold trail
  split
  · rename_i hni
    obtain ⟨b, hb, hw⟩ := h hni
    rw [bind_ok (ckRd_some hb 99), if_neg (by simp [hw])]; rfl
  · rfl

theorem valEnd_go {str : Bytes} (n vs vl : Nat) {i : Nat} (ns : Bool) (h : n = i ∨ str[i]? = some 59) :
    valEnd str n vs vl i ns = .ok (.go (i, vs, vl, ns)) := by
  unfold valEnd
  split
  · rfl
  · rename_i hne
    rcases h with h | h
    · exact absurd (by simpa using h) hne
    · rw [bind_ok (ckRd_some h 100), if_pos (by rfl)]; rfl

theorem closeQ_true {str : Bytes} {n i : Nat} (hne : n ≠ i) (h : str[i]? = some 34) :
    closeQ str n true i = .ok (.go (i + 1)) := by
  unfold closeQ
  rw [if_pos rfl, if_neg (by simpa using hne), bind_ok (ckRd_some h 98), if_neg (by decide)]; rfl

/-- a cookie to be rendered: name, value, and whether the value is put in double quotes -/
structure CookieSpec where
  name : List UInt8
  value : List UInt8
  quoted : Bool

def CookieSpec.Valid (c : CookieSpec) : Prop :=
  c.name ≠ [] ∧ (∀ b ∈ c.name, isTok b = true) ∧ ∀ b ∈ c.value, isVal b = true

def renderVal (c : CookieSpec) : List UInt8 := if c.quoted then 34 :: (c.value ++ [34]) else c.value
def render1 (c : CookieSpec) : List UInt8 := c.name ++ 61 :: renderVal c
/-- `n1=v1; n2=v2; …` -/
def render : List CookieSpec → List UInt8
  | [] => []
  | [c] => render1 c
  | c :: c' :: cs => render1 c ++ 59 :: 32 :: render (c' :: cs)

/-- index of the first value byte when the value rendering starts at `i` -/
def valOff (c : CookieSpec) (i : Nat) : Nat := if c.quoted then i + 1 else i

theorem value_spec (F : CKFlags) {str : Bytes} (n : Nat) (hn : n < str.size) (c : CookieSpec) (i : Nat) (ns : Bool)
    (hb : BufIs str i (renderVal c)) (hv : ∀ b ∈ c.value, isVal b = true)
    (he : i + (renderVal c).length = n ∨
      (i + (renderVal c).length < n ∧ str[i + (renderVal c).length]? = some 59)) :
    ∃ vs, value F str n i ns = .ok (.go (i + (renderVal c).length, vs, c.value.length, ns)) ∧
      (c.value ≠ [] → vs = valOff c i) := by
  obtain ⟨nm, v, q⟩ := c
  cases q with
  | false =>
    simp only [renderVal, valOff, Bool.false_eq_true, if_false] at *
    unfold value
    split
    · rename_i h
      have h : n = i := by simpa using h
      have : v.length = 0 := by omega
      rw [this]; exact ⟨0, rfl, fun hne => absurd (List.eq_nil_of_length_eq_zero this) hne⟩
    · rename_i h
      have hne : n ≠ i := by simpa using h
      have hq : ∃ q0, str[i]? = some q0 ∧ (q0 == 34) = false := by
        cases v with
        | nil =>
          simp only [List.length_nil, Nat.add_zero] at he
          rcases he with he | he
          · omega
          · exact ⟨59, he.2, by decide⟩
        | cons x xs => exact ⟨x, hb.head, isVal_notQuote (hv x (by simp))⟩
      obtain ⟨q0, hq0, hq34⟩ := hq
      have hstop : n > i + v.length → ∃ d, str[i + v.length]? = some d ∧ (d == 59 || d == 34) = true := by
        intro h
        rcases he with he | he
        · omega
        · exact ⟨59, he.2, by decide⟩
      have hstop2 : n > i + v.length → ∃ d, str[i + v.length]? = some d ∧ isSpHt d = false := by
        intro h
        rcases he with he | he
        · omega
        · exact ⟨59, he.2, by decide⟩
      rw [bind_ok (ckRd_some hq0 97)]
      simp only [hq34, Bool.false_eq_true, if_false]
      rw [bind_ok (ckValueEnd_val F n false v (str.size + 1) i ns hb hv (by omega) hstop (by omega))]
      simp only []
      rw [bind_ok (show closeQ str n false (i + v.length) = .ok (.go (i + v.length)) from rfl)]
      simp only []
      rw [bind_ok (trail_stay F n ns hstop2)]
      simp only []
      rw [valEnd_go n i _ ns (by rcases he with he | he; exact .inl he.symm; exact .inr he.2)]
      exact ⟨i, by simp, fun _ => rfl⟩
  | true =>
    simp only [renderVal, valOff, if_true] at *
    simp only [List.length_cons, List.length_append, List.length_nil] at he ⊢
    have hq0 : str[i]? = some 34 := hb.head
    have hbv : BufIs str (i + 1) v := hb.tail.left
    have hcl : str[i + 1 + v.length]? = some 34 := hb.tail.right.head
    unfold value
    rw [if_neg (by simp; omega), bind_ok (ckRd_some hq0 97)]
    simp only [beq_self_eq_true, if_true]
    rw [bind_ok (ckValueEnd_val F n true v (str.size + 1) (i + 1) ns hbv hv (by omega)
      (fun _ => ⟨34, hcl, by decide⟩) (by omega))]
    simp only []
    rw [bind_ok (closeQ_true (by omega) hcl)]
    simp only []
    have e1 : i + 1 + v.length + 1 = i + (v.length + (0 + 1) + 1) := by omega
    rw [e1]
    rw [bind_ok (trail_stay F n ns (fun h => by
      rcases he with he | he
      · omega
      · exact ⟨59, he.2, by decide⟩))]
    simp only []
    rw [valEnd_go n (i + 1) _ ns (by rcases he with he | he; exact .inl he.symm; exact .inr he.2)]
    exact ⟨i + 1, by simp, fun _ => rfl⟩

theorem render1_length (c : CookieSpec) : (render1 c).length = c.name.length + 1 + (renderVal c).length := by
  simp [render1]; omega

theorem valOff_bounds (c : CookieSpec) (i : Nat) :
    i ≤ valOff c i ∧ valOff c i + c.value.length ≤ i + (renderVal c).length := by
  unfold valOff renderVal
  cases c.quoted <;> simp <;> omega

/-- the first byte of a value rendering is neither SP nor HT -/
theorem renderVal_head_notWsp (c : CookieSpec) (hv : ∀ b ∈ c.value, isVal b = true) (x : UInt8) (xs : List UInt8)
    (h : renderVal c = x :: xs) : isSpHt x = false := by
  unfold renderVal at h
  cases hq : c.quoted
  · rw [hq] at h
    simp only [Bool.false_eq_true, if_false] at h
    exact isVal_notWsp (hv x (by rw [h]; simp))
  · rw [hq] at h
    simp only [if_true] at h
    cases h; decide

/-- the element produced for cookie `c` whose rendering starts at index `a` -/
def elemOf (c : CookieSpec) (a : Nat) : Elem :=
  ⟨Http.kindCookie, ⟨1, a, c.name.length⟩,
    some (if c.value = [] then ⟨2, 0, 0⟩ else ⟨1, valOff c (a + c.name.length + 1), c.value.length⟩)⟩

/-- the buffer after cookie `c` (at index `a`) has been stored: name and value zero-terminated -/
def strAfter (str : Bytes) (c : CookieSpec) (a : Nat) : Bytes :=
  if c.value = [] then str.setIfInBounds (a + c.name.length) 0
  else (str.setIfInBounds (a + c.name.length) 0).setIfInBounds
    (valOff c (a + c.name.length + 1) + c.value.length) 0

theorem round_spec (F : CKFlags) (n : Nat) (rec : Bytes → Nat → Bool → List Elem → Except Fault CKOut)
    (str : Bytes) (hn : n < str.size) (c : CookieSpec) (hc : c.Valid) (a a' : Nat) (acc : List Elem)
    (hb : BufIs str a (render1 c))
    (he : (a + (render1 c).length = n ∧ a' = n) ∨
      (a + (render1 c).length + 2 < n ∧ str[a + (render1 c).length]? = some 59 ∧
        str[a + (render1 c).length + 1]? = some 32 ∧ a' = a + (render1 c).length + 2)) :
    body F n rec str a false acc = rec (strAfter str c a) a' false (acc ++ [elemOf c a]) := by
  obtain ⟨hne, htok, hval⟩ := hc
  have hlen := render1_length c
  have hb' : BufIs str a ((c.name ++ [61]) ++ renderVal c) := by simpa [render1] using hb
  have hbn : BufIs str a (c.name ++ [61]) := hb'.left
  have hbv : BufIs str (a + c.name.length + 1) (renderVal c) := by
    have := hb'.right; simpa [Nat.add_assoc] using this
  have heq : str[a + c.name.length]? = some 61 := by
    have := hbn.right.head; simpa using this
  obtain ⟨x, xs, hx⟩ : ∃ x xs, c.name = x :: xs := by
    cases h : c.name with
    | nil => exact absurd h hne
    | cons x xs => exact ⟨x, xs, rfl⟩
  have hx0 : str[a]? = some x := by have := hbn.left; rw [hx] at this; exact this.head
  have hxt : isTok x = true := htok x (by rw [hx]; simp)
  have hnl : 0 < c.name.length := by rw [hx]; simp
  have han : a + c.name.length + 1 + (renderVal c).length ≤ n := by rcases he with he | he <;> omega
  unfold body
  rw [if_neg (by simp; omega), bind_ok (ckSkipEmpty_tok F n str.size false hx0 hxt)]
  simp only []
  rw [bind_ok (ckNameEnd_tok n c.name (str.size + 1) a hbn htok (by omega) (by omega))]
  rw [bind_ok (ckSkipWsp_stay F n str.size false (fun _ => ⟨61, heq, by decide⟩))]
  simp only []
  rw [if_neg (by simp; omega), bind_ok (ckRd_some heq 96), Nat.add_sub_cancel_left,
    if_neg (by simp; omega)]
  have hw2 : n > a + c.name.length + 1 → ∃ b, str[a + c.name.length + 1]? = some b ∧ isSpHt b = false := by
    intro h
    cases hr : renderVal c with
    | nil =>
      rw [hr] at han hlen
      simp only [List.length_nil, Nat.add_zero] at han hlen
      rcases he with he | he
      · omega
      · refine ⟨59, ?_, by decide⟩
        rw [← he.2.1]; congr 1; omega
    | cons y ys =>
      rw [hr] at hbv
      exact ⟨y, hbv.head, renderVal_head_notWsp c hval y ys hr⟩
  rw [bind_ok (ckSkipWsp_stay F n str.size false hw2)]
  simp only []
  have he' : a + c.name.length + 1 + (renderVal c).length = n ∨
      (a + c.name.length + 1 + (renderVal c).length < n ∧
        str[a + c.name.length + 1 + (renderVal c).length]? = some 59) := by
    rcases he with he | he
    · left; omega
    · right; refine ⟨by omega, ?_⟩
      rw [← he.2.1]; congr 1; omega
  obtain ⟨vs, hvs, hvo⟩ := value_spec F n hn c (a + c.name.length + 1) false hbv hval he'
  rw [bind_ok hvs]
  simp only []
  rw [if_neg (by simp; omega)]
  have hvb := valOff_bounds c (a + c.name.length + 1)
  have hnext : ∀ (s : Bytes) (acc' : List Elem), s.size = str.size →
      s[a + (render1 c).length + 1]? = str[a + (render1 c).length + 1]? →
      next F n rec s (a + c.name.length + 1 + (renderVal c).length) false acc' = rec s a' false acc' := by
    intro s acc' hsz hs
    unfold next
    rcases he with he | he
    · rw [if_neg (by omega)]
      congr 1; omega
    · have e1 : a + c.name.length + 1 + (renderVal c).length = a + (render1 c).length := by omega
      rw [e1, if_pos (by omega)]
      simp only []
      rw [if_neg (by simp; omega), bind_ok (ckRd_some (hs.trans he.2.2.1) 103), if_neg (by decide),
        if_neg (by simp; omega), he.2.2.2]
  by_cases hv0 : c.value = []
  · have hvl : c.value.length = 0 := by rw [hv0]; rfl
    rw [hvl]
    rw [bind_ok (show store (str.setIfInBounds (a + c.name.length) 0) ⟨1, a, c.name.length⟩ vs 0 =
      .ok (str.setIfInBounds (a + c.name.length) 0, ⟨Http.kindCookie, ⟨1, a, c.name.length⟩, some ⟨2, 0, 0⟩⟩) from rfl)]
    simp only []
    rw [hnext _ _ (by simp) (by rw [Array.getElem?_setIfInBounds_ne (by omega)])]
    simp only [strAfter, elemOf, hv0, if_true]
  · have hvl : c.value.length ≠ 0 := fun h => hv0 (List.eq_nil_of_length_eq_zero h)
    rw [hvo hv0]
    rw [bind_ok (show store (str.setIfInBounds (a + c.name.length) 0) ⟨1, a, c.name.length⟩
        (valOff c (a + c.name.length + 1)) c.value.length =
      .ok ((str.setIfInBounds (a + c.name.length) 0).setIfInBounds
            (valOff c (a + c.name.length + 1) + c.value.length) 0,
          ⟨Http.kindCookie, ⟨1, a, c.name.length⟩,
            some ⟨1, valOff c (a + c.name.length + 1), c.value.length⟩⟩) from by
      unfold store
      rw [if_pos (by simpa using hvl), if_pos (by simp; omega)]; rfl)]
    simp only []
    rw [hnext _ _ (by simp) (by
      rw [Array.getElem?_setIfInBounds_ne (by omega), Array.getElem?_setIfInBounds_ne (by omega)])]
    simp only [strAfter, elemOf, hv0, if_false]

theorem set0_keep {s : Bytes} {j : Nat} (p : Nat) (h : s[j]? = some 0) : (s.setIfInBounds p 0)[j]? = some 0 := by
  have hj : j < s.size := by
    rcases Nat.lt_or_ge j s.size with h' | h'
    · exact h'
    · rw [Array.getElem?_eq_none h'] at h; cases h
  by_cases hp : p = j
  · subst hp; simp [hj]
  · rw [Array.getElem?_setIfInBounds_ne hp]; exact h

theorem set0_at {s : Bytes} {p : Nat} (h : p < s.size) : (s.setIfInBounds p 0)[p]? = some 0 := by simp [h]

theorem strAfter_size (str : Bytes) (c : CookieSpec) (a : Nat) : (strAfter str c a).size = str.size := by
  unfold strAfter; split <;> simp

theorem strAfter_keep0 (str : Bytes) (c : CookieSpec) (a : Nat) {j : Nat} (h : str[j]? = some 0) :
    (strAfter str c a)[j]? = some 0 := by
  unfold strAfter; split
  · exact set0_keep _ h
  · exact set0_keep _ (set0_keep _ h)

theorem strAfter_outside (str : Bytes) (c : CookieSpec) (a : Nat) {j : Nat}
    (h : j < a + c.name.length ∨ a + (render1 c).length < j) : (strAfter str c a)[j]? = str[j]? := by
  have hvb := valOff_bounds c (a + c.name.length + 1)
  have hlen := render1_length c
  unfold strAfter; split
  · rw [Array.getElem?_setIfInBounds_ne (by omega)]
  · rw [Array.getElem?_setIfInBounds_ne (by omega), Array.getElem?_setIfInBounds_ne (by omega)]

theorem strAfter_name (str : Bytes) (c : CookieSpec) (a : Nat) (hb : BufIs str a (render1 c))
    (hsz : a + (render1 c).length < str.size) :
    BufIs (strAfter str c a) a c.name ∧ (strAfter str c a)[a + c.name.length]? = some 0 := by
  have hvb := valOff_bounds c (a + c.name.length + 1)
  have hlen := render1_length c
  have hbn : BufIs str a c.name := by unfold render1 at hb; exact hb.left
  unfold strAfter; split
  · exact ⟨hbn.set _ _ (by omega), set0_at (by omega)⟩
  · exact ⟨(hbn.set _ _ (by omega)).set _ _ (by omega), set0_keep _ (set0_at (by omega))⟩

theorem renderVal_value (str : Bytes) (c : CookieSpec) (i : Nat) (hb : BufIs str i (renderVal c)) :
    BufIs str (valOff c i) c.value := by
  unfold renderVal at hb; unfold valOff
  cases hq : c.quoted
  · rw [hq] at hb; simpa using hb
  · rw [hq] at hb
    simp only [if_true] at hb ⊢
    exact hb.tail.left

theorem strAfter_value (str : Bytes) (c : CookieSpec) (a : Nat) (hb : BufIs str a (render1 c))
    (hsz : a + (render1 c).length < str.size) (hv : c.value ≠ []) :
    BufIs (strAfter str c a) (valOff c (a + c.name.length + 1)) c.value ∧
      (strAfter str c a)[valOff c (a + c.name.length + 1) + c.value.length]? = some 0 := by
  have hvb := valOff_bounds c (a + c.name.length + 1)
  have hlen := render1_length c
  have hbv : BufIs str (valOff c (a + c.name.length + 1)) c.value := by
    apply renderVal_value
    have hb' : BufIs str a ((c.name ++ [61]) ++ renderVal c) := by simpa [render1] using hb
    have := hb'.right; simpa [Nat.add_assoc] using this
  unfold strAfter
  rw [if_neg hv]
  exact ⟨(hbv.set _ _ (by omega)).set _ _ (by omega), set0_at (by simp; omega)⟩

/-- the elements produced for the cookies `cs` rendered from index `a` on -/
def elemsAt : Nat → List CookieSpec → List Elem
  | _, [] => []
  | a, c :: cs => elemOf c a :: elemsAt (a + (render1 c).length + 2) cs

/-- the final buffer holds every name and every non-empty value, each followed by a NUL -/
def Holds (s : Bytes) : Nat → List CookieSpec → Prop
  | _, [] => True
  | a, c :: cs =>
    (BufIs s a c.name ∧ s[a + c.name.length]? = some 0 ∧
      (c.value ≠ [] → BufIs s (valOff c (a + c.name.length + 1)) c.value ∧
        s[valOff c (a + c.name.length + 1) + c.value.length]? = some 0)) ∧
    Holds s (a + (render1 c).length + 2) cs

theorem BufIs.congr {s s' : Bytes} {off : Nat} {w : List UInt8} (h : BufIs s' off w)
    (hs : ∀ j, off ≤ j → j < off + w.length → s[j]? = s'[j]?) : BufIs s off w := by
  intro i hi
  rw [hs _ (by omega) (by omega)]; exact h i hi

theorem render1_pos (c : CookieSpec) : 0 < (render1 c).length := by rw [render1_length]; omega

theorem render_cons_pos (c : CookieSpec) (cs : List CookieSpec) : 0 < (render (c :: cs)).length := by
  have := render1_pos c
  cases cs with
  | nil => simpa [render] using this
  | cons c' cs' => simp [render]; omega

theorem loop_spec (F : CKFlags) (n : Nat) :
    ∀ (cs : List CookieSpec) (str : Bytes) (a : Nat) (acc : List Elem) (fuel : Nat),
      (∀ c ∈ cs, c.Valid) → BufIs str a (render cs) → a + (render cs).length = n → n < str.size →
      str[n]? = some 0 → cs.length + 1 ≤ fuel →
      ∃ s, parseCookiesString F n fuel str a false acc = .ok ⟨.ok, s, acc ++ elemsAt a cs⟩ ∧
        s.size = str.size ∧ (∀ j, j < a → s[j]? = str[j]?) ∧ s[n]? = some 0 ∧ Holds s a cs := by
  intro cs
  induction cs with
  | nil =>
    intro str a acc fuel _ _ han hn h0 hf
    obtain ⟨f, rfl⟩ : ∃ f, fuel = f + 1 := ⟨fuel - 1, by simp at hf; omega⟩
    simp only [render, List.length_nil, Nat.add_zero] at han
    refine ⟨str, ?_, rfl, fun _ _ => rfl, h0, trivial⟩
    rw [parseCookiesString_succ]
    unfold body
    rw [if_pos (by simp; omega)]
    simp [elemsAt]; rfl
  | cons c cs ih =>
    intro str a acc fuel hval hb han hn h0 hf
    simp only [List.length_cons] at hf
    obtain ⟨f, rfl⟩ : ∃ f, fuel = f + 1 := ⟨fuel - 1, by omega⟩
    have hc : c.Valid := hval c (by simp)
    have hcs : ∀ c' ∈ cs, c'.Valid := fun c' h => hval c' (by simp [h])
    have hlen := render1_length c
    have hvb := valOff_bounds c (a + c.name.length + 1)
    -- the part that is common to both shapes of the rendering
    have key : ∀ (a' : Nat), BufIs str a (render1 c) → a + (render1 c).length ≤ a' → a' ≤ n →
        (a + (render1 c).length < a' ∨ a' = n) →
        BufIs str a' (render cs) → a' + (render cs).length = n →
        body F n (parseCookiesString F n f) str a false acc =
          parseCookiesString F n f (strAfter str c a) a' false (acc ++ [elemOf c a]) →
        ∃ s, body F n (parseCookiesString F n f) str a false acc =
              .ok ⟨.ok, s, acc ++ elemOf c a :: elemsAt a' cs⟩ ∧
          s.size = str.size ∧ (∀ j, j < a → s[j]? = str[j]?) ∧ s[n]? = some 0 ∧
          (BufIs s a c.name ∧ s[a + c.name.length]? = some 0 ∧
            (c.value ≠ [] → BufIs s (valOff c (a + c.name.length + 1)) c.value ∧
              s[valOff c (a + c.name.length + 1) + c.value.length]? = some 0)) ∧
          Holds s a' cs := by
      intro a' hb1 he1 he2 he3 hbr hanr hbody
      have hb' : BufIs (strAfter str c a) a' (render cs) := by
        apply BufIs.congr hbr
        intro j hj1 hj2
        exact strAfter_outside str c a (by omega)
      have hsz1 := strAfter_size str c a
      obtain ⟨s, hs, hsz, hag, hs0, hholds⟩ := ih (strAfter str c a) a' (acc ++ [elemOf c a]) f hcs hb' hanr
        (by omega) (strAfter_keep0 str c a h0) (by omega)
      have hnm := strAfter_name str c a hb1 (by omega)
      refine ⟨s, ?_, by omega, ?_, hs0, ⟨?_, ?_, ?_⟩, hholds⟩
      · rw [hbody, hs]; simp
      · intro j hj
        rw [hag j (by omega)]; exact strAfter_outside str c a (by omega)
      · exact BufIs.congr hnm.1 (fun j _ hj => hag j (by omega))
      · rw [hag _ (by omega)]; exact hnm.2
      · intro hv
        have hvl := strAfter_value str c a hb1 (by omega) hv
        refine ⟨BufIs.congr hvl.1 (fun j _ hj => hag j (by omega)), ?_⟩
        by_cases hp : valOff c (a + c.name.length + 1) + c.value.length < a'
        · rw [hag _ hp]; exact hvl.2
        · have : valOff c (a + c.name.length + 1) + c.value.length = n := by omega
          rw [this]; exact hs0
    cases cs with
    | nil =>
      simp only [render] at hb han
      obtain ⟨s, hs, hrest⟩ := key n hb (by omega) (by omega) (.inr rfl) (by intro i hi; simp [render] at hi)
        (by simp [render])
        (round_spec F n _ str hn c hc a n acc hb (.inl ⟨han, rfl⟩))
      refine ⟨s, ?_, hrest.1, hrest.2.1, hrest.2.2.1, hrest.2.2.2.1, trivial⟩
      rw [parseCookiesString_succ, hs]; rfl
    | cons c' cs' =>
      simp only [render] at hb han
      have hpos := render_cons_pos c' cs'
      simp only [List.length_append, List.length_cons] at han
      have hb1 : BufIs str a (render1 c) := hb.left
      have hb2 := hb.right
      have h59 : str[a + (render1 c).length]? = some 59 := hb2.head
      have h32 : str[a + (render1 c).length + 1]? = some 32 := hb2.tail.head
      have hbr : BufIs str (a + (render1 c).length + 2) (render (c' :: cs')) := hb2.tail.tail
      obtain ⟨s, hs, hrest⟩ := key (a + (render1 c).length + 2) hb1 (by omega) (by omega) (.inl (by omega)) hbr
        (by omega)
        (round_spec F n _ str hn c hc a _ acc hb1 (.inr ⟨by omega, h59, h32, rfl⟩))
      refine ⟨s, ?_, hrest.1, hrest.2.1, hrest.2.2.1, hrest.2.2.2.1, hrest.2.2.2.2⟩
      rw [parseCookiesString_succ, hs]; rfl

/-- element `el` presents cookie `c` to the application when its strings are read from `s`
    (region 1 = the pool copy): kind, name, value, each string NUL-terminated in `s`;
    an empty value is the static empty string -/
def CookieIs (s : Bytes) (el : Elem) (c : CookieSpec) : Prop :=
  el.kind = Http.kindCookie ∧ el.key.region = 1 ∧ sliceBytes s el.key = c.name ∧
  s[el.key.off + el.key.len]? = some 0 ∧
  (if c.value = [] then el.value = some ⟨2, 0, 0⟩
   else ∃ sl, el.value = some sl ∧ sl.region = 1 ∧ sliceBytes s sl = c.value ∧ s[sl.off + sl.len]? = some 0)

/-- the element list presents exactly the cookies `cs`, one element per cookie, in order -/
def CookiesAre (s : Bytes) : List Elem → List CookieSpec → Prop
  | [], [] => True
  | el :: els, c :: cs => CookieIs s el c ∧ CookiesAre s els cs
  | _, _ => False

theorem CookiesAre.length_eq {s : Bytes} : ∀ {els : List Elem} {cs : List CookieSpec},
    CookiesAre s els cs → els.length = cs.length
  | [], [], _ => rfl
  | _ :: _, _ :: _, h => by simp [CookiesAre.length_eq h.2]
  | [], _ :: _, h => h.elim
  | _ :: _, [], h => h.elim

theorem CookiesAre.get {s : Bytes} : ∀ {els : List Elem} {cs : List CookieSpec}, CookiesAre s els cs →
    ∀ (k : Nat) (h1 : k < els.length) (h2 : k < cs.length), CookieIs s els[k] cs[k]
  | [], [], _, k, h1, _ => by simp at h1
  | _ :: _, _ :: _, h, 0, _, _ => h.1
  | _ :: _, _ :: _, h, k + 1, h1, h2 => by
    simpa using CookiesAre.get h.2 k (by simpa using h1) (by simpa using h2)
  | [], _ :: _, h, _, _, _ => h.elim
  | _ :: _, [], h, _, _, _ => h.elim

theorem sliceBytes_of_BufIs {s : Bytes} {off : Nat} {w : List UInt8} (r : Nat) (h : BufIs s off w) :
    sliceBytes s ⟨r, off, w.length⟩ = w :=
  HSP.sliceBytes_eq s off w h

theorem holds_cookiesAre (s : Bytes) : ∀ (cs : List CookieSpec) (a : Nat), Holds s a cs →
    CookiesAre s (elemsAt a cs) cs := by
  intro cs
  induction cs with
  | nil => intro a _; exact trivial
  | cons c cs ih =>
    intro a h
    obtain ⟨⟨hn, hn0, hv⟩, hr⟩ := h
    refine ⟨⟨rfl, rfl, sliceBytes_of_BufIs 1 hn, hn0, ?_⟩, ih _ hr⟩
    by_cases hv0 : c.value = []
    · simp [elemOf, hv0]
    · simp only [elemOf, hv0, if_false]
      exact ⟨_, rfl, rfl, sliceBytes_of_BufIs 1 (hv hv0).1, (hv hv0).2⟩

theorem length_le_render : ∀ (cs : List CookieSpec), cs.length ≤ (render cs).length
  | [] => by simp
  | [c] => by have := render1_pos c; simp [render]; omega
  | c :: c' :: cs => by
    have := length_le_render (c' :: cs)
    simp [render] at this ⊢; omega

/-- **Canonical round trip of `parse_cookies_string`.**  For every list of cookies with non-empty
    token names and values free of `; " , \\ SP HT NUL`, rendered as `n1=v1; n2=v2; …` (each value
    optionally in double quotes, chosen per cookie), at every flag record `F` (in particular at the
    strictest one) the parser returns the strict result `.ok` and exactly one element per cookie, in
    order, each of kind cookie, whose name and value read back from the returned buffer (and are
    NUL-terminated there); an empty value is the static empty string. -/
theorem cookies_roundtrip (F : CKFlags) (cs : List CookieSpec) (hval : ∀ c ∈ cs, c.Valid)
    (fuel : Nat) (hf : (render cs).length + 1 ≤ fuel) :
    ∃ out, parseCookiesString F (render cs).length fuel (render cs ++ [0]).toArray 0 false [] = .ok out ∧
      out.res = .ok ∧ out.str.size = (render cs).length + 1 ∧
      CookiesAre out.str out.elems cs := by
  have hb : BufIs (render cs ++ [0]).toArray 0 (render cs) := by
    intro i hi
    simp [List.getElem?_append_left hi]
  have h0 : (render cs ++ [0]).toArray[(render cs).length]? = some 0 := by simp
  obtain ⟨s, hs, hsz, _, _, hh⟩ := loop_spec F (render cs).length cs (render cs ++ [0]).toArray 0 [] fuel hval hb
    (by simp) (by simp) h0 (by have := length_le_render cs; omega)
  refine ⟨_, hs, rfl, by simpa using hsz, ?_⟩
  simpa using holds_cookiesAre s cs 0 hh

/-- the same through `parse_cookie_header`: when the `Cookie` field value in the read buffer is the
    canonical rendering, the result is `.ok` and the new elements are exactly the cookies -/
theorem cookieHeader_roundtrip (F : CKFlags) (buf : Bytes) (elems : List Elem) (e : Elem) (v : Slice)
    (cs : List CookieSpec) (hval : ∀ c ∈ cs, c.Valid)
    (hl : lookupElem buf elems Http.kindHeader Http.hdrCookieBytes = some e) (hv : e.value = some v)
    (hr : rdRange buf v.off v.len = some (render cs)) :
    ∃ cpy els, parseCookieHeader F buf elems = .ok ⟨.ok, cpy, elems ++ els⟩ ∧
      CookiesAre cpy els cs := by
  have hlen := (rdRange_some hr).2
  unfold parseCookieHeader
  rw [hl]; simp only [hv]
  split
  · rename_i hz
    have hz : v.len = 0 := by simpa using hz
    have : cs = [] := by
      cases cs with
      | nil => rfl
      | cons c cs => have := render_cons_pos c cs; omega
    subst this
    exact ⟨#[], [], by simp; rfl, trivial⟩
  · rw [hr]
    simp only []
    have hi0 : ((render cs).takeWhile isSpHt).length = 0 := by
      cases cs with
      | nil => simp [render]
      | cons c cs' =>
        obtain ⟨hne, htok, _⟩ := hval c (by simp)
        obtain ⟨x, xs, hx⟩ : ∃ x xs, c.name = x :: xs := by
          cases h : c.name with
          | nil => exact absurd h hne
          | cons x xs => exact ⟨x, xs, rfl⟩
        have hxt := isTok_notSep (htok x (by rw [hx]; simp))
        have hxw : isSpHt x = false := by
          cases h : isSpHt x
          · rfl
          · rw [h] at hxt; simp at hxt
        have : ∃ t, render (c :: cs') = x :: t := by
          cases cs' with
          | nil => exact ⟨_, by simp only [render, render1, hx, List.cons_append]; rfl⟩
          | cons c' cs'' => exact ⟨_, by simp only [render, render1, hx, List.cons_append]; rfl⟩
        obtain ⟨t, ht⟩ := this
        rw [ht]; simp [hxw]
    rw [hi0, ← hlen]
    obtain ⟨out, ho, hres, _, hall⟩ := cookies_roundtrip F cs hval ((render cs).length + 2) (by omega)
    rw [bind_ok ho]
    obtain ⟨r, s, els⟩ := out
    simp only at hres hall
    subst hres
    exact ⟨s, els, rfl, hall⟩

/-! non-vacuity of the round trip (samples) -/
section examples
/-- `a=b; c=""; de="fg"; h=` -/
def sampleCookies : List CookieSpec :=
  [⟨[97], [98], false⟩, ⟨[99], [], true⟩, ⟨[100, 101], [102, 103], true⟩, ⟨[104], [], false⟩]

example : render sampleCookies =
    [97, 61, 98, 59, 32, 99, 61, 34, 34, 59, 32, 100, 101, 61, 34, 102, 103, 34, 59, 32, 104, 61] := by decide
-- the hypothesis of `cookies_roundtrip` is satisfiable
theorem sampleCookies_valid : ∀ c ∈ sampleCookies, c.Valid := by
  intro c hc
  simp only [sampleCookies, List.mem_cons, List.not_mem_nil, or_false] at hc
  rcases hc with rfl | rfl | rfl | rfl <;> refine ⟨by simp, by decide, by decide⟩
example : ∃ out, parseCookiesString strictF 22 23 (render sampleCookies ++ [0]).toArray 0 false [] = .ok out ∧
    out.res = .ok ∧ out.str.size = 23 ∧ CookiesAre out.str out.elems sampleCookies :=
  cookies_roundtrip strictF sampleCookies sampleCookies_valid 23 (by decide)
-- … and the concrete result on this sample (evaluation of the model)
example : parseCookiesString strictF 22 23 (render sampleCookies ++ [0]).toArray 0 false [] =
    .ok ⟨.ok, #[97, 0, 98, 0, 32, 99, 0, 34, 34, 59, 32, 100, 101, 0, 34, 102, 103, 0, 59, 32, 104, 0, 0],
      [⟨Http.kindCookie, ⟨1, 0, 1⟩, some ⟨1, 2, 1⟩⟩, ⟨Http.kindCookie, ⟨1, 5, 1⟩, some ⟨2, 0, 0⟩⟩,
       ⟨Http.kindCookie, ⟨1, 11, 2⟩, some ⟨1, 15, 2⟩⟩, ⟨Http.kindCookie, ⟨1, 20, 1⟩, some ⟨2, 0, 0⟩⟩]⟩ := by rfl
-- the hypotheses of `cookieHeader_roundtrip` are satisfiable: buffer "Cookie" ++ rendering
example : ∃ cpy els, parseCookieHeader strictF ([67, 111, 111, 107, 105, 101] ++ render sampleCookies).toArray
      [⟨Http.kindHeader, ⟨0, 0, 6⟩, some ⟨0, 6, 22⟩⟩] =
      .ok ⟨.ok, cpy, [⟨Http.kindHeader, ⟨0, 0, 6⟩, some ⟨0, 6, 22⟩⟩] ++ els⟩ ∧ CookiesAre cpy els sampleCookies :=
  cookieHeader_roundtrip strictF _ _ ⟨Http.kindHeader, ⟨0, 0, 6⟩, some ⟨0, 6, 22⟩⟩ ⟨0, 6, 22⟩ sampleCookies
    sampleCookies_valid (by rfl) rfl (by rfl)
end examples
end CK
end Mhd.Req
