/-
  C19 helper lemmas, part 15: from a complete header to the returned frame (data frames).
-/
import Mhd.Proofs.WSHeaderRun
namespace Mhd.WS

theorem hdrTail_length_le (masked : Bool) (n : Nat) (m1 m2 m3 m4 : UInt8) :
    (hdrTail masked n [m1, m2, m3, m4]).length ≤ 13 := by
  unfold hdrTail lenBytes
  simp only []
  split
  · split <;> simp
  · split
    · split <;> simp [beBytes_length]
    · split <;> simp [beBytes_length]

/-- the state in which a complete, accepted header leaves the decoder satisfies the invariant -/
theorem phase16_inv {ws : WS} (h : Inv ws) (hs : ws.step = 0) (b0 : UInt8) (t : List UInt8) (ht : t.length ≤ 13)
    (n : Nat) (key : List UInt8) (v : Nat) (hok : OkOp b0) (hn : n < 2 ^ 63)
    (hdt : (opcodeOf b0 = 1 ∨ opcodeOf b0 = 2) → ws.dataType = 0) :
    Inv (hdrPhase ws (b0 :: t) 16 n key v) := by
  have hl := h.hdrLen
  have hi0 := h.idx0 (by omega)
  have hc := h.carry
  have h17 : ¬ ws.step = 17 := by omega
  simp only [h17, if_false] at hc
  exact { h with
    hdrLen := by show (hp ws.hdr (b0 :: t)).length = 32; rw [hp_length _ _ (by simp; omega)]; exact hl
    stepOk := by show (16 : Nat) ≤ 18 ∨ _; omega
    hsU := by show (b0 :: t).length ≤ 16; simp; omega
    hsS := by intro h1; exact absurd h1 (by show ¬ (16 : Nat) ≤ 15; omega)
    hsL := by intro _ h2; exact absurd h2 (by show ¬ (16 : Nat) ≤ 15; omega)
    hs1 := by intro _ h2; exact absurd h2 (by show ¬ (16 : Nat) ≤ 15; omega)
    h0 := fun _ _ => ⟨b0, phase_hdr0 ws b0 t 16 n key v, hok⟩
    h0c := by intro h1; exact absurd h1 (by show ¬ (16 : Nat) = 18; omega)
    h0n := by
      intro _ _ b hb hop
      rw [phase_hdr0] at hb; injection hb with hb; subst hb
      exact hdt hop
    psz := hn
    idx := by show ws.payloadIndex ≤ n; omega
    idx0 := fun _ => hi0
    dst := by intro h1; exact absurd h1 (by show ¬ (16 : Nat) = 17; omega)
    cbuf := by intro h1; exact absurd h1 (by show ¬ (16 : Nat) = 18; omega)
    carry := by
      intro hd
      have := hc hd
      show givenUtf8 ws.dataUtf8 ≤ (if (16 : Nat) = 17 then _ else ws.dataSize)
      rw [if_neg (by omega)]; exact this }

end Mhd.WS
namespace Mhd.WS

theorem copyPayload_zero (src : List UInt8) (off : Nat) : copyPayload src [0, 0, 0, 0] off = src := by
  unfold copyPayload; simp

theorem writeAt_fresh (payload : List UInt8) :
    writeAt ((List.replicate (payload.length + 1) (0 : UInt8)).set payload.length 0) 0 payload = some (payload ++ [0]) := by
  unfold writeAt
  simp only [Nat.zero_add, List.length_set, List.length_replicate, Nat.le_add_right, if_true, List.take_zero,
    List.nil_append]
  congr 1
  congr 1
  apply List.ext_getElem
  · simp
  · intro i h1 h2
    simp at h1 h2
    subst h1
    simp

theorem iter_step16 (ws : WS) (b : UInt8) (rest : List UInt8) (hs : ws.step = 16) :
    iter false ws (b :: rest) = match headerComplete false ws with
      | .cont ws' _ => .cont ws' 0
      | r => r := by
  unfold iter; simp only [hs]; rfl

/-- a complete data frame (text/binary, FIN) from `HeaderCompleted` on: the application gets the
    opcode as status and the unmasked payload, NUL-terminated -/
theorem data_body_run {ws : WS} (h : Inv ws) (hs : ws.step = 0) (b0 : UInt8) (t : List UInt8) (ht : t.length ≤ 13)
    (key : List UInt8) (v : Nat) (hv : v ≠ 0) (hop : opcodeOf b0 = 1 ∨ opcodeOf b0 = 2) (hfin : finBit b0 = true)
    (hdt : ws.dataType = 0) (payload body : List UInt8) (hn : payload.length < 2 ^ 63)
    (hal : payload.length + 1 ≤ ws.allocLimit) (hutf : opcodeOf b0 = 1 → checkUtf8 payload 0 0 = .ok 0)
    (hbody : copyPayload body key 0 = payload) (hne : payload ≠ []) :
    ∃ ws', Run (hdrPhase ws (b0 :: t) 16 payload.length key v) body
      [(Int.ofNat (opcodeOf b0), some (payload ++ [0]), payload.length)] (.more ws') := by
  have hbl : body.length = payload.length := by rw [← hbody, copyPayload_length]
  have hok : OkOp b0 := ⟨by omega, fun _ => hfin⟩
  have hi16 := phase16_inv h hs b0 t ht payload.length key v hok hn (fun _ => hdt)
  have hn0 : payload.length ≠ 0 := by intro h0; exact hne (List.length_eq_zero_iff.mp h0)
  have hu0 : ws.dataUtf8 = 0 := h.u8a (by omega)
  have hi0 : ws.payloadIndex = 0 := h.idx0 (by omega)
  cases hb : body with
  | nil => rw [hb] at hbl; simp at hbl; omega
  | cons x r =>
    -- header complete: allocate
    have hW : (payload.length + 1) % W = payload.length + 1 := Nat.mod_eq_of_lt (by rw [W_eq]; omega)
    have hhc : headerComplete false (hdrPhase ws (b0 :: t) 16 payload.length key v) =
        .cont { hdrPhase ws (b0 :: t) 16 payload.length key v with
                dataBuf := some ((List.replicate (payload.length + 1) (0 : UInt8)).set payload.length 0),
                dataStart := 0, dataSize := payload.length, dataType := opcodeOf b0, step := 17 } 0 := by
      unfold headerComplete
      rw [phase_hdr0]
      have hps : (hdrPhase ws (b0 :: t) 16 payload.length key v).payloadSize = payload.length := rfl
      have hall : alloc (hdrPhase ws (b0 :: t) 16 payload.length key v) (payload.length + 1) =
          some (List.replicate (payload.length + 1) 0) := by
        unfold alloc; exact if_pos (show payload.length + 1 ≤ (hdrPhase ws (b0 :: t) 16 payload.length key v).allocLimit from hal)
      have hterm : termAt (List.replicate (payload.length + 1) (0 : UInt8)) payload.length =
          some ((List.replicate (payload.length + 1) (0 : UInt8)).set payload.length 0) := by
        unfold termAt; rw [if_pos (by simp)]
      rcases hop with h1 | h2
      · simp only [h1, hps, hn0, ne_eq, not_false_eq_true, if_true, hW, hall, hterm]
      · simp only [h2, hps, hn0, ne_eq, not_false_eq_true, if_true, hW, hall, hterm]
    have hv16 : (hdrPhase ws (b0 :: t) 16 payload.length key v).validity ≠ 0 := hv
    generalize hS17 : ({ hdrPhase ws (b0 :: t) 16 payload.length key v with
                dataBuf := some ((List.replicate (payload.length + 1) (0 : UInt8)).set payload.length 0),
                dataStart := 0, dataSize := payload.length, dataType := opcodeOf b0, step := 17 } : WS) = S17 at hhc
    have hok16 := iter_ok hi16 hv16 (x :: r) (by simp)
    have hit16 : iter false (hdrPhase ws (b0 :: t) 16 payload.length key v) (x :: r) = .cont S17 0 := by
      rw [iter_step16 _ _ _ rfl, hhc]
    rw [hit16] at hok16
    obtain ⟨hi17, hv17, _, _⟩ := hok16
    have e_step : S17.step = 17 := by rw [← hS17]
    have e_buf : S17.dataBuf = some ((List.replicate (payload.length + 1) (0 : UInt8)).set payload.length 0) := by
      rw [← hS17]
    have e_ds : S17.dataStart = 0 := by rw [← hS17]
    have e_idx : S17.payloadIndex = 0 := by rw [← hS17]; exact hi0
    have e_psz : S17.payloadSize = payload.length := by rw [← hS17]; rfl
    have e_key : S17.maskKey = key := by rw [← hS17]; rfl
    have e_dt : S17.dataType = opcodeOf b0 := by rw [← hS17]
    have e_u8 : S17.dataUtf8 = 0 := by rw [← hS17]; exact hu0
    have e_h0 : S17.hdr[0]? = some b0 := by rw [← hS17]; exact phase_hdr0 ws b0 t 16 payload.length key v
    have e_dsz : S17.dataSize = payload.length := by rw [← hS17]
    have hk : payload.length = min (S17.payloadSize - S17.payloadIndex) (x :: r).length := by
      rw [e_psz, e_idx, ← hb, hbl]; omega
    obtain ⟨buf, buf', hbuf, hw, hsp⟩ := (stepPayload_data_eq hi17 e_step (x :: r) payload.length hk).2 hn0
    rw [e_buf] at hbuf; injection hbuf with hbuf; subst hbuf
    have htake : (x :: r).take payload.length = body := by
      rw [← hb, ← hbl, List.take_length]
    rw [htake, e_key, e_idx, e_ds, Nat.zero_mod, hbody, Nat.add_zero, writeAt_fresh] at hw
    injection hw with hw; subst hw
    rw [htake, e_key, e_idx, Nat.zero_mod, hbody, e_u8, e_dt, Nat.zero_add] at hsp
    -- the payload trip returns the frame
    have hfinal : ∃ ws', iter false S17 (x :: r) =
        .ret ws' (Int.ofNat (opcodeOf b0)) payload.length (some (payload ++ [0])) payload.length ∧ ws'.step = 0 := by
      rw [iter_payload _ _ (by simp) (Or.inl e_step), hsp]
      have hpc : ∀ w : WS, w.hdr[0]? = some b0 → w.step = 17 → w.dataType = opcodeOf b0 → w.dataUtf8 = 0 →
          w.payloadSize = w.payloadIndex → w.dataBuf = some (payload ++ [0]) → w.dataSize = payload.length →
          ∃ ws', payloadFinish false payload.length w =
            .ret ws' (Int.ofNat (opcodeOf b0)) payload.length (some (payload ++ [0])) payload.length ∧ ws'.step = 0 := by
        intro w h0 hs17 hdt' hu hsz hbf hds
        unfold payloadFinish
        rw [if_pos hsz]
        unfold payloadComplete
        have hnc : ¬ opcodeOf b0 = 0 := by omega
        simp only [h0, hfin, if_true, hs17, hu, ne_eq, not_true_eq_false, and_false, if_false, hnc, hdt', hbf, hds]
        exact ⟨_, rfl, rfl⟩
      by_cases h1 : opcodeOf b0 = 1
      · rw [if_pos h1, hutf h1]
        exact hpc _ e_h0 e_step rfl rfl (by show S17.payloadSize = _; rw [e_psz]) rfl e_dsz
      · rw [if_neg h1]
        exact hpc _ e_h0 e_step rfl rfl (by show S17.payloadSize = _; rw [e_psz]) rfl e_dsz
    obtain ⟨ws', hfi, hst'⟩ := hfinal
    refine ⟨ws', ?_⟩
    have hq' : sil ws' = 0 := by unfold sil; rw [hst']; simp
    have hev : evOf (Int.ofNat (opcodeOf b0)) (some (payload ++ [0])) payload.length =
        [(Int.ofNat (opcodeOf b0), some (payload ++ [0]), payload.length)] := by
      have hne0 : ¬ Int.ofNat (opcodeOf b0) = 0 := by
        intro h0
        have : opcodeOf b0 = 0 := by simpa using h0
        omega
      unfold evOf; rw [if_neg hne0]
    have hdrop : (x :: r).drop payload.length = [] := by
      rw [← hb, ← hbl]; exact List.drop_length
    refine Run.cont _ (x :: r) S17 0 _ _ (by simp) hit16 ?_
    rw [List.drop_zero]
    have := Run.emit S17 (x :: r) ws' (Int.ofNat (opcodeOf b0)) payload.length (some (payload ++ [0])) payload.length
      [] (.more ws') (by simp) hfi (Int.natCast_nonneg _) (by rw [hdrop]; exact Run.done _ _ _ (settle_quiet hq'))
    rw [hev, List.append_nil] at this
    exact this
end Mhd.WS