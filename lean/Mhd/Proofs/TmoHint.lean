/-
  The sleep hint (`MHD_get_timeout64`): in every state that satisfies `Inv` it is bounded by the
  time left to the earliest deadline (+ granularity), 0 when a deadline has passed or work is
  pending, and "no timeout" only when nothing can time out.
-/
import Mhd.Proofs.TmoRun
namespace Mhd.Tmo
open Mhd.Gen.Tmo

/-- what the scan of `MHD_get_timeout64` has established after looking at the connections `S` -/
def CandOk (d : Daemon) (S : Id → Prop) (acc : Option (Id × Nat)) : Prop :=
  match acc with
  | none => ∀ i, S i → (d.c i).tmo = 0
  | some (e, ed) => ed = (d.c e).la + (d.c e).tmo ∧ (d.c e).tmo ≠ 0 ∧ S e ∧
      ∀ i, S i → (d.c i).tmo ≠ 0 → ed ≤ (d.c i).la + (d.c i).tmo

theorem add64_small {a b : Nat} (ha : a < 2 ^ 62) (hb : b < 2 ^ 62) : add64 a b = a + b := by
  simp only [add64, W]; omega

theorem earlier_iff {v : Variant} (hv : v.hintSafe = true) (ed : Nat) (c : Conn)
    (h1 : ed < 2 ^ 63) (h2 : c.la < 2 ^ 62) (h3 : c.tmo < 2 ^ 62) (h0 : c.tmo ≠ 0) :
    earlier v ed c = true ↔ c.la + c.tmo < ed := by
  simp only [earlier, hv, if_true, add64_small h2 h3, sub64, W, halfRange, decide_eq_true_eq]
  omega

theorem hintStep_ok {v : Variant} (hv : v.hintSafe = true) {d : Daemon} (hb : ∀ i, (d.c i).la < 2 ^ 62 ∧ (d.c i).tmo < 2 ^ 62)
    {S : Id → Prop} {acc : Option (Id × Nat)} (h : CandOk d S acc) (i : Id) :
    CandOk d (fun x => x = i ∨ S x) (hintStep v d acc i) := by
  unfold hintStep
  dsimp only
  have bi := hb i
  by_cases h0 : (d.c i).tmo = 0
  · simp only [h0, if_true]
    cases acc with
    | none => intro j hj; rcases hj with e | e; subst e; exact h0; exact h j e
    | some p =>
      obtain ⟨e, ed⟩ := p
      obtain ⟨a1, a2, a3, a4⟩ := h
      refine ⟨a1, a2, Or.inr a3, ?_⟩
      intro j hj hjt
      rcases hj with e' | e'
      · subst e'; exact absurd h0 hjt
      · exact a4 j e' hjt
  · simp only [h0, if_false]
    cases acc with
    | none =>
      refine ⟨add64_small bi.1 bi.2, h0, Or.inl rfl, ?_⟩
      intro j hj hjt
      rcases hj with e' | e'
      · subst e'; rw [add64_small bi.1 bi.2]; exact Nat.le_refl _
      · exact absurd (h j e') hjt
    | some p =>
      obtain ⟨e, ed⟩ := p
      obtain ⟨a1, a2, a3, a4⟩ := h
      have be := hb e
      have hed : ed < 2 ^ 63 := by omega
      dsimp only
      by_cases hlt : earlier v ed (d.c i) = true
      · simp only [hlt, if_true]
        have := (earlier_iff hv ed (d.c i) hed bi.1 bi.2 h0).1 hlt
        refine ⟨add64_small bi.1 bi.2, h0, Or.inl rfl, ?_⟩
        intro j hj hjt
        rw [add64_small bi.1 bi.2]
        rcases hj with e' | e'
        · subst e'; exact Nat.le_refl _
        · have := a4 j e' hjt; omega
      · simp only [hlt]
        have hn : ¬ ((d.c i).la + (d.c i).tmo < ed) := fun x => hlt ((earlier_iff hv ed (d.c i) hed bi.1 bi.2 h0).2 x)
        refine ⟨a1, a2, Or.inr a3, ?_⟩
        intro j hj hjt
        rcases hj with e' | e'
        · subst e'; omega
        · exact a4 j e' hjt

theorem CandOk.congr {d : Daemon} {S S' : Id → Prop} {acc : Option (Id × Nat)} (hs : ∀ x, S x ↔ S' x)
    (h : CandOk d S acc) : CandOk d S' acc := by
  cases acc with
  | none => intro i hi; exact h i ((hs i).2 hi)
  | some p =>
    obtain ⟨e, ed⟩ := p
    obtain ⟨a1, a2, a3, a4⟩ := h
    exact ⟨a1, a2, (hs e).1 a3, fun i hi => a4 i ((hs i).2 hi)⟩

theorem foldl_hintStep_ok {v : Variant} (hv : v.hintSafe = true) {d : Daemon}
    (hb : ∀ i, (d.c i).la < 2 ^ 62 ∧ (d.c i).tmo < 2 ^ 62) :
    ∀ (l : List Id) (S : Id → Prop) (acc : Option (Id × Nat)), CandOk d S acc →
      CandOk d (fun x => x ∈ l ∨ S x) (l.foldl (hintStep v d) acc)
  | [], S, acc, h => by simpa using h
  | i :: rest, S, acc, h => by
    rw [List.foldl_cons]
    refine CandOk.congr ?_ (foldl_hintStep_ok hv hb rest _ _ (hintStep_ok hv hb h i))
    intro x; simp only [List.mem_cons]; constructor
    · intro hx; rcases hx with a | a | a
      · exact Or.inl (Or.inr a)
      · exact Or.inl (Or.inl a)
      · exact Or.inr a
    · intro hx; rcases hx with (a | a) | a
      · exact Or.inr (Or.inl a)
      · exact Or.inl a
      · exact Or.inr (Or.inr a)

/-- the candidate chosen by `MHD_get_timeout64` has the earliest deadline of all connections in the
    two timeout lists that have a timeout -/
theorem hintCand_ok {v : Variant} (hv : v.hintSafe = true) {d : Daemon} (h : Inv d) (hnow : d.now + d.back < 2 ^ 62) :
    CandOk d (fun x => x ∈ d.normal ∨ x ∈ d.manual) (hintCand v d) := by
  have hb : ∀ i, (d.c i).la < 2 ^ 62 ∧ (d.c i).tmo < 2 ^ 62 := by
    intro i; have a := h.laLe i; have b := h.tmoB i
    simp only [tmoMax, msPerSec] at b; omega
  unfold hintCand
  dsimp only
  -- the start value: the tail of the normal list stands for the whole list
  have h0 : CandOk d (fun x => x ∈ d.normal)
      (match d.normal.getLast? with
        | some i => if (d.c i).tmo ≠ 0 then some (i, add64 (d.c i).la (d.c i).tmo) else none
        | none => none) := by
    cases hl : d.normal.getLast? with
    | none =>
      have : d.normal = [] := List.getLast?_eq_none_iff.1 hl
      intro i hi; rw [this] at hi; exact absurd hi List.not_mem_nil
    | some t =>
      obtain ⟨ys, hys⟩ := List.getLast?_eq_some_iff.1 hl
      have ht : t ∈ d.normal := by rw [hys]; simp
      have htt := h.normalT t ht
      dsimp only
      by_cases h0 : (d.c t).tmo = 0
      · simp only [h0, ne_eq, not_true_eq_false, if_false]
        intro i hi; rw [h.normalT i hi, ← htt]; exact h0
      · simp only [h0, ne_eq, not_false_eq_true, if_true]
        refine ⟨add64_small (hb t).1 (hb t).2, h0, ht, ?_⟩
        intro i hi _
        rw [add64_small (hb t).1 (hb t).2, h.normalT i hi, htt]
        have hd : d.cfg.dtmo ≠ 0 := htt ▸ h0
        have hso := h.sorted hd
        rw [hys] at hso hi
        rcases List.mem_append.1 hi with x | x
        · have := (List.pairwise_append.1 hso).2.2 i x t (by simp); omega
        · simp at x; subst x; omega
  refine CandOk.congr ?_ (foldl_hintStep_ok hv hb d.manual.reverse _ _ h0)
  intro x; simp only [List.mem_reverse]; constructor
  · intro hx; rcases hx with a | a; exact Or.inr a; exact Or.inl a
  · intro hx; rcases hx with a | a; exact Or.inr a; exact Or.inl a

/-- **hint bound.**  In a state satisfying the invariant the hint is at most the time left to any
    connection's deadline plus the granularity, and 0 as soon as some deadline has passed. -/
theorem hint_bound {v : Variant} (hv : v.hintSafe = true) {d : Daemon} (h : Inv d) (hnow : d.now + d.back < 2 ^ 62)
    (hback : d.back ≤ jumpBackLimit) (hh : Nat) (heq : hint v d = some hh) (i : Id) (hi : i ∈ d.normal ∨ i ∈ d.manual) (hti : (d.c i).tmo ≠ 0) :
    hh ≤ ((d.c i).la + (d.c i).tmo - d.now) + granularity ∧
    ((d.c i).la + (d.c i).tmo < d.now → hh = 0) := by
  unfold hint at heq
  split at heq
  · cases heq; exact ⟨Nat.zero_le _, fun _ => rfl⟩
  · have hc := hintCand_ok hv h hnow
    cases hcand : hintCand v d with
    | none =>
      rw [hcand] at heq; simp at heq
    | some p =>
      obtain ⟨e, ed⟩ := p
      rw [hcand] at hc heq
      simp only [Option.map_some, Option.some.injEq] at heq
      obtain ⟨a1, a2, _, a4⟩ := hc
      have hle := a4 i hi hti
      have hte : (d.c e).tmo < 2 ^ 63 := by
        have := h.tmoB e; simp only [tmoMax, msPerSec] at this; omega
      have g := getWait_bound_jump d.now (d.c e) (by have := h.laLe e; omega) (by omega) hte
      subst heq
      refine ⟨?_, ?_⟩
      · have := g.1; omega
      · intro hx; exact g.2 (by omega)

/-- the hint is "no timeout" only when nothing is pending and no listed connection has a timeout -/
theorem hint_none {v : Variant} (hv : v.hintSafe = true) {d : Daemon} (h : Inv d) (hnow : d.now + d.back < 2 ^ 62)
    (heq : hint v d = none) : pending d = false ∧ ∀ i, i ∈ d.normal ∨ i ∈ d.manual → (d.c i).tmo = 0 := by
  unfold hint at heq
  split at heq
  · cases heq
  · rename_i hp
    refine ⟨by simpa using hp, ?_⟩
    have hc := hintCand_ok hv h hnow
    cases hcand : hintCand v d with
    | none => rw [hcand] at hc; exact hc
    | some p => rw [hcand] at heq; simp at heq

/-- work that is already pending makes the hint 0 -/
theorem hint_pending (v : Variant) (d : Daemon) (hp : pending d = true) : hint v d = some 0 := by
  unfold hint; simp [hp]

end Mhd.Tmo
