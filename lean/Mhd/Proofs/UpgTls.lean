/-
  C20, TLS forwarding (`process_urh`): invariants of the buffer / flag state machine of
  `Mhd.Model.UpgTls` — both directions are prefix-preserving FIFOs for every interleaving of
  readiness events and every outcome of the I/O calls, the buffers are never overrun, the
  connection is released exactly once; one-step facts about close propagation.
-/
import Mhd.Model.UpgTls
set_option linter.unusedSimpArgs false
set_option linter.unusedVariables false
namespace Mhd.UpgTls

/-- client → application direction: conservation, order, bounds -/
structure InI (s : St) : Prop where
  eq : s.toApp ++ s.dropIn ++ s.inBuf ++ s.remoteIn = s.clientSent
  drop : s.dropIn = [] ∨ (s.inBuf = [] ∧ s.inSize = 0)
  len : s.inBuf.length ≤ s.cap
  size : s.inSize ≤ s.cap

/-- application → client direction -/
structure OutI (s : St) : Prop where
  eq : s.toClient ++ s.dropOut ++ s.outBuf ++ s.pairIn = s.appSent
  drop : s.dropOut = [] ∨ (s.outBuf = [] ∧ s.outSize = 0)
  len : s.outBuf.length ≤ s.cap
  size : s.outSize ≤ s.cap

/-- the in-side fields of two states agree -/
def SameIn (s t : St) : Prop :=
  t.toApp = s.toApp ∧ t.dropIn = s.dropIn ∧ t.inBuf = s.inBuf ∧ t.remoteIn = s.remoteIn ∧ t.clientSent = s.clientSent ∧
  t.inSize = s.inSize ∧ t.cap = s.cap
def SameOut (s t : St) : Prop :=
  t.toClient = s.toClient ∧ t.dropOut = s.dropOut ∧ t.outBuf = s.outBuf ∧ t.pairIn = s.pairIn ∧ t.appSent = s.appSent ∧
  t.outSize = s.outSize ∧ t.cap = s.cap

theorem InI.of_same {s t : St} (h : InI s) (e : SameIn s t) : InI t := by
  obtain ⟨a, b, c, d, f, g, k⟩ := e
  exact ⟨by rw [a, b, c, d, f]; exact h.eq, by rw [b, c, g]; exact h.drop, by rw [c, k]; exact h.len, by rw [g, k]; exact h.size⟩
theorem OutI.of_same {s t : St} (h : OutI s) (e : SameOut s t) : OutI t := by
  obtain ⟨a, b, c, d, f, g, k⟩ := e
  exact ⟨by rw [a, b, c, d, f]; exact h.eq, by rw [b, c, g]; exact h.drop, by rw [c, k]; exact h.len, by rw [g, k]; exact h.size⟩

theorem pre_in (sh : Bool) (s : St) (h : InI s) : InI (stagePre sh s) := by
  unfold stagePre
  by_cases hs : sh = true <;> by_cases hw : s.wasClosed = true <;> simp [hs, hw]
  all_goals first
    | exact h
    | (refine ⟨?_, Or.inr ⟨rfl, rfl⟩, by simp, by simp⟩
       have := h.eq
       simp [List.append_assoc] at this ⊢
       exact this)

theorem pre_out (sh : Bool) (s : St) : SameOut s (stagePre sh s) := by
  unfold stagePre
  by_cases hs : sh = true <;> by_cases hw : s.wasClosed = true <;> simp [hs, hw, SameOut]


theorem take_drop_mid (a b c : Bytes) (k : Nat) : a ++ (b ++ c.take k) ++ c.drop k = a ++ b ++ c := by
  simp [List.append_assoc]

theorem tlsRecv_in (e : Env) (s : St) (h : InI s) : InI (stageTlsRecv e s) ∧ (s.fault = none → (stageTlsRecv e s).fault = none) := by
  unfold stageTlsRecv
  split
  · rename_i hc
    simp only [Bool.and_eq_true, decide_eq_true_eq] at hc
    have hlt := hc.2
    have hd : s.dropIn = [] := by
      rcases h.drop with h1 | ⟨h1, h2⟩
      · exact h1
      · rw [h1, h2] at hlt; simp at hlt
    simp only []
    split
    · rename_i k hk
      -- k bytes received
      have hkb : k ≤ s.inSize - s.inBuf.length := by
        split at hk
        · split at hk
          · cases hk
          · injection hk with hk; rw [← hk]
            exact Nat.le_trans (Nat.min_le_right _ _) (Nat.le_trans (Nat.min_le_left _ _) (Nat.min_le_left _ _))
        · rename_i r hr; exact absurd hk (hr k)
      have hsz := h.size
      have hfit : ¬ s.cap < s.inBuf.length + k := by omega
      simp only [hfit, if_false]
      refine ⟨⟨?_, Or.inl hd, ?_, hsz⟩, fun hf => hf⟩
      · have := h.eq
        simp only [List.append_assoc] at this ⊢
        rw [List.take_append_drop]; exact this
      · simp only [List.length_append, List.length_take]; omega
    · exact ⟨⟨h.eq, h.drop, h.len, h.size⟩, fun hf => hf⟩
    · split
      · exact ⟨⟨h.eq, Or.inl hd, h.len, by simp⟩, fun hf => hf⟩
      · exact ⟨⟨h.eq, h.drop, h.len, h.size⟩, fun hf => hf⟩
    · exact ⟨⟨h.eq, Or.inl hd, h.len, by simp⟩, fun hf => hf⟩
  · exact ⟨h, fun hf => hf⟩

theorem tlsRecv_out (e : Env) (s : St) : SameOut s (stageTlsRecv e s) := by
  unfold stageTlsRecv
  split
  · simp only []
    split
    · split <;> simp [SameOut]
    · simp [SameOut]
    · split <;> simp [SameOut]
    · simp [SameOut]
  · simp [SameOut]

theorem pairRecv_out (wc : Bool) (e : Env) (s : St) (h : OutI s) :
    OutI (stagePairRecv wc e s) ∧ (s.fault = none → (stagePairRecv wc e s).fault = none) := by
  unfold stagePairRecv
  split
  · rename_i hc
    simp only [Bool.and_eq_true, decide_eq_true_eq] at hc
    have hlt := hc.2
    have hd : s.dropOut = [] := by
      rcases h.drop with h1 | ⟨h1, h2⟩
      · exact h1
      · rw [h1, h2] at hlt; simp at hlt
    simp only []
    split
    · rename_i k hk
      have hkb : k ≤ s.outSize - s.outBuf.length := by
        split at hk
        · split at hk
          · cases hk
          · injection hk with hk; rw [← hk]
            exact Nat.le_trans (Nat.min_le_right _ _) (Nat.le_trans (Nat.min_le_left _ _) (Nat.min_le_left _ _))
        · rename_i r hr; exact absurd hk (hr k)
      have hsz := h.size
      have hfit : ¬ s.cap < s.outBuf.length + k := by omega
      simp only [hfit, if_false]
      refine ⟨⟨?_, Or.inl hd, ?_, hsz⟩, fun hf => hf⟩
      · have := h.eq
        simp only [List.append_assoc] at this ⊢
        rw [List.take_append_drop]; exact this
      · simp only [List.length_append, List.length_take]; omega
    · exact ⟨⟨h.eq, h.drop, h.len, h.size⟩, fun hf => hf⟩
    · split
      · exact ⟨⟨h.eq, Or.inl hd, h.len, by simp⟩, fun hf => hf⟩
      · exact ⟨⟨h.eq, h.drop, h.len, h.size⟩, fun hf => hf⟩
    · exact ⟨⟨h.eq, Or.inl hd, h.len, by simp⟩, fun hf => hf⟩
  · exact ⟨h, fun hf => hf⟩

theorem pairRecv_in (wc : Bool) (e : Env) (s : St) : SameIn s (stagePairRecv wc e s) := by
  unfold stagePairRecv
  split
  · simp only []
    split
    · split <;> simp [SameIn]
    · simp [SameIn]
    · split <;> simp [SameIn]
    · simp [SameIn]
  · simp [SameIn]


/-- shape of the out side after the `match res` of `stageTlsSend` -/
theorem tlsSend_out (e : Env) (s : St) (h : OutI s) : OutI (stageTlsSend e s) := by
  unfold stageTlsSend
  split
  · rename_i hc
    simp only [Bool.and_eq_true, decide_eq_true_eq] at hc
    have hpos := hc.2
    have hd : s.dropOut = [] := by
      rcases h.drop with h1 | ⟨h1, h2⟩
      · exact h1
      · rw [h1] at hpos; simp at hpos
    simp only []
    -- the state after the match
    have key : ∀ t : St, OutI t → OutI (if t.outBuf.isEmpty && t.remote.err then
        { t with remote := { t.remote with wr := false }, outSize := 0, pair := { t.pair with rd := false } } else t) := by
      intro t ht
      split
      · rename_i hh
        simp only [Bool.and_eq_true, List.isEmpty_iff] at hh
        exact ⟨ht.eq, by rcases ht.drop with a | a; exact Or.inl a; exact Or.inr ⟨hh.1, rfl⟩, ht.len, by simp⟩
      · exact ht
    apply key
    split
    · rename_i k hk
      refine ⟨?_, Or.inl hd, ?_, h.size⟩
      · have := h.eq
        simp only [List.append_assoc] at this ⊢
        rw [hd] at this ⊢
        simp only [List.nil_append] at this ⊢
        rw [← List.append_assoc (List.take k s.outBuf), List.take_append_drop]; exact this
      · simp only [List.length_drop]; have := h.len; omega
    · exact ⟨h.eq, h.drop, h.len, h.size⟩
    · exact ⟨h.eq, h.drop, h.len, h.size⟩
    · refine ⟨?_, Or.inr ⟨rfl, rfl⟩, by simp, by simp⟩
      have := h.eq
      simp only [List.append_assoc, List.nil_append] at this ⊢
      exact this
  · exact h

theorem tlsSend_in (e : Env) (s : St) : SameIn s (stageTlsSend e s) := by
  unfold stageTlsSend
  split
  · simp only []
    split <;> (split <;> simp [SameIn])
  · simp [SameIn]

theorem pairSend_in (e : Env) (s : St) (h : InI s) : InI (stagePairSend e s) := by
  unfold stagePairSend
  split
  · rename_i hc
    simp only [Bool.and_eq_true, decide_eq_true_eq] at hc
    have hpos := hc.2
    have hd : s.dropIn = [] := by
      rcases h.drop with h1 | ⟨h1, h2⟩
      · exact h1
      · rw [h1] at hpos; simp at hpos
    simp only []
    have key : ∀ t : St, InI t → InI (if t.inBuf.isEmpty && t.pair.err then
        { t with pair := { t.pair with wr := false }, inSize := 0, remote := { t.remote with rd := false }, tlsReadReady := false } else t) := by
      intro t ht
      split
      · rename_i hh
        simp only [Bool.and_eq_true, List.isEmpty_iff] at hh
        exact ⟨ht.eq, by rcases ht.drop with a | a; exact Or.inl a; exact Or.inr ⟨hh.1, rfl⟩, ht.len, by simp⟩
      · exact ht
    apply key
    split
    · rename_i k hk
      have base : InI { s with io := s.io ++ [Io.pairSend], toApp := s.toApp ++ s.inBuf.take k, inBuf := s.inBuf.drop k } := by
        refine ⟨?_, Or.inl hd, ?_, h.size⟩
        · have := h.eq
          simp only [List.append_assoc] at this ⊢
          rw [hd] at this ⊢
          simp only [List.nil_append] at this ⊢
          rw [← List.append_assoc (List.take k s.inBuf), List.take_append_drop]; exact this
        · simp only [List.length_drop]; have := h.len; omega
      split
      · exact ⟨base.eq, base.drop, base.len, base.size⟩
      · exact base
    · exact ⟨h.eq, h.drop, h.len, h.size⟩
    · exact ⟨h.eq, h.drop, h.len, h.size⟩
    · refine ⟨?_, Or.inr ⟨rfl, rfl⟩, by simp, by simp⟩
      have := h.eq
      simp only [List.append_assoc, List.nil_append] at this ⊢
      exact this
  · exact h

theorem pairSend_out (e : Env) (s : St) : SameOut s (stagePairSend e s) := by
  unfold stagePairSend
  split
  · simp only []
    split
    · split <;> (split <;> simp [SameOut])
    all_goals (split <;> simp [SameOut])
  · simp [SameOut]

theorem post_in (sh wc : Bool) (s : St) : SameIn s (stagePost sh wc s) := by
  unfold stagePost
  simp only []
  repeat' split
  all_goals simp [SameIn]

theorem post_out (sh wc : Bool) (s : St) (h : OutI s) : OutI (stagePost sh wc s) := by
  unfold stagePost
  simp only []
  have a : ∀ t : St, OutI t → OutI (if t.tlsReadReady && decide (t.inBuf.length < t.inSize) && ! t.tpc then { t with pending := true } else t) := by
    intro t ht; split
    · exact ⟨ht.eq, ht.drop, ht.len, ht.size⟩
    · exact ht
  have b : ∀ t : St, OutI t → OutI (if sh && (t.outSize != 0 || ! t.outBuf.isEmpty) then
      { t with dropOut := t.dropOut ++ t.outBuf, outBuf := [], remote := { t.remote with wr := false },
               outSize := 0, pair := { t.pair with rd := false } } else t) := by
    intro t ht; split
    · refine ⟨?_, Or.inr ⟨rfl, rfl⟩, by simp, by simp⟩
      have := ht.eq
      simp only [List.append_assoc, List.nil_append] at this ⊢
      exact this
    · exact ht
  have c : ∀ t : St, OutI t → OutI (if ! wc && t.wasClosed then { t with pending := true } else t) := by
    intro t ht; split
    · exact ⟨ht.eq, ht.drop, ht.len, ht.size⟩
    · exact ht
  exact c _ (b _ (a _ h))


/-- fields no stage of `process_urh` writes -/
def Misc (s t : St) : Prop :=
  t.released = s.released ∧ t.loc = s.loc ∧ t.cleanReady = s.cleanReady ∧ t.pairShut = s.pairShut ∧ t.resuming = s.resuming ∧
  t.cap = s.cap

theorem Misc.trans {a b c : St} (x : Misc a b) (y : Misc b c) : Misc a c := by
  obtain ⟨x1, x2, x3, x4, x5, x6⟩ := x
  obtain ⟨y1, y2, y3, y4, y5, y6⟩ := y
  exact ⟨y1.trans x1, y2.trans x2, y3.trans x3, y4.trans x4, y5.trans x5, y6.trans x6⟩

theorem pre_misc (sh : Bool) (s : St) : Misc s (stagePre sh s) ∧ (stagePre sh s).fault = s.fault := by
  unfold stagePre
  by_cases hs : sh = true <;> by_cases hw : s.wasClosed = true <;> simp [hs, hw, Misc]

theorem tlsRecv_misc (e : Env) (s : St) : Misc s (stageTlsRecv e s) := by
  unfold stageTlsRecv
  split
  · simp only []
    split
    · split <;> simp [Misc]
    · simp [Misc]
    · split <;> simp [Misc]
    · simp [Misc]
  · simp [Misc]

theorem pairRecv_misc (wc : Bool) (e : Env) (s : St) : Misc s (stagePairRecv wc e s) := by
  unfold stagePairRecv
  split
  · simp only []
    split
    · split <;> simp [Misc]
    · simp [Misc]
    · split <;> simp [Misc]
    · simp [Misc]
  · simp [Misc]

theorem tlsSend_misc (e : Env) (s : St) : Misc s (stageTlsSend e s) ∧ (stageTlsSend e s).fault = s.fault := by
  unfold stageTlsSend
  split
  · simp only []
    split <;> (split <;> simp [Misc])
  · simp [Misc]

theorem pairSend_misc (e : Env) (s : St) : Misc s (stagePairSend e s) ∧ (stagePairSend e s).fault = s.fault := by
  unfold stagePairSend
  split
  · simp only []
    split
    · split <;> (split <;> simp [Misc])
    all_goals (split <;> simp [Misc])
  · simp [Misc]

theorem post_misc (sh wc : Bool) (s : St) : Misc s (stagePost sh wc s) ∧ (stagePost sh wc s).fault = s.fault := by
  unfold stagePost
  simp only []
  repeat' split
  all_goals simp [Misc]

/-- `process_urh` keeps both directions' invariants, stays inside its buffers, and touches
    nothing of the connection's life-cycle fields -/
theorem processUrh_inv (sh : Bool) (e : Env) (s : St) (hi : InI s) (ho : OutI s) (hf : s.fault = none) :
    InI (processUrh sh e s) ∧ OutI (processUrh sh e s) ∧ (processUrh sh e s).fault = none ∧ Misc s (processUrh sh e s) := by
  unfold processUrh
  simp only []
  have i1 := pre_in sh s hi
  have o1 := ho.of_same (pre_out sh s)
  have m1 := pre_misc sh s
  have i2 := tlsRecv_in e _ i1
  have o2 := o1.of_same (tlsRecv_out e _)
  have m2 := tlsRecv_misc e (stagePre sh s)
  have o3 := pairRecv_out (stagePre sh s).wasClosed e _ o2
  have i3 := i2.1.of_same (pairRecv_in (stagePre sh s).wasClosed e _)
  have m3 := pairRecv_misc (stagePre sh s).wasClosed e (stageTlsRecv e (stagePre sh s))
  have o4 := tlsSend_out e _ o3.1
  have i4 := i3.of_same (tlsSend_in e _)
  have m4 := tlsSend_misc e (stagePairRecv (stagePre sh s).wasClosed e (stageTlsRecv e (stagePre sh s)))
  have i5 := pairSend_in e _ i4
  have o5 := o4.of_same (pairSend_out e _)
  have m5 := pairSend_misc e (stageTlsSend e (stagePairRecv (stagePre sh s).wasClosed e (stageTlsRecv e (stagePre sh s))))
  have i6 := i5.of_same (post_in sh (stagePre sh s).wasClosed _)
  have o6 := post_out sh (stagePre sh s).wasClosed _ o5
  have m6 := post_misc sh (stagePre sh s).wasClosed (stagePairSend e (stageTlsSend e (stagePairRecv (stagePre sh s).wasClosed e (stageTlsRecv e (stagePre sh s)))))
  refine ⟨i6, o6, ?_, ?_⟩
  · rw [m6.2, m5.2, m4.2]
    exact o3.2 (i2.2 (by rw [m1.2]; exact hf))
  · exact (((((m1.1.trans m2).trans m3).trans m4.1).trans m5.1).trans m6.1)


/-! ### the invariant of all histories -/

structure Inv (s : St) : Prop where
  i : InI s
  o : OutI s
  nf : s.fault = none
  rel : s.released = (if s.loc = .suspended then 0 else 1)
  clean : s.cleanReady = true → finished s = true ∧ s.pairShut = true

theorem inv_init (cap a b : Nat) (tpc : Bool) : Inv (St.init cap a b tpc) := by
  refine ⟨⟨rfl, Or.inl rfl, by simp [St.init], by simp [St.init]⟩, ⟨rfl, Or.inl rfl, by simp [St.init], by simp [St.init]⟩, rfl, rfl, ?_⟩
  intro h; cases h

theorem finished_congr {s t : St} (a : t.inSize = s.inSize) (b : t.outSize = s.outSize) (c : t.inBuf = s.inBuf)
    (d : t.outBuf = s.outBuf) : finished t = finished s := by
  unfold finished; rw [a, b, c, d]

theorem inv_visit (sh lv : Bool) (rdy : Celi × Celi) (e : Env) (s : St) (h : Inv s) : Inv (visit sh lv rdy e s) := by
  unfold visit
  split
  · exact h
  · rename_i hc
    have hcr : s.cleanReady = false := by
      cases hx : s.cleanReady with
      | false => rfl
      | true => exact absurd (Or.inr hx) hc
    have hloc : s.loc = .suspended := by
      cases hx : s.loc <;> simp_all
    generalize hs0 : mergeReady lv rdy s = s0
    have i0 : InI s0 := by subst hs0; exact ⟨h.i.eq, h.i.drop, h.i.len, h.i.size⟩
    have o0 : OutI s0 := by subst hs0; exact ⟨h.o.eq, h.o.drop, h.o.len, h.o.size⟩
    have f0 : s0.fault = none := by subst hs0; exact h.nf
    have l0 : s0.loc = s.loc ∧ s0.released = s.released ∧ s0.cleanReady = s.cleanReady := by subst hs0; exact ⟨rfl, rfl, rfl⟩
    obtain ⟨i1, o1, f1, m1⟩ := processUrh_inv sh e s0 i0 o0 f0
    obtain ⟨m_rel, m_loc, m_cr, m_ps, m_res, m_cap⟩ := m1
    unfold afterProcess
    by_cases hfin : (finished (processUrh sh e s0) && ! (processUrh sh e s0).cleanReady) = true
    · rw [if_pos hfin]
      simp only [Bool.and_eq_true] at hfin
      refine ⟨⟨i1.eq, i1.drop, i1.len, i1.size⟩, ⟨o1.eq, o1.drop, o1.len, o1.size⟩, f1, ?_, ?_⟩
      · show (processUrh sh e s0).released = if (processUrh sh e s0).loc = .suspended then 0 else 1
        rw [m_rel, m_loc, l0.1, l0.2.1]; exact h.rel
      · intro _
        exact ⟨hfin.1, rfl⟩
    · rw [if_neg hfin]
      refine ⟨i1, o1, f1, ?_, ?_⟩
      · rw [m_rel, m_loc, l0.1, l0.2.1]; exact h.rel
      · intro hx; rw [m_cr, l0.2.2, hcr] at hx; cases hx

theorem inv_step (s : St) (op : Op) (h : Inv s) : Inv (step s op) := by
  cases op with
  | clientSend bs =>
    refine ⟨⟨?_, h.i.drop, h.i.len, h.i.size⟩, ⟨h.o.eq, h.o.drop, h.o.len, h.o.size⟩, h.nf, h.rel, h.clean⟩
    show s.toApp ++ s.dropIn ++ s.inBuf ++ (s.remoteIn ++ bs) = s.clientSent ++ bs
    rw [← h.i.eq]; simp [List.append_assoc]
  | appSend bs =>
    simp only [step]
    split
    · exact h
    · refine ⟨⟨h.i.eq, h.i.drop, h.i.len, h.i.size⟩, ⟨?_, h.o.drop, h.o.len, h.o.size⟩, h.nf, h.rel, h.clean⟩
      show s.toClient ++ s.dropOut ++ s.outBuf ++ (s.pairIn ++ bs) = s.appSent ++ bs
      rw [← h.o.eq]; simp [List.append_assoc]
  | visit lv rdy e => exact inv_visit false lv rdy e s h
  | stopVisit lv rdy e => exact inv_visit true lv rdy e s h
  | appClose =>
    simp only [step, appClose]
    split
    · exact h
    · exact ⟨⟨h.i.eq, h.i.drop, h.i.len, h.i.size⟩, ⟨h.o.eq, h.o.drop, h.o.len, h.o.size⟩, h.nf, h.rel, h.clean⟩
  | resumeScan =>
    simp only [step, resumeScan]
    split
    · rename_i hc
      split
      · refine ⟨⟨h.i.eq, h.i.drop, h.i.len, h.i.size⟩, ⟨h.o.eq, h.o.drop, h.o.len, h.o.size⟩, h.nf, ?_, h.clean⟩
        have := h.rel; rw [hc.1] at this; simp at this
        show s.released + 1 = _
        rw [this]; rfl
      · exact h
    · exact h
  | cleanup =>
    simp only [step, cleanup]
    split
    · rename_i hc
      refine ⟨⟨h.i.eq, h.i.drop, h.i.len, h.i.size⟩, ⟨h.o.eq, h.o.drop, h.o.len, h.o.size⟩, h.nf, ?_, h.clean⟩
      have := h.rel; rw [hc] at this; simp at this
      show s.released = _
      rw [this]; rfl
    · exact h

theorem inv_run (s : St) (ops : List Op) (h : Inv s) : Inv (run s ops) := by
  induction ops generalizing s with
  | nil => exact h
  | cons op ops ih => exact ih _ (inv_step s op h)

end Mhd.UpgTls
