/-
  C19 helper lemmas, part 23: what the fragment-mode event list of a fragmented message
  (`Mhd.Proofs.WSFragMsg`) says about the bytes: binary fragments (and text fragments that end
  on a character boundary) are the frame payloads; in general the fragments handed out,
  concatenated, are the message.
-/
import Mhd.Proofs.WSFragMsg
namespace Mhd.WS

/-- fragment mode: everything the application gets for a whole fragmented message -/
def msgFragEvs (op : Nat) (p0 : List UInt8) (mids : List Mid) (pn : List UInt8) : List Ev :=
  fragEv op 0x10 0 [] p0 :: fragEvs op (stepAfter op 0 p0) (fragKeep op 0 [] p0) mids ++
    [(Int.ofNat (op ||| 0x40), plOf (fragCarry op (stepAfter op 0 p0) (fragKeep op 0 [] p0) mids ++ pn),
      (fragCarry op (stepAfter op 0 p0) (fragKeep op 0 [] p0) mids ++ pn).length)]

theorem cutPl_full (d : List UInt8) : cutPl d d.length = plOf d := by
  unfold cutPl plOf
  by_cases hnb : d = []
  · rw [hnb]; simp
  · have : d.length ≠ 0 := fun hh => hnb (List.length_eq_zero_iff.mp hh)
    rw [if_neg this, if_neg hnb]
    congr 1
    apply set_same
    rw [List.getElem?_append_right (Nat.le_refl _)]
    simp

/-- a fragment that does not end inside a character (always so for binary) is handed out as
    it is, nothing is kept back -/
theorem fragEv_whole (t m u : Nat) (p : List UInt8) (h : t ≠ 1 ∨ stepAfter t u p = 0) :
    fragEv t m u [] p = (fragMark t m, plOf p, p.length) ∧ fragKeep t u [] p = [] := by
  have hc : cutLen t (stepAfter t u p) ([] ++ p) = p.length := by
    unfold cutLen
    rcases h with h | h
    · rw [if_neg h]; simp
    · rw [h]; simp [givenUtf8]
  unfold fragEv fragKeep
  rw [hc]
  simp [cutPl_full]

/-- the events of the frames in the middle when every fragment is handed out as it is -/
def plainEvs (t : Nat) : List Mid → List Ev
  | [] => []
  | .ctrl op p :: r => (Int.ofNat op, plOf p, p.length) :: plainEvs t r
  | .frag p :: r => (fragMark t 0x20, plOf p, p.length) :: plainEvs t r

theorem fragEvs_binary (t : Nat) (ht : t ≠ 1) (l : List Mid) :
    ∀ u, fragEvs t u [] l = plainEvs t l ∧ fragCarry t u [] l = [] := by
  induction l with
  | nil => intro u; exact ⟨rfl, rfl⟩
  | cons x r ih =>
    intro u
    cases x with
    | frag p =>
      obtain ⟨a, b⟩ := fragEv_whole t 0x20 u p (Or.inl ht)
      simp only [fragEvs, fragCarry, plainEvs, a, b]
      exact ⟨by rw [(ih _).1], (ih _).2⟩
    | ctrl op p =>
      simp only [fragEvs, fragCarry, plainEvs]
      exact ⟨by rw [(ih _).1], (ih _).2⟩

/-- **binary message in fragment mode**: FIRST / NEXT / LAST fragment, each with exactly the
    payload of its frame, the ping / pong frames in place -/
theorem msgFragEvs_binary (p0 : List UInt8) (mids : List Mid) (pn : List UInt8) :
    msgFragEvs 2 p0 mids pn = (0x12, plOf p0, p0.length) :: plainEvs 2 mids ++ [(0x42, plOf pn, pn.length)] := by
  obtain ⟨a, b⟩ := fragEv_whole 2 0x10 0 p0 (Or.inl (by decide))
  obtain ⟨c, d⟩ := fragEvs_binary 2 (by decide) mids (stepAfter 2 0 p0)
  unfold msgFragEvs
  rw [a, b, c, d]
  rfl

/-! ### nothing lost, nothing reordered -/

/-- the bytes an event of a data fragment hands to the application (`payload[0 .. payload_len)`);
    control frames (status < 16) do not count -/
def evBytes (e : Ev) : List UInt8 := if 16 ≤ e.1 then (e.2.1.getD []).take e.2.2 else []

def dataBytes (E : List Ev) : List UInt8 := (E.map evBytes).flatten

theorem dataBytes_cons (e : Ev) (E : List Ev) : dataBytes (e :: E) = evBytes e ++ dataBytes E := by
  simp [dataBytes]

theorem dataBytes_append (A B : List Ev) : dataBytes (A ++ B) = dataBytes A ++ dataBytes B := by
  simp [dataBytes]

theorem fragMark_ge (t m : Nat) (ht : t = 1 ∨ t = 2) (hm : m = 0x10 ∨ m = 0x20 ∨ m = 0x40) : (16 : Int) ≤ fragMark t m := by
  rcases ht with h | h <;> rcases hm with g | g | g <;> subst h g <;> decide

theorem evBytes_cut (st : Int) (hst : 16 ≤ st) (d : List UInt8) (k : Nat) (hk : k ≤ d.length) :
    evBytes (st, cutPl d k, k) = d.take k := by
  unfold evBytes cutPl
  simp only [hst, if_true]
  by_cases h0 : k = 0
  · subst h0; simp
  · rw [if_neg h0]
    simp only [Option.getD_some]
    rw [List.take_set_of_le (Nat.le_refl k), List.take_append_of_le_length hk]

theorem evBytes_whole (st : Int) (hst : 16 ≤ st) (d : List UInt8) : evBytes (st, plOf d, d.length) = d := by
  rw [← cutPl_full, evBytes_cut st hst d d.length (Nat.le_refl _), List.take_length]

theorem evBytes_frag (t m u : Nat) (ht : t = 1 ∨ t = 2) (hm : m = 0x10 ∨ m = 0x20 ∨ m = 0x40) (c p : List UInt8) :
    evBytes (fragEv t m u c p) ++ fragKeep t u c p = c ++ p := by
  unfold fragEv fragKeep
  rw [evBytes_cut _ (fragMark_ge t m ht hm) _ _ (by unfold cutLen; omega)]
  exact List.take_append_drop _ _

/-- the fragments handed out for the frames in the middle, concatenated, and what is still
    kept back are what was kept back before and the payloads of the continuation frames -/
theorem fragEvs_lossless (t : Nat) (ht : t = 1 ∨ t = 2) (l : List Mid)
    (hl : ∀ x ∈ l, ∀ op p, x = .ctrl op p → op < 16) :
    ∀ u c, dataBytes (fragEvs t u c l) ++ fragCarry t u c l = c ++ midData l := by
  induction l with
  | nil => intro u c; simp [fragEvs, fragCarry, midData, dataBytes]
  | cons x r ih =>
    intro u c
    have ihr := ih (fun y hy => hl y (List.mem_cons_of_mem _ hy))
    cases x with
    | frag p =>
      simp only [fragEvs, fragCarry, midData, dataBytes_cons]
      rw [List.append_assoc, ihr, ← List.append_assoc, evBytes_frag t 0x20 u ht (by omega) c p, List.append_assoc]
    | ctrl op p =>
      have hop : op < 16 := hl _ (List.mem_cons_self ..) op p rfl
      simp only [fragEvs, fragCarry, midData, dataBytes_cons]
      have : evBytes (Int.ofNat op, plOf p, p.length) = [] := by
        unfold evBytes
        rw [if_neg (by simp only [Int.ofNat_eq_natCast]; omega)]
      rw [this, List.nil_append, ihr]

/-- **fragment mode is lossless**: the payloads of the FIRST / NEXT / LAST fragment events,
    concatenated in order, are the concatenation of the frame payloads — also when fragment
    boundaries fall inside multi-byte characters and bytes are moved to the next fragment -/
theorem msgFragEvs_lossless (op : Nat) (hop : op = 1 ∨ op = 2) (p0 : List UInt8) (mids : List Mid) (pn : List UInt8)
    (hl : ∀ x ∈ mids, ∀ c p, x = .ctrl c p → c < 16) :
    dataBytes (msgFragEvs op p0 mids pn) = p0 ++ midData mids ++ pn := by
  unfold msgFragEvs
  have h40 : (16 : Int) ≤ Int.ofNat (op ||| 0x40) := fragMark_ge op 0x40 hop (by omega)
  rw [dataBytes_append, dataBytes_cons, dataBytes_cons, evBytes_whole _ h40]
  have h1 := evBytes_frag op 0x10 0 hop (by omega) [] p0
  have h2 := fragEvs_lossless op hop mids hl (stepAfter op 0 p0) (fragKeep op 0 [] p0)
  have h3 : dataBytes [] = [] := rfl
  rw [h3, List.append_nil, ← List.append_assoc, List.append_assoc (evBytes _), h2, ← List.append_assoc, h1]
  simp

end Mhd.WS
