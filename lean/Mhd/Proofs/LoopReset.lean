/-
  C06 — proofs, part 9: the end of handle_idle after a completely sent reply on a kept-alive connection
  (Mhd.Model.LoopReset): bytes of the next request that are already buffered are examined in the same call.
-/
import Mhd.Model.LoopReset
import Mhd.Proofs.LoopHist
namespace Mhd.Loop
open Mhd.Gen.Loop

/-- buffered input the parser has not looked at is work that needs no network input -/
def needsBuf (l : Local Bool) : Bool := l.w || l.eli.hasProcess

theorem tableEli_w (l : Local Bool) : (tableEli l).w = l.w := by
  unfold tableEli; split
  · rfl
  · split
    · rfl
    · split <;> rfl

theorem tableEli_st (l : Local Bool) : (tableEli l).st = l.st := by
  unfold tableEli; split
  · rfl
  · split
    · rfl
    · split <;> rfl

/-- with `continue` no unexamined input is left behind, whatever was buffered and wherever the parser gets -/
theorem replySent_examined (parse : Local Bool → Nat) (l : Local Bool) : (replySentIdleWith true parse l).w = false := by
  unfold replySentIdleWith
  simp only [if_true]
  rw [tableEli_w]
  unfold examineLoc
  cases h : (resetLoc l).w
  · simp [h]
  · simp [h]

/-- hence the step is in sync for `needsBuf`: work pending ⇒ PROCESS state -/
theorem replySent_sync (parse : Local Bool → Nat) (l : Local Bool) (h : needsBuf (replySentIdleWith true parse l) = true) :
    (replySentIdleWith true parse l).eli.hasProcess = true := by
  unfold needsBuf at h
  rw [replySent_examined] at h
  simpa using h

/-- without it: INIT, READ, the buffered request still unexamined -/
theorem replySent_break (parse : Local Bool → Nat) (l : Local Bool) (hb : l.w = true) :
    (replySentIdleWith false parse l).st = stInit ∧ (replySentIdleWith false parse l).eli = .read ∧
    (replySentIdleWith false parse l).w = true := by
  have hi : stInit ∉ writeStates ∧ stInit ∉ processStates ∧ stInit ∈ readStates := by decide
  unfold replySentIdleWith
  simp only [Bool.false_eq_true, if_false]
  refine ⟨by rw [tableEli_st]; rfl, ?_, by rw [tableEli_w]; exact hb⟩
  unfold tableEli
  have : (resetLoc l).st = stInit := rfl
  rw [this, if_neg hi.1, if_neg hi.2.1, if_pos hi.2.2]

end Mhd.Loop

