/-
  C11 — invariants of the daemon model (Mhd.Model.SuspDaemon) over every history:

  * `WF`: the lists and the per-connection flags agree (a connection is in the suspended list
    iff its `suspended` flag is set, never in the active / eready / timeout lists at the same
    time), and no resume request is lost (`suspended ∧ resuming ⇒ daemon->resuming`);
    preserved by every operation (`WK_step`, `run_WF`);
  * `QD`: the quietness monitor of Mhd.Proofs.SuspRel lifted to the projections of the
    daemon's event log (`run_QD`).
-/
import Mhd.Proofs.SuspRel
namespace Mhd.Susp

/-! ### projections of the event log -/

def proj (c : Nat) (evs : List Ev) : List CEv := (evs.filter (fun e => e.1 == c)).map (·.2)

@[simp] theorem proj_nil (c : Nat) : proj c [] = [] := rfl
@[simp] theorem proj_append (c : Nat) (a b : List Ev) : proj c (a ++ b) = proj c a ++ proj c b := by
  simp [proj]
@[simp] theorem proj_tag_same (c : Nat) (evs : List CEv) : proj c (tag c evs) = evs := by
  induction evs with
  | nil => rfl
  | cons e r ih => simp [proj, tag] at *; exact ih
theorem proj_tag_ne {a c : Nat} (h : a ≠ c) (evs : List CEv) : proj c (tag a evs) = [] := by
  induction evs with
  | nil => rfl
  | cons e r ih => simp [proj, tag, h]
@[simp] theorem proj_cons_same (c : Nat) (e : CEv) (r : List Ev) : proj c ((c, e) :: r) = e :: proj c r := by
  simp [proj]
theorem proj_cons_ne {a c : Nat} (h : a ≠ c) (e : CEv) (r : List Ev) : proj c ((a, e) :: r) = proj c r := by
  simp [proj, h]

@[simp] theorem setConn_same (f : Nat → Conn) (c : Nat) (k : Conn) : setConn f c k c = k := by simp [setConn]
theorem setConn_ne (f : Nat → Conn) {a c : Nat} (k : Conn) (h : c ≠ a) : setConn f a k c = f c := by
  simp [setConn, h]

/-! ### daemon-level composition -/

structure DRel (P : Daemon → List Ev → Daemon → Prop) : Prop where
  refl : ∀ d, P d [] d
  trans : ∀ d e1 d1 e2 d2, P d e1 d1 → P d1 e2 d2 → P d (e1 ++ e2) d2

def DSat (P : Daemon → List Ev → Daemon → Prop) (f : Daemon → Daemon × List Ev) : Prop :=
  ∀ d, P d (f d).2 (f d).1

@[simp] theorem sync_conn (d : Daemon) (c : Nat) : (sync d c).conn = d.conn := by
  unfold sync; simp only []; split <;> split <;> (try split) <;> rfl

end Mhd.Susp

namespace Mhd.Susp

def AllRdOK (g : Guards) (d : Daemon) : Prop := ∀ c, RdOK g (d.conn c)

/-- quietness of every connection's projection across a daemon-level step -/
def QD (g : Guards) (d : Daemon) (evs : List Ev) (d' : Daemon) : Prop :=
  AllRdOK g d → (∀ c, quietFrom (d.conn c).suspended (proj c evs) = some (d'.conn c).suspended) ∧ AllRdOK g d'

theorem QD_rel (g : Guards) : DRel (QD g) where
  refl := by intro d h; exact ⟨fun c => by simp [quietFrom], h⟩
  trans := by
    intro d e1 d1 e2 d2 h1 h2 hd
    have a := h1 hd
    have b := h2 a.2
    refine ⟨fun c => ?_, b.2⟩
    rw [proj_append, quietFrom_append, a.1 c]
    simpa using b.1 c

/-- a step that emits nothing and keeps `suspended` and `plan` of every connection -/
theorem QD_silent (g : Guards) {d d' : Daemon} (h : ∀ c, (d'.conn c).suspended = (d.conn c).suspended ∧ (d'.conn c).script = (d.conn c).script) :
    QD g d [] d' := by
  intro hd
  refine ⟨fun c => by simp [quietFrom, (h c).1], fun c => ?_⟩
  have := hd c
  unfold RdOK at *
  rw [(h c).2]; exact this

def clearDres (k : Conn) : Conn := { k with dres := false }

theorem turnWith_conn (f : Conn → Conn × List CEv) (d : Daemon) (a : Nat) :
    (turnWith f d a).1.conn = setConn d.conn a (f (clearDres (d.conn a))).1 := by
  simp [turnWith, clearDres]
theorem turnWith_evs (f : Conn → Conn × List CEv) (d : Daemon) (a : Nat) :
    (turnWith f d a).2 = tag a (f (clearDres (d.conn a))).2 := by
  simp [turnWith, clearDres]

theorem QD_turnWith (g : Guards) (f : Conn → Conn × List CEv) (hf : Sat (QRP g) f) (a : Nat) :
    DSat (QD g) (fun d => turnWith f d a) := by
  intro d hd
  simp only [turnWith_conn, turnWith_evs]
  have h0 : RdOK g (clearDres (d.conn a)) := hd a
  have hq := hf _ h0
  refine ⟨fun c => ?_, fun c => ?_⟩
  · by_cases hc : c = a
    · subst hc; simp only [proj_tag_same, setConn_same]; exact hq.1
    · rw [proj_tag_ne (Ne.symm hc), setConn_ne _ _ hc]; simp [quietFrom]
  · rw [turnWith_conn]
    by_cases hc : c = a
    · subst hc; simp only [setConn_same]; exact RdOK_of_FrS hq.2 h0
    · rw [setConn_ne _ _ hc]; exact hd c

end Mhd.Susp

namespace Mhd.Susp

/-- a step that changes the record of one connection `a` and emits `evs` for it -/
theorem QD_one (g : Guards) (d d' : Daemon) (a : Nat) (k' : Conn) (evs : List CEv)
    (hconn : d'.conn = setConn d.conn a k')
    (hq : quietFrom (d.conn a).suspended evs = some k'.suspended) (hp : k'.script = (d.conn a).script) :
    QD g d (tag a evs) d' := by
  intro hd
  refine ⟨fun c => ?_, fun c => ?_⟩
  · rw [hconn]
    by_cases hc : c = a
    · subst hc; simpa using hq
    · rw [proj_tag_ne (Ne.symm hc), setConn_ne _ _ hc]; simp [quietFrom]
  · rw [hconn]
    by_cases hc : c = a
    · subst hc
      have := hd c
      unfold RdOK at *
      simp only [setConn_same]; rw [hp]; exact this
    · rw [setConn_ne _ _ hc]; exact hd c

theorem QD_resumeReq (g : Guards) (a : Nat) : DSat (QD g) (fun d => resumeReq d a) := by
  intro d
  exact QD_one g d _ a _ [.resumeReq] rfl (by simp [quietFrom]) rfl

theorem QD_moveBack (g : Guards) (d : Daemon) (a : Nat) : QD g d [(a, .resumed)] (moveBack g d a) := by
  have : [(a, CEv.resumed)] = tag a [.resumed] := rfl
  rw [this]
  refine QD_one g d _ a _ [.resumed] rfl ?_ ?_
  · simp only [quietFrom, qstep_resumed, Option.bind_some]; split <;> rfl
  · simp only []; split <;> rfl

theorem QD_resumeScan (g : Guards) : ∀ (l : List Nat) (d : Daemon), QD g d (resumeScan g l d).2 (resumeScan g l d).1 := by
  intro l
  induction l with
  | nil => intro d; exact (QD_rel g).refl d
  | cons c rest ih =>
    intro d
    simp only [resumeScan]
    split
    · exact (QD_rel g).trans _ _ _ _ _ (QD_moveBack g d c) (ih _)
    · exact ih d

theorem QD_resumeSuspended (g : Guards) : DSat (QD g) (resumeSuspended g) := by
  intro d
  simp only [resumeSuspended]
  split
  · have h : QD g d [] { d with resuming := false } := QD_silent g (fun c => ⟨rfl, rfl⟩)
    have := (QD_rel g).trans _ _ _ _ _ h (QD_resumeScan g d.susp.reverse { d with resuming := false })
    simpa using this
  · exact (QD_rel g).refl d

theorem QD_timerScan (g : Guards) : ∀ (l : List Nat) (d : Daemon), QD g d (timerScan l d).2 (timerScan l d).1 := by
  intro l
  induction l with
  | nil => intro d; exact (QD_rel g).refl d
  | cons c rest ih =>
    intro d
    simp only [timerScan]
    split
    · have h1 : QD g d [] { d with conn := setConn d.conn c { (d.conn c) with timer := none } } := by
        have := QD_one g d { d with conn := setConn d.conn c { (d.conn c) with timer := none } } c _ [] rfl
          (by simp [quietFrom]) rfl
        simpa [tag] using this
      have h2 := QD_resumeReq g c { d with conn := setConn d.conn c { (d.conn c) with timer := none } }
      have h12 := (QD_rel g).trans _ _ _ _ _ h1 h2
      have := (QD_rel g).trans _ _ _ _ _ h12 (ih _)
      simpa using this
    · next n _ =>
      have h1 : QD g d [] { d with conn := setConn d.conn c { (d.conn c) with timer := some n } } := by
        have := QD_one g d { d with conn := setConn d.conn c { (d.conn c) with timer := some n } } c _ [] rfl
          (by simp [quietFrom]) rfl
        simpa [tag] using this
      have := (QD_rel g).trans _ _ _ _ _ h1 (ih _)
      simpa using this
    · exact ih d

theorem QD_processNew (g : Guards) : ∀ (l : List Nat) (d : Daemon), QD g d (processNew l d).2 (processNew l d).1 := by
  intro l
  induction l with
  | nil => intro d; exact QD_silent g (fun c => ⟨rfl, rfl⟩)
  | cons c rest ih =>
    intro d
    simp only [processNew]
    have h1 : QD g d [(c, .connStart)]
        { d with conn := setConn d.conn c { (d.conn c) with eli := .read, inSet := d.isEpoll },
                 active := c :: d.active, normalTO := c :: d.normalTO } := by
      have : [(c, CEv.connStart)] = tag c [.connStart] := rfl
      rw [this]
      exact QD_one g d _ c _ [.connStart] rfl (by simp [quietFrom]) rfl
    exact (QD_rel g).trans _ _ _ _ _ h1 (ih _)

end Mhd.Susp

namespace Mhd.Susp

theorem QRP_callHandlers (g : Guards) (hg : g.Sound) (ep rr wr : Bool) :
    Sat (QRP g) (fun k => callHandlers g ep k rr wr) := by
  obtain ⟨h1, _, _, h4, h5, _, h7, h8⟩ := hg
  exact sat_callHandlers (QRP_rel g) (g := g) (ep := ep)
    (fun k _ => ⟨QR_handleRead g h4 k, Fr_handleRead g k⟩)
    (fun k hk => ⟨QR_handleWrite g h5 k hk.cur, Fr_handleWrite g h8 k⟩)
    (fun k _ => ⟨QR_handleIdle g h1 h7 ep k, Fr_handleIdle g h8 ep k⟩) rr wr

theorem QRP_handleIdle (g : Guards) (hg : g.Sound) (ep : Bool) : Sat (QRP g) (handleIdle g ep) := by
  obtain ⟨h1, _, _, _, _, _, h7, h8⟩ := hg
  exact fun k _ => ⟨QR_handleIdle g h1 h7 ep k, Fr_handleIdle g h8 ep k⟩

theorem QD_turn (g : Guards) (hg : g.Sound) (d : Daemon) (c : Nat) (rr wr : Bool) :
    QD g d (turn g d c rr wr).2 (turn g d c rr wr).1 :=
  QD_turnWith g _ (QRP_callHandlers g hg d.isEpoll rr wr) c d

theorem QD_idleTurn (g : Guards) (hg : g.Sound) (d : Daemon) (c : Nat) :
    QD g d (idleTurn g d c).2 (idleTurn g d c).1 :=
  QD_turnWith g _ (QRP_handleIdle g hg d.isEpoll) c d

theorem QD_travSelect (g : Guards) (hg : g.Sound) (fr fw rd wr : Nat → Bool) :
    ∀ (l : List Nat) (d : Daemon), QD g d (travSelect g fr fw rd wr l d).2 (travSelect g fr fw rd wr l d).1 := by
  intro l
  induction l with
  | nil => intro d; exact (QD_rel g).refl d
  | cons c rest ih =>
    intro d
    simp only [travSelect]
    split
    · exact QD_turn g hg d c _ _
    · exact (QD_rel g).trans _ _ _ _ _ (QD_turn g hg d c _ _) (ih _)

theorem QD_travAll (g : Guards) (hg : g.Sound) (fr fw rd wr : Nat → Bool) :
    ∀ (l : List Nat) (d : Daemon), QD g d (travAll g fr fw rd wr l d).2 (travAll g fr fw rd wr l d).1 := by
  intro l
  induction l with
  | nil => intro d; exact (QD_rel g).refl d
  | cons c rest ih =>
    intro d
    simp only [travAll]
    exact (QD_rel g).trans _ _ _ _ _ (QD_turn g hg d c _ _) (ih _)

theorem epollMark_susp (k : Conn) (i o : Bool) : (epollMark k i o).suspended = k.suspended := by
  cases i <;> cases o <;> rfl
theorem epollMark_plan (k : Conn) (i o : Bool) : (epollMark k i o).script = k.script := by
  cases i <;> cases o <;> rfl

theorem QD_epollEvents (g : Guards) : ∀ (l : List (Nat × Bool × Bool)) (d : Daemon), QD g d [] (epollEvents l d) := by
  intro l
  induction l with
  | nil => intro d; exact (QD_rel g).refl d
  | cons e rest ih =>
    intro d
    obtain ⟨c, i, o⟩ := e
    simp only [epollEvents]
    split
    · exact ih d
    · have h1 := QD_one g d (sync { d with conn := setConn d.conn c (epollMark (d.conn c) i o) } c) c _ []
        (by rw [sync_conn]) (by simp [quietFrom, epollMark_susp]) (epollMark_plan _ i o)
      have := (QD_rel g).trans _ _ _ _ _ h1 (ih _)
      simpa [tag] using this

theorem QD_ereadyPost (g : Guards) (d : Daemon) (c : Nat) : QD g d [] (ereadyPost d c) := by
  simp only [ereadyPost]
  split
  · have := QD_one g d (sync { d with conn := setConn d.conn c { (d.conn c) with inEready := false } } c) c
      { (d.conn c) with inEready := false } [] (by rw [sync_conn]) (by simp [quietFrom]) rfl
    simpa [tag] using this
  · exact (QD_rel g).refl d

theorem QD_travEready (g : Guards) (hg : g.Sound) :
    ∀ (l : List Nat) (d : Daemon), QD g d (travEready g l d).2 (travEready g l d).1 := by
  intro l
  induction l with
  | nil => intro d; exact (QD_rel g).refl d
  | cons c rest ih =>
    intro d
    simp only [travEready]
    have h1 := QD_turn g hg d c (d.conn c).readReady (d.conn c).writeReady
    have h2 := QD_ereadyPost g (turn g d c (d.conn c).readReady (d.conn c).writeReady).1 c
    have h12 := (QD_rel g).trans _ _ _ _ _ h1 h2
    have := (QD_rel g).trans _ _ _ _ _ h12 (ih _)
    simpa using this

theorem dsat_bindD {P} (hP : DRel P) {f : Daemon → Daemon × List Ev} (hf : DSat P f) {d0 : Daemon}
    {r : Daemon × List Ev} (hr : P d0 r.2 r.1) : P d0 (bindD f r).2 (bindD f r).1 := by
  simp only [bindD]; exact hP.trans _ _ _ _ _ hr (hf r.1)

theorem QD_newPhase (g : Guards) : DSat (QD g) newPhase := by
  intro d
  simp only [newPhase]
  have h3 : QD g d [] { d with pending := false } := QD_silent g (fun c => ⟨rfl, rfl⟩)
  have := (QD_rel g).trans _ _ _ _ _ h3 (QD_processNew g d.newConns { d with pending := false })
  simpa using this

theorem QD_timers (g : Guards) (ids : List Nat) (d : Daemon) : QD g d (timers d ids).2 (timers d ids).1 :=
  QD_timerScan g ids d

theorem QD_roundSelect (g : Guards) (hg : g.Sound) (ids : List Nat) (rd wr : Nat → Bool) :
    DSat (QD g) (fun d => roundSelect g d ids rd wr) := by
  intro d
  simp only [roundSelect]
  refine dsat_bindD (QD_rel g) (fun d => QD_travSelect g hg _ _ rd wr _ d) ?_
  refine dsat_bindD (QD_rel g) (QD_newPhase g) ?_
  exact dsat_bindD (QD_rel g) (QD_resumeSuspended g) (QD_timers g ids d)

theorem QD_pollPhase (g : Guards) (hg : g.Sound) (rd wr : Nat → Bool) : DSat (QD g) (pollPhase g rd wr) := by
  intro d
  simp only [pollPhase]
  exact dsat_bindD (QD_rel g) (fun d => QD_travAll g hg _ _ rd wr _ d) (QD_newPhase g d)

theorem QD_roundPoll (g : Guards) (hg : g.Sound) (ids : List Nat) (rd wr : Nat → Bool) :
    DSat (QD g) (fun d => roundPoll g d ids rd wr) := by
  intro d
  simp only [roundPoll]
  refine dsat_bindD (QD_rel g) (QD_pollPhase g hg rd wr) ?_
  exact dsat_bindD (QD_rel g) (QD_resumeSuspended g) (QD_timers g ids d)

theorem QD_timeoutScan (g : Guards) (hg : g.Sound) : DSat (QD g) (timeoutScan g) := by
  intro d
  simp only [timeoutScan]
  split
  · exact QD_idleTurn g hg d _
  · exact (QD_rel g).refl d

theorem QD_roundEpoll (g : Guards) (hg : g.Sound) (ids : List Nat) (evs : List (Nat × Bool × Bool)) :
    DSat (QD g) (fun d => roundEpoll g d ids evs) := by
  intro d
  simp only [roundEpoll]
  refine dsat_bindD (QD_rel g) (fun d => QD_travEready g hg _ d) ?_
  refine dsat_bindD (QD_rel g) (QD_timeoutScan g hg) ?_
  refine dsat_bindD (QD_rel g) (QD_newPhase g) ?_
  refine dsat_bindD (QD_rel g) ?_ ?_
  · intro d
    simp only [pureD]
    have h3 : QD g d [] { d with pending := false } := QD_silent g (fun c => ⟨rfl, rfl⟩)
    have := (QD_rel g).trans _ _ _ _ _ h3 (QD_epollEvents g evs { d with pending := false })
    simpa using this
  · exact dsat_bindD (QD_rel g) (QD_resumeSuspended g) (QD_timers g ids d)

end Mhd.Susp

namespace Mhd.Susp

/-- consistency of the daemon's lists with the per-connection flags -/
structure WF (d : Daemon) : Prop where
  susp_iff : ∀ c, (d.conn c).suspended = true ↔ c ∈ d.susp
  act_nosusp : ∀ c, c ∈ d.active → c ∉ d.susp
  nd_active : d.active.Nodup
  nd_susp : d.susp.Nodup
  er_sub : ∀ c, c ∈ d.eready → c ∈ d.active
  to_sub : ∀ c, c ∈ d.normalTO → c ∈ d.active
  new_fresh : ∀ c, c ∈ d.newConns → c ∉ d.active ∧ c ∉ d.susp
  nd_new : d.newConns.Nodup
  nd_eready : d.eready.Nodup
  nd_to : d.normalTO.Nodup
  /-- no resume request is lost: a suspended connection with `resuming` set ⇒ `daemon->resuming` -/
  no_lost : ∀ c, (d.conn c).suspended = true → (d.conn c).resuming = true → d.resuming = true

def WFD (d : Daemon) (_ : List Ev) (d' : Daemon) : Prop := WF d → WF d'

theorem WFD_rel : DRel WFD where
  refl := fun _ h => h
  trans := fun _ _ _ _ _ h1 h2 h => h2 (h1 h)

theorem WF_init (m : Mode) (plans : Nat → Plan) (later : Nat → List Plan := fun _ => []) : WF (Daemon.init m plans later) := by
  constructor <;> simp [Daemon.init]

/-- updating fields of one record that the invariant does not look at -/
theorem WF_setConn_same_flags {d : Daemon} (h : WF d) (c : Nat) (k : Conn)
    (hs : k.suspended = (d.conn c).suspended) (hr : k.resuming = true → (d.conn c).resuming = true ∨ d.resuming = true) :
    WF { d with conn := setConn d.conn c k } := by
  constructor
  · intro a
    by_cases ha : a = c
    · subst ha; simp only [setConn_same]; rw [hs]; exact h.susp_iff a
    · simp only [setConn_ne _ _ ha]; exact h.susp_iff a
  · exact h.act_nosusp
  · exact h.nd_active
  · exact h.nd_susp
  · exact h.er_sub
  · exact h.to_sub
  · exact h.new_fresh
  · exact h.nd_new
  · exact h.nd_eready
  · exact h.nd_to
  · intro a
    by_cases ha : a = c
    · subst ha; simp only [setConn_same]; rw [hs]
      intro h1 h2
      rcases hr h2 with h3 | h3
      · exact h.no_lost a h1 h3
      · exact h3
    · simp only [setConn_ne _ _ ha]; exact h.no_lost a

theorem WF_resumeReq {d : Daemon} (h : WF d) (c : Nat) : WF (resumeReq d c).1 := by
  simp only [resumeReq]
  constructor
  · intro a
    by_cases ha : a = c
    · subst ha; simp only [setConn_same]; exact h.susp_iff a
    · simp only [setConn_ne _ _ ha]; exact h.susp_iff a
  · exact h.act_nosusp
  · exact h.nd_active
  · exact h.nd_susp
  · exact h.er_sub
  · exact h.to_sub
  · exact h.new_fresh
  · exact h.nd_new
  · exact h.nd_eready
  · exact h.nd_to
  · intros; rfl

end Mhd.Susp

namespace Mhd.Susp

def Known (d : Daemon) (a : Nat) : Prop := a ∈ d.active ∨ a ∈ d.susp

theorem WF.unsusp_of_active {d : Daemon} (h : WF d) {c : Nat} (hc : c ∈ d.active) : (d.conn c).suspended = false := by
  have := h.act_nosusp c hc
  cases hs : (d.conn c).suspended with
  | false => rfl
  | true => exact absurd ((h.susp_iff c).1 hs) this

theorem WF_turnWith (f : Conn → Conn × List CEv) (hf : ∀ k, FrS k (f k).1)
    (hfs : ∀ k, k.suspended = true → f k = (k, [])) {d : Daemon} (h : WF d) {c : Nat} (hc : Known d c) :
    WF (turnWith f d c).1 ∧ (∀ a, Known d a → Known (turnWith f d c).1 a) := by
  rcases hc with hca | hcs
  · -- an active connection gets its turn
    have hk : (d.conn c).suspended = false := h.unsusp_of_active hca
    have hns : c ∉ d.susp := h.act_nosusp c hca
    have hfr := hf (clearDres (d.conn c))
    generalize hk' : (f (clearDres (d.conn c))).1 = k' at hfr
    have hd1 : (turnWith f d c).1 = sync { d with conn := setConn d.conn c k', resuming := d.resuming || k'.dres, pending := d.pending || k'.eli.hasProcess } c := by
      simp only [turnWith]; rw [← hk']; rfl
    rw [hd1]
    by_cases hs' : k'.suspended = true
    · -- it suspended itself: moved to the suspended list
      have hsync : sync { d with conn := setConn d.conn c k', resuming := d.resuming || k'.dres, pending := d.pending || k'.eli.hasProcess } c =
          { d with conn := setConn d.conn c k', resuming := d.resuming || k'.dres, pending := d.pending || k'.eli.hasProcess, active := d.active.erase c, susp := c :: d.susp, normalTO := d.normalTO.erase c, eready := d.eready.erase c } := by
        have e1 : c ∉ d.active.erase c := by simp [h.nd_active.mem_erase_iff]
        have e2 : c ∉ d.eready.erase c := by simp [h.nd_eready.mem_erase_iff]
        simp [sync, hs', hca, e1, e2]
      rw [hsync]
      refine ⟨?_, ?_⟩
      · constructor
        · intro a
          by_cases ha : a = c
          · subst ha; simp [hs']
          · simp only [setConn_ne _ _ ha, List.mem_cons, ha, false_or]; exact h.susp_iff a
        · intro a ha
          have := (h.nd_active.mem_erase_iff).1 ha
          simp only [List.mem_cons, not_or]
          exact ⟨this.1, h.act_nosusp a this.2⟩
        · exact h.nd_active.erase c
        · exact List.nodup_cons.2 ⟨hns, h.nd_susp⟩
        · intro a ha
          have := (h.nd_eready.mem_erase_iff).1 ha
          exact (h.nd_active.mem_erase_iff).2 ⟨this.1, h.er_sub a this.2⟩
        · intro a ha
          have := (h.nd_to.mem_erase_iff).1 ha
          exact (h.nd_active.mem_erase_iff).2 ⟨this.1, h.to_sub a this.2⟩
        · intro a ha
          have hn := h.new_fresh a ha
          refine ⟨fun hm => hn.1 (List.mem_of_mem_erase hm), ?_⟩
          simp only [List.mem_cons, not_or]
          exact ⟨fun e => hn.1 (e ▸ hca), hn.2⟩
        · exact h.nd_new
        · exact h.nd_eready.erase c
        · exact h.nd_to.erase c
        · intro a
          by_cases ha : a = c
          · subst ha
            simp only [setConn_same]
            intro h1 h2
            rcases hfr.2.2.1 h1 h2 with h3 | h3
            · simp [clearDres, hk] at h3
            · simp [h3]
          · simp only [setConn_ne _ _ ha]
            intro h1 h2
            simp [h.no_lost a h1 h2]
      · intro a ha
        by_cases hac : a = c
        · subst hac; exact Or.inr (List.mem_cons_self)
        · rcases ha with ha | ha
          · exact Or.inl ((List.mem_erase_of_ne hac).2 ha)
          · exact Or.inr (List.mem_cons_of_mem _ ha)
    · -- still active: only the eready membership may change
      have hs'' : k'.suspended = false := by simpa using hs'
      have base : WF { d with conn := setConn d.conn c k', resuming := d.resuming || k'.dres, pending := d.pending || k'.eli.hasProcess } := by
        constructor
        · intro a
          by_cases ha : a = c
          · subst ha; simp only [setConn_same, hs'']; simp [hns]
          · simp only [setConn_ne _ _ ha]; exact h.susp_iff a
        · exact h.act_nosusp
        · exact h.nd_active
        · exact h.nd_susp
        · exact h.er_sub
        · exact h.to_sub
        · exact h.new_fresh
        · exact h.nd_new
        · exact h.nd_eready
        · exact h.nd_to
        · intro a
          by_cases ha : a = c
          · subst ha; simp [hs'']
          · simp only [setConn_ne _ _ ha]
            intro h1 h2
            simp [h.no_lost a h1 h2]
      generalize hd1' : ({ d with conn := setConn d.conn c k', resuming := d.resuming || k'.dres, pending := d.pending || k'.eli.hasProcess } : Daemon) = d1 at base
      have hact : d1.active = d.active := by rw [← hd1']
      have hsusp : d1.susp = d.susp := by rw [← hd1']
      have hks : (d1.conn c).suspended = false := by
        rw [← hd1']; show (setConn d.conn c k' c).suspended = false
        rw [setConn_same]; exact hs''
      refine ⟨?_, ?_⟩
      · unfold sync
        simp only [hks, Bool.false_and, Bool.false_eq_true, if_false]
        split
        · next hcond =>
          simp only [Bool.and_eq_true, Bool.not_eq_true', List.contains_iff_mem] at hcond
          have hne : c ∉ d1.eready := by
            intro hm; have := List.contains_iff_mem.2 hm; rw [hcond.1.2] at this; exact Bool.noConfusion this
          exact { base with
            er_sub := by
              intro a ha
              rcases List.mem_cons.1 ha with e | e
              · rw [e, hact]; exact hca
              · exact base.er_sub a e
            nd_eready := List.nodup_cons.2 ⟨hne, base.nd_eready⟩ }
        · split
          · exact { base with
              er_sub := fun a ha => base.er_sub a (List.mem_of_mem_erase ha)
              nd_eready := base.nd_eready.erase c }
          · exact base
      · intro a ha
        have : (sync d1 c).active = d1.active ∧ (sync d1 c).susp = d1.susp := by
          unfold sync
          simp only [hks, Bool.false_and, Bool.false_eq_true, if_false]
          split
          · exact ⟨rfl, rfl⟩
          · split <;> exact ⟨rfl, rfl⟩
        unfold Known
        rw [this.1, this.2, hact, hsusp]; exact ha
  · -- a suspended connection: the turn does nothing
    have hk : (d.conn c).suspended = true := (h.susp_iff c).2 hcs
    have hnact : c ∉ d.active := fun hm => h.act_nosusp c hm hcs
    have hfk : f (clearDres (d.conn c)) = (clearDres (d.conn c), []) := hfs _ (by simpa [clearDres] using hk)
    have hd1 : (turnWith f d c).1 = sync { d with conn := setConn d.conn c (clearDres (d.conn c)), resuming := d.resuming || false, pending := d.pending || (d.conn c).eli.hasProcess } c := by
      simp only [turnWith]
      have : f { (d.conn c) with dres := false } = (clearDres (d.conn c), []) := hfk
      rw [this]; rfl
    have hner : c ∉ d.eready := fun hm => hnact (h.er_sub c hm)
    have hsync : sync { d with conn := setConn d.conn c (clearDres (d.conn c)), resuming := d.resuming || false, pending := d.pending || (d.conn c).eli.hasProcess } c =
        { d with conn := setConn d.conn c (clearDres (d.conn c)), resuming := d.resuming || false, pending := d.pending || (d.conn c).eli.hasProcess } := by
      simp [sync, hnact, hner]
    rw [hd1, hsync]
    refine ⟨?_, fun a ha => ha⟩
    have := WF_setConn_same_flags h c (clearDres (d.conn c)) rfl (fun hr => Or.inl hr)
    constructor
    · exact this.susp_iff
    · exact this.act_nosusp
    · exact this.nd_active
    · exact this.nd_susp
    · exact this.er_sub
    · exact this.to_sub
    · exact this.new_fresh
    · exact this.nd_new
    · exact this.nd_eready
    · exact this.nd_to
    · intro a h1 h2
      have := this.no_lost a h1 h2
      simpa using this

end Mhd.Susp

namespace Mhd.Susp

/-- the invariant is kept and no connection gets lost from the lists -/
def WK (d : Daemon) (_ : List Ev) (d' : Daemon) : Prop := WF d → WF d' ∧ ∀ a, Known d a → Known d' a

theorem WK_rel : DRel WK where
  refl := fun _ h => ⟨h, fun _ ha => ha⟩
  trans := by
    intro d e1 d1 e2 d2 h1 h2 h
    have a := h1 h
    have b := h2 a.1
    exact ⟨b.1, fun x hx => b.2 x (a.2 x hx)⟩

theorem FrS_callHandlers (g : Guards) (hg : g.Sound) (ep rr wr : Bool) (k : Conn) : FrS k (callHandlers g ep k rr wr).1 :=
  Fr_callHandlers g hg.2.2.2.2.2.2.2 ep rr wr k

theorem WK_turn (g : Guards) (hg : g.Sound) (d : Daemon) (c : Nat) (rr wr : Bool) (hc : Known d c) :
    WK d (turn g d c rr wr).2 (turn g d c rr wr).1 := by
  intro h
  exact WF_turnWith _ (FrS_callHandlers g hg d.isEpoll rr wr) (callHandlers_suspended g hg d.isEpoll rr wr) h hc

theorem WK_idleTurn (g : Guards) (hg : g.Sound) (d : Daemon) (c : Nat) (hc : Known d c) :
    WK d (idleTurn g d c).2 (idleTurn g d c).1 := by
  intro h
  exact WF_turnWith _ (Fr_handleIdle g hg.2.2.2.2.2.2.2 d.isEpoll) (handleIdle_suspended g hg d.isEpoll) h hc

theorem WK_travSelect (g : Guards) (hg : g.Sound) (fr fw rd wr : Nat → Bool) :
    ∀ (l : List Nat) (d : Daemon), (∀ a ∈ l, Known d a) →
      WK d (travSelect g fr fw rd wr l d).2 (travSelect g fr fw rd wr l d).1 := by
  intro l
  induction l with
  | nil => intro d _; exact WK_rel.refl d
  | cons c rest ih =>
    intro d hl
    simp only [travSelect]
    have h1 := WK_turn g hg d c (fr c && rd c) (fw c && wr c) (hl c (List.mem_cons_self))
    split
    · exact h1
    · intro h
      have a := h1 h
      have b := ih _ (fun x hx => a.2 x (hl x (List.mem_cons_of_mem _ hx))) a.1
      exact ⟨b.1, fun x hx => b.2 x (a.2 x hx)⟩

theorem WK_travAll (g : Guards) (hg : g.Sound) (fr fw rd wr : Nat → Bool) :
    ∀ (l : List Nat) (d : Daemon), (∀ a ∈ l, Known d a) →
      WK d (travAll g fr fw rd wr l d).2 (travAll g fr fw rd wr l d).1 := by
  intro l
  induction l with
  | nil => intro d _; exact WK_rel.refl d
  | cons c rest ih =>
    intro d hl
    simp only [travAll]
    have h1 := WK_turn g hg d c (fr c && rd c) (fw c && wr c) (hl c (List.mem_cons_self))
    intro h
    have a := h1 h
    have b := ih _ (fun x hx => a.2 x (hl x (List.mem_cons_of_mem _ hx))) a.1
    exact ⟨b.1, fun x hx => b.2 x (a.2 x hx)⟩

end Mhd.Susp

namespace Mhd.Susp

theorem WF_sync_unsusp {d1 : Daemon} (base : WF d1) (c : Nat) (hks : (d1.conn c).suspended = false) :
    WF (sync d1 c) ∧ (sync d1 c).active = d1.active ∧ (sync d1 c).susp = d1.susp := by
  unfold sync
  simp only [hks, Bool.false_and, Bool.false_eq_true, if_false]
  split
  · next hcond =>
    simp only [Bool.and_eq_true, Bool.not_eq_true', List.contains_iff_mem] at hcond
    have hne : c ∉ d1.eready := by
      intro hm; have := List.contains_iff_mem.2 hm; rw [hcond.1.2] at this; exact Bool.noConfusion this
    refine ⟨{ base with
      er_sub := by
        intro a ha
        rcases List.mem_cons.1 ha with e | e
        · rw [e]; exact hcond.2
        · exact base.er_sub a e
      nd_eready := List.nodup_cons.2 ⟨hne, base.nd_eready⟩ }, rfl, rfl⟩
  · split
    · exact ⟨{ base with
        er_sub := fun a ha => base.er_sub a (List.mem_of_mem_erase ha)
        nd_eready := base.nd_eready.erase c }, rfl, rfl⟩
    · exact ⟨base, rfl, rfl⟩

theorem WK_of_eq {d d' : Daemon} {evs} (h : WF d → WF d' ∧ d'.active = d.active ∧ d'.susp = d.susp) : WK d evs d' := by
  intro hw
  have := h hw
  refine ⟨this.1, fun a ha => ?_⟩
  unfold Known; rw [this.2.1, this.2.2]; exact ha

theorem WK_epollEvents : ∀ (l : List (Nat × Bool × Bool)) (d : Daemon), WK d [] (epollEvents l d) := by
  intro l
  induction l with
  | nil => intro d; exact WK_rel.refl d
  | cons e rest ih =>
    intro d
    obtain ⟨c, i, o⟩ := e
    simp only [epollEvents]
    split
    · exact ih d
    · next hcond =>
      have h1 : WK d [] (sync { d with conn := setConn d.conn c (epollMark (d.conn c) i o) } c) := by
        apply WK_of_eq
        intro hw
        have hb : WF { d with conn := setConn d.conn c (epollMark (d.conn c) i o) } :=
          WF_setConn_same_flags hw c _ (epollMark_susp _ i o) (by
            intro hr; left; cases i <;> cases o <;> exact hr)
        have hca : c ∈ d.active := by
          simp only [Bool.or_eq_true, Bool.not_eq_true', not_or, Bool.not_eq_false] at hcond
          exact List.contains_iff_mem.1 hcond.2
        have hks : (({ d with conn := setConn d.conn c (epollMark (d.conn c) i o) } : Daemon).conn c).suspended = false := by
          show (setConn d.conn c (epollMark (d.conn c) i o) c).suspended = false
          rw [setConn_same, epollMark_susp]; exact hw.unsusp_of_active hca
        exact WF_sync_unsusp hb c hks
      have := WK_rel.trans _ _ _ _ _ h1 (ih _)
      simpa using this

theorem WK_ereadyPost (d : Daemon) (c : Nat) : WK d [] (ereadyPost d c) := by
  simp only [ereadyPost]
  split
  · apply WK_of_eq
    intro hw
    have hb : WF { d with conn := setConn d.conn c { (d.conn c) with inEready := false } } :=
      WF_setConn_same_flags hw c _ rfl (fun hr => Or.inl hr)
    by_cases hs : (d.conn c).suspended = true
    · -- cannot happen for a connection of the eready list, but the lemma does not need that
      have hcs : c ∈ d.susp := (hw.susp_iff c).1 hs
      have hnact : c ∉ d.active := fun hm => hw.act_nosusp c hm hcs
      have hner : c ∉ d.eready := fun hm => hnact (hw.er_sub c hm)
      have : sync { d with conn := setConn d.conn c { (d.conn c) with inEready := false } } c =
          { d with conn := setConn d.conn c { (d.conn c) with inEready := false } } := by
        simp [sync, hnact, hner]
      rw [this]; exact ⟨hb, rfl, rfl⟩
    · have hks : (({ d with conn := setConn d.conn c { (d.conn c) with inEready := false } } : Daemon).conn c).suspended = false := by
        show (setConn d.conn c { (d.conn c) with inEready := false } c).suspended = false
        rw [setConn_same]; simpa using hs
      exact WF_sync_unsusp hb c hks
  · exact WK_rel.refl d

theorem WK_travEready (g : Guards) (hg : g.Sound) :
    ∀ (l : List Nat) (d : Daemon), (∀ a ∈ l, Known d a) → WK d (travEready g l d).2 (travEready g l d).1 := by
  intro l
  induction l with
  | nil => intro d _; exact WK_rel.refl d
  | cons c rest ih =>
    intro d hl
    simp only [travEready]
    have h1 := WK_turn g hg d c (d.conn c).readReady (d.conn c).writeReady (hl c (List.mem_cons_self))
    have h2 := WK_ereadyPost (turn g d c (d.conn c).readReady (d.conn c).writeReady).1 c
    intro h
    have a := h1 h
    have b := h2 a.1
    have cc := ih _ (fun x hx => b.2 x (a.2 x (hl x (List.mem_cons_of_mem _ hx)))) b.1
    exact ⟨cc.1, fun x hx => cc.2 x (b.2 x (a.2 x hx))⟩

end Mhd.Susp

namespace Mhd.Susp

theorem WK_resumeReq (d : Daemon) (c : Nat) : WK d (resumeReq d c).2 (resumeReq d c).1 :=
  WK_of_eq (fun hw => ⟨WF_resumeReq hw c, rfl, rfl⟩)

theorem WK_timerScan : ∀ (l : List Nat) (d : Daemon), WK d (timerScan l d).2 (timerScan l d).1 := by
  intro l
  induction l with
  | nil => intro d; exact WK_rel.refl d
  | cons c rest ih =>
    intro d
    simp only [timerScan]
    split
    · have h1 : WK d [] { d with conn := setConn d.conn c { (d.conn c) with timer := none } } :=
        WK_of_eq (fun hw => ⟨WF_setConn_same_flags hw c _ rfl (fun hr => Or.inl hr), rfl, rfl⟩)
      have h2 := WK_resumeReq { d with conn := setConn d.conn c { (d.conn c) with timer := none } } c
      have := WK_rel.trans _ _ _ _ _ (WK_rel.trans _ _ _ _ _ h1 h2) (ih _)
      simpa using this
    · next n _ =>
      have h1 : WK d [] { d with conn := setConn d.conn c { (d.conn c) with timer := some n } } :=
        WK_of_eq (fun hw => ⟨WF_setConn_same_flags hw c _ rfl (fun hr => Or.inl hr), rfl, rfl⟩)
      have := WK_rel.trans _ _ _ _ _ h1 (ih _)
      simpa using this
    · exact ih d

/-- the invariant without the "no lost resume" clause (it is suspended during the scan) -/
structure WF0 (d : Daemon) : Prop where
  susp_iff : ∀ c, (d.conn c).suspended = true ↔ c ∈ d.susp
  act_nosusp : ∀ c, c ∈ d.active → c ∉ d.susp
  nd_active : d.active.Nodup
  nd_susp : d.susp.Nodup
  er_sub : ∀ c, c ∈ d.eready → c ∈ d.active
  to_sub : ∀ c, c ∈ d.normalTO → c ∈ d.active
  new_fresh : ∀ c, c ∈ d.newConns → c ∉ d.active ∧ c ∉ d.susp
  nd_new : d.newConns.Nodup
  nd_eready : d.eready.Nodup
  nd_to : d.normalTO.Nodup

theorem WF.toWF0 {d : Daemon} (h : WF d) : WF0 d :=
  ⟨h.susp_iff, h.act_nosusp, h.nd_active, h.nd_susp, h.er_sub, h.to_sub, h.new_fresh, h.nd_new, h.nd_eready, h.nd_to⟩

theorem WF0_moveBack (g : Guards) {d : Daemon} (h : WF0 d) {c : Nat} (hc : c ∈ d.susp) : WF0 (moveBack g d c) := by
  have hna : c ∉ d.active := fun hm => h.act_nosusp c hm hc
  have hne : c ∉ d.eready := fun hm => hna (h.er_sub c hm)
  have hnt : c ∉ d.normalTO := fun hm => hna (h.to_sub c hm)
  have hsusp : ∀ a, ((moveBack g d c).conn a).suspended = if a = c then false else (d.conn a).suspended := by
    intro a
    simp only [moveBack]
    by_cases ha : a = c
    · subst ha; simp only [setConn_same, if_true]; split <;> rfl
    · simp only [setConn_ne _ _ ha, if_neg ha]
  constructor
  · intro a
    rw [hsusp]
    by_cases ha : a = c
    · subst ha; simp [moveBack, h.nd_susp.mem_erase_iff]
    · simp only [if_neg ha, moveBack]; rw [List.mem_erase_of_ne ha]; exact h.susp_iff a
  · intro a ha
    simp only [moveBack] at ha ⊢
    rcases List.mem_cons.1 ha with e | e
    · subst e; simp [h.nd_susp.mem_erase_iff]
    · exact fun hm => h.act_nosusp a e (List.mem_of_mem_erase hm)
  · exact List.nodup_cons.2 ⟨hna, h.nd_active⟩
  · exact h.nd_susp.erase c
  · intro a ha
    simp only [moveBack] at ha ⊢
    split at ha
    · rcases List.mem_cons.1 ha with e | e
      · subst e; exact List.mem_cons_self
      · exact List.mem_cons_of_mem _ (h.er_sub a e)
    · exact List.mem_cons_of_mem _ (h.er_sub a ha)
  · intro a ha
    simp only [moveBack] at ha ⊢
    rcases List.mem_cons.1 ha with e | e
    · subst e; exact List.mem_cons_self
    · exact List.mem_cons_of_mem _ (h.to_sub a e)
  · intro a ha
    have hn := h.new_fresh a ha
    simp only [moveBack]
    refine ⟨?_, fun hm => hn.2 (List.mem_of_mem_erase hm)⟩
    simp only [List.mem_cons, not_or]
    exact ⟨fun e => hn.2 (e ▸ hc), hn.1⟩
  · exact h.nd_new
  · simp only [moveBack]
    split
    · exact List.nodup_cons.2 ⟨hne, h.nd_eready⟩
    · exact h.nd_eready
  · exact List.nodup_cons.2 ⟨hnt, h.nd_to⟩

end Mhd.Susp

namespace Mhd.Susp

theorem nodup_reverse' {l : List Nat} (h : l.Nodup) : l.reverse.Nodup := by
  unfold List.Nodup at *
  rw [List.pairwise_reverse]
  exact h.imp (fun h => h.symm)

theorem moveBack_conn_ne (g : Guards) (d : Daemon) {a c : Nat} (h : a ≠ c) : (moveBack g d c).conn a = d.conn a := by
  simp only [moveBack]; exact setConn_ne _ _ h

theorem resumeScan_inv (g : Guards) : ∀ (l : List Nat) (d : Daemon), WF0 d → l.Nodup → (∀ c ∈ l, c ∈ d.susp) →
    WF0 (resumeScan g l d).1 ∧ (resumeScan g l d).1.resuming = d.resuming ∧
    (∀ a, Known d a → Known (resumeScan g l d).1 a) ∧
    (∀ a, a ∈ (resumeScan g l d).1.susp →
        a ∈ d.susp ∧ (a ∈ l → (d.conn a).resuming = false) ∧
        ((resumeScan g l d).1.conn a).resuming = (d.conn a).resuming) := by
  intro l
  induction l with
  | nil => intro d h _ _; exact ⟨h, rfl, fun _ ha => ha, fun a ha => ⟨ha, fun hm => absurd hm (List.not_mem_nil), rfl⟩⟩
  | cons c rest ih =>
    intro d h hnd hl
    have hc : c ∈ d.susp := hl c List.mem_cons_self
    have hnd' := List.nodup_cons.1 hnd
    simp only [resumeScan]
    split
    · next hres =>
      have h1 := WF0_moveBack g h hc
      have hsusp1 : (moveBack g d c).susp = d.susp.erase c := rfl
      have hl1 : ∀ x ∈ rest, x ∈ (moveBack g d c).susp := by
        intro x hx
        rw [hsusp1]
        have hxc : x ≠ c := fun e => hnd'.1 (e ▸ hx)
        exact (List.mem_erase_of_ne hxc).2 (hl x (List.mem_cons_of_mem _ hx))
      have r := ih (moveBack g d c) h1 hnd'.2 hl1
      refine ⟨r.1, r.2.1, ?_, ?_⟩
      · intro a ha
        apply r.2.2.1
        by_cases hac : a = c
        · subst hac; exact Or.inl List.mem_cons_self
        · rcases ha with ha | ha
          · exact Or.inl (List.mem_cons_of_mem _ ha)
          · exact Or.inr ((List.mem_erase_of_ne hac).2 ha)
      · intro a ha
        have q := r.2.2.2 a ha
        rw [hsusp1] at q
        have hm := (h.nd_susp.mem_erase_iff).1 q.1
        rw [moveBack_conn_ne g d hm.1] at q
        refine ⟨hm.2, ?_, q.2.2⟩
        intro hal
        rcases List.mem_cons.1 hal with e | e
        · exact absurd e hm.1
        · exact q.2.1 e
    · next hres =>
      have r := ih d h hnd'.2 (fun x hx => hl x (List.mem_cons_of_mem _ hx))
      refine ⟨r.1, r.2.1, r.2.2.1, ?_⟩
      intro a ha
      have q := r.2.2.2 a ha
      refine ⟨q.1, ?_, q.2.2⟩
      intro hal
      rcases List.mem_cons.1 hal with e | e
      · subst e; simpa using hres
      · exact q.2.1 e

theorem WK_resumeSuspended (g : Guards) : DSat WK (resumeSuspended g) := by
  intro d hw
  simp only [resumeSuspended]
  split
  · have h0 : WF0 { d with resuming := false } :=
      ⟨hw.susp_iff, hw.act_nosusp, hw.nd_active, hw.nd_susp, hw.er_sub, hw.to_sub, hw.new_fresh, hw.nd_new,
       hw.nd_eready, hw.nd_to⟩
    have r := resumeScan_inv g d.susp.reverse { d with resuming := false } h0
      (nodup_reverse' hw.nd_susp) (fun c hc => List.mem_reverse.1 hc)
    generalize resumeScan g d.susp.reverse { d with resuming := false } = res at r
    refine ⟨⟨r.1.susp_iff, r.1.act_nosusp, r.1.nd_active, r.1.nd_susp, r.1.er_sub, r.1.to_sub, r.1.new_fresh,
      r.1.nd_new, r.1.nd_eready, r.1.nd_to, ?_⟩, r.2.2.1⟩
    intro a hs hr
    have hm := (r.1.susp_iff a).1 hs
    have q := r.2.2.2 a hm
    have : (d.conn a).resuming = false := q.2.1 (List.mem_reverse.2 q.1)
    rw [q.2.2] at hr
    simp [this] at hr
  · exact ⟨hw, fun _ ha => ha⟩

end Mhd.Susp

namespace Mhd.Susp

theorem processNew_inv : ∀ (l : List Nat) (d : Daemon),
    (∀ c, (d.conn c).suspended = true ↔ c ∈ d.susp) → (∀ c, c ∈ d.active → c ∉ d.susp) → d.active.Nodup → d.susp.Nodup →
    (∀ c, c ∈ d.eready → c ∈ d.active) → (∀ c, c ∈ d.normalTO → c ∈ d.active) → d.eready.Nodup → d.normalTO.Nodup →
    (∀ c, (d.conn c).suspended = true → (d.conn c).resuming = true → d.resuming = true) →
    l.Nodup → (∀ c ∈ l, c ∉ d.active ∧ c ∉ d.susp) →
    WF (processNew l d).1 ∧ ∀ a, Known d a → Known (processNew l d).1 a := by
  intro l
  induction l with
  | nil =>
    intro d h1 h2 h3 h4 h5 h6 h7 h8 h9 _ _
    simp only [processNew]
    exact ⟨⟨h1, h2, h3, h4, h5, h6, by simp, by simp, h7, h8, h9⟩, fun _ ha => ha⟩
  | cons c rest ih =>
    intro d h1 h2 h3 h4 h5 h6 h7 h8 h9 hnd hl
    simp only [processNew]
    have hc := hl c List.mem_cons_self
    have hnd' := List.nodup_cons.1 hnd
    have hsusp : ∀ a, (setConn d.conn c { (d.conn c) with eli := Eli.read, inSet := d.isEpoll } a).suspended = (d.conn a).suspended := by
      intro a
      by_cases ha : a = c
      · subst ha; rw [setConn_same]
      · rw [setConn_ne _ _ ha]
    have hres : ∀ a, (setConn d.conn c { (d.conn c) with eli := Eli.read, inSet := d.isEpoll } a).resuming = (d.conn a).resuming := by
      intro a
      by_cases ha : a = c
      · subst ha; rw [setConn_same]
      · rw [setConn_ne _ _ ha]
    have r := ih { d with conn := setConn d.conn c { (d.conn c) with eli := Eli.read, inSet := d.isEpoll },
                          active := c :: d.active, normalTO := c :: d.normalTO }
      (by intro a; simp only [hsusp]; exact h1 a)
      (by
        intro a ha
        rcases List.mem_cons.1 ha with e | e
        · subst e; exact hc.2
        · exact h2 a e)
      (List.nodup_cons.2 ⟨hc.1, h3⟩) h4
      (fun a ha => List.mem_cons_of_mem _ (h5 a ha))
      (by
        intro a ha
        rcases List.mem_cons.1 ha with e | e
        · subst e; exact List.mem_cons_self
        · exact List.mem_cons_of_mem _ (h6 a e))
      h7 (List.nodup_cons.2 ⟨fun hm => hc.1 (h6 c hm), h8⟩)
      (by intro a; simp only [hsusp, hres]; exact h9 a)
      hnd'.2
      (by
        intro x hx
        have := hl x (List.mem_cons_of_mem _ hx)
        refine ⟨?_, this.2⟩
        simp only [List.mem_cons, not_or]
        exact ⟨fun e => hnd'.1 (e ▸ hx), this.1⟩)
    refine ⟨r.1, fun a ha => r.2 a ?_⟩
    rcases ha with ha | ha
    · exact Or.inl (List.mem_cons_of_mem _ ha)
    · exact Or.inr ha

theorem WK_newPhase : DSat WK newPhase := by
  intro d hw
  simp only [newPhase]
  exact processNew_inv d.newConns { d with pending := false } hw.susp_iff hw.act_nosusp hw.nd_active hw.nd_susp
    hw.er_sub hw.to_sub hw.nd_eready hw.nd_to hw.no_lost hw.nd_new hw.new_fresh

theorem WK_timeoutScan (g : Guards) (hg : g.Sound) : DSat WK (timeoutScan g) := by
  intro d hw
  simp only [timeoutScan]
  split
  · next c hc =>
    exact WK_idleTurn g hg d c (Or.inl (hw.to_sub c (List.mem_of_getLast? hc))) hw
  · exact ⟨hw, fun _ ha => ha⟩

theorem WK_roundSelect (g : Guards) (hg : g.Sound) (ids : List Nat) (rd wr : Nat → Bool) :
    DSat WK (fun d => roundSelect g d ids rd wr) := by
  intro d
  simp only [roundSelect]
  refine dsat_bindD WK_rel ?_ ?_
  · intro d; exact WK_travSelect g hg _ _ rd wr _ d (fun a ha => Or.inl (List.mem_reverse.1 ha))
  refine dsat_bindD WK_rel WK_newPhase ?_
  exact dsat_bindD WK_rel (WK_resumeSuspended g) (WK_timerScan ids d)

theorem WK_pollPhase (g : Guards) (hg : g.Sound) (rd wr : Nat → Bool) : DSat WK (pollPhase g rd wr) := by
  intro d hw
  simp only [pollPhase, bindD]
  have a := WK_newPhase d hw
  have b := WK_travAll g hg (fun c => (d.conn c).eli.hasRead) (fun c => (d.conn c).eli == .write) rd wr d.active.reverse
    (newPhase d).1 (fun x hx => a.2 x (Or.inl (List.mem_reverse.1 hx))) a.1
  exact ⟨b.1, fun x hx => b.2 x (a.2 x hx)⟩

theorem WK_roundPoll (g : Guards) (hg : g.Sound) (ids : List Nat) (rd wr : Nat → Bool) :
    DSat WK (fun d => roundPoll g d ids rd wr) := by
  intro d
  simp only [roundPoll]
  refine dsat_bindD WK_rel (WK_pollPhase g hg rd wr) ?_
  exact dsat_bindD WK_rel (WK_resumeSuspended g) (WK_timerScan ids d)

theorem WK_roundEpoll (g : Guards) (hg : g.Sound) (ids : List Nat) (evs : List (Nat × Bool × Bool)) :
    DSat WK (fun d => roundEpoll g d ids evs) := by
  intro d
  simp only [roundEpoll]
  refine dsat_bindD WK_rel ?_ ?_
  · intro d hw
    exact WK_travEready g hg _ d (fun a ha => Or.inl (hw.er_sub a (List.mem_reverse.1 ha))) hw
  refine dsat_bindD WK_rel (WK_timeoutScan g hg) ?_
  refine dsat_bindD WK_rel WK_newPhase ?_
  refine dsat_bindD WK_rel ?_ ?_
  · intro d
    simp only [pureD]
    have h3 : WK d [] { d with pending := false } :=
      WK_of_eq (fun hw => ⟨⟨hw.susp_iff, hw.act_nosusp, hw.nd_active, hw.nd_susp, hw.er_sub, hw.to_sub, hw.new_fresh,
        hw.nd_new, hw.nd_eready, hw.nd_to, hw.no_lost⟩, rfl, rfl⟩)
    have := WK_rel.trans _ _ _ _ _ h3 (WK_epollEvents evs { d with pending := false })
    simpa using this
  · exact dsat_bindD WK_rel (WK_resumeSuspended g) (WK_timerScan ids d)

end Mhd.Susp

namespace Mhd.Susp

theorem WK_step (g : Guards) (hg : g.Sound) (op : Op) : DSat WK (fun d => step g d op) := by
  intro d
  cases op with
  | arrive c =>
    simp only [step]
    split
    · exact WK_rel.refl d
    · next hcond =>
      simp only [Bool.or_eq_true, List.contains_iff_mem, not_or] at hcond
      apply WK_of_eq
      intro hw
      refine ⟨?_, rfl, rfl⟩
      constructor
      · exact hw.susp_iff
      · exact hw.act_nosusp
      · exact hw.nd_active
      · exact hw.nd_susp
      · exact hw.er_sub
      · exact hw.to_sub
      · intro a ha
        rcases List.mem_append.1 ha with e | e
        · exact hw.new_fresh a e
        · have : a = c := by simpa using e
          subst this; exact ⟨hcond.1.2, hcond.2⟩
      · exact List.nodup_append.2 ⟨hw.nd_new, by simp, by
          intro a ha b hb; have : b = c := by simpa using hb
          subst this; exact fun e => hcond.1.1 (e ▸ ha)⟩
      · exact hw.nd_eready
      · exact hw.nd_to
      · exact hw.no_lost
  | send c syms =>
    simp only [step]
    exact WK_of_eq (fun hw => ⟨WF_setConn_same_flags hw c _ rfl (fun hr => Or.inl hr), rfl, rfl⟩)
  | resume c =>
    simp only [step]
    have h1 : WK d [] { d with conn := setConn d.conn c { (d.conn c) with timer := none } } :=
      WK_of_eq (fun hw => ⟨WF_setConn_same_flags hw c _ rfl (fun hr => Or.inl hr), rfl, rfl⟩)
    have := WK_rel.trans _ _ _ _ _ h1 (WK_resumeReq _ c)
    simpa using this
  | round ids rd wr =>
    simp only [step]
    split
    · exact WK_roundSelect g hg ids rd wr d
    · exact WK_roundPoll g hg ids rd wr d
    · exact WK_rel.refl d
  | eround ids evs =>
    simp only [step]
    split
    · exact WK_roundEpoll g hg ids evs d
    · exact WK_rel.refl d

theorem run_WF (g : Guards) (hg : g.Sound) : ∀ (ops : List Op) (d : Daemon), WF d → WF (run g d ops).1 := by
  intro ops
  induction ops with
  | nil => intro d h; exact h
  | cons op rest ih =>
    intro d h
    simp only [run]
    exact ih _ (WK_step g hg op d h).1

end Mhd.Susp

namespace Mhd.Susp

theorem QD_step (g : Guards) (hg : g.Sound) (op : Op) (d : Daemon) :
    QD g d (step g d op).2 (step g d op).1 := by
  cases op with
  | arrive c =>
    simp only [step]
    split
    · exact (QD_rel g).refl d
    · exact QD_silent g (fun c => ⟨rfl, rfl⟩)
  | send c syms =>
    simp only [step]
    have := QD_one g d { d with conn := setConn d.conn c { (d.conn c) with inbox := (d.conn c).inbox ++ syms, sent := (d.conn c).sent ++ syms } } c
      { (d.conn c) with inbox := (d.conn c).inbox ++ syms, sent := (d.conn c).sent ++ syms } [] rfl (by simp [quietFrom]) rfl
    simpa [tag] using this
  | resume c =>
    simp only [step]
    have h1 : QD g d [] { d with conn := setConn d.conn c { (d.conn c) with timer := none } } := by
      have := QD_one g d { d with conn := setConn d.conn c { (d.conn c) with timer := none } } c
        { (d.conn c) with timer := none } [] rfl (by simp [quietFrom]) rfl
      simpa [tag] using this
    have := (QD_rel g).trans _ _ _ _ _ h1 (QD_resumeReq g c _)
    simpa using this
  | round ids rd wr =>
    simp only [step]
    split
    · exact QD_roundSelect g hg ids rd wr d
    · exact QD_roundPoll g hg ids rd wr d
    · exact (QD_rel g).refl d
  | eround ids evs =>
    simp only [step]
    split
    · exact QD_roundEpoll g hg ids evs d
    · exact (QD_rel g).refl d

theorem run_QD (g : Guards) (hg : g.Sound) : ∀ (ops : List Op) (d : Daemon),
    QD g d (run g d ops).2 (run g d ops).1 := by
  intro ops
  induction ops with
  | nil => intro d; exact (QD_rel g).refl d
  | cons op rest ih =>
    intro d
    simp only [run]
    exact (QD_rel g).trans _ _ _ _ _ (QD_step g hg op d) (ih (step g d op).1)

end Mhd.Susp
