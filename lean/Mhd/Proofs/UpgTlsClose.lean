/-
  C20, TLS forwarding: close propagation (application close, MHD_stop_daemon, end of stream from
  the client) and "nothing is discarded while both sides are open", over `Mhd.Model.UpgTls`.
-/
import Mhd.Proofs.UpgTls
set_option linter.unusedSimpArgs false
set_option linter.unusedVariables false
namespace Mhd.UpgTls

theorem pre_closed (sh : Bool) (s : St) (h : sh = true ∨ s.wasClosed = true) :
    (stagePre sh s).inBuf = [] ∧ (stagePre sh s).inSize = 0 ∧ (stagePre sh s).wasClosed = true := by
  unfold stagePre
  rcases h with h | h
  · subst h; simp
  · by_cases hs : sh = true <;> simp [hs, h]

theorem pre_open (s : St) (h : s.wasClosed = false) : stagePre false s = s := by
  unfold stagePre; simp [h]

theorem tlsRecv_skip (e : Env) (s : St) (h : s.inSize = 0) : stageTlsRecv e s = s := by
  unfold stageTlsRecv; simp [h]

theorem pairSend_skip (e : Env) (s : St) (h : s.inBuf = []) : stagePairSend e s = s := by
  unfold stagePairSend; simp [h]

theorem tlsSend_skip (e : Env) (s : St) (h : s.outBuf = []) : stageTlsSend e s = s := by
  unfold stageTlsSend; simp [h]

theorem post_shutdown (wc : Bool) (s : St) : (stagePost true wc s).outSize = 0 ∧ (stagePost true wc s).outBuf = [] := by
  unfold stagePost
  simp only []
  by_cases h1 : s.outSize = 0 <;> by_cases h2 : s.outBuf = [] <;> (repeat' split) <;> simp_all

theorem post_open (wc : Bool) (s : St) : SameOut s (stagePost false wc s) := by
  unfold stagePost
  simp only []
  repeat' split
  all_goals simp_all [SameOut]

/-- the application has closed and written nothing more: the forced last read from the socketpair
    finds nothing and stops that direction -/
theorem pairRecv_closed_empty (e : Env) (s : St) (hp : s.pairIn = []) (ho : s.outBuf = []) (hi : e.pairRecv ≠ .intr) :
    (stagePairRecv true e s).outSize = 0 ∧ (stagePairRecv true e s).outBuf = s.outBuf := by
  unfold stagePairRecv
  by_cases hc : s.outBuf.length < s.outSize
  · simp only [hc, Bool.or_true, decide_true, Bool.and_self, if_true, hp, List.length_nil, Nat.min_zero, Nat.zero_min]
    cases hr : e.pairRecv with
    | ok n => simp
    | again => simp
    | intr => exact absurd hr hi
    | eof => simp
    | fatal => simp
  · have : s.outSize ≤ s.outBuf.length := by omega
    simp only [hc, decide_false, Bool.and_false, Bool.false_eq_true, if_false]
    rw [ho] at this; simp at this; exact ⟨this, trivial⟩


theorem tlsRecv_wc (e : Env) (s : St) : (stageTlsRecv e s).wasClosed = s.wasClosed := by
  unfold stageTlsRecv
  split
  · simp only []
    split
    · split <;> simp
    · simp
    · split <;> simp
    · simp
  · rfl

theorem pairRecv_wc (wc : Bool) (e : Env) (s : St) : (stagePairRecv wc e s).wasClosed = s.wasClosed := by
  unfold stagePairRecv
  split
  · simp only []
    split
    · split <;> simp
    · simp
    · split <;> simp
    · simp
  · rfl

theorem tlsSend_wc (e : Env) (s : St) : (stageTlsSend e s).wasClosed = s.wasClosed := by
  unfold stageTlsSend
  split
  · simp only []
    split <;> (split <;> simp)
  · rfl

theorem pairSend_wc (e : Env) (s : St) : (stagePairSend e s).wasClosed = s.wasClosed := by
  unfold stagePairSend
  split
  · simp only []
    split
    · split <;> (split <;> simp)
    all_goals (split <;> simp)
  · rfl

theorem post_wc (sh wc : Bool) (s : St) : (stagePost sh wc s).wasClosed = s.wasClosed := by
  unfold stagePost
  simp only []
  repeat' split
  all_goals simp

theorem processUrh_wc (sh : Bool) (e : Env) (s : St) : (processUrh sh e s).wasClosed = (stagePre sh s).wasClosed := by
  unfold processUrh
  simp only []
  rw [post_wc, pairSend_wc, tlsSend_wc, pairRecv_wc, tlsRecv_wc]

theorem processUrh_misc (sh : Bool) (e : Env) (s : St) : Misc s (processUrh sh e s) := by
  unfold processUrh
  simp only []
  exact ((((((pre_misc sh s).1.trans (tlsRecv_misc e _)).trans (pairRecv_misc _ e _)).trans (tlsSend_misc e _).1).trans
    (pairSend_misc e _).1).trans (post_misc sh _ _).1)

theorem finished_iff (s : St) : finished s = true ↔ s.inSize = 0 ∧ s.outSize = 0 ∧ s.inBuf = [] ∧ s.outBuf = [] := by
  unfold finished; simp [and_assoc]

theorem afterProcess_finished (s : St) (hf : finished s = true) (hc : s.cleanReady = false) :
    finished (afterProcess s) = true ∧ (afterProcess s).cleanReady = true ∧ (afterProcess s).pairShut = true ∧
    (afterProcess s).resuming = true ∧ (afterProcess s).wasClosed = s.wasClosed ∧ (afterProcess s).loc = s.loc ∧
    (afterProcess s).released = s.released := by
  unfold afterProcess
  simp [hf, hc]
  exact hf

/-- **MHD_stop_daemon**: one visit with `daemon->shutdown` set finishes the forwarding whatever is
    buffered and whatever the I/O calls return: both directions stopped and empty, the socketpair
    shut down, `was_closed` and `clean_ready` set, the connection marked for resuming -/
theorem stop_visit_finishes (lv : Bool) (rdy : Celi × Celi) (e : Env) (s : St) (hl : s.loc = .suspended) (hc : s.cleanReady = false) :
    finished (visit true lv rdy e s) = true ∧ (visit true lv rdy e s).cleanReady = true ∧ (visit true lv rdy e s).pairShut = true ∧
    (visit true lv rdy e s).resuming = true ∧ (visit true lv rdy e s).wasClosed = true := by
  unfold visit
  have hg : ¬ (s.loc ≠ .suspended ∨ s.cleanReady = true) := by simp [hl, hc]
  rw [if_neg hg]
  generalize hs0 : mergeReady lv rdy s = s0
  have c0 : s0.cleanReady = false := by subst hs0; exact hc
  -- the state after process_urh
  have hp := pre_closed true s0 (Or.inl rfl)
  have key : finished (processUrh true e s0) = true ∧ (processUrh true e s0).wasClosed = true ∧
      (processUrh true e s0).cleanReady = false := by
    unfold processUrh
    simp only []
    rw [tlsRecv_skip e _ hp.2.1]
    have a := pairRecv_in (stagePre true s0).wasClosed e (stagePre true s0)
    have b := tlsSend_in e (stagePairRecv (stagePre true s0).wasClosed e (stagePre true s0))
    have hin : (stageTlsSend e (stagePairRecv (stagePre true s0).wasClosed e (stagePre true s0))).inBuf = [] := by
      rw [b.2.2.1, a.2.2.1]; exact hp.1
    rw [pairSend_skip e _ hin]
    have c := post_in true (stagePre true s0).wasClosed (stageTlsSend e (stagePairRecv (stagePre true s0).wasClosed e (stagePre true s0)))
    have d := post_shutdown (stagePre true s0).wasClosed (stageTlsSend e (stagePairRecv (stagePre true s0).wasClosed e (stagePre true s0)))
    refine ⟨?_, ?_, ?_⟩
    · rw [finished_iff]
      refine ⟨?_, d.1, ?_, d.2⟩
      · rw [c.2.2.2.2.2.1, b.2.2.2.2.2.1, a.2.2.2.2.2.1]; exact hp.2.1
      · rw [c.2.2.1, hin]
    · have := processUrh_wc true e s0
      unfold processUrh at this; simp only [] at this
      rw [tlsRecv_skip e _ hp.2.1, pairSend_skip e _ hin] at this
      rw [this]; exact hp.2.2
    · have := (processUrh_misc true e s0).2.2.1
      unfold processUrh at this; simp only [] at this
      rw [tlsRecv_skip e _ hp.2.1, pairSend_skip e _ hin] at this
      rw [this]; exact c0
  obtain ⟨k1, k2, k3⟩ := key
  have := afterProcess_finished _ k1 k3
  exact ⟨this.1, this.2.1, this.2.2.1, this.2.2.2.1, by rw [this.2.2.2.2.1]; exact k2⟩


/-- **The close action of the application is propagated and completes**: once the application has
    issued MHD_UPGRADE_ACTION_CLOSE, has nothing more in flight (`pairIn = []`) and everything it
    wrote earlier went out (`outBuf = []`), the next visit — whatever readiness is reported, whatever
    the client-side I/O returns — stops both directions, shuts the socketpair down and marks the
    handle clean; the following `resume_suspended_connections` moves the connection to the cleanup
    list with exactly one more completion -/
theorem app_close_visit_finishes (lv : Bool) (rdy : Celi × Celi) (e : Env) (s : St) (hl : s.loc = .suspended) (hc : s.cleanReady = false)
    (hw : s.wasClosed = true) (hp : s.pairIn = []) (ho : s.outBuf = []) (hi : e.pairRecv ≠ .intr) :
    finished (visit false lv rdy e s) = true ∧ (visit false lv rdy e s).cleanReady = true ∧ (visit false lv rdy e s).pairShut = true ∧
    (resumeScan (visit false lv rdy e s)).loc = .cleanup ∧ (resumeScan (visit false lv rdy e s)).released = s.released + 1 := by
  unfold visit
  have hg : ¬ (s.loc ≠ .suspended ∨ s.cleanReady = true) := by simp [hl, hc]
  rw [if_neg hg]
  generalize hs0 : mergeReady lv rdy s = s0
  have c0 : s0.cleanReady = false := by subst hs0; exact hc
  have w0 : s0.wasClosed = true := by subst hs0; exact hw
  have p0 : s0.pairIn = [] := by subst hs0; exact hp
  have o0 : s0.outBuf = [] := by subst hs0; exact ho
  have l0 : s0.loc = .suspended ∧ s0.released = s.released := by subst hs0; exact ⟨hl, rfl⟩
  have hpre := pre_closed false s0 (Or.inr w0)
  have hpo := pre_out false s0
  have key : finished (processUrh false e s0) = true := by
    unfold processUrh
    simp only []
    rw [tlsRecv_skip e _ hpre.2.1, hpre.2.2]
    have r := pairRecv_closed_empty e (stagePre false s0) (by rw [hpo.2.2.2.1]; exact p0) (by rw [hpo.2.2.1]; exact o0) hi
    have a := pairRecv_in true e (stagePre false s0)
    have ob : (stagePairRecv true e (stagePre false s0)).outBuf = [] := by rw [r.2, hpo.2.2.1]; exact o0
    rw [tlsSend_skip e _ ob]
    have ib : (stagePairRecv true e (stagePre false s0)).inBuf = [] := by rw [a.2.2.1]; exact hpre.1
    rw [pairSend_skip e _ ib]
    have c := post_in false true (stagePairRecv true e (stagePre false s0))
    have d := post_open true (stagePairRecv true e (stagePre false s0))
    rw [finished_iff]
    refine ⟨?_, ?_, ?_, ?_⟩
    · rw [c.2.2.2.2.2.1, a.2.2.2.2.2.1]; exact hpre.2.1
    · rw [d.2.2.2.2.2.1]; exact r.1
    · rw [c.2.2.1]; exact ib
    · rw [d.2.2.1]; exact ob
  have m := processUrh_misc false e s0
  have wc : (processUrh false e s0).wasClosed = true := by rw [processUrh_wc]; exact hpre.2.2
  have ap := afterProcess_finished _ key (by rw [m.2.2.1]; exact c0)
  refine ⟨ap.1, ap.2.1, ap.2.2.1, ?_, ?_⟩
  · unfold resumeScan
    have h1 : (afterProcess (processUrh false e s0)).loc = .suspended := by rw [ap.2.2.2.2.2.1, m.2.1]; exact l0.1
    have h2 : (afterProcess (processUrh false e s0)).wasClosed = true := by rw [ap.2.2.2.2.1]; exact wc
    simp [h1, h2, ap.2.1, ap.2.2.2.1]
  · unfold resumeScan
    have h1 : (afterProcess (processUrh false e s0)).loc = .suspended := by rw [ap.2.2.2.2.2.1, m.2.1]; exact l0.1
    have h2 : (afterProcess (processUrh false e s0)).wasClosed = true := by rw [ap.2.2.2.2.1]; exact wc
    simp [h1, h2, ap.2.1, ap.2.2.2.1]
    rw [ap.2.2.2.2.2.2, m.1]; exact l0.2

/-- **End of stream / hard error from the client stops reading from it**, and a stopped direction
    stays stopped: `in_buffer_size = 0` means no further `gnutls_record_recv` -/
theorem remote_close_stops_reading (e : Env) (s : St) (hr : (s.remote.rd || s.remote.err || s.tlsReadReady) = true)
    (hroom : s.inBuf.length < s.inSize) (he : e.tlsRecv = .eof ∨ e.tlsRecv = .fatal) :
    (stageTlsRecv e s).inSize = 0 ∧ (stageTlsRecv e s).inBuf = s.inBuf ∧
    ∀ e', stageTlsRecv e' (stageTlsRecv e s) = stageTlsRecv e s := by
  have h0 : (stageTlsRecv e s).inSize = 0 ∧ (stageTlsRecv e s).inBuf = s.inBuf := by
    unfold stageTlsRecv
    have hc : (((s.remote.err || s.remote.rd) || s.tlsReadReady) && decide (s.inBuf.length < s.inSize)) = true := by
      simp only [Bool.and_eq_true, decide_eq_true_eq]
      refine ⟨?_, hroom⟩
      cases h1 : s.remote.rd <;> cases h2 : s.remote.err <;> cases h3 : s.tlsReadReady <;> simp_all
    rw [if_pos hc]
    rcases he with he | he <;> simp [he]
  exact ⟨h0.1, h0.2, fun e' => tlsRecv_skip e' _ h0.1⟩


/-! ### nothing is discarded while both sides are open and the I/O calls do not fail hard -/

theorem pairSend_nodrop (e : Env) (s : St) (h1 : e.pairSend ≠ .fatal) (h2 : e.pairSend ≠ .eof) :
    (stagePairSend e s).dropIn = s.dropIn := by
  unfold stagePairSend
  split
  · simp only []
    cases hr : e.pairSend with
    | ok n =>
      simp only []
      by_cases hz : min n (min s.inBuf.length s.sendMax) = 0
      · simp only [hz, if_true]; split <;> simp
      · simp only [hz, if_false]; split <;> (split <;> simp)
    | again => simp only []; split <;> simp
    | intr => simp only []; split <;> simp
    | eof => exact absurd hr h2
    | fatal => exact absurd hr h1
  · rfl

theorem tlsSend_nodrop (e : Env) (s : St) (h1 : e.tlsSend ≠ .fatal) (h2 : e.tlsSend ≠ .eof) :
    (stageTlsSend e s).dropOut = s.dropOut := by
  unfold stageTlsSend
  split
  · simp only []
    cases hr : e.tlsSend with
    | ok n =>
      simp only []
      by_cases hz : min n (min s.outBuf.length s.ssizeMax) = 0
      · simp only [hz, if_true]; split <;> simp
      · simp only [hz, if_false]; split <;> simp
    | again => simp only []; split <;> simp
    | intr => simp only []; split <;> simp
    | eof => exact absurd hr h2
    | fatal => exact absurd hr h1
  · rfl

theorem tlsRecv_dropIn (e : Env) (s : St) : (stageTlsRecv e s).dropIn = s.dropIn := by
  unfold stageTlsRecv
  split
  · simp only []
    split
    · split <;> simp
    · simp
    · split <;> simp
    · simp
  · rfl

theorem pairRecv_dropOut (wc : Bool) (e : Env) (s : St) : (stagePairRecv wc e s).dropOut = s.dropOut := by
  unfold stagePairRecv
  split
  · simp only []
    split
    · split <;> simp
    · simp
    · split <;> simp
    · simp
  · rfl

theorem afterProcess_same (s : St) : (afterProcess s).dropIn = s.dropIn ∧ (afterProcess s).dropOut = s.dropOut ∧
    (afterProcess s).wasClosed = s.wasClosed := by
  unfold afterProcess; split <;> simp

def Op.noInDrop : Op → Prop
  | .visit _ _ e => e.pairSend ≠ .fatal ∧ e.pairSend ≠ .eof
  | .appClose => False
  | .stopVisit _ _ _ => False
  | _ => True

def Op.noOutDrop : Op → Prop
  | .visit _ _ e => e.tlsSend ≠ .fatal ∧ e.tlsSend ≠ .eof
  | .stopVisit _ _ _ => False
  | _ => True

theorem visit_noInDrop (lv : Bool) (rdy : Celi × Celi) (e : Env) (s : St) (hw : s.wasClosed = false)
    (h1 : e.pairSend ≠ .fatal) (h2 : e.pairSend ≠ .eof) :
    (visit false lv rdy e s).dropIn = s.dropIn ∧ (visit false lv rdy e s).wasClosed = false := by
  unfold visit
  split
  · exact ⟨rfl, hw⟩
  · generalize hs0 : mergeReady lv rdy s = s0
    have w0 : s0.wasClosed = false := by subst hs0; exact hw
    have d0 : s0.dropIn = s.dropIn := by subst hs0; rfl
    have ap := afterProcess_same (processUrh false e s0)
    rw [ap.1, ap.2.2, processUrh_wc, pre_open s0 w0]
    refine ⟨?_, w0⟩
    unfold processUrh
    simp only []
    rw [pre_open s0 w0, (post_in false _ _).2.1, pairSend_nodrop e _ h1 h2, (tlsSend_in e _).2.1, (pairRecv_in _ e _).2.1,
      tlsRecv_dropIn e s0]
    exact d0


theorem visit_noOutDrop (lv : Bool) (rdy : Celi × Celi) (e : Env) (s : St) (h1 : e.tlsSend ≠ .fatal) (h2 : e.tlsSend ≠ .eof) :
    (visit false lv rdy e s).dropOut = s.dropOut := by
  unfold visit
  split
  · rfl
  · generalize hs0 : mergeReady lv rdy s = s0
    have d0 : s0.dropOut = s.dropOut := by subst hs0; rfl
    rw [(afterProcess_same _).2.1]
    unfold processUrh
    simp only []
    rw [(post_open _ _).2.1, (pairSend_out e _).2.1, tlsSend_nodrop e _ h1 h2, (pairRecv_dropOut _ e _), (tlsRecv_out e _).2.1,
      (pre_out false s0).2.1]
    exact d0

/-- **No loss client → application** while the application has not closed, the daemon is not
    shutting down and no write to the application's socket failed hard: nothing is discarded -/
theorem run_noInDrop (ops : List Op) : ∀ (s : St), s.wasClosed = false → s.dropIn = [] → (∀ op ∈ ops, op.noInDrop) →
    (run s ops).dropIn = [] ∧ (run s ops).wasClosed = false := by
  induction ops with
  | nil => intro s a b _; exact ⟨b, a⟩
  | cons op ops ih =>
    intro s a b hl
    have h1 := hl op (by simp)
    have : (step s op).wasClosed = false ∧ (step s op).dropIn = [] := by
      cases op with
      | clientSend bs => exact ⟨a, b⟩
      | appSend bs => simp only [step]; split <;> exact ⟨a, b⟩
      | visit lv rdy e =>
        have := visit_noInDrop lv rdy e s a h1.1 h1.2
        exact ⟨this.2, by show (visit false lv rdy e s).dropIn = []; rw [this.1]; exact b⟩
      | appClose => exact absurd h1 (by simp [Op.noInDrop])
      | resumeScan => simp only [step, resumeScan]; repeat' split
                      all_goals exact ⟨a, b⟩
      | cleanup => simp only [step, cleanup]; split <;> exact ⟨a, b⟩
      | stopVisit lv rdy e => exact absurd h1 (by simp [Op.noInDrop])
    exact ih _ this.1 this.2 (fun o ho => hl o (by simp [ho]))

/-- **No loss application → client** while the daemon is not shutting down and no TLS write failed
    hard (the application closing its side discards nothing of what it wrote before) -/
theorem run_noOutDrop (ops : List Op) : ∀ (s : St), s.dropOut = [] → (∀ op ∈ ops, op.noOutDrop) → (run s ops).dropOut = [] := by
  induction ops with
  | nil => intro s b _; exact b
  | cons op ops ih =>
    intro s b hl
    have h1 := hl op (by simp)
    have : (step s op).dropOut = [] := by
      cases op with
      | clientSend bs => exact b
      | appSend bs => simp only [step]; split <;> exact b
      | visit lv rdy e => show (visit false lv rdy e s).dropOut = []; rw [visit_noOutDrop lv rdy e s h1.1 h1.2]; exact b
      | appClose => simp only [step, appClose]; split <;> exact b
      | resumeScan => simp only [step, resumeScan]; repeat' split
                      all_goals exact b
      | cleanup => simp only [step, cleanup]; split <;> exact b
      | stopVisit lv rdy e => exact absurd h1 (by simp [Op.noOutDrop])
    exact ih _ this (fun o ho => hl o (by simp [ho]))

end Mhd.UpgTls
