/-
  Loop invariant of `post_process_urlencoded` for well-formed input (`LInv`), proof that every
  iteration preserves it and decreases a measure (`step`), hence the loop ends with the invariant
  at the end of the chunk and never runs out of fuel (`loop_inv`).
-/
import Mhd.Proofs.PPValue
namespace Mhd.PP

/-- a field as lists of tokens: any conforming rendering of a key and a value -/
structure FieldT where
  k : List Tok
  v : List Tok

/-- well-formed: non-empty key, proper tokens, raw key fits the key buffer of `N` bytes -/
def FieldT.Ok (N : Nat) (f : FieldT) : Prop :=
  f.k ≠ [] ∧ AllOk f.k ∧ AllOk f.v ∧ (rawOf f.k).length < N

instance (N : Nat) (f : FieldT) : Decidable (f.Ok N) := by
  unfold FieldT.Ok AllOk; exact inferInstance

/-- `k1=v1&k2=v2&…` -/
def encF : List FieldT → Bytes
  | [] => []
  | f :: fs => rawOf f.k ++ cEq :: rawOf f.v ++ (match fs with | [] => [] | _ :: _ => cAmp :: encF fs)

/-- what follows a value: the trailing newlines, or `&` and the remaining fields -/
def tailF (rest : List FieldT) (nl : Bytes) : Bytes :=
  match rest with
  | [] => nl
  | _ :: _ => cAmp :: (encF rest ++ nl)

theorem encF_cons_nl (f : FieldT) (fs : List FieldT) (nl : Bytes) :
    encF (f :: fs) ++ nl = rawOf f.k ++ cEq :: (rawOf f.v ++ tailF fs nl) := by
  cases fs <;> simp [encF, tailF]

def IsNl (nl : Bytes) : Prop := ∀ c ∈ nl, c = cCR ∨ c = cLF

/-- the field the application must see: key as a C string, decoded value -/
def fld (f : FieldT) : Meta × Bytes := (urlMeta (cstr (decOf f.k)), decOf f.v)

/-- the part of the key that lies in the current chunk and is not yet in the key buffer -/
def pendKey (d : Bytes) (l : UL) : Bytes :=
  match l.startKey with
  | none => []
  | some sk => slice d sk (l.endKey.getD l.poff)

/-- key buffer + pending piece = `kd`, the received part of the raw key -/
structure KeyRaw (d : Bytes) (pp : PP) (l : UL) (kd : Bytes) : Prop where
  content : pp.buf.take pp.bufferPos ++ pendKey d l = kd
  inbuf : pp.bufferPos ≤ pp.buf.length
  must : 0 < pp.bufferPos → pp.mustUnescapeKey = true

/-- progress of the value of field `f`: `Wv` is the raw text not yet given to `process_value` -/
def ValSt (done : List FieldT) (f : FieldT) (pp : PP) (Wv : Bytes) : Prop :=
  ∃ vdone vrest es0 es1, f.v = vdone ++ vrest ∧ rawOf vrest = pp.xbuf ++ Wv ∧ Carry pp.xbuf vrest ∧
    pp.valueOffset = (decOf vdone).length ∧ pp.evs = es0 ++ es1 ∧ Delivers es0 (done.map fld) ∧
    Pieces (fld f).1 0 (decOf vdone) es1 ∧ (pp.mustIkvi = true → es1 = []) ∧ (pp.mustIkvi = false → es1 ≠ [])

/-- the key of the current field is complete: either still raw (key buffer + pending piece of this
    chunk, nothing of the value processed yet) or already unescaped in the key buffer -/
def KeySt (d : Bytes) (pp : PP) (l : UL) (f : FieldT) : Prop :=
  (KeyRaw d pp l (rawOf f.k) ∧ pp.mustIkvi = true ∧ pp.xbuf = [] ∧
    ((l.startKey = none ∧ l.endKey = none) ∨
      ∃ sk ek, l.startKey = some sk ∧ l.endKey = some ek ∧ sk < ek ∧ ek ≤ l.poff))
  ∨ (l.startKey = none ∧ l.endKey = none ∧ pp.mustUnescapeKey = false ∧ cstr pp.buf = cstr (decOf f.k)
      ∧ pp.mustIkvi = false)

/-- the value bytes scanned in this call and not yet processed -/
def scanned (d : Bytes) (l : UL) : Bytes :=
  match l.startValue with
  | none => []
  | some sv => slice d sv (l.endValue.getD l.poff)

/-- Loop invariant of `post_process_urlencoded` for well-formed input.
    `d` = the chunk, `F` = all later input, `all` = the fields, `nl` = the newlines after them. -/
inductive LInv (d F : Bytes) (N : Nat) (all : List FieldT) (nl : Bytes) : PP → UL → Prop
  | init (pp : PP) (l : UL) (done rem : List FieldT)
      (hst : pp.state = .init) (hall : all = done ++ rem)
      (hR : d.drop l.poff ++ F = encF rem ++ nl)
      (hev : Delivers pp.evs (done.map fld))
      (hbp : pp.bufferPos = 0) (hvo : pp.valueOffset = 0) (hxb : pp.xbuf = []) (hmu : pp.mustUnescapeKey = false)
      (hsk : l.startKey = none) (hek : l.endKey = none) (hsv : l.startValue = none) (hev' : l.endValue = none)
      (hle : ∀ x, l.lastEscape = some x → x < l.poff) : LInv d F N all nl pp l
  | key (pp : PP) (l : UL) (done : List FieldT) (f : FieldT) (rest : List FieldT) (kd kr : Bytes)
      (hst : pp.state = .processKey) (hall : all = done ++ f :: rest)
      (hk : rawOf f.k = kd ++ kr) (hkd : kd ≠ [])
      (hR : d.drop l.poff ++ F = kr ++ cEq :: (rawOf f.v ++ tailF rest nl))
      (hev : Delivers pp.evs (done.map fld))
      (hkey : KeyRaw d pp l kd)
      (hptr : (l.startKey = none ∧ l.poff = 0) ∨ ∃ sk, l.startKey = some sk ∧ sk < l.poff)
      (hek : l.endKey = none) (hsv : l.startValue = none) (hev' : l.endValue = none)
      (hmi : pp.mustIkvi = true) (hvo : pp.valueOffset = 0) (hxb : pp.xbuf = [])
      (hle : ∀ x, l.lastEscape = some x → x + 1 < l.poff) : LInv d F N all nl pp l
  | val (pp : PP) (l : UL) (done : List FieldT) (f : FieldT) (rest : List FieldT) (wrest : Bytes)
      (hst : pp.state = .processValue) (hall : all = done ++ f :: rest)
      (hR : d.drop l.poff ++ F = wrest ++ tailF rest nl)
      (hval : ValSt done f pp (scanned d l ++ wrest))
      (hkey : KeySt d pp l f)
      (hev' : l.endValue = none)
      (hsv : ∀ sv, l.startValue = some sv → sv ≤ l.poff)
      (hle : ∀ x, l.lastEscape = some x →
        (match l.startValue with
         | none => x + 2 < l.poff
         | some sv => (sv ≤ x ∧ x < l.poff ∧ d[x]? = some cPct) ∨ x + 2 < sv))
      (hlast : ∀ sv, l.startValue = some sv → sv < l.poff → d[l.poff - 1]? = some cPct → l.lastEscape = some (l.poff - 1)) :
      LInv d F N all nl pp l
  | cb (pp : PP) (l : UL) (done : List FieldT) (f : FieldT) (rest : List FieldT) (sv ev : Nat)
      (hst : pp.state = .callback) (hall : all = done ++ f :: rest)
      (hR : d.drop l.poff ++ F = encF rest ++ nl)
      (hsv : l.startValue = some sv) (hev' : l.endValue = some ev) (hse : sv ≤ ev) (hep : ev ≤ l.poff)
      (hval : ValSt done f pp (slice d sv ev))
      (hkey : KeySt d pp l f)
      (hle : ∀ x, l.lastEscape = some x → x < l.poff) : LInv d F N all nl pp l
  | done (pp : PP) (l : UL) (pre : Bytes)
      (hst : pp.state = .done) (hnl : nl = pre ++ (d.drop l.poff ++ F))
      (hev : Delivers pp.evs (all.map fld)) (hxb : pp.xbuf = [])
      (hsk : l.startKey = none) : LInv d F N all nl pp l

/-- facts that hold in every mode -/
structure Base (d : Bytes) (N : Nat) (pp : PP) (l : UL) : Prop where
  fault : pp.fault = none
  size : pp.bufferSize = N
  poff : l.poff ≤ d.length
  url : pp.isUrl = true

theorem raw_byte_ok {ts : List Tok} (hok : AllOk ts) {c : UInt8} (hc : c ∈ rawOf ts) :
    c ≠ cEq ∧ c ≠ cAmp ∧ c ≠ cLF ∧ c ≠ cCR := by
  induction ts with
  | nil => simp at hc
  | cons t ts ih =>
    simp only [rawOf_cons, List.mem_append] at hc
    have ht := hok.head
    rcases hc with hc | hc
    · cases t with
      | lit x =>
        simp [Tok.raw] at hc; subst hc
        simp [Tok.ok, litOk] at ht
        exact ⟨ht.1.1.2, ht.1.1.1.2, ht.2, ht.1.2⟩
      | esc a b =>
        simp [Tok.raw] at hc
        simp [Tok.ok] at ht
        have hx : ∀ x, isHex x = true → x ≠ cEq ∧ x ≠ cAmp ∧ x ≠ cLF ∧ x ≠ cCR := by
          intro x hx
          refine ⟨?_, ?_, ?_, ?_⟩ <;> (intro h; subst h; simp [isHex, hexVal, cEq, cAmp, cLF, cCR] at hx)
        rcases hc with hc | hc | hc
        · subst hc; decide
        · subst hc; exact hx _ ht.1
        · subst hc; exact hx _ ht.2
    · exact ih hok.tail hc

theorem drop_cons_at {d F : Bytes} {p : Nat} {c : UInt8} {R : Bytes} (hp : p < d.length)
    (h : d.drop p ++ F = c :: R) : d[p]? = some c ∧ d.drop (p + 1) ++ F = R := by
  rw [List.drop_eq_getElem_cons hp, List.cons_append] at h
  have h' := List.cons.inj h
  exact ⟨by rw [List.getElem?_eq_getElem hp, h'.1], h'.2⟩

theorem slice_snoc (d : Bytes) (s p : Nat) (c : UInt8) (hs : s ≤ p) (hc : d[p]? = some c) :
    slice d s (p + 1) = slice d s p ++ [c] := by
  rw [slice_split d s p (p + 1) hs (by omega), slice_one d p c hc]

def rank : St → Nat
  | .processKey => 2
  | .processValue => 2
  | .callback => 1
  | _ => 0

/-- termination measure of the loop of `post_process_urlencoded` -/
def mu (d : Bytes) (pp : PP) (l : UL) : Nat := 3 * (d.length - l.poff) + rank pp.state

theorem first_key_byte {f : FieldT} {N : Nat} (hf : f.Ok N) :
    ∃ c kr, rawOf f.k = c :: kr ∧ c ≠ cEq ∧ c ≠ cAmp ∧ c ≠ cLF ∧ c ≠ cCR := by
  obtain ⟨hne, hok, _, _⟩ := hf
  cases hk : f.k with
  | nil => exact absurd hk hne
  | cons t ts =>
    have : rawOf (t :: ts) ≠ [] := by cases t <;> simp [Tok.raw]
    cases hr : rawOf (t :: ts) with
    | nil => exact absurd hr this
    | cons c kr =>
      refine ⟨c, kr, rfl, ?_⟩
      apply raw_byte_ok (ts := t :: ts) (hk ▸ hok)
      rw [hr]; simp

theorem step_init {d F : Bytes} {N : Nat} {all : List FieldT} {nl : Bytes} {pp : PP} {l : UL}
    (hB : Base d N pp l) (hok : ∀ f ∈ all, f.Ok N) (hnl : IsNl nl) (hp : l.poff < d.length)
    (done rem : List FieldT)
    (hst : pp.state = .init) (hall : all = done ++ rem)
    (hR : d.drop l.poff ++ F = encF rem ++ nl)
    (hev : Delivers pp.evs (done.map fld))
    (hbp : pp.bufferPos = 0) (hvo : pp.valueOffset = 0) (hxb : pp.xbuf = []) (hmu : pp.mustUnescapeKey = false)
    (hsk : l.startKey = none) (hek : l.endKey = none) (hsv : l.startValue = none) (hev' : l.endValue = none)
    (hle : ∀ x, l.lastEscape = some x → x < l.poff) :
    Base d N (urlIter d pp l).1 (urlIter d pp l).2 ∧ LInv d F N all nl (urlIter d pp l).1 (urlIter d pp l).2 ∧
      mu d (urlIter d pp l).1 (urlIter d pp l).2 < mu d pp l := by
  cases rem with
  | nil =>
    -- only newlines are left
    have hR' : d.drop l.poff ++ F = nl := by simpa [encF] using hR
    cases hnl' : nl with
    | nil =>
      rw [hnl'] at hR'
      have := congrArg List.length hR'
      simp at this; omega
    | cons c nl' =>
      rw [hnl'] at hR'
      obtain ⟨hc, hR2⟩ := drop_cons_at hp hR'
      have hcn : c = cCR ∨ c = cLF := hnl c (by rw [hnl']; simp)
      have hceq : c ≠ cEq := by rcases hcn with h | h <;> (subst h; decide)
      have hcamp : c ≠ cAmp := by rcases hcn with h | h <;> (subst h; decide)
      have hcnl : c = cLF ∨ c = cCR := hcn.symm
      simp only [urlIter, hst, hc, urlInit, hceq, hcamp, hcnl, if_false, if_true]
      refine ⟨⟨hB.fault, hB.size, by simp; omega, hB.url⟩, ?_, ?_⟩
      · refine LInv.done _ _ [c] rfl ?_ ?_ hxb hsk
        · simp [hnl', hR2]
        · simpa [hall] using hev
      · simp [mu, rank, hst]; omega
  | cons f rest =>
    have hf : f.Ok N := hok f (by simp [hall])
    obtain ⟨c, kr, hk, h1, h2, h3, h4⟩ := first_key_byte hf
    rw [encF_cons_nl, hk] at hR
    obtain ⟨hc, hR2⟩ := drop_cons_at hp (by simpa using hR)
    have hcnl : ¬ (c = cLF ∨ c = cCR) := by
      rintro (h | h) <;> contradiction
    simp only [urlIter, hst, hc, urlInit, h1, h2, hcnl, if_false]
    refine ⟨⟨hB.fault, hB.size, by simp; omega, hB.url⟩, ?_, ?_⟩
    · refine LInv.key _ _ done f rest [c] kr rfl hall (by simpa using hk) (by simp) hR2 hev ?_ ?_ hek hsv hev' rfl hvo hxb ?_
      · refine ⟨?_, by simp [hbp], by simp [hbp]⟩
        simp [pendKey, hbp, hek, slice_one d l.poff c hc]
      · exact Or.inr ⟨l.poff, rfl, by simp⟩
      · intro x hx; have := hle x hx; simp; omega
    · simp [mu, rank, hst]; omega


theorem valSt_fresh {done : List FieldT} {f : FieldT} {pp : PP}
    (hev : Delivers pp.evs (done.map fld)) (hxb : pp.xbuf = []) (hvo : pp.valueOffset = 0)
    (hmi : pp.mustIkvi = true) : ValSt done f pp (rawOf f.v) :=
  ⟨[], f.v, pp.evs, [], by simp, by simp [hxb], Or.inl hxb, by simp [hvo], by simp, hev, by simp [Pieces],
    fun _ => rfl, fun h => by rw [hmi] at h; cases h⟩

theorem step_key {d F : Bytes} {N : Nat} {all : List FieldT} {nl : Bytes} {pp : PP} {l : UL}
    (hB : Base d N pp l) (hok : ∀ f ∈ all, f.Ok N) (hp : l.poff < d.length)
    (done : List FieldT) (f : FieldT) (rest : List FieldT) (kd kr : Bytes)
    (hst : pp.state = .processKey) (hall : all = done ++ f :: rest)
    (hk : rawOf f.k = kd ++ kr) (hkd : kd ≠ [])
    (hR : d.drop l.poff ++ F = kr ++ cEq :: (rawOf f.v ++ tailF rest nl))
    (hev : Delivers pp.evs (done.map fld))
    (hkey : KeyRaw d pp l kd)
    (hptr : (l.startKey = none ∧ l.poff = 0) ∨ ∃ sk, l.startKey = some sk ∧ sk < l.poff)
    (hek : l.endKey = none) (hsv : l.startValue = none) (hev' : l.endValue = none)
    (hmi : pp.mustIkvi = true) (hvo : pp.valueOffset = 0) (hxb : pp.xbuf = [])
    (hle : ∀ x, l.lastEscape = some x → x + 1 < l.poff) :
    Base d N (urlIter d pp l).1 (urlIter d pp l).2 ∧ LInv d F N all nl (urlIter d pp l).1 (urlIter d pp l).2 ∧
      mu d (urlIter d pp l).1 (urlIter d pp l).2 < mu d pp l := by
  have hf : f.Ok N := hok f (by simp [hall])
  cases kr with
  | nil =>
    -- the '=' that ends the key
    obtain ⟨hc, hR2⟩ := drop_cons_at hp (by simpa using hR)
    simp only [urlIter, hst, hc, urlKey, if_true]
    refine ⟨⟨hB.fault, hB.size, by simp; omega, hB.url⟩, ?_, ?_⟩
    · refine LInv.val _ _ done f rest (rawOf f.v) rfl hall hR2 ?_ ?_ hev' ?_ ?_ ?_
      · simp only [scanned, hsv, List.nil_append]
        exact valSt_fresh hev hxb hvo hmi
      · left
        refine ⟨?_, hmi, hxb, ?_⟩
        · obtain ⟨h1, h2, h3⟩ := hkey
          refine ⟨?_, h2, h3⟩
          simp only [List.append_nil] at hk
          rw [hk, ← h1]
          rcases hptr with ⟨hs, h0⟩ | ⟨sk, hs, hlt⟩
          · simp [pendKey, hs]
          · have : l.poff ≠ 0 := by omega
            simp [pendKey, hs, hek, this]
        · rcases hptr with ⟨hs, h0⟩ | ⟨sk, hs, hlt⟩
          · left; simp [hs, h0, hek]
          · right
            have : l.poff ≠ 0 := by omega
            exact ⟨sk, l.poff, by simp [hs], by simp [this], by omega, by simp⟩
      · intro sv h; simp [hsv] at h
      · intro x hx
        have := hle x hx
        simp only [hsv]
        show x + 2 < l.poff + 1
        omega
      · intro sv h; simp [hsv] at h
    · simp [mu, rank, hst]; omega
  | cons c kr' =>
    obtain ⟨hc, hR2⟩ := drop_cons_at hp (by simpa using hR)
    have hcm : c ∈ rawOf f.k := by rw [hk]; simp
    obtain ⟨h1, h2, h3, h4⟩ := raw_byte_ok hf.2.1 hcm
    have hcnl : ¬ (c = cLF ∨ c = cCR) := by
      rintro (h | h) <;> contradiction
    simp only [urlIter, hst, hc, urlKey, h1, h2, hcnl, if_false]
    refine ⟨⟨hB.fault, hB.size, by simp; omega, hB.url⟩, ?_, ?_⟩
    · refine LInv.key _ _ done f rest (kd ++ [c]) kr' hst hall (by simp [hk]) (by simp) hR2 hev ?_ ?_ hek hsv hev' hmi hvo hxb ?_
      · obtain ⟨k1, k2, k3⟩ := hkey
        refine ⟨?_, k2, k3⟩
        rw [← k1]
        rcases hptr with ⟨hs, h0⟩ | ⟨sk, hs, hlt⟩
        · simp [pendKey, hs, h0, hek]
          rw [h0] at hc
          simpa using slice_one d 0 c hc
        · have : l.poff ≠ 0 := by omega
          simp only [pendKey, hs, hek, this, if_false, Option.getD_none, List.append_assoc]
          rw [slice_snoc d sk l.poff c (by omega) hc]
      · rcases hptr with ⟨hs, h0⟩ | ⟨sk, hs, hlt⟩
        · right; exact ⟨0, by simp [h0], by simp⟩
        · right
          have : l.poff ≠ 0 := by omega
          exact ⟨sk, by simp [this, hs], by simp; omega⟩
      · intro x hx; have := hle x hx; simp; omega
    · simp [mu, rank, hst]; omega

theorem valSt_congr {done : List FieldT} {f : FieldT} {pp pp' : PP} {W W' : Bytes}
    (h : ValSt done f pp W) (hW : W = W') (h1 : pp'.xbuf = pp.xbuf) (h2 : pp'.valueOffset = pp.valueOffset)
    (h3 : pp'.evs = pp.evs) (h4 : pp'.mustIkvi = pp.mustIkvi) : ValSt done f pp' W' := by
  obtain ⟨a, b, c, e, g1, g2, g3, g4, g5, g6, g7, g8, g9⟩ := h
  exact ⟨a, b, c, e, g1, by rw [h1, ← hW]; exact g2, by rw [h1]; exact g3, by rw [h2]; exact g4,
    by rw [h3]; exact g5, g6, g7, by rw [h4]; exact g8, by rw [h4]; exact g9⟩

/-- the value is complete and at least one call was made: the field is delivered -/
theorem valSt_complete {done : List FieldT} {f : FieldT} {pp : PP}
    (h : ValSt done f pp []) (hm : pp.mustIkvi = false) :
    pp.xbuf = [] ∧ Delivers pp.evs ((done ++ [f]).map fld) := by
  obtain ⟨vdone, vrest, es0, es1, g1, g2, g3, g4, g5, g6, g7, g8, g9⟩ := h
  obtain ⟨hx, hv⟩ := carry_whole g3 (by simpa using g2)
  subst hv
  simp at g1
  refine ⟨hx, ?_⟩
  rw [g5, List.map_append]
  have : fld f = ((fld f).1, decOf vdone) := by rw [← g1]; rfl
  simp only [List.map_cons, List.map_nil]
  rw [this]
  exact Delivers.snoc g6 (g9 hm) g7

theorem keySt_congr {d : Bytes} {pp pp' : PP} {l l' : UL} {f : FieldT} (h : KeySt d pp l f)
    (hs : l'.startKey = l.startKey) (he : l'.endKey = l.endKey) (hp : l.poff ≤ l'.poff)
    (h1 : pp'.buf = pp.buf) (h2 : pp'.bufferPos = pp.bufferPos) (h3 : pp'.mustUnescapeKey = pp.mustUnescapeKey)
    (h4 : pp'.mustIkvi = pp.mustIkvi) (h5 : pp'.xbuf = pp.xbuf) : KeySt d pp' l' f := by
  rcases h with ⟨⟨k1, k2, k3⟩, hm, hx, hptr⟩ | ⟨a, b, c, e, g⟩
  · left
    refine ⟨⟨?_, by rw [h1, h2]; exact k2, by rw [h2, h3]; exact k3⟩, by rw [h4]; exact hm, by rw [h5]; exact hx, ?_⟩
    · rw [h1, h2, ← k1]
      rcases hptr with ⟨p1, p2⟩ | ⟨sk, ek, p1, p2, _, _⟩
      · simp [pendKey, hs, p1]
      · simp [pendKey, hs, he, p1, p2]
    · rcases hptr with ⟨p1, p2⟩ | ⟨sk, ek, p1, p2, p3, p4⟩
      · left; exact ⟨by rw [hs]; exact p1, by rw [he]; exact p2⟩
      · right; exact ⟨sk, ek, by rw [hs]; exact p1, by rw [he]; exact p2, p3, by omega⟩
  · right
    exact ⟨by rw [hs]; exact a, by rw [he]; exact b, by rw [h3]; exact c, by rw [h1]; exact e, by rw [h4]; exact g⟩

theorem keySt_dec_of_noIkvi {d : Bytes} {pp : PP} {l : UL} {f : FieldT} (h : KeySt d pp l f)
    (hm : pp.mustIkvi = false) :
    l.startKey = none ∧ l.endKey = none ∧ pp.mustUnescapeKey = false ∧ cstr pp.buf = cstr (decOf f.k) := by
  rcases h with ⟨_, hm', _⟩ | ⟨a, b, c, e, _⟩
  · rw [hm] at hm'; cases hm'
  · exact ⟨a, b, c, e⟩

/-- effective `start_value` after the first statement of `case PP_ProcessValue:` -/
theorem scanned_start (d : Bytes) (l : UL) (hev : l.endValue = none) (hsv : ∀ sv, l.startValue = some sv → sv ≤ l.poff) :
    scanned d l = slice d (l.startValue.getD l.poff) l.poff ∧ l.startValue.getD l.poff ≤ l.poff := by
  cases h : l.startValue with
  | none => simp [scanned, h, slice]
  | some sv => simp [scanned, h, hev]; exact hsv sv h


theorem urlValue_start (l0 : UL) :
    (if l0.startValue.isNone = true then { l0 with startValue := some l0.poff } else l0)
      = { l0 with startValue := some (l0.startValue.getD l0.poff) } := by
  cases l0 with
  | mk a b c sv e g => cases sv <;> simp

theorem step_val_byte {d F : Bytes} {N : Nat} {all : List FieldT} {nl : Bytes} {pp : PP} {l : UL}
    (hB : Base d N pp l) (hok : ∀ f ∈ all, f.Ok N) (hp : l.poff < d.length)
    (done : List FieldT) (f : FieldT) (rest : List FieldT) (c : UInt8) (w' : Bytes)
    (hst : pp.state = .processValue) (hall : all = done ++ f :: rest)
    (hR : d.drop l.poff ++ F = (c :: w') ++ tailF rest nl)
    (hval : ValSt done f pp (scanned d l ++ c :: w'))
    (hkey : KeySt d pp l f)
    (hev' : l.endValue = none)
    (hsv : ∀ sv, l.startValue = some sv → sv ≤ l.poff)
    (hle : ∀ x, l.lastEscape = some x →
      (match l.startValue with
       | none => x + 2 < l.poff
       | some sv => (sv ≤ x ∧ x < l.poff ∧ d[x]? = some cPct) ∨ x + 2 < sv))
    (hcok : c ≠ cEq ∧ c ≠ cAmp ∧ c ≠ cLF ∧ c ≠ cCR) :
    Base d N (urlIter d pp l).1 (urlIter d pp l).2 ∧ LInv d F N all nl (urlIter d pp l).1 (urlIter d pp l).2 ∧
      mu d (urlIter d pp l).1 (urlIter d pp l).2 < mu d pp l := by
  obtain ⟨hc, hR2⟩ := drop_cons_at hp (by simpa using hR)
  obtain ⟨h1, h2, h3, h4⟩ := hcok
  have hcnl : ¬ (c = cLF ∨ c = cCR) := by
    rintro (h | h) <;> contradiction
  obtain ⟨hsc, hsvp⟩ := scanned_start d l hev' hsv
  -- the common part of the three "advance" branches
  have key : ∀ (le' : Option Nat),
      (∀ x, le' = some x → (l.startValue.getD l.poff ≤ x ∧ x < l.poff + 1 ∧ d[x]? = some cPct) ∨ x + 2 < l.startValue.getD l.poff) →
      (d[l.poff]? = some cPct → le' = some l.poff) →
      LInv d F N all nl pp { l with startValue := some (l.startValue.getD l.poff), lastEscape := le', poff := l.poff + 1 } := by
    intro le' hle1 hle2
    refine LInv.val _ _ done f rest w' hst hall hR2 ?_ ?_ hev' ?_ ?_ ?_
    · apply valSt_congr hval _ rfl rfl rfl rfl
      have e1 : scanned d { l with startValue := some (l.startValue.getD l.poff), lastEscape := le', poff := l.poff + 1 }
          = slice d (l.startValue.getD l.poff) (l.poff + 1) := by simp [scanned, hev']
      rw [e1, slice_snoc d _ l.poff c hsvp hc, ← hsc]
      simp
    · exact keySt_congr hkey rfl rfl (by simp) rfl rfl rfl rfl rfl
    · intro sv h
      simp only [Option.some.injEq] at h
      show sv ≤ l.poff + 1
      omega
    · intro x hx; exact hle1 x hx
    · intro sv _ _ h
      simp at h ⊢
      exact hle2 h
  by_cases hpct : c = cPct
  · subst hpct
    simp only [urlIter, hst, hc, urlValue, urlValue_start, h1, h2, hcnl, if_false, if_true]
    refine ⟨⟨hB.fault, hB.size, by simp; omega, hB.url⟩, ?_, by simp [mu, rank, hst]; omega⟩
    exact key (some l.poff) (by intro x hx; cases hx; exact Or.inl ⟨hsvp, by omega, hc⟩) (fun _ => rfl)
  · have hne : d[l.poff]? ≠ some cPct := by rw [hc]; simpa using hpct
    by_cases hdig : isDigit c = true
    · simp only [urlIter, hst, hc, urlValue, urlValue_start, h1, h2, hcnl, hpct, hdig, if_false, if_true]
      refine ⟨⟨hB.fault, hB.size, by simp; omega, hB.url⟩, ?_, by simp [mu, rank, hst]; omega⟩
      refine key l.lastEscape ?_ (fun h => absurd h hne)
      intro x hx
      have := hle x hx
      cases hs : l.startValue with
      | none => rw [hs] at this; right; simp; omega
      | some sv =>
        rw [hs] at this
        rcases this with ⟨a, b, e⟩ | h
        · left; exact ⟨by simpa using a, by omega, e⟩
        · right; simpa using h
    · simp only [urlIter, hst, hc, urlValue, urlValue_start, h1, h2, hcnl, hpct, hdig, if_false]
      refine ⟨⟨hB.fault, hB.size, by simp; omega, hB.url⟩, ?_, by simp [mu, rank, hst]; omega⟩
      exact key none (by intro x hx; cases hx) (fun h => absurd h hne)

theorem hle_lt {d : Bytes} {l : UL} (hsv : ∀ sv, l.startValue = some sv → sv ≤ l.poff)
    (hle : ∀ x, l.lastEscape = some x →
      (match l.startValue with
       | none => x + 2 < l.poff
       | some sv => (sv ≤ x ∧ x < l.poff ∧ d[x]? = some cPct) ∨ x + 2 < sv)) :
    ∀ x, l.lastEscape = some x → x < l.poff := by
  intro x hx
  have := hle x hx
  cases hs : l.startValue with
  | none => rw [hs] at this; omega
  | some sv =>
    rw [hs] at this
    have := hsv sv hs
    rcases ‹_ ∨ _› with ⟨_, b, _⟩ | h <;> omega

theorem step_val_amp {d F : Bytes} {N : Nat} {all : List FieldT} {nl : Bytes} {pp : PP} {l : UL}
    (hB : Base d N pp l) (hp : l.poff < d.length)
    (done : List FieldT) (f g : FieldT) (rest : List FieldT)
    (hst : pp.state = .processValue) (hall : all = done ++ f :: g :: rest)
    (hR : d.drop l.poff ++ F = tailF (g :: rest) nl)
    (hval : ValSt done f pp (scanned d l))
    (hkey : KeySt d pp l f)
    (hev' : l.endValue = none)
    (hsv : ∀ sv, l.startValue = some sv → sv ≤ l.poff)
    (hle : ∀ x, l.lastEscape = some x → x < l.poff) :
    Base d N (urlIter d pp l).1 (urlIter d pp l).2 ∧ LInv d F N all nl (urlIter d pp l).1 (urlIter d pp l).2 ∧
      mu d (urlIter d pp l).1 (urlIter d pp l).2 < mu d pp l := by
  obtain ⟨hc, hR2⟩ := drop_cons_at hp (by simpa [tailF] using hR)
  obtain ⟨hsc, hsvp⟩ := scanned_start d l hev' hsv
  have hne : cAmp ≠ cEq := by decide
  simp only [urlIter, hst, hc, urlValue, urlValue_start, hne, if_false, if_true]
  by_cases hcb : pp.mustIkvi = true ∨ some (l.startValue.getD l.poff) ≠ some l.poff ∨ pp.xbuf.length ≠ 0
  · simp only [hcb, if_true]
    refine ⟨⟨hB.fault, hB.size, by simp; omega, hB.url⟩, ?_, by simp [mu, rank, hst]; omega⟩
    refine LInv.cb _ _ done f (g :: rest) (l.startValue.getD l.poff) l.poff rfl hall hR2 rfl rfl hsvp (by simp) ?_ ?_ ?_
    · exact valSt_congr hval hsc rfl rfl rfl rfl
    · exact keySt_congr hkey rfl rfl (by simp) rfl rfl rfl rfl rfl
    · intro x hx; have := hle x hx; simp; omega
  · simp only [hcb, if_false]
    have hm : pp.mustIkvi = false := by
      cases h : pp.mustIkvi with
      | false => rfl
      | true => exact absurd (Or.inl h) hcb
    have hs0 : l.startValue.getD l.poff = l.poff := by
      by_cases h : l.startValue.getD l.poff = l.poff
      · exact h
      · exact absurd (Or.inr (Or.inl (by simpa using h))) hcb
    have hnil : scanned d l = [] := by rw [hsc, hs0]; simp [slice]
    rw [hnil] at hval
    obtain ⟨hx, hdel⟩ := valSt_complete hval hm
    obtain ⟨k1, k2, k3, _⟩ := keySt_dec_of_noIkvi hkey hm
    refine ⟨⟨hB.fault, hB.size, by simp; omega, hB.url⟩, ?_, by simp [mu, rank, hst]; omega⟩
    exact LInv.init _ _ (done ++ [f]) (g :: rest) rfl (by simp [hall]) hR2 hdel rfl rfl hx k3 k1 k2 rfl rfl
      (by intro x hx; have := hle x hx; simp; omega)

theorem step_val_nl {d F : Bytes} {N : Nat} {all : List FieldT} {nl : Bytes} {pp : PP} {l : UL}
    (hB : Base d N pp l) (hnl : IsNl nl) (hp : l.poff < d.length)
    (done : List FieldT) (f : FieldT)
    (hst : pp.state = .processValue) (hall : all = done ++ [f])
    (hR : d.drop l.poff ++ F = nl)
    (hval : ValSt done f pp (scanned d l))
    (hkey : KeySt d pp l f)
    (hev' : l.endValue = none)
    (hsv : ∀ sv, l.startValue = some sv → sv ≤ l.poff)
    (hle : ∀ x, l.lastEscape = some x → x < l.poff) :
    Base d N (urlIter d pp l).1 (urlIter d pp l).2 ∧ LInv d F N all nl (urlIter d pp l).1 (urlIter d pp l).2 ∧
      mu d (urlIter d pp l).1 (urlIter d pp l).2 < mu d pp l := by
  cases hnl' : nl with
  | nil =>
    rw [hnl'] at hR
    have := congrArg List.length hR
    simp at this; omega
  | cons c nl' =>
    have hR' := hR
    rw [hnl'] at hR'
    obtain ⟨hc, hR2⟩ := drop_cons_at hp hR'
    have hcn : c = cCR ∨ c = cLF := hnl c (by rw [hnl']; simp)
    have hceq : c ≠ cEq := by rcases hcn with h | h <;> (subst h; decide)
    have hcamp : c ≠ cAmp := by rcases hcn with h | h <;> (subst h; decide)
    have hcnl : c = cLF ∨ c = cCR := hcn.symm
    obtain ⟨hsc, hsvp⟩ := scanned_start d l hev' hsv
    simp only [urlIter, hst, hc, urlValue, urlValue_start, hceq, hcamp, hcnl, if_false, if_true]
    by_cases hcb : pp.mustIkvi = true ∨ some (l.startValue.getD l.poff) ≠ some l.poff ∨ pp.xbuf.length ≠ 0
    · simp only [hcb, if_true]
      refine ⟨⟨hB.fault, hB.size, hB.poff, hB.url⟩, ?_, by simp [mu, rank, hst]⟩
      refine LInv.cb _ _ done f [] (l.startValue.getD l.poff) l.poff rfl hall (by simpa [encF, hnl'] using hR) rfl rfl hsvp
        (Nat.le_refl _) ?_ ?_ hle
      · exact valSt_congr hval hsc rfl rfl rfl rfl
      · exact keySt_congr hkey rfl rfl (Nat.le_refl _) rfl rfl rfl rfl rfl
    · simp only [hcb, if_false]
      have hm : pp.mustIkvi = false := by
        cases h : pp.mustIkvi with
        | false => rfl
        | true => exact absurd (Or.inl h) hcb
      have hs0 : l.startValue.getD l.poff = l.poff := by
        by_cases h : l.startValue.getD l.poff = l.poff
        · exact h
        · exact absurd (Or.inr (Or.inl (by simpa using h))) hcb
      have hnil : scanned d l = [] := by rw [hsc, hs0]; simp [slice]
      rw [hnil] at hval
      obtain ⟨hx, hdel⟩ := valSt_complete hval hm
      obtain ⟨k1, k2, k3, _⟩ := keySt_dec_of_noIkvi hkey hm
      refine ⟨⟨hB.fault, hB.size, by simp; omega, hB.url⟩, ?_, by simp [mu, rank, hst]; omega⟩
      exact LInv.done _ _ [c] rfl (by simp [hR2]) (by rw [hall]; exact hdel) hx k1

theorem writeZ_inside (l : Bytes) (off : Nat) (bs : Bytes) (h : off ≤ l.length) :
    writeZ l off bs = l.take off ++ bs ++ l.drop (off + bs.length) := by
  simp [writeZ, Nat.sub_eq_zero_of_le h]

theorem writeZ_take (l : Bytes) (off : Nat) (bs : Bytes) (h : off ≤ l.length) :
    (writeZ l off bs).take (off + bs.length) = l.take off ++ bs := by
  rw [writeZ_inside l off bs h]
  have : (l.take off ++ bs).length = off + bs.length := by simp [List.length_take, Nat.min_eq_left h]
  rw [← this, List.take_left']
  rfl

theorem writeZ_length (l : Bytes) (off : Nat) (bs : Bytes) (h : off ≤ l.length) :
    off + bs.length ≤ (writeZ l off bs).length := by
  rw [writeZ_inside l off bs h]
  simp [List.length_take, Nat.min_eq_left h]

theorem cstr_append_zero (a b : Bytes) : cstr (a ++ 0 :: b) = cstr a := by
  induction a with
  | nil => simp [cstr]
  | cons x t ih =>
    unfold cstr at ih ⊢
    rw [List.cons_append, List.takeWhile_cons, List.takeWhile_cons, ih]

theorem cstr_raw_zero (ts : List Tok) (hok : AllOk ts) (b : Bytes) : cstr (rawOf ts ++ 0 :: b) = rawOf ts := by
  rw [cstr_append_zero, cstr_of_no_zero _ (raw_no_zero ts hok)]

/-- `unescapeKey` when the key buffer holds the complete raw key -/
theorem unescapeKey_spec (pp : PP) (ks : List Tok) (hok : AllOk ks)
    (hc : pp.buf.take pp.bufferPos = rawOf ks) (hin : pp.bufferPos ≤ pp.buf.length) (hsz : pp.bufferPos ≤ pp.bufferSize) :
    ∃ B, unescapeKey pp = { pp with buf := B, mustUnescapeKey := false } ∧ cstr B = cstr (decOf ks) := by
  have hg : ¬ pp.bufferPos > pp.bufferSize := by omega
  refine ⟨writeZ (writeZ pp.buf pp.bufferPos [0]) 0 (unescape (writeZ pp.buf pp.bufferPos [0]) ++ [0]),
    by simp only [unescapeKey, hg, if_false], ?_⟩
  have ha : writeZ pp.buf pp.bufferPos [0] = rawOf ks ++ 0 :: pp.buf.drop (pp.bufferPos + 1) := by
    rw [writeZ_inside _ _ _ hin, hc]; simp
  have hu : unescape (writeZ pp.buf pp.bufferPos [0]) = decOf ks := by
    rw [unescape, ha, cstr_raw_zero ks hok, pctDecode_plusSp_raw ks hok]
  rw [hu, writeZ_inside _ 0 _ (Nat.zero_le _)]
  simp only [List.take_zero, List.nil_append, List.append_assoc, List.singleton_append]
  exact cstr_append_zero _ _

theorem appendKey_spec (d : Bytes) (pp : PP) (s n : Nat) (K : Bytes) (hs : s + n ≤ d.length)
    (hc : pp.buf.take pp.bufferPos ++ slice d s (s + n) = K) (hin : pp.bufferPos ≤ pp.buf.length) :
    ∃ B, appendKey d pp s n = { pp with buf := B, bufferPos := pp.bufferPos + n, mustUnescapeKey := true } ∧
      B.take (pp.bufferPos + n) = K ∧ pp.bufferPos + n ≤ B.length := by
  have hg : ¬ s + n > d.length := by omega
  have hl : (slice d s (s + n)).length = n := by rw [slice_length d s (s + n) hs]; omega
  refine ⟨writeZ pp.buf pp.bufferPos (slice d s (s + n)), by simp only [appendKey, hg, if_false], ?_, ?_⟩
  · have := writeZ_take pp.buf pp.bufferPos (slice d s (s + n)) hin
    rw [hl] at this; rw [this, hc]
  · have := writeZ_length pp.buf pp.bufferPos (slice d s (s + n)) hin
    rw [hl] at this; exact this

/-- `pp'` is `pp` with the key of field `f` completed and unescaped in the key buffer -/
def KeyFinal (pp pp' : PP) (f : FieldT) : Prop :=
  pp'.isUrl = pp.isUrl ∧ pp'.fault = pp.fault ∧ pp'.state = pp.state ∧ pp'.bufferSize = pp.bufferSize ∧ pp'.xbuf = pp.xbuf ∧
  pp'.valueOffset = pp.valueOffset ∧ pp'.evs = pp.evs ∧ pp'.mustIkvi = pp.mustIkvi ∧
  pp'.mustUnescapeKey = false ∧ cstr pp'.buf = cstr (decOf f.k)

theorem ul_eta_keys (l : UL) (h1 : l.startKey = none) (h2 : l.endKey = none) :
    l = { l with startKey := none, endKey := none } := by
  cases l; simp_all

theorem keyRaw_len {d : Bytes} {pp : PP} {l : UL} {kd : Bytes} (h : KeyRaw d pp l kd) :
    kd.length = pp.bufferPos + (pendKey d l).length := by
  rw [← h.content, List.length_append, List.length_take, Nat.min_eq_left h.inbuf]

theorem cbKey_spec {d : Bytes} {N : Nat} {pp : PP} {l : UL} {f : FieldT}
    (hB : Base d N pp l) (hf : f.Ok N) (hkey : KeySt d pp l f) :
    KeyFinal pp (urlCallbackKey d pp l).1 f ∧
      (urlCallbackKey d pp l).2 = { l with startKey := none, endKey := none } := by
  obtain ⟨hne, hokk, _, hlen⟩ := hf
  have hrawne : rawOf f.k ≠ [] := fun h => hne (rawOf_eq_nil h)
  rcases hkey with ⟨hkr, hm, hx, hptr⟩ | ⟨a, b, c, e, g⟩
  · rcases hptr with ⟨p1, p2⟩ | ⟨sk, ek, p1, p2, p3, p4⟩
    · -- whole key already in the key buffer
      have hpend : pendKey d l = [] := by simp [pendKey, p1]
      have hc : pp.buf.take pp.bufferPos = rawOf f.k := by simpa [hpend] using hkr.content
      have hbp : 0 < pp.bufferPos := by
        have h1 := keyRaw_len hkr
        rw [hpend] at h1
        simp only [List.length_nil, Nat.add_zero] at h1
        have h2 : (rawOf f.k).length ≠ 0 := fun h => hrawne (List.length_eq_zero_iff.mp h)
        omega
      have hmust := hkr.must hbp
      have hsz : pp.bufferPos ≤ pp.bufferSize := by
        have h1 := keyRaw_len hkr
        rw [hpend] at h1
        simp only [List.length_nil, Nat.add_zero] at h1
        rw [hB.size]; omega
      obtain ⟨B, hB1, hB2⟩ := unescapeKey_spec pp f.k hokk hc hkr.inbuf hsz
      have hfs : pp.fault.isSome = false := by rw [hB.fault]; rfl
      simp only [urlCallbackKey, p1, p2, ptrLen, ne_eq, not_true_eq_false, false_and, if_false, hfs,
        Bool.false_eq_true, hmust, if_true]
      rw [hB1]
      exact ⟨⟨rfl, rfl, rfl, rfl, rfl, rfl, rfl, rfl, rfl, hB2⟩, ul_eta_keys l p1 p2⟩
    · -- a piece of the key is still in the chunk
      have hpend : pendKey d l = slice d sk ek := by simp [pendKey, p1, p2]
      have hek : ek ≤ d.length := Nat.le_trans p4 hB.poff
      have hpl : (slice d sk ek).length = ek - sk := slice_length d sk ek hek
      have hklen : (rawOf f.k).length = pp.bufferPos + (ek - sk) := by
        have := keyRaw_len hkr; rw [hpend, hpl] at this; exact this
      have hske : sk + (ek - sk) = ek := by omega
      obtain ⟨B, hB1, hB2, hB3⟩ := appendKey_spec d pp sk (ek - sk) (rawOf f.k) (by omega)
        (by rw [hske, ← hpend]; exact hkr.content) hkr.inbuf
      have hle : sk ≤ ek := by omega
      have hk0 : ek - sk ≠ 0 := by omega
      have hfit : ¬ (pp.bufferPos + (ek - sk) ≥ pp.bufferSize) := by rw [hB.size]; omega
      obtain ⟨B', hB1', hB2'⟩ := unescapeKey_spec { pp with buf := B, bufferPos := pp.bufferPos + (ek - sk), mustUnescapeKey := true }
        f.k hokk hB2 hB3 (by show pp.bufferPos + (ek - sk) ≤ pp.bufferSize; rw [hB.size]; omega)
      have hfs : (appendKey d pp sk (ek - sk)).fault.isSome = false := by rw [hB1]; show pp.fault.isSome = false; rw [hB.fault]; rfl
      have hms : (appendKey d pp sk (ek - sk)).mustUnescapeKey = true := by rw [hB1]
      simp only [urlCallbackKey, p1, p2, ptrLen, hle, if_true, ne_eq, hk0, not_false_eq_true, true_and, hfit, if_false,
        Option.getD_some, hfs, Bool.false_eq_true, hms]
      rw [hB1, hB1']
      exact ⟨⟨rfl, rfl, rfl, rfl, rfl, rfl, rfl, rfl, rfl, hB2'⟩, trivial⟩
  · have hfs : pp.fault.isSome = false := by rw [hB.fault]; rfl
    simp only [urlCallbackKey, a, b, ptrLen, ne_eq, not_true_eq_false, false_and, if_false, hfs,
      Bool.false_eq_true, c]
    exact ⟨⟨rfl, rfl, rfl, rfl, rfl, rfl, rfl, rfl, c, e⟩, ul_eta_keys l a b⟩

theorem fld_meta (f : FieldT) (pp : PP) (h : cstr pp.buf = cstr (decOf f.k)) : urlMeta pp.keyStr = (fld f).1 := by
  simp [PP.keyStr, fld, h]

theorem carry_len {p : Bytes} {ts : List Tok} (hc : Carry p ts) (hok : AllOk ts) : p.length ≤ 2 := by
  rcases carry_forms hc hok with h | h | ⟨a, _, h⟩ <;> simp [h]

/-- `process_value` advances the value status: the scanned piece is decoded and delivered -/
theorem value_process {d : Bytes} {pp : PP} {done : List FieldT} {f : FieldT} {sv ev : Nat} (le : Option Nat) (W : Bytes)
    (last : Bool)
    (hval : ValSt done f pp (slice d sv ev ++ W)) (hkf : cstr pp.buf = cstr (decOf f.k)) (hokv : AllOk f.v)
    (hse : sv ≤ ev) (hed : ev ≤ d.length) (hlast : last = true → W = []) :
    ∃ p vo es, processValue d pp (some sv) (some ev) le last =
        { pp with xbuf := p, valueOffset := vo, mustIkvi := false, evs := es } ∧
      ValSt done f { pp with xbuf := p, valueOffset := vo, mustIkvi := false, evs := es } W := by
  obtain ⟨vdone, vrest, es0, es1, g1, g2, g3, g4, g5, g6, g7, g8, g9⟩ := hval
  have hokr : AllOk vrest := by rw [g1] at hokv; exact hokv.append_right
  obtain ⟨ts1, ts2, p, es, f1, f2, f3, f4, f5, f6, f7⟩ :=
    processValue_spec d pp sv ev le vrest W last hokr (by rw [g2]; simp) (carry_len g3 hokr) hse hed hlast
  refine ⟨p, pp.valueOffset + (decOf ts1).length, pp.evs ++ es, f7, ?_⟩
  refine ⟨vdone ++ ts1, ts2, es0, es1 ++ es, by rw [g1, f1]; simp, f4, f3, by simp [g4], by simp [g5], g6, ?_, ?_, ?_⟩
  · rw [decOf_append]
    apply Pieces.append g7
    rw [fld_meta f pp hkf, g4] at f5
    simpa using f5
  · intro h; cases h
  · intro _
    cases hm : pp.mustIkvi with
    | true => have := f6 hm; simp [this]
    | false => have := g9 hm; simp [this]

theorem step_cb {d F : Bytes} {N : Nat} {all : List FieldT} {nl : Bytes} {pp : PP} {l : UL}
    (hB : Base d N pp l) (hok : ∀ f ∈ all, f.Ok N)
    (done : List FieldT) (f : FieldT) (rest : List FieldT) (sv ev : Nat)
    (hst : pp.state = .callback) (hall : all = done ++ f :: rest)
    (hR : d.drop l.poff ++ F = encF rest ++ nl)
    (hsv : l.startValue = some sv) (hev' : l.endValue = some ev) (hse : sv ≤ ev) (hep : ev ≤ l.poff)
    (hval : ValSt done f pp (slice d sv ev))
    (hkey : KeySt d pp l f)
    (hle : ∀ x, l.lastEscape = some x → x < l.poff) :
    Base d N (urlIter d pp l).1 (urlIter d pp l).2 ∧ LInv d F N all nl (urlIter d pp l).1 (urlIter d pp l).2 ∧
      mu d (urlIter d pp l).1 (urlIter d pp l).2 < mu d pp l := by
  have hf : f.Ok N := hok f (by simp [hall])
  obtain ⟨⟨k0, k1, k2, k3, k4, k5, k6, k7, k8, k9⟩, hl1⟩ := cbKey_spec hB hf hkey
  generalize hr : urlCallbackKey d pp l = r at *
  obtain ⟨pp2, l1⟩ := r
  subst hl1
  have hval2 : ValSt done f pp2 (slice d sv ev ++ []) := by
    simpa using valSt_congr hval rfl k4 k5 k6 k7
  obtain ⟨p, vo, es, hpv, hval3⟩ := value_process none [] true hval2 k9 hf.2.2.1 hse (Nat.le_trans hep hB.poff)
    (fun _ => rfl)
  obtain ⟨hx, hdel⟩ := valSt_complete hval3 rfl
  have hne : pp2.state ≠ .error := by rw [k2, hst]; decide
  simp only [urlIter, hst, urlCallback, hr, hne, if_false, hsv, hev', hpv]
  simp only at hx hdel
  refine ⟨⟨by show pp2.fault = none; rw [k1]; exact hB.fault, by show pp2.bufferSize = N; rw [k3]; exact hB.size, hB.poff, by show pp2.isUrl = true; rw [k0]; exact hB.url⟩,
    ?_, by simp [mu, rank, hst, hne]⟩
  exact LInv.init _ _ (done ++ [f]) rest rfl (by simp [hall]) hR hdel rfl rfl hx k8 rfl rfl rfl rfl hle

theorem step_done {d F : Bytes} {N : Nat} {all : List FieldT} {nl : Bytes} {pp : PP} {l : UL}
    (hB : Base d N pp l) (hnl : IsNl nl) (hp : l.poff < d.length) (pre : Bytes)
    (hst : pp.state = .done) (hnle : nl = pre ++ (d.drop l.poff ++ F))
    (hev : Delivers pp.evs (all.map fld)) (hxb : pp.xbuf = []) (hsk : l.startKey = none) :
    Base d N (urlIter d pp l).1 (urlIter d pp l).2 ∧ LInv d F N all nl (urlIter d pp l).1 (urlIter d pp l).2 ∧
      mu d (urlIter d pp l).1 (urlIter d pp l).2 < mu d pp l := by
  have hdrop : d.drop l.poff ++ F = d[l.poff] :: (d.drop (l.poff + 1) ++ F) := by
    rw [List.drop_eq_getElem_cons hp]; rfl
  obtain ⟨hc, hR2⟩ := drop_cons_at hp hdrop
  have hcn : d[l.poff] = cCR ∨ d[l.poff] = cLF := hnl _ (by rw [hnle, hdrop]; simp)
  have hcnl : d[l.poff] = cLF ∨ d[l.poff] = cCR := hcn.symm
  simp only [urlIter, hst, hc, urlDone, hcnl, if_true]
  refine ⟨⟨hB.fault, hB.size, by simp; omega, hB.url⟩, ?_, by simp [mu, rank, hst]; omega⟩
  exact LInv.done _ _ (pre ++ [d[l.poff]]) hst (by rw [hnle, hdrop]; simp) hev hxb hsk

theorem LInv.state_ne_error {d F : Bytes} {N : Nat} {all : List FieldT} {nl : Bytes} {pp : PP} {l : UL}
    (h : LInv d F N all nl pp l) : pp.state ≠ .error := by
  cases h <;> simp_all

/-- every iteration of the loop preserves the invariant and decreases the measure -/
theorem step {d F : Bytes} {N : Nat} {all : List FieldT} {nl : Bytes} {pp : PP} {l : UL}
    (hB : Base d N pp l) (hok : ∀ f ∈ all, f.Ok N) (hnl : IsNl nl) (hI : LInv d F N all nl pp l)
    (hc : l.poff < d.length ∨ pp.state = .callback) :
    Base d N (urlIter d pp l).1 (urlIter d pp l).2 ∧ LInv d F N all nl (urlIter d pp l).1 (urlIter d pp l).2 ∧
      mu d (urlIter d pp l).1 (urlIter d pp l).2 < mu d pp l := by
  cases hI with
  | init done rem hst hall hR hev hbp hvo hxb hmu hsk hek hsv hev' hle =>
    have hp : l.poff < d.length := by
      rcases hc with h | h
      · exact h
      · rw [hst] at h; cases h
    exact step_init hB hok hnl hp done rem hst hall hR hev hbp hvo hxb hmu hsk hek hsv hev' hle
  | key done f rest kd kr hst hall hk hkd hR hev hkey hptr hek hsv hev' hmi hvo hxb hle =>
    have hp : l.poff < d.length := by
      rcases hc with h | h
      · exact h
      · rw [hst] at h; cases h
    exact step_key hB hok hp done f rest kd kr hst hall hk hkd hR hev hkey hptr hek hsv hev' hmi hvo hxb hle
  | val done f rest wrest hst hall hR hval hkey hev' hsv hle hlast =>
    have hp : l.poff < d.length := by
      rcases hc with h | h
      · exact h
      · rw [hst] at h; cases h
    cases wrest with
    | nil =>
      simp only [List.append_nil] at hval
      simp only [List.nil_append] at hR
      cases rest with
      | nil =>
        exact step_val_nl hB hnl hp done f hst hall (by simpa [tailF] using hR) hval hkey hev' hsv (hle_lt hsv hle)
      | cons g rest' =>
        exact step_val_amp hB hp done f g rest' hst hall hR hval hkey hev' hsv (hle_lt hsv hle)
    | cons c w' =>
      have hf : f.Ok N := hok f (by simp [hall])
      obtain ⟨vdone, vrest, es0, es1, g1, g2, _⟩ := hval
      have hokr : AllOk vrest := by have := hf.2.2.1; rw [g1] at this; exact this.append_right
      have hcm : c ∈ rawOf vrest := by rw [g2]; simp
      exact step_val_byte hB hok hp done f rest c w' hst hall hR
        ⟨vdone, vrest, es0, es1, g1, g2, ‹_›⟩ hkey hev' hsv hle (raw_byte_ok hokr hcm)
  | cb done f rest sv ev hst hall hR hsv hev' hse hep hval hkey hle =>
    exact step_cb hB hok done f rest sv ev hst hall hR hsv hev' hse hep hval hkey hle
  | done pre hst hnle hev hxb hsk =>
    have hp : l.poff < d.length := by
      rcases hc with h | h
      · exact h
      · rw [hst] at h; cases h
    exact step_done hB hnl hp pre hst hnle hev hxb hsk

theorem loop_inv {d F : Bytes} {N : Nat} {all : List FieldT} {nl : Bytes}
    (hok : ∀ f ∈ all, f.Ok N) (hnl : IsNl nl) :
    ∀ (fuel : Nat) (pp : PP) (l : UL), Base d N pp l → LInv d F N all nl pp l → mu d pp l < fuel →
      Base d N (urlLoop fuel d pp l).1 (urlLoop fuel d pp l).2 ∧
      LInv d F N all nl (urlLoop fuel d pp l).1 (urlLoop fuel d pp l).2 ∧
      (urlLoop fuel d pp l).2.poff = d.length ∧ (urlLoop fuel d pp l).1.state ≠ .callback := by
  intro fuel
  induction fuel with
  | zero => intro pp l _ _ h; omega
  | succ n ih =>
    intro pp l hB hI hmu
    rw [urlLoop]
    have hne := hI.state_ne_error
    by_cases hc : l.poff < d.length ∨ pp.state = .callback
    · simp only [hc, hne, ne_eq, not_false_eq_true, and_self, if_true]
      obtain ⟨hB', hI', hlt⟩ := step hB hok hnl hI hc
      exact ih _ _ hB' hI' (by omega)
    · have : ¬ ((l.poff < d.length ∨ pp.state = .callback) ∧ pp.state ≠ .error) := fun h => hc h.1
      simp only [this, if_false]
      refine ⟨hB, hI, ?_, fun h => hc (Or.inr h)⟩
      have := hB.poff
      have : ¬ l.poff < d.length := fun h => hc (Or.inl h)
      omega

end Mhd.PP
