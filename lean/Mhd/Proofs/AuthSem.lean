/-
  C14 helper lemmas, part 4: meaning of the recorded (slice, quoted) pairs; the if-chains of
  get_rq_dauth_algo / get_rq_dauth_qop (regenerated) against the reference table; parse ∘ render.
-/
import Mhd.Proofs.AuthRender
import Mhd.Model.AuthInfo
namespace Mhd.Auth
open Mhd.Gen.Auth

theorem eqClN_comm (a b : Bytes) : eqClN a b = eqClN b a := by
  induction a generalizing b with
  | nil => cases b <;> simp [eqClN]
  | cons x xs ih => cases b with
    | nil => simp [eqClN]
    | cons y ys => simp [eqClN, eqCl_comm x y, ih ys]

theorem eqClN_length (a b : Bytes) (h : eqClN a b = true) : a.length = b.length := by
  induction a generalizing b with
  | nil => cases b <;> simp_all [eqClN]
  | cons x xs ih => cases b with
    | nil => simp [eqClN] at h
    | cons y ys => simp only [eqClN, Bool.and_eq_true] at h; simp [ih ys h.2]

theorem eqClS_eq (tok s : Bytes) : eqClS tok s = eqClN tok s := by
  unfold eqClS
  cases h : eqClN tok s
  · simp
  · simp [eqClN_length _ _ h]

theorem eqQuotedLoop_nil_nil : eqQuotedLoop [] [] = true := by rw [eqQuotedLoop.eq_def]
theorem eqQuotedLoop_nil_cons (u : UInt8) (us : Bytes) : eqQuotedLoop [] (u :: us) = false := by rw [eqQuotedLoop.eq_def]
theorem eqQuotedLoop_cons_nil (q : UInt8) (qs : Bytes) : eqQuotedLoop (q :: qs) [] = false := by rw [eqQuotedLoop.eq_def]
theorem eqQuotedLoop_esc (q2 u : UInt8) (qs us : Bytes) :
    eqQuotedLoop (92 :: q2 :: qs) (u :: us) = (eqCl q2 u && eqQuotedLoop qs us) := by rw [eqQuotedLoop.eq_def]; simp
theorem eqQuotedLoop_plain (q u : UInt8) (qs us : Bytes) (h : q ≠ 92) :
    eqQuotedLoop (q :: qs) (u :: us) = (eqCl q u && eqQuotedLoop qs us) := by rw [eqQuotedLoop.eq_def]; simp [h]

theorem unquote_length (q v : Bytes) (h : unquoteLoop q = some v) : q.length ≤ 2 * v.length := by
  fun_induction unquoteLoop q generalizing v with
  | case1 => simp
  | case2 => simp at h
  | case3 c2 r2 ih =>
    simp only [Option.map_eq_some_iff] at h
    obtain ⟨v', hv', rfl⟩ := h
    have := ih v' hv'
    simp; omega
  | case4 c r hc ih =>
    simp only [Option.map_eq_some_iff] at h
    obtain ⟨v', hv', rfl⟩ := h
    have := ih v' hv'
    simp; omega

theorem eqQuotedLoop_unquote (q v tok : Bytes) (h : unquoteLoop q = some v) : eqQuotedLoop q tok = eqClN v tok := by
  fun_induction unquoteLoop q generalizing v tok with
  | case1 =>
    simp at h; subst h
    cases tok <;> simp [eqQuotedLoop_nil_nil, eqQuotedLoop_nil_cons, eqClN]
  | case2 => simp at h
  | case3 c2 r2 ih =>
    simp only [Option.map_eq_some_iff] at h
    obtain ⟨v', hv', rfl⟩ := h
    cases tok with
    | nil => simp [eqQuotedLoop_cons_nil, eqClN]
    | cons u us => simp [eqQuotedLoop_esc, eqClN, ih v' us hv']
  | case4 c r hc ih =>
    simp only [Option.map_eq_some_iff] at h
    obtain ⟨v', hv', rfl⟩ := h
    cases tok with
    | nil => simp [eqQuotedLoop_cons_nil, eqClN]
    | cons u us => simp [eqQuotedLoop_plain _ _ _ _ hc, eqClN, ih v' us hv']

/-- the quoted comparison of a value with complete quoted-pairs is the plain caseless comparison of
    the unquoted value: `MHD_str_equal_caseless_quoted_bin_n` agrees with `MHD_str_equal_caseless_bin_n_` -/
theorem eqQuotedCl_unquote (q v tok : Bytes) (h : unquoteLoop q = some v) : eqQuotedCl q tok = eqClS tok v := by
  rw [eqClS_eq, eqClN_comm]
  unfold eqQuotedCl
  split
  · rename_i hlt
    have := unquote_length q v h
    cases hcl : eqClN v tok
    · rfl
    · have := eqClN_length _ _ hcl; omega
  · exact eqQuotedLoop_unquote q v tok h

/-! ### meaning of a recorded parameter -/

/-- the recorded (slice, flag) pair stands for the semantic value `v` -/
def Denotes (x : Bytes × Bool) (v : Bytes) : Prop :=
  if x.2 then unquoteLoop x.1 = some v else x.1 = v

theorem denotes_elem (e : Elem) : Denotes (rawOf e, quotedOf e) e.item.value := by
  unfold Denotes rawOf quotedOf
  cases hf : e.r.form with
  | token => simp
  | quoted esc =>
    simp only
    cases ha : anyEsc esc e.item.value
    · simp [escRender_of_anyEsc_false esc _ ha]
    · simp [unquoteLoop_escRender]

theorem paramUnq_denotes (off : Nat) (x : Bytes × Bool) (v : Bytes) (h : Denotes x v) :
    paramUnq ⟨off, x.1, x.2⟩ = v := by
  unfold Denotes at h
  unfold paramUnq unquote
  cases hq : x.2 <;> simp [hq] at h ⊢ <;> simp [h]

theorem chainFind_congr (f g : Bytes → Bool) (ch : List (Bytes × Nat)) (d : Nat) (h : ∀ t, f t = g t) :
    chainFind f ch d = chainFind g ch d := by
  induction ch with
  | nil => rfl
  | cons a t ih => obtain ⟨tok, c⟩ := a; simp [chainFind, h, ih]

/-- the two if-chains of `get_rq_dauth_algo` list the same (token, constant) pairs in the order of the
    reference table.  (Regenerated from the source: this is what the unfixed tree — F5 — violates.) -/
theorem algo_chains_agree :
    algoQuotedChain = algoTokenChain ∧
    algoTokenChain = [(tokMd5, algoMd5), (tokSha256, algoSha256), (tokSha512, algoSha512),
      (tokMd5 ++ tokSess, algoMd5Sess), (tokSha256 ++ tokSess, algoSha256Sess), (tokSha512 ++ tokSess, algoSha512Sess)] ∧
    algoAbsent = algoMd5 ∧ algoNoMatch = algoInvalid := by decide

theorem qop_chains_agree :
    qopQuotedChain = qopTokenChain ∧ qopTokenChain = [(tokAuth, qopAuth), (tokAuthInt, qopAuthInt)] ∧
    qopAbsent = qopNone ∧ qopNoMatch = qopInvalid := by decide

theorem algoOf_denotes (off : Nat) (x : Bytes × Bool) (v : Bytes) (h : Denotes x v) :
    algoOf (some ⟨off, x.1, x.2⟩) = algoSem (some v) := by
  obtain ⟨hq, ht, _, hn⟩ := algo_chains_agree
  unfold Denotes at h
  unfold algoOf
  cases hx : x.2
  · simp only [hx, Bool.false_eq_true, if_false] at h ⊢
    rw [h, ht, hn]
    simp [chainFind, algoSem]
  · simp only [hx, if_true] at h ⊢
    rw [chainFind_congr _ (fun tok => eqClS tok v) _ _ (fun tok => eqQuotedCl_unquote _ _ tok h), hq, ht, hn]
    simp [chainFind, algoSem]

theorem qopOf_denotes (off : Nat) (x : Bytes × Bool) (v : Bytes) (h : Denotes x v) :
    qopOf (some ⟨off, x.1, x.2⟩) = qopSem (some v) := by
  obtain ⟨hq, ht, _, hn⟩ := qop_chains_agree
  unfold Denotes at h
  unfold qopOf
  cases hx : x.2
  · simp only [hx, Bool.false_eq_true, if_false] at h ⊢
    rw [h, ht, hn]
    simp [chainFind, qopSem]
  · simp only [hx, if_true] at h ⊢
    rw [chainFind_congr _ (fun tok => eqClS tok v) _ _ (fun tok => eqQuotedCl_unquote _ _ tok h), hq, ht, hn]
    simp [chainFind, qopSem]

theorem userhashOf_denotes (off : Nat) (x : Bytes × Bool) (v : Bytes) (h : Denotes x v) :
    userhashOf (some ⟨off, x.1, x.2⟩) = userhashSem (some v) := by
  have ht : userhashTrueQuoted = [116, 114, 117, 101] ∧ userhashTrueToken = [116, 114, 117, 101] := by decide
  unfold Denotes at h
  unfold userhashOf userhashSem
  cases hx : x.2
  · simp only [hx, Bool.false_eq_true, if_false] at h ⊢
    rw [h, ht.2]
  · simp only [hx, if_true] at h ⊢
    rw [eqQuotedCl_unquote _ _ _ h, ht.1]

/-! ### the round trip -/

def Agree (a : Option (Bytes × Bool)) (b : Option Bytes) : Prop :=
  match a, b with
  | none, none => True
  | some x, some v => Denotes x v
  | _, _ => False

theorem agree_fold (es : List Elem) (k : Nat) :
    ∀ (init : Option (Bytes × Bool)) (initv : Option Bytes), Agree init initv →
      Agree (rawView es init k) (es.foldl (fun acc e => if e.item.slot = k then some e.item.value else acc) initv) := by
  induction es with
  | nil => intro init initv h; exact h
  | cons e es ih =>
    intro init initv h
    simp only [rawView, List.foldl_cons]
    apply ih
    by_cases hk : e.item.slot = k
    · simp only [hk, if_true]; exact denotes_elem e
    · simp only [hk, if_false]; exact h

theorem agree_view (es : List Elem) (k : Nat) : Agree (rawView es none k) (view es k) :=
  agree_fold es k none none trivial

theorem renderList_length (es : List Elem) : es.length ≤ (renderList es).length := by
  induction es with
  | nil => simp
  | cons e es ih =>
    cases es with
    | nil => simp [renderList, renderElem]; omega
    | cons e' es' =>
      simp only [renderList, List.length_append, List.length_cons] at ih ⊢
      omega

theorem slot_sem (p : Option Param) (v : Option Bytes) (h : Agree (p.map pr) v) :
    p.map paramUnq = v ∧ algoOf p = algoSem v ∧ qopOf p = qopSem v ∧ userhashOf p = userhashSem v := by
  cases p with
  | none =>
    cases v with
    | none =>
      refine ⟨rfl, ?_, ?_, rfl⟩
      · simp [algoOf, algoSem, algo_chains_agree.2.2.1]
      · simp [qopOf, qopSem, qop_chains_agree.2.2.1]
    | some v => simp [Agree] at h
  | some p =>
    cases v with
    | none => simp [Agree] at h
    | some v =>
      simp only [Agree, Option.map_some, pr] at h
      obtain ⟨off, raw, q⟩ := p
      exact ⟨by simp [paramUnq_denotes off (raw, q) v h], algoOf_denotes off (raw, q) v h,
        qopOf_denotes off (raw, q) v h, userhashOf_denotes off (raw, q) v h⟩

/-- parse ∘ render, raw form: the string is accepted and every slot holds the (slice, quoted flag) pair
    of the last rendered occurrence of that parameter -/
theorem parseDigest_render_raw (lead : Bytes) (es : List Elem) (t : UInt8) (ht : t ≠ 59) (hwf : WF lead es = true) :
    ∃ d, parseDigest (render lead es) (some t) = .ok d ∧
      (∀ k, (d.slots k).map pr = rawView es none k) ∧
      d.algo3 = algoOf (d.slots kAlgorithm) ∧ d.qop = qopOf (d.slots kQop) ∧
      d.userhash = userhashOf (d.slots kUserhash) := by
  simp only [WF, Bool.and_eq_true] at hwf
  obtain ⟨hlead, hes⟩ := hwf
  have hskip : skipWs (render lead es) = renderList es := by
    unfold render
    rw [skipWs_append _ _ hlead]
    apply skipWs_stop
    cases es with
    | nil => left; rfl
    | cons e es' =>
      simp only [List.all_cons, Bool.and_eq_true] at hes
      obtain ⟨c, r, h1, h2⟩ := renderList_head e es' hes.1
      exact Or.inr ⟨c, r, h1, h2⟩
  have hfuel : es.length < (render lead es).length + 1 := by
    have := renderList_length es
    simp only [render, List.length_append]; omega
  obtain ⟨st', hrun, hview⟩ := paramLoop_renderList t ht (render lead es).length es _ Slots.empty hes hfuel
  exact ⟨_, by unfold parseDigest; rw [hskip, hrun]; rfl, fun k => by simpa [Slots.empty] using hview k, rfl, rfl, rfl⟩

/-- parse ∘ render: every well-formed parameter list, in every rendering, with any terminating byte
    other than ';' behind the string, is accepted and every parameter is delivered with the meaning
    the sender encoded -/
theorem parseDigest_render (lead : Bytes) (es : List Elem) (t : UInt8) (ht : t ≠ 59) (hwf : WF lead es = true) :
    ∃ d, parseDigest (render lead es) (some t) = .ok d ∧
      (∀ k, (d.slots k).map paramUnq = view es k) ∧
      d.algo3 = algoSem (view es kAlgorithm) ∧ d.qop = qopSem (view es kQop) ∧
      d.userhash = userhashSem (view es kUserhash) := by
  obtain ⟨d, hp, hraw, ha, hq, hu⟩ := parseDigest_render_raw lead es t ht hwf
  have hag : ∀ k, Agree ((d.slots k).map pr) (view es k) := by
    intro k
    rw [hraw k]
    exact agree_view es k
  exact ⟨d, hp, fun k => (slot_sem _ _ (hag k)).1, by rw [ha]; exact (slot_sem _ _ (hag kAlgorithm)).2.1,
    by rw [hq]; exact (slot_sem _ _ (hag kQop)).2.2.1, by rw [hu]; exact (slot_sem _ _ (hag kUserhash)).2.2.2⟩

end Mhd.Auth
