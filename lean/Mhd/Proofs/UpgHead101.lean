/-
  C20: the 101 head is what C04's model of `build_header_response` produces for the upgrade
  response object — for EVERY response object an application can build from
  `MHD_create_response_for_upgrade` with legal API calls (any response flags, any header
  add/del sequence): reply properties = MUST_UPGRADE / no body headers, no automatic
  "Connection" field, no `close, ` / `Keep-Alive, ` prefix on the stored "Connection" header,
  every stored header verbatim and in order (the body-framing headers "Content-Length" /
  "Transfer-Encoding" an application may have stored are not sent on a 1xx reply).

  Reuses (read-only) the C04 model `Mhd.Model.Reply` / `Mhd.Model.Resp` and its invariants
  (`Mhd.Resp.Inv`, `runCalls_inv`, `Mhd.Tok.reachable_connTok`, `no_close_in_fields'`).
-/
import Mhd.Proofs.ReplyClose
import Mhd.Model.Upg
set_option linter.unusedSimpArgs false
set_option linter.unusedVariables false
namespace Mhd.Upg
open Mhd.Resp Mhd.Reply Mhd.ReplyStr

/-! ### reply properties of an upgrade response -/

/-- `setup_reply_properties` for a response with an upgrade handler and a 1xx status — on ANY connection, also one
    that is already in MUST_CLOSE (request with ambiguous framing): `keepalive_possible` decides the upgrade first
    (fix F37, `Mhd.C04.upgrade_reply_no_close`): `keepalive = MHD_CONN_MUST_UPGRADE`, no body, no body headers -/
theorem setup_upgrade (c : Mhd.Reply.Conn) (r : Mhd.Resp.Resp) (code : Nat) (hu : r.upgrade = true) (hc : code ≤ 199) :
    setupReplyProperties c r code = (.mustUpgrade, ⟨false, false, false⟩) := by
  have hb : isReplyBodyNeeded c.mthd code = .none := by
    unfold isReplyBodyNeeded
    have : (199 ≥ code) := hc
    simp [this]
  unfold setupReplyProperties keepalivePossible
  simp [hu, hb]

/-! ### what the application stored, as wire fields -/

/-- header-kind entries that are sent on a 1xx reply: all but "Transfer-Encoding" / "Content-Length" -/
def keep101 (h : Hdr) : Bool :=
  h.kind == .header && ! nameIs h.name sTransferEncoding && ! nameIs h.name sContentLength

def toField (h : Hdr) : Field := ⟨h.name, h.value⟩

/-- the application's headers, verbatim and in list order -/
def appFields (r : Mhd.Resp.Resp) : List Field := (r.hdrs.filter keep101).map toField

theorem te_not_cl (n : Bytes) (h : nameIs n sTransferEncoding = true) : nameIs n sContentLength = false := by
  cases hx : nameIs n sContentLength with
  | false => rfl
  | true =>
    have a := nameIs_length n _ h
    have b := nameIs_length n _ hx
    rw [len_sTransferEncoding] at a
    rw [len_sContentLength] at b
    omega

theorem isHdr_eq (k : Bytes) (h : Hdr) : isHdr k h = (h.kind == .header && nameIs h.name k) := by
  simp [isHdr, isElem]

/-- the loop of `add_user_headers` with nothing left to prefix, the Transfer-Encoding filter armed
    exactly when the list has its (single) such header and the Content-Length filter armed whenever
    the list has such headers: it emits every other header-kind entry verbatim, in order -/
theorem userLoop_filter : ∀ (hs : List Hdr) (st : UH), st.addClose = false → st.addKA = false →
    cnt sTransferEncoding hs = b2n st.filterTE → (st.filterCL = false → cnt sContentLength hs = 0) →
    userFieldsLoop false hs st = (hs.filter keep101).map toField
  | [], st, _, _, _, _ => by simp [userFieldsLoop]
  | h :: rest, st, ha, hb, hte, hcl => by
    rw [cnt_cons] at hte
    have hcl' : st.filterCL = false → b2n (isHdr sContentLength h) + cnt sContentLength rest = 0 := by
      intro x; have := hcl x; rw [cnt_cons] at this; exact this
    simp only [userFieldsLoop]
    by_cases hk : (h.kind != Kind.header) = true
    · -- footer: skipped by the loop, not counted, not kept
      have hkk : (h.kind == Kind.header) = false := by
        cases hx : h.kind <;> simp_all
      have i1 : isHdr sTransferEncoding h = false := by rw [isHdr_eq, hkk]; rfl
      have i2 : isHdr sContentLength h = false := by rw [isHdr_eq, hkk]; rfl
      have kf : keep101 h = false := by simp [keep101, hkk]
      simp only [hk, if_true, List.filter_cons, kf, Bool.false_eq_true, if_false]
      apply userLoop_filter rest st ha hb
      · rw [i1] at hte; simpa [b2n] using hte
      · intro x; have := hcl' x; rw [i2] at this; simpa [b2n] using this
    · have hkk : (h.kind == Kind.header) = true := by
        cases hx : h.kind <;> simp_all
      simp only [hk, Bool.false_eq_true, if_false]
      by_cases hT : nameIs h.name sTransferEncoding = true
      · -- the Transfer-Encoding header: the filter must be armed (count = 1), it is dropped
        have i1 : isHdr sTransferEncoding h = true := by rw [isHdr_eq, hkk, hT]; rfl
        have hC : nameIs h.name sContentLength = false := te_not_cl _ hT
        have i2 : isHdr sContentLength h = false := by rw [isHdr_eq, hkk, hC]; rfl
        have hf : st.filterTE = true := by
          cases hx : st.filterTE with
          | true => rfl
          | false => rw [i1, hx] at hte; simp [b2n] at hte
        have kf : keep101 h = false := by simp [keep101, hT]
        simp only [hf, hT, Bool.and_self, if_true, List.filter_cons, kf, Bool.false_eq_true, if_false]
        apply userLoop_filter rest { st with filterTE := false } ha hb
        · rw [i1, hf] at hte; simp [b2n] at hte ⊢; omega
        · intro x; have := hcl' x; rw [i2] at this; simpa [b2n] using this
      · have hT' : nameIs h.name sTransferEncoding = false := by simpa using hT
        have i1 : isHdr sTransferEncoding h = false := by rw [isHdr_eq, hkk, hT']; rfl
        simp only [hT', Bool.and_false, Bool.false_eq_true, if_false]
        by_cases hC : nameIs h.name sContentLength = true
        · -- a Content-Length header: the filter must be armed, it is dropped and stays armed
          have i2 : isHdr sContentLength h = true := by rw [isHdr_eq, hkk, hC]; rfl
          have hf : st.filterCL = true := by
            cases hx : st.filterCL with
            | true => rfl
            | false => have := hcl' hx; rw [i2] at this; simp [b2n] at this
          have kf : keep101 h = false := by simp [keep101, hC]
          simp only [hf, hC, Bool.and_self, if_true, List.filter_cons, kf, Bool.false_eq_true, if_false]
          apply userLoop_filter rest { st with filterCL := !false } ha hb
          · rw [i1] at hte; simpa [b2n] using hte
          · intro x; simp at x
        · have hC' : nameIs h.name sContentLength = false := by simpa using hC
          have i2 : isHdr sContentLength h = false := by rw [isHdr_eq, hkk, hC']; rfl
          have kt : keep101 h = true := by simp [keep101, hkk, hT', hC']
          simp only [hC', Bool.and_false, Bool.false_eq_true, if_false, ha, hb, List.nil_append,
            List.filter_cons, kt, if_true, List.map_cons, toField]
          congr 1
          apply userLoop_filter rest { st with addClose := false, addKA := false } rfl rfl
          · rw [i1] at hte; simpa [b2n] using hte
          · intro x; have := hcl' x; rw [i2] at this; simpa [b2n] using this

/-- `add_user_headers` for an upgrade reply: exactly the application's headers -/
theorem userFields_upgrade (c : Mhd.Reply.Conn) (r : Mhd.Resp.Resp) (hinv : Inv r) :
    userFields c r .mustUpgrade ⟨false, false, false⟩ = appFields r := by
  unfold userFields appFields
  rw [hinv.noInsanity]
  apply userLoop_filter
  · simp [userInit, useConnClose]
  · simp [userInit, useConnKAlive]
  · rw [hinv.te]; cases hx : r.fa.transEnc <;> simp [userInit, hx]
  · intro x
    have : r.fa.contentLength = false := by
      cases hx : r.fa.contentLength with
      | false => rfl
      | true => simp [userInit, hx] at x
    rw [hinv.cl, this]; rfl

theorem connFields_upgrade (c : Mhd.Reply.Conn) (r : Mhd.Resp.Resp) : connFields c r .mustUpgrade = [] := by
  unfold connFields
  simp [useConnClose, useConnKAlive]

/-- the fields of the 101 head, in wire order -/
def fields101 (c : Mhd.Reply.Conn) (r : Mhd.Resp.Resp) (date : Bytes) : List Field :=
  dateFields c r (some date) ++ appFields r

/-- **the 101 head, explicitly**: status line, the automatic Date (unless suppressed / supplied by
    the application), the application's headers verbatim in order, empty line — nothing else -/
theorem headBytes_upgrade (c : Mhd.Reply.Conn) (r : Mhd.Resp.Resp) (code : Nat) (date : Bytes) (hinv : Inv r)
    (hu : r.upgrade = true) (hc : code ≤ 199) :
    headBytes c r code date =
      versionStr r false ++ [32] ++ codeDigits code ++ [32] ++ reasonPhrase code ++ crlf
        ++ ((fields101 c r date).map fieldLine).flatten ++ crlf := by
  unfold headBytes
  rw [setup_upgrade c r code hu hc]
  simp only [headSegs, List.map_append, List.flatten_append, map_fieldSeg_pieces, dateSegs_pieces,
    connFields_upgrade, userFields_upgrade c r hinv, fields101]
  simp [segStr, bodyHdrSegs, crlf, List.append_assoc]

/-- `build_header_response` (C04's model) returns exactly `headBytes` whenever it does not refuse
    for lack of buffer space -/
theorem headBytes_is_buildHeaderResponse (c : Mhd.Reply.Conn) (r : Mhd.Resp.Resp) (code : Nat) (date : Bytes)
    (bufSize : Nat) (out : Bytes)
    (h : (buildHeaderResponse c r code false (some date) bufSize).2.2 = some out) :
    out = headBytes c r code date ∧
    (buildHeaderResponse c r code false (some date) bufSize).1 = (setupReplyProperties c r code).1 := by
  unfold buildHeaderResponse at h ⊢
  simp only at h ⊢
  refine ⟨?_, by first | rfl | trivial⟩
  by_cases hz : (bufSize == 0) = true
  · simp [hz] at h
  · simp only [hz, Bool.false_eq_true, if_false] at h
    have := runSegs_eq bufSize _ [] out h
    simpa [headBytes] using this

/-- … and it does not refuse when the buffer has room for the sum of the demands -/
theorem runSegs_fits (bs : Nat) : ∀ (segs : List Seg) (buf : Bytes),
    buf.length + (segs.map fun s => max s.need s.piece.length).sum ≤ bs → (runSegs bs segs buf).isSome = true
  | [], buf, _ => by simp [runSegs]
  | s :: rest, buf, h => by
    simp only [List.map_cons, List.sum_cons] at h
    simp only [runSegs, appendChk]
    have h1 : ¬ bs < buf.length + s.need := by
      have : s.need ≤ max s.need s.piece.length := Nat.le_max_left _ _
      omega
    simp only [h1, if_false]
    apply runSegs_fits bs rest
    have : s.piece.length ≤ max s.need s.piece.length := Nat.le_max_right _ _
    simp only [List.length_append]
    omega

/-- the head of an upgrade reply does not depend on the request (version, method, early reply,
    the request's own "Connection: close" / "keep-alive" tokens, half-closed socket, a MUST_CLOSE forced by the
    request's framing) -/
theorem headBytes_indep_of_request (c c' : Mhd.Reply.Conn) (r : Mhd.Resp.Resp) (code : Nat) (date : Bytes)
    (hinv : Inv r) (hu : r.upgrade = true) (hs : c.suppressDate = c'.suppressDate) (hc : code ≤ 199) :
    headBytes c r code date = headBytes c' r code date := by
  rw [headBytes_upgrade c r code date hinv hu hc, headBytes_upgrade c' r code date hinv hu hc]
  simp [fields101, dateFields, hs]

/-! ### response objects an application can build -/

theorem addHeaderConnection_upgrade (r : Mhd.Resp.Resp) (v : Bytes) : (addHeaderConnection r v).2.upgrade = r.upgrade := by
  unfold addHeaderConnection
  split
  · rfl
  · cases h1 : removeTokenCaseless v sClose (v.length + v.length / 2 + 1) with
    | none => simp only [h1]
    | some res =>
      obtain ⟨norm0, vhc⟩ := res
      simp only [h1]
      split
      · rfl
      · cases h2 : (if norm0.isEmpty = true then some norm0 else Option.map (fun x => x.out) (removeTokensCaseless norm0 sKeepAliveLower)) with
        | none => simp only [h2]
        | some norm =>
          simp only [h2]
          repeat' split
          all_goals rfl

theorem delHeaderConnection_upgrade (r : Mhd.Resp.Resp) (v : Bytes) : (delHeaderConnection r v).2.upgrade = r.upgrade := by
  unfold delHeaderConnection
  cases h1 : r.hdrs.find? (isHdr sConnection) with
  | none => simp only [h1]
  | some h =>
    simp only [h1]
    cases h2 : removeTokensCaseless h.value v with
    | none => simp only [h2]
    | some res =>
      obtain ⟨v', removed⟩ := res
      simp only [h2]
      repeat' split
      all_goals first | rfl | simp_all

theorem addEntry_upgrade (r : Mhd.Resp.Resp) (k : Kind) (n v : Bytes) : (addEntry r k n v).2.upgrade = r.upgrade := by
  unfold addEntry
  repeat' split
  all_goals rfl

theorem addEntry_cases (r : Mhd.Resp.Resp) (k : Kind) (n v : Bytes) (P : Bool × Mhd.Resp.Resp → Prop)
    (h : ∀ ok r1, r1.upgrade = r.upgrade → P (ok, r1)) : P (addEntry r k n v) := by
  have := addEntry_upgrade r k n v
  cases hx : addEntry r k n v with
  | mk ok r1 => rw [hx] at this; exact h ok r1 this

theorem dateTail_upgrade (r r0 : Mhd.Resp.Resp) (n v : Bytes) (h0 : r0.upgrade = r.upgrade) :
    (match addEntry r0 .header n v with
     | (true, r1) => (Ret.yes, { r1 with fa := { r1.fa with date := true } })
     | (false, _) => (Ret.no, r0)).2.upgrade = r.upgrade := by
  have e1 := addEntry_upgrade r0 .header n v
  cases hx : addEntry r0 .header n v with
  | mk ok r1 => rw [hx] at e1; cases ok <;> simp_all

theorem addHeader_upgrade (r : Mhd.Resp.Resp) (n v : Bytes) : (addHeader r n v).2.upgrade = r.upgrade := by
  unfold addHeader
  split
  · exact addHeaderConnection_upgrade r v
  · have e1 := addEntry_upgrade r .header n v
    cases hx : addEntry r .header n v with
    | mk ok r1 =>
      rw [hx] at e1
      repeat' split
      all_goals first | rfl | (simp_all; done) | skip
      all_goals exact dateTail_upgrade r _ n v rfl

theorem delHeader_upgrade (r : Mhd.Resp.Resp) (n v : Bytes) : (delHeader r n v).2.upgrade = r.upgrade := by
  unfold delHeader
  split
  · exact delHeaderConnection_upgrade r v
  · cases hx : eraseFirst (fun h => h.name == n && h.value == v) r.hdrs with
    | none => simp only []
    | some p => simp only []

theorem applyCall_upgrade (r : Mhd.Resp.Resp) (cl : Call) : (applyCall r cl).2.upgrade = r.upgrade := by
  cases cl with
  | add n v => exact addHeader_upgrade r n v
  | del n v => exact delHeader_upgrade r n v
  | foot n v =>
    simp only [applyCall, addFooter]
    have e1 := addEntry_upgrade r .footer n v
    cases hx : addEntry r .footer n v with
    | mk ok r1 => rw [hx] at e1; cases ok <;> simp_all
  | opt f =>
    simp only [applyCall, setOptions]
    repeat' split
    all_goals rfl
theorem runCalls_upgrade (cs : List Call) : ∀ (r : Mhd.Resp.Resp), (runCalls r cs).upgrade = r.upgrade := by
  induction cs with
  | nil => intro r; rfl
  | cons c cs ih =>
    intro r
    unfold runCalls
    simp only [List.foldl]
    exact (ih _).trans (applyCall_upgrade r c)

theorem createUpgrade_upgrade : Resp.createUpgrade.upgrade = true := by decide

/-- every object built from `MHD_create_response_for_upgrade` by legal calls: invariant, token
    shape, still an upgrade response, close flag never set -/
theorem upgradeObj_facts (cs : List Call) (hl : ∀ c ∈ cs, c.Legal) :
    Inv (runCalls Resp.createUpgrade cs) ∧ Mhd.Tok.ConnTok (runCalls Resp.createUpgrade cs) ∧
    (runCalls Resp.createUpgrade cs).upgrade = true ∧ (runCalls Resp.createUpgrade cs).fa.connClose = false := by
  have hi := runCalls_inv cs _ createUpgrade_inv hl
  have hu : (runCalls Resp.createUpgrade cs).upgrade = true := by rw [runCalls_upgrade]; exact createUpgrade_upgrade
  exact ⟨hi, Mhd.Tok.reachable_connTok _ cs (Or.inr (Or.inr rfl)) hl, hu, hi.upg hu⟩

end Mhd.Upg
