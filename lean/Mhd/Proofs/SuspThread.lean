/-
  C11 — a resume requested by another thread *inside* a round.

  MHD_resume_connection is atomic (cleanup_connection_mutex): it sets `connection->resuming` and
  `daemon->resuming` (and signals the ITC).  After resume_suspended_connections has run, no step of
  a round reads or clears these flags for a suspended connection: the request stays pending until the
  next round (`Pend`), MHD_get_timeout answers 0, and the next resume_suspended_connections serves it.
-/
import Mhd.Proofs.SuspEpoll
namespace Mhd.Susp

/-- `c` is suspended and its resume request is pending at connection and daemon level -/
def Pend (c : Nat) (d : Daemon) : Prop := c ∈ d.susp ∧ (d.conn c).resuming = true ∧ d.resuming = true

theorem Pend_resumeReq (d : Daemon) (c : Nat) (hs : c ∈ d.susp) : Pend c (resumeReq d c).1 := by
  simp [Pend, resumeReq, hs]

@[simp] theorem sync_resuming (d : Daemon) (c : Nat) : (sync d c).resuming = d.resuming := by
  unfold sync; simp only []; split <;> split <;> (try split) <;> rfl

theorem Pend_turnWith (c a : Nat) (h : c ≠ a) (f : Conn → Conn × List CEv) (d : Daemon) (hp : Pend c d) :
    Pend c (turnWith f d a).1 := by
  obtain ⟨h1, h2, h3⟩ := hp
  refine ⟨?_, ?_, ?_⟩
  · simp only [turnWith]; exact sync_susp_mem _ a c h1
  · rw [turnWith_conn, setConn_ne _ _ h]; exact h2
  · simp [turnWith, h3]

theorem Pend_ereadyPost (c a : Nat) (h : c ≠ a) (d : Daemon) (hp : Pend c d) : Pend c (ereadyPost d a) := by
  simp only [ereadyPost]
  split
  · obtain ⟨h1, h2, h3⟩ := hp
    refine ⟨sync_susp_mem _ a c h1, ?_, ?_⟩
    · rw [sync_conn]; show (setConn d.conn a _ c).resuming = true; rw [setConn_ne _ _ h]; exact h2
    · simp [h3]
  · exact hp

theorem Pend_travEready (g : Guards) (c : Nat) : ∀ (l : List Nat) (d : Daemon), c ∉ l → Pend c d → Pend c (travEready g l d).1 := by
  intro l; induction l with
  | nil => intro d _ h; exact h
  | cons a rest ih =>
    intro d hc hp
    have hac : c ≠ a := fun e => hc (e ▸ List.mem_cons_self)
    simp only [travEready]
    exact ih _ (fun hm => hc (List.mem_cons_of_mem _ hm)) (Pend_ereadyPost c a hac _ (Pend_turnWith c a hac _ d hp))

theorem Pend_travSelect (g : Guards) (c : Nat) (fr fw rd wr : Nat → Bool) :
    ∀ (l : List Nat) (d : Daemon), c ∉ l → Pend c d → Pend c (travSelect g fr fw rd wr l d).1 := by
  intro l; induction l with
  | nil => intro d _ h; exact h
  | cons a rest ih =>
    intro d hc hp
    have hac : c ≠ a := fun e => hc (e ▸ List.mem_cons_self)
    simp only [travSelect]
    split
    · exact Pend_turnWith c a hac _ d hp
    · exact ih _ (fun hm => hc (List.mem_cons_of_mem _ hm)) (Pend_turnWith c a hac _ d hp)

theorem Pend_travAll (g : Guards) (c : Nat) (fr fw rd wr : Nat → Bool) :
    ∀ (l : List Nat) (d : Daemon), c ∉ l → Pend c d → Pend c (travAll g fr fw rd wr l d).1 := by
  intro l; induction l with
  | nil => intro d _ h; exact h
  | cons a rest ih =>
    intro d hc hp
    have hac : c ≠ a := fun e => hc (e ▸ List.mem_cons_self)
    simp only [travAll]
    exact ih _ (fun hm => hc (List.mem_cons_of_mem _ hm)) (Pend_turnWith c a hac _ d hp)

theorem susp_turnWith (f : Conn → Conn × List CEv) (d : Daemon) (a c : Nat) (h : c ∈ d.susp) : c ∈ (turnWith f d a).1.susp := by
  simp only [turnWith]; exact sync_susp_mem _ a c h

theorem susp_ereadyPost (d : Daemon) (a c : Nat) (h : c ∈ d.susp) : c ∈ (ereadyPost d a).susp := by
  simp only [ereadyPost]; split
  · exact sync_susp_mem _ a c h
  · exact h

theorem susp_travEready (g : Guards) (c : Nat) : ∀ (l : List Nat) (d : Daemon), c ∈ d.susp → c ∈ (travEready g l d).1.susp := by
  intro l; induction l with
  | nil => intro d h; exact h
  | cons a rest ih => intro d h; simp only [travEready]; exact ih _ (susp_ereadyPost _ a c (susp_turnWith _ d a c h))

theorem susp_travSelect (g : Guards) (c : Nat) (fr fw rd wr : Nat → Bool) :
    ∀ (l : List Nat) (d : Daemon), c ∈ d.susp → c ∈ (travSelect g fr fw rd wr l d).1.susp := by
  intro l; induction l with
  | nil => intro d h; exact h
  | cons a rest ih =>
    intro d h; simp only [travSelect]; split
    · exact susp_turnWith _ d a c h
    · exact ih _ (susp_turnWith _ d a c h)

theorem susp_travAll (g : Guards) (c : Nat) (fr fw rd wr : Nat → Bool) :
    ∀ (l : List Nat) (d : Daemon), c ∈ d.susp → c ∈ (travAll g fr fw rd wr l d).1.susp := by
  intro l; induction l with
  | nil => intro d h; exact h
  | cons a rest ih => intro d h; simp only [travAll]; exact ih _ (susp_turnWith _ d a c h)

theorem Pend_hint {c : Nat} {d : Daemon} (h : Pend c d) : d.hintZero = true := by
  simp [Daemon.hintZero, h.2.2]

end Mhd.Susp
