/-
  C11 — a resume requested by another thread *inside* a round.

  MHD_resume_connection is atomic (cleanup_connection_mutex): it sets `connection->resuming` and
  `daemon->resuming` (and signals the ITC).  After resume_suspended_connections has run, no step of
  a round reads or clears these flags for a suspended connection: the request stays pending until the
  next round (`Pend`), MHD_get_timeout answers 0, and the next resume_suspended_connections serves it.
-/
import Mhd.Proofs.SuspEpoll
namespace Mhd.Susp

/-- `c` is suspended and its resume request is pending at connection and daemon level -/
def Pend (c : Nat) (d : Daemon) : Prop := c ∈ d.susp ∧ (d.conn c).resuming = true ∧ d.resuming = true

theorem Pend_resumeReq (d : Daemon) (c : Nat) (hs : c ∈ d.susp) : Pend c (resumeReq d c).1 := by
  simp [Pend, resumeReq, hs]

@[simp] theorem sync_resuming (d : Daemon) (c : Nat) : (sync d c).resuming = d.resuming := by
  unfold sync; simp only []; split <;> split <;> (try split) <;> rfl

theorem Pend_turnWith (c a : Nat) (h : c ≠ a) (f : Conn → Conn × List CEv) (d : Daemon) (hp : Pend c d) :
    Pend c (turnWith f d a).1 := by
  obtain ⟨h1, h2, h3⟩ := hp
  refine ⟨?_, ?_, ?_⟩
  · simp only [turnWith]; exact sync_susp_mem _ a c h1
  · rw [turnWith_conn, setConn_ne _ _ h]; exact h2
  · simp [turnWith, h3]

theorem Pend_ereadyPost (c a : Nat) (h : c ≠ a) (d : Daemon) (hp : Pend c d) : Pend c (ereadyPost d a) := by
  simp only [ereadyPost]
  split
  · obtain ⟨h1, h2, h3⟩ := hp
    refine ⟨sync_susp_mem _ a c h1, ?_, ?_⟩
    · rw [sync_conn]; show (setConn d.conn a _ c).resuming = true; rw [setConn_ne _ _ h]; exact h2
    · simp [h3]
  · exact hp

theorem Pend_travEready (g : Guards) (c : Nat) : ∀ (l : List Nat) (d : Daemon), c ∉ l → Pend c d → Pend c (travEready g l d).1 := by
  intro l; induction l with
  | nil => intro d _ h; exact h
  | cons a rest ih =>
    intro d hc hp
    have hac : c ≠ a := fun e => hc (e ▸ List.mem_cons_self)
    simp only [travEready]
    exact ih _ (fun hm => hc (List.mem_cons_of_mem _ hm)) (Pend_ereadyPost c a hac _ (Pend_turnWith c a hac _ d hp))

theorem Pend_travSelect (g : Guards) (c : Nat) (fr fw rd wr : Nat → Bool) :
    ∀ (l : List Nat) (d : Daemon), c ∉ l → Pend c d → Pend c (travSelect g fr fw rd wr l d).1 := by
  intro l; induction l with
  | nil => intro d _ h; exact h
  | cons a rest ih =>
    intro d hc hp
    have hac : c ≠ a := fun e => hc (e ▸ List.mem_cons_self)
    simp only [travSelect]
    split
    · exact Pend_turnWith c a hac _ d hp
    · exact ih _ (fun hm => hc (List.mem_cons_of_mem _ hm)) (Pend_turnWith c a hac _ d hp)

theorem Pend_travAll (g : Guards) (c : Nat) (fr fw rd wr : Nat → Bool) :
    ∀ (l : List Nat) (d : Daemon), c ∉ l → Pend c d → Pend c (travAll g fr fw rd wr l d).1 := by
  intro l; induction l with
  | nil => intro d _ h; exact h
  | cons a rest ih =>
    intro d hc hp
    have hac : c ≠ a := fun e => hc (e ▸ List.mem_cons_self)
    simp only [travAll]
    exact ih _ (fun hm => hc (List.mem_cons_of_mem _ hm)) (Pend_turnWith c a hac _ d hp)

theorem susp_turnWith (f : Conn → Conn × List CEv) (d : Daemon) (a c : Nat) (h : c ∈ d.susp) : c ∈ (turnWith f d a).1.susp := by
  simp only [turnWith]; exact sync_susp_mem _ a c h

theorem susp_ereadyPost (d : Daemon) (a c : Nat) (h : c ∈ d.susp) : c ∈ (ereadyPost d a).susp := by
  simp only [ereadyPost]; split
  · exact sync_susp_mem _ a c h
  · exact h

theorem susp_travEready (g : Guards) (c : Nat) : ∀ (l : List Nat) (d : Daemon), c ∈ d.susp → c ∈ (travEready g l d).1.susp := by
  intro l; induction l with
  | nil => intro d h; exact h
  | cons a rest ih => intro d h; simp only [travEready]; exact ih _ (susp_ereadyPost _ a c (susp_turnWith _ d a c h))

theorem susp_travSelect (g : Guards) (c : Nat) (fr fw rd wr : Nat → Bool) :
    ∀ (l : List Nat) (d : Daemon), c ∈ d.susp → c ∈ (travSelect g fr fw rd wr l d).1.susp := by
  intro l; induction l with
  | nil => intro d h; exact h
  | cons a rest ih =>
    intro d h; simp only [travSelect]; split
    · exact susp_turnWith _ d a c h
    · exact ih _ (susp_turnWith _ d a c h)

theorem susp_travAll (g : Guards) (c : Nat) (fr fw rd wr : Nat → Bool) :
    ∀ (l : List Nat) (d : Daemon), c ∈ d.susp → c ∈ (travAll g fr fw rd wr l d).1.susp := by
  intro l; induction l with
  | nil => intro d h; exact h
  | cons a rest ih => intro d h; simp only [travAll]; exact ih _ (susp_turnWith _ d a c h)

/-! ### the phases of a round that are not traversals -/

theorem epollEvents_resuming : ∀ (l : List (Nat × Bool × Bool)) (d : Daemon), (epollEvents l d).resuming = d.resuming := by
  intro l; induction l with
  | nil => intro d; rfl
  | cons e r ih => intro d; obtain ⟨a, i, o⟩ := e; simp only [epollEvents]; split
                   · exact ih d
                   · rw [ih]; simp

theorem processNew_resuming : ∀ (l : List Nat) (d : Daemon), (processNew l d).1.resuming = d.resuming := by
  intro l; induction l with
  | nil => intro d; rfl
  | cons a r ih => intro d; simp only [processNew]; rw [ih]

/-- the state before the other thread's call: consistent, `c` suspended, no resume requested -/
def FS (c : Nat) (d : Daemon) : Prop := WF d ∧ Frz c d
/-- the state after it: consistent, the request pending -/
def GS (c : Nat) (d : Daemon) : Prop := WF d ∧ Pend c d

theorem GS_of_FS_resumeReq {c : Nat} {d : Daemon} (h : FS c d) : GS c (resumeReq d c).1 :=
  ⟨WF_resumeReq h.1 c, Pend_resumeReq d c h.2.1⟩

theorem FS_of_FZ {c : Nat} {d d' : Daemon} {evs} (h : FZ c d evs d') (hf : FS c d) : FS c d' :=
  ⟨(h hf.1 hf.2).1, (h hf.1 hf.2).2.2.2.1⟩

theorem GS.notActive {c : Nat} {d : Daemon} (h : GS c d) : c ∉ d.active := fun hm => h.1.act_nosusp c hm h.2.1

theorem GS_epollPhase (c : Nat) (evs : List (Nat × Bool × Bool)) (d : Daemon) (h : GS c d) :
    GS c (epollEvents evs { d with pending := false }) := by
  have hw0 : WF ({ d with pending := false } : Daemon) :=
    ⟨h.1.susp_iff, h.1.act_nosusp, h.1.nd_active, h.1.nd_susp, h.1.er_sub, h.1.to_sub, h.1.new_fresh,
      h.1.nd_new, h.1.nd_eready, h.1.nd_to, h.1.no_lost⟩
  have fr := epollEvents_frame c evs { d with pending := false } h.notActive h.2.1
  refine ⟨(WK_epollEvents evs _ hw0).1, fr.2.1, ?_, ?_⟩
  · rw [fr.1]; exact h.2.2.1
  · rw [epollEvents_resuming]; exact h.2.2.2

theorem GS_newPhase (c : Nat) (d : Daemon) (h : GS c d) : GS c (newPhase d).1 := by
  have hn : c ∉ d.newConns := fun hm => (h.1.new_fresh c hm).2 h.2.1
  have fr := processNew_frame c d.newConns { d with pending := false } hn
  refine ⟨(WK_newPhase d h.1).1, ?_, ?_, ?_⟩
  · simp only [newPhase]; rw [fr.2.1]; exact h.2.1
  · simp only [newPhase]; rw [fr.1]; exact h.2.2.1
  · simp only [newPhase]; rw [processNew_resuming]; exact h.2.2.2

theorem GS_timeoutScan (g : Guards) (hg : g.Sound) (c : Nat) (d : Daemon) (h : GS c d) : GS c (timeoutScan g d).1 := by
  refine ⟨(WK_timeoutScan g hg d h.1).1, ?_⟩
  simp only [timeoutScan]
  split
  · next a ha =>
    have hact : a ∈ d.active := h.1.to_sub a (List.mem_of_getLast? ha)
    exact Pend_turnWith c a (fun e => h.notActive (e ▸ hact)) _ d h.2
  · exact h.2

theorem notMem_of_known {c : Nat} {l : List Nat} (h : ∀ a ∈ l, a ≠ c) : c ∉ l := fun hm => h c hm rfl

theorem GS_travEready (g : Guards) (hg : g.Sound) (c : Nat) (l : List Nat) (d : Daemon) (hl : ∀ a ∈ l, Known d a ∧ a ≠ c)
    (h : GS c d) : GS c (travEready g l d).1 :=
  ⟨(WK_travEready g hg l d (fun a ha => (hl a ha).1) h.1).1,
   Pend_travEready g c l d (notMem_of_known (fun a ha => (hl a ha).2)) h.2⟩

theorem GS_travSelect (g : Guards) (hg : g.Sound) (c : Nat) (fr fw rd wr : Nat → Bool) (l : List Nat) (d : Daemon)
    (hl : ∀ a ∈ l, Known d a ∧ a ≠ c) (h : GS c d) : GS c (travSelect g fr fw rd wr l d).1 :=
  ⟨(WK_travSelect g hg fr fw rd wr l d (fun a ha => (hl a ha).1) h.1).1,
   Pend_travSelect g c fr fw rd wr l d (notMem_of_known (fun a ha => (hl a ha).2)) h.2⟩

theorem GS_travAll (g : Guards) (hg : g.Sound) (c : Nat) (fr fw rd wr : Nat → Bool) (l : List Nat) (d : Daemon)
    (hl : ∀ a ∈ l, Known d a ∧ a ≠ c) (h : GS c d) : GS c (travAll g fr fw rd wr l d).1 :=
  ⟨(WK_travAll g hg fr fw rd wr l d (fun a ha => (hl a ha).1) h.1).1,
   Pend_travAll g c fr fw rd wr l d (notMem_of_known (fun a ha => (hl a ha).2)) h.2⟩

/-! ### a round with the other thread's MHD_resume_connection landing at position `p` -/

/-- `MHD_resume_connection (c)` by another thread right here, if this is position `k` -/
def injAt (c : Nat) (p : Option Nat) (k : Nat) (r : Daemon × List Ev) : Daemon × List Ev :=
  if p = some k then bindD (fun d => resumeReq d c) r else r

/-- a connection traversal `T` over the snapshot `l`; positions `base`, `base+1`, … are the points before the
    1st, 2nd, … turn (any position past the end = after the last turn) -/
def splitTrav (T : List Nat → Daemon → Daemon × List Ev) (c : Nat) (p : Option Nat) (base : Nat) (l : List Nat)
    (r : Daemon × List Ev) : Daemon × List Ev :=
  match p with
  | some q =>
    if base ≤ q then bindD (T (l.drop (q - base))) (bindD (fun d => resumeReq d c) (bindD (T (l.take (q - base))) r))
    else bindD (T l) r
  | none => bindD (T l) r

/-- MHD_epoll; positions: 0 before resume_suspended_connections, 1 after it, 2 after the epoll_wait results,
    3 after new_connections_list_process_, 4 after the timeout scan = before the first eready turn, 4+j before turn j+1 -/
def roundEpollAt (g : Guards) (d : Daemon) (ids : List Nat) (evs : List (Nat × Bool × Bool)) (c : Nat) (p : Option Nat) :
    Daemon × List Ev :=
  let r0 := injAt c p 0 (timers d ids)
  let r1 := injAt c p 1 (bindD (resumeSuspended g) r0)
  let r2 := injAt c p 2 (bindD (pureD (fun d => epollEvents evs { d with pending := false })) r1)
  let r3 := injAt c p 3 (bindD newPhase r2)
  let r4 := bindD (timeoutScan g) r3
  splitTrav (travEready g) c p 4 r4.1.eready.reverse r4

/-- MHD_run_from_select2; positions: 0 before resume_suspended_connections, 1 after it, 2 after
    new_connections_list_process_ = before the first turn, 2+j before turn j+1 -/
def roundSelectAt (g : Guards) (d : Daemon) (ids : List Nat) (rd wr : Nat → Bool) (c : Nat) (p : Option Nat) :
    Daemon × List Ev :=
  let t := timers d ids
  let fr := fun a => t.1.active.contains a && (t.1.conn a).eli.hasRead
  let fw := fun a => t.1.active.contains a && (t.1.conn a).eli == .write
  let r0 := injAt c p 0 t
  let r1 := injAt c p 1 (bindD (resumeSuspended g) r0)
  let r2 := bindD newPhase r1
  splitTrav (travSelect g fr fw rd wr) c p 2 r2.1.active.reverse r2

/-- MHD_poll_all; positions as for select (the snapshot and the poll set are taken before new connections are added) -/
def roundPollAt (g : Guards) (d : Daemon) (ids : List Nat) (rd wr : Nat → Bool) (c : Nat) (p : Option Nat) :
    Daemon × List Ev :=
  let r0 := injAt c p 0 (timers d ids)
  let r1 := injAt c p 1 (bindD (resumeSuspended g) r0)
  let fr := fun a => (r1.1.conn a).eli.hasRead
  let fw := fun a => (r1.1.conn a).eli == .write
  let r2 := bindD newPhase r1
  splitTrav (travAll g fr fw rd wr) c p 2 r1.1.active.reverse r2

/-- without the other thread these are the rounds of the model -/
theorem roundEpollAt_none (g : Guards) (d : Daemon) (ids : List Nat) (evs : List (Nat × Bool × Bool)) (c : Nat) :
    roundEpollAt g d ids evs c none = roundEpoll g d ids evs := by
  simp [roundEpollAt, roundEpoll, injAt, splitTrav, bindD]

theorem roundSelectAt_none (g : Guards) (d : Daemon) (ids : List Nat) (rd wr : Nat → Bool) (c : Nat) :
    roundSelectAt g d ids rd wr c none = roundSelect g d ids rd wr := by
  simp [roundSelectAt, roundSelect, injAt, splitTrav, bindD]

theorem roundPollAt_none (g : Guards) (d : Daemon) (ids : List Nat) (rd wr : Nat → Bool) (c : Nat) :
    roundPollAt g d ids rd wr c none = roundPoll g d ids rd wr := by
  simp [roundPollAt, roundPoll, pollPhase, injAt, splitTrav, bindD, List.append_assoc]

/-- before position `k` of a round in which the request lands at position `q`: has it landed yet? -/
def Stg (c q k : Nat) (d : Daemon) : Prop := if q < k then GS c d else FS c d

theorem Stg_inj {c q k : Nat} {r : Daemon × List Ev} (h : Stg c q k r.1) : Stg c q (k + 1) (injAt c (some q) k r).1 := by
  unfold Stg injAt at *
  by_cases h1 : q < k
  · have hne : ¬ (some q = some k) := by intro e; injection e with e; omega
    rw [if_pos h1] at h; rw [if_neg hne, if_pos (by omega)]; exact h
  · rw [if_neg h1] at h
    by_cases h2 : q = k
    · subst h2
      rw [if_pos rfl, if_pos (by omega)]
      exact GS_of_FS_resumeReq h
    · have hne : ¬ (some q = some k) := by intro e; injection e with e; exact h2 e
      rw [if_neg hne, if_neg (by omega)]; exact h

theorem Stg_phase {c q k : Nat} {f : Daemon → Daemon × List Ev} (hF : ∀ d, FS c d → FS c (f d).1)
    (hG : ∀ d, GS c d → GS c (f d).1) {r : Daemon × List Ev} (h : Stg c q k r.1) : Stg c q k (bindD f r).1 := by
  unfold Stg at *
  split
  · next h1 => rw [if_pos h1] at h; exact hG _ h
  · next h1 => rw [if_neg h1] at h; exact hF _ h

theorem Known_resumeReq (d : Daemon) (c a : Nat) : Known (resumeReq d c).1 a ↔ Known d a := by simp [Known, resumeReq]

theorem GS_splitTrav {c : Nat} (T : List Nat → Daemon → Daemon × List Ev)
    (hTF : ∀ l d, (∀ a ∈ l, Known d a ∧ a ≠ c) → FS c d → FS c (T l d).1 ∧ ∀ a, Known d a → Known (T l d).1 a)
    (hTG : ∀ l d, (∀ a ∈ l, Known d a ∧ a ≠ c) → GS c d → GS c (T l d).1)
    (q base : Nat) (l : List Nat) (r : Daemon × List Ev) (hl : ∀ a ∈ l, Known r.1 a ∧ a ≠ c) (h : Stg c q base r.1) :
    GS c (splitTrav T c (some q) base l r).1 := by
  unfold splitTrav Stg at *
  simp only []
  by_cases hb : base ≤ q
  · rw [if_pos hb]
    rw [if_neg (by omega)] at h
    have a := hTF (l.take (q - base)) r.1 (fun x hx => hl x (List.mem_of_mem_take hx)) h
    have b : GS c (resumeReq (T (l.take (q - base)) r.1).1 c).1 := GS_of_FS_resumeReq a.1
    exact hTG (l.drop (q - base)) _ (fun x hx =>
      ⟨(Known_resumeReq _ c x).2 (a.2 x (hl x (List.mem_of_mem_drop hx)).1), (hl x (List.mem_of_mem_drop hx)).2⟩) b
  · rw [if_neg hb]
    rw [if_pos (by omega)] at h
    exact hTG l r.1 hl h

theorem mem_bindD {e : Ev} {f : Daemon → Daemon × List Ev} {r : Daemon × List Ev} (h : e ∈ r.2) : e ∈ (bindD f r).2 :=
  List.mem_append_left _ h

theorem mem_injAt {e : Ev} {c : Nat} {p : Option Nat} {k : Nat} {r : Daemon × List Ev} (h : e ∈ r.2) : e ∈ (injAt c p k r).2 := by
  unfold injAt; split
  · exact mem_bindD h
  · exact h

theorem mem_splitTrav {e : Ev} {T : List Nat → Daemon → Daemon × List Ev} {c : Nat} {p : Option Nat} {b : Nat} {l : List Nat}
    {r : Daemon × List Ev} (h : e ∈ r.2) : e ∈ (splitTrav T c p b l r).2 := by
  unfold splitTrav
  split
  · split
    · exact mem_bindD (mem_bindD (mem_bindD h))
    · exact mem_bindD h
  · exact mem_bindD h

/-- the common start of every round: script timers, then the request lands before resume_suspended_connections
    (position 0: served by this very call) or the call leaves the frozen connection alone -/
theorem round_head (g : Guards) (c : Nat) (d : Daemon) (hw : WF d) (hf : Frz c d) (ht : (d.conn c).timer ≠ some 0)
    (ids : List Nat) (hnd : ids.Nodup) :
    (c, CEv.resumed) ∈ (bindD (resumeSuspended g) (injAt c (some 0) 0 (timers d ids))).2 ∧
    (∀ q, 1 ≤ q → Stg c q 1 (bindD (resumeSuspended g) (injAt c (some q) 0 (timers d ids))).1) := by
  have ft : FS c (timers d ids).1 := FS_of_FZ (FZ_timerScan c ids d hnd (Or.inl ht)) ⟨hw, hf⟩
  refine ⟨?_, fun q hq => ?_⟩
  · have gs : GS c (resumeReq (timers d ids).1 c).1 := GS_of_FS_resumeReq ft
    have rm := resume_moves_back g _ gs.1 c gs.2.1 gs.2.2.1
    simp only [injAt, if_true, bindD]
    exact List.mem_append_right _ rm.1
  · have hne : ¬ (some q = some 0) := by intro e; injection e with e; omega
    simp only [injAt, if_neg hne, Stg, if_neg (show ¬ q < 1 by omega)]
    exact FS_of_FZ (FZ_resumeSuspended g c (timers d ids).1) ft

theorem Stg.wf_susp {c q k : Nat} {d : Daemon} (h : Stg c q k d) : WF d ∧ c ∈ d.susp := by
  unfold Stg at h; split at h
  · exact ⟨h.1, h.2.1⟩
  · exact ⟨h.1, h.2.1⟩

theorem trav_list_ok {c : Nat} {d : Daemon} (h : WF d ∧ c ∈ d.susp) (l : List Nat) (hl : ∀ a ∈ l, a ∈ d.active) :
    ∀ a ∈ l, Known d a ∧ a ≠ c :=
  fun a ha => ⟨Or.inl (hl a ha), fun e => h.1.act_nosusp c (e ▸ hl a ha) h.2⟩

/-- RESUME AT ANY POINT OF AN EPOLL ROUND -/
theorem resume_any_point_epoll (g : Guards) (hg : g.Sound) (c : Nat) (d : Daemon) (hw : WF d) (hf : Frz c d)
    (ht : (d.conn c).timer ≠ some 0) (ids : List Nat) (hnd : ids.Nodup) (evs : List (Nat × Bool × Bool)) :
    (c, CEv.resumed) ∈ (roundEpollAt g d ids evs c (some 0)).2 ∧
    ∀ q, 1 ≤ q → GS c (roundEpollAt g d ids evs c (some q)).1 := by
  have hd := round_head g c d hw hf ht ids hnd
  refine ⟨?_, fun q hq => ?_⟩
  · unfold roundEpollAt; simp only []
    exact mem_splitTrav (mem_bindD (mem_injAt (mem_bindD (mem_injAt (mem_bindD (mem_injAt hd.1))))))
  · have s1 := Stg_inj (hd.2 q hq)
    have s2 := Stg_inj (Stg_phase (f := pureD (fun d => epollEvents evs { d with pending := false }))
      (fun x hx => FS_of_FZ (FZ_epollPhase c evs x) hx) (fun x hx => GS_epollPhase c evs x hx) s1)
    have s3 := Stg_inj (Stg_phase (f := newPhase) (fun x hx => FS_of_FZ (FZ_newPhase c x) hx) (fun x hx => GS_newPhase c x hx) s2)
    have s4 := Stg_phase (f := timeoutScan g) (fun x hx => FS_of_FZ (FZ_timeoutScan g hg c x) hx)
      (fun x hx => GS_timeoutScan g hg c x hx) s3
    unfold roundEpollAt; simp only []
    refine GS_splitTrav (travEready g)
      (fun l x hl hx => ⟨FS_of_FZ (FZ_travEready g hg c l x hl) hx, (FZ_travEready g hg c l x hl hx.1 hx.2).2.1⟩)
      (fun l x hl hx => GS_travEready g hg c l x hl hx) q 4 _ _ ?_ s4
    exact trav_list_ok s4.wf_susp _ (fun a ha => s4.wf_susp.1.er_sub a (List.mem_reverse.1 ha))

/-- RESUME AT ANY POINT OF A SELECT ROUND -/
theorem resume_any_point_select (g : Guards) (hg : g.Sound) (c : Nat) (d : Daemon) (hw : WF d) (hf : Frz c d)
    (ht : (d.conn c).timer ≠ some 0) (ids : List Nat) (hnd : ids.Nodup) (rd wr : Nat → Bool) :
    (c, CEv.resumed) ∈ (roundSelectAt g d ids rd wr c (some 0)).2 ∧
    ∀ q, 1 ≤ q → GS c (roundSelectAt g d ids rd wr c (some q)).1 := by
  have hd := round_head g c d hw hf ht ids hnd
  refine ⟨?_, fun q hq => ?_⟩
  · unfold roundSelectAt; simp only []
    exact mem_splitTrav (mem_bindD (mem_injAt hd.1))
  · have s1 := Stg_inj (hd.2 q hq)
    have s2 := Stg_phase (f := newPhase) (fun x hx => FS_of_FZ (FZ_newPhase c x) hx) (fun x hx => GS_newPhase c x hx) s1
    unfold roundSelectAt; simp only []
    refine GS_splitTrav (travSelect g _ _ rd wr)
      (fun l x hl hx => ⟨FS_of_FZ (FZ_travSelect g hg c _ _ rd wr l x hl) hx, (FZ_travSelect g hg c _ _ rd wr l x hl hx.1 hx.2).2.1⟩)
      (fun l x hl hx => GS_travSelect g hg c _ _ rd wr l x hl hx) q 2 _ _ ?_ s2
    exact trav_list_ok s2.wf_susp _ (fun a ha => List.mem_reverse.1 ha)

/-- RESUME AT ANY POINT OF A POLL ROUND -/
theorem resume_any_point_poll (g : Guards) (hg : g.Sound) (c : Nat) (d : Daemon) (hw : WF d) (hf : Frz c d)
    (ht : (d.conn c).timer ≠ some 0) (ids : List Nat) (hnd : ids.Nodup) (rd wr : Nat → Bool) :
    (c, CEv.resumed) ∈ (roundPollAt g d ids rd wr c (some 0)).2 ∧
    ∀ q, 1 ≤ q → GS c (roundPollAt g d ids rd wr c (some q)).1 := by
  have hd := round_head g c d hw hf ht ids hnd
  refine ⟨?_, fun q hq => ?_⟩
  · unfold roundPollAt; simp only []
    exact mem_splitTrav (mem_bindD (mem_injAt hd.1))
  · have s1 := Stg_inj (hd.2 q hq)
    have s2 := Stg_phase (f := newPhase) (fun x hx => FS_of_FZ (FZ_newPhase c x) hx) (fun x hx => GS_newPhase c x hx) s1
    unfold roundPollAt; simp only []
    refine GS_splitTrav (travAll g _ _ rd wr)
      (fun l x hl hx => ⟨FS_of_FZ (FZ_travAll g hg c _ _ rd wr l x hl) hx, (FZ_travAll g hg c _ _ rd wr l x hl hx.1 hx.2).2.1⟩)
      (fun l x hl hx => GS_travAll g hg c _ _ rd wr l x hl hx) q 2 _ _ ?_ s2
    intro a ha
    have h1 := s1.wf_susp
    have hact := List.mem_reverse.1 ha
    exact ⟨(WK_newPhase _ h1.1).2 a (Or.inl hact), fun e => h1.1.act_nosusp c (e ▸ hact) h1.2⟩

/-- what a pending request guarantees: the loop is told not to block and the next resume_suspended_connections serves it -/
theorem GS.served {c : Nat} {d : Daemon} (g : Guards) (h : GS c d) :
    d.hintZero = true ∧ (c, CEv.resumed) ∈ (resumeSuspended g d).2 ∧ c ∈ (resumeSuspended g d).1.active ∧
    c ∉ (resumeSuspended g d).1.susp := by
  have rm := resume_moves_back g d h.1 c h.2.1 h.2.2.1
  exact ⟨by simp [Daemon.hintZero, h.2.2.2], rm.1, rm.2.1, rm.2.2.1⟩

theorem Pend_hint {c : Nat} {d : Daemon} (h : Pend c d) : d.hintZero = true := by
  simp [Daemon.hintZero, h.2.2]

end Mhd.Susp
