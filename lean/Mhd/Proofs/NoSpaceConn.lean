import Mhd.Model.NoSpaceConn
import Mhd.Proofs.ConnRead
import Mhd.Proofs.NoSpace

set_option linter.unusedSimpArgs false
namespace Mhd.ArenaBound
open Mhd.ConnRead Mhd.ConnMem Mhd.Req Mhd.Gen Mhd.Gen.ConnMem

/-- "the phase is `.error .noSpace`" -/
abbrev NS (x : CR) : Prop := isNoSpace x.phase = true

theorem errorOut_ns (x : CR) (k : ErrKind) (h : NS (errorOut x k)) : k = .noSpace := by
  unfold NS errorOut at h
  cases k with
  | noSpace => rfl
  | closed => simp [isNoSpace] at h
  | reply c =>
    simp only at h
    split at h <;> simp [isNoSpace] at h

theorem errOfReply_ne (o : Option Nat) : errOfReply o ≠ .noSpace := by
  cases o <;> simp [errOfReply]

theorem afterLine_ns (x : CR) (r : ReqLine) : ¬ NS (afterLine x r) := by
  intro h
  unfold afterLine at h
  split at h
  · exact errOfReply_ne _ (errorOut_ns _ _ h)
  · split at h
    · simp [NS, isNoSpace] at h
    · split at h
      · have := errorOut_ns _ _ h; simp at this
      · simp [NS, isNoSpace] at h

theorem idleReqLine_ns (x : CR) (s : RL) : ¬ NS (idleReqLine x s) := by
  intro h
  unfold idleReqLine at h
  split at h
  · simp [NS, isNoSpace] at h
  · split at h
    · simp [NS, isNoSpace] at h
    · split at h
      · have := errorOut_ns _ _ h; simp at this
      · simp [NS, isNoSpace] at h
  · exact errOfReply_ne _ (errorOut_ns _ _ h)
  · split at h
    · simp [NS, isNoSpace] at h
    · exact afterLine_ns _ _ h

theorem stLine_ns (x : CR) (h : NS (stLine x)) : NS x := by
  unfold stLine at h
  split at h
  · exact absurd h (idleReqLine_ns _ _)
  · simp [NS, isNoSpace] at h
  · exact h

theorem startBody_ns (cfg : Cfg) (x : CR) (hd : Headers) (rq : Rq) (ch : Bool) (n : Nat) :
    ¬ NS (startBody cfg x hd rq ch n) := by
  intro h
  unfold startBody at h
  split at h
  · simp [NS, isNoSpace] at h
  · simp only at h
    split at h <;> simp [NS, isNoSpace] at h

theorem stAfter_ns (cfg : Cfg) (x : CR) (h : NS (stAfter cfg x)) : NS x := by
  unfold stAfter at h
  split at h
  · rename_i hd rq hp
    unfold afterHeaders at h
    split at h
    · exact h
    · have := errorOut_ns _ _ h; simp at this
    · exfalso
      split at h
      · simp [NS, isNoSpace] at h
      · simp [NS, isNoSpace] at h
      · split at h <;> exact startBody_ns _ _ _ _ _ _ h
  · exact h

theorem processBody_ns (cfg : Cfg) (x : CR) (b : Body) : ¬ NS (processBody cfg x b) := by
  intro h
  unfold processBody at h
  simp only at h
  split at h
  · simp [NS, isNoSpace] at h
  · have := errorOut_ns _ _ h; simp at this
  · simp [NS, isNoSpace] at h
  · split at h <;> simp [NS, isNoSpace] at h

theorem idleBody_ns (cfg : Cfg) (x : CR) (b : Body) (h : NS (idleBody cfg x b)) : NS x := by
  unfold idleBody at h
  simp only at h
  split at h
  · split at h
    · split at h <;> simp [NS, isNoSpace] at h
    · rename_i b1 hp hr
      unfold NS at h; rw [hp] at h; simp [isNoSpace] at h
  · by_cases h0 : x.cm.rbOff ≠ 0
    · rw [if_pos h0] at h; exact absurd h (processBody_ns _ _ _)
    · rw [if_neg h0] at h; exact h

theorem stBody_ns (cfg : Cfg) (x : CR) (h : NS (stBody cfg x)) : NS x := by
  unfold stBody at h
  split at h
  · rename_i b hp
    have := idleBody_ns cfg x b h
    exact this
  · exact h

theorem finishRequest_ns (x : CR) (buf : Bytes) (rb : Nat) : ¬ NS (finishRequest x buf rb).1 := by
  intro h
  unfold finishRequest at h
  split at h
  · simp [NS, isNoSpace] at h
  · split at h <;> simp [NS, isNoSpace] at h

theorem stDone_ns (cfg : Cfg) (x : CR) (h : NS (stDone cfg x).1) : NS x := by
  unfold stDone at h
  split at h
  · split at h
    · exact absurd h (finishRequest_ns _ _ _)
    · simp [NS, isNoSpace] at h
  · exact h

/-- the header loop ends in `.error .noSpace` only where `hdrFail` records the refusal -/
theorem hdrLoop_ns (lvl : Int) (fs : Nat) (a : Aux) : ∀ (n : Nat) (c : CM) (s : HS),
    NS (hdrLoop lvl fs none n c s) → (hdrFail lvl fs a n c s).isSome = true := by
  intro n
  induction n with
  | zero => intro c s h; simp [hdrLoop, NS, isNoSpace] at h
  | succ n ih =>
    intro c s h
    unfold hdrLoop hdrBody at h
    unfold hdrFail
    simp only at h ⊢
    split at h
    · simp [NS, isNoSpace, linesPhase] at h
    · simp [NS, isNoSpace] at h
    · have := errorOut_ns _ _ h; simp at this
    · split at h
      · simp [NS, isNoSpace] at h
      · split at h <;> simp [NS, isNoSpace] at h
    · rename_i s1 hst
      simp only [hst]
      split at h
      · simp [NS, isNoSpace] at h
      · rename_i c1 hc
        simp only [hc]
        split at h
        · rename_i hlen
          simp only [hlen, if_true]
          rcases hal : step c1 (.alloc reqHeaderSize) with ⟨c2, r⟩
          rw [hal] at h
          cases r with
          | ptr o =>
            cases o with
            | some p => simp only at h ⊢; exact ih _ _ h
            | none => rfl
          | _ => rfl
        · rename_i hlen
          simp only [hlen, if_false]
          exact ih _ _ h

theorem or_isSome_left {α} (a b : Option α) (h : a.isSome = true) : (a.or b).isSome = true := by
  cases a <;> simp_all
theorem or_isSome_right {α} (a b : Option α) (h : b.isSome = true) : (a.or b).isSome = true := by
  cases a <;> simp_all

theorem passLog_complete (cfg : Cfg) (x : CR) (a : Aux) (hx : ¬ NS x) (h : NS (idlePass cfg x).1) :
    (passLog cfg x a).1.isSome = true := by
  unfold idlePass at h
  have h5 := stDone_ns _ _ h
  have h1 : ¬ NS (stLine x) := fun hh => hx (stLine_ns _ hh)
  unfold passLog
  simp only
  by_cases h2 : NS (stHeaders (stLine x))
  · apply or_isSome_left
    unfold stHeaders at h2
    split at h2
    · rename_i hs fs hp
      rw [hp]
      simp only
      exact hdrLoop_ns _ _ _ _ _ _ h2
    · exact absurd h2 h1
  · apply or_isSome_right
    have h3 : ¬ NS (stAfter cfg (stHeaders (stLine x))) := fun hh => h2 (stAfter_ns _ _ hh)
    have h4 : ¬ NS (stBody cfg (stAfter cfg (stHeaders (stLine x)))) := fun hh => h3 (stBody_ns _ _ hh)
    generalize stBody cfg (stAfter cfg (stHeaders (stLine x))) = x4 at h4 h5 ⊢
    have h5' : isNoSpace (stFooters x4).phase = true := h5
    unfold stFooters at h5
    split at h5
    · rename_i s n hp
      rw [hp]
      simp only [h5']
      rfl
    · exact absurd h5 h4

theorem idleStatesLog_complete (cfg : Cfg) : ∀ (n : Nat) (x : CR) (a : Aux), ¬ NS x →
    NS (idleStates cfg n x) → (idleStatesLog cfg n x a).1.isSome = true := by
  intro n
  induction n with
  | zero => intro x a hx h; exact absurd h hx
  | succ n ih =>
    intro x a hx h
    unfold idleStatesLog
    unfold idleStates at h
    rcases hp : passLog cfg x a with ⟨r, a1⟩
    cases r with
    | some r => simp
    | none =>
      have hn : ¬ NS (idlePass cfg x).1 := by
        intro hh
        have := passLog_complete cfg x a hx hh
        rw [hp] at this; simp at this
      rcases hi : idlePass cfg x with ⟨x', fl⟩
      rw [hi] at h hn
      cases fl with
      | true => simp only at h ⊢; exact ih x' a1 hn h
      | false => simp only at h; exact absurd h hn

theorem updateEv_eq (x : CR) : updateEv x = checkGrow (evState x) := by
  obtain ⟨cm, lvl, ph⟩ := x
  cases ph <;> rfl

theorem evState_ns (x : CR) (h : NS (evState x)) : NS x := by
  unfold evState at h
  split at h
  · simp [NS, isNoSpace] at h
  · exact h

theorem noSpaceOut_ns (x : CR) (h : NS (noSpaceOut x)) :
    (match x.phase with
     | .body b => hasUnprocessed b x.cm.rbOff = false
     | _ => True) := by
  unfold noSpaceOut at h
  split at h
  · rename_i b hp
    rw [hp]
    show hasUnprocessed b x.cm.rbOff = false
    by_cases hu : hasUnprocessed b x.cm.rbOff = true
    · rw [if_pos hu] at h; simp [NS, isNoSpace] at h
    · simpa using hu
  · rename_i hp
    split <;> first | trivial | (rename_i b hb; exact absurd hb (hp b))

theorem growLog_complete (x : CR) (a : Aux) (hx : ¬ NS x) (h : NS (checkGrow x)) : (growLog x a).isSome = true := by
  unfold checkGrow at h
  unfold growLog
  by_cases hw : x.wantsRead = true
  · simp only [hw, Bool.not_true, Bool.false_eq_true, if_false] at h ⊢
    by_cases hreq : (x.cm.rbOff == x.cm.rbSize) = true
    · simp only [hreq, Bool.true_or, Bool.not_true, Bool.false_eq_true, if_false] at h ⊢
      rcases hg : step x.cm (.grow true) with ⟨c, r⟩
      rw [hg] at h
      cases r with
      | badOp => simp [NS, isNoSpace] at h
      | bool b =>
        cases b with
        | true => simp only at h; exact absurd h hx
        | false =>
          simp only [Bool.not_true, Bool.false_eq_true, if_false] at h ⊢
          have := noSpaceOut_ns _ h
          simp only at this ⊢
          split
          · rename_i b hb; rw [hb] at this; simp only at this; simp [this]
          · rfl
      | _ =>
        simp only [Bool.not_true, Bool.false_eq_true, if_false] at h ⊢
        have := noSpaceOut_ns _ h
        simp only at this ⊢
        split
        · rename_i b hb; rw [hb] at this; simp only at this; simp [this]
        · rfl
    · simp only [hreq, Bool.false_or] at h
      exfalso
      split at h
      · exact hx h
      · split at h
        · simp [NS, isNoSpace] at h
        · exact hx h
        · simp only [Bool.not_false, if_true] at h; exact hx h
  · simp only [hw, Bool.not_false, if_true] at h
    exact absurd h hx

theorem idleLog_complete (cfg : Cfg) (x : CR) (a : Aux) (hx : ¬ NS x) (h : NS (idle cfg x)) :
    (idleLog cfg x a).1.isSome = true := by
  unfold idle at h
  rw [updateEv_eq] at h
  unfold idleLog
  rcases hq : idleStatesLog cfg (x.cm.rbOff + 2) x a with ⟨r, a1⟩
  simp only
  by_cases hy : NS (idleStates cfg (x.cm.rbOff + 2) x)
  · apply or_isSome_left
    have := idleStatesLog_complete cfg _ x a hx hy
    rw [hq] at this; exact this
  · apply or_isSome_right
    exact growLog_complete _ a1 (fun hh => hy (evState_ns _ hh)) h

/-! ### the traced run carries C01's run unchanged -/

theorem idleT_x (cfg : Cfg) (t : TR) : (idleT cfg t).x = idle cfg t.x := by
  unfold idleT
  rcases idleLog cfg t.x t.aux with ⟨r, a1⟩
  rfl

theorem feedFuelT_x (cfg : Cfg) : ∀ (n : Nat) (t : TR) (bs : List UInt8),
    (feedFuelT cfg n t bs).x = feedFuel cfg n t.x bs := by
  intro n
  induction n with
  | zero => intro t bs; rfl
  | succ n ih =>
    intro t bs
    unfold feedFuelT feedFuel
    by_cases h1 : (!t.x.reading || bs.isEmpty) = true
    · simp only [h1, Bool.false_eq_true, if_true, if_false]
    · simp only [h1, Bool.false_eq_true, if_true, if_false]
      by_cases h2 : (t.x.wantsRead && t.x.space != 0) = true
      · simp only [h2, Bool.false_eq_true, if_true, if_false]
        rw [ih, idleT_x]
      · simp only [h2, Bool.false_eq_true, if_true, if_false]
        rw [ih, idleT_x]

theorem feedT_x (cfg : Cfg) (t : TR) (c : List UInt8) : (feedT cfg t c).x = feed cfg t.x c := by
  unfold feedT feed
  by_cases h1 : c.isEmpty = true
  · simp only [h1, Bool.false_eq_true, if_true, if_false]
    by_cases h2 : t.x.reading = true
    · simp only [h2, Bool.false_eq_true, if_true, if_false]; exact idleT_x cfg t
    · simp only [h2, Bool.false_eq_true, if_true, if_false]
  · simp only [h1, Bool.false_eq_true, if_true, if_false]
    exact feedFuelT_x cfg _ t c

/-- **erasure**: forgetting the trace gives exactly `Mhd.ConnRead.run` -/
theorem runT_x (cfg : Cfg) (chunks : List (List UInt8)) : ∀ (t : TR), (runT cfg t chunks).x = run cfg t.x chunks := by
  induction chunks with
  | nil => intro t; rfl
  | cons c cs ih =>
    intro t
    show (runT cfg (feedT cfg t c) cs).x = Mhd.ConnRead.run cfg (feed cfg t.x c) cs
    rw [ih, feedT_x]

/-! ### whenever the run is in `.error .noSpace` the refusal was recorded -/

def Good (t : TR) : Prop := NS t.x → t.log.isSome = true

theorem idleT_good (cfg : Cfg) (t : TR) (hg : Good t) : Good (idleT cfg t) := by
  intro h
  rw [idleT_x] at h
  unfold idleT
  rcases hq : idleLog cfg t.x t.aux with ⟨r, a1⟩
  simp only
  by_cases hx : NS t.x
  · exact or_isSome_left _ _ (hg hx)
  · apply or_isSome_right
    have := idleLog_complete cfg t.x t.aux hx h
    rw [hq] at this; exact this

theorem recvBytes_ns (x : CR) (e : List UInt8) (h : NS (recvBytes x e)) : NS x := by
  unfold recvBytes at h
  split at h
  · simp [NS, isNoSpace] at h
  · simp only [NS] at h ⊢
    cases hp : x.phase <;> rw [hp] at h <;> simp [Phase.extend, isNoSpace] at h ⊢
    exact h

theorem feedFuelT_good (cfg : Cfg) : ∀ (n : Nat) (t : TR) (bs : List UInt8), Good t → Good (feedFuelT cfg n t bs) := by
  intro n
  induction n with
  | zero => intro t bs hg; exact hg
  | succ n ih =>
    intro t bs hg
    unfold feedFuelT
    by_cases h1 : (!t.x.reading || bs.isEmpty) = true
    · simp only [h1, Bool.false_eq_true, if_true, if_false]; exact hg
    · simp only [h1, Bool.false_eq_true, if_true, if_false]
      by_cases h2 : (t.x.wantsRead && t.x.space != 0) = true
      · simp only [h2, Bool.false_eq_true, if_true, if_false]
        apply ih
        apply idleT_good
        intro hh
        exact hg (recvBytes_ns _ _ hh)
      · simp only [h2, Bool.false_eq_true, if_true, if_false]
        exact ih _ _ (idleT_good cfg t hg)

theorem feedT_good (cfg : Cfg) (t : TR) (c : List UInt8) (hg : Good t) : Good (feedT cfg t c) := by
  unfold feedT
  by_cases h1 : c.isEmpty = true
  · simp only [h1, Bool.false_eq_true, if_true, if_false]
    by_cases h2 : t.x.reading = true
    · simp only [h2, Bool.false_eq_true, if_true, if_false]; exact idleT_good cfg t hg
    · simp only [h2, Bool.false_eq_true, if_true, if_false]; exact hg
  · simp only [h1, Bool.false_eq_true, if_true, if_false]
    exact feedFuelT_good cfg _ t c hg

theorem runT_good (cfg : Cfg) (chunks : List (List UInt8)) : ∀ (t : TR), Good t → Good (runT cfg t chunks) := by
  induction chunks with
  | nil => intro t hg; exact hg
  | cons c cs ih =>
    intro t hg
    simp only [runT, List.foldl_cons]
    exact ih _ (feedT_good cfg t c hg)

theorem initT_good (allocSize poolSize inc : Nat) (lvl : Int) : Good (initT allocSize poolSize inc lvl) := by
  intro h; simp [NS, initT, Mhd.ConnRead.init, isNoSpace] at h

/-! ### every recorded refusal is one the property allows -/

/-- "refused with 413/414/431 or a close" (501 — the method is what is too long — only for a
    non-standard method token, see `Mhd.NoSpace.not_implemented_only_for_other_method`) -/
def Refusal.Allowed : Refusal → Prop
  | .close => True
  | .status c => c = httpContentTooLarge ∨ c = httpUriTooLong ∨ c = httpHeaderFieldsTooLarge ∨ c = httpNotImplemented

theorem refusalGrow_allowed (x : CR) (a : Aux) : (refusalGrow x a).Allowed := by
  unfold refusalGrow
  simp only
  split
  · split
    · right; left; rfl
    · trivial
  · exact Mhd.NoSpace.status_in_set _
  · split
    · split
      · left; rfl
      · exact Mhd.NoSpace.status_in_set _
    · exact Mhd.NoSpace.status_in_set _
  · right; right; left; rfl
  · trivial

theorem refusalAdd_allowed (buf : Bytes) (c : CM) (fs : Nat) (before : List Elem) (e : Elem) (a : Aux) :
    (refusalAdd buf c fs before e a).Allowed := Mhd.NoSpace.status_in_set _

def OptAllowed (o : Option Refusal) : Prop := ∀ r, o = some r → r.Allowed

theorem optAllowed_or {a b : Option Refusal} (ha : OptAllowed a) (hb : OptAllowed b) : OptAllowed (a.or b) := by
  cases a with
  | none => simpa using hb
  | some r => simpa using ha

theorem optAllowed_none : OptAllowed none := by intro r h; simp at h

theorem hdrFail_allowed (lvl : Int) (fs : Nat) (a : Aux) : ∀ (n : Nat) (c : CM) (s : HS), OptAllowed (hdrFail lvl fs a n c s) := by
  intro n
  induction n with
  | zero => intro c s; exact optAllowed_none
  | succ n ih =>
    intro c s
    unfold hdrFail
    simp only
    split
    · split
      · exact optAllowed_none
      · split
        · split
          · exact ih _ _
          · intro r h; injection h with h; subst h; exact refusalAdd_allowed _ _ _ _ _ _
        · exact ih _ _
    · exact optAllowed_none

theorem passLog_allowed (cfg : Cfg) (x : CR) (a : Aux) : OptAllowed (passLog cfg x a).1 := by
  unfold passLog
  simp only
  apply optAllowed_or
  · split
    · exact hdrFail_allowed _ _ _ _ _ _
    · exact optAllowed_none
  · split
    · split
      · intro r h; injection h with h; subst h; right; right; left; rfl
      · exact optAllowed_none
    · exact optAllowed_none

theorem idleStatesLog_allowed (cfg : Cfg) : ∀ (n : Nat) (x : CR) (a : Aux), OptAllowed (idleStatesLog cfg n x a).1 := by
  intro n
  induction n with
  | zero => intro x a; exact optAllowed_none
  | succ n ih =>
    intro x a
    unfold idleStatesLog
    have hp := passLog_allowed cfg x a
    rcases hq : passLog cfg x a with ⟨r, a1⟩
    rw [hq] at hp
    rcases idlePass cfg x with ⟨x', fl⟩
    cases r with
    | some r => exact hp
    | none =>
      cases fl with
      | true => exact ih _ _
      | false => exact optAllowed_none

theorem growLog_allowed (x : CR) (a : Aux) : OptAllowed (growLog x a) := by
  unfold growLog
  split
  · exact optAllowed_none
  · split
    · exact optAllowed_none
    · split
      · exact optAllowed_none
      · exact optAllowed_none
      · simp only
        split
        · split
          · exact optAllowed_none
          · intro r h; injection h with h; subst h; exact refusalGrow_allowed _ _
        · intro r h; injection h with h; subst h; exact refusalGrow_allowed _ _

theorem idleLog_allowed (cfg : Cfg) (x : CR) (a : Aux) : OptAllowed (idleLog cfg x a).1 := by
  unfold idleLog
  have h1 := idleStatesLog_allowed cfg (x.cm.rbOff + 2) x a
  rcases hq : idleStatesLog cfg (x.cm.rbOff + 2) x a with ⟨r, a1⟩
  rw [hq] at h1
  exact optAllowed_or h1 (growLog_allowed _ _)

theorem idleT_allowed (cfg : Cfg) (t : TR) (h : OptAllowed t.log) : OptAllowed (idleT cfg t).log := by
  unfold idleT
  have h1 := idleLog_allowed cfg t.x t.aux
  rcases hq : idleLog cfg t.x t.aux with ⟨r, a1⟩
  rw [hq] at h1
  exact optAllowed_or h h1

theorem feedFuelT_allowed (cfg : Cfg) : ∀ (n : Nat) (t : TR) (bs : List UInt8), OptAllowed t.log →
    OptAllowed (feedFuelT cfg n t bs).log := by
  intro n
  induction n with
  | zero => intro t bs h; exact h
  | succ n ih =>
    intro t bs h
    unfold feedFuelT
    split
    · exact h
    · split
      · exact ih _ _ (idleT_allowed cfg _ h)
      · exact ih _ _ (idleT_allowed cfg _ h)

theorem feedT_allowed (cfg : Cfg) (t : TR) (c : List UInt8) (h : OptAllowed t.log) : OptAllowed (feedT cfg t c).log := by
  unfold feedT
  split
  · split
    · exact idleT_allowed cfg t h
    · exact h
  · exact feedFuelT_allowed cfg _ t c h

theorem runT_allowed (cfg : Cfg) (chunks : List (List UInt8)) : ∀ (t : TR), OptAllowed t.log → OptAllowed (runT cfg t chunks).log := by
  induction chunks with
  | nil => intro t h; exact h
  | cons c cs ih => intro t h; exact ih _ (feedT_allowed cfg t c h)

end Mhd.ArenaBound

/-! ### one arena: its size never changes (no operation of the buffer layer, no step of the composed run) -/

namespace Mhd.Pool

theorem allocate_size (p : Pool) (n : Nat) (fe : Bool) : (allocate p n fe).1.size = p.size := by
  unfold allocate; simp only; repeat' split
  all_goals rfl

theorem tryAlloc_size (p : Pool) (n : Nat) : (tryAlloc p n).1.size = p.size := by
  unfold tryAlloc; simp only; repeat' split
  all_goals rfl

theorem reallocate_size (p : Pool) (o : Option Nat) (os n : Nat) : (reallocate p o os n).1.size = p.size := by
  unfold reallocate; simp only; repeat' split
  all_goals first | rfl | (simp only; split <;> rfl)

theorem deallocate_size (p : Pool) (o : Option Nat) (n : Nat) : (deallocate p o n).size = p.size := by
  unfold deallocate; simp only; repeat' split
  all_goals rfl

theorem reset_size (p : Pool) (k : Option Nat) (c n : Nat) : (reset p k c n).size = p.size := rfl

end Mhd.Pool

namespace Mhd.ConnMem
open Mhd.Pool

theorem grow_size (c : CM) (r : Bool) : (grow c r).1.p.size = c.p.size := by
  unfold grow
  split
  · rfl
  · rename_i ns _
    split
    · rfl
    · have := reallocate_size c.p c.rb c.rbSize ns
      split
      · rfl
      · rename_i p' r' h; rw [h] at this; exact this

theorem allocMem_size (c : CM) (n : Nat) : (allocMem c n).1.p.size = c.p.size := by
  unfold allocMem
  have h0 := tryAlloc_size c.p n
  split
  · rename_i p' off _ h; rw [h] at h0; exact h0
  · rfl
  · split
    · split
      · have h1 := reallocate_size c.p c.wb c.wbSize (c.wbSize - ‹Nat›)
        simp only [allocate_size, h1]
      · rfl
    · split
      · split
        · have h1 := reallocate_size c.p c.rb c.rbSize (c.rbSize - ‹Nat›)
          simp only [allocate_size, h1]
        · rfl
      · rfl

theorem step_size (c : CM) (o : Op) : (step c o).1.p.size = c.p.size := by
  cases o <;> simp only [step]
  case grow r => split; rfl; exact grow_size c r
  case recv k => split <;> rfl
  case consume k => split; split <;> rfl; rfl
  case shiftBack k => split; split <;> rfl; rfl
  case bodyDrop k => split <;> rfl
  case alloc n => exact allocMem_size c n
  case shrinkRead =>
    split; rfl
    show (shrinkRead c).p.size = _
    unfold shrinkRead
    split; rfl
    split; rfl
    split
    · exact deallocate_size _ _ _
    · have := reallocate_size c.p (some ‹Nat›) c.rbSize c.rbOff
      simp only [this]
  case maxWrite =>
    split; rfl
    show (maxWrite c).1.p.size = _
    unfold maxWrite
    simp only
    split
    · have := reallocate_size c.p c.wb c.wbSize (c.wbSize + getFree c.p)
      simp only
      split <;> simp only [this]
    · rfl
  case wAppend k => split <;> rfl
  case wSend k => split <;> rfl
  case resetConn => split; exact reset_size _ _ _ _; rfl
  case errRelease => split; rfl; split; exact deallocate_size _ _ _; rfl
  case errReset => split; rfl; exact reset_size _ _ _ _

end Mhd.ConnMem

namespace Mhd.ArenaBound
open Mhd.ConnRead Mhd.ConnMem Mhd.Req Mhd.Gen

/-- the arena of the connection: its size -/
abbrev asz (x : CR) : Nat := x.cm.p.size

theorem op_size {c c' : CM} {o : Op} (h : op c o = some c') : c'.p.size = c.p.size := by
  unfold op at h
  have := step_size c o
  split at h
  · simp at h
  · rename_i c1 r heq
    injection h with h; subst h
    rw [heq] at this; exact this

theorem consumeTo_size {c c' : CM} {n : Nat} (h : consumeTo c n = some c') : c'.p.size = c.p.size := by
  unfold consumeTo at h
  split at h
  · exact op_size h
  · simp at h

theorem allocN_size : ∀ (n : Nat) (c : CM), (allocN n c).1.p.size = c.p.size := by
  intro n
  induction n with
  | zero => intro c; rfl
  | succ n ih =>
    intro c
    unfold allocN
    have := step_size c (.alloc Mhd.Gen.ConnMem.reqHeaderSize)
    rcases hst : step c (.alloc Mhd.Gen.ConnMem.reqHeaderSize) with ⟨c', r⟩
    rw [hst] at this
    cases r with
    | ptr o =>
      cases o with
      | some p => simp only; rw [ih]; exact this
      | none => exact this
    | _ => exact this

theorem errorOut_size (x : CR) (k : ErrKind) : asz (errorOut x k) = asz x := by
  unfold errorOut
  split
  · rfl
  · split
    · rename_i c h; exact op_size h
    · rfl

theorem recvBytes_size (x : CR) (e : List UInt8) : asz (recvBytes x e) = asz x := by
  unfold recvBytes
  split
  · rfl
  · rename_i c h; have := op_size h; exact this

theorem afterLine_size (x : CR) (r : ReqLine) : asz (afterLine x r) = asz x := by
  unfold afterLine
  split
  · exact errorOut_size _ _
  · split
    · rfl
    · have := allocN_size ‹Target›.elems.length x.cm
      split
      · rename_i c1 heq; rw [heq] at this; rw [errorOut_size]; exact this
      · rename_i c1 heq; rw [heq] at this; exact this

theorem idleReqLine_size (x : CR) (s : RL) : asz (idleReqLine x s) = asz x := by
  unfold idleReqLine
  split
  · rfl
  · split
    · rfl
    · rename_i c1 h
      have := consumeTo_size h
      simp only
      split
      · rw [errorOut_size]; exact this
      · exact this
  · exact errorOut_size _ _
  · split
    · rfl
    · rename_i c1 h
      rw [afterLine_size]; have := consumeTo_size h; exact this

theorem hdrBody_size (lvl : Int) (fs : Nat) (ft : Option Rq) (k : CM → HS → CR)
    (hk : ∀ c s, asz (k c s) = c.p.size) (c : CM) (s0 : HS) : asz (hdrBody lvl fs ft k c s0) = c.p.size := by
  unfold hdrBody
  split
  · rfl
  · rfl
  · exact errorOut_size _ _
  · split
    · rfl
    · rename_i c1 h
      have h1 := consumeTo_size h
      split
      · split
        · exact h1
        · rename_i c2 h2; have := (op_size h2).trans h1; exact this
      · exact h1
  · split
    · rfl
    · rename_i c1 h
      have h1 := consumeTo_size h
      split
      · have := step_size c1 (.alloc Mhd.Gen.ConnMem.reqHeaderSize)
        rcases hst : step c1 (.alloc Mhd.Gen.ConnMem.reqHeaderSize) with ⟨c2, r⟩
        rw [hst] at this
        cases r with
        | ptr o =>
          cases o with
          | some p => simp only; rw [hk]; exact this.trans h1
          | none => simp only; rw [errorOut_size]; exact this.trans h1
        | _ => simp only; rw [errorOut_size]; exact this.trans h1
      · rw [hk]; exact h1

theorem hdrLoop_size (lvl : Int) (fs : Nat) (ft : Option Rq) : ∀ (n : Nat) (c : CM) (s : HS),
    asz (hdrLoop lvl fs ft n c s) = c.p.size := by
  intro n
  induction n with
  | zero => intro c s; rfl
  | succ n ih => intro c s; unfold hdrLoop; exact hdrBody_size lvl fs ft _ ih c _

theorem processBody_size (cfg : Cfg) (x : CR) (b : Body) : asz (processBody cfg x b) = asz x := by
  unfold processBody
  simp only
  split
  · rfl
  · exact errorOut_size _ _
  · rfl
  · split
    · rfl
    · rename_i c1 h; have := op_size h; exact this

theorem idleBody_size (cfg : Cfg) (x : CR) (b : Body) : asz (idleBody cfg x b) = asz x := by
  unfold idleBody
  simp only
  have h1 : asz (if x.cm.rbOff ≠ 0 then processBody cfg x b else x) = asz x := by
    split
    · exact processBody_size _ _ _
    · rfl
  generalize (if x.cm.rbOff ≠ 0 then processBody cfg x b else x) = x1 at h1 ⊢
  split
  · split
    · split <;> exact h1
    · exact h1
  · exact h1

theorem afterHeaders_size (cfg : Cfg) (x : CR) (h : Headers) (rq : Rq) : asz (afterHeaders cfg x h rq) = asz x := by
  unfold afterHeaders
  have sb : ∀ ch n, asz (startBody cfg x h rq ch n) = asz x := by
    intro ch n; unfold startBody; split; rfl; simp only; split <;> rfl
  split
  · rfl
  · exact errorOut_size _ _
  · split
    · rfl
    · rfl
    · split <;> exact sb _ _

theorem finishRequest_size (x : CR) (buf : Bytes) (rb : Nat) : asz (finishRequest x buf rb).1 = asz x := by
  unfold finishRequest
  split
  · rfl
  · rename_i c1 h1
    split
    · rfl
    · rename_i c2 h2; exact (op_size h2).trans (op_size h1)

theorem idlePass_size (cfg : Cfg) (x : CR) : asz (idlePass cfg x).1 = asz x := by
  have e1 : asz (stLine x) = asz x := by unfold stLine; split; exact idleReqLine_size _ _; rfl; rfl
  have e2 : ∀ y, asz (stHeaders y) = asz y := by
    intro y; unfold stHeaders; split; exact hdrLoop_size _ _ _ _ _ _; rfl
  have e3 : ∀ y, asz (stAfter cfg y) = asz y := by
    intro y; unfold stAfter; split; exact afterHeaders_size _ _ _ _; rfl
  have e4 : ∀ y, asz (stBody cfg y) = asz y := by
    intro y; unfold stBody; split; exact idleBody_size _ _ _; rfl
  have e5 : ∀ y, asz (stFooters y) = asz y := by
    intro y; unfold stFooters; split; exact hdrLoop_size _ _ _ _ _ _; rfl
  have e6 : ∀ y, asz (stDone cfg y).1 = asz y := by
    intro y; unfold stDone; split
    · split
      · exact finishRequest_size _ _ _
      · rfl
    · rfl
  unfold idlePass
  rw [e6, e5, e4, e3, e2, e1]

theorem idleStates_size (cfg : Cfg) : ∀ (n : Nat) (x : CR), asz (idleStates cfg n x) = asz x := by
  intro n
  induction n with
  | zero => intro x; rfl
  | succ n ih =>
    intro x
    unfold idleStates
    have := idlePass_size cfg x
    split
    · rename_i x' heq; rw [heq] at this; rw [ih]; exact this
    · rename_i x' heq; rw [heq] at this; exact this

theorem checkGrow_size (x : CR) : asz (checkGrow x) = asz x := by
  unfold checkGrow
  split
  · rfl
  · simp only
    split
    · rfl
    · have := step_size x.cm (.grow (x.cm.rbOff == x.cm.rbSize))
      rcases hst : step x.cm (.grow (x.cm.rbOff == x.cm.rbSize)) with ⟨c, r⟩
      rw [hst] at this
      have hns : asz (noSpaceOut { x with cm := c }) = asz x := by
        unfold noSpaceOut
        split
        · split
          · exact this
          · rw [errorOut_size]; exact this
        · rw [errorOut_size]; exact this
      cases r with
      | badOp => rfl
      | bool b =>
        cases b with
        | true => exact this
        | false => simp only; split; exact this; exact hns
      | _ => simp only; split; exact this; exact hns

theorem idle_size (cfg : Cfg) (x : CR) : asz (idle cfg x) = asz x := by
  unfold idle
  rw [updateEv_eq, checkGrow_size]
  have : asz (evState (idleStates cfg (x.cm.rbOff + 2) x)) = asz (idleStates cfg (x.cm.rbOff + 2) x) := by
    unfold evState; split <;> rfl
  rw [this, idleStates_size]

theorem feedFuel_size (cfg : Cfg) : ∀ (n : Nat) (x : CR) (bs : List UInt8), asz (feedFuel cfg n x bs) = asz x := by
  intro n
  induction n with
  | zero => intro x bs; rfl
  | succ n ih =>
    intro x bs
    unfold feedFuel
    split
    · rfl
    · split
      · simp only; rw [ih, idle_size, recvBytes_size]
      · rw [ih, idle_size]

theorem feed_size (cfg : Cfg) (x : CR) (c : List UInt8) : asz (feed cfg x c) = asz x := by
  unfold feed
  split
  · split
    · exact idle_size _ _
    · rfl
  · exact feedFuel_size _ _ _ _

theorem run_size (cfg : Cfg) (chunks : List (List UInt8)) : ∀ (x : CR), asz (Mhd.ConnRead.run cfg x chunks) = asz x := by
  induction chunks with
  | nil => intro x; rfl
  | cons c cs ih =>
    intro x
    show asz (Mhd.ConnRead.run cfg (feed cfg x c) cs) = _
    rw [ih, feed_size]

theorem init_size (allocSize poolSize inc : Nat) (lvl : Int) :
    asz (Mhd.ConnRead.init allocSize poolSize inc lvl) = allocSize := by
  show (Mhd.ConnMem.init allocSize poolSize inc).p.size = allocSize
  unfold Mhd.ConnMem.init
  simp only
  exact Mhd.Pool.allocate_size _ _ _

end Mhd.ArenaBound
