/-
  C17 proofs: `MHD_bin_to_hex`, `MHD_hex_to_bin` and their round trip.
-/
import Mhd.Proofs.StrQuote

namespace Mhd.Str

/-! ### reference -/

def hexDigitLower (n : Nat) : UInt8 := if n < 10 then UInt8.ofNat (0x30 + n) else UInt8.ofNat (0x61 + n - 10)

/-- two lower-case hexadecimal digits per byte, high nibble first -/
def hexSpec : Bytes → Bytes
  | [] => []
  | b :: t => hexDigitLower (b.toNat / 16) :: hexDigitLower (b.toNat % 16) :: hexSpec t

/-- an even number of hexadecimal digits, two per byte -/
def hexPairs : Bytes → Option Bytes
  | [] => some []
  | [_] => none
  | a :: b :: rest =>
    match xval a, xval b with
    | some h, some l => (hexPairs rest).map (UInt8.ofNat (h * 16 + l) :: ·)
    | _, _ => none

/-- `MHD_hex_to_bin` reference: an odd-length input has an implied leading zero digit -/
def hexToBinSpec (s : Bytes) : Option Bytes :=
  if s.length % 2 = 0 then hexPairs s
  else match s with
    | a :: rest =>
      match xval a with
      | some l => (hexPairs rest).map (UInt8.ofNat l :: ·)
      | none => none
    | [] => none

theorem hexLower_table : ∀ n : Fin 256,
    hexLower (UInt8.ofNat n.val >>> 4) = hexDigitLower (n.val / 16) ∧
    hexLower (UInt8.ofNat n.val &&& 0x0f) = hexDigitLower (n.val % 16) := by
  decide +kernel

theorem hexLower_spec (b : UInt8) :
    hexLower (b >>> 4) = hexDigitLower (b.toNat / 16) ∧ hexLower (b &&& 0x0f) = hexDigitLower (b.toNat % 16) := by
  have h := hexLower_table ⟨b.toNat, b.toNat_lt⟩
  simpa using h

theorem xval_hexDigitLower : ∀ n : Fin 16, xval (hexDigitLower n.val) = some n.val := by
  decide +kernel

theorem byte_split_table : ∀ n : Fin 256, UInt8.ofNat (n.val / 16 * 16 + n.val % 16) = UInt8.ofNat n.val := by
  decide +kernel

theorem hexSpec_length (b : Bytes) : (hexSpec b).length = 2 * b.length := by
  induction b with
  | nil => rfl
  | cons x t ih => simp [hexSpec, ih]; omega

/-- decoding the hexadecimal form gives the bytes back -/
theorem hexPairs_hexSpec (b : Bytes) : hexPairs (hexSpec b) = some b := by
  induction b with
  | nil => simp [hexSpec, hexPairs]
  | cons x t ih =>
    have h1 := xval_hexDigitLower ⟨x.toNat / 16, by have := x.toNat_lt; omega⟩
    have h2 := xval_hexDigitLower ⟨x.toNat % 16, by omega⟩
    have h3 := byte_split_table ⟨x.toNat, x.toNat_lt⟩
    simp only at h1 h2 h3
    simp only [hexSpec, hexPairs, h1, h2, ih, Option.map_some, h3]
    simp

theorem hexToBin_hexSpec (b : Bytes) : hexToBinSpec (hexSpec b) = some b := by
  unfold hexToBinSpec
  have : (hexSpec b).length % 2 = 0 := by rw [hexSpec_length]; omega
  simp only [this, if_true]
  exact hexPairs_hexSpec b

/-! ### MHD_bin_to_hex -/

def B2HInv (bin out : Bytes) (st : RW) : Prop :=
  st.r ≤ bin.length ∧ st.out.length = out.length ∧
  hexSpec bin = st.out.take (2 * st.r) ++ hexSpec (bin.drop st.r)

theorem binToHex_step (bin out : Bytes) (hsz : 2 * bin.length ≤ out.length) (st : RW) (hi : B2HInv bin out st) :
    (∃ s', binToHexStep bin st = .ok (.inl s') ∧ B2HInv bin out s' ∧ bin.length - s'.r < bin.length - st.r) ∨
    (∃ r, binToHexStep bin st = .ok (.inr r) ∧
      (r.2.length = out.length ∧ r.1 = (hexSpec bin).length ∧ r.2.take r.1 = hexSpec bin)) := by
  obtain ⟨hr, hlen, hg⟩ := hi
  unfold binToHexStep
  by_cases hlt : st.r < bin.length
  · left
    have hdrop : bin.drop st.r = bin[st.r] :: bin.drop (st.r + 1) := List.drop_eq_getElem_cons hlt
    have hw : st.r * 2 < st.out.length := by omega
    have hw1 : st.r * 2 + 1 < (st.out.set (st.r * 2) (hexLower (bin[st.r] >>> 4))).length := by simp; omega
    simp only [hlt, if_true, rd_lt hlt, bind_ok', wr_ok _ hw, wr_ok _ hw1, pure_eq_ok]
    refine ⟨_, rfl, ⟨by simp; omega, by simp [hlen], ?_⟩, by simp; omega⟩
    simp only []
    have h2 : 2 * (st.r + 1) = st.r * 2 + 2 := by omega
    have h3 : 2 * st.r = st.r * 2 := by omega
    rw [h2, take_set_two _ _ _ _ (by omega : st.r * 2 + 1 < st.out.length), hg, hdrop, h3]
    simp [hexSpec, (hexLower_spec bin[st.r]).1, (hexLower_spec bin[st.r]).2]
  · right
    simp only [hlt, if_false, pure_eq_ok]
    have hnil : bin.drop st.r = [] := List.drop_eq_nil_of_le (by omega)
    rw [hnil] at hg
    simp only [hexSpec, List.append_nil] at hg
    have hre : st.r = bin.length := by omega
    refine ⟨_, rfl, hlen, ?_, ?_⟩
    · simp only []; rw [hexSpec_length, hre]; omega
    · simp only []; rw [hg]; congr 1; omega

/-- `MHD_bin_to_hex` with an output buffer of the documented size writes exactly the
    lower-case hexadecimal form -/
theorem binToHex_spec (bin out : Bytes) (hsz : 2 * bin.length ≤ out.length) :
    Wrote (binToHex bin out) out (some (hexSpec bin)) := by
  obtain ⟨⟨n, o⟩, hr, hl, hn, ht⟩ := iter_spec (binToHexStep bin) (B2HInv bin out) (fun st => bin.length - st.r) _
    (binToHex_step bin out hsz) (bin.length + 1) ⟨0, 0, out⟩ ⟨by simp, rfl, by simp⟩ (by simp)
  exact ⟨n, o, hr, hl, hn, ht⟩

/-! ### MHD_hex_to_bin -/

def H2BInv (hex out : Bytes) (target : Option Bytes) (st : RW) : Prop :=
  st.r ≤ hex.length ∧ (hex.length - st.r) % 2 = 0 ∧ st.out.length = out.length ∧ st.w * 2 ≤ st.r + 1 ∧
  target = (hexPairs (hex.drop st.r)).map (st.out.take st.w ++ ·)

def H2BPost (out : Bytes) (target : Option Bytes) (r : Nat × Bytes) : Prop :=
  r.2.length = out.length ∧
    match target with
    | some d => r.1 = d.length ∧ r.2.take r.1 = d
    | none => r.1 = 0

theorem hexToBin_step (hex out : Bytes) (target : Option Bytes) (hsz : (hex.length + 1) / 2 ≤ out.length)
    (st : RW) (hi : H2BInv hex out target st) :
    (∃ s', hexToBinStep hex st = .ok (.inl s') ∧ H2BInv hex out target s' ∧ hex.length - s'.r < hex.length - st.r) ∨
    (∃ r, hexToBinStep hex st = .ok (.inr r) ∧ H2BPost out target r) := by
  obtain ⟨hr, hev, hlen, hwr, hg⟩ := hi
  unfold hexToBinStep
  by_cases hlt : st.r < hex.length
  · have h1 : st.r + 1 < hex.length := by omega
    have hdrop : hex.drop st.r = hex[st.r] :: hex[st.r + 1] :: hex.drop (st.r + 2) := by
      rw [List.drop_eq_getElem_cons hlt, List.drop_eq_getElem_cons h1]
    have hw : st.w < st.out.length := by omega
    simp only [hlt, if_true, rd_lt hlt, rd_lt h1, bind_ok']
    have hps : hexPairs (hex.drop st.r) =
        match xval hex[st.r], xval hex[st.r + 1] with
        | some h, some l => (hexPairs (hex.drop (st.r + 2))).map (UInt8.ofNat (h * 16 + l) :: ·)
        | _, _ => none := by
      rw [hdrop, hexPairs]
    rcases toxdigit_cases hex[st.r] with ⟨vh, hxh, hvh, hth⟩ | ⟨hxh, hth⟩
    · rcases toxdigit_cases hex[st.r + 1] with ⟨vl, hxl, hvl, htl⟩ | ⟨hxl, htl⟩
      · left
        have hneg : ¬ ((vh : Int) < 0 ∨ (vl : Int) < 0) := by omega
        simp only [hth, htl, hneg, if_false, wr_ok _ hw, bind_ok', pure_eq_ok, hexByte_eq vh vl hvh hvl]
        refine ⟨_, rfl, ⟨by simp; omega, by simp; omega, by simp [hlen], by simp; omega, ?_⟩, by simp; omega⟩
        simp only [take_set_succ _ _ _ hw]
        rw [hg, hps, hxh, hxl]
        simp [Option.map_map, Function.comp_def]
      · right
        have hneg : ((vh : Int) < 0 ∨ (-1 : Int) < 0) := by omega
        simp only [hth, htl, hneg, if_true, pure_eq_ok]
        refine ⟨(0, st.out), rfl, hlen, ?_⟩
        rw [hg, hps, hxh, hxl]; simp
    · right
      have hneg : ∀ y : Int, ((-1 : Int) < 0 ∨ y < 0) := by intro y; omega
      simp only [hth, hneg, if_true, pure_eq_ok]
      refine ⟨(0, st.out), rfl, hlen, ?_⟩
      rw [hg, hps, hxh]; simp
  · right
    simp only [hlt, if_false, pure_eq_ok]
    refine ⟨_, rfl, hlen, ?_⟩
    have hnil : hex.drop st.r = [] := List.drop_eq_nil_of_le (by omega)
    have hl : (st.out.take st.w).length = st.w := take_len _ _ (by omega)
    rw [hg, hnil, hexPairs]
    simp [hl]

/-- `MHD_hex_to_bin` with an output buffer of the documented size = the reference
    decoder; 0 exactly for an empty input or a non-hexadecimal character. -/
theorem hexToBin_spec (hex out : Bytes) (hsz : (hex.length + 1) / 2 ≤ out.length) :
    Wrote (hexToBin hex out) out (hexToBinSpec hex) := by
  unfold hexToBin
  by_cases h0 : hex.length = 0
  · have : hex = [] := List.eq_nil_of_length_eq_zero h0
    subst this
    exact ⟨0, out, by simp, rfl, by simp [hexToBinSpec, hexPairs]⟩
  · simp only [h0, if_false, bind_ok', pure_eq_ok]
    by_cases hodd : hex.length % 2 ≠ 0
    · simp only [hodd, if_true, ne_eq, not_false_eq_true]
      cases hex with
      | nil => simp at h0
      | cons a rest =>
        have hspec : hexToBinSpec (a :: rest) =
            match xval a with
            | some l => (hexPairs rest).map (UInt8.ofNat l :: ·)
            | none => none := by
          unfold hexToBinSpec; simp only [hodd, if_false]
        have ha : rd (a :: rest) 0 = .ok a := by simp [rd]
        simp only [ha, bind_ok']
        rcases toxdigit_cases a with ⟨vl, hxl, hvl, htl⟩ | ⟨hxl, htl⟩
        · have hneg : ¬ ((vl : Int) < 0) := by omega
          have hw : 0 < out.length := by simp at hsz; omega
          simp only [htl, hneg, if_false, wr_ok _ hw, bind_ok', Int.toNat_natCast]
          obtain ⟨⟨n, o⟩, hr, hl, hp⟩ := iter_spec (hexToBinStep (a :: rest)) (H2BInv (a :: rest) out (hexToBinSpec (a :: rest)))
            (fun st => (a :: rest).length - st.r) (H2BPost out (hexToBinSpec (a :: rest)))
            (hexToBin_step (a :: rest) out _ hsz) ((a :: rest).length + 1) ⟨1, 1, out.set 0 (UInt8.ofNat vl)⟩
            ⟨by simp, by simp at hodd ⊢; omega, by simp, by simp, by
              simp only [hspec, hxl, List.drop_one, List.tail_cons]
              have : (out.set 0 (UInt8.ofNat vl)).take 1 = [UInt8.ofNat vl] := by
                rw [take_set_succ _ 0 _ hw]; simp
              rw [this]; simp⟩ (by simp; omega)
          exact ⟨n, o, hr, by simpa using hl, hp⟩
        · have hneg : ((-1 : Int) < 0) := by omega
          simp only [htl, hneg, if_true]
          exact ⟨0, out, rfl, rfl, by rw [hspec, hxl]⟩
    · simp only [hodd, if_false]
      have hev : hex.length % 2 = 0 := by omega
      have hspec : hexToBinSpec hex = hexPairs hex := by unfold hexToBinSpec; simp [hev]
      obtain ⟨⟨n, o⟩, hr, hl, hp⟩ := iter_spec (hexToBinStep hex) (H2BInv hex out (hexToBinSpec hex))
        (fun st => hex.length - st.r) (H2BPost out (hexToBinSpec hex))
        (hexToBin_step hex out _ hsz) (hex.length + 1) ⟨0, 0, out⟩
        ⟨by simp, by simpa using hev, rfl, by simp, by simp [hspec]⟩ (by simp)
      exact ⟨n, o, hr, hl, hp⟩

end Mhd.Str
