import Mhd.Proofs.ReplyHead
import Mhd.Proofs.ReplyBridge
import Mhd.Proofs.ReplyNum
set_option linter.unusedSimpArgs false
set_option linter.unusedVariables false
namespace Mhd.Reply
open Mhd.ReplyStr Mhd.Resp
open Mhd.Http (FieldOK NameOK NoCRLF normField clsOf tesOf connsOf ciEq lower)

/-! ### every field of the header block is a well-formed field line -/

theorem nameOK_of_clean (n : Bytes) (h : NameClean n) : NameOK n := h

theorem nameOK_const (n : Bytes) (h : (n ≠ [] ∧ ∀ b ∈ n, (b != 58 && b != 32 && b != 9 && b != 13 && b != 10) = true)) : NameOK n := by
  refine ⟨h.1, ?_⟩
  intro b hb
  have := h.2 b hb
  simp at this
  exact ⟨this.1.1.1.1, this.1.1.1.2, this.1.1.2, this.1.2, this.2⟩

theorem nameOK_sDate : NameOK sDate := nameOK_const _ (by decide)
theorem nameOK_sConnection : NameOK sConnection := nameOK_const _ (by decide)
theorem nameOK_sTE : NameOK sTransferEncoding := nameOK_const _ (by decide)
theorem nameOK_sCL : NameOK sContentLength := nameOK_const _ (by decide)

theorem noCRLF_const (v : Bytes) (h : ∀ b ∈ v, (b != 13 && b != 10) = true) : NoCRLF v := by
  intro b hb; have := h b hb; simp at this; exact this

theorem noCRLF_append (a b : Bytes) (ha : NoCRLF a) (hb : NoCRLF b) : NoCRLF (a ++ b) := by
  intro x hx; rcases List.mem_append.1 hx with h | h
  · exact ha x h
  · exact hb x h

theorem noCRLF_digits (ds : Bytes) (h : ds.all Mhd.Http.isDigit = true) : NoCRLF ds := by
  intro b hb
  rw [List.all_eq_true] at h
  exact Mhd.Http.isDigit_noCRLF b (h b hb)

theorem sizeDigits_ok (n : Nat) (h : n < 2 ^ 64) :
    sizeDigits n ≠ [] ∧ (sizeDigits n).all Mhd.Http.isDigit = true ∧ Mhd.Http.decValue (sizeDigits n) = n := by
  obtain ⟨ds, h1, h2, h3, h4⟩ := Mhd.ReplyNum.sizeDigits_spec n h
  unfold sizeDigits; rw [h1]; exact ⟨h2, h3, h4⟩

theorem userLoop_fieldOK : ∀ (hs : List Hdr) (st : UH), (∀ h ∈ hs, NameClean h.name ∧ ValClean h.value) →
    ∀ f ∈ userFieldsLoop false hs st, FieldOK (toHttp f)
  | [], st, _, f, hf => by simp [userFieldsLoop] at hf
  | h :: rest, st, hc, f, hf => by
    have hrest : ∀ x ∈ rest, NameClean x.name ∧ ValClean x.value := fun x hx => hc x (by simp [hx])
    simp only [userFieldsLoop] at hf
    split at hf
    · exact userLoop_fieldOK rest _ hrest f hf
    · split at hf
      · exact userLoop_fieldOK rest _ hrest f hf
      · split at hf
        · exact userLoop_fieldOK rest _ hrest f hf
        · rcases List.mem_cons.1 hf with rfl | hf'
          · have hh := hc h (by simp)
            refine ⟨hh.1, ?_⟩
            simp only [toHttp]
            apply noCRLF_append
            · split
              · exact noCRLF_const _ (by decide)
              · split
                · exact noCRLF_const _ (by decide)
                · intro b hb; cases hb
            · exact hh.2.2
          · exact userLoop_fieldOK rest _ hrest f hf'

theorem allFields_fieldOK (c : Conn) (r : Resp) (date : Option Bytes) (ka : KA) (props : Props) (hinv : Inv r)
    (hdate : ∀ d, date = some d → NoCRLF d) (hsz : r.totalSize < 2 ^ 64) :
    ∀ f ∈ (allFields c r date ka props).map toHttp, FieldOK f := by
  intro f hf
  rw [List.mem_map] at hf
  obtain ⟨g, hg, rfl⟩ := hf
  unfold allFields at hg
  simp only [List.mem_append] at hg
  rcases hg with ((hg | hg) | hg) | hg
  · unfold dateFields at hg
    split at hg
    · cases hd : date with
      | none => rw [hd] at hg; simp at hg
      | some d => rw [hd] at hg; simp at hg; subst hg; exact ⟨nameOK_sDate, hdate d hd⟩
    · simp at hg
  · unfold connFields at hg
    split at hg
    · split at hg
      · simp at hg; subst hg; exact ⟨nameOK_sConnection, noCRLF_const _ (by decide)⟩
      · split at hg
        · simp at hg; subst hg; exact ⟨nameOK_sConnection, noCRLF_const _ (by decide)⟩
        · simp at hg
    · simp at hg
  · unfold userFields at hg
    rw [hinv.noInsanity] at hg
    exact userLoop_fieldOK r.hdrs _ hinv.clean g hg
  · unfold bodyFields at hg
    split at hg
    · split at hg
      · split at hg
        · simp at hg; subst hg; exact ⟨nameOK_sTE, noCRLF_const _ (by decide)⟩
        · simp at hg
      · split at hg
        · split at hg
          · simp at hg; subst hg
            exact ⟨nameOK_sCL, noCRLF_digits _ (sizeDigits_ok _ hsz).2.1⟩
          · simp at hg
        · simp at hg
    · simp at hg

/-! ### what `setup_reply_properties` decides -/

theorem setup_props (c : Conn) (r : Resp) (code : Nat) :
    let p := (setupReplyProperties c r code).2
    p.useReplyBodyHeaders = (isReplyBodyNeeded c.mthd code != .none) ∧
    p.sendReplyBody = (isReplyBodyNeeded c.mthd code == .send) ∧
    (p.chunked = true → p.useReplyBodyHeaders = true ∧ ver11Compat c.ver = true ∧
       (r.totalSize = Mhd.Gen.Reply.sizeUnknown ∨ r.fa.transEnc = true)) ∧
    (p.chunked = false → p.useReplyBodyHeaders = true → r.totalSize = Mhd.Gen.Reply.sizeUnknown →
       (setupReplyProperties c r code).1 = .mustClose) := by
  unfold setupReplyProperties
  simp only
  by_cases hu : (isReplyBodyNeeded c.mthd code != BodyUse.none) = true
  · simp only [hu, if_true]
    refine ⟨by first | rfl | trivial, by first | rfl | trivial, ?_, ?_⟩
    · intro hc
      refine ⟨by first | rfl | trivial, ?_, ?_⟩
      · by_cases h1 : (r.totalSize == Mhd.Gen.Reply.sizeUnknown || r.fa.transEnc) = true
        · simp only [h1, if_true] at hc
          by_cases h2 : ver11Compat c.ver = true
          · exact h2
          · simp [h2] at hc
        · simp [h1] at hc
      · by_cases h1 : (r.totalSize == Mhd.Gen.Reply.sizeUnknown || r.fa.transEnc) = true
        · simp at h1; exact h1
        · simp [h1] at hc
    · intro hc _ hs
      simp only [hs, beq_self_eq_true, Bool.true_or, if_true] at hc ⊢
      simp only [hc]
      simp
  · have hu' : (isReplyBodyNeeded c.mthd code != BodyUse.none) = false := by simpa using hu
    simp only [hu', Bool.false_eq_true, if_false]
    refine ⟨by first | rfl | trivial, by first | rfl | trivial, ?_, ?_⟩
    · intro h; first | cases h | exact absurd h (by simp)
    · intro _ h; first | cases h | exact absurd h (by simp)

theorem bodyNeeded_cases (m : Mthd) (code : Nat) :
    (isReplyBodyNeeded m code = .none ↔ (code < 200 ∨ code = 204)) ∧
    (isReplyBodyNeeded m code = .send ↔ ¬ ((code < 200 ∨ code = 204) ∨ m = .head ∨ code = 304)) := by
  unfold isReplyBodyNeeded
  have e204 : ((code : Int) == Mhd.Gen.Reply.httpNoContent) = decide (code = 204) := by
    by_cases h : code = 204
    · subst h; decide
    · have : ¬ ((code : Int) = Mhd.Gen.Reply.httpNoContent) := by
        simp only [Mhd.Gen.Reply.httpNoContent]; omega
      simp [h, this]
  have e304 : ((code : Int) == Mhd.Gen.Reply.httpNotModified) = decide (code = 304) := by
    by_cases h : code = 304
    · subst h; decide
    · have : ¬ ((code : Int) = Mhd.Gen.Reply.httpNotModified) := by
        simp only [Mhd.Gen.Reply.httpNotModified]; omega
      simp [h, this]
  rw [e204, e304]
  by_cases h1 : 199 ≥ code
  · simp [h1]; omega
  · by_cases h2 : code = 204
    · simp [h1, h2]
    · by_cases h3 : m = .head
      · simp [h1, h2, h3]; omega
      · by_cases h4 : code = 304
        · simp [h1, h2, h3, h4]
        · simp [h1, h2, h3, h4]; omega

/-! ### how many framing fields the header block has -/

theorem nameIs_date_te : nameIs sDate sTransferEncoding = false := by decide
theorem nameIs_date_cl : nameIs sDate sContentLength = false := by decide
theorem nameIs_date_conn : nameIs sDate sConnection = false := by decide
theorem nameIs_te_te : nameIs sTransferEncoding sTransferEncoding = true := by decide
theorem nameIs_te_cl : nameIs sTransferEncoding sContentLength = false := by decide
theorem nameIs_te_conn : nameIs sTransferEncoding sConnection = false := by decide
theorem nameIs_cl_cl : nameIs sContentLength sContentLength = true := by decide
theorem nameIs_cl_te : nameIs sContentLength sTransferEncoding = false := by decide
theorem nameIs_cl_conn : nameIs sContentLength sConnection = false := by decide

theorem fcnt_nil (k : Bytes) : fcnt k [] = 0 := rfl
theorem fcnt_single (k : Bytes) (f : Field) : fcnt k [f] = b2n (nameIs f.name k) := by
  rw [fcnt_cons, fcnt_nil]; omega

theorem fcnt_date (c : Conn) (r : Resp) (date : Option Bytes) :
    fcnt sTransferEncoding (dateFields c r date) = 0 ∧ fcnt sContentLength (dateFields c r date) = 0 ∧
    fcnt sConnection (dateFields c r date) = 0 := by
  unfold dateFields
  split
  · cases date <;> simp [fcnt_nil, fcnt_single, nameIs_date_te, nameIs_date_cl, nameIs_date_conn, b2n]
  · simp [fcnt_nil]

theorem fcnt_conn (c : Conn) (r : Resp) (ka : KA) :
    fcnt sTransferEncoding (connFields c r ka) = 0 ∧ fcnt sContentLength (connFields c r ka) = 0 ∧
    fcnt sConnection (connFields c r ka) ≤ b2n (! r.fa.connHdr) := by
  unfold connFields
  split
  · rename_i h
    simp at h
    split
    · simp [fcnt_single, nameIs_conn_te, nameIs_conn_cl, nameIs_conn_conn, b2n, h]
    · split
      · simp [fcnt_single, nameIs_conn_te, nameIs_conn_cl, nameIs_conn_conn, b2n, h]
      · simp [fcnt_nil]
  · simp [fcnt_nil]

theorem fcnt_body (r : Resp) (props : Props) :
    fcnt sTransferEncoding (bodyFields r props) =
      b2n (props.useReplyBodyHeaders && ! r.flags.headOnly && props.chunked && ! r.fa.transEnc) ∧
    fcnt sContentLength (bodyFields r props) =
      b2n (props.useReplyBodyHeaders && ! r.flags.headOnly && ! props.chunked &&
           (r.totalSize != Mhd.Gen.Reply.sizeUnknown) && ! r.fa.contentLength) ∧
    fcnt sConnection (bodyFields r props) = 0 := by
  unfold bodyFields
  by_cases h1 : (props.useReplyBodyHeaders && ! r.flags.headOnly) = true
  · simp only [h1, if_true]
    by_cases h2 : props.chunked = true
    · by_cases h3 : r.fa.transEnc = true <;>
        simp [h2, h3, fcnt_nil, fcnt_single, nameIs_te_te, nameIs_te_cl, nameIs_te_conn, b2n]
    · by_cases h3 : (r.totalSize != Mhd.Gen.Reply.sizeUnknown) = true
      · by_cases h4 : r.fa.contentLength = true <;>
          simp [h2, h3, h4, fcnt_nil, fcnt_single, nameIs_cl_te, nameIs_cl_cl, nameIs_cl_conn, b2n]
      · simp [h2, h3, fcnt_nil, b2n]
  · have h1' : (props.useReplyBodyHeaders && ! r.flags.headOnly) = false := by simpa using h1
    simp [h1', fcnt_nil, b2n]

theorem field_counts (c : Conn) (r : Resp) (date : Option Bytes) (code : Nat) (hinv : Inv r) :
    let ka := (setupReplyProperties c r code).1
    let props := (setupReplyProperties c r code).2
    let F := allFields c r date ka props
    fcnt sTransferEncoding F = b2n props.chunked ∧
    fcnt sContentLength F = b2n (props.useReplyBodyHeaders && ! props.chunked &&
        (r.fa.contentLength || (! r.flags.headOnly && r.totalSize != Mhd.Gen.Reply.sizeUnknown))) ∧
    fcnt sConnection F ≤ 1 := by
  intro ka props F
  obtain ⟨s1, s2, s3, s4⟩ := setup_props c r code
  have hu : userFields c r ka props = userFieldsLoop false r.hdrs
      (userInit r (! props.chunked) (! props.useReplyBodyHeaders && ! false) (useConnClose ka) (useConnKAlive c r ka)) := by
    unfold userFields; rw [hinv.noInsanity]
  obtain ⟨u1, u2, u3⟩ := userLoop_counts r.hdrs
      (userInit r (! props.chunked) (! props.useReplyBodyHeaders && ! false) (useConnClose ka) (useConnKAlive c r ka))
  obtain ⟨d1, d2, d3⟩ := fcnt_date c r date
  obtain ⟨c1, c2, c3⟩ := fcnt_conn c r ka
  obtain ⟨b1, b2, b3⟩ := fcnt_body r props
  have hte := hinv.te
  have hcl := hinv.cl
  have hconn : cnt sConnection r.hdrs = b2n r.fa.connHdr := by
    have hcn := hinv.conn
    by_cases hf : r.fa.connHdr = true
    · simp only [hf, if_true] at hcn
      obtain ⟨v, rest, e1, e2, _⟩ := hcn
      rw [e1, cnt_cons, isHdr_conn_head, e2, hf]; simp [b2n]
    · simp only [hf] at hcn
      have : r.fa.connHdr = false := by simpa using hf
      rw [hcn.1, this]; simp [b2n]
  -- facts tying chunked to the flags
  have hchunk : props.chunked = true → r.fa.contentLength = false ∧ (r.flags.headOnly = true → r.fa.transEnc = true) := by
    intro hc
    obtain ⟨_, _, h3⟩ := s3 hc
    constructor
    · cases hx : r.fa.contentLength with
      | false => rfl
      | true =>
        exfalso
        have hho := hinv.clHead hx
        have hsz := hinv.headSize hho
        rcases h3 with h3 | h3
        · rw [hsz] at h3
          have : (0 : Nat) ≠ Mhd.Gen.Reply.sizeUnknown := by decide
          exact this h3
        · exact hinv.teCl ⟨h3, hx⟩
    · intro hho
      have hsz := hinv.headSize hho
      rcases h3 with h3 | h3
      · rw [hsz] at h3
        have : (0 : Nat) ≠ Mhd.Gen.Reply.sizeUnknown := by decide
        exact absurd h3 this
      · exact h3
  show fcnt sTransferEncoding (allFields c r date ka props) = _ ∧ fcnt sContentLength (allFields c r date ka props) = _ ∧
    fcnt sConnection (allFields c r date ka props) ≤ 1
  unfold allFields
  rw [hu]
  simp only [fcnt_append, u1, u2, u3, d1, d2, d3, c1, c2, b1, b2, b3, hte, hcl, hconn]
  simp only [userInit]
  refine ⟨?_, ?_, ?_⟩
  · -- Transfer-Encoding
    by_cases hc : props.chunked = true
    · obtain ⟨hc1, hc2⟩ := hchunk hc
      have hub := (s3 hc).1
      by_cases hte2 : r.fa.transEnc = true
      · simp [hc, hte2, b2n]
      · have hte2' : r.fa.transEnc = false := by simpa using hte2
        have hho : r.flags.headOnly = false := by
          by_cases hx : r.flags.headOnly = true
          · have := hc2 hx; rw [hte2'] at this; cases this
          · simpa using hx
        have hub' : props.useReplyBodyHeaders = true := hub
        simp [hc, hte2', b2n, hub', hho]
    · have hc' : props.chunked = false := by simpa using hc
      by_cases hte2 : r.fa.transEnc = true
      · simp [hc', hte2, b2n]
      · have hte2' : r.fa.transEnc = false := by simpa using hte2
        simp [hc', hte2', b2n]
  · -- Content-Length
    by_cases hc : props.chunked = true
    · obtain ⟨hc1, hc2⟩ := hchunk hc
      simp [hc, hc1, b2n]
    · have hc' : props.chunked = false := by simpa using hc
      by_cases hub : props.useReplyBodyHeaders = true
      · by_cases hcl2 : r.fa.contentLength = true
        · have hho := hinv.clHead hcl2
          simp [hc', hcl2, hho, hub, b2n]
        · have hcl2' : r.fa.contentLength = false := by simpa using hcl2
          by_cases hho : r.flags.headOnly = true
          · simp [hc', hcl2', hub, hho, b2n]
          · have hho' : r.flags.headOnly = false := by simpa using hho
            by_cases hsz : (r.totalSize != Mhd.Gen.Reply.sizeUnknown) = true
            · simp [hc', hcl2', hub, hho', hsz, b2n]
            · have hsz' : (r.totalSize != Mhd.Gen.Reply.sizeUnknown) = false := by simpa using hsz
              simp [hc', hcl2', hub, hho', hsz', b2n]
      · have hub' : props.useReplyBodyHeaders = false := by simpa using hub
        by_cases hcl2 : r.fa.contentLength = true
        · simp [hc', hcl2, hub', b2n]
        · have hcl2' : r.fa.contentLength = false := by simpa using hcl2
          simp [hc', hcl2', hub', b2n]
  · -- Connection
    by_cases hch : r.fa.connHdr = true
    · simp [hch, b2n] at c3 ⊢; omega
    · have hch' : r.fa.connHdr = false := by simpa using hch
      simp [hch', b2n] at c3 ⊢; omega
end Mhd.Reply
