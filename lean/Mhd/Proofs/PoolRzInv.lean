/-
  Invariant theorems for the red-zone-parameterised pool model (`Mhd.Model.PoolRz`, `Mhd.Model.PoolRzOps`),
  both build variants of memorypool.c at once (`v.rz = 0`: ordinary build, `v.rz = ALIGN_SIZE`:
  MHD_ASAN_POISON_ACTIVE).  Adaptation of `Mhd.Proofs.PoolInv`.

  The well-formedness that is inductive in the red-zone build is stronger than the one of the old model:
  every live block *plus its red zone* lies in its part of the arena (`Inside`, for zero-length blocks too
  when `rz ≠ 0`), and live blocks are pairwise separated by a red zone (`Sep`).  The build-independent
  reading (`InsideW`, `WFW`, `Mhd.Pool.Disjoint`) follows (`Inside.weak`, `WF.weak`, `Sep.disjoint`) but is
  not inductive by itself (`wfw_not_inductive`).
-/
import Mhd.Proofs.PoolRz

set_option linter.unusedSimpArgs false
set_option linter.unusedVariables false
namespace Mhd.PoolRz
open Mhd.Pool (W A roundUp zeroRange writeAt readAt Blk Op Disjoint W_eq pairwise_getElem? mem_of_getElem?
  mem_eraseIdx_getElem? pairwise_append_single readAt_zeroRange_disjoint readAt_writeAt_disjoint
  readAt_writeAt_same readAt_length)

/-! ### Specification-level predicates -/

/-- the two variants that exist: ordinary build (0) and MHD_ASAN_POISON_ACTIVE (red zone = ALIGN_SIZE) -/
def Var.Valid (v : Var) : Prop := v.rz = 0 ∨ v.rz = A

/-- the wrap test really excludes wrapped sizes: always in the ordinary build; in the red-zone
    build only with `asize < size` -/
def Var.Sound (v : Var) : Prop := v.chk = true ∨ v.rz = 0

/-- arena invariant -/
def Inv (p : Pool) : Prop :=
  p.pos ≤ p.end_ ∧ p.end_ ≤ p.size ∧ p.pos % A = 0 ∧ p.end_ % A = 0 ∧ p.size % A = 0 ∧
  p.size < 2 ^ 62 ∧ p.mem.length = p.size ∧ p.psn.length = p.size

/-- a live block lies in the part of the arena it was carved from — the build-independent reading
    (same shape as `Mhd.Pool.Blk.Inside`); consequence of `Inside` -/
def InsideW (p : Pool) (b : Blk) : Prop :=
  b.off % A = 0 ∧ b.off ≤ p.size ∧ b.len < W ∧
  (0 < b.len → (b.front = true → b.off + b.len ≤ p.pos) ∧
               (b.front = false → p.end_ ≤ b.off ∧ b.off + b.len ≤ p.size))

/-- a live block *together with its red zone* lies in the part of the arena it was carved from.
    In the red-zone build this also constrains zero-length blocks (they own a red zone and
    `MHD_pool_deallocate` has no early return for them). -/
def Inside (v : Var) (p : Pool) (b : Blk) : Prop :=
  b.off % A = 0 ∧ b.off ≤ p.size ∧ b.len < W ∧
  ((0 < b.len ∨ v.rz ≠ 0) → (b.front = true → b.off + b.len + v.rz ≤ p.pos) ∧
               (b.front = false → p.end_ ≤ b.off ∧ b.off + b.len + v.rz ≤ p.size))

/-- two blocks are separated by at least a red zone (ordinary build: share no byte) -/
def Sep (v : Var) (a b : Blk) : Prop :=
  (v.rz = 0 ∧ (a.len = 0 ∨ b.len = 0)) ∨ a.off + a.len + v.rz ≤ b.off ∨ b.off + b.len + v.rz ≤ a.off

/-- the build-independent well-formedness (the statement shape of `Mhd.Pool.WF`); consequence of `WF` -/
def WFW (s : St) : Prop :=
  Inv s.p ∧ (∀ b ∈ s.live, InsideW s.p b) ∧ s.live.Pairwise Disjoint

/-- well-formedness that is inductive in both builds -/
def WF (v : Var) (s : St) : Prop :=
  Inv s.p ∧ (∀ b ∈ s.live, Inside v s.p b) ∧ s.live.Pairwise (Sep v)

theorem Sep.symm {v : Var} {a b : Blk} (h : Sep v a b) : Sep v b a := by
  unfold Sep at *; omega

theorem Sep.disjoint {v : Var} {a b : Blk} (h : Sep v a b) : Disjoint a b := by
  unfold Sep at h; unfold Disjoint; omega

theorem Inside.weak {v : Var} {p : Pool} {b : Blk} (h : Inside v p b) : InsideW p b := by
  obtain ⟨a, b', c, d⟩ := h
  refine ⟨a, b', c, fun hl => ?_⟩
  have := d (Or.inl hl)
  exact ⟨fun hf => by have := this.1 hf; omega, fun hf => by have := this.2 hf; omega⟩

theorem WF.weak {v : Var} {s : St} (h : WF v s) : WFW s :=
  ⟨h.1, fun b hb => (h.2.1 b hb).weak, h.2.2.imp (fun h => h.disjoint)⟩

/-! ### arithmetic views -/

theorem inv_arith {p : Pool} (h : Inv p) : p.pos ≤ p.end_ ∧ p.end_ ≤ p.size ∧ p.pos % A = 0 ∧ p.end_ % A = 0 ∧
  p.size % A = 0 ∧ p.size < 2 ^ 62 ∧ p.mem.length = p.size ∧ p.psn.length = p.size := h

/-- what `Inside` gives about a block, as plain arithmetic -/
theorem inside_arith {v : Var} {p : Pool} {c : Blk} (h : Inside v p c) :
    c.off % A = 0 ∧ c.off ≤ p.size ∧ c.len < W ∧
    ((c.len = 0 ∧ v.rz = 0) ∨ (c.front = true ∧ c.off + c.len + v.rz ≤ p.pos) ∨
      (c.front = false ∧ p.end_ ≤ c.off ∧ c.off + c.len + v.rz ≤ p.size)) := by
  obtain ⟨a, b, c', d⟩ := h
  refine ⟨a, b, c', ?_⟩
  by_cases hl : c.len = 0 ∧ v.rz = 0
  · left; exact hl
  · right
    have := d (by omega)
    cases hf : c.front
    · right; exact ⟨rfl, this.2 hf⟩
    · left; exact ⟨rfl, this.1 hf⟩

theorem inside_mk {v : Var} {p : Pool} {c : Blk} (h : c.off % A = 0 ∧ c.off ≤ p.size ∧ c.len < W ∧
    ((c.len = 0 ∧ v.rz = 0) ∨ (c.front = true ∧ c.off + c.len + v.rz ≤ p.pos) ∨
      (c.front = false ∧ p.end_ ≤ c.off ∧ c.off + c.len + v.rz ≤ p.size))) :
    Inside v p c := by
  obtain ⟨a, b, c', d⟩ := h
  refine ⟨a, b, c', fun hl => ⟨fun hf => ?_, fun hf => ?_⟩⟩
  · rcases d with d | ⟨_, d⟩ | ⟨d, _⟩
    · omega
    · exact d
    · rw [hf] at d; simp at d
  · rcases d with d | ⟨d, _⟩ | ⟨_, d⟩
    · omega
    · rw [hf] at d; simp at d
    · exact d

theorem inside_front {v : Var} {p : Pool} {o l : Nat} (h : Inside v p ⟨o, l, true⟩) :
    o % A = 0 ∧ o ≤ p.size ∧ l < W ∧ ((l = 0 ∧ v.rz = 0) ∨ o + l + v.rz ≤ p.pos) := by
  have := inside_arith h
  simp only [Bool.true_eq_false, false_and, or_false, true_and] at this
  exact this

theorem inside_front_mk {v : Var} {p : Pool} {o l : Nat}
    (h : o % A = 0 ∧ o ≤ p.size ∧ l < W ∧ o + l + v.rz ≤ p.pos) : Inside v p ⟨o, l, true⟩ :=
  inside_mk ⟨h.1, h.2.1, h.2.2.1, Or.inr (Or.inl ⟨rfl, h.2.2.2⟩)⟩

theorem inside_back_mk {v : Var} {p : Pool} {o l : Nat}
    (h : o % A = 0 ∧ o ≤ p.size ∧ l < W ∧ p.end_ ≤ o ∧ o + l + v.rz ≤ p.size) : Inside v p ⟨o, l, false⟩ :=
  inside_mk ⟨h.1, h.2.1, h.2.2.1, Or.inr (Or.inr ⟨rfl, h.2.2.2⟩)⟩

/-- transport of `Inside` for an untouched block when the cursors move -/
theorem inside_transport {v : Var} {p p' : Pool} {c : Blk} (h : Inside v p c) (hs : p'.size = p.size)
    (hpos : (c.len ≠ 0 ∨ v.rz ≠ 0) → c.front = true → c.off + c.len + v.rz ≤ p.pos → c.off + c.len + v.rz ≤ p'.pos)
    (hend : (c.len ≠ 0 ∨ v.rz ≠ 0) → c.front = false → p.end_ ≤ c.off → p'.end_ ≤ c.off) : Inside v p' c := by
  have := inside_arith h
  apply inside_mk
  rw [hs]
  refine ⟨this.1, this.2.1, this.2.2.1, ?_⟩
  rcases this.2.2.2 with d | ⟨d1, d2⟩ | ⟨d1, d2, d3⟩
  · left; exact d
  · by_cases hl : c.len = 0 ∧ v.rz = 0
    · left; exact hl
    · right; left; exact ⟨d1, hpos (by omega) d1 d2⟩
  · by_cases hl : c.len = 0 ∧ v.rz = 0
    · left; exact hl
    · right; right; exact ⟨d1, hend (by omega) d1 d2, d3⟩

/-! ### per-operation facts at pool level -/

theorem allocate_spec (v : Var) (hv : v.Valid) (hs : v.Sound) (p : Pool) (n : Nat) (fe : Bool)
    (h : Inv p) (hn : n < W) :
    (∃ off p', allocate v p n fe = (p', some off) ∧ Inv p' ∧ p'.mem = p.mem ∧ p'.size = p.size ∧
        off % A = 0 ∧ n ≤ roundUp n ∧
        (fe = false → off = p.pos ∧ p'.pos = p.pos + roundUp n + v.rz ∧ p'.end_ = p.end_ ∧ p'.pos ≤ p.end_) ∧
        (fe = true → p'.pos = p.pos ∧ off = p'.end_ ∧ off + roundUp n + v.rz = p.end_ ∧ p.pos ≤ off)) ∨
    allocate v p n fe = (p, none) := by
  have hi := inv_arith h
  unfold allocate
  cases ht : tooBig v n (roundRz v n)
  · have hr := roundRz_facts v hv hs n hn ht
    simp only [ht, Bool.false_eq_true, if_false]
    rw [hr.2.2.1]
    have hv' : v.rz = 0 ∨ v.rz = 16 := hv
    by_cases h2 : roundUp n + v.rz > p.end_ - p.pos
    · right; simp [h2]
    · left
      simp only [h2, if_false]
      simp only [W_eq, A, Mhd.Gen.Pool.alignSize] at *
      cases fe
      · refine ⟨p.pos, { p with pos := p.pos + (roundUp n + v.rz), psn := setPsn p.psn p.pos n false }, rfl, ?_, rfl, rfl, hi.2.2.1, hr.1, ?_, ?_⟩
        · simp only [Inv, A, Mhd.Gen.Pool.alignSize, setPsn_length]; refine ⟨?_, ?_, ?_, ?_, ?_, ?_, ?_, ?_⟩ <;> omega
        · intro _; simp only [true_and]; omega
        · intro hh; cases hh
      · refine ⟨p.end_ - (roundUp n + v.rz), { p with end_ := p.end_ - (roundUp n + v.rz), psn := setPsn p.psn (p.end_ - (roundUp n + v.rz)) n false }, rfl, ?_, rfl, rfl, ?_, hr.1, ?_, ?_⟩
        · simp only [Inv, A, Mhd.Gen.Pool.alignSize, setPsn_length]; refine ⟨?_, ?_, ?_, ?_, ?_, ?_, ?_, ?_⟩ <;> omega
        · omega
        · intro hh; cases hh
        · intro _; simp only [true_and]; omega
  · right; simp [ht]

theorem tryAlloc_spec (v : Var) (hv : v.Valid) (hs : v.Sound) (p : Pool) (n : Nat)
    (h : Inv p) (hn : n < W) :
    (∃ off p', tryAlloc v p n = (p', some off, none) ∧ Inv p' ∧ p'.mem = p.mem ∧ p'.size = p.size ∧
        off % A = 0 ∧ n ≤ roundUp n ∧
        p'.pos = p.pos ∧ off = p'.end_ ∧ off + roundUp n + v.rz = p.end_ ∧ p.pos ≤ off) ∨
    (∃ need, tryAlloc v p n = (p, none, some need)) := by
  have hi := inv_arith h
  unfold tryAlloc
  cases ht : tooBig v n (roundRz v n)
  · have hr := roundRz_facts v hv hs n hn ht
    simp only [ht, Bool.false_eq_true, if_false]
    rw [hr.2.2.1]
    have hv' : v.rz = 0 ∨ v.rz = 16 := hv
    by_cases h2 : roundUp n + v.rz > p.end_ - p.pos
    · right
      by_cases h3 : roundUp n + v.rz ≤ p.end_ <;> simp [h2, h3]
    · left
      simp only [h2, if_false]
      simp only [W_eq, A, Mhd.Gen.Pool.alignSize] at *
      refine ⟨p.end_ - (roundUp n + v.rz), { p with end_ := p.end_ - (roundUp n + v.rz), psn := setPsn p.psn (p.end_ - (roundUp n + v.rz)) n false }, rfl, ?_, rfl, rfl, ?_, hr.1, ?_⟩
      · simp only [Inv, A, Mhd.Gen.Pool.alignSize, setPsn_length]; refine ⟨?_, ?_, ?_, ?_, ?_, ?_, ?_, ?_⟩ <;> omega
      · omega
      · simp only [true_and]; omega
  · right; simp [ht]

/-- contents after the shrinking memset of `reallocate` -/
def shrinkMem (m : List UInt8) (o os n : Nat) : List UInt8 :=
  if os > n then zeroRange m (o + n) (os - n) else m

/-- contents after relocating a block to `pos` -/
def moveMem (m : List UInt8) (pos o os : Nat) : List UInt8 :=
  if os ≠ 0 then zeroRange (writeAt m pos (readAt m o os)) o os else m

/-- purely syntactic case analysis of `reallocate` on a non-NULL block -/
theorem reallocate_cases (v : Var) (p : Pool) (o os n : Nat) :
    (reallocate v p (some o) os n = (p, none) ∧ os ≤ n) ∨
    ((reallocate v p (some o) os n).2 = some o ∧ (reallocate v p (some o) os n).1.size = p.size ∧
       (reallocate v p (some o) os n).1.end_ = p.end_ ∧
       (reallocate v p (some o) os n).1.pos = roundRz v ((o + n) % W) ∧
       (reallocate v p (some o) os n).1.mem = shrinkMem p.mem o os n ∧
       (reallocate v p (some o) os n).1.psn.length = p.psn.length ∧
       p.pos = roundRz v ((o + os) % W) ∧
       (os ≤ n → roundRz v ((o + n) % W) ≤ p.end_ ∧ p.pos ≤ roundRz v ((o + n) % W) ∧ n ≤ (p.end_ + W - o) % W)) ∨
    ((reallocate v p (some o) os n).2 = some o ∧ (reallocate v p (some o) os n).1.size = p.size ∧
       (reallocate v p (some o) os n).1.end_ = p.end_ ∧ (reallocate v p (some o) os n).1.pos = p.pos ∧
       (reallocate v p (some o) os n).1.mem = shrinkMem p.mem o os n ∧
       (reallocate v p (some o) os n).1.psn.length = p.psn.length ∧ n < os ∧
       p.pos ≠ roundRz v ((o + os) % W)) ∨
    ((reallocate v p (some o) os n).2 = some p.pos ∧ (reallocate v p (some o) os n).1.size = p.size ∧
       (reallocate v p (some o) os n).1.end_ = p.end_ ∧
       (reallocate v p (some o) os n).1.pos = p.pos + roundRz v n ∧
       (reallocate v p (some o) os n).1.mem = moveMem p.mem p.pos o os ∧
       (reallocate v p (some o) os n).1.psn.length = p.psn.length ∧
       os ≤ n ∧ roundRz v n ≤ p.end_ - p.pos ∧ tooBig v n (roundRz v n) = false ∧
       p.pos ≠ roundRz v ((o + os) % W)) := by
  unfold reallocate reallocFresh shrinkHead shrinkMem moveMem
  by_cases hs : os > n
  · by_cases hl : p.pos = roundRz v ((o + os) % W)
    · right; left
      simp [hs, hl]
      omega
    · right; right; left
      simp [hs, hl]
  · have hs' : os ≤ n := by omega
    by_cases hl : p.pos = roundRz v ((o + os) % W)
    · by_cases hg : (roundRz v ((o + n) % W) > p.end_ ∨ roundRz v ((o + n) % W) < p.pos ∨ n > (p.end_ + W - o) % W)
      · left
        have hg' := hg; rw [hl] at hg'
        simp [hs, hl, hs', hg']
      · right; left
        have hg' := hg; rw [hl] at hg'
        simp [hs, hl, hg', hs']
        rw [hl] at hg; omega
    · cases ht : tooBig v n (roundRz v n)
      · by_cases hf : roundRz v n > p.end_ - p.pos
        · left
          simp [hs, hl, hf, hs', ht]
        · right; right; right
          by_cases ho : os = 0
          · subst ho; simp only [Nat.add_zero] at hl; simp [hl, hf, ht]; omega
          · simp [hs, hl, hf, ho, hs', ht]; omega
      · left
        simp [hs, hl, hs', ht]

theorem shrinkMem_length (m : List UInt8) (o os n : Nat) : (shrinkMem m o os n).length = m.length := by
  unfold shrinkMem; split
  · exact zeroRange_length' _ _ _
  · rfl

theorem moveMem_length (m : List UInt8) (pos o os : Nat) : (moveMem m pos o os).length = m.length := by
  unfold moveMem; split
  · rw [zeroRange_length', writeAt_length']
  · rfl

theorem realloc_inplace (v : Var) (hv : v.Valid) (p : Pool) (bo bl n : Nat) (h : Inv p)
    (hb : Inside v p ⟨bo, bl, true⟩) (hn : n < W)
    (h1 : p.pos = roundRz v ((bo + bl) % W))
    (h2 : bl ≤ n → roundRz v ((bo + n) % W) ≤ p.end_ ∧ p.pos ≤ roundRz v ((bo + n) % W) ∧ n ≤ (p.end_ + W - bo) % W)
    (p' : Pool) (hsz : p'.size = p.size) (hend : p'.end_ = p.end_) (hpos : p'.pos = roundRz v ((bo + n) % W))
    (hmem : p'.mem = shrinkMem p.mem bo bl n) (hpsn : p'.psn.length = p.psn.length) :
    Inv p' ∧ Inside v p' ⟨bo, n, true⟩ ∧ bo + n ≤ p.size ∧
    (∀ c : Blk, Inside v p c → Sep v ⟨bo, bl, true⟩ c →
        Inside v p' c ∧ Sep v c ⟨bo, n, true⟩ ∧ readAt p'.mem c.off c.len = readAt p.mem c.off c.len) ∧
    readAt p'.mem bo (min bl n) = readAt p.mem bo (min bl n) := by
  have hi := inv_arith h
  have hbf := inside_front hb
  have hv' : v.rz = 0 ∨ v.rz = 16 := hv
  simp only [W_eq, A, Mhd.Gen.Pool.alignSize] at hi hbf hn
  have hbl : bo + bl < 2 ^ 63 := by omega
  have r1 := roundRz_small v hv (bo + bl) hbl
  rw [r1.1] at h1
  have hbn : bo + n < 2 ^ 63 := by
    by_cases hsn : bl ≤ n
    · have := (h2 hsn).2.2; simp only [W_eq] at this; omega
    · omega
  have r2 := roundRz_small v hv (bo + n) hbn
  rw [r2.1] at h2 hpos
  simp only [W_eq] at h2
  simp only [A, Mhd.Gen.Pool.alignSize] at r1 r2
  have key : bo + n + v.rz ≤ p'.pos ∧ p'.pos ≤ p.end_ ∧ p'.pos % 16 = 0 ∧ (0 < bl → bo + bl ≤ p.size) ∧
      (bl ≤ n → p.pos ≤ p'.pos) := by
    rw [hpos]
    by_cases hsn : bl ≤ n
    · have := h2 hsn; omega
    · omega
  obtain ⟨k1, k2, k3, k4, k6⟩ := key
  have hml : p'.mem.length = p.mem.length := by rw [hmem]; exact shrinkMem_length _ _ _ _
  refine ⟨?_, ?_, by omega, ?_, ?_⟩
  · simp only [Inv, A, Mhd.Gen.Pool.alignSize]
    refine ⟨?_, ?_, ?_, ?_, ?_, ?_, ?_, ?_⟩ <;> omega
  · apply inside_front_mk; simp only [A, Mhd.Gen.Pool.alignSize, W_eq]; omega
  · intro c hci hd
    have hca := inside_arith hci
    simp only [W_eq, A, Mhd.Gen.Pool.alignSize] at hca
    unfold Sep at hd; simp only at hd
    refine ⟨?_, ?_, ?_⟩
    · apply inside_transport hci hsz
      · intro hl _ hle
        omega
      · intro _ _ hle; rw [hend]; exact hle
    · unfold Sep; simp only
      omega
    · rw [hmem]
      unfold shrinkMem
      split
      · by_cases hcl : c.len = 0
        · simp [readAt, hcl]
        · apply readAt_zeroRange_disjoint
          · have := k4 (by omega); omega
          · omega
      · rfl
  · rw [hmem]
    unfold shrinkMem
    split
    · apply readAt_zeroRange_disjoint
      · have := k4 (by omega); omega
      · omega
    · rfl

theorem realloc_shrink (v : Var) (hv : v.Valid) (p : Pool) (bo bl n : Nat) (h : Inv p)
    (hb : Inside v p ⟨bo, bl, true⟩) (hn : n < bl)
    (p' : Pool) (hsz : p'.size = p.size) (hend : p'.end_ = p.end_) (hpos : p'.pos = p.pos)
    (hmem : p'.mem = shrinkMem p.mem bo bl n) (hpsn : p'.psn.length = p.psn.length) :
    Inv p' ∧ Inside v p' ⟨bo, n, true⟩ ∧ bo + n ≤ p.size ∧
    (∀ c : Blk, Inside v p c → Sep v ⟨bo, bl, true⟩ c →
        Inside v p' c ∧ Sep v c ⟨bo, n, true⟩ ∧ readAt p'.mem c.off c.len = readAt p.mem c.off c.len) ∧
    readAt p'.mem bo (min bl n) = readAt p.mem bo (min bl n) := by
  have hi := inv_arith h
  have hbf := inside_front hb
  have hv' : v.rz = 0 ∨ v.rz = 16 := hv
  simp only [W_eq, A, Mhd.Gen.Pool.alignSize] at hi hbf
  have hsm : shrinkMem p.mem bo bl n = zeroRange p.mem (bo + n) (bl - n) := by
    unfold shrinkMem; exact if_pos hn
  have hml : p'.mem.length = p.mem.length := by rw [hmem]; exact shrinkMem_length _ _ _ _
  refine ⟨?_, ?_, by omega, ?_, ?_⟩
  · simp only [Inv, A, Mhd.Gen.Pool.alignSize]
    refine ⟨?_, ?_, ?_, ?_, ?_, ?_, ?_, ?_⟩ <;> omega
  · apply inside_front_mk; simp only [A, Mhd.Gen.Pool.alignSize, W_eq]; omega
  · intro c hci hd
    have hca := inside_arith hci
    simp only [W_eq, A, Mhd.Gen.Pool.alignSize] at hca
    unfold Sep at hd; simp only at hd
    refine ⟨?_, ?_, ?_⟩
    · apply inside_transport hci hsz
      · intro _ _ hle; rw [hpos]; exact hle
      · intro _ _ hle; rw [hend]; exact hle
    · unfold Sep; simp only; omega
    · rw [hmem, hsm]
      by_cases hcl : c.len = 0
      · simp [readAt, hcl]
      · apply readAt_zeroRange_disjoint <;> omega
  · rw [hmem, hsm]
    apply readAt_zeroRange_disjoint <;> omega

theorem realloc_fresh (v : Var) (hv : v.Valid) (hs : v.Sound) (p : Pool) (bo bl n : Nat) (h : Inv p)
    (hb : Inside v p ⟨bo, bl, true⟩) (hn : n < W)
    (h1 : bl ≤ n) (h2 : roundRz v n ≤ p.end_ - p.pos) (h3 : tooBig v n (roundRz v n) = false)
    (p' : Pool) (hsz : p'.size = p.size) (hend : p'.end_ = p.end_) (hpos : p'.pos = p.pos + roundRz v n)
    (hmem : p'.mem = moveMem p.mem p.pos bo bl) (hpsn : p'.psn.length = p.psn.length) :
    Inv p' ∧ Inside v p' ⟨p.pos, n, true⟩ ∧ p.pos + n ≤ p.size ∧
    (∀ c : Blk, Inside v p c → Sep v ⟨bo, bl, true⟩ c →
        Inside v p' c ∧ Sep v c ⟨p.pos, n, true⟩ ∧ readAt p'.mem c.off c.len = readAt p.mem c.off c.len) ∧
    readAt p'.mem p.pos (min bl n) = readAt p.mem bo (min bl n) := by
  have hi := inv_arith h
  have hbf := inside_front hb
  have hv' : v.rz = 0 ∨ v.rz = 16 := hv
  have hr := roundRz_facts v hv hs n hn h3
  rw [hr.2.2.1] at h2 hpos
  simp only [W_eq, A, Mhd.Gen.Pool.alignSize] at hi hbf hr hn
  have k4 : bo + bl ≤ p.mem.length ∧ p.pos + bl ≤ p.mem.length ∧ (0 < bl → bo + bl ≤ p.pos) := by
    refine ⟨?_, ?_, ?_⟩ <;> omega
  have hml : p'.mem.length = p.mem.length := by rw [hmem]; exact moveMem_length _ _ _ _
  refine ⟨?_, ?_, by omega, ?_, ?_⟩
  · simp only [Inv, A, Mhd.Gen.Pool.alignSize]
    refine ⟨?_, ?_, ?_, ?_, ?_, ?_, ?_, ?_⟩ <;> omega
  · apply inside_front_mk; simp only [A, Mhd.Gen.Pool.alignSize, W_eq]; omega
  · intro c hci hd
    have hca := inside_arith hci
    simp only [W_eq, A, Mhd.Gen.Pool.alignSize] at hca
    unfold Sep at hd; simp only at hd
    refine ⟨?_, ?_, ?_⟩
    · apply inside_transport hci hsz
      · intro _ _ hle; rw [hpos]; omega
      · intro _ _ hle; rw [hend]; exact hle
    · unfold Sep; simp only; omega
    · rw [hmem]
      unfold moveMem
      split
      · by_cases hcl : c.len = 0
        · simp [readAt, hcl]
        · have hl : (readAt p.mem bo bl).length = bl := readAt_length _ _ _ k4.1
          rw [readAt_zeroRange_disjoint, readAt_writeAt_disjoint]
          · rw [hl]; exact k4.2.1
          · rw [hl]; omega
          · rw [writeAt_length']; omega
          · omega
      · rfl
  · rw [hmem]
    unfold moveMem
    have hmin : min bl n = bl := by omega
    rw [hmin]
    split
    · have hl : (readAt p.mem bo bl).length = bl := readAt_length _ _ _ k4.1
      rw [readAt_zeroRange_disjoint, readAt_writeAt_same]
      · rw [List.take_of_length_le (by omega)]
      · rw [hl]; exact k4.2.1
      · omega
      · rw [writeAt_length']; omega
      · have := k4.2.2; omega
    · have : bl = 0 := by omega
      simp [this, readAt]

/-- Geometry and contents of a successful or refused `reallocate` of a live front block. -/
theorem realloc_full (v : Var) (hv : v.Valid) (hs : v.Sound) (p : Pool) (bo bl n : Nat) (h : Inv p)
    (hb : Inside v p ⟨bo, bl, true⟩) (hn : n < W) :
    reallocate v p (some bo) bl n = (p, none) ∨
    ∃ p' off, reallocate v p (some bo) bl n = (p', some off) ∧ Inv p' ∧ p'.size = p.size ∧
      Inside v p' ⟨off, n, true⟩ ∧ off + n ≤ p.size ∧
      (∀ c : Blk, Inside v p c → Sep v ⟨bo, bl, true⟩ c →
          Inside v p' c ∧ Sep v c ⟨off, n, true⟩ ∧
          readAt p'.mem c.off c.len = readAt p.mem c.off c.len) ∧
      readAt p'.mem off (min bl n) = readAt p.mem bo (min bl n) := by
  rcases reallocate_cases v p bo bl n with ⟨hc, _⟩ | ⟨hc, e1, e2, e3, e4, e5, h1, h2⟩ |
      ⟨hc, e1, e2, e3, e4, e5, h1, h2⟩ | ⟨hc, e1, e2, e3, e4, e5, h1, h2, h3, h4⟩
  · left; exact hc
  · right
    have := realloc_inplace v hv p bo bl n h hb hn h1 h2 _ e1 e2 e3 e4 e5
    exact ⟨_, _, Prod.ext rfl hc, this.1, e1, this.2.1, this.2.2.1, this.2.2.2.1, this.2.2.2.2⟩
  · right
    have := realloc_shrink v hv p bo bl n h hb h1 _ e1 e2 e3 e4 e5
    exact ⟨_, _, Prod.ext rfl hc, this.1, e1, this.2.1, this.2.2.1, this.2.2.2.1, this.2.2.2.2⟩
  · right
    have := realloc_fresh v hv hs p bo bl n h hb hn h1 h2 h3 _ e1 e2 e3 e4 e5
    exact ⟨_, _, Prod.ext rfl hc, this.1, e1, this.2.1, this.2.2.1, this.2.2.2.1, this.2.2.2.2⟩

/-- `reallocate` of NULL is a plain front allocation -/
theorem realloc_null (v : Var) (hv : v.Valid) (hs : v.Sound) (p : Pool) (n : Nat) (h : Inv p) (hn : n < W) :
    reallocate v p none 0 n = (p, none) ∨
    ∃ p', reallocate v p none 0 n = (p', some p.pos) ∧ Inv p' ∧ p'.size = p.size ∧ p'.mem = p.mem ∧
      Inside v p' ⟨p.pos, n, true⟩ ∧ p.pos + n ≤ p.size ∧ p'.pos = p.pos + roundUp n + v.rz ∧
      (∀ c : Blk, Inside v p c → Inside v p' c ∧ Sep v c ⟨p.pos, n, true⟩) := by
  have hi := inv_arith h
  have hv' : v.rz = 0 ∨ v.rz = 16 := hv
  unfold reallocate reallocFresh
  simp only
  cases ht : tooBig v n (roundRz v n)
  · have hr := roundRz_facts v hv hs n hn ht
    rw [hr.2.2.1]
    simp only [W_eq, A, Mhd.Gen.Pool.alignSize] at hi hr hn
    by_cases hf : roundUp n + v.rz > p.end_ - p.pos
    · left; simp [hf]
    · right
      refine ⟨{ p with pos := p.pos + (roundUp n + v.rz), psn := setPsn p.psn p.pos n false }, by simp [hf], ?_, rfl, rfl, ?_, ?_, ?_, ?_⟩
      · simp only [Inv, A, Mhd.Gen.Pool.alignSize, setPsn_length]
        refine ⟨?_, ?_, ?_, ?_, ?_, ?_, ?_, ?_⟩ <;> omega
      · apply inside_front_mk; simp only [A, Mhd.Gen.Pool.alignSize, W_eq]; omega
      · omega
      · simp only; omega
      · intro c hci
        have hca := inside_arith hci
        simp only [W_eq, A, Mhd.Gen.Pool.alignSize] at hca
        refine ⟨inside_transport hci rfl (fun _ _ hle => by show c.off + c.len + v.rz ≤ p.pos + (roundUp n + v.rz); omega) (fun _ _ hle => hle), ?_⟩
        unfold Sep; simp only; omega
  · left; simp

/-- `allocate`: every previously live block stays inside and is separated from the new one;
    the new block is followed by its red zone inside the part it was carved from -/
theorem allocate_others (v : Var) (hv : v.Valid) (hs : v.Sound) (p p' : Pool) (n off : Nat) (fe : Bool)
    (h : Inv p) (hn : n < W) (ha : allocate v p n fe = (p', some off)) :
    Inv p' ∧ p'.mem = p.mem ∧ p'.size = p.size ∧ Inside v p' ⟨off, n, !fe⟩ ∧ off + n ≤ p.size ∧
    (∀ c : Blk, Inside v p c → Inside v p' c ∧ Sep v c ⟨off, n, !fe⟩) ∧
    (fe = false → off + roundUp n + v.rz ≤ p'.pos) ∧ (fe = true → off + roundUp n + v.rz ≤ p.end_) := by
  have hi := inv_arith h
  have hv' : v.rz = 0 ∨ v.rz = 16 := hv
  rcases allocate_spec v hv hs p n fe h hn with ⟨off', p'', he, hinv, hm, hsz, hal, hle, h1, h2⟩ | he
  · rw [he] at ha
    have e1 : p'' = p' := (Prod.mk.inj ha).1
    have e2 : off' = off := Option.some.inj (Prod.mk.inj ha).2
    subst e1 e2
    have hi' := inv_arith hinv
    simp only [W_eq, A, Mhd.Gen.Pool.alignSize] at hi hi' hal hn
    cases fe
    · have f := h1 rfl
      refine ⟨hinv, hm, hsz, ?_, by omega, ?_, fun _ => by omega, fun hh => by cases hh⟩
      · apply inside_front_mk; simp only [A, Mhd.Gen.Pool.alignSize, W_eq]; omega
      · intro c hci
        have hca := inside_arith hci
        simp only [W_eq, A, Mhd.Gen.Pool.alignSize] at hca
        refine ⟨inside_transport hci hsz (fun _ _ hle => by omega) (fun _ _ hle => by omega), ?_⟩
        unfold Sep; simp only [Bool.not_false]; omega
    · have f := h2 rfl
      refine ⟨hinv, hm, hsz, ?_, by omega, ?_, fun hh => Bool.noConfusion hh, fun _ => by omega⟩
      · apply inside_back_mk; simp only [A, Mhd.Gen.Pool.alignSize, W_eq]; omega
      · intro c hci
        have hca := inside_arith hci
        simp only [W_eq, A, Mhd.Gen.Pool.alignSize] at hca
        refine ⟨inside_transport hci hsz (fun _ _ hle => by omega) (fun _ _ hle => by omega), ?_⟩
        unfold Sep; simp only [Bool.not_true]; omega
  · rw [he] at ha; simp at ha

theorem tryAlloc_others (v : Var) (hv : v.Valid) (hs : v.Sound) (p p' : Pool) (n off : Nat) (r : Option Nat)
    (h : Inv p) (hn : n < W) (ha : tryAlloc v p n = (p', some off, r)) :
    Inv p' ∧ p'.mem = p.mem ∧ p'.size = p.size ∧ Inside v p' ⟨off, n, false⟩ ∧ off + n ≤ p.size ∧
    (∀ c : Blk, Inside v p c → Inside v p' c ∧ Sep v c ⟨off, n, false⟩) ∧
    off + roundUp n + v.rz ≤ p.end_ := by
  have hi := inv_arith h
  have hv' : v.rz = 0 ∨ v.rz = 16 := hv
  rcases tryAlloc_spec v hv hs p n h hn with ⟨off', p'', he, hinv, hm, hsz, hal, hle, f⟩ | ⟨need, he⟩
  · rw [he] at ha
    have e1 : p'' = p' := (Prod.mk.inj ha).1
    have e2 : off' = off := Option.some.inj (Prod.mk.inj (Prod.mk.inj ha).2).1
    subst e1 e2
    have hi' := inv_arith hinv
    simp only [W_eq, A, Mhd.Gen.Pool.alignSize] at hi hi' hal hn
    refine ⟨hinv, hm, hsz, ?_, by omega, ?_, by omega⟩
    · apply inside_back_mk; simp only [A, Mhd.Gen.Pool.alignSize, W_eq]; omega
    · intro c hci
      have hca := inside_arith hci
      simp only [W_eq, A, Mhd.Gen.Pool.alignSize] at hca
      refine ⟨inside_transport hci hsz (fun _ _ hle => by omega) (fun _ _ hle => by omega), ?_⟩
      unfold Sep; simp only; omega
  · rw [he] at ha; simp at ha

theorem deallocFront_fields (v : Var) (p : Pool) (off : Nat) :
    (deallocFront v p off).size = p.size ∧ (deallocFront v p off).end_ = p.end_ ∧
    (deallocFront v p off).mem = p.mem ∧ (deallocFront v p off).psn.length = p.psn.length ∧
    ((deallocFront v p off).pos = roundUp off ∨
      ((deallocFront v p off).pos = roundUp off + v.rz ∧ roundUp off = off)) := by
  unfold deallocFront
  simp only
  by_cases h0 : v.rz = 0
  · simp [h0]
  · rw [if_neg h0]
    by_cases h1 : roundUp off ≠ off
    · rw [if_pos h1]; simp
    · rw [if_neg h1]
      have h1' : roundUp off = off := by omega
      by_cases h2 : roundUp off ≠ 0
      · rw [if_pos h2]
        by_cases h3 : noPoison p.psn (roundUp off - v.rz) v.rz = true
        · rw [if_pos h3]; simp [h1']
        · rw [if_neg h3]; simp
      · rw [if_neg h2]; simp

/-- field-wise case analysis of `deallocate` -/
theorem deallocate_cases (v : Var) (p : Pool) (off len : Nat) :
    (deallocate v p (some off) len).size = p.size ∧
    (deallocate v p (some off) len).psn.length = p.psn.length ∧
    (deallocate v p (some off) len).mem = (if len ≠ 0 then zeroRange p.mem off len else p.mem) ∧
    (((deallocate v p (some off) len).pos = p.pos ∧ (deallocate v p (some off) len).end_ = p.end_) ∨
     (¬ (len = 0 ∧ v.rz = 0) ∧ off ≤ p.pos ∧ roundRz v ((off + len) % W) = p.pos ∧
        (deallocate v p (some off) len).end_ = p.end_ ∧
        ((deallocate v p (some off) len).pos = roundUp off ∨
          ((deallocate v p (some off) len).pos = roundUp off + v.rz ∧ roundUp off = off))) ∨
     (¬ (len = 0 ∧ v.rz = 0) ∧ ¬ off ≤ p.pos ∧ off = p.end_ ∧ (deallocate v p (some off) len).pos = p.pos ∧
        (deallocate v p (some off) len).end_ = roundRz v ((off + len) % W))) := by
  unfold deallocate
  simp only
  by_cases hz : len = 0 ∧ v.rz = 0
  · simp [hz]
  · rw [if_neg hz]
    generalize hp0 : (if len ≠ 0 then
        ({ p with mem := zeroRange p.mem off len, psn := setPsn p.psn off len true } : Pool) else p) = p0
    have f0 : p0.size = p.size ∧ p0.pos = p.pos ∧ p0.end_ = p.end_ ∧ p0.psn.length = p.psn.length ∧
        p0.mem = (if len ≠ 0 then zeroRange p.mem off len else p.mem) := by
      rw [← hp0]; by_cases hl : len ≠ 0 <;> simp [hl]
    obtain ⟨f1, f2, f3, f4, f5⟩ := f0
    by_cases hle : off ≤ p0.pos
    · rw [if_pos hle]
      by_cases hlast : roundRz v ((off + len) % W) = p0.pos
      · rw [if_pos hlast]
        have df := deallocFront_fields v p0 off
        refine ⟨df.1.trans f1, df.2.2.2.1.trans f4, df.2.2.1.trans f5, Or.inr (Or.inl ⟨hz, f2 ▸ hle, f2 ▸ hlast, df.2.1.trans f3, df.2.2.2.2⟩)⟩
      · rw [if_neg hlast]
        exact ⟨f1, f4, f5, Or.inl ⟨f2, f3⟩⟩
    · rw [if_neg hle]
      by_cases hlast : off = p0.end_
      · rw [if_pos hlast]
        exact ⟨f1, f4, f5, Or.inr (Or.inr ⟨hz, f2 ▸ hle, f3 ▸ hlast, f2, rfl⟩)⟩
      · rw [if_neg hlast]
        exact ⟨f1, f4, f5, Or.inl ⟨f2, f3⟩⟩

/-- `deallocate` of a live block: invariant kept, every other live block stays
    inside (with its red zone) and keeps its bytes -/
theorem deallocate_spec (v : Var) (hv : v.Valid) (p : Pool) (b : Blk) (h : Inv p) (hb : Inside v p b) :
    Inv (deallocate v p (some b.off) b.len) ∧ (deallocate v p (some b.off) b.len).size = p.size ∧
    (∀ c : Blk, Inside v p c → Sep v b c →
        Inside v (deallocate v p (some b.off) b.len) c ∧
        readAt (deallocate v p (some b.off) b.len).mem c.off c.len = readAt p.mem c.off c.len) := by
  have hi := inv_arith h
  have hba := inside_arith hb
  have hv' : v.rz = 0 ∨ v.rz = 16 := hv
  obtain ⟨qs, qp, qm, qc⟩ := deallocate_cases v p b.off b.len
  generalize deallocate v p (some b.off) b.len = q at *
  simp only [W_eq, A, Mhd.Gen.Pool.alignSize] at hi hba
  have hml : q.mem.length = p.mem.length := by
    rw [qm]; split
    · exact zeroRange_length' _ _ _
    · rfl
  have hmem : ∀ c : Blk, Sep v b c → readAt q.mem c.off c.len = readAt p.mem c.off c.len := by
    intro c hd
    rw [qm]
    split
    · by_cases hcl : c.len = 0
      · simp [readAt, hcl]
      · apply readAt_zeroRange_disjoint
        · omega
        · unfold Sep at hd; omega
    · rfl
  have hro : roundUp b.off = b.off := Mhd.Pool.roundUp_of_aligned _ hba.1 (by rw [W_eq]; omega)
  rcases qc with ⟨q1, q2⟩ | ⟨hz, hle, hlast, q2, q1⟩ | ⟨hz, hle, hlast, q1, q2⟩
  · refine ⟨?_, qs, ?_⟩
    · simp only [Inv, A, Mhd.Gen.Pool.alignSize]
      refine ⟨?_, ?_, ?_, ?_, ?_, ?_, ?_, ?_⟩ <;> omega
    · intro c hci hd
      exact ⟨inside_transport hci qs (fun _ _ hh => by omega) (fun _ _ hh => by omega), hmem c hd⟩
  · have hlt : b.off + b.len < 2 ^ 63 := by omega
    have r := roundRz_small v hv (b.off + b.len) hlt
    rw [r.1] at hlast
    simp only [A, Mhd.Gen.Pool.alignSize] at r
    rw [hro] at q1
    refine ⟨?_, qs, ?_⟩
    · simp only [Inv, A, Mhd.Gen.Pool.alignSize]
      refine ⟨?_, ?_, ?_, ?_, ?_, ?_, ?_, ?_⟩ <;> omega
    · intro c hci hd
      refine ⟨?_, hmem c hd⟩
      have hca := inside_arith hci
      simp only [W_eq, A, Mhd.Gen.Pool.alignSize] at hca
      unfold Sep at hd
      refine inside_transport hci qs ?_ ?_
      · intro hcl hcf hcle
        omega
      · intro _ _ hh; omega
  · have hlt : b.off + b.len < 2 ^ 63 := by omega
    have r := roundRz_small v hv (b.off + b.len) hlt
    rw [r.1] at q2
    simp only [A, Mhd.Gen.Pool.alignSize] at r
    refine ⟨?_, qs, ?_⟩
    · simp only [Inv, A, Mhd.Gen.Pool.alignSize]
      refine ⟨?_, ?_, ?_, ?_, ?_, ?_, ?_, ?_⟩ <;> omega
    · intro c hci hd
      refine ⟨?_, hmem c hd⟩
      have hca := inside_arith hci
      simp only [W_eq, A, Mhd.Gen.Pool.alignSize] at hca
      unfold Sep at hd
      refine inside_transport hci qs ?_ ?_
      · intro _ _ hh; omega
      · intro hcl hcf hcle
        omega

theorem resetMove_spec (m : List UInt8) (keep : Option Nat) (copy : Nat)
    (hk : ∀ k, keep = some k → k + copy ≤ m.length) :
    (resetMove m keep copy).length = m.length ∧
    ∀ k, keep = some k → readAt (resetMove m keep copy) 0 copy = readAt m k copy := by
  unfold resetMove
  cases keep with
  | none => exact ⟨rfl, fun k hk' => absurd hk' (by simp)⟩
  | some k =>
    have hk' := hk k rfl
    have hl : (readAt m k copy).length = copy := readAt_length _ _ _ hk'
    by_cases hcond : k ≠ 0 ∧ copy ≠ 0
    · simp only; rw [if_pos hcond]
      refine ⟨writeAt_length' _ _ _, ?_⟩
      intro k2 hk2
      have : k = k2 := Option.some.inj hk2
      subst this
      rw [readAt_writeAt_same _ _ _ _ (by omega) (by omega)]
      exact List.take_of_length_le (by omega)
    · simp only; rw [if_neg hcond]
      refine ⟨rfl, ?_⟩
      intro k2 hk2
      have : k = k2 := Option.some.inj hk2
      subst this
      by_cases hk0 : k = 0
      · subst hk0; rfl
      · have : copy = 0 := by
          by_cases hc0 : copy = 0
          · exact hc0
          · exact absurd ⟨hk0, hc0⟩ hcond
        subst this; simp [readAt]

theorem resetPsn_length (p : Pool) (copy n : Nat) : (resetPsn p copy n).length = p.psn.length := by
  unfold resetPsn
  simp only
  split <;> simp

theorem reset_spec (v : Var) (hv : v.Valid) (p : Pool) (keep : Option Nat) (copy n : Nat) (h : Inv p)
    (hn : n ≤ p.size) (hrz : roundUp n + v.rz ≤ p.size)
    (hc : copy ≤ n) (hk : ∀ k, keep = some k → k + copy ≤ p.size) :
    Inv (reset v p keep copy n) ∧ (reset v p keep copy n).size = p.size ∧
    (reset v p keep copy n).end_ = p.size ∧ (reset v p keep copy n).pos = roundRz v n ∧
    Inside v (reset v p keep copy n) ⟨0, n, true⟩ ∧
    (∀ k, keep = some k → readAt (reset v p keep copy n).mem 0 copy = readAt p.mem k copy) := by
  have hi := inv_arith h
  have hv' : v.rz = 0 ∨ v.rz = 16 := hv
  simp only [W_eq, A, Mhd.Gen.Pool.alignSize] at hi
  have r := roundRz_small v hv n (by omega)
  simp only [A, Mhd.Gen.Pool.alignSize] at r
  have hmv := resetMove_spec p.mem keep copy (by intro k hk'; have := hk k hk'; omega)
  have hm0 : (if p.size > copy then zeroRange (resetMove p.mem keep copy) copy (p.size - copy) else resetMove p.mem keep copy).length = p.mem.length := by
    split
    · rw [zeroRange_length']; exact hmv.1
    · exact hmv.1
  have hr0 : readAt (if p.size > copy then zeroRange (resetMove p.mem keep copy) copy (p.size - copy) else resetMove p.mem keep copy) 0 copy
      = readAt (resetMove p.mem keep copy) 0 copy := by
    split
    · apply readAt_zeroRange_disjoint <;> omega
    · rfl
  unfold reset
  refine ⟨?_, rfl, rfl, rfl, ?_, ?_⟩
  · refine ⟨?_, Nat.le_refl _, ?_, hi.2.2.2.2.1, hi.2.2.2.2.1, hi.2.2.2.2.2.1, hm0.trans hi.2.2.2.2.2.2.1,
      (resetPsn_length _ _ _).trans hi.2.2.2.2.2.2.2⟩
    · show roundRz v n ≤ p.size; rw [r.2.2.2.2]; omega
    · show roundRz v n % 16 = 0; rw [r.2.2.2.2]; omega
  · apply inside_front_mk
    show 0 % 16 = 0 ∧ 0 ≤ p.size ∧ n < W ∧ 0 + n + v.rz ≤ roundRz v n
    rw [r.2.2.2.2, W_eq]
    refine ⟨?_, ?_, ?_, ?_⟩ <;> omega
  · intro k hk'
    exact hr0.trans (hmv.2 k hk')

/-! ### live-list bookkeeping -/

theorem wf_push (v : Var) (live : List Blk) (p' : Pool) (new : Blk) (hinv : Inv p') (hnew : Inside v p' new)
    (hall : ∀ c ∈ live, Inside v p' c ∧ Sep v c new) (hpw : live.Pairwise (Sep v)) :
    WF v ⟨p', live ++ [new]⟩ := by
  refine ⟨hinv, ?_, pairwise_append_single hpw (fun c hc => (hall c hc).2)⟩
  intro b hb
  rcases List.mem_append.mp hb with hb | hb
  · exact (hall b hb).1
  · rw [List.mem_singleton] at hb; subst hb; exact hnew

theorem wf_replace (v : Var) (s : St) (i : Nat) (b : Blk) (hb : s.live[i]? = some b) (hwf : WF v s)
    (p' : Pool) (new : Blk) (hinv : Inv p') (hnew : Inside v p' new)
    (hall : ∀ c : Blk, Inside v s.p c → Sep v b c → Inside v p' c ∧ Sep v c new) :
    WF v ⟨p', s.live.eraseIdx i ++ [new]⟩ := by
  apply wf_push _ _ _ _ hinv hnew
  · intro c hc
    obtain ⟨j, hji, hj⟩ := mem_eraseIdx_getElem? hc
    exact hall c (hwf.2.1 c (mem_of_getElem? hj))
      (pairwise_getElem? (fun _ _ => Sep.symm) hwf.2.2 hb hj (Ne.symm hji))
  · exact List.Pairwise.sublist (List.eraseIdx_sublist _ _) hwf.2.2

theorem wf_erase (v : Var) (s : St) (i : Nat) (b : Blk) (hb : s.live[i]? = some b) (hwf : WF v s)
    (p' : Pool) (hinv : Inv p')
    (hall : ∀ c : Blk, Inside v s.p c → Sep v b c → Inside v p' c) :
    WF v ⟨p', s.live.eraseIdx i⟩ := by
  refine ⟨hinv, ?_, List.Pairwise.sublist (List.eraseIdx_sublist _ _) hwf.2.2⟩
  intro c hc
  obtain ⟨j, hji, hj⟩ := mem_eraseIdx_getElem? hc
  exact hall c (hwf.2.1 c (mem_of_getElem? hj))
    (pairwise_getElem? (fun _ _ => Sep.symm) hwf.2.2 hb hj (Ne.symm hji))

theorem handOut_ok (s : St) (p' : Pool) (off n : Nat) (f : Bool) (live : List Blk) (h : off + n ≤ p'.size) :
    handOut s p' off n f live = ({ p := p', live := live ++ [⟨off, n, f⟩] }, .block off n) := by
  simp [handOut, h]

/-! ### the step-level theorems -/

theorem step_wf (v : Var) (hv : v.Valid) (hs : v.Sound) (s : St) (o : Op) (h : WF v s) (ho : o.Valid) :
    WF v (step v s o).1 := by
  cases o with
  | alloc n fe =>
    simp only [Op.Valid] at ho
    rcases ha : allocate v s.p n fe with ⟨p', _ | off⟩
    · have : p' = s.p := by
        rcases allocate_spec v hv hs s.p n fe h.1 ho with ⟨_, _, he, _⟩ | he <;> rw [he] at ha
        · simp at ha
        · exact ((Prod.mk.inj ha).1).symm
      subst this
      simp only [step, ha]; exact h
    · have := allocate_others v hv hs s.p p' n off fe h.1 ho ha
      simp only [step, ha, handOut_ok _ _ _ _ _ _ (this.2.2.1 ▸ this.2.2.2.2.1)]
      exact wf_push v _ _ _ this.1 this.2.2.2.1 (fun c hc => this.2.2.2.2.2.1 c (h.2.1 c hc)) h.2.2
  | tryAlloc n =>
    simp only [Op.Valid] at ho
    rcases ha : tryAlloc v s.p n with ⟨p', _ | off, r⟩
    · have : p' = s.p := by
        rcases tryAlloc_spec v hv hs s.p n h.1 ho with ⟨_, _, he, _⟩ | ⟨_, he⟩ <;> rw [he] at ha
        · simp at ha
        · exact ((Prod.mk.inj ha).1).symm
      subst this
      cases r <;> (simp only [step, ha]; exact h)
    · have := tryAlloc_others v hv hs s.p p' n off r h.1 ho ha
      simp only [step, ha, handOut_ok _ _ _ _ _ _ (this.2.2.1 ▸ this.2.2.2.2.1)]
      exact wf_push v _ _ _ this.1 this.2.2.2.1 (fun c hc => this.2.2.2.2.2.1 c (h.2.1 c hc)) h.2.2
  | realloc i n =>
    simp only [Op.Valid] at ho
    cases i with
    | none =>
      rcases realloc_null v hv hs s.p n h.1 ho with he | ⟨p', he, hinv, hsz, _, hin, hle, _, hall⟩
      · simp only [step, he]; exact h
      · simp only [step, he, handOut_ok _ _ _ _ _ _ (hsz ▸ hle)]
        exact wf_push v _ _ _ hinv hin (fun c hc => hall c (h.2.1 c hc)) h.2.2
    | some i =>
      simp only [step]
      cases hb : s.live[i]? with
      | none => exact h
      | some b =>
        simp only
        obtain ⟨bo, bl, bf⟩ := b
        cases bf with
        | false => simp; exact h
        | true =>
          simp only [Bool.not_true, Bool.false_eq_true, if_false]
          have hbi := h.2.1 _ (mem_of_getElem? hb)
          rcases realloc_full v hv hs s.p bo bl n h.1 hbi ho with he | ⟨p', off, he, hinv, hsz, hin, hle, hall, _⟩
          · simp only [he]; exact h
          · simp only [he, handOut_ok _ _ _ _ _ _ (hsz ▸ hle)]
            exact wf_replace v s i _ hb h p' _ hinv hin (fun c hc hd => ⟨(hall c hc hd).1, (hall c hc hd).2.1⟩)
  | dealloc i =>
    simp only [step]
    cases hb : s.live[i]? with
    | none => exact h
    | some b =>
      simp only
      have hbi := h.2.1 _ (mem_of_getElem? hb)
      have := deallocate_spec v hv s.p b h.1 hbi
      exact wf_erase v s i b hb h _ this.1 (fun c hc hd => (this.2.2 c hc hd).1)
  | reset i copy n =>
    cases i with
    | none =>
      simp only [step]
      by_cases hn : n > s.p.size ∨ roundUp n + v.rz > s.p.size
      · simp only [hn, if_true]; exact h
      · simp only [hn, if_false]
        have := reset_spec v hv s.p none 0 n h.1 (by omega) (by omega) (Nat.zero_le _) (fun k hk => absurd hk (by simp))
        refine ⟨this.1, ?_, List.pairwise_singleton _ _⟩
        intro b hb; rw [List.mem_singleton] at hb; subst hb; exact this.2.2.2.2.1
    | some i =>
      simp only [step]
      cases hb : s.live[i]? with
      | none => exact h
      | some b =>
        simp only
        by_cases hc : copy > b.len ∨ copy > n ∨ n > s.p.size ∨ roundUp n + v.rz > s.p.size
        · simp only [hc, if_true]; exact h
        · simp only [hc, if_false]
          have hbi := inside_arith (h.2.1 _ (mem_of_getElem? hb))
          have hi := inv_arith h.1
          have hbl : b.off + b.len ≤ s.p.size ∨ b.len = 0 := by omega
          have := reset_spec v hv s.p (some b.off) copy n h.1 (by omega) (by omega) (by omega)
            (fun k hk => by have : b.off = k := Option.some.inj hk; subst this; omega)
          refine ⟨this.1, ?_, List.pairwise_singleton _ _⟩
          intro b' hb'; rw [List.mem_singleton] at hb'; subst hb'; exact this.2.2.2.2.1

theorem init_wf (v : Var) (allocSize : Nat) (ha : allocSize % A = 0) (hs : allocSize < 2 ^ 62) :
    WF v (St.init allocSize) := by
  refine ⟨⟨Nat.zero_le _, Nat.le_refl _, Nat.zero_mod _, ha, ha, hs, by simp [St.init, create],
    by simp [St.init, create]⟩, ?_, List.Pairwise.nil⟩
  intro b hb; simp [St.init] at hb

theorem run_wf' (v : Var) (hv : v.Valid) (hs : v.Sound) (s : St) (ops : List Op) (h : WF v s)
    (ho : ∀ o ∈ ops, o.Valid) : WF v (run v s ops) := by
  induction ops generalizing s with
  | nil => exact h
  | cons o ops ih =>
    simp only [run, List.foldl_cons]
    exact ih _ (step_wf v hv hs s o h (ho o (List.mem_cons_self ..))) (fun o' ho' => ho o' (List.mem_cons_of_mem _ ho'))

theorem run_wf (v : Var) (hv : v.Valid) (hs : v.Sound) (allocSize : Nat) (ha : allocSize % A = 0)
    (hsz : allocSize < 2 ^ 62) (ops : List Op) (ho : ∀ o ∈ ops, o.Valid) :
    WF v (run v (St.init allocSize) ops) :=
  run_wf' v hv hs _ ops (init_wf v allocSize ha hsz) ho

/-- no operation faults (the unpoisoned range of a handed-out block is inside the arena) -/
theorem step_no_fault (v : Var) (hv : v.Valid) (hs : v.Sound) (s : St) (o : Op) (h : WF v s) (ho : o.Valid) :
    (step v s o).2 ≠ .fault := by
  cases o with
  | alloc n fe =>
    simp only [Op.Valid] at ho
    rcases ha : allocate v s.p n fe with ⟨p', _ | off⟩
    · simp [step, ha]
    · have := allocate_others v hv hs s.p p' n off fe h.1 ho ha
      simp [step, ha, handOut_ok _ _ _ _ _ _ (this.2.2.1 ▸ this.2.2.2.2.1)]
  | tryAlloc n =>
    simp only [Op.Valid] at ho
    rcases ha : tryAlloc v s.p n with ⟨p', _ | off, r⟩
    · cases r <;> simp [step, ha]
    · have := tryAlloc_others v hv hs s.p p' n off r h.1 ho ha
      simp [step, ha, handOut_ok _ _ _ _ _ _ (this.2.2.1 ▸ this.2.2.2.2.1)]
  | realloc i n =>
    simp only [Op.Valid] at ho
    cases i with
    | none =>
      rcases realloc_null v hv hs s.p n h.1 ho with he | ⟨p', he, hinv, hsz, _, hin, hle, _, hall⟩
      · simp [step, he]
      · simp [step, he, handOut_ok _ _ _ _ _ _ (hsz ▸ hle)]
    | some i =>
      simp only [step]
      cases hb : s.live[i]? with
      | none => simp
      | some b =>
        simp only
        obtain ⟨bo, bl, bf⟩ := b
        cases bf with
        | false => simp
        | true =>
          simp only [Bool.not_true, Bool.false_eq_true, if_false]
          have hbi := h.2.1 _ (mem_of_getElem? hb)
          rcases realloc_full v hv hs s.p bo bl n h.1 hbi ho with he | ⟨p', off, he, hinv, hsz, hin, hle, hall, _⟩
          · simp [he]
          · simp [he, handOut_ok _ _ _ _ _ _ (hsz ▸ hle)]
  | dealloc i =>
    simp only [step]
    cases hb : s.live[i]? <;> simp
  | reset i copy n =>
    cases i with
    | none =>
      simp only [step]
      by_cases hn : n > s.p.size ∨ roundUp n + v.rz > s.p.size <;> simp [hn]
    | some i =>
      simp only [step]
      cases hb : s.live[i]? with
      | none => simp
      | some b =>
        simp only
        by_cases hc : copy > b.len ∨ copy > n ∨ n > s.p.size ∨ roundUp n + v.rz > s.p.size <;> simp [hc]

/-- the new block is the last element of the live list; everything else in the
    list is separated from it (from `WF` of the successor state) -/
theorem last_sep {v : Var} {l : List Blk} {x : Blk} (h : (l ++ [x]).Pairwise (Sep v)) :
    ∀ c ∈ l ++ [x], c ≠ x → Sep v x c := by
  intro c hc hne
  rw [List.pairwise_append] at h
  rcases List.mem_append.mp hc with hc | hc
  · exact (h.2.2 c hc x (List.mem_singleton.mpr rfl)).symm
  · rw [List.mem_singleton] at hc; exact absurd hc hne

/-- a handed-out block is aligned, inside the arena, live, and separated (by a red zone) from every
    other live block -/
theorem block_in_bounds_sep (v : Var) (hv : v.Valid) (hs : v.Sound) (s : St) (o : Op) (h : WF v s)
    (ho : o.Valid) (off len : Nat) (hr : (step v s o).2 = .block off len) :
    off % A = 0 ∧ off + len ≤ s.p.size ∧
    ∃ b ∈ (step v s o).1.live, b.off = off ∧ b.len = len ∧
      ∀ c ∈ (step v s o).1.live, c ≠ b → Sep v b c := by
  have hwf' := step_wf v hv hs s o h ho
  cases o with
  | alloc n fe =>
    simp only [Op.Valid] at ho
    rcases ha : allocate v s.p n fe with ⟨p', _ | off'⟩
    · simp [step, ha] at hr
    · have := allocate_others v hv hs s.p p' n off' fe h.1 ho ha
      simp only [step, ha, handOut_ok _ _ _ _ _ _ (this.2.2.1 ▸ this.2.2.2.2.1)] at hr hwf' ⊢
      injection hr with e1 e2; subst e1 e2
      exact ⟨this.2.2.2.1.1, this.2.2.2.2.1, _, List.mem_append_right _ (List.mem_singleton.mpr rfl), rfl, rfl,
        last_sep hwf'.2.2⟩
  | tryAlloc n =>
    simp only [Op.Valid] at ho
    rcases ha : tryAlloc v s.p n with ⟨p', _ | off', r⟩
    · cases r <;> simp [step, ha] at hr
    · have := tryAlloc_others v hv hs s.p p' n off' r h.1 ho ha
      simp only [step, ha, handOut_ok _ _ _ _ _ _ (this.2.2.1 ▸ this.2.2.2.2.1)] at hr hwf' ⊢
      injection hr with e1 e2; subst e1 e2
      exact ⟨this.2.2.2.1.1, this.2.2.2.2.1, _, List.mem_append_right _ (List.mem_singleton.mpr rfl), rfl, rfl,
        last_sep hwf'.2.2⟩
  | realloc i n =>
    simp only [Op.Valid] at ho
    cases i with
    | none =>
      rcases realloc_null v hv hs s.p n h.1 ho with he | ⟨p', he, hinv, hsz, _, hin, hle, _, hall⟩
      · simp [step, he] at hr
      · simp only [step, he, handOut_ok _ _ _ _ _ _ (hsz ▸ hle)] at hr hwf' ⊢
        injection hr with e1 e2; subst e1 e2
        exact ⟨hin.1, hle, _, List.mem_append_right _ (List.mem_singleton.mpr rfl), rfl, rfl,
          last_sep hwf'.2.2⟩
    | some i =>
      simp only [step] at hr hwf' ⊢
      cases hb : s.live[i]? with
      | none => simp [hb] at hr
      | some b =>
        simp only [hb] at hr hwf' ⊢
        obtain ⟨bo, bl, bf⟩ := b
        cases bf with
        | false => simp at hr
        | true =>
          simp only [Bool.not_true, Bool.false_eq_true, if_false] at hr hwf' ⊢
          have hbi := h.2.1 _ (mem_of_getElem? hb)
          rcases realloc_full v hv hs s.p bo bl n h.1 hbi ho with he | ⟨p', off', he, hinv, hsz, hin, hle, hall, _⟩
          · simp [he] at hr
          · simp only [he, handOut_ok _ _ _ _ _ _ (hsz ▸ hle)] at hr hwf' ⊢
            injection hr with e1 e2; subst e1 e2
            exact ⟨hin.1, hle, _, List.mem_append_right _ (List.mem_singleton.mpr rfl), rfl, rfl,
              last_sep hwf'.2.2⟩
  | dealloc i =>
    simp only [step] at hr
    cases hb : s.live[i]? <;> simp [hb] at hr
  | reset i copy n =>
    have hA0 : 0 % A = 0 := Nat.zero_mod _
    cases i with
    | none =>
      simp only [step] at hr ⊢
      by_cases hn : n > s.p.size ∨ roundUp n + v.rz > s.p.size
      · simp [hn] at hr
      · simp only [hn, if_false] at hr ⊢
        injection hr with e1 e2; subst e1 e2
        refine ⟨hA0, by omega, _, List.mem_singleton.mpr rfl, rfl, rfl, ?_⟩
        intro c hc hne; rw [List.mem_singleton] at hc; exact absurd hc hne
    | some i =>
      simp only [step] at hr ⊢
      cases hb : s.live[i]? with
      | none => simp [hb] at hr
      | some b =>
        simp only [hb] at hr ⊢
        by_cases hc : copy > b.len ∨ copy > n ∨ n > s.p.size ∨ roundUp n + v.rz > s.p.size
        · simp [hc] at hr
        · simp only [hc, if_false] at hr ⊢
          injection hr with e1 e2; subst e1 e2
          refine ⟨hA0, by omega, _, List.mem_singleton.mpr rfl, rfl, rfl, ?_⟩
          intro c hc hne; rw [List.mem_singleton] at hc; exact absurd hc hne

theorem block_in_bounds_disjoint (v : Var) (hv : v.Valid) (hs : v.Sound) (s : St) (o : Op) (h : WF v s)
    (ho : o.Valid) (off len : Nat) (hr : (step v s o).2 = .block off len) :
    off % A = 0 ∧ off + len ≤ s.p.size ∧
    ∃ b ∈ (step v s o).1.live, b.off = off ∧ b.len = len ∧
      ∀ c ∈ (step v s o).1.live, c ≠ b → Disjoint b c := by
  obtain ⟨h1, h2, b, hb, h3, h4, h5⟩ := block_in_bounds_sep v hv hs s o h ho off len hr
  exact ⟨h1, h2, b, hb, h3, h4, fun c hc hne => (h5 c hc hne).disjoint⟩

theorem refused_unchanged (v : Var) (hv : v.Valid) (hs : v.Sound) (s : St) (o : Op) (h : WF v s) (ho : o.Valid)
    (hr : (step v s o).2 = .null ∨ ∃ n, (step v s o).2 = .nullNeed n) : (step v s o).1 = s := by
  cases o with
  | alloc n fe =>
    simp only [Op.Valid] at ho
    rcases allocate_spec v hv hs s.p n fe h.1 ho with ⟨off, p', he, _⟩ | he
    · have := allocate_others v hv hs s.p p' n off fe h.1 ho he
      simp [step, he, handOut_ok _ _ _ _ _ _ (this.2.2.1 ▸ this.2.2.2.2.1)] at hr
    · simp [step, he]
  | tryAlloc n =>
    simp only [Op.Valid] at ho
    rcases tryAlloc_spec v hv hs s.p n h.1 ho with ⟨off, p', he, _⟩ | ⟨need, he⟩
    · have := tryAlloc_others v hv hs s.p p' n off none h.1 ho he
      simp [step, he, handOut_ok _ _ _ _ _ _ (this.2.2.1 ▸ this.2.2.2.2.1)] at hr
    · simp [step, he]
  | realloc i n =>
    simp only [Op.Valid] at ho
    cases i with
    | none =>
      rcases realloc_null v hv hs s.p n h.1 ho with he | ⟨p', he, _, hsz, _, _, hle, _⟩
      · simp [step, he]
      · simp [step, he, handOut_ok _ _ _ _ _ _ (hsz ▸ hle)] at hr
    | some i =>
      simp only [step] at hr ⊢
      cases hb : s.live[i]? with
      | none => simp
      | some b =>
        simp only [hb] at hr ⊢
        obtain ⟨bo, bl, bf⟩ := b
        cases bf with
        | false => simp
        | true =>
          simp only [Bool.not_true, Bool.false_eq_true, if_false] at hr ⊢
          have hbi := h.2.1 _ (mem_of_getElem? hb)
          rcases realloc_full v hv hs s.p bo bl n h.1 hbi ho with he | ⟨p', off', he, _, hsz, _, hle, _⟩
          · simp [he]
          · simp [he, handOut_ok _ _ _ _ _ _ (hsz ▸ hle)] at hr
  | dealloc i =>
    simp only [step] at hr ⊢
    cases hb : s.live[i]? <;> simp [hb] at hr ⊢
  | reset i copy n =>
    cases i with
    | none =>
      simp only [step] at hr ⊢
      by_cases hn : n > s.p.size ∨ roundUp n + v.rz > s.p.size <;> simp [hn] at hr ⊢
    | some i =>
      simp only [step] at hr ⊢
      cases hb : s.live[i]? with
      | none => simp
      | some b =>
        simp only [hb] at hr ⊢
        by_cases hc : copy > b.len ∨ copy > n ∨ n > s.p.size ∨ roundUp n + v.rz > s.p.size <;> simp [hc] at hr ⊢

theorem others_untouched (v : Var) (hv : v.Valid) (hs : v.Sound) (s : St) (o : Op) (h : WF v s) (ho : o.Valid)
    (hnr : ¬ o.isReset) (j : Nat) (b : Blk) (hb : s.live[j]? = some b) (hj : o.target ≠ some j) :
    readAt (step v s o).1.p.mem b.off b.len = readAt s.p.mem b.off b.len := by
  cases o with
  | alloc n fe =>
    simp only [Op.Valid] at ho
    rcases allocate_spec v hv hs s.p n fe h.1 ho with ⟨off, p', he, _, hm, _⟩ | he
    · have := allocate_others v hv hs s.p p' n off fe h.1 ho he
      simp [step, he, hm, handOut_ok _ _ _ _ _ _ (this.2.2.1 ▸ this.2.2.2.2.1)]
    · simp [step, he]
  | tryAlloc n =>
    simp only [Op.Valid] at ho
    rcases tryAlloc_spec v hv hs s.p n h.1 ho with ⟨off, p', he, _, hm, _⟩ | ⟨need, he⟩
    · have := tryAlloc_others v hv hs s.p p' n off none h.1 ho he
      simp [step, he, hm, handOut_ok _ _ _ _ _ _ (this.2.2.1 ▸ this.2.2.2.2.1)]
    · simp [step, he]
  | realloc i n =>
    simp only [Op.Valid] at ho
    cases i with
    | none =>
      rcases realloc_null v hv hs s.p n h.1 ho with he | ⟨p', he, _, hsz, hm, _, hle, _⟩
      · simp [step, he]
      · simp [step, he, hm, handOut_ok _ _ _ _ _ _ (hsz ▸ hle)]
    | some i =>
      simp only [Op.target] at hj
      have hij : i ≠ j := fun e => hj (by rw [e])
      simp only [step]
      cases hbi : s.live[i]? with
      | none => simp
      | some bi =>
        simp only
        obtain ⟨bo, bl, bf⟩ := bi
        cases bf with
        | false => simp
        | true =>
          simp only [Bool.not_true, Bool.false_eq_true, if_false]
          have hbin := h.2.1 _ (mem_of_getElem? hbi)
          have hd := pairwise_getElem? (fun _ _ => Sep.symm) h.2.2 hbi hb hij
          rcases realloc_full v hv hs s.p bo bl n h.1 hbin ho with he | ⟨p', off', he, _, hsz, _, hle, hall, _⟩
          · simp [he]
          · simp only [he, handOut_ok _ _ _ _ _ _ (hsz ▸ hle)]
            exact (hall b (h.2.1 _ (mem_of_getElem? hb)) hd).2.2
  | dealloc i =>
    simp only [Op.target] at hj
    have hij : i ≠ j := fun e => hj (by rw [e])
    simp only [step]
    cases hbi : s.live[i]? with
    | none => simp
    | some bi =>
      simp only
      have hbin := h.2.1 _ (mem_of_getElem? hbi)
      have hd := pairwise_getElem? (fun _ _ => Sep.symm) h.2.2 hbi hb hij
      exact ((deallocate_spec v hv s.p bi h.1 hbin).2.2 b (h.2.1 _ (mem_of_getElem? hb)) hd).2
  | reset i copy n => exact absurd trivial hnr

theorem realloc_preserves (v : Var) (hv : v.Valid) (hs : v.Sound) (s : St) (i n : Nat) (h : WF v s) (hn : n < W)
    (b : Blk) (hb : s.live[i]? = some b) (hf : b.front = true) (off len : Nat)
    (hr : (step v s (.realloc (some i) n)).2 = .block off len) :
    len = n ∧ readAt (step v s (.realloc (some i) n)).1.p.mem off (min b.len n)
              = readAt s.p.mem b.off (min b.len n) := by
  obtain ⟨bo, bl, bf⟩ := b
  simp only at hf; subst hf
  simp only [step, hb, Bool.not_true, Bool.false_eq_true, if_false] at hr ⊢
  have hbin := h.2.1 _ (mem_of_getElem? hb)
  rcases realloc_full v hv hs s.p bo bl n h.1 hbin hn with he | ⟨p', off', he, _, hsz, _, hle, _, hk⟩
  · simp [he] at hr
  · simp only [he, handOut_ok _ _ _ _ _ _ (hsz ▸ hle)] at hr ⊢
    injection hr with e1 e2; subst e1 e2
    exact ⟨rfl, hk⟩

theorem reset_keeps (v : Var) (hv : v.Valid) (s : St) (i copy n : Nat) (h : WF v s) (b : Blk)
    (hb : s.live[i]? = some b) (hc : copy ≤ b.len) (hcn : copy ≤ n) (hn : n ≤ s.p.size)
    (hrz : roundUp n + v.rz ≤ s.p.size) :
    let s' := (step v s (.reset (some i) copy n)).1
    readAt s'.p.mem 0 copy = readAt s.p.mem b.off copy ∧
    s'.p.end_ = s'.p.size ∧ s'.p.size = s.p.size ∧ s'.p.pos = roundRz v n ∧ s'.live = [⟨0, n, true⟩] := by
  have hcond : ¬ (copy > b.len ∨ copy > n ∨ n > s.p.size ∨ roundUp n + v.rz > s.p.size) := by omega
  have hbi := inside_arith (h.2.1 _ (mem_of_getElem? hb))
  have hi := inv_arith h.1
  have hbl : b.off + b.len ≤ s.p.size ∨ b.len = 0 := by omega
  have := reset_spec v hv s.p (some b.off) copy n h.1 hn hrz hcn
    (fun k hk => by have : b.off = k := Option.some.inj hk; subst this; omega)
  simp only [step, hb, hcond, if_false]
  exact ⟨this.2.2.2.2.2 _ rfl, by rw [this.2.2.1, this.2.1], this.2.1, this.2.2.2.1, trivial⟩

/-- the red zone: the `rz` bytes behind the (rounded) end of a block handed out by `alloc` are inside the
    part of the arena the block was carved from (below the new `pos` for a front block, below the old
    `end_` for a back block); by `WF` of the successor state (`Inside`, `Sep`) they belong to no live block -/
theorem alloc_red_zone (v : Var) (hv : v.Valid) (hs : v.Sound) (s : St) (n : Nat) (fe : Bool) (h : WF v s)
    (hn : n < W) (off len : Nat) (hr : (step v s (.alloc n fe)).2 = .block off len) :
    len = n ∧ (fe = false → off + roundUp n + v.rz ≤ (step v s (.alloc n fe)).1.p.pos) ∧
    (fe = true → off + roundUp n + v.rz ≤ s.p.end_) := by
  rcases ha : allocate v s.p n fe with ⟨p', _ | off'⟩
  · simp [step, ha] at hr
  · have := allocate_others v hv hs s.p p' n off' fe h.1 hn ha
    simp only [step, ha, handOut_ok _ _ _ _ _ _ (this.2.2.1 ▸ this.2.2.2.2.1)] at hr ⊢
    injection hr with e1 e2; subst e1 e2
    exact ⟨rfl, this.2.2.2.2.2.2.1, this.2.2.2.2.2.2.2⟩

/-- the same for `try_alloc` (always a back block) -/
theorem tryAlloc_red_zone (v : Var) (hv : v.Valid) (hs : v.Sound) (s : St) (n : Nat) (h : WF v s)
    (hn : n < W) (off len : Nat) (hr : (step v s (.tryAlloc n)).2 = .block off len) :
    len = n ∧ off + roundUp n + v.rz ≤ s.p.end_ := by
  rcases ha : tryAlloc v s.p n with ⟨p', _ | off', r⟩
  · cases r <;> simp [step, ha] at hr
  · have := tryAlloc_others v hv hs s.p p' n off' r h.1 hn ha
    simp only [step, ha, handOut_ok _ _ _ _ _ _ (this.2.2.1 ▸ this.2.2.2.2.1)] at hr ⊢
    injection hr with e1 e2; subst e1 e2
    exact ⟨rfl, this.2.2.2.2.2.2⟩

/-- every live block of a well-formed state is followed by `rz` bytes that lie in the same part of the
    arena and in no other live block's extent-plus-red-zone (this is `Inside` + `Sep`, restated) -/
theorem live_red_zone (v : Var) (s : St) (h : WF v s) (hrz : v.rz ≠ 0) (i j : Nat) (b c : Blk)
    (hb : s.live[i]? = some b) (hc : s.live[j]? = some c) (hij : i ≠ j) :
    (b.front = true → b.off + b.len + v.rz ≤ s.p.pos) ∧
    (b.front = false → s.p.end_ ≤ b.off ∧ b.off + b.len + v.rz ≤ s.p.size) ∧
    (b.off + b.len + v.rz ≤ c.off ∨ c.off + c.len + v.rz ≤ b.off) := by
  have hbi := h.2.1 _ (mem_of_getElem? hb)
  have hd := pairwise_getElem? (fun _ _ => Sep.symm) h.2.2 hb hc hij
  have := hbi.2.2.2 (Or.inr hrz)
  refine ⟨this.1, this.2, ?_⟩
  unfold Sep at hd; omega

/-! ### agreement with the old model (`Mhd.Model.PoolOps`) in the ordinary build, step level -/

def eraseSt (s : St) : Mhd.Pool.St := ⟨erase s.p, s.live⟩

/-- results correspond one to one; `fault` has no counterpart (excluded by hypothesis below) -/
def eraseRes : Res → Mhd.Pool.Res
  | .block off len => .block off len
  | .null => .null
  | .nullNeed k => .nullNeed k
  | .unit => .unit
  | .badOp => .badOp
  | .fault => .badOp

/-- In the ordinary build (`rz = 0`, either form of the wrap test) one step of the new model is one step
    of the old model, provided the new step did not fault (it never does from a well-formed state:
    `erase_step_wf`) and the arena size is an aligned value below 2^62 (needed for `reset` only). -/
theorem erase_step (chk : Bool) (s : St) (o : Op) (ho : o.Valid)
    (hsz : s.p.size % A = 0 ∧ s.p.size < 2 ^ 62)
    (hnf : (step ⟨0, chk⟩ s o).2 ≠ .fault) :
    eraseSt (step ⟨0, chk⟩ s o).1 = (Mhd.Pool.step (eraseSt s) o).1 ∧
    eraseRes (step ⟨0, chk⟩ s o).2 = (Mhd.Pool.step (eraseSt s) o).2 := by
  cases o with
  | alloc n fe =>
    simp only [Op.Valid] at ho
    have e := erase_allocate chk s.p n fe ho
    simp only [step, Mhd.Pool.step, eraseSt] at hnf ⊢
    rw [← e]
    generalize allocate ⟨0, chk⟩ s.p n fe = r at hnf ⊢
    rcases r with ⟨p', _ | off⟩
    · simp [eraseSt, eraseRes]
    · simp only [handOut] at hnf ⊢
      by_cases hh : off + n ≤ p'.size
      · simp [hh, eraseRes, eraseSt]
      · simp [hh] at hnf
  | tryAlloc n =>
    simp only [Op.Valid] at ho
    have e := erase_tryAlloc chk s.p n ho
    simp only [step, Mhd.Pool.step, eraseSt] at hnf ⊢
    rw [← e]
    generalize tryAlloc ⟨0, chk⟩ s.p n = r at hnf ⊢
    rcases r with ⟨p', _ | off, r⟩
    · cases r <;> simp [eraseSt, eraseRes]
    · simp only [handOut] at hnf ⊢
      by_cases hh : off + n ≤ p'.size
      · simp [hh, eraseRes, eraseSt]
      · simp [hh] at hnf
  | realloc i n =>
    simp only [Op.Valid] at ho
    cases i with
    | none =>
      have e := erase_reallocate chk s.p none 0 n ho
      simp only [step, Mhd.Pool.step, eraseSt] at hnf ⊢
      rw [← e]
      generalize reallocate ⟨0, chk⟩ s.p none 0 n = r at hnf ⊢
      rcases r with ⟨p', _ | off⟩
      · simp [eraseSt, eraseRes]
      · simp only [handOut] at hnf ⊢
        by_cases hh : off + n ≤ p'.size
        · simp [hh, eraseRes, eraseSt]
        · simp [hh] at hnf
    | some i =>
      simp only [step, Mhd.Pool.step, eraseSt] at hnf ⊢
      cases hb : s.live[i]? with
      | none => simp [eraseSt, eraseRes]
      | some b =>
        simp only [hb] at hnf ⊢
        by_cases hf : (!b.front) = true
        · simp [hf, eraseSt, eraseRes]
        · simp only [hf, if_false] at hnf ⊢
          have e := erase_reallocate chk s.p (some b.off) b.len n ho
          rw [← e]
          generalize reallocate ⟨0, chk⟩ s.p (some b.off) b.len n = r at hnf ⊢
          rcases r with ⟨p', _ | off⟩
          · simp [eraseSt, eraseRes]
          · simp only [handOut] at hnf ⊢
            by_cases hh : off + n ≤ p'.size
            · simp [hh, eraseRes, eraseSt]
            · simp [hh] at hnf
  | dealloc i =>
    simp only [step, Mhd.Pool.step, eraseSt]
    cases hb : s.live[i]? with
    | none => simp [eraseSt, eraseRes]
    | some b => simp [eraseSt, eraseRes, erase_deallocate]
  | reset i copy n =>
    have hA : s.p.size % 16 = 0 ∧ s.p.size < 2 ^ 62 := hsz
    have hcond : (n > s.p.size ∨ roundUp n + 0 > s.p.size) ↔ n > s.p.size := by
      simp only [roundUp, W_eq, A, Mhd.Gen.Pool.alignSize]
      omega
    cases i with
    | none =>
      simp only [step, Mhd.Pool.step]
      by_cases hn : n > s.p.size
      · have hn' : n > s.p.size ∨ roundUp n + 0 > s.p.size := hcond.mpr hn
        have hn2 : n > (eraseSt s).p.size := hn
        rw [if_pos hn', if_pos hn2]; exact ⟨rfl, rfl⟩
      · have hn' : ¬ (n > s.p.size ∨ roundUp n + 0 > s.p.size) := fun hh => hn (hcond.mp hh)
        have hn2 : ¬ n > (eraseSt s).p.size := hn
        rw [if_neg hn', if_neg hn2]
        simp only [eraseSt, eraseRes, erase_reset, and_self]
    | some i =>
      simp only [step, Mhd.Pool.step]
      have hl : (eraseSt s).live = s.live := rfl
      rw [hl]
      cases hb : s.live[i]? with
      | none => exact ⟨rfl, rfl⟩
      | some b =>
        simp only
        by_cases hc : copy > b.len ∨ copy > n ∨ n > s.p.size
        · have hc' : copy > b.len ∨ copy > n ∨ n > s.p.size ∨ roundUp n + 0 > s.p.size := by
            rcases hc with hc | hc | hc
            · exact Or.inl hc
            · exact Or.inr (Or.inl hc)
            · exact Or.inr (Or.inr (Or.inl hc))
          have hc2 : copy > b.len ∨ copy > n ∨ n > (eraseSt s).p.size := hc
          rw [if_pos hc', if_pos hc2]; exact ⟨rfl, rfl⟩
        · have hc' : ¬ (copy > b.len ∨ copy > n ∨ n > s.p.size ∨ roundUp n + 0 > s.p.size) := by
            intro hh
            rcases hh with hh | hh | hh
            · exact hc (Or.inl hh)
            · exact hc (Or.inr (Or.inl hh))
            · exact hc (Or.inr (Or.inr (hcond.mp hh)))
          have hc2 : ¬ (copy > b.len ∨ copy > n ∨ n > (eraseSt s).p.size) := hc
          rw [if_neg hc', if_neg hc2]
          simp only [eraseSt, eraseRes, erase_reset, and_self]

theorem valid_rz0 (chk : Bool) : Var.Valid ⟨0, chk⟩ ∧ Var.Sound ⟨0, chk⟩ := ⟨Or.inl rfl, Or.inr rfl⟩

/-- from a well-formed state the ordinary-build instance of the new model *is* the old model -/
theorem erase_step_wf (chk : Bool) (s : St) (o : Op) (ho : o.Valid) (h : WF ⟨0, chk⟩ s) :
    eraseSt (step ⟨0, chk⟩ s o).1 = (Mhd.Pool.step (eraseSt s) o).1 ∧
    eraseRes (step ⟨0, chk⟩ s o).2 = (Mhd.Pool.step (eraseSt s) o).2 ∧
    (step ⟨0, chk⟩ s o).2 ≠ .fault := by
  have hnf := step_no_fault _ (valid_rz0 chk).1 (valid_rz0 chk).2 s o h ho
  have := erase_step chk s o ho ⟨h.1.2.2.2.2.1, h.1.2.2.2.2.2.1⟩ hnf
  exact ⟨this.1, this.2, hnf⟩

/-! ### without `Sound` the red-zone build violates the property -/

/-- kernel-checked witness: with the `(0 == asize) && (0 != size)` form of the wrap test the red-zone
    build accepts `size = SIZE_MAX` in a 64-byte arena — the model reports the out-of-arena unpoison
    (`fault`); the code hands out a "block" of 2^64-1 bytes at offset 0, reserving 16 bytes -/
theorem wrap_witness :
    (step ⟨16, false⟩ (St.init 64) (.alloc (2 ^ 64 - 1) false)).2 = .fault ∧
    (allocate ⟨16, false⟩ (create 64) (2 ^ 64 - 1) false).2 = some 0 ∧
    (allocate ⟨16, false⟩ (create 64) (2 ^ 64 - 1) false).1.pos = 16 := by
  decide

/-! ### why `WF` is stronger than the build-independent reading `WFW` -/

/-- a state of the red-zone build that satisfies `WFW` but not `WF`: two front blocks without a red zone
    between them (never produced by the model from `St.init`) -/
def wfwWitness : St :=
  ⟨⟨64, 32, 64, List.replicate 64 0, List.replicate 64 true⟩, [⟨0, 16, true⟩, ⟨16, 8, true⟩]⟩

/-- kernel-checked: `WFW` alone is not preserved by `step` in the red-zone build (freeing the first block
    moves `pos` back to 0 although the second block is still live) — hence the red-zone-aware `Inside`/`Sep` -/
theorem wfw_not_inductive :
    WFW wfwWitness ∧ ¬ WFW (step ⟨16, true⟩ wfwWitness (.dealloc 0)).1 := by
  unfold WFW Inv InsideW Disjoint
  decide

end Mhd.PoolRz
