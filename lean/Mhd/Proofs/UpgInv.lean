/-
  C20: shape of the event log (no daemon I/O after the hand-over), byte conservation, and the
  combined per-connection invariant `CI`, preserved by every primitive of the model.
-/
import Mhd.Proofs.UpgLife
namespace Mhd.Upg

/-- log shape and byte conservation of one connection -/
structure LogI (x : Conn) : Prop where
  ok : okLog false x.log = true
  upg_loc : hasUpg x.log = true → x.loc = .suspended ∨ x.loc = .cleanup ∨ x.loc = .freed
  urh_upg : x.urh.isSome = true → hasUpg x.log = true
  handed_log : x.handed = handedOf x.log
  handed_upg : hasUpg x.log = false → x.handed = []
  cons : x.heads.flatten ++ x.handed ++ x.rbuf ++ x.sockIn = x.sent
  upg_rbuf : hasUpg x.log = true → x.rbuf = []
  wire : daemonWire x.log ++ x.wbuf = x.outq.flatten
  upg_wbuf : hasUpg x.log = true → x.wbuf = []

theorem logI_init : LogI {} := by constructor <;> simp [okLog, daemonWire]

theorem LogI.active_noUpg {x} (h : LogI x) (ha : x.loc = .active ∨ x.loc = .new ∨ x.loc = .none) : hasUpg x.log = false := by
  cases hh : hasUpg x.log with
  | false => rfl
  | true => have := h.upg_loc hh; rcases ha with ha | ha | ha <;> simp_all

/-- events that carry no bytes for the application and are neither I/O nor the hand-over -/
def Ev.plain : Ev → Bool
  | .ioRecv _ | .ioSend _ | .ioShutdown | .upgrade _ _ | .appRecv _ => false
  | _ => true

theorem handedOf_plain {e : Ev} (h : e.plain = true) : handedOf [e] = [] := by
  cases e <;> simp_all [handedOf, Ev.plain]
theorem handedOf_io {e : Ev} (h : e.isIo = true) : handedOf [e] = [] := by
  cases e <;> simp_all [handedOf, Ev.isIo]
theorem plain_notIo {e : Ev} (h : e.plain = true) : e.isIo = false := by
  cases e <;> simp_all [Ev.plain, Ev.isIo]
theorem plain_notUpg {e : Ev} (h : e.plain = true) : e.isUpgrade = false := by
  cases e <;> simp_all [Ev.plain, Ev.isUpgrade]
theorem io_notUpg {e : Ev} (h : e.isIo = true) : e.isUpgrade = false := by
  cases e <;> simp_all [Ev.isIo, Ev.isUpgrade]
theorem daemonWire_plain {e : Ev} (h : e.plain = true) : daemonWire [e] = [] := by
  cases e <;> simp_all [daemonWire, Ev.plain]
/-- daemon I/O that moves no bytes towards the client -/
def Ev.isIoQuiet : Ev → Bool
  | .ioRecv _ | .ioShutdown => true
  | _ => false
theorem quiet_io {e : Ev} (h : e.isIoQuiet = true) : e.isIo = true := by
  cases e <;> simp_all [Ev.isIoQuiet, Ev.isIo]
theorem daemonWire_quiet {e : Ev} (h : e.isIoQuiet = true) : daemonWire [e] = [] := by
  cases e <;> simp_all [daemonWire, Ev.isIoQuiet]

theorem logI_emit_plain {x} (h : LogI x) {e : Ev} (he : e.plain = true) : LogI (x.emit e) := by
  have h1 := handedOf_plain he; have h2 := plain_notIo he; have h3 := plain_notUpg he
  have h4 := daemonWire_plain he
  cases h; constructor <;> simp_all [Conn.emit, okLog_append, handedOf_append, daemonWire_append]

theorem logI_emit_io {x} (h : LogI x) (ha : x.loc = .active) {e : Ev} (hq : e.isIoQuiet = true) : LogI (x.emit e) := by
  have he := quiet_io hq
  have h0 := h.active_noUpg (Or.inl ha)
  have h1 := handedOf_io he; have h3 := io_notUpg he
  have h4 := daemonWire_quiet hq
  cases h; constructor <;> simp_all [Conn.emit, okLog_append, handedOf_append, daemonWire_append]


theorem logI_notifyCompleted {x} (h : LogI x) (code : Nat) : LogI (notifyCompleted x code) := by
  unfold notifyCompleted
  split
  · cases h; constructor <;> simp_all [okLog_append, handedOf_append, handedOf, Ev.isIo, Ev.isUpgrade, daemonWire_append, daemonWire]
  · exact h

theorem logI_closeConn {x} (h : LogI x) (ha : x.loc = .active) (code : Nat) : LogI (closeConn x code) := by
  have h1 := logI_notifyCompleted (logI_emit_io h ha (e := .ioShutdown) rfl) code
  have hn : hasUpg (notifyCompleted (x.emit .ioShutdown) code).log = false := by
    have := h.active_noUpg (Or.inl ha)
    unfold notifyCompleted; split <;> simp_all [Ev.isUpgrade, hasUpg]
  have hu : (notifyCompleted (x.emit .ioShutdown) code).urh = none := by
    cases hu : (notifyCompleted (x.emit .ioShutdown) code).urh with
    | none => rfl
    | some u => have := h1.urh_upg (by simp [hu]); simp_all
  unfold closeConn
  cases h1; constructor <;> simp_all

theorem logI_queueResponse {x} (h : LogI x) (cfg sh) (rid : Nat) : LogI (queueResponse cfg sh x rid).1 := by
  unfold queueResponse
  split
  · exact h
  · cases h; constructor <;> simp_all

theorem logI_tryQueue (cfg) (sh : Bool) (l : List Nat) : ∀ {x}, LogI x → LogI (tryQueue cfg sh x l) := by
  induction l with
  | nil => intro x h; exact h
  | cons rid rest ih =>
    intro x h
    simp only [tryQueue]
    split
    · exact logI_emit_plain (logI_queueResponse h cfg sh rid) rfl
    · exact ih (logI_emit_plain (logI_queueResponse h cfg sh rid) rfl)

theorem logI_startReply {x} (h : LogI x) (ha : x.loc = .active) (cfg) : LogI (startReply cfg x) := by
  unfold startReply
  split
  · exact h
  · have h0 := h.active_noUpg (Or.inl ha)
    have hw := h.wire
    obtain ⟨a1, a2, a3, a4, a5, a6, a7, a8, a9⟩ := h
    refine ⟨a1, a2, a3, a4, a5, a6, a7, ?_, ?_⟩
    · show daemonWire x.log ++ (x.wbuf ++ _) = (x.outq ++ [_]).flatten
      rw [← List.append_assoc, a8]; simp
    · intro hu; rw [h0] at hu; cases hu

theorem logI_handlerEntered {x} (h : LogI x) (fin : Bool) : LogI (handlerEntered x fin) := by
  cases h; constructor <;> simp_all [handlerEntered, okLog_append, handedOf_append, handedOf, Ev.isIo, Ev.isUpgrade, daemonWire_append, daemonWire]

theorem logI_firstCallOnly {x} (h : LogI x) : LogI (firstCallOnly x) := by
  have h0 := logI_handlerEntered h false
  cases h0; constructor <;> simp_all [firstCallOnly]

theorem logI_replyCall {x} (h : LogI x) (ha : x.loc = .active) (cfg) (sh fin : Bool) :
    LogI (replyCall cfg sh x fin) := by
  unfold replyCall
  simp only
  split
  · exact logI_closeConn (logI_tryQueue cfg sh _ (logI_handlerEntered h fin)) (by simp [ha]) _
  · exact logI_startReply (logI_tryQueue cfg sh _ (logI_handlerEntered h fin)) (by simp [ha]) cfg

theorem logI_handlerCalls {x} (h : LogI x) (ha : x.loc = .active) (cfg) (sh : Bool) :
    LogI (handlerCalls cfg sh x) := by
  unfold handlerCalls
  split
  · exact logI_replyCall h ha cfg sh false
  · exact logI_replyCall (logI_firstCallOnly h) (by simp [ha]) cfg sh true

theorem logI_consumeHead {x} (h : LogI x) (ha : x.loc = .active) (hd : Head) : LogI (consumeHead x hd) := by
  have hn := h.active_noUpg (Or.inl ha)
  have hh := h.handed_upg hn
  have hc := h.cons
  cases h; constructor <;> simp_all [consumeHead]

theorem logI_tryRequest {x} (h : LogI x) (cfg) (sh : Bool) : LogI (tryRequest cfg sh x) := by
  unfold tryRequest
  split
  · rename_i hg
    split
    · exact h
    · exact logI_handlerCalls (logI_consumeHead h hg.1 _) (by simp [hg.1]) cfg sh
  · exact h

theorem logI_handleRead {x} (h : LogI x) (n : Nat) : LogI (handleRead x n) := by
  unfold handleRead
  split
  · rename_i hg
    have h1 := logI_emit_io h hg.1 (e := .ioRecv (min n x.sockIn.length)) rfl
    have hc := h.cons
    cases h1; constructor <;> simp_all [Conn.emit]
  · exact h

theorem logI_handleWrite {x} (h : LogI x) (n : Nat) : LogI (handleWrite x n) := by
  unfold handleWrite
  split
  · rename_i hg
    have h0 := h.active_noUpg (Or.inl hg.1)
    have hw := h.wire
    cases h; constructor <;>
      simp_all [Conn.emit, okLog_append, handedOf_append, handedOf, Ev.isIo, Ev.isUpgrade, daemonWire_append, daemonWire]
  · exact h

theorem logI_replyDone {x} (h : LogI x) : LogI (replyDone x) := by
  have h0 := logI_notifyCompleted h Mhd.Gen.Upg.termOk
  cases h0; constructor <;> simp_all [replyDone]

theorem logI_nextRequest {x} (h : LogI x) : LogI (nextRequest x) := by
  cases h; constructor <;> simp_all [nextRequest]

theorem logI_finishOrdinary {x} (h : LogI x) (ha : x.loc = .active) : LogI (finishOrdinary x) := by
  unfold finishOrdinary
  split
  · exact logI_nextRequest (logI_replyDone h)
  · exact logI_closeConn (logI_replyDone h) (by simp [ha]) _

theorem logI_markAppClosed {x} (h : LogI x) : LogI (markAppClosed x) := by
  cases h; constructor <;> simp_all [markAppClosed]

theorem logI_upgradeActionClose {x} (h : LogI x) : LogI (upgradeActionClose x).1 := by
  unfold upgradeActionClose
  split
  · exact logI_emit_plain h rfl
  · split
    · exact logI_emit_plain h rfl
    · exact logI_emit_plain (logI_markAppClosed h) rfl

/-- the hand-over itself: state UPGRADE, internal suspend, upgrade handler called -/
theorem logI_handOver {cfg x} (hl : Life cfg x) (h : LogI x) (ha : x.loc = .active) (hw : x.wbuf = []) (rid : Nat) :
    LogI (handOver (internalSuspend (takeExtra x)) rid x.rbuf) := by
  have hr := hl.active_resuming ha
  have hn := h.active_noUpg (Or.inl ha)
  have hh := h.handed_upg hn
  have hc := h.cons
  unfold internalSuspend
  simp only [takeExtra, hr, handOver]
  cases h; constructor <;> simp_all [okLog_append, handedOf_append, handedOf, Ev.isIo, Ev.isUpgrade, daemonWire_append, daemonWire]

theorem logI_executeUpgrade {cfg x} (hl : Life cfg x) (h : LogI x) (ha : x.loc = .active) (hw : x.wbuf = []) (rid : Nat) :
    LogI (executeUpgrade cfg x rid).1 := by
  have h4 := logI_handOver hl h ha hw rid
  unfold executeUpgrade
  simp only
  split
  · have h5 := logI_upgradeActionClose h4
    cases h5; constructor <;> simp_all
  · cases h4; constructor <;> simp_all

theorem logI_afterSend {cfg x} (hl : Life cfg x) (h : LogI x) : LogI (afterSend cfg x).1 := by
  unfold afterSend
  split
  · rename_i hg
    split
    · exact h
    · split
      · exact logI_executeUpgrade hl h hg.1 (by simpa using hg.2.2) _
      · exact logI_finishOrdinary h hg.1
  · exact h

theorem logI_idle {cfg x} (hl : Life cfg x) (h : LogI x) (sh : Bool) : LogI (idle cfg sh x).1 := by
  unfold idle
  exact logI_tryRequest (logI_afterSend hl h) cfg sh


/-- both invariants together -/
structure CI (cfg : Cfg) (x : Conn) : Prop where
  life : Life cfg x
  logi : LogI x

theorem ci_idle {cfg x} (h : CI cfg x) (sh : Bool) : CI cfg (idle cfg sh x).1 :=
  ⟨life_idle h.life sh, logI_idle h.life h.logi sh⟩

theorem ci_idleP {cfg} {p : CB} (h : CI cfg p.1) (sh : Bool) : CI cfg (idleP cfg sh p).1 := ci_idle h sh

theorem ci_handleRead {cfg x} (h : CI cfg x) (n : Nat) : CI cfg (handleRead x n) :=
  ⟨life_handleRead h.life n, logI_handleRead h.logi n⟩
theorem ci_handleWrite {cfg x} (h : CI cfg x) (n : Nat) : CI cfg (handleWrite x n) :=
  ⟨life_handleWrite h.life n, logI_handleWrite h.logi n⟩

theorem ci_rdStage {cfg} {p : CB} (h : CI cfg p.1) (sh : Bool) (a : IoAct) : CI cfg (rdStage cfg sh a p).1 := by
  unfold rdStage
  split
  · exact ci_idleP (p := (handleRead p.1 a.rdMax, p.2)) (ci_handleRead h _) sh
  · exact h

theorem ci_wrStage {cfg} {p : CB} (h : CI cfg p.1) (sh : Bool) (a : IoAct) : CI cfg (wrStage cfg sh a p).1 := by
  unfold wrStage
  split
  · exact ci_idleP (p := (handleWrite p.1 a.wrMax, p.2)) (ci_handleWrite h _) sh
  · exact h

theorem ci_callHandlers {cfg x} (h : CI cfg x) (sh : Bool) (a : IoAct) : CI cfg (callHandlers cfg sh x a).1 := by
  unfold callHandlers
  split
  · exact h
  · have h2 := ci_wrStage (ci_rdStage (p := (x, false)) h sh a) sh a
    simp only
    split
    · exact ci_idleP h2 sh
    · split
      · exact ci_idleP (p := (handleWrite _ a.wrMax, _)) (ci_handleWrite h2 _) sh
      · exact h2

theorem logI_resumeOne {cfg x} (hl : Life cfg x) (h : LogI x) : LogI (resumeOne x) := by
  unfold resumeOne
  split
  · rename_i hg
    split
    · rename_i hu
      have := hl.susp_urh hg.1
      simp [hu] at this
    · rename_i u hu
      split
      · have h0 := logI_notifyCompleted h Mhd.Gen.Upg.termOk
        cases h0; constructor <;> simp_all
      · exact h
  · exact h

theorem logI_newToActive {cfg x} (hl : Life cfg x) (h : LogI x) : LogI (newToActive x) := by
  unfold newToActive
  split
  · rename_i hn
    have hu : x.urh = none := by
      cases hu : x.urh with
      | none => rfl
      | some u => have := hl.urh_loc (by simp [hu]); simp_all
    have hnu := h.active_noUpg (Or.inr (Or.inl hn))
    cases h; constructor <;> simp_all [Conn.emit, okLog_append, handedOf_append, handedOf, Ev.isIo, Ev.isUpgrade, daemonWire_append, daemonWire]
  · exact h

theorem logI_cleanupOne {x} (h : LogI x) : LogI (cleanupOne x) := by
  unfold cleanupOne
  split
  · simp only
    split <;> (cases h; constructor <;>
      simp_all [Conn.emit, okLog_append, handedOf_append, handedOf, Ev.isIo, Ev.isUpgrade, okLog, daemonWire_append, daemonWire])
  · exact h

theorem ci_roundConn {cfg x} (h : CI cfg x) (sh scan : Bool) (a : Option IoAct) :
    CI cfg (roundConn cfg sh scan a x).1 := by
  unfold roundConn
  have h1 : CI cfg (if scan = true then resumeOne x else x) := by
    split
    · exact ⟨life_resumeOne h.life, logI_resumeOne h.life h.logi⟩
    · exact h
  have h2 : CI cfg (newToActive (if scan = true then resumeOne x else x)) :=
    ⟨life_newToActive h1.life, logI_newToActive h1.life h1.logi⟩
  simp only
  split
  · have h3 := ci_callHandlers h2 sh (by assumption)
    exact ⟨life_cleanupOne h3.life, logI_cleanupOne h3.logi⟩
  · exact ⟨life_cleanupOne h2.life, logI_cleanupOne h2.logi⟩

theorem logI_stopNew {cfg x} (hl : Life cfg x) (h : LogI x) (hn : x.loc = .new) : LogI (stopNew x) := by
  have hu : x.urh = none := by
    cases hu : x.urh with
    | none => rfl
    | some u => have := hl.urh_loc (by simp [hu]); simp_all
  unfold stopNew
  split <;> (cases h; constructor <;>
    simp_all [Conn.emit, okLog_append, handedOf_append, handedOf, Ev.isIo, Ev.isUpgrade, daemonWire_append, daemonWire])

theorem ci_emit_plain {cfg x} (h : CI cfg x) {e : Ev} (he : e.plain = true) : CI cfg (x.emit e) :=
  ⟨life_emit h.life e, logI_emit_plain h.logi he⟩

theorem ci_resumeIf {cfg x} (h : CI cfg x) : CI cfg (resumeIf cfg x) := by
  unfold resumeIf; split
  · exact ⟨life_resumeOne h.life, logI_resumeOne h.life h.logi⟩
  · exact h

theorem ci_stopMarkSuspended {cfg x} (h : CI cfg x) : CI cfg (stopMarkSuspended cfg x) := by
  refine ⟨life_stopMarkSuspended h.life, ?_⟩
  unfold stopMarkSuspended
  split
  · split
    · split
      · exact logI_emit_plain h.logi rfl
      · have h0 := h.logi
        cases h0; constructor <;> simp_all
    · exact logI_emit_plain h.logi rfl
  · exact h.logi

theorem ci_stopShutdownActive {cfg x} (h : CI cfg x) : CI cfg (stopShutdownActive x) := by
  refine ⟨life_stopShutdownActive h.life, ?_⟩
  unfold stopShutdownActive; split
  · rename_i ha; exact logI_emit_io h.logi ha rfl
  · exact h.logi

theorem ci_stopCloseActive {cfg x} (h : CI cfg x) : CI cfg (stopCloseActive x) := by
  refine ⟨life_stopCloseActive h.life, ?_⟩
  unfold stopCloseActive; split
  · rename_i ha; exact logI_closeConn h.logi ha _
  · exact h.logi

theorem ci_cleanupOne {cfg x} (h : CI cfg x) : CI cfg (cleanupOne x) :=
  ⟨life_cleanupOne h.life, logI_cleanupOne h.logi⟩

theorem ci_stopConn {cfg x} (h : CI cfg x) : CI cfg (stopConn cfg x) := by
  unfold stopConn
  split
  · rename_i hn
    have h1 := ci_emit_plain h (e := .stopMark) rfl
    exact ⟨life_stopNew h1.life hn, logI_stopNew h1.life h1.logi hn⟩
  · exact ci_cleanupOne (ci_stopCloseActive (ci_resumeIf (ci_stopShutdownActive
      (ci_stopMarkSuspended (ci_resumeIf (ci_emit_plain h (e := .stopMark) rfl))))))

theorem ci_arriveConn {cfg x} (h : CI cfg x) : CI cfg (arriveConn x) := by
  refine ⟨life_arriveConn h.life, ?_⟩
  unfold arriveConn
  split
  · rename_i hn
    have hu : x.urh = none := by
      cases hu : x.urh with
      | none => rfl
      | some u => have := h.life.urh_loc (by simp [hu]); simp_all
    have hnu := h.logi.active_noUpg (Or.inr (Or.inr hn))
    have h0 := h.logi
    cases h0; constructor <;> simp_all
  · exact logI_emit_plain h.logi rfl

theorem ci_clientSendConn {cfg x} (h : CI cfg x) (bs : Bytes) : CI cfg (clientSendConn x bs) := by
  refine ⟨life_clientSendConn h.life bs, ?_⟩
  unfold clientSendConn
  split
  · have h0 := h.logi
    have hc := h0.cons
    cases h0; constructor <;> simp_all
    rw [← hc]; simp [List.append_assoc]
  · exact h.logi

theorem ci_appRecvConn {cfg x} (h : CI cfg x) (hu : x.urh.isSome = true) (n : Nat) : CI cfg (appRecvConn x n) := by
  refine ⟨life_appRecvConn h.life n, ?_⟩
  have hr := h.life.urh_rbuf hu
  have hg := h.logi.urh_upg hu
  have h0 := h.logi
  have hc := h0.cons
  cases h0; constructor <;>
    simp_all [appRecvConn, Conn.emit, okLog_append, handedOf_append, handedOf, Ev.isIo, Ev.isUpgrade, daemonWire_append, daemonWire]

theorem ci_appSendConn {cfg x} (h : CI cfg x) (bs : Bytes) : CI cfg (appSendConn x bs) :=
  ci_emit_plain h rfl

theorem ci_upgradeActionClose {cfg x} (h : CI cfg x) (hs : x.urh.isSome = true → x.loc = .suspended) :
    CI cfg (upgradeActionClose x).1 :=
  ⟨life_upgradeActionClose h.life hs, logI_upgradeActionClose h.logi⟩

theorem ci_init (cfg : Cfg) : CI cfg {} := ⟨life_init cfg, logI_init⟩

end Mhd.Upg
