/-
  C03 helper lemmas, part 2: the safety invariant of the connection automaton
  (once the rest of the stream cannot be trusted, `init` is never entered again and
  the handler is shown no further request), for every sequence of transitions.
-/
import Mhd.Model.FramingRef
namespace Mhd.Framing
open Mhd.Gen.Framing

set_option linter.unusedSectionVars false
variable [P : HeadParser]

/-- the rest of the stream cannot be trusted / the reply announces close -/
def Tainted (s : St) : Prop := s.discard = true ∨ s.stopErr = true ∨ s.keepalive = .mustClose

/-- `mhd_assert ((! c->stop_with_error) || (c->discard_request))` -/
def FlagsWF (s : St) : Prop := s.stopErr = true → s.discard = true

def extend (s : St) (b : Bytes) : St := { s with buf := s.buf ++ b }

/-- everything that can happen to a connection: one `case` of the idle loop with any
    application behaviour, or more bytes from the client -/
inductive Trans (lvl : Int) : St → St → Prop
  | step (app : App) {s s' : St} : idleStep lvl app s = some s' → Trans lvl s s'
  | recv (s : St) (b : Bytes) : Trans lvl s (extend s b)

inductive Reach (lvl : Int) : St → St → Prop
  | refl (s : St) : Reach lvl s s
  | tail {s t u : St} : Reach lvl s t → Trans lvl t u → Reach lvl s u

def NoReparse (s : St) : Prop := FlagsWF s ∧ Tainted s ∧ s.state ≠ .init

theorem errorReply_props (s : St) (st : Nat) (wf : FlagsWF s) :
    FlagsWF (errorReply s st) ∧ Tainted (errorReply s st) ∧ (errorReply s st).state ≠ .init := by
  unfold errorReply
  by_cases h : s.stopErr = true
  · simp only [h, if_true]
    refine ⟨fun _ => wf h, Or.inl (wf h), by simp⟩
  · simp only [h]
    refine ⟨fun _ => rfl, Or.inl rfl, by simp⟩

theorem refuseWith_flagsWF (s : St) (x : Option Nat) (wf : FlagsWF s) : FlagsWF (refuseWith s x) := by
  cases x with
  | some st => exact (errorReply_props s st wf).1
  | none => exact wf

theorem refuseWith_noReparse (s : St) (x : Option Nat) (j : NoReparse s) : NoReparse (refuseWith s x) := by
  cases x with
  | some st => exact errorReply_props s st j.1
  | none => exact ⟨j.1, j.2.1, by simp [refuseWith]⟩

theorem noReparse_of_flags (s s' : St) (j : NoReparse s) (hd : s'.discard = s.discard)
    (he : s'.stopErr = s.stopErr) (hk : s'.keepalive = s.keepalive) (hs : s'.state ≠ .init) : NoReparse s' := by
  obtain ⟨wf, t, _⟩ := j
  refine ⟨?_, ?_, hs⟩
  · unfold FlagsWF; rw [he, hd]; exact wf
  · unfold Tainted; rw [he, hd, hk]; exact t

theorem bodyStep_noReparse (lvl : Int) (s s' : St) (h : bodyStep lvl s = some s')
    (j : NoReparse s) (hs : s.state = .bodyReceiving) : NoReparse s' := by
  unfold bodyStep at h
  split at h
  · split at h
    · cases h
    · cases h; exact noReparse_of_flags s _ j rfl rfl rfl (by simp [hs])
    · cases h; exact noReparse_of_flags s _ j rfl rfl rfl (by simp [hs])
    · split at h <;> cases h
      · exact noReparse_of_flags s _ j rfl rfl rfl (by simp)
      · exact noReparse_of_flags s _ j rfl rfl rfl (by simp [hs])
    · cases h; exact errorReply_props s _ j.1
  · split at h
    · cases h
    · cases h
      split
      · exact noReparse_of_flags s _ j rfl rfl rfl (by simp)
      · exact noReparse_of_flags s _ j rfl rfl rfl (by simp [hs])

theorem step_noReparse (lvl : Int) (app : App) (s s' : St) (h : idleStep lvl app s = some s')
    (j : NoReparse s) : NoReparse s' := by
  have j0 := j
  obtain ⟨wf, t, ni⟩ := j
  unfold idleStep at h
  split at h
  · rename_i hs; exact absurd hs ni
  · -- headersReceived
    split at h <;> (cases h)
    · exact errorReply_props s _ wf
    · exact ⟨wf, t, by simp⟩
    · exact ⟨wf, t, by simp⟩
    · rename_i mc _
      refine ⟨wf, ?_, by simp⟩
      rcases t with t | t | t
      · exact Or.inl t
      · exact Or.inr (Or.inl t)
      · right; right; simp only; cases mc <;> simp [t]
  · -- headersProcessed
    split at h <;> cases h
    · exact noReparse_of_flags s _ j0 rfl rfl rfl (by simp)
    · exact ⟨fun _ => rfl, Or.inl rfl, by simp⟩
    · refine noReparse_of_flags s _ j0 rfl rfl rfl ?_
      simp only; repeat' split
      all_goals simp
  · cases h; exact noReparse_of_flags s _ j0 rfl rfl rfl (by simp)
  · -- bodyReceiving
    rename_i hs
    split at h
    · cases h; exact noReparse_of_flags s _ j0 rfl rfl rfl (by simp)
    · exact bodyStep_noReparse lvl s s' h j0 hs
  · cases h; refine noReparse_of_flags s _ j0 rfl rfl rfl ?_
    simp only; split <;> simp
  · -- footersReceiving
    split at h
    · cases h
    · cases h; exact noReparse_of_flags s _ j0 rfl rfl rfl (by simp)
    · cases h; exact refuseWith_noReparse s _ j0
    · cases h; exact noReparse_of_flags s _ j0 rfl rfl rfl (by simp)
  · cases h; exact noReparse_of_flags s _ j0 rfl rfl rfl (by simp)
  · -- fullReqReceived
    split at h
    · cases h; exact noReparse_of_flags s _ j0 rfl rfl rfl (by simp)
    · cases h
  · -- startReply
    split at h
    · cases h
    · cases h
      rename_i st ch _
      refine ⟨wf, ?_, by simp⟩
      rcases t with t | t | t
      · exact Or.inl t
      · exact Or.inr (Or.inl t)
      · right; right; simp [keepalivePossible, t]
  · -- fullReplySent
    cases h
    have hnr : (s.keepalive == KA.use && !s.readClosed && !s.discard) = false := by
      rcases t with t | t | t
      · simp [t]
      · simp [wf t]
      · simp [t]
    rw [hnr]
    simp only [connReset]
    exact noReparse_of_flags s _ j0 rfl rfl rfl (by simp)
  · cases h
  · cases h

theorem trans_noReparse (lvl : Int) (s s' : St) (h : Trans lvl s s') (j : NoReparse s) : NoReparse s' := by
  cases h with
  | step app hstep => exact step_noReparse lvl app s s' hstep j
  | recv b => exact noReparse_of_flags s _ j rfl rfl rfl j.2.2

theorem reach_noReparse (lvl : Int) (s s' : St) (h : Reach lvl s s') (j : NoReparse s) : NoReparse s' := by
  induction h with
  | refl => exact j
  | tail _ ht ih => exact trans_noReparse lvl _ _ ht ih

/-! the handler is shown no further request once the current one is past its first call -/

def isFirst : Ev → Bool
  | .first _ _ => true
  | _ => false

def countFirst (out : List Ev) : Nat := (out.filter isFirst).length

def PastFirst (s : St) : Prop :=
  s.state ≠ .init ∧ s.state ≠ .headersReceived ∧ s.state ≠ .headersProcessed

theorem countFirst_emitUpload (d : Bytes) (out : List Ev) : countFirst (emitUpload d out) = countFirst out := by
  unfold emitUpload
  split <;> simp [countFirst, List.filter_cons, isFirst]

theorem countFirst_cons (e : Ev) (out : List Ev) (h : isFirst e = false) : countFirst (e :: out) = countFirst out := by
  simp [countFirst, List.filter_cons, h]

theorem errorReply_past (s : St) (st : Nat) :
    PastFirst (errorReply s st) ∧ countFirst (errorReply s st).out = countFirst s.out := by
  unfold errorReply
  split
  · exact ⟨⟨by simp, by simp, by simp⟩, countFirst_cons _ _ rfl⟩
  · exact ⟨⟨by simp, by simp, by simp⟩, countFirst_cons _ _ rfl⟩

theorem refuseWith_past (s : St) (x : Option Nat) :
    PastFirst (refuseWith s x) ∧ countFirst (refuseWith s x).out = countFirst s.out := by
  cases x with
  | some st => exact errorReply_past s st
  | none => exact ⟨⟨by simp [refuseWith], by simp [refuseWith], by simp [refuseWith]⟩, countFirst_cons _ _ rfl⟩

theorem bodyStep_past (lvl : Int) (s s' : St) (h : bodyStep lvl s = some s') (hs : s.state = .bodyReceiving) :
    PastFirst s' ∧ countFirst s'.out = countFirst s.out := by
  unfold bodyStep at h
  split at h
  · split at h
    · cases h
    · cases h; exact ⟨⟨by simp [hs], by simp [hs], by simp [hs]⟩, rfl⟩
    · cases h; exact ⟨⟨by simp [hs], by simp [hs], by simp [hs]⟩, countFirst_emitUpload _ _⟩
    · split at h <;> cases h
      · exact ⟨⟨by simp, by simp, by simp⟩, rfl⟩
      · exact ⟨⟨by simp [hs], by simp [hs], by simp [hs]⟩, rfl⟩
    · cases h; exact errorReply_past s _
  · split at h
    · cases h
    · cases h
      split
      · exact ⟨⟨by simp, by simp, by simp⟩, countFirst_emitUpload _ _⟩
      · exact ⟨⟨by simp [hs], by simp [hs], by simp [hs]⟩, countFirst_emitUpload _ _⟩

theorem step_past (lvl : Int) (app : App) (s s' : St) (h : idleStep lvl app s = some s')
    (j : NoReparse s) (p : PastFirst s) : PastFirst s' ∧ countFirst s'.out = countFirst s.out := by
  obtain ⟨wf, t, _⟩ := j
  obtain ⟨p1, p2, p3⟩ := p
  unfold idleStep at h
  split at h
  · rename_i hs; exact absurd hs p1
  · rename_i hs; exact absurd hs p2
  · rename_i hs; exact absurd hs p3
  · cases h; exact ⟨⟨by simp, by simp, by simp⟩, rfl⟩
  · rename_i hs
    split at h
    · cases h; exact ⟨⟨by simp, by simp, by simp⟩, rfl⟩
    · exact bodyStep_past lvl s s' h hs
  · cases h; refine ⟨⟨?_, ?_, ?_⟩, rfl⟩ <;> (simp only; split <;> simp)
  · split at h
    · cases h
    · cases h; exact ⟨⟨by simp, by simp, by simp⟩, rfl⟩
    · cases h; exact refuseWith_past s _
    · cases h; exact ⟨⟨by simp, by simp, by simp⟩, rfl⟩
  · cases h; exact ⟨⟨by simp, by simp, by simp⟩, rfl⟩
  · split at h
    · cases h; exact ⟨⟨by simp, by simp, by simp⟩, countFirst_cons _ _ rfl⟩
    · cases h
  · split at h
    · cases h
    · cases h; exact ⟨⟨by simp, by simp, by simp⟩, countFirst_cons _ _ rfl⟩
  · cases h
    have hnr : (s.keepalive == KA.use && !s.readClosed && !s.discard) = false := by
      rcases t with t | t | t
      · simp [t]
      · simp [wf t]
      · simp [t]
    rw [hnr]
    simp only [connReset]
    exact ⟨⟨by simp, by simp, by simp⟩, countFirst_cons _ _ rfl⟩
  · cases h
  · cases h

theorem reach_past (lvl : Int) (s s' : St) (h : Reach lvl s s') (j : NoReparse s) (p : PastFirst s) :
    NoReparse s' ∧ PastFirst s' ∧ countFirst s'.out = countFirst s.out := by
  induction h with
  | refl => exact ⟨j, p, rfl⟩
  | tail _ ht ih =>
    obtain ⟨j', p', c'⟩ := ih
    cases ht with
    | step app hstep =>
      have := step_past lvl app _ _ hstep j' p'
      exact ⟨step_noReparse lvl app _ _ hstep j', this.1, this.2.trans c'⟩
    | recv b => exact ⟨noReparse_of_flags _ _ j' rfl rfl rfl j'.2.2, p', c'⟩

/-! the functions of the model only ever make `Trans` moves -/

theorem Reach.trans {lvl : Int} {s t u : St} (h1 : Reach lvl s t) (h2 : Reach lvl t u) : Reach lvl s u := by
  induction h2 with
  | refl => exact h1
  | tail _ ht ih => exact Reach.tail ih ht

theorem reach_idleFuel (lvl : Int) (app : App) (n : Nat) (s : St) : Reach lvl s (idleFuel lvl app n s) := by
  induction n generalizing s with
  | zero => exact Reach.refl s
  | succ n ih =>
    unfold idleFuel
    split
    · exact Reach.refl s
    · rename_i s' h
      exact Reach.trans (Reach.tail (Reach.refl s) (Trans.step app h)) (ih s')

theorem reach_feed (lvl : Int) (app : App) (s : St) (b : Bytes) : Reach lvl s (feed lvl app s b) := by
  unfold feed
  split
  · exact Reach.refl s
  · exact Reach.trans (Reach.tail (Reach.refl s) (Trans.recv s b)) (reach_idleFuel lvl app _ _)

theorem reach_foldl_feed (lvl : Int) (app : App) (segs : List Bytes) (s : St) :
    Reach lvl s (segs.foldl (feed lvl app) s) := by
  induction segs generalizing s with
  | nil => exact Reach.refl s
  | cons b t ih => exact Reach.trans (reach_feed lvl app s b) (ih _)

/-! `FlagsWF` holds in every reachable state -/

theorem flagsWF_of (s s' : St) (wf : FlagsWF s) (hd : s'.discard = s.discard ∨ s'.discard = true)
    (he : s'.stopErr = s.stopErr) : FlagsWF s' := by
  unfold FlagsWF at *
  rw [he]; intro h
  cases hd with
  | inl hd => rw [hd]; exact wf h
  | inr hd => exact hd

theorem step_flagsWF (lvl : Int) (app : App) (s s' : St) (h : idleStep lvl app s = some s')
    (wf : FlagsWF s) : FlagsWF s' := by
  unfold idleStep at h
  split at h
  · split at h
    · cases h
    · cases h; exact flagsWF_of s _ wf (Or.inl rfl) rfl
    · cases h; exact refuseWith_flagsWF s _ wf
    · cases h; exact flagsWF_of s _ wf (Or.inl rfl) rfl
  · split at h <;> cases h
    · exact (errorReply_props s _ wf).1
    · exact flagsWF_of s _ wf (Or.inl rfl) rfl
    · exact flagsWF_of s _ wf (Or.inl rfl) rfl
    · exact flagsWF_of s _ wf (Or.inl rfl) rfl
  · split at h <;> cases h
    · exact flagsWF_of s _ wf (Or.inl rfl) rfl
    · exact flagsWF_of s _ wf (Or.inr rfl) rfl
    · exact flagsWF_of s _ wf (Or.inl rfl) rfl
  · cases h; exact flagsWF_of s _ wf (Or.inl rfl) rfl
  · split at h
    · cases h; exact flagsWF_of s _ wf (Or.inl rfl) rfl
    · unfold bodyStep at h
      split at h
      · split at h
        · cases h
        · cases h; exact flagsWF_of s _ wf (Or.inl rfl) rfl
        · cases h; exact flagsWF_of s _ wf (Or.inl rfl) rfl
        · split at h <;> cases h <;> exact flagsWF_of s _ wf (Or.inl rfl) rfl
        · cases h; exact (errorReply_props s _ wf).1
      · split at h
        · cases h
        · cases h; split <;> exact flagsWF_of s _ wf (Or.inl rfl) rfl
  · cases h; exact flagsWF_of s _ wf (Or.inl rfl) rfl
  · split at h
    · cases h
    · cases h; exact flagsWF_of s _ wf (Or.inl rfl) rfl
    · cases h; exact refuseWith_flagsWF s _ wf
    · cases h; exact flagsWF_of s _ wf (Or.inl rfl) rfl
  · cases h; exact flagsWF_of s _ wf (Or.inl rfl) rfl
  · split at h
    · cases h; exact flagsWF_of s _ wf (Or.inl rfl) rfl
    · cases h
  · split at h
    · cases h
    · cases h; exact flagsWF_of s _ wf (Or.inl rfl) rfl
  · cases h
    unfold connReset
    split
    · intro h; cases h
    · exact flagsWF_of s _ wf (Or.inl rfl) rfl
  · cases h
  · cases h

theorem reach_flagsWF (lvl : Int) (s s' : St) (h : Reach lvl s s') (wf : FlagsWF s) : FlagsWF s' := by
  induction h with
  | refl => exact wf
  | tail _ ht ih =>
    cases ht with
    | step app hstep => exact step_flagsWF lvl app _ _ hstep ih
    | recv b => exact flagsWF_of _ _ ih (Or.inl rfl) rfl

theorem flagsWF_init : FlagsWF {} := by intro h; cases h
end Mhd.Framing
