/-
  C12 proofs, allocation failure (`Mhd.Model.DauthAlloc`: `checkInnerA fails …`, `fails = true` = every `malloc`
  of the check returns NULL).

    (a) `checkInnerA_false` …        `fails = false` is the model of `Mhd.Model.Dauth` (all C12 theorems apply)
    (b) `checkInnerA_true_cases`     for all inputs the failing run answers as the succeeding run, or stops with
                                     `MHD_DAUTH_ERROR` (before `check_nonce_nc`: table untouched; after: same table)
    (c) `checkInnerA_no_overflow`    no write beyond `hash1_bin[]` / `tmp1[]` whatever `malloc` does
    (d) `checkInnerA_true_ok_iff`    failing run OK  iff  succeeding run OK and no buffer request exceeds `tmp1[128]`
        `needsHeap_error`            accepted credential that needs the heap -> `MHD_DAUTH_ERROR`
        `checkInnerA_small`          no request above 128 bytes -> `malloc` is not called, outcome irrelevant
-/
import Mhd.Model.DauthAlloc
import Mhd.Proofs.DauthSafe
import Mhd.Proofs.DauthStages
import Mhd.Proofs.DauthEx
namespace Mhd.Dauth
open Mhd.Auth Mhd.Gen.Auth Mhd.Gen.Dauth

/-! ### (b) when every `malloc` fails: the same answer, or `MHD_DAUTH_ERROR` -/

/-- `x` (the run in which `malloc` fails) goes as `y` (the run in which it succeeds) or stops with `MHD_DAUTH_ERROR` -/
def FailRel {α : Type} (x y : Except Res α) : Prop := x = y ∨ x = .error .error

theorem FailRel.same {α : Type} (x : Except Res α) : FailRel x x := Or.inl rfl

theorem FailRel.bind {α β : Type} {x y : Except Res α} {f g : α → Except Res β}
    (h : FailRel x y) (hf : ∀ a, FailRel (f a) (g a)) : FailRel (x >>= f) (y >>= g) := by
  rcases h with h | h
  · subst h
    cases x with
    | error e => exact Or.inl rfl
    | ok a => exact hf a
  · subst h; exact Or.inr rfl

theorem getUnqA_rel (p : Param) : FailRel (getUnqA true p) (getUnq p) := by
  unfold getUnqA getUnq
  by_cases hq : (!p.quoted) = true
  · simp only [hq, if_true]; exact .same _
  · simp only [hq]
    by_cases hb : noBufferA true p.raw.length = true
    · simp only [hb, if_true]; exact Or.inr rfl
    · have : noBuffer p.raw.length = false := by
        simp only [noBufferA, noBuffer, decide_eq_true_eq, decide_eq_false_iff_not] at hb ⊢
        intro h; exact hb ⟨h.1, Or.inl h.2⟩
      simp only [hb, this]; exact .same _

theorem stageUsernameA_rel (a : Algo) (call : Call) (d : DAuth) :
    FailRel (stageUsernameA true a call d) (stageUsername a call d) := by
  unfold stageUsernameA stageUsername
  by_cases hu : (!d.userhash) = true
  · simp only [hu, if_true]
    cases d.slots kUsername with
    | some u => exact .same _
    | none =>
      simp only
      refine (FailRel.same _).bind fun e => ?_
      by_cases hb : noBufferA true (e.raw.length + 1 - extMinLen) = true
      · by_cases hm : maxParam < e.raw.length + 1 - extMinLen
        · have : noBuffer (e.raw.length + 1 - extMinLen) = true := by
            simp only [noBufferA, noBuffer, decide_eq_true_eq] at hb ⊢
            exact ⟨hb.1, hm⟩
          simp only [hb, hm, this, if_true]; exact .same _
        · simp only [hb, hm, if_true, if_false]; exact Or.inr rfl
      · have : noBuffer (e.raw.length + 1 - extMinLen) = false := by
          simp only [noBufferA, noBuffer, decide_eq_true_eq, decide_eq_false_iff_not] at hb ⊢
          intro h; exact hb ⟨h.1, Or.inl h.2⟩
        simp only [hb, this]; exact .same _
  · simp only [hu]; exact .same _

theorem stageNcA_rel (m : Nat) (d : DAuth) : FailRel (stageNcA true m d) (stageNc m d) := by
  unfold stageNcA stageNc
  by_cases hq : d.qop ≠ qopNone
  · rw [if_pos hq, if_pos hq]
    exact (FailRel.same _).bind fun p => (getUnqA_rel p).bind fun txt => .same _
  · rw [if_neg hq, if_neg hq]; exact .same _

theorem stageNonceA_rel (a : Algo) (now t : Nat) (d : DAuth) :
    FailRel (stageNonceA true a now t d) (stageNonce a now t d) := by
  unfold stageNonceA stageNonce
  exact (FailRel.same _).bind fun p => (getUnqA_rel p).bind fun n => .same _

theorem stagePreA_rel (now t m : Nat) (call : Call) (d : DAuth) :
    FailRel (stagePreA true now t m call d) (stagePre now t m call d) := by
  unfold stagePreA stagePre
  exact (FailRel.same _).bind fun a => (FailRel.same _).bind fun _ => (FailRel.same _).bind fun _ =>
    (FailRel.same _).bind fun _ => (stageUsernameA_rel a call d).bind fun _ => (stageNcA_rel m d).bind fun _ =>
    (stageNonceA_rel a now t d).bind fun _ => .same _

theorem stageUriA_rel (cfg : Cfg) (r : Req) (d : DAuth) : FailRel (stageUriA true cfg r d) (stageUri cfg r d) := by
  unfold stageUriA stageUri
  refine (FailRel.same _).bind fun p => ?_
  by_cases hb : noBufferA true (p.raw.length + 1) = true
  · simp only [hb, if_true]; exact Or.inr rfl
  · have : noBuffer (p.raw.length + 1) = false := by
      simp only [noBufferA, noBuffer, decide_eq_true_eq, decide_eq_false_iff_not] at hb ⊢
      intro h; exact hb ⟨h.1, Or.inl h.2⟩
    simp only [hb, this]; exact .same _

theorem needUnqA_rel (o : Option Param) : FailRel ((need o).bind (getUnqA true)) ((need o).bind getUnq) :=
  (FailRel.same (need o)).bind getUnqA_rel

theorem qopPartA_rel (d : DAuth) : FailRel (qopPartA true d) (qopPart d) := by
  unfold qopPartA qopPart
  by_cases hq : d.qop ≠ qopNone
  · rw [if_pos hq, if_pos hq]
    exact (needUnqA_rel _).bind fun _ => (needUnqA_rel _).bind fun _ => (needUnqA_rel _).bind fun _ => .same _
  · rw [if_neg hq, if_neg hq]; exact .same _

theorem stageResponseA_rel (a : Algo) (r : Req) (call : Call) (d : DAuth) (uri : Bytes) :
    FailRel (stageResponseA true a r call d uri) (stageResponse a r call d uri) := by
  unfold stageResponseA stageResponse
  refine (FailRel.same _).bind fun h1 => (FailRel.same _).bind fun rp => (getUnqA_rel rp).bind fun resp => ?_
  by_cases c1 : a.size * 2 < resp.length
  · simp only [c1, if_true]; exact .same _
  · simp only [c1, if_false]
    by_cases c2 : maxDigest < (resp.length + 1) / 2
    · simp only [c2, if_true]; exact .same _
    · simp only [c2, if_false]
      cases hexToBin resp with
      | none => exact .same _
      | some bin =>
        simp only
        by_cases c3 : bin.length ≠ a.size
        · rw [if_pos c3, if_pos c3]; exact .same _
        · rw [if_neg c3, if_neg c3]
          exact (FailRel.same _).bind fun np => (getUnqA_rel np).bind fun _ => (qopPartA_rel d).bind fun _ => .same _

/-! ### (a) when every `malloc` succeeds the model is the model of `Mhd.Model.Dauth` -/

theorem noBufferA_false (n : Nat) : noBufferA false n = noBuffer n := by
  simp [noBufferA, noBuffer]

theorem getUnqA_false : getUnqA false = getUnq := by
  funext p; simp only [getUnqA, getUnq, noBufferA_false]

theorem stageUsernameA_false (a : Algo) (call : Call) (d : DAuth) :
    stageUsernameA false a call d = stageUsername a call d := by
  unfold stageUsernameA stageUsername
  by_cases hu : (!d.userhash) = true
  · simp only [hu, if_true]
    cases d.slots kUsername with
    | some u => rfl
    | none =>
      simp only
      cases need (d.slots kUsernameExt) with
      | error e => rfl
      | ok e =>
        simp only [bind, Except.bind, noBufferA_false]
        by_cases hb : noBuffer (e.raw.length + 1 - extMinLen) = true
        · have : maxParam < e.raw.length + 1 - extMinLen := by
            simp only [noBuffer, decide_eq_true_eq] at hb; exact hb.2
          simp only [hb, if_true, this]
        · simp only [hb]; rfl
  · simp only [hu]; rfl

theorem stageNcA_false (m : Nat) (d : DAuth) : stageNcA false m d = stageNc m d := by
  simp only [stageNcA, stageNc, getUnqA_false] <;> rfl

theorem stageNonceA_false (a : Algo) (now t : Nat) (d : DAuth) : stageNonceA false a now t d = stageNonce a now t d := by
  simp only [stageNonceA, stageNonce, getUnqA_false] <;> rfl

theorem stagePreA_false (now t m : Nat) (call : Call) (d : DAuth) : stagePreA false now t m call d = stagePre now t m call d := by
  simp only [stagePreA, stagePre, stageUsernameA_false, stageNcA_false, stageNonceA_false] <;> rfl

theorem stageUriA_false (cfg : Cfg) (r : Req) (d : DAuth) : stageUriA false cfg r d = stageUri cfg r d := by
  simp only [stageUriA, stageUri, noBufferA_false] <;> rfl

theorem qopPartA_false (d : DAuth) : qopPartA false d = qopPart d := by
  simp only [qopPartA, qopPart, getUnqA_false] <;> rfl

theorem stageResponseA_false (a : Algo) (r : Req) (call : Call) (d : DAuth) (uri : Bytes) :
    stageResponseA false a r call d uri = stageResponse a r call d uri := by
  simp only [stageResponseA, stageResponse, getUnqA_false, qopPartA_false] <;> rfl

theorem stagePostA_false (cfg : Cfg) (r : Req) (call : Call) (d : DAuth) (a : Algo) (t : Nat) :
    stagePostA false cfg r call d a t = stagePost cfg r call d a t := by
  simp only [stagePostA, stagePost, stageUriA_false, stageResponseA_false] <;> rfl

theorem checkInnerA_false (cfg : Cfg) (tbl : Mhd.Nonce.Table) (now : Nat) (r : Req) (call : Call) (timeout maxNc : Nat)
    (p : Option DAuth) : checkInnerA false cfg tbl now r call timeout maxNc p = checkInner cfg tbl now r call timeout maxNc p := by
  simp only [checkInnerA, checkInner, stagePreA_false, stagePostA_false] <;> rfl

theorem checkAllA_false (cfg : Cfg) (tbl : Mhd.Nonce.Table) (now : Nat) (r : Req) (call : Call) :
    checkAllA false cfg tbl now r call = checkAll cfg tbl now r call := by
  simp only [checkAllA, checkAll, checkInnerA_false] <;> rfl

theorem digestCheckA_false (cfg : Cfg) (tbl : Mhd.Nonce.Table) (now : Nat) (r : Req) (call : Call) :
    digestCheckA false cfg tbl now r call = digestCheck cfg tbl now r call := by
  simp only [digestCheckA, digestCheck, checkAllA_false] <;> rfl

theorem legacyCheckA_false (cfg : Cfg) (tbl : Mhd.Nonce.Table) (now : Nat) (r : Req) (realm username : Bytes) (secret : Secret)
    (nonceTimeout algo : Nat) :
    legacyCheckA false cfg tbl now r realm username secret nonceTimeout algo =
      legacyCheck cfg tbl now r realm username secret nonceTimeout algo := by
  simp only [legacyCheckA, legacyCheck, digestCheckA_false] <;> rfl


theorem stagePostA_rel (cfg : Cfg) (r : Req) (call : Call) (d : DAuth) (a : Algo) (t : Nat) :
    stagePostA true cfg r call d a t = stagePost cfg r call d a t ∨ stagePostA true cfg r call d a t = .error := by
  have h : FailRel (do
      let uri ← stageUriA true cfg r d
      stageResponseA true a r call d uri
      stageBind cfg a r call d t : Except Res Unit) (do
      let uri ← stageUri cfg r d
      stageResponse a r call d uri
      stageBind cfg a r call d t : Except Res Unit) :=
    (stageUriA_rel cfg r d).bind fun uri => (stageResponseA_rel a r call d uri).bind fun _ => .same _
  unfold stagePostA stagePost
  rcases h with h | h
  · rw [h]; exact Or.inl rfl
  · rw [h]; exact Or.inr rfl

/-- The run in which every `malloc` fails, for ALL inputs: it answers exactly as the run in which `malloc`
    succeeds, or it stops with `MHD_DAUTH_ERROR` before `check_nonce_nc` (nonce table untouched), or it stops
    with `MHD_DAUTH_ERROR` after `check_nonce_nc` (the table is then the table of the succeeding run). -/
theorem checkInnerA_true_cases (cfg : Cfg) (tbl : Mhd.Nonce.Table) (now : Nat) (r : Req) (call : Call) (timeout maxNc : Nat)
    (p : Option DAuth) :
    checkInnerA true cfg tbl now r call timeout maxNc p = checkInner cfg tbl now r call timeout maxNc p
    ∨ checkInnerA true cfg tbl now r call timeout maxNc p = (tbl, .error)
    ∨ checkInnerA true cfg tbl now r call timeout maxNc p = ((checkInner cfg tbl now r call timeout maxNc p).1, .error) := by
  cases p with
  | none => exact Or.inl rfl
  | some d =>
    unfold checkInnerA checkInner
    simp only
    rcases stagePreA_rel now timeout maxNc call d with h | h
    · rw [h]
      cases stagePre now timeout maxNc call d with
      | error e => exact Or.inl rfl
      | ok x =>
        obtain ⟨a, nci, n, t⟩ := x
        simp only
        cases hc : (Mhd.Nonce.checkNonceNc tbl n t nci).2 with
        | ok =>
          simp only
          rcases stagePostA_rel cfg r call d a t with h2 | h2
          · rw [h2]; exact Or.inl rfl
          · rw [h2]; exact Or.inr (Or.inr rfl)
        | stale => exact Or.inl rfl
        | wrong => exact Or.inl rfl
        | fault => exact Or.inl rfl
    · rw [h]; exact Or.inr (Or.inl rfl)

theorem checkInnerA_true_class (cfg : Cfg) (tbl : Mhd.Nonce.Table) (now : Nat) (r : Req) (call : Call) (timeout maxNc : Nat)
    (p : Option DAuth) :
    (checkInnerA true cfg tbl now r call timeout maxNc p).2 = (checkInner cfg tbl now r call timeout maxNc p).2
    ∨ (checkInnerA true cfg tbl now r call timeout maxNc p).2 = .error := by
  rcases checkInnerA_true_cases cfg tbl now r call timeout maxNc p with h | h | h
  · exact Or.inl (by rw [h])
  · exact Or.inr (by rw [h])
  · exact Or.inr (by rw [h])

theorem checkInnerA_true_table (cfg : Cfg) (tbl : Mhd.Nonce.Table) (now : Nat) (r : Req) (call : Call) (timeout maxNc : Nat)
    (p : Option DAuth) :
    (checkInnerA true cfg tbl now r call timeout maxNc p).1 = tbl
    ∨ (checkInnerA true cfg tbl now r call timeout maxNc p).1 = (checkInner cfg tbl now r call timeout maxNc p).1 := by
  rcases checkInnerA_true_cases cfg tbl now r call timeout maxNc p with h | h | h
  · exact Or.inr (by rw [h])
  · exact Or.inl (by rw [h])
  · exact Or.inr (by rw [h])

/-- whatever `malloc` does, the check never writes beyond `hash1_bin[]` or `tmp1[]` -/
theorem checkInnerA_no_overflow (fails : Bool) (cfg : Cfg) (tbl : Mhd.Nonce.Table) (now : Nat) (r : Req) (call : Call)
    (timeout maxNc : Nat) (p : Option DAuth) : ¬ Overflow (checkInnerA fails cfg tbl now r call timeout maxNc p).2 := by
  cases fails with
  | false => rw [checkInnerA_false]; exact checkInner_no_overflow _ _ _ _ _ _ _ _
  | true =>
    rcases checkInnerA_true_class cfg tbl now r call timeout maxNc p with h | h
    · rw [h]; exact checkInner_no_overflow _ _ _ _ _ _ _ _
    · rw [h]; simp [Overflow]

/-! ### the same for the functions above `digest_auth_check_all_inner` -/

theorem checkAllA_true_class (cfg : Cfg) (tbl : Mhd.Nonce.Table) (now : Nat) (r : Req) (call : Call) :
    (checkAllA true cfg tbl now r call).2 = (checkAll cfg tbl now r call).2 ∨ (checkAllA true cfg tbl now r call).2 = .error := by
  unfold checkAllA checkAll
  simp only
  cases getParams r with
  | error e => exact Or.inl rfl
  | ok params => exact checkInnerA_true_class _ _ _ _ _ _ _ _

theorem digestCheckA_true_class (cfg : Cfg) (tbl : Mhd.Nonce.Table) (now : Nat) (r : Req) (call : Call) :
    (digestCheckA true cfg tbl now r call).2 = (digestCheck cfg tbl now r call).2
    ∨ (digestCheckA true cfg tbl now r call).2 = .error := by
  unfold digestCheckA digestCheck
  cases call.secret with
  | password _ => exact checkAllA_true_class _ _ _ _ _
  | userdigest dg =>
    simp only
    by_cases h1 : bit call.malgo3 baseMd5 + bit call.malgo3 baseSha256 + bit call.malgo3 baseSha512 ≠ 1
    · rw [if_pos h1, if_pos h1]; exact Or.inl rfl
    · rw [if_neg h1, if_neg h1]
      by_cases h2 : hashSizeOf call.malgo3 ≠ dg.length
      · rw [if_pos h2, if_pos h2]; exact Or.inl rfl
      · rw [if_neg h2, if_neg h2]; exact checkAllA_true_class _ _ _ _ _

/-- the deprecated functions: same answer, or `MHD_NO` -/
theorem legacyCheckA_true_class (cfg : Cfg) (tbl : Mhd.Nonce.Table) (now : Nat) (r : Req) (realm username : Bytes)
    (secret : Secret) (nonceTimeout algo : Nat) :
    (legacyCheckA true cfg tbl now r realm username secret nonceTimeout algo).2 =
        (legacyCheck cfg tbl now r realm username secret nonceTimeout algo).2
    ∨ (legacyCheckA true cfg tbl now r realm username secret nonceTimeout algo).2 = .no := by
  unfold legacyCheckA legacyCheck
  cases legacyMalgo algo with
  | none => exact Or.inl rfl
  | some m =>
    simp only
    rcases digestCheckA_true_class cfg tbl now r ⟨realm, username, secret, nonceTimeout, 0, mqopAuth, m⟩ with h | h
    · rw [h]; exact Or.inl rfl
    · rw [h]; exact Or.inr rfl


/-! ### (e) a credential that needs the heap is never accepted when `malloc` fails -/

theorem exBind_ok {α β : Type} {x : Except Res α} {f : α → Except Res β} {b : β} (h : (x >>= f) = .ok b) :
    ∃ a, x = .ok a ∧ f a = .ok b := by
  cases x with
  | error e => cases h
  | ok a => exact ⟨a, rfl, h⟩

theorem need_ok {o : Option Param} {p : Param} (h : need o = .ok p) : o = some p := by
  cases o with
  | none => cases h
  | some q => simp only [need] at h; injection h with h; rw [h]

theorem need_nook (o : Option Param) : NoOkErr (need o) := by unfold need; nook

theorem getUnqA_nook (fails : Bool) (p : Param) : NoOkErr (getUnqA fails p) := by unfold getUnqA; nook

theorem getUnqA_true_ok {p : Param} {v : Bytes} (h : getUnqA true p = .ok v) : ¬ tmp1Size < reqOf (some p) := by
  unfold getUnqA at h
  simp only [reqOf]
  cases hq : p.quoted with
  | false => simp [tmp1Size]
  | true =>
    simp only [hq, Bool.not_true, Bool.false_eq_true, if_false, if_true] at h ⊢
    by_cases hb : noBufferA true p.raw.length = true
    · rw [if_pos hb] at h; cases h
    · simp only [noBufferA, decide_eq_true_eq] at hb
      intro hl; exact hb ⟨hl, Or.inr (by first | rfl | trivial)⟩

theorem needUnqA_true_ok {o : Option Param} {v : Bytes} (h : (need o).bind (getUnqA true) = .ok v) :
    ¬ tmp1Size < reqOf o := by
  obtain ⟨p, hp, hv⟩ := exBind_ok (f := getUnqA true) h
  rw [need_ok hp]; exact getUnqA_true_ok hv

theorem stageRealm_nook (call : Call) (d : DAuth) : NoOkErr (stageRealm call d) := by
  unfold stageRealm
  exact (need_nook _).bind fun p => by nook

theorem stageUsernameA_nook (fails : Bool) (a : Algo) (call : Call) (d : DAuth) : NoOkErr (stageUsernameA fails a call d) := by
  unfold stageUsernameA
  split
  · split
    · nook
    · exact (need_nook _).bind fun e => by nook
  · exact (need_nook _).bind fun u => by nook

theorem stageNcA_nook (fails : Bool) (m : Nat) (d : DAuth) : NoOkErr (stageNcA fails m d) := by
  unfold stageNcA
  split
  · exact (need_nook _).bind fun p => (getUnqA_nook fails p).bind fun txt => by nook
  · exact noOk_ok _

theorem stageNonceA_nook (fails : Bool) (a : Algo) (now t : Nat) (d : DAuth) : NoOkErr (stageNonceA fails a now t d) := by
  unfold stageNonceA
  exact (need_nook _).bind fun p => (getUnqA_nook fails p).bind fun n => by nook

theorem stagePreA_nook (fails : Bool) (now timeout maxNc : Nat) (call : Call) (d : DAuth) :
    NoOkErr (stagePreA fails now timeout maxNc call d) := by
  unfold stagePreA stageAlgo stageQop stagePresence
  exact (stageAlgoN_nook _ _).bind fun a => (stageQopN_nook _ _).bind fun _ => (presenceV_nook _ _ _ _ _).bind fun _ =>
    (stageRealm_nook _ _).bind fun _ => (stageUsernameA_nook _ _ _ _).bind fun _ => (stageNcA_nook _ _ _).bind fun _ =>
    (stageNonceA_nook _ _ _ _ _).bind fun _ => noOk_ok _

theorem stageUriA_nook (fails : Bool) (cfg : Cfg) (r : Req) (d : DAuth) : NoOkErr (stageUriA fails cfg r d) := by
  unfold stageUriA
  refine (need_nook _).bind fun p => ?_
  split
  · exact noOk_err _ (by simp)
  · simp only
    generalize (if p.quoted = true then unquote p.raw else p.raw) = uri
    split
    · exact noOk_ok _
    · exact noOk_err _ (by simp)

theorem qopPartA_nook (fails : Bool) (d : DAuth) : NoOkErr (qopPartA fails d) := by
  unfold qopPartA
  split
  · exact ((need_nook _).bind (getUnqA_nook fails)).bind fun _ => ((need_nook _).bind (getUnqA_nook fails)).bind fun _ =>
      ((need_nook _).bind (getUnqA_nook fails)).bind fun _ => noOk_ok _
  · exact noOk_ok _

theorem stageResponseA_nook (fails : Bool) (a : Algo) (r : Req) (call : Call) (d : DAuth) (uri : Bytes) :
    NoOkErr (stageResponseA fails a r call d uri) := by
  unfold stageResponseA
  refine (ha1Hex_nook _ _).bind fun h1 => (need_nook _).bind fun rp => (getUnqA_nook fails rp).bind fun resp => ?_
  split
  · exact noOk_err _ (by simp)
  · split
    · exact noOk_err _ (by simp)
    · split
      · exact noOk_err _ (by simp)
      · split
        · exact noOk_err _ (by simp)
        · exact (need_nook _).bind fun np => (getUnqA_nook fails np).bind fun _ => (qopPartA_nook fails d).bind fun _ => by nook

theorem stageBind_nook (cfg : Cfg) (a : Algo) (r : Req) (call : Call) (d : DAuth) (t : Nat) :
    NoOkErr (stageBind cfg a r call d t) := by
  unfold stageBind
  split
  · split
    · exact noOk_err _ (by simp)
    · split
      · exact noOk_err _ (by simp)
      · exact (need_nook _).bind fun _ => by nook
  · exact noOk_ok _

theorem stageUsernameA_true_ok {a : Algo} {call : Call} {d : DAuth} (h : stageUsernameA true a call d = .ok ()) :
    ¬ tmp1Size < reqExt d := by
  unfold stageUsernameA at h
  unfold reqExt
  by_cases hu : (!d.userhash) = true
  · rw [if_pos hu] at h
    cases hs : d.slots kUsername with
    | some u => simp [tmp1Size]
    | none =>
      rw [hs] at h
      simp only at h
      obtain ⟨e, he, h2⟩ := exBind_ok h
      rw [need_ok he]
      simp only [hu, true_and, if_true]
      by_cases hb : noBufferA true (e.raw.length + 1 - extMinLen) = true
      · rw [if_pos hb] at h2; split at h2 <;> cases h2
      · simp only [noBufferA, decide_eq_true_eq] at hb
        intro hl; exact hb ⟨hl, Or.inr (by first | rfl | trivial)⟩
  · simp [hu, tmp1Size]

theorem stageNcA_true_ok {m : Nat} {d : DAuth} {n : Nat} (hq : d.qop ≠ qopNone) (h : stageNcA true m d = .ok n) :
    ¬ tmp1Size < reqOf (d.slots kNc) := by
  unfold stageNcA at h
  rw [if_pos hq] at h
  obtain ⟨p, hp, h2⟩ := exBind_ok h
  obtain ⟨txt, ht, _⟩ := exBind_ok h2
  rw [need_ok hp]; exact getUnqA_true_ok ht

theorem stageNonceA_true_ok {a : Algo} {now t : Nat} {d : DAuth} {x : Bytes × Nat} (h : stageNonceA true a now t d = .ok x) :
    ¬ tmp1Size < reqOf (d.slots kNonce) := by
  unfold stageNonceA at h
  obtain ⟨p, hp, h2⟩ := exBind_ok h
  obtain ⟨txt, ht, _⟩ := exBind_ok h2
  rw [need_ok hp]; exact getUnqA_true_ok ht

theorem stageUriA_true_ok {cfg : Cfg} {r : Req} {d : DAuth} {u : Bytes} (h : stageUriA true cfg r d = .ok u) :
    ¬ tmp1Size < reqCopy (d.slots kUri) := by
  unfold stageUriA at h
  obtain ⟨p, hp, h2⟩ := exBind_ok h
  rw [need_ok hp]
  simp only [reqCopy]
  by_cases hb : noBufferA true (p.raw.length + 1) = true
  · rw [if_pos hb] at h2; cases h2
  · simp only [noBufferA, decide_eq_true_eq] at hb
    intro hl; exact hb ⟨hl, Or.inr (by first | rfl | trivial)⟩

theorem qopPartA_true_ok {d : DAuth} {mid : Bytes} (hq : d.qop ≠ qopNone) (h : qopPartA true d = .ok mid) :
    ¬ tmp1Size < reqOf (d.slots kCnonce) ∧ ¬ tmp1Size < reqOf (d.slots kQop) := by
  unfold qopPartA at h
  rw [if_pos hq] at h
  obtain ⟨nc, _, h2⟩ := exBind_ok h
  obtain ⟨cn, hcn, h3⟩ := exBind_ok h2
  obtain ⟨q, hq', _⟩ := exBind_ok h3
  exact ⟨needUnqA_true_ok hcn, needUnqA_true_ok hq'⟩

theorem stageResponseA_true_ok {a : Algo} {r : Req} {call : Call} {d : DAuth} {uri : Bytes}
    (h : stageResponseA true a r call d uri = .ok ()) :
    ¬ tmp1Size < reqOf (d.slots kResponse) ∧
      (d.qop ≠ qopNone → ¬ tmp1Size < reqOf (d.slots kCnonce) ∧ ¬ tmp1Size < reqOf (d.slots kQop)) := by
  unfold stageResponseA at h
  simp only at h
  obtain ⟨h1, _, h2⟩ := exBind_ok h
  obtain ⟨rp, hrp, h3⟩ := exBind_ok h2
  obtain ⟨resp, hresp, h4⟩ := exBind_ok h3
  refine ⟨by rw [need_ok hrp]; exact getUnqA_true_ok hresp, fun hq => ?_⟩
  split at h4
  · cases h4
  · split at h4
    · cases h4
    · split at h4
      · cases h4
      · split at h4
        · cases h4
        · obtain ⟨np, _, h5⟩ := exBind_ok h4
          obtain ⟨nonce, _, h6⟩ := exBind_ok h5
          obtain ⟨mid, hmid, _⟩ := exBind_ok h6
          exact qopPartA_true_ok hq hmid

/-- when every `malloc` fails, `MHD_DAUTH_OK` is only possible if no buffer request of the accepting path
    exceeds the stack buffer -/
theorem checkInnerA_true_ok_small (cfg : Cfg) (tbl : Mhd.Nonce.Table) (now : Nat) (r : Req) (call : Call) (timeout maxNc : Nat)
    (d : DAuth) (h : (checkInnerA true cfg tbl now r call timeout maxNc (some d)).2 = .ok) : needsHeap d = false := by
  unfold checkInnerA at h
  simp only at h
  cases hS : stagePreA true now timeout maxNc call d with
  | error e => rw [hS] at h; exact absurd h (stagePreA_nook _ _ _ _ _ _ e hS)
  | ok x =>
    obtain ⟨a, nci, n, t⟩ := x
    rw [hS] at h
    simp only at h
    -- the stages before `check_nonce_nc`
    unfold stagePreA at hS
    obtain ⟨a', _, s1⟩ := exBind_ok hS
    obtain ⟨_, _, s2⟩ := exBind_ok s1
    obtain ⟨_, _, s3⟩ := exBind_ok s2
    obtain ⟨_, _, s4⟩ := exBind_ok s3
    obtain ⟨_, hU, s5⟩ := exBind_ok s4
    obtain ⟨nci', hN, s6⟩ := exBind_ok s5
    obtain ⟨nt, hNo, _⟩ := exBind_ok s6
    have fU := stageUsernameA_true_ok hU
    have fNo := stageNonceA_true_ok hNo
    cases hc : (Mhd.Nonce.checkNonceNc tbl n t nci).2 with
    | ok =>
      rw [hc] at h
      simp only at h
      unfold stagePostA at h
      cases hB : (do
          let uri ← stageUriA true cfg r d
          stageResponseA true a r call d uri
          stageBind cfg a r call d t : Except Res Unit) with
      | error e =>
        rw [hB] at h
        have : NoOkErr (do
            let uri ← stageUriA true cfg r d
            stageResponseA true a r call d uri
            stageBind cfg a r call d t : Except Res Unit) :=
          (stageUriA_nook _ _ _ _).bind fun _ => (stageResponseA_nook _ _ _ _ _ _).bind fun _ => stageBind_nook _ _ _ _ _ _
        exact absurd h (this e hB)
      | ok u =>
        obtain ⟨uri, hUri, b2⟩ := exBind_ok hB
        obtain ⟨_, hR, _⟩ := exBind_ok b2
        have fUri := stageUriA_true_ok hUri
        have fR := stageResponseA_true_ok hR
        unfold needsHeap heapRequests
        by_cases hq : d.qop ≠ qopNone
        · have fNc := stageNcA_true_ok hq hN
          have fC := fR.2 hq
          simp [hq, fU, fNc, fNo, fUri, fR.1, fC.1, fC.2]
        · simp [hq, fU, fNo, fUri, fR.1]
    | stale => rw [hc] at h; cases h
    | wrong => rw [hc] at h; cases h
    | fault => rw [hc] at h; cases h

/-- under allocation failure a credential that needs the heap is never accepted -/
theorem needsHeap_never_ok (cfg : Cfg) (tbl : Mhd.Nonce.Table) (now : Nat) (r : Req) (call : Call) (timeout maxNc : Nat)
    (d : DAuth) (hn : needsHeap d = true) : (checkInnerA true cfg tbl now r call timeout maxNc (some d)).2 ≠ .ok := by
  intro h
  rw [checkInnerA_true_ok_small cfg tbl now r call timeout maxNc d h] at hn
  cases hn

/-- … and a credential that is accepted when `malloc` succeeds and needs the heap is answered
    `MHD_DAUTH_ERROR` when `malloc` fails -/
theorem needsHeap_error (cfg : Cfg) (tbl : Mhd.Nonce.Table) (now : Nat) (r : Req) (call : Call) (timeout maxNc : Nat)
    (d : DAuth) (hok : (checkInner cfg tbl now r call timeout maxNc (some d)).2 = .ok) (hn : needsHeap d = true) :
    (checkInnerA true cfg tbl now r call timeout maxNc (some d)).2 = .error := by
  rcases checkInnerA_true_class cfg tbl now r call timeout maxNc (some d) with h | h
  · rw [hok] at h; exact absurd h (needsHeap_never_ok cfg tbl now r call timeout maxNc d hn)
  · exact h

/-! ### conversely: when no request exceeds the stack buffer `malloc` is never called -/

theorem noBufferA_small (fails : Bool) (n : Nat) (h : ¬ tmp1Size < n) : noBufferA fails n = noBuffer n := by
  have h1 : noBufferA fails n = false := by
    simp only [noBufferA, decide_eq_false_iff_not]; intro x; exact h x.1
  have h2 : noBuffer n = false := by
    simp only [noBuffer, decide_eq_false_iff_not]; intro x; exact h x.1
  rw [h1, h2]

theorem getUnqA_small (fails : Bool) (p : Param) (h : ¬ tmp1Size < reqOf (some p)) : getUnqA fails p = getUnq p := by
  unfold getUnqA getUnq
  cases hq : p.quoted with
  | false => rfl
  | true =>
    simp only [reqOf, hq, if_true] at h
    rw [noBufferA_small fails _ h]

theorem needUnqA_small (fails : Bool) (o : Option Param) (h : ¬ tmp1Size < reqOf o) :
    (need o).bind (getUnqA fails) = (need o).bind getUnq := by
  cases o with
  | none => rfl
  | some p => simp only [need, Except.bind]; exact getUnqA_small fails p h

theorem stageUsernameA_small (fails : Bool) (a : Algo) (call : Call) (d : DAuth) (h : ¬ tmp1Size < reqExt d) :
    stageUsernameA fails a call d = stageUsername a call d := by
  unfold stageUsernameA stageUsername
  unfold reqExt at h
  by_cases hu : (!d.userhash) = true
  · rw [if_pos hu, if_pos hu]
    cases hs : d.slots kUsername with
    | some u => rfl
    | none =>
      simp only
      cases he : d.slots kUsernameExt with
      | none => rfl
      | some e =>
        simp only [hu, hs, he, true_and, if_true] at h
        simp only [need, bind, Except.bind, noBufferA_small fails _ h]
        have : noBuffer (e.raw.length + 1 - extMinLen) = false := by
          simp only [noBuffer, decide_eq_false_iff_not]; intro x; exact h x.1
        simp only [this]; rfl
  · rw [if_neg hu, if_neg hu]

theorem stageNcA_small (fails : Bool) (m : Nat) (d : DAuth) (h : d.qop ≠ qopNone → ¬ tmp1Size < reqOf (d.slots kNc)) :
    stageNcA fails m d = stageNc m d := by
  unfold stageNcA stageNc
  by_cases hq : d.qop ≠ qopNone
  · rw [if_pos hq, if_pos hq]
    cases hs : d.slots kNc with
    | none => rfl
    | some p =>
      have := getUnqA_small fails p (by rw [← hs]; exact h hq)
      simp only [need, bind, Except.bind, this] <;> rfl
  · rw [if_neg hq, if_neg hq]

theorem stageNonceA_small (fails : Bool) (a : Algo) (now t : Nat) (d : DAuth) (h : ¬ tmp1Size < reqOf (d.slots kNonce)) :
    stageNonceA fails a now t d = stageNonce a now t d := by
  unfold stageNonceA stageNonce
  cases hs : d.slots kNonce with
  | none => rfl
  | some p =>
    have := getUnqA_small fails p (by rw [← hs]; exact h)
    simp only [need, bind, Except.bind, this] <;> rfl

theorem stageUriA_small (fails : Bool) (cfg : Cfg) (r : Req) (d : DAuth) (h : ¬ tmp1Size < reqCopy (d.slots kUri)) :
    stageUriA fails cfg r d = stageUri cfg r d := by
  unfold stageUriA stageUri
  cases hs : d.slots kUri with
  | none => rfl
  | some p =>
    rw [hs] at h
    simp only [reqCopy] at h
    simp only [need, bind, Except.bind, noBufferA_small fails _ h] <;> rfl

theorem qopPartA_small (fails : Bool) (d : DAuth)
    (h : d.qop ≠ qopNone → ¬ tmp1Size < reqOf (d.slots kNc) ∧ ¬ tmp1Size < reqOf (d.slots kCnonce) ∧ ¬ tmp1Size < reqOf (d.slots kQop)) :
    qopPartA fails d = qopPart d := by
  unfold qopPartA qopPart
  by_cases hq : d.qop ≠ qopNone
  · rw [if_pos hq, if_pos hq, needUnqA_small fails _ (h hq).1, needUnqA_small fails _ (h hq).2.1,
      needUnqA_small fails _ (h hq).2.2]
  · rw [if_neg hq, if_neg hq]

theorem stageResponseA_small (fails : Bool) (a : Algo) (r : Req) (call : Call) (d : DAuth) (uri : Bytes)
    (hr : ¬ tmp1Size < reqOf (d.slots kResponse)) (hn : ¬ tmp1Size < reqOf (d.slots kNonce))
    (h : d.qop ≠ qopNone → ¬ tmp1Size < reqOf (d.slots kNc) ∧ ¬ tmp1Size < reqOf (d.slots kCnonce) ∧ ¬ tmp1Size < reqOf (d.slots kQop)) :
    stageResponseA fails a r call d uri = stageResponse a r call d uri := by
  unfold stageResponseA stageResponse
  rw [qopPartA_small fails d h]
  cases hs : d.slots kResponse with
  | none => rfl
  | some rp =>
    have e1 := getUnqA_small fails rp (by rw [← hs]; exact hr)
    cases hs2 : d.slots kNonce with
    | none => simp only [need, bind, Except.bind, e1] <;> rfl
    | some np =>
      have e2 := getUnqA_small fails np (by rw [← hs2]; exact hn)
      simp only [need, bind, Except.bind, e1, e2] <;> rfl

/-- every buffer request that any run of the check makes is in `heapRequests d`: when none exceeds the stack
    buffer, `malloc` is not called and its outcome does not matter (for every credential, accepted or not) -/
theorem checkInnerA_small (fails : Bool) (cfg : Cfg) (tbl : Mhd.Nonce.Table) (now : Nat) (r : Req) (call : Call)
    (timeout maxNc : Nat) (d : DAuth) (hn : needsHeap d = false) :
    checkInnerA fails cfg tbl now r call timeout maxNc (some d) = checkInner cfg tbl now r call timeout maxNc (some d) := by
  unfold needsHeap heapRequests at hn
  have fQ : d.qop ≠ qopNone → ¬ tmp1Size < reqOf (d.slots kNc) ∧ ¬ tmp1Size < reqOf (d.slots kCnonce)
      ∧ ¬ tmp1Size < reqOf (d.slots kQop) := by
    intro hq; simp [hq] at hn; omega
  have fR : ¬ tmp1Size < reqExt d ∧ ¬ tmp1Size < reqOf (d.slots kNonce) ∧ ¬ tmp1Size < reqCopy (d.slots kUri)
      ∧ ¬ tmp1Size < reqOf (d.slots kResponse) := by
    by_cases hq : d.qop ≠ qopNone
    · simp [hq] at hn; omega
    · simp [hq] at hn; omega
  have ePre : stagePreA fails now timeout maxNc call d = stagePre now timeout maxNc call d := by
    unfold stagePreA stagePre
    simp only [stageNcA_small fails maxNc d (fun hq => (fQ hq).1), stageNonceA_small fails _ now timeout d fR.2.1]
    cases stageAlgo call d with
    | error e => rfl
    | ok a => simp only [bind, Except.bind, stageUsernameA_small fails a call d fR.1]
  have ePost : ∀ a t, stagePostA fails cfg r call d a t = stagePost cfg r call d a t := by
    intro a t
    unfold stagePostA stagePost
    simp only [stageUriA_small fails cfg r d fR.2.2.1, stageResponseA_small fails a r call d _ fR.2.2.2 fR.2.1 fQ] <;> rfl
  unfold checkInnerA checkInner
  simp only [ePre, ePost] <;> rfl

/-- when every `malloc` fails: `MHD_DAUTH_OK` iff the succeeding run answers `MHD_DAUTH_OK` and no request
    exceeds the stack buffer -/
theorem checkInnerA_true_ok_iff (cfg : Cfg) (tbl : Mhd.Nonce.Table) (now : Nat) (r : Req) (call : Call) (timeout maxNc : Nat)
    (d : DAuth) :
    (checkInnerA true cfg tbl now r call timeout maxNc (some d)).2 = .ok ↔
      ((checkInner cfg tbl now r call timeout maxNc (some d)).2 = .ok ∧ needsHeap d = false) := by
  constructor
  · intro h
    have hs := checkInnerA_true_ok_small cfg tbl now r call timeout maxNc d h
    rw [checkInnerA_small true cfg tbl now r call timeout maxNc d hs] at h
    exact ⟨h, hs⟩
  · intro ⟨h, hs⟩
    rw [checkInnerA_small true cfg tbl now r call timeout maxNc d hs]; exact h

/-! ### a concrete accepted credential that needs the heap (non-vacuity): the credential of `Ex` for a request
    whose path has 130 bytes; `uri` is sent as it is, the copy needs 131 bytes -/
namespace ExA
def path : Bytes := 47 :: List.replicate 129 97
def req : Req := { Ex.req with url := path, args := [] }
def respBin : Bytes := rfcResponse .md5 Ex.h1 Ex.nonce Ex.mid path req.method
def vals (k : Nat) : Option Bytes :=
  if k = kUri then some path else if k = kResponse then some (binToHex respBin) else Ex.cred.val k
def d : DAuth :=
  { slots := fun k => (vals k).map fun v => ⟨0, v, false⟩, userhash := false, algo3 := algoMd5, qop := qopAuth }

theorem respBin_len : respBin.length = 16 := md5_len _

theorem wq : WQ d := by
  intro k p hp hq
  simp only [d] at hp
  cases hv : vals k with
  | none => rw [hv] at hp; cases hp
  | some v => rw [hv] at hp; simp only [Option.map_some, Option.some.injEq] at hp; subst hp; cases hq

theorem qp : QopParsed d := by unfold QopParsed; decide

set_option maxRecDepth 100000 in
theorem valid : RFCValid Ex.cfg Ex.tbl 6000 req Ex.call 90 1000 (semOf d) .md5 10 Ex.nonce 5000 where
  algo := by decide
  qop := by decide
  user := Or.inl ⟨rfl, rfl, rfl⟩
  realm := rfl
  nonceVal := ⟨rfl, by decide, by decide, by decide⟩
  fresh := by decide
  uri := ⟨path, rfl, by decide, by decide⟩
  response := ⟨path, Ex.mid, Ex.h1, binToHex respBin, respBin, rfl,
    Or.inr ⟨rfl, ([48, 48, 48, 48, 48, 48, 48, 65] : Bytes), ([99, 110] : Bytes), ([97, 117, 116, 104] : Bytes), rfl, rfl, rfl, by decide, by decide, by decide, Or.inr (by decide), rfl⟩,
    rfl, rfl,
    hexToBin_binToHex _ (by intro h; have := respBin_len; rw [h] at this; cases this),
    by rw [binToHex_length, respBin_len]; decide, respBin_len, rfl⟩
  bind := fun h => absurd rfl h

set_option maxRecDepth 100000 in
theorem limits : WithinLimits .md5 Ex.call (semOf d) (lenView d) where
  userhash := fun h => by cases h
  realm := fun _ l hl => by have e : lenView d kRealm = some 4 := rfl; rw [e] at hl; cases hl; decide
  nc := fun _ l hl => by have e : lenView d kNc = some 8 := rfl; rw [e] at hl; cases hl; decide
  cnonce := fun _ l hl => by have e : lenView d kCnonce = some 2 := rfl; rw [e] at hl; cases hl; decide
  uri := fun l hl => by have e : lenView d kUri = some 130 := rfl; rw [e] at hl; cases hl; decide
  nonce := fun l hl => by have e : lenView d kNonce = some 44 := rfl; rw [e] at hl; cases hl; decide
  response := fun l hl => by
    have e : lenView d kResponse = some (binToHex respBin).length := rfl
    rw [e, binToHex_length, respBin_len] at hl; cases hl; decide
  ext := fun e he => by cases he

/-- accepted when `malloc` succeeds -/
theorem accepted : (checkInner Ex.cfg Ex.tbl 6000 req Ex.call 90 1000 (some d)).2 = .ok := by
  rw [checkInner_sem _ _ _ _ _ _ _ d wq qp]
  exact ok_of_valid _ _ _ _ _ _ _ _ _ (lenSem_semOf d wq) .md5 10 Ex.nonce 5000 limits valid

set_option maxRecDepth 100000 in
theorem needs : needsHeap d = true := by decide
end ExA

/-! ### two more concrete credentials: a quoted `cnonce` of 200 bytes, a 130-byte `uri` alone -/
namespace ExB
def dCn : DAuth :=
  { slots := fun k => if k = kCnonce then some ⟨0, 92 :: List.replicate 199 99, true⟩
                      else if k = kNc ∨ k = kQop then some ⟨0, [49], false⟩ else none,
    userhash := false, algo3 := algoMd5, qop := qopAuth }
def dUri : DAuth :=
  { slots := fun k => if k = kUri then some ⟨0, ExA.path, false⟩ else none, userhash := false, algo3 := algoMd5, qop := qopAuth }
end ExB

end Mhd.Dauth
