/-
  `post_process_urlencoded` for ARBITRARY input and arbitrary splits: shape invariants of the
  struct and of the local pointers (`UInv`, `ULoc`), preserved by every loop iteration together
  with a decreasing measure (`step_any`), by the code after the loop (`tail_any`) and by whole calls;
  hence no fault ever (`url_no_fault`): no out-of-object access, no `abort ()`/`MHD_PANIC`, and the
  fuel the model gives its loops always suffices.
-/
import Mhd.Proofs.PPUrlInv
namespace Mhd.PP

/-- fields `process_value` never touches -/
def VFrame (pp pp' : PP) : Prop :=
  pp'.fault = pp.fault ∧ pp'.state = pp.state ∧ pp'.isUrl = pp.isUrl ∧ pp'.bufferSize = pp.bufferSize ∧
  pp'.bufferPos = pp.bufferPos ∧ pp'.buf = pp.buf ∧ pp'.mustUnescapeKey = pp.mustUnescapeKey

theorem escTail_drop_le (xb : Bytes) : (xb.drop (escTail xb).1).length ≤ 2 := by
  unfold escTail
  simp only
  split
  · simp; omega
  · split
    · simp; omega
    · simp

theorem escTail_nocut (xb : Bytes) (h : xb.length ≠ XBUF) (hc : (escTail xb).2.1 = false) :
    (escTail xb).2.2 = 0 := by
  unfold escTail at hc ⊢
  simp only at hc ⊢
  split
  · rename_i h1; simp [h1, h] at hc
  · split
    · rename_i h1 h2; simp [h1, h2, h] at hc
    · rfl

theorem roundPP_frame (pp : PP) (nx : Option Bytes) (dec : Bytes) : VFrame pp (roundPP pp nx dec) :=
  ⟨rfl, rfl, rfl, rfl, rfl, rfl, rfl⟩

theorem VFrame.trans {a b c : PP} (h1 : VFrame a b) (h2 : VFrame b c) : VFrame a c := by
  obtain ⟨a1, a2, a3, a4, a5, a6, a7⟩ := h1
  obtain ⟨b1, b2, b3, b4, b5, b6, b7⟩ := h2
  exact ⟨b1.trans a1, b2.trans a2, b3.trans a3, b4.trans a4, b5.trans a5, b6.trans a6, b7.trans a7⟩

/-- `process_value`'s loop for ARBITRARY input: no fault, frame untouched, at most two bytes kept -/
theorem pvLoop_frame : ∀ (fuel : Nat) (d : Bytes) (pp : PP) (xb : Bytes) (vs ve : Nat) (last : Bool),
    xb.length ≤ 2 → pp.xbuf.length ≤ 2 → vs ≤ ve → ve ≤ d.length → (ve - vs) + 2 ≤ fuel →
    VFrame pp (pvLoop fuel d pp xb vs ve last) ∧ (pvLoop fuel d pp xb vs ve last).xbuf.length ≤ 2 := by
  intro fuel
  induction fuel with
  | zero => intro d pp xb vs ve last _ _ _ _ h; omega
  | succ n ih =>
    intro d pp xb vs ve last hxb hpx hle hve hfuel
    have hX := xbuf_ge
    by_cases hc : vs ≠ ve ∨ pp.mustIkvi = true ∨ xb.length > 0
    · generalize hdelta : min (ve - vs) (XBUF - xb.length) = delta
      generalize htr : (if last = true ∧ vs + delta = ve
            then ((xb ++ slice d vs (vs + delta)).length, false, 0)
            else escTail (xb ++ slice d vs (vs + delta))) = tr
      obtain ⟨xoff2, cut, clen⟩ := tr
      have hround := pvLoop_round n d pp xb vs ve last hc (by omega) hle hve xoff2 cut clen (by rw [hdelta]; exact htr)
      rw [hdelta] at hround
      rw [hround]
      have hlen1 : (xb ++ slice d vs (vs + delta)).length = xb.length + delta := by
        rw [List.length_append, slice_length d vs (vs + delta) (by omega)]; omega
      -- what is kept back is at most two bytes
      have hkeep : ((xb ++ slice d vs (vs + delta)).drop xoff2).length ≤ 2 := by
        by_cases hl : last = true ∧ vs + delta = ve
        · rw [if_pos hl] at htr
          have : xoff2 = (xb ++ slice d vs (vs + delta)).length := by
            have := congrArg Prod.fst htr; simpa using this.symm
          rw [this]; simp
        · rw [if_neg hl] at htr
          have : xoff2 = (escTail (xb ++ slice d vs (vs + delta))).1 := by rw [htr]
          rw [this]; exact escTail_drop_le _
      cases cut with
      | true =>
        simp only [if_true]
        exact ⟨roundPP_frame _ _ _, by simpa [roundPP] using hkeep⟩
      | false =>
        simp only [Bool.false_eq_true, if_false]
        have hxb' : (if clen ≠ 0 then (xb ++ slice d vs (vs + delta)).drop xoff2 else []).length ≤ 2 := by
          split
          · exact hkeep
          · simp
        by_cases hvv : vs = ve
        · -- nothing more to read: the next round (if any) ends the loop
          have hd0 : delta = 0 := by omega
          have hclen : clen = 0 := by
            by_cases hl : last = true ∧ vs + delta = ve
            · rw [if_pos hl] at htr
              have := congrArg (fun t => t.2.2) htr; simpa using this.symm
            · rw [if_neg hl] at htr
              have h1 : (escTail (xb ++ slice d vs (vs + delta))).2.1 = false := by rw [htr]
              have h2 := escTail_nocut _ (by rw [hlen1]; omega) h1
              rw [htr] at h2; exact h2
          have hvd : vs + delta = ve := by omega
          rw [hclen, hvd]
          simp only [ne_eq, not_true_eq_false, if_false]
          rw [pvLoop_stop n d _ _ last (by omega) (by simp [roundPP])]
          exact ⟨roundPP_frame _ _ _, by simpa [roundPP] using hpx⟩
        · have hd1 : 1 ≤ delta := by omega
          obtain ⟨f, hx⟩ := ih d (roundPP pp none _) _ (vs + delta) ve last hxb' (by simpa [roundPP] using hpx)
            (by omega) hve (by omega)
          exact ⟨(roundPP_frame _ _ _).trans f, hx⟩
    · rw [pvLoop]
      simp only [hc, not_false_eq_true, if_true]
      exact ⟨⟨rfl, rfl, rfl, rfl, rfl, rfl, rfl⟩, hpx⟩

theorem processValue_frame (d : Bytes) (pp : PP) (vs ve le : Option Nat) (last : Bool)
    (hx : pp.xbuf.length ≤ 2)
    (hp : (vs = none ∧ ve = none) ∨ ∃ s e, vs = some s ∧ ve = some e ∧ s ≤ e ∧ e ≤ d.length) :
    VFrame pp (processValue d pp vs ve le last) ∧ (processValue d pp vs ve le last).xbuf.length ≤ 2 := by
  have hg1 : ¬ pp.xbuf.length > Mhd.Gen.PP.ppXbufLen := by rw [ppXbufLen_eq]; omega
  unfold processValue
  simp only [hg1, if_false]
  rcases hp with ⟨h1, h2⟩ | ⟨s, e, h1, h2, h3, h4⟩
  · subst h1 h2
    simp only
    obtain ⟨f, hxx⟩ := pvLoop_frame 3 d { pp with xbuf := [] } pp.xbuf 0 0 last hx (by simp) (Nat.le_refl _) (Nat.zero_le _) (by omega)
    exact ⟨f, hxx⟩
  · subst h1 h2
    have hg2 : ¬ (e < s ∨ e > d.length) := by omega
    simp only [hg2, if_false]
    obtain ⟨f, hxx⟩ := pvLoop_frame (e - s + 3) d { pp with xbuf := [] } pp.xbuf s e last hx (by simp) h3 h4 (by omega)
    exact ⟨f, hxx⟩



/-- part of the invariant that does not depend on the locals -/
structure UInv (pp : PP) : Prop where
  fault : pp.fault = none
  url : pp.isUrl = true
  xb : pp.xbuf.length ≤ 2
  bp : pp.bufferPos < pp.bufferSize

/-- shape of the local pointers of `post_process_urlencoded`, per state, for ARBITRARY input -/
def ULoc (pp : PP) (l : UL) : Prop :=
  match pp.state with
  | .init => l.startKey = none ∧ l.endKey = none ∧ l.startValue = none ∧ l.endValue = none
  | .processKey =>
    l.endKey = none ∧ l.startValue = none ∧ l.endValue = none ∧ pp.mustIkvi = true ∧
    ((l.startKey = none ∧ l.poff = 0) ∨ ∃ a, l.startKey = some a ∧ a < l.poff)
  | .processValue =>
    l.endValue = none ∧ (l.startValue = none ∨ ∃ s, l.startValue = some s ∧ s ≤ l.poff) ∧
    ((l.startKey = none ∧ l.endKey = none) ∨
      ∃ a b, l.startKey = some a ∧ l.endKey = some b ∧ a < b ∧ b ≤ l.poff ∧ pp.mustIkvi = true)
  | .callback =>
    ((l.startValue = none ∧ l.endValue = none) ∨
      ∃ s e, l.startValue = some s ∧ l.endValue = some e ∧ s ≤ e ∧ e ≤ l.poff) ∧
    ((l.startKey = none ∧ l.endKey = none) ∨
      ∃ a b, l.startKey = some a ∧ l.endKey = some b ∧ a < b ∧ b ≤ l.poff)
  | .done => l.startKey = none ∧ l.endKey = none
  | .error => True
  | _ => False

def rankA : St → Nat
  | .error => 0
  | .init => 1
  | .done => 1
  | .callback => 2
  | _ => 3

/-- termination measure of the loop of `post_process_urlencoded` for arbitrary input -/
def muA (d : Bytes) (pp : PP) (l : UL) : Nat := 3 * (d.length - l.poff) + rankA pp.state

/-- the result of one iteration keeps the invariant and decreases the measure -/
def StepOk (d : Bytes) (pp : PP) (l : UL) (r : PP × UL) : Prop :=
  UInv r.1 ∧ ULoc r.1 r.2 ∧ r.2.poff ≤ d.length ∧ muA d r.1 r.2 < muA d pp l ∧ r.1.bufferSize = pp.bufferSize

theorem step_any_init (d : Bytes) (pp : PP) (l : UL) (c : UInt8) (hI : UInv pp) (hs : pp.state = .init)
    (hL : ULoc pp l) (hp : l.poff < d.length) : StepOk d pp l (urlInit c pp l) := by
  simp only [ULoc, hs] at hL
  obtain ⟨h1, h2, h3, h4⟩ := hL
  have hI' : ∀ (s : St) (m : Bool), UInv { pp with state := s, mustIkvi := m } := fun _ _ => ⟨hI.fault, hI.url, hI.xb, hI.bp⟩
  unfold urlInit StepOk
  split
  · exact ⟨⟨hI.fault, hI.url, hI.xb, hI.bp⟩, by simp [ULoc], by simp; omega, by simp [muA, rankA, hs], rfl⟩
  · split
    · exact ⟨hI, by simp [ULoc, hs, h1, h2, h3, h4], by simp; omega, by simp [muA, rankA, hs]; omega, rfl⟩
    · split
      · exact ⟨⟨hI.fault, hI.url, hI.xb, hI.bp⟩, by simp [ULoc, h1, h2], by simp; omega, by simp [muA, rankA, hs]; omega, rfl⟩
      · exact ⟨⟨hI.fault, hI.url, hI.xb, hI.bp⟩, by simp [ULoc, h2, h3, h4], by simp; omega, by simp [muA, rankA, hs]; omega, rfl⟩

theorem step_any_key (d : Bytes) (pp : PP) (l : UL) (c : UInt8) (hI : UInv pp) (hs : pp.state = .processKey)
    (hL : ULoc pp l) (hp : l.poff < d.length) : StepOk d pp l (urlKey c pp l) := by
  simp only [ULoc, hs] at hL
  obtain ⟨h1, h2, h3, h4, h5⟩ := hL
  unfold urlKey StepOk
  have hek : (if l.poff ≠ 0 then some l.poff else l.endKey) = if l.poff ≠ 0 then some l.poff else none := by rw [h1]
  simp only [hek]
  split
  · refine ⟨⟨hI.fault, hI.url, hI.xb, hI.bp⟩, ?_, by simp; omega, by simp [muA, rankA, hs]; omega, rfl⟩
    simp only [ULoc, h3, h2, true_and]
    refine ⟨Or.inl trivial, ?_⟩
    rcases h5 with ⟨k1, k2⟩ | ⟨a, k1, k2⟩
    · left; simp [k1, k2]
    · right
      have : l.poff ≠ 0 := by omega
      exact ⟨a, l.poff, k1, by simp [this], k2, by simp, h4⟩
  · split
    · refine ⟨⟨hI.fault, hI.url, hI.xb, hI.bp⟩, ?_, by simp; omega, by simp [muA, rankA, hs]; omega, rfl⟩
      simp only [ULoc, h2, h3, true_and]
      refine ⟨Or.inl trivial, ?_⟩
      rcases h5 with ⟨k1, k2⟩ | ⟨a, k1, k2⟩
      · left; simp [k1, k2]
      · right
        have : l.poff ≠ 0 := by omega
        exact ⟨a, l.poff, k1, by simp [this], k2, by simp⟩
    · split
      · refine ⟨⟨hI.fault, hI.url, hI.xb, hI.bp⟩, ?_, by simp; omega, by simp [muA, rankA, hs], rfl⟩
        simp only [ULoc, h2, h3, true_and]
        refine ⟨Or.inl trivial, ?_⟩
        rcases h5 with ⟨k1, k2⟩ | ⟨a, k1, k2⟩
        · left; simp [k1, k2]
        · right
          have : l.poff ≠ 0 := by omega
          exact ⟨a, l.poff, k1, by simp [this], k2, Nat.le_refl _⟩
      · refine ⟨hI, ?_, by simp; omega, by simp [muA, rankA, hs]; omega, rfl⟩
        simp only [ULoc, hs, h1, h2, h3, h4, true_and]
        right
        rcases h5 with ⟨k1, k2⟩ | ⟨a, k1, k2⟩
        · exact ⟨0, by simp [k2], by simp⟩
        · have : l.poff ≠ 0 := by omega
          exact ⟨a, by simp [this, k1], by first | omega | (simp; omega)⟩



theorem step_any_done (d : Bytes) (pp : PP) (l : UL) (c : UInt8) (hI : UInv pp) (hs : pp.state = .done)
    (hL : ULoc pp l) (hp : l.poff < d.length) : StepOk d pp l (urlDone c pp l) := by
  simp only [ULoc, hs] at hL
  unfold urlDone StepOk
  split
  · exact ⟨hI, by simp [ULoc, hs, hL.1, hL.2], by simp; omega, by simp [muA, rankA, hs]; omega, rfl⟩
  · exact ⟨⟨hI.fault, hI.url, hI.xb, hI.bp⟩, by simp [ULoc], by simp; omega, by simp [muA, rankA, hs], rfl⟩

theorem step_any_value (d : Bytes) (pp : PP) (l : UL) (c : UInt8) (hI : UInv pp) (hs : pp.state = .processValue)
    (hL : ULoc pp l) (hp : l.poff < d.length) : StepOk d pp l (urlValue c pp l) := by
  simp only [ULoc, hs] at hL
  obtain ⟨h1, h2, h3⟩ := hL
  have hsv : l.startValue.getD l.poff ≤ l.poff := by
    rcases h2 with h | ⟨s, h, hle⟩ <;> simp [h]
    exact hle
  have hkey : ∀ k, ((l.startKey = none ∧ l.endKey = none) ∨
      ∃ a b, l.startKey = some a ∧ l.endKey = some b ∧ a < b ∧ b ≤ l.poff + k) := by
    intro k
    rcases h3 with h | ⟨a, b, k1, k2, k3, k4, _⟩
    · exact Or.inl h
    · exact Or.inr ⟨a, b, k1, k2, k3, by omega⟩
  have hnokey : pp.mustIkvi = false → l.startKey = none ∧ l.endKey = none := by
    intro hm
    rcases h3 with h | ⟨a, b, _, _, _, _, k5⟩
    · exact h
    · rw [hm] at k5; cases k5
  have hpos : 0 < pp.bufferSize := by have := hI.bp; omega
  unfold urlValue StepOk
  simp only [urlValue_start]
  split
  · exact ⟨⟨hI.fault, hI.url, hI.xb, hI.bp⟩, by simp [ULoc], by simp; omega, by simp [muA, rankA, hs], rfl⟩
  · split
    · split
      · refine ⟨⟨hI.fault, hI.url, hI.xb, hI.bp⟩, ?_, by simp; omega, by simp [muA, rankA, hs]; omega, rfl⟩
        simp only [ULoc]
        exact ⟨Or.inr ⟨_, _, rfl, rfl, hsv, by simp⟩, hkey 1⟩
      · rename_i hc
        have hm : pp.mustIkvi = false := by
          cases h : pp.mustIkvi with
          | false => rfl
          | true => exact absurd (Or.inl h) hc
        obtain ⟨k1, k2⟩ := hnokey hm
        refine ⟨⟨hI.fault, hI.url, hI.xb, hpos⟩, ?_, by simp; omega, by simp [muA, rankA, hs]; omega, rfl⟩
        simp [ULoc, k1, k2]
    · split
      · split
        · refine ⟨⟨hI.fault, hI.url, hI.xb, hI.bp⟩, ?_, by simp; omega, by simp [muA, rankA, hs], rfl⟩
          simp only [ULoc]
          exact ⟨Or.inr ⟨_, _, rfl, rfl, hsv, Nat.le_refl _⟩, hkey 0⟩
        · rename_i hc
          have hm : pp.mustIkvi = false := by
            cases h : pp.mustIkvi with
            | false => rfl
            | true => exact absurd (Or.inl h) hc
          obtain ⟨k1, k2⟩ := hnokey hm
          refine ⟨⟨hI.fault, hI.url, hI.xb, hI.bp⟩, ?_, by simp; omega, by simp [muA, rankA, hs]; omega, rfl⟩
          simp [ULoc, k1, k2]
      · have adv : ∀ (le' : Option Nat), StepOk d pp l
            (pp, { l with startValue := some (l.startValue.getD l.poff), lastEscape := le', poff := l.poff + 1 }) := by
          intro le'
          refine ⟨hI, ?_, by simp; omega, by simp [muA, rankA, hs]; omega, rfl⟩
          simp only [ULoc, hs, h1, true_and]
          refine ⟨Or.inr ⟨_, rfl, by omega⟩, ?_⟩
          rcases h3 with h | ⟨a, b, k1, k2, k3, k4, k5⟩
          · exact Or.inl h
          · exact Or.inr ⟨a, b, k1, k2, k3, by show b ≤ l.poff + 1; omega, k5⟩
        split
        · exact adv _
        · split
          · exact adv l.lastEscape
          · exact adv _


theorem unescapeKey_any (pp : PP) (h : pp.bufferPos ≤ pp.bufferSize) :
    ∃ B, unescapeKey pp = { pp with buf := B, mustUnescapeKey := false } := by
  have hg : ¬ pp.bufferPos > pp.bufferSize := by omega
  exact ⟨writeZ (writeZ pp.buf pp.bufferPos [0]) 0 (unescape (writeZ pp.buf pp.bufferPos [0]) ++ [0]),
    by simp only [unescapeKey, hg, if_false]⟩

theorem appendKey_any (d : Bytes) (pp : PP) (s n : Nat) (h : s + n ≤ d.length) :
    ∃ B, appendKey d pp s n = { pp with buf := B, bufferPos := pp.bufferPos + n, mustUnescapeKey := true } := by
  have hg : ¬ s + n > d.length := by omega
  exact ⟨writeZ pp.buf pp.bufferPos (slice d s (s + n)), by simp only [appendKey, hg, if_false]⟩

/-- `urlCallbackKey` for arbitrary input: either "key too long" (state error) or the key part is done -/
theorem cbKey_any (d : Bytes) (pp : PP) (l : UL) (hI : UInv pp) (hp : l.poff ≤ d.length)
    (hk : (l.startKey = none ∧ l.endKey = none) ∨
      ∃ a b, l.startKey = some a ∧ l.endKey = some b ∧ a < b ∧ b ≤ l.poff) :
    ((urlCallbackKey d pp l).1 = { pp with state := .error } ∧ (urlCallbackKey d pp l).2 = l) ∨
    (UInv (urlCallbackKey d pp l).1 ∧ (urlCallbackKey d pp l).1.state = pp.state ∧
      (urlCallbackKey d pp l).1.bufferSize = pp.bufferSize ∧
      (urlCallbackKey d pp l).2 = { l with startKey := none, endKey := none }) := by
  have hfs : pp.fault.isSome = false := by rw [hI.fault]; rfl
  have fin : ∀ (q : PP), UInv q → q.state = pp.state → q.bufferSize = pp.bufferSize →
      UInv (if q.mustUnescapeKey = true then unescapeKey q else q) ∧
      (if q.mustUnescapeKey = true then unescapeKey q else q).state = pp.state ∧
      (if q.mustUnescapeKey = true then unescapeKey q else q).bufferSize = pp.bufferSize := by
    intro q hq h1 h2
    by_cases hm : q.mustUnescapeKey = true
    · rw [if_pos hm]
      obtain ⟨B, hB⟩ := unescapeKey_any q (by have := hq.bp; omega)
      rw [hB]
      exact ⟨⟨hq.fault, hq.url, hq.xb, hq.bp⟩, h1, h2⟩
    · rw [if_neg hm]; exact ⟨hq, h1, h2⟩
  rcases hk with ⟨k1, k2⟩ | ⟨a, b, k1, k2, k3, k4⟩
  · right
    simp only [urlCallbackKey, k1, k2, ptrLen, ne_eq, not_true_eq_false, false_and, if_false, hfs, Bool.false_eq_true]
    obtain ⟨f1, f2, f3⟩ := fin pp hI rfl rfl
    exact ⟨f1, f2, f3, ul_eta_keys l k1 k2⟩
  · have hle : a ≤ b := by omega
    have hk0 : b - a ≠ 0 := by omega
    by_cases hfit : pp.bufferPos + (b - a) ≥ pp.bufferSize
    · left
      simp only [urlCallbackKey, k1, k2, ptrLen, hle, if_true, ne_eq, hk0, not_false_eq_true, true_and, hfit]
    · right
      obtain ⟨B, hB⟩ := appendKey_any d pp a (b - a) (by omega)
      have hfs1 : (appendKey d pp a (b - a)).fault.isSome = false := by rw [hB]; exact hfs
      have hq : UInv { pp with buf := B, bufferPos := pp.bufferPos + (b - a), mustUnescapeKey := true } :=
        ⟨hI.fault, hI.url, hI.xb, by show pp.bufferPos + (b - a) < pp.bufferSize; omega⟩
      simp only [urlCallbackKey, k1, k2, ptrLen, hle, if_true, ne_eq, hk0, not_false_eq_true, true_and, hfit, if_false,
        Option.getD_some, hfs1, Bool.false_eq_true]
      rw [hB]
      obtain ⟨f1, f2, f3⟩ := fin _ hq rfl rfl
      exact ⟨f1, f2, f3, trivial⟩

theorem step_any_cb (d : Bytes) (pp : PP) (l : UL) (hI : UInv pp) (hs : pp.state = .callback)
    (hL : ULoc pp l) (hp : l.poff ≤ d.length) : StepOk d pp l (urlCallback d pp l) := by
  simp only [ULoc, hs] at hL
  obtain ⟨hv, hk⟩ := hL
  unfold urlCallback StepOk
  rcases cbKey_any d pp l hI hp hk with ⟨e1, e2⟩ | ⟨q1, q2, q3, q4⟩
  · generalize urlCallbackKey d pp l = r at e1 e2
    obtain ⟨pp2, l1⟩ := r
    simp only at e1 e2
    subst e1 e2
    simp only [if_true]
    exact ⟨⟨hI.fault, hI.url, hI.xb, hI.bp⟩, by simp [ULoc], hp, by simp [muA, rankA, hs], by first | rfl | trivial⟩
  · generalize urlCallbackKey d pp l = r at q1 q2 q3 q4
    obtain ⟨pp2, l1⟩ := r
    simp only at q1 q2 q3 q4
    subst q4
    have hne : pp2.state ≠ .error := by rw [q2, hs]; decide
    simp only [hne, if_false]
    have hvp : (l.startValue = none ∧ l.endValue = none) ∨
        ∃ s e, l.startValue = some s ∧ l.endValue = some e ∧ s ≤ e ∧ e ≤ d.length := by
      rcases hv with h | ⟨s, e, a1, a2, a3, a4⟩
      · exact Or.inl h
      · exact Or.inr ⟨s, e, a1, a2, a3, by omega⟩
    obtain ⟨⟨f1, f2, f3, f4, f5, f6, f7⟩, hx⟩ := processValue_frame d pp2 l.startValue l.endValue none true q1.xb hvp
    have hne3 : (processValue d pp2 l.startValue l.endValue none true).state ≠ .error := by rw [f2]; exact hne
    simp only [hne3, if_false]
    have hpos : 0 < pp.bufferSize := by have := hI.bp; omega
    refine ⟨⟨by show (processValue d pp2 _ _ none true).fault = none; rw [f1]; exact q1.fault,
        by show (processValue d pp2 _ _ none true).isUrl = true; rw [f3]; exact q1.url, hx,
        by show 0 < (processValue d pp2 _ _ none true).bufferSize; rw [f4, q3]; exact hpos⟩, ?_, hp, ?_, ?_⟩
    · simp [ULoc]
    · simp [muA, rankA, hs]
    · show (processValue d pp2 _ _ none true).bufferSize = pp.bufferSize
      rw [f4, q3]


theorem step_any (d : Bytes) (pp : PP) (l : UL) (hI : UInv pp) (hL : ULoc pp l) (hp : l.poff ≤ d.length)
    (hc : (l.poff < d.length ∨ pp.state = .callback) ∧ pp.state ≠ .error) : StepOk d pp l (urlIter d pp l) := by
  obtain ⟨hc1, hne⟩ := hc
  unfold urlIter
  cases hs : pp.state with
  | callback => exact step_any_cb d pp l hI hs hL hp
  | error => exact absurd hs hne
  | init =>
    have hlt : l.poff < d.length := by rcases hc1 with h | h; exact h; rw [hs] at h; cases h
    simp only [List.getElem?_eq_getElem hlt]
    exact step_any_init d pp l _ hI hs hL hlt
  | processKey =>
    have hlt : l.poff < d.length := by rcases hc1 with h | h; exact h; rw [hs] at h; cases h
    simp only [List.getElem?_eq_getElem hlt]
    exact step_any_key d pp l _ hI hs hL hlt
  | processValue =>
    have hlt : l.poff < d.length := by rcases hc1 with h | h; exact h; rw [hs] at h; cases h
    simp only [List.getElem?_eq_getElem hlt]
    exact step_any_value d pp l _ hI hs hL hlt
  | done =>
    have hlt : l.poff < d.length := by rcases hc1 with h | h; exact h; rw [hs] at h; cases h
    simp only [List.getElem?_eq_getElem hlt]
    exact step_any_done d pp l _ hI hs hL hlt
  | _ => simp [ULoc, hs] at hL

theorem loop_any (d : Bytes) : ∀ (fuel : Nat) (pp : PP) (l : UL), UInv pp → ULoc pp l → l.poff ≤ d.length →
    muA d pp l < fuel →
    UInv (urlLoop fuel d pp l).1 ∧ ULoc (urlLoop fuel d pp l).1 (urlLoop fuel d pp l).2 ∧
    (urlLoop fuel d pp l).2.poff ≤ d.length ∧ (urlLoop fuel d pp l).1.bufferSize = pp.bufferSize ∧
    ¬ (((urlLoop fuel d pp l).2.poff < d.length ∨ (urlLoop fuel d pp l).1.state = .callback) ∧
        (urlLoop fuel d pp l).1.state ≠ .error) := by
  intro fuel
  induction fuel with
  | zero => intro pp l _ _ _ h; omega
  | succ n ih =>
    intro pp l hI hL hp hmu
    rw [urlLoop]
    by_cases hc : (l.poff < d.length ∨ pp.state = .callback) ∧ pp.state ≠ .error
    · rw [if_pos hc]
      obtain ⟨s1, s2, s3, s4, s5⟩ := step_any d pp l hI hL hp hc
      obtain ⟨r1, r2, r3, r4, r5⟩ := ih _ _ s1 s2 s3 (by omega)
      exact ⟨r1, r2, r3, by rw [r4, s5], r5⟩
    · rw [if_neg hc]
      exact ⟨hI, hL, hp, rfl, hc⟩


/-- invariant between two calls in urlencoded mode, for ARBITRARY input -/
def UGood (pp : PP) : Prop := UInv pp ∧ ULoc pp {}

theorem uloc_fresh_of (pp pp' : PP) (l : UL) (h : ULoc pp l) (hs : pp'.state = pp.state) (hm : pp'.mustIkvi = pp.mustIkvi)
    (hk : l.startKey = none ∧ l.endKey = none) (hv : l.startValue = none ∧ l.endValue = none)
    (hncb : pp.state ≠ .callback) : ULoc pp' {} := by
  unfold ULoc at h ⊢
  rw [hs]
  cases hst : pp.state <;> rw [hst] at h <;> simp_all

theorem tail_any (d : Bytes) (pp : PP) (l : UL) (hI : UInv pp) (hL : ULoc pp l) (hp : l.poff = d.length)
    (hncb : pp.state ≠ .callback) : UGood (urlTail d pp l).1 := by
  unfold urlTail
  by_cases herr : pp.state = .error
  · rw [if_pos herr]
    exact ⟨hI, by simp [ULoc, herr]⟩
  · rw [if_neg herr]
    -- the key part
    have hkey : ((urlTailKey d pp l).2 = false ∧ UInv (urlTailKey d pp l).1 ∧ (urlTailKey d pp l).1.state = .error) ∨
        ((urlTailKey d pp l).2 = true ∧ UInv (urlTailKey d pp l).1 ∧ (urlTailKey d pp l).1.state = pp.state ∧
          (urlTailKey d pp l).1.mustIkvi = pp.mustIkvi) := by
      unfold urlTailKey
      cases hsk : l.startKey with
      | none => right; exact ⟨rfl, hI, rfl, rfl⟩
      | some a =>
        simp only
        have hrange : a ≤ l.endKey.getD l.poff ∧ l.endKey.getD l.poff ≤ d.length := by
          cases hst : pp.state with
          | init => simp only [ULoc, hst] at hL; rw [hL.1] at hsk; cases hsk
          | done => simp only [ULoc, hst] at hL; rw [hL.1] at hsk; cases hsk
          | error => exact absurd hst herr
          | callback => exact absurd hst hncb
          | processKey =>
            simp only [ULoc, hst] at hL
            obtain ⟨e1, _, _, _, e5⟩ := hL
            rw [e1]
            rcases e5 with ⟨e6, _⟩ | ⟨a', e6, e7⟩
            · rw [e6] at hsk; cases hsk
            · rw [e6] at hsk; cases hsk
              simp only [Option.getD_none]; omega
          | processValue =>
            simp only [ULoc, hst] at hL
            obtain ⟨_, _, e3⟩ := hL
            rcases e3 with ⟨e6, _⟩ | ⟨a', b, e6, e7, e8, e9, _⟩
            · rw [e6] at hsk; cases hsk
            · rw [e6] at hsk; cases hsk
              rw [e7]; simp only [Option.getD_some]; omega
          | _ => simp [ULoc, hst] at hL
        have hn : ¬ l.endKey.getD l.poff < a := by omega
        rw [if_neg hn]
        by_cases hfit : pp.bufferPos + (l.endKey.getD l.poff - a) ≥ pp.bufferSize
        · rw [if_pos hfit]
          left
          exact ⟨rfl, ⟨hI.fault, hI.url, hI.xb, hI.bp⟩, rfl⟩
        · rw [if_neg hfit]
          obtain ⟨B, hB⟩ := appendKey_any d pp a (l.endKey.getD l.poff - a) (by omega)
          rw [hB]
          right
          exact ⟨rfl, ⟨hI.fault, hI.url, hI.xb, by show pp.bufferPos + _ < pp.bufferSize; omega⟩, rfl, rfl⟩
    rcases hkey with ⟨k1, k2, k3⟩ | ⟨k1, k2, k3, k4⟩
    · have : (urlTailKey d pp l).2 = false ∨ (urlTailKey d pp l).1.fault.isSome = true := Or.inl k1
      rw [if_pos this]
      exact ⟨k2, by simp [ULoc, k3]⟩
    · have hfs : (urlTailKey d pp l).1.fault.isSome = false := by rw [k2.fault]; rfl
      have : ¬ ((urlTailKey d pp l).2 = false ∨ (urlTailKey d pp l).1.fault.isSome = true) := by
        rw [k1, hfs]; simp
      rw [if_neg this]
      generalize urlTailKey d pp l = r at k1 k2 k3 k4
      obtain ⟨pp1, ok⟩ := r
      simp only at k1 k2 k3 k4 ⊢
      -- the value part
      have hval : UInv (urlTailValue d pp1 l) ∧ (urlTailValue d pp1 l).state = pp1.state ∧
          ((urlTailValue d pp1 l).mustIkvi = pp1.mustIkvi ∨ pp1.state = .processValue) := by
        unfold urlTailValue
        by_cases hc : l.startValue.isSome = true ∧ pp1.state = .processValue
        · rw [if_pos hc]
          have hst : pp.state = .processValue := by rw [← k3]; exact hc.2
          have hLv := hL
          simp only [ULoc, hst] at hLv
          obtain ⟨v1, v2, _⟩ := hLv
          obtain ⟨s, hs1, hs2⟩ : ∃ s, l.startValue = some s ∧ s ≤ l.poff := by
            rcases v2 with h | h
            · rw [h] at hc; simp at hc
            · exact h
          have hun : ∃ q, (if pp1.mustUnescapeKey = true then unescapeKey pp1 else pp1) = q ∧ UInv q ∧ q.state = pp1.state := by
            by_cases hm : pp1.mustUnescapeKey = true
            · obtain ⟨B, hB⟩ := unescapeKey_any pp1 (by have := k2.bp; omega)
              exact ⟨{ pp1 with buf := B, mustUnescapeKey := false }, by rw [if_pos hm, hB], ⟨k2.fault, k2.url, k2.xb, k2.bp⟩, rfl⟩
            · exact ⟨pp1, by rw [if_neg hm], k2, rfl⟩
          obtain ⟨q, hq1, hq2, hq3⟩ := hun
          simp only [hq1]
          have hfq : q.fault.isSome = false := by rw [hq2.fault]; rfl
          simp only [hfq, Bool.false_eq_true, if_false, v1, Option.getD_none, hs1]
          obtain ⟨⟨f1, f2, f3, f4, f5, f6, f7⟩, hx⟩ := processValue_frame d q (some s) (some l.poff)
            (tailEscape l.lastEscape l.poff) false hq2.xb (Or.inr ⟨s, l.poff, rfl, rfl, hs2, by omega⟩)
          refine ⟨⟨by show (processValue d q _ _ _ false).fault = none; rw [f1]; exact hq2.fault,
            by show (processValue d q _ _ _ false).isUrl = true; rw [f3]; exact hq2.url, hx,
            by show (processValue d q _ _ _ false).bufferPos < (processValue d q _ _ _ false).bufferSize
               rw [f5, f4]; exact hq2.bp⟩, ?_, Or.inr hc.2⟩
          show (processValue d q _ _ _ false).state = pp1.state
          rw [f2, hq3]
        · rw [if_neg hc]
          exact ⟨k2, rfl, Or.inl rfl⟩
      obtain ⟨w1, w2, w3⟩ := hval
      have hfin : ULoc (urlTailValue d pp1 l) {} := by
        unfold ULoc
        rw [w2, k3]
        unfold ULoc at hL
        cases hst : pp.state <;> rw [hst] at hL <;> simp_all
      by_cases he : (urlTailValue d pp1 l).state = .error
      · rw [if_pos he]; exact ⟨w1, hfin⟩
      · rw [if_neg he]; exact ⟨w1, hfin⟩


theorem uloc_start (pp : PP) (h : ULoc pp {}) : pp.state ≠ .callback → True := fun _ => trivial

theorem feed_any (pp : PP) (d : Bytes) (h : UGood pp) : UGood (feed pp d).1 := by
  obtain ⟨hI, hL⟩ := h
  have hfs : pp.fault.isSome = false := by rw [hI.fault]; rfl
  by_cases hd : d.length = 0
  · simp only [feed, hfs, Bool.false_eq_true, if_false, hd, if_true]
    exact ⟨hI, hL⟩
  · have hmu : muA d pp {} < 3 * d.length + 4 := by
      simp only [muA]
      have : rankA pp.state ≤ 3 := by cases pp.state <;> simp [rankA]
      show 3 * (d.length - 0) + rankA pp.state < 3 * d.length + 4
      omega
    obtain ⟨r1, r2, r3, _, r5⟩ := loop_any d (3 * d.length + 4) pp {} hI hL (Nat.zero_le _) hmu
    have hfs' : (urlLoop (3 * d.length + 4) d pp {}).1.fault.isSome = false := by rw [r1.fault]; rfl
    simp only [feed, hfs, Bool.false_eq_true, if_false, hd, hI.url, if_true, postProcessUrlencoded, hfs']
    by_cases herr : (urlLoop (3 * d.length + 4) d pp {}).1.state = .error
    · unfold urlTail
      rw [if_pos herr]
      exact ⟨r1, by simp [ULoc, herr]⟩
    · have hend : (urlLoop (3 * d.length + 4) d pp {}).2.poff = d.length ∧
          (urlLoop (3 * d.length + 4) d pp {}).1.state ≠ .callback := by
        constructor
        · have : ¬ (urlLoop (3 * d.length + 4) d pp {}).2.poff < d.length := fun h => r5 ⟨Or.inl h, herr⟩
          omega
        · exact fun h => r5 ⟨Or.inr h, herr⟩
      exact tail_any d _ _ r1 r2 hend.1 hend.2

theorem feedAll_any (pp : PP) (chunks : List Bytes) (h : UGood pp) : UGood (feedAll pp chunks) := by
  induction chunks generalizing pp with
  | nil => exact h
  | cons c cs ih => exact ih _ (feed_any pp c h)

theorem create_url_ugood (n : Nat) (ctype : Bytes) (pp0 : PP) (hc : create n ctype = some pp0) (hu : pp0.isUrl = true) :
    UGood pp0 := by
  unfold create at hc
  simp only at hc
  split at hc
  · cases hc
    refine ⟨⟨rfl, rfl, by simp, ?_⟩, by simp [ULoc]⟩
    show 0 < n + Mhd.Gen.PP.bufferSlack
    have : Mhd.Gen.PP.bufferSlack = 4 := by decide
    omega
  · split at hc
    · cases hc
    · split at hc
      · cases hc
      · split at hc
        · cases hc
        · cases hc; cases hu

/-- urlencoded, ARBITRARY input and splits: no access outside an object, no `abort`/`MHD_PANIC`, the
    loops of the model never run out of fuel -/
theorem url_no_fault (n : Nat) (ctype : Bytes) (pp0 : PP) (chunks : List Bytes)
    (hc : create n ctype = some pp0) (hu : pp0.isUrl = true) :
    (destroy (feedAll pp0 chunks)).1.fault = none := by
  have h := feedAll_any pp0 chunks (create_url_ugood n ctype pp0 hc hu)
  have hfs : (feedAll pp0 chunks).fault.isSome = false := by rw [h.1.fault]; rfl
  unfold destroy
  simp only [hfs, Bool.false_eq_true, if_false]
  by_cases hs : (feedAll pp0 chunks).state = .processValue
  · simp only [hs, if_true]
    have := feed_any (feedAll pp0 chunks) [cLF] h
    have hfeed : (feed (feedAll pp0 chunks) [cLF]).1 = (postProcessUrlencoded (feedAll pp0 chunks) [cLF]).1 := by
      simp [feed, hfs, h.1.url]
    rw [hfeed] at this
    exact this.1.fault
  · simp only [hs, if_false]
    exact h.1.fault
end Mhd.PP
