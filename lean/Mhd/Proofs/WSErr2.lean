/-
  C19 helper lemmas, part 7: invalid / truncated UTF-8 in text messages and close reasons
  (theorem (iii) of C19, UTF-8 part; uses the closed form of the payload case).
-/
import Mhd.Proofs.WSPayloadEq
namespace Mhd.WS

theorem iter_payload (ws : WS) (rest : List UInt8) (hne : rest ≠ []) (hs : ws.step = 17 ∨ ws.step = 18) :
    iter false ws rest = stepPayload false ws rest := by
  unfold iter
  cases rest with
  | nil => exact absurd rfl hne
  | cons b r => rcases hs with h | h <;> simp only [h]

theorem rejected_of_iter {ws : WS} {rest : List UInt8} {st : Int} (hne : rest ≠ []) (hv : ws.validity ≠ 0)
    (hi : Rejected (iter false ws rest) st) : Rejected (decode false ws rest) st := by
  obtain ⟨ws', adv, pl, plen, he, hv'⟩ := hi
  cases rest with
  | nil => exact absurd rfl hne
  | cons b r => exact ⟨ws', adv, pl, plen, decode_of_iter_ret hv he, hv'⟩

/-- invalid UTF-8 in the payload of a text message: reported as soon as the bytes arrive -/
theorem err_text_utf8 (ws : WS) (h : Inv ws) (hv : ws.validity ≠ 0) (hs : ws.step = 17) (hd : ws.dataType = 1)
    (rest : List UInt8) (o : Nat)
    (hbad : checkUtf8 (copyPayload (rest.take (min (ws.payloadSize - ws.payloadIndex) rest.length)) ws.maskKey
              (ws.payloadIndex % 4)) ws.dataUtf8 0 = .invalid o) :
    Rejected (decode false ws rest) (-6) := by
  have hk0 : min (ws.payloadSize - ws.payloadIndex) rest.length ≠ 0 := by
    intro h0; rw [h0] at hbad; simp [copyPayload, xorMask, checkUtf8] at hbad
  have hne : rest ≠ [] := by intro hn; subst hn; simp at hk0
  obtain ⟨buf, buf', _, _, he⟩ := (stepPayload_data_eq h hs rest _ rfl).2 hk0
  apply rejected_of_iter hne hv
  rw [iter_payload _ _ hne (Or.inl hs), he, if_pos hd, hbad]
  exact rejected_errRet _ _ _ _

/-- invalid UTF-8 in the reason of a close frame -/
theorem err_close_utf8 (ws : WS) (h : Inv ws) (hv : ws.validity ≠ 0) (hs : ws.step = 18) (h0 : UInt8)
    (hh : ws.hdr[0]? = some h0) (hop : opcodeOf h0 = 8) (rest : List UInt8) (o : Nat)
    (h2 : 2 < ws.payloadIndex + min (ws.payloadSize - ws.payloadIndex) rest.length)
    (hbad : checkUtf8 ((copyPayload (rest.take (min (ws.payloadSize - ws.payloadIndex) rest.length)) ws.maskKey
              (ws.payloadIndex % 4)).drop (2 - ws.payloadIndex)) ws.ctrlUtf8 0 = .invalid o) :
    Rejected (decode false ws rest) (-6) := by
  have hk0 : min (ws.payloadSize - ws.payloadIndex) rest.length ≠ 0 := by
    intro h0; rw [h0] at hbad; simp [copyPayload, xorMask, checkUtf8] at hbad
  have hne : rest ≠ [] := by intro hn; subst hn; simp at hk0
  obtain ⟨h0', buf, buf', hh0', _, _, he⟩ := (stepPayload_ctrl_eq h hs rest _ rfl).2 hk0
  rw [hh] at hh0'; injection hh0' with hh0'; subst hh0'
  apply rejected_of_iter hne hv
  rw [iter_payload _ _ hne (Or.inr hs), he, if_pos ⟨hop, h2⟩, hbad]
  exact rejected_errRet _ _ _ _

end Mhd.WS
namespace Mhd.WS

theorem payloadComplete_text_truncated (ws : WS) (h0 : UInt8) (hh : ws.hdr[0]? = some h0) (hfin : finBit h0 = true)
    (hs : ws.step = 17) (hd : ws.dataType = 1) (hu : ws.dataUtf8 ≠ 0) :
    payloadComplete false ws = errRet ws 1007 (-6) 0 := by
  unfold payloadComplete
  simp only [hh, hfin, if_true, hs, hd, hu, ne_eq, not_false_eq_true, and_self, Bool.false_eq_true]

theorem payloadComplete_close_truncated (ws : WS) (h0 : UInt8) (hh : ws.hdr[0]? = some h0) (hfin : finBit h0 = true)
    (hs : ws.step = 18) (hop : opcodeOf h0 = 8) (hu : ws.ctrlUtf8 ≠ 0) :
    payloadComplete false ws = errRet ws 1007 (-6) 0 := by
  unfold payloadComplete
  have h17 : ¬ ws.step = 17 := by omega
  simp only [hh, hfin, if_true, h17, if_false, hop, hu, ne_eq, not_false_eq_true, and_self, Bool.false_eq_true]

theorem payloadFinish_rejected (ws : WS) (take : Nat) (code : Nat) (st : Int) (he : ws.payloadSize = ws.payloadIndex)
    (hc : payloadComplete false ws = errRet ws code st 0) : Rejected (payloadFinish false take ws) st := by
  unfold payloadFinish
  rw [if_pos he, hc]
  obtain ⟨ws', pl, plen, hr, hv, _⟩ := errRet_spec ws code st 0
  rw [hr]
  exact ⟨ws', take, pl, plen, rfl, hv⟩

/-- a text message whose last frame ends inside a UTF-8 sequence (F7c) -/
theorem err_text_truncated (ws : WS) (h : Inv ws) (hv : ws.validity ≠ 0) (hs : ws.step = 17) (hd : ws.dataType = 1)
    (h0 : UInt8) (hh : ws.hdr[0]? = some h0) (hfin : finBit h0 = true) (rest : List UInt8) (hne : rest ≠ [])
    (hk : ws.payloadSize - ws.payloadIndex ≤ rest.length) (s : Nat)
    (hck : checkUtf8 (copyPayload (rest.take (ws.payloadSize - ws.payloadIndex)) ws.maskKey (ws.payloadIndex % 4))
             ws.dataUtf8 0 = .ok s) (hs0 : s ≠ 0) :
    Rejected (decode false ws rest) (-6) := by
  have hidx := h.idx
  have hmin : min (ws.payloadSize - ws.payloadIndex) rest.length = ws.payloadSize - ws.payloadIndex := by omega
  apply rejected_of_iter hne hv
  rw [iter_payload _ _ hne (Or.inl hs)]
  by_cases hk0 : ws.payloadSize - ws.payloadIndex = 0
  · rw [(stepPayload_data_eq h hs rest _ hmin.symm).1 hk0]
    rw [hk0] at hck
    simp only [List.take_zero, copyPayload, xorMask, List.mapIdx_nil, ite_self, checkUtf8] at hck
    injection hck with hck
    exact payloadFinish_rejected ws 0 1007 (-6) (by omega)
      (payloadComplete_text_truncated ws h0 hh hfin hs hd (by omega))
  · obtain ⟨buf, buf', _, _, he⟩ := (stepPayload_data_eq h hs rest _ hmin.symm).2 hk0
    rw [he, if_pos hd, hck]
    exact payloadFinish_rejected _ _ 1007 (-6) (by show ws.payloadSize = ws.payloadIndex + _; omega)
      (payloadComplete_text_truncated _ h0 hh hfin hs hd hs0)

/-- a close frame whose reason ends inside a UTF-8 sequence (F7c) -/
theorem err_close_truncated (ws : WS) (h : Inv ws) (hv : ws.validity ≠ 0) (hs : ws.step = 18)
    (h0 : UInt8) (hh : ws.hdr[0]? = some h0) (hop : opcodeOf h0 = 8) (rest : List UInt8)
    (hk : ws.payloadSize - ws.payloadIndex ≤ rest.length) (hk0 : ws.payloadSize - ws.payloadIndex ≠ 0)
    (h2 : 2 < ws.payloadSize) (s : Nat)
    (hck : checkUtf8 ((copyPayload (rest.take (ws.payloadSize - ws.payloadIndex)) ws.maskKey (ws.payloadIndex % 4)).drop
             (2 - ws.payloadIndex)) ws.ctrlUtf8 0 = .ok s) (hs0 : s ≠ 0) :
    Rejected (decode false ws rest) (-6) := by
  have hidx := h.idx
  have hmin : min (ws.payloadSize - ws.payloadIndex) rest.length = ws.payloadSize - ws.payloadIndex := by omega
  have hne : rest ≠ [] := by intro hn; subst hn; simp at hk; omega
  obtain ⟨h0', hh0', hfinc⟩ := h.h0 (by omega) (by omega)
  rw [hh] at hh0'; injection hh0' with hh0'; subst hh0'
  have hfin : finBit h0 = true := hfinc.2 (by omega)
  apply rejected_of_iter hne hv
  rw [iter_payload _ _ hne (Or.inr hs)]
  obtain ⟨h0', buf, buf', hh0', _, _, he⟩ := (stepPayload_ctrl_eq h hs rest _ hmin.symm).2 hk0
  rw [hh] at hh0'; injection hh0' with hh0'; subst hh0'
  rw [he, if_pos ⟨hop, by omega⟩, hck]
  exact payloadFinish_rejected _ _ 1007 (-6) (by show ws.payloadSize = ws.payloadIndex + _; omega)
    (payloadComplete_close_truncated _ h0 hh hfin hs hop hs0)

end Mhd.WS
