/-
  Post-condition of the request-line scanner (`get_request_line_inner`), for **every** input,
  every combination of strictness flags and every segmentation:

  * `RLX F s` — content invariant of the parser state on top of `RLInv` (where the method
    ends, the NUL written behind the target persists, the recorded '?' still holds a '?' and
    lies inside the target or — until the version is parsed — inside the version);
  * `RLInvX F s` = `RLInv s ∧ RLX F s`, kept by every step and by the arrival of more data;
  * `RLPost r` — what every successfully parsed request line satisfies: the target
    `[tgt, tgt + tgtLen)` lies between method and version, is followed by a NUL, the recorded
    '?' lies inside it (a '?' in the version is excluded because `parse_http_version`
    accepted it), the version string (8 bytes + NUL) ends before `read_buffer`;
  * `rl_run_more`, `rl_run_done` — the two theorems for users.

  With `TGT.processRequestTarget_no_fault` this gives: `process_request_target` cannot fault on
  anything the line parser hands over.
-/
import Mhd.Proofs.ReqLine
set_option linter.unusedSimpArgs false
set_option linter.unusedVariables false
namespace Mhd.Req

/-- what every successfully parsed request line satisfies -/
structure RLPost (r : ReqLine) : Prop where
  hrb : r.rb ≤ r.buf.size
  hm : r.method < r.tgt
  htl : r.tgt + r.tgtLen < r.version
  hnul : r.buf[r.tgt + r.tgtLen]? = some 0
  hq : ∀ q, r.qmark = some q → r.tgt ≤ q ∧ q < r.tgt + r.tgtLen
  hv : r.version + Gen.Discipline.httpVerLen + 1 ≤ r.rb

/-- content invariant of the scanner state (on top of `RLInv`) -/
structure RLX (F : RLFlags) (s : RL) : Prop where
  m1 : s.hasMethod = true → 1 ≤ s.methodLen
  m2 : s.hasMethod = true → ∀ t, s.tgt = some t → s.methodLen < t
  m3 : s.hasMethod = true → s.tgt = none → s.methodLen < s.wsEnd
  v : F.wspInUri = true → s.version = none
  vw : ∀ v, s.version = some v → s.wsEnd = 0
  q : ∀ q, s.qmark = some q → q < s.p ∧ s.buf[s.rb + q]? = some 63 ∧
        ∃ t, s.tgt = some t ∧ t ≤ q ∧ (s.wsEnd ≠ 0 → q < s.wsStart ∨ s.wsEnd ≤ q) ∧
          (∀ v, s.version = some v → q < t + s.tgtLen ∨ v ≤ q)
  w : ∀ t, s.tgt = some t → s.wsEnd ≠ 0 → t ≤ s.wsStart ∧ s.wsStart < s.wsEnd
  s1 : F.wspInUri = false → ∀ t, s.tgt = some t → s.version = none → s.wsEnd ≠ 0 →
         s.tgtLen = s.wsStart - t ∧ s.buf[s.rb + s.wsStart]? = some 0
  s2 : ∀ t v, s.tgt = some t → s.version = some v →
         t + s.tgtLen < v ∧ s.buf[s.rb + (t + s.tgtLen)]? = some 0

/-- the strengthened invariant -/
structure RLInvX (F : RLFlags) (s : RL) : Prop where
  inv : RLInv s
  x : RLX F s

theorem RLInvX.toInv {F : RLFlags} {s : RL} (h : RLInvX F s) : RLInv s := h.inv

theorem get_some_lt {buf : Bytes} {i : Nat} {x : UInt8} (h : buf[i]? = some x) : i < buf.size := by
  by_cases hlt : i < buf.size
  · exact hlt
  · rw [Array.getElem?_eq_none (by omega)] at h; cases h

theorem get_set_ne (buf : Bytes) (i j : Nat) (v : UInt8) (h : i ≠ j) : (buf.setIfInBounds j v)[i]? = buf[i]? := by
  rw [Array.getElem?_setIfInBounds, if_neg (by omega)]

theorem get_set_self (buf : Bytes) (i : Nat) (v : UInt8) (h : i < buf.size) : (buf.setIfInBounds i v)[i]? = some v := by
  rw [Array.getElem?_setIfInBounds, if_pos rfl, if_pos h]

theorem get_some_ext {buf : Bytes} {i : Nat} {x : UInt8} (e : Bytes) (h : buf[i]? = some x) : (buf ++ e)[i]? = some x := by
  rw [Array.getElem?_append_left (get_some_lt h)]; exact h

theorem RLX.init (F : RLFlags) (buf : Bytes) (rb : Nat) : RLX F (RL.init buf rb) := by
  refine ⟨?_, ?_, ?_, ?_, ?_, ?_, ?_, ?_, ?_⟩ <;> simp [RL.init]

theorem RLInvX.init (F : RLFlags) (buf : Bytes) (rb : Nat) (h : rb ≤ buf.size) : RLInvX F (RL.init buf rb) :=
  ⟨RLInv.init buf rb h, RLX.init F buf rb⟩

theorem RLX.ext {F : RLFlags} {s : RL} (h : RLX F s) (e : Bytes) : RLX F (rlExtend s e) := by
  refine ⟨h.m1, h.m2, h.m3, h.v, h.vw, ?_, h.w, ?_, ?_⟩
  · intro q hq
    obtain ⟨a, b, c⟩ := h.q q hq
    exact ⟨a, get_some_ext e b, c⟩
  · intro hf t ht hv hw
    obtain ⟨a, b⟩ := h.s1 hf t ht hv hw
    exact ⟨a, get_some_ext e b⟩
  · intro t v ht hv
    obtain ⟨a, b⟩ := h.s2 t v ht hv
    exact ⟨a, get_some_ext e b⟩

theorem RLInvX.ext {F : RLFlags} {s : RL} (h : RLInvX F s) (e : Bytes) : RLInvX F (rlExtend s e) :=
  ⟨h.inv.ext e, h.x.ext e⟩

/-! ### updates that keep the invariant -/

theorem RLX.setP {F : RLFlags} {s : RL} (hi : RLInv s) (h : RLX F s) (x : UInt8) (n : Nat) :
    RLX F { s with buf := s.buf.setIfInBounds (s.rb + s.p) x, crSp := n } := by
  refine ⟨h.m1, h.m2, h.m3, h.v, h.vw, ?_, h.w, ?_, ?_⟩
  · intro q hq
    obtain ⟨a, b, c⟩ := h.q q hq
    refine ⟨a, ?_, c⟩
    show (s.buf.setIfInBounds (s.rb + s.p) x)[s.rb + q]? = _
    rw [get_set_ne _ _ _ _ (by omega)]; exact b
  · intro hf t ht hv hw
    obtain ⟨a, b⟩ := h.s1 hf t ht hv hw
    have := h.w t ht hw; have := hi.hws
    refine ⟨a, ?_⟩
    show (s.buf.setIfInBounds (s.rb + s.p) x)[s.rb + s.wsStart]? = _
    rw [get_set_ne _ _ _ _ (by omega)]; exact b
  · intro t v ht hv
    obtain ⟨a, b⟩ := h.s2 t v ht hv
    have := (hi.hver v hv).1
    refine ⟨a, ?_⟩
    show (s.buf.setIfInBounds (s.rb + s.p) x)[s.rb + (t + s.tgtLen)]? = _
    rw [get_set_ne _ _ _ _ (by omega)]; exact b

theorem RLX.pSucc {F : RLFlags} {s : RL} (h : RLX F s) (n : Nat) : RLX F { s with numWs := n, p := s.p + 1 } :=
  ⟨h.m1, h.m2, h.m3, h.v, h.vw,
   fun q hq => by obtain ⟨a, b⟩ := h.q q hq; exact ⟨by show q < s.p + 1; omega, b⟩, h.w, h.s1, h.s2⟩

theorem RLX.qSet {F : RLFlags} {s : RL} (hi : RLInv s) (h : RLX F s) (t : Nat) (ht : s.tgt = some t)
    (hc : s.buf[s.rb + s.p]? = some 63) : RLX F { s with qmark := some s.p, p := s.p + 1 } := by
  refine ⟨h.m1, h.m2, h.m3, h.v, h.vw, ?_, h.w, h.s1, h.s2⟩
  intro q hq
  have hq' : s.p = q := by simpa using hq
  subst hq'
  refine ⟨by show s.p < s.p + 1; omega, hc, t, ht, (hi.htgt t ht).2, fun _ => Or.inr hi.hws.2, fun v hv => Or.inr (hi.hver v hv).1⟩

/-- the target starts here -/
theorem RLX.tgtStart {F : RLFlags} {s : RL} (hi : RLInv s) (h : RLX F s) (htn : s.tgt = none) (hp : s.p = s.wsEnd) :
    RLX F { s with tgt := some s.p, wsStart := 0, wsEnd := 0 } := by
  refine ⟨h.m1, ?_, ?_, h.v, fun _ _ => rfl, ?_, ?_, ?_, ?_⟩
  · intro hm t ht
    have ht' : s.p = t := by simpa using ht
    have := h.m3 hm htn
    show s.methodLen < t; omega
  · intro _ hn; simp at hn
  · intro q hq
    obtain ⟨_, _, t, ht, _⟩ := h.q q hq
    rw [htn] at ht; cases ht
  · intro t _ hw; exact absurd rfl hw
  · intro _ t _ _ hw; exact absurd rfl hw
  · intro t v _ hv
    exact absurd htn (hi.hver v hv).2

/-- the version starts here (the URI ended at the preceding whitespace) -/
theorem RLX.verStart {F : RLFlags} {s : RL} (hi : RLInv s) (h : RLX F s) (t0 : Nat) (ht0 : s.tgt = some t0)
    (hf : F.wspInUri = false) (hp : s.p = s.wsEnd) (hne : s.wsEnd ≠ 0) :
    RLX F { s with version := some s.p, wsStart := 0, wsEnd := 0 } := by
  have hvn : s.version = none := by
    cases hv : s.version with
    | none => rfl
    | some v0 => exact absurd (h.vw v0 hv) hne
  have hs1 := h.s1 hf t0 ht0 hvn hne
  have hw := h.w t0 ht0 hne
  refine ⟨h.m1, h.m2, ?_, ?_, fun _ _ => rfl, ?_, ?_, ?_, ?_⟩
  · intro _ hn; rw [ht0] at hn; cases hn
  · intro ht; rw [hf] at ht; cases ht
  · intro q hq
    obtain ⟨a, b, t, ht, c, d, _⟩ := h.q q hq
    refine ⟨a, b, t, ht, c, fun hw' => absurd rfl hw', ?_⟩
    intro v hv
    have hv' : s.p = v := by simpa using hv
    rw [ht0] at ht; cases ht
    left
    show q < t0 + s.tgtLen
    have := d hne
    omega
  · intro t _ hw'; exact absurd rfl hw'
  · intro _ t _ hv; simp at hv
  · intro t v ht hv
    have hv' : s.p = v := by simpa using hv
    rw [ht0] at ht; cases ht
    have e : t0 + s.tgtLen = s.wsStart := by omega
    refine ⟨by show t0 + s.tgtLen < v; omega, ?_⟩
    show s.buf[s.rb + (t0 + s.tgtLen)]? = some 0
    rw [e]; exact hs1.2

theorem endOfWspStrict_x (F : RLFlags) (s : RL) (hi : RLInv s) (h : RLX F s) : RLX F (endOfWspStrict F s) := by
  unfold endOfWspStrict
  split
  next hc =>
    simp only [Bool.and_eq_true, Bool.not_eq_true', beq_iff_eq, bne_iff_ne, ne_eq] at hc
    obtain ⟨⟨_, hpe⟩, hne⟩ := hc
    split
    next ht => exact RLX.tgtStart hi h ht hpe
    next t ht =>
      split
      next hf =>
        simp only [Bool.not_eq_true'] at hf
        exact RLX.verStart hi h t ht hf hpe hne
      · exact h
  · exact h

theorem endOfWspBlock_x (F : RLFlags) (s : RL) (hi : RLInv s) (h : RLX F s) : RLX F (endOfWspBlock F s) := by
  unfold endOfWspBlock
  split
  next hc =>
    simp only [Bool.and_eq_true, beq_iff_eq, bne_iff_ne, ne_eq] at hc
    obtain ⟨⟨hpe, hne⟩, _⟩ := hc
    split
    next ht => exact RLX.tgtStart hi h ht hpe
    next t ht =>
      split
      next hf =>
        simp only [Bool.not_eq_true'] at hf
        exact RLX.verStart hi h t ht hf hpe hne
      · exact h
  · exact h

/-! ### a whitespace character -/

theorem onWsp_x (F : RLFlags) (s : RL) (hi : RLInv s) (h : RLX F s) (hb : s.rb + s.p < s.buf.size) :
    ∀ s', onWsp F s = .advance s' → RLX F s' ∧ s'.rb = s.rb := by
  intro s'
  unfold onWsp
  split
  next hc =>
    dsimp only
    split
    next hm =>
      simp only [Bool.not_eq_true'] at hm
      split
      · intro h'; cases h'
      next hp0 =>
        simp only [beq_iff_eq] at hp0
        rw [wr_in hb]
        have hr : rdRange (s.buf.setIfInBounds (s.rb + s.p) 0) s.rb s.p
            = some ((s.buf.setIfInBounds (s.rb + s.p) 0).extract s.rb (s.rb + s.p)).toList := by
          unfold rdRange; rw [if_pos (by simp only [Array.size_setIfInBounds]; omega)]
        rw [hr]
        dsimp only
        intro h'
        injection h' with h'
        subst h'
        have hn := hi.hnom hm
        refine ⟨⟨fun _ => by show 1 ≤ s.p; omega, ?_, fun _ _ => by show s.p < s.p + 1; omega, fun _ => hn.2.2, ?_, ?_, ?_, ?_, ?_⟩, rfl⟩
        · intro _ t ht; rw [hn.2.1] at ht; cases ht
        · intro v hv; rw [hn.2.2] at hv; cases hv
        · intro q hq
          obtain ⟨_, _, t, ht, _⟩ := h.q q hq
          rw [hn.2.1] at ht; cases ht
        · intro t ht; rw [hn.2.1] at ht; cases ht
        · intro _ t ht; rw [hn.2.1] at ht; cases ht
        · intro t v ht; rw [hn.2.1] at ht; cases ht
    next hm =>
      simp only [Bool.not_eq_true', Bool.not_eq_false] at hm
      split
      next hw =>
        simp only [Bool.not_eq_true'] at hw
        split
        next hv =>
          split
          next ht => intro h'; cases h'
          next t ht =>
            rw [wr_in hb]
            intro h'
            injection h' with h'
            subst h'
            have htp := hi.htgt t ht
            refine ⟨⟨h.m1, h.m2, ?_, fun _ => hv, ?_, ?_, ?_, ?_, ?_⟩, rfl⟩
            · intro _ hn; rw [ht] at hn; cases hn
            · intro v hv'; rw [hv] at hv'; cases hv'
            · intro q hq
              obtain ⟨a, b, t', ht', c, _, _⟩ := h.q q hq
              refine ⟨by show q < s.p + 1; omega, ?_, t', ht', c, fun _ => Or.inl a, ?_⟩
              · show (s.buf.setIfInBounds (s.rb + s.p) 0)[s.rb + q]? = _
                rw [get_set_ne _ _ _ _ (by omega)]; exact b
              · intro v hv'; rw [hv] at hv'; cases hv'
            · intro t' ht' _
              have := hi.htgt t' ht'
              exact ⟨this.2, by show s.p < s.p + 1; omega⟩
            · intro _ t' ht' _ _
              rw [ht] at ht'; cases ht'
              exact ⟨rfl, get_set_self _ _ _ hb⟩
            · intro t' v _ hv'; rw [hv] at hv'; cases hv'
        next v hv => intro h'; unfold RL.errReply at h'; cases h'
      next hw =>
        simp only [Bool.not_eq_true', Bool.not_eq_false] at hw
        have key : ∀ n, RLX F { s with numWs := n, wsStart := s.p, wsEnd := s.p + 1, p := s.p + 1 } := by
          intro n
          have hvn := h.v hw
          refine ⟨h.m1, h.m2, ?_, h.v, ?_, ?_, ?_, ?_, h.s2⟩
          · intro hm' hn
            have := h.m3 hm' hn; have := hi.hws
            show s.methodLen < s.p + 1; omega
          · intro v hv'; rw [hvn] at hv'; cases hv'
          · intro q hq
            obtain ⟨a, b, t, ht, c, _, e⟩ := h.q q hq
            exact ⟨by show q < s.p + 1; omega, b, t, ht, c, fun _ => Or.inl a, e⟩
          · intro t ht _
            have := hi.htgt t ht
            exact ⟨this.2, by show s.p < s.p + 1; omega⟩
          · intro hf; rw [hw] at hf; cases hf
        split
        · intro h'; injection h' with h'; subst h'; exact ⟨key _, rfl⟩
        · intro h'; injection h' with h'; subst h'; exact ⟨key _, rfl⟩
  next hc =>
    simp only [Bool.or_eq_true, beq_iff_eq, bne_iff_ne, ne_eq, Bool.not_eq_true', not_or, Decidable.not_not,
      Bool.not_eq_false] at hc
    obtain ⟨⟨hne, hpe⟩, _⟩ := hc
    intro h'
    injection h' with h'
    subst h'
    refine ⟨⟨h.m1, h.m2, ?_, h.v, ?_, ?_, ?_, ?_, h.s2⟩, rfl⟩
    · intro hm' hn
      have := h.m3 hm' hn
      show s.methodLen < s.p + 1; omega
    · intro v hv'; exact absurd (h.vw v hv') hne
    · intro q hq
      obtain ⟨a, b, t, ht, c, d, e⟩ := h.q q hq
      refine ⟨by show q < s.p + 1; omega, b, t, ht, c, fun _ => ?_, e⟩
      have := d hne
      left; show q < s.wsStart; omega
    · intro t ht _
      have := h.w t ht hne
      exact ⟨this.1, by show s.wsStart < s.p + 1; omega⟩
    · intro hf t ht hv _
      exact h.s1 hf t ht hv hne

/-! ### any other character -/

theorem onOther_x (F : RLFlags) (s : RL) (chr : UInt8) (hm : Mid F s) (h : RLX F s)
    (hc : s.buf[s.rb + s.p]? = some chr) :
    ∀ s', onOther F s chr = .advance s' → RLX F s' ∧ s'.rb = s.rb := by
  intro s'
  unfold onOther
  have h1 := endOfWspBlock_inv F s hm
  have h2 := endOfWspBlock_same F s
  have h3 := endOfWspBlock_x F s hm.toRLInv h
  generalize endOfWspBlock F s = s1 at h1 h2 h3
  obtain ⟨hi, _⟩ := h1
  obtain ⟨e1, e2, e3⟩ := h2
  have hc1 : s1.buf[s1.rb + s1.p]? = some chr := by rw [e1, e2, e3]; exact hc
  dsimp only
  split
  next hq =>
    have hq' : chr = 63 := by simpa using hq
    split
    next hcond =>
      simp only [Bool.and_eq_true, Option.isNone_iff_eq_none, Option.isSome_iff_exists] at hcond
      obtain ⟨_, t, ht⟩ := hcond
      intro h'; injection h' with h'; subst h'
      exact ⟨RLX.qSet hi h3 t ht (by rw [hc1, hq']), e2⟩
    · intro h'; injection h' with h'; subst h'
      exact ⟨RLX.pSucc h3 s1.numWs, e2⟩
  · split
    · split
      · intro h'; injection h' with h'; subst h'
        exact ⟨RLX.pSucc h3 _, e2⟩
      · intro h'; unfold RL.errClose at h'; cases h'
    · split
      · intro h'; unfold RL.errClose at h'; cases h'
      · intro h'; injection h' with h'; subst h'
        exact ⟨RLX.pSucc h3 s1.numWs, e2⟩

theorem processChar_x (F : RLFlags) (s : RL) (chr : UInt8) (hi : RLInv s) (h : RLX F s)
    (hc : s.buf[s.rb + s.p]? = some chr) :
    ∀ s', processChar F s chr = .advance s' → RLX F s' ∧ s'.rb = s.rb := by
  intro s'
  unfold processChar
  have h1 := endOfWspStrict_mid F s hi
  have h2 := endOfWspStrict_same F s
  have h3 := endOfWspStrict_x F s hi h
  generalize endOfWspStrict F s = s1 at h1 h2 h3
  obtain ⟨e1, e2, e3⟩ := h2
  have hc1 : s1.buf[s1.rb + s1.p]? = some chr := by rw [e1, e2, e3]; exact hc
  have hb1 : s1.rb + s1.p < s1.buf.size := get_some_lt hc1
  dsimp only
  split
  · intro h'
    have := onWsp_x F s1 h1.toRLInv h3 hb1 s' h'
    exact ⟨this.1, by rw [this.2, e2]⟩
  · intro h'
    have := onOther_x F s1 chr h1 h3 hc1 s' h'
    exact ⟨this.1, by rw [this.2, e2]⟩

theorem handleEol_noadv (F : RLFlags) (s : RL) (chr : UInt8) (hi : RLInv s) (hb : s.rb + s.p < s.buf.size) :
    ∀ s', handleEol F s chr ≠ .advance s' :=
  (handleEol_ok F chr s #[] hi hb).noadv

theorem charStep_x (F : RLFlags) (s : RL) (hi : RLInv s) (h : RLX F s) :
    ∀ s', charStep F s = .advance s' → RLX F s' ∧ s'.rb = s.rb := by
  intro s'
  unfold charStep
  cases hc : s.buf[s.rb + s.p]? with
  | none => intro h'; cases h'
  | some chr =>
    have hb := fill_gt hc
    dsimp only
    split
    · split
      · intro h'; cases h'
      next hne =>
        cases hn : s.buf[s.rb + s.p + 1]? with
        | none => intro h'; cases h'
        | some nxt =>
          dsimp only
          split
          · intro h'; exact absurd h' (handleEol_noadv F s chr hi hb s')
          · split
            · rw [wr_in hb]
              intro h'
              have := processChar_x F { s with buf := s.buf.setIfInBounds (s.rb + s.p) cSP, crSp := s.crSp + 1 } cSP
                (hi.setBuf _ (by simp) _) (RLX.setP hi h cSP _) (get_set_self _ _ _ hb) s' h'
              exact this
            · split
              · intro h'; unfold RL.errReply at h'; cases h'
              · exact processChar_x F s chr hi h hc s'
    · split
      · split
        · intro h'; exact absurd h' (handleEol_noadv F s chr hi hb s')
        · intro h'; unfold RL.errReply at h'; cases h'
      · exact processChar_x F s chr hi h hc s'

/-- with `p = 0` nothing has been recognised yet: every clause is vacuous, whatever `rb` -/
theorem RLX.atStart {F : RLFlags} {s : RL} (hi : RLInv s) (h : RLX F s) (hp0 : s.p = 0) (rb' k : Nat) :
    RLX F { s with rb := rb', skipped := k } := by
  have htn : s.tgt = none := by
    cases ht : s.tgt with
    | none => rfl
    | some t => have := hi.htgt t ht; omega
  have hmf : s.hasMethod = false := by
    cases hm : s.hasMethod with
    | false => rfl
    | true => have := hi.hmeth hm htn; omega
  have hn := hi.hnom hmf
  refine ⟨?_, ?_, ?_, fun _ => hn.2.2, ?_, ?_, ?_, ?_, ?_⟩
  · intro hm; rw [hmf] at hm; cases hm
  · intro hm; rw [hmf] at hm; cases hm
  · intro hm; rw [hmf] at hm; cases hm
  · intro v hv; rw [hn.2.2] at hv; cases hv
  · intro q hq
    have := (h.q q hq).1
    omega
  · intro t ht; rw [htn] at ht; cases ht
  · intro _ t ht; rw [htn] at ht; cases ht
  · intro t v ht; rw [htn] at ht; cases ht

theorem afterEmptyLine_adv (F : RLFlags) (s s' : RL) (h : afterEmptyLine F s = .advance s') : s' = s := by
  unfold afterEmptyLine at h
  by_cases hc : (!F.skipUnlimited &&
      decide ((if F.skipSeveral then Gen.Discipline.maxEmptyLinesSkip else 1) < s.skipped)) = true
  · rw [if_pos hc] at h; unfold RL.errClose at h; cases h
  · rw [if_neg hc] at h; injection h with h; exact h.symm

theorem skipStep_x (F : RLFlags) (s : RL) (hi : RLInv s) (h : RLX F s) (hp0 : s.p = 0) (r : Step RL RLDone)
    (hr : skipStep F s = some r) : ∀ s', r = .advance s' → RLX F s' ∧ s.rb ≤ s'.rb := by
  intro s' hs'
  subst hs'
  unfold skipStep at hr
  split at hr
  · cases hr
  next c0 hc0 =>
    split at hr
    · split at hr
      · cases hr
      · split at hr
        · cases hr
        next c1 hc1 =>
          split at hr
          · injection hr with hr
            have := afterEmptyLine_adv F _ _ hr
            subst this
            exact ⟨RLX.atStart hi h hp0 _ _, by show s.rb ≤ s.rb + 2; omega⟩
          · cases hr
    · split at hr
      · injection hr with hr
        have := afterEmptyLine_adv F _ _ hr
        subst this
        exact ⟨RLX.atStart hi h hp0 _ _, by show s.rb ≤ s.rb + 1; omega⟩
      · cases hr

theorem rlStep_x (F : RLFlags) (s : RL) (hi : RLInv s) (h : RLX F s) :
    ∀ s', rlStep F s = .advance s' → RLX F s' ∧ s.rb ≤ s'.rb := by
  intro s'
  have cs : charStep F s = .advance s' → RLX F s' ∧ s.rb ≤ s'.rb := by
    intro h'
    have := charStep_x F s hi h s' h'
    exact ⟨this.1, by rw [this.2]; exact Nat.le_refl _⟩
  unfold rlStep
  split
  next hc =>
    simp only [Bool.and_eq_true, beq_iff_eq] at hc
    cases hsk : skipStep F s with
    | none => exact cs
    | some r =>
      dsimp only
      intro h'
      exact skipStep_x F s hi h hc.1 r hsk s' h'
  · exact cs

/-! ### the end of the line -/

theorem parseHttpVersion_ok {vs : List UInt8} {hv : Int} (h : parseHttpVersion vs = .ok hv) :
    vs.length = Gen.Discipline.httpVerLen ∧ ∀ i, i < 8 → vs.getD i 0 ≠ 63 := by
  unfold parseHttpVersion at h
  dsimp only at h
  split at h
  · cases h
  next hc =>
    simp only [not_or, Decidable.not_not] at hc
    obtain ⟨h0, h1, h2, h3, h4, h5, h6, h7, h8, h9, h10⟩ := hc
    refine ⟨h0, ?_⟩
    intro i hi
    have : i = 0 ∨ i = 1 ∨ i = 2 ∨ i = 3 ∨ i = 4 ∨ i = 5 ∨ i = 6 ∨ i = 7 := by omega
    rcases this with rfl | rfl | rfl | rfl | rfl | rfl | rfl | rfl
    · rw [h1]; decide
    · rw [h2]; decide
    · rw [h3]; decide
    · rw [h4]; decide
    · rw [h5]; decide
    · intro h63; rw [h63] at h8; exact h8 (by decide)
    · rw [h6]; decide
    · intro h63; rw [h63] at h10; exact h10 (by decide)

theorem finishLine_post (s : RL) (chr : UInt8) (t v : Nat) (r : ReqLine)
    (h : finishLine s chr t v = .done (.ok r))
    (hb : s.rb + s.p < s.buf.size) (hcr : chr = cCR → s.rb + s.p + 1 < s.buf.size) (hvp : v ≤ s.p) (ht1 : 1 ≤ t)
    (htl : t + s.tgtLen < v) (hnul : s.buf[s.rb + (t + s.tgtLen)]? = some 0)
    (hq : ∀ q, s.qmark = some q → s.buf[s.rb + q]? = some 63 ∧ q < s.p ∧ t ≤ q ∧ (q < t + s.tgtLen ∨ v ≤ q)) :
    RLPost r ∧ r.buf.size = s.buf.size ∧ r.method = s.rb := by
  unfold finishLine at h
  have hr : rdRange s.buf (s.rb + v) (s.p - v) = some (s.buf.extract (s.rb + v) (s.rb + v + (s.p - v))).toList := by
    unfold rdRange; rw [if_pos (by omega)]
  rw [hr] at h
  dsimp only at h
  cases hp : parseHttpVersion (s.buf.extract (s.rb + v) (s.rb + v + (s.p - v))).toList with
  | error c => rw [hp] at h; cases h
  | ok hv =>
    rw [hp] at h
    dsimp only at h
    rw [wr_in hb] at h
    injection h with h
    injection h with h
    subst h
    obtain ⟨hlen, hno⟩ := parseHttpVersion_ok hp
    have hl8 : s.p - v = 8 := by
      have : (s.buf.extract (s.rb + v) (s.rb + v + (s.p - v))).toList.length = s.p - v := by
        simp only [Array.length_toList, Array.size_extract]; omega
      rw [this] at hlen; exact hlen
    refine ⟨⟨?_, ?_, ?_, ?_, ?_, ?_⟩, by simp, rfl⟩
    · show s.rb + (if chr == cCR then s.p + 2 else s.p + 1) ≤ (s.buf.setIfInBounds (s.rb + s.p) 0).size
      simp only [Array.size_setIfInBounds]
      split
      next hc => have := hcr (by simpa using hc); omega
      · omega
    · show s.rb < s.rb + t; omega
    · show s.rb + t + s.tgtLen < s.rb + v; omega
    · show (s.buf.setIfInBounds (s.rb + s.p) 0)[s.rb + t + s.tgtLen]? = some 0
      rw [get_set_ne _ _ _ _ (by omega), show s.rb + t + s.tgtLen = s.rb + (t + s.tgtLen) by omega]; exact hnul
    · intro q' hq'
      cases hqq : s.qmark with
      | none => rw [hqq] at hq'; simp at hq'
      | some q =>
        rw [hqq] at hq'
        have e : s.rb + q = q' := by simpa using hq'
        subst e
        obtain ⟨b, a, c, d⟩ := hq q hqq
        show s.rb + t ≤ s.rb + q ∧ s.rb + q < s.rb + t + s.tgtLen
        rcases d with d | d
        · omega
        · exfalso
          have hget : (s.buf.extract (s.rb + v) (s.rb + v + (s.p - v))).toList.getD (q - v) 0 = 63 := by
            rw [List.getD_eq_getElem?_getD, Array.getElem?_toList, Array.getElem?_extract, if_pos (by omega),
              show s.rb + v + (q - v) = s.rb + q by omega, b]; rfl
          exact hno (q - v) (by omega) hget
    · show s.rb + v + Gen.Discipline.httpVerLen + 1 ≤ s.rb + (if chr == cCR then s.p + 2 else s.p + 1)
      have : Gen.Discipline.httpVerLen = 8 := rfl
      rw [this]
      split <;> omega

theorem eolFinish_none (chr : UInt8) (s : RL) (r : ReqLine) (hv : s.version = none) : eolFinish chr s ≠ .done (.ok r) := by
  unfold eolFinish
  rw [hv]
  unfold RL.errReply
  intro h; cases h

theorem handleEol_post (F : RLFlags) (s : RL) (chr : UInt8) (r : ReqLine) (hi : RLInv s) (h : RLX F s)
    (hb : s.rb + s.p < s.buf.size) (hcr : chr = cCR → s.rb + s.p + 1 < s.buf.size)
    (hd : handleEol F s chr = .done (.ok r)) : RLPost r ∧ r.buf.size = s.buf.size ∧ r.method = s.rb := by
  unfold handleEol at hd
  have hws := hi.hws
  by_cases hm : s.hasMethod = true
  · rw [if_pos hm] at hd
    by_cases hw : F.wspInUri = true
    · rw [if_pos hw] at hd
      have hvn := h.v hw
      unfold eolResolveWspInUri at hd
      by_cases hne : s.wsEnd ≠ 0
      · rw [if_pos hne] at hd
        cases ht : s.tgt with
        | some t =>
          rw [ht] at hd
          have hwt := h.w t ht hne
          have hiw : s.rb + s.wsStart < s.buf.size := by omega
          dsimp only at hd
          rw [wr_in hiw] at hd
          unfold eolFinish at hd
          dsimp only at hd
          have := finishLine_post _ chr t s.wsEnd r hd (by simpa using hb) (by simpa using hcr) hws.2 (hi.htgt t ht).1
            (by show t + (s.wsStart - t) < s.wsEnd; omega)
            (by show (s.buf.setIfInBounds (s.rb + s.wsStart) 0)[s.rb + (t + (s.wsStart - t))]? = some 0
                rw [show t + (s.wsStart - t) = s.wsStart by omega]; exact get_set_self _ _ _ hiw)
            (by intro q hq
                obtain ⟨a, b, t', ht', c, d, _⟩ := h.q q hq
                rw [ht] at ht'; cases ht'
                have dd := d hne
                refine ⟨?_, a, c, ?_⟩
                · show (s.buf.setIfInBounds (s.rb + s.wsStart) 0)[s.rb + q]? = some 63
                  rw [get_set_ne _ _ _ _ (by omega)]; exact b
                · show q < t + (s.wsStart - t) ∨ s.wsEnd ≤ q
                  omega)
          exact ⟨this.1, by rw [this.2.1]; simp, this.2.2⟩
        | none =>
          rw [ht] at hd
          dsimp only at hd
          by_cases hc : s.wsStart + 1 < s.wsEnd ∧ Gen.Discipline.httpVerLen = s.p - s.wsEnd
          · rw [if_pos hc] at hd
            have hiw : s.rb + (s.wsStart + 1) < s.buf.size := by omega
            rw [wr_in hiw] at hd
            unfold eolFinish at hd
            dsimp only at hd
            have := finishLine_post _ chr (s.wsStart + 1) s.wsEnd r hd (by simpa using hb) (by simpa using hcr) hws.2 (by omega)
              (by show s.wsStart + 1 + 0 < s.wsEnd; omega)
              (by show (s.buf.setIfInBounds (s.rb + (s.wsStart + 1)) 0)[s.rb + (s.wsStart + 1 + 0)]? = some 0
                  exact get_set_self _ _ _ hiw)
              (by intro q hq; simp at hq)
            exact ⟨this.1, by rw [this.2.1]; simp, this.2.2⟩
          · rw [if_neg hc] at hd
            exact absurd hd (eolFinish_none chr s r hvn)
      · rw [if_neg hne] at hd
        exact absurd hd (eolFinish_none chr s r hvn)
    · rw [if_neg hw] at hd
      have hf : F.wspInUri = false := by simpa using hw
      unfold eolResolveStrict at hd
      cases hv : s.version with
      | some v =>
        rw [hv] at hd
        dsimp only at hd
        have hvv := hi.hver v hv
        cases ht : s.tgt with
        | none => exact absurd ht hvv.2
        | some t =>
          unfold eolFinish at hd
          rw [hv, ht] at hd
          dsimp only at hd
          have hs2 := h.s2 t v ht hv
          exact finishLine_post s chr t v r hd hb hcr hvv.1 (hi.htgt t ht).1 hs2.1 hs2.2
            (by intro q hq
                obtain ⟨a, b, t', ht', c, _, e⟩ := h.q q hq
                rw [ht] at ht'; cases ht'
                exact ⟨b, a, c, e v hv⟩)
      | none =>
        rw [hv] at hd
        cases ht : s.tgt with
        | none =>
          rw [ht] at hd
          dsimp only at hd
          exact absurd hd (eolFinish_none chr s r hv)
        | some t =>
          rw [ht] at hd
          dsimp only at hd
          have h3 := hi.htgt t ht
          by_cases hc : Gen.Discipline.httpVerLen = s.p - t
          · rw [if_pos hc, if_neg (by omega)] at hd
            have hi1 : s.rb + t - 1 < s.buf.size := by omega
            cases hg : s.buf[s.rb + t - 1]? with
            | none =>
              exfalso
              have := (Array.getElem?_eq_none_iff).mp hg
              omega
            | some b =>
              rw [hg] at hd
              dsimp only at hd
              by_cases hb0 : b ≠ 0
              · rw [if_pos hb0] at hd
                have hi2 : s.rb + (t - 1) < s.buf.size := by omega
                rw [wr_in hi2] at hd
                unfold eolFinish at hd
                dsimp only at hd
                have hm1 := h.m1 hm
                have hm2 := h.m2 hm t ht
                have := finishLine_post _ chr (t - 1) t r hd (by simpa using hb) (by simpa using hcr) h3.2 (by omega)
                  (by show t - 1 + 0 < t; omega)
                  (by show (s.buf.setIfInBounds (s.rb + (t - 1)) 0)[s.rb + (t - 1 + 0)]? = some 0
                      exact get_set_self _ _ _ hi2)
                  (by intro q hq; simp at hq)
                exact ⟨this.1, by rw [this.2.1]; simp, this.2.2⟩
              · rw [if_neg hb0] at hd
                exact absurd hd (eolFinish_none chr s r hv)
          · rw [if_neg hc] at hd
            exact absurd hd (eolFinish_none chr s r hv)
  · rw [if_neg hm] at hd
    unfold RL.errReply at hd; cases hd

theorem processChar_notok (F : RLFlags) (s : RL) (chr : UInt8) (r : ReqLine) : processChar F s chr ≠ .done (.ok r) := by
  unfold processChar onWsp onOther wr RL.errReply RL.errClose
  dsimp only
  repeat' split
  all_goals (intro h; cases h)

theorem charStep_post (F : RLFlags) (s : RL) (r : ReqLine) (hi : RLInv s) (h : RLX F s)
    (hd : charStep F s = .done (.ok r)) : RLPost r ∧ r.buf.size = s.buf.size ∧ r.method = s.rb := by
  unfold charStep at hd
  cases hc : s.buf[s.rb + s.p]? with
  | none => rw [hc] at hd; cases hd
  | some chr =>
    rw [hc] at hd
    have hb := fill_gt hc
    dsimp only at hd
    by_cases hcr : (chr == cCR) = true
    · rw [if_pos hcr] at hd
      by_cases hfill : (s.p + 1 == s.fill) = true
      · rw [if_pos hfill] at hd; cases hd
      · rw [if_neg hfill] at hd
        simp only [RL.fill, beq_iff_eq] at hfill
        have hi1 : s.rb + s.p + 1 < s.buf.size := by omega
        cases hn : s.buf[s.rb + s.p + 1]? with
        | none => rw [hn] at hd; cases hd
        | some nxt =>
          rw [hn] at hd
          dsimp only at hd
          by_cases hlf : (nxt == cLF) = true
          · rw [if_pos hlf] at hd
            exact handleEol_post F s chr r hi h hb (fun _ => hi1) hd
          · rw [if_neg hlf] at hd
            by_cases h1 : F.bareCrAsSp = true
            · rw [if_pos h1, wr_in hb] at hd
              exact absurd hd (processChar_notok F _ _ r)
            · rw [if_neg h1] at hd
              by_cases h2 : (!F.bareCrKeep) = true
              · rw [if_pos h2] at hd; unfold RL.errReply at hd; cases hd
              · rw [if_neg h2] at hd
                exact absurd hd (processChar_notok F _ _ r)
    · rw [if_neg hcr] at hd
      by_cases hlf : (chr == cLF) = true
      · rw [if_pos hlf] at hd
        by_cases h1 : F.bareLfAsCrlf = true
        · rw [if_pos h1] at hd
          exact handleEol_post F s chr r hi h hb (fun hc' => by rw [hc'] at hcr; simp at hcr) hd
        · rw [if_neg h1] at hd; unfold RL.errReply at hd; cases hd
      · rw [if_neg hlf] at hd
        exact absurd hd (processChar_notok F _ _ r)

theorem afterEmptyLine_notok (F : RLFlags) (s : RL) (r : ReqLine) : afterEmptyLine F s ≠ .done (.ok r) := by
  unfold afterEmptyLine RL.errClose
  by_cases hc : (!F.skipUnlimited &&
      decide ((if F.skipSeveral then Gen.Discipline.maxEmptyLinesSkip else 1) < s.skipped)) = true
  · rw [if_pos hc]; intro h; cases h
  · rw [if_neg hc]; intro h; cases h

theorem skipStep_notok (F : RLFlags) (s : RL) (r : ReqLine) : skipStep F s ≠ some (.done (.ok r)) := by
  unfold skipStep
  repeat' split
  all_goals first
    | (intro h; cases h; done)
    | (intro h; injection h with h; exact absurd h (afterEmptyLine_notok F _ r))

theorem rlStep_post (F : RLFlags) (s : RL) (r : ReqLine) (hi : RLInv s) (h : RLX F s)
    (hd : rlStep F s = .done (.ok r)) : RLPost r ∧ r.buf.size = s.buf.size ∧ r.method = s.rb := by
  unfold rlStep at hd
  split at hd
  · cases hsk : skipStep F s with
    | none => rw [hsk] at hd; exact charStep_post F s r hi h hd
    | some x =>
      rw [hsk] at hd
      dsimp only at hd
      subst hd
      exact absurd hsk (skipStep_notok F s r)
  · exact charStep_post F s r hi h hd

/-! ### the two theorems for users -/

theorem rl_run_both (F : RLFlags) (s : RL) (h : RLInvX F s) :
    (∀ s1, (rlScanner F).run s = .more s1 → RLInvX F s1 ∧ s1.buf.size = s.buf.size ∧ s.rb ≤ s1.rb) ∧
    (∀ r, (rlScanner F).run s = .done (.ok r) → RLPost r ∧ r.buf.size = s.buf.size ∧ s.rb ≤ r.method) := by
  have key := Scanner.run_induct (rlLaws F) (fun s' => RLX F s' ∧ s'.buf.size = s.buf.size ∧ s.rb ≤ s'.rb)
    (by
      intro a b hia hpa hst
      have hst' : rlStep F a = .advance b := hst
      have h1 := rlStep_x F a hia hpa.1 b hst'
      have h2 := (rlStep_ok F a hia).adv b hst'
      exact ⟨h1.1, by rw [h2.2.1]; exact hpa.2.1, Nat.le_trans hpa.2.2 h1.2⟩)
    s h.inv ⟨h.x, rfl, Nat.le_refl _⟩
  constructor
  · intro s1 hr
    obtain ⟨a, b, c, d⟩ := key.1 s1 hr
    exact ⟨⟨a, b⟩, c, d⟩
  · intro r hr
    obtain ⟨s1, a, ⟨b, c, d⟩, e⟩ := key.2 (.ok r) hr
    have e' : rlStep F s1 = .done (.ok r) := e
    have := rlStep_post F s1 r a b e'
    exact ⟨this.1, by rw [this.2.1]; exact c, by rw [this.2.2]; exact d⟩

/-- the scanner stopped waiting for more data: the invariant holds, the buffer has not
    changed its size, `read_buffer` did not move backwards -/
theorem rl_run_more (F : RLFlags) {s s1 : RL} (h : RLInvX F s) (hr : (rlScanner F).run s = .more s1) :
    RLInvX F s1 ∧ s1.buf.size = s.buf.size ∧ s.rb ≤ s1.rb :=
  (rl_run_both F s h).1 s1 hr

/-- **every successfully parsed request line satisfies `RLPost`** — every input, every
    combination of flags -/
theorem rl_run_done (F : RLFlags) {s : RL} {r : ReqLine} (h : RLInvX F s) (hr : (rlScanner F).run s = .done (.ok r)) :
    RLPost r ∧ r.buf.size = s.buf.size ∧ s.rb ≤ r.method :=
  (rl_run_both F s h).2 r hr

end Mhd.Req
