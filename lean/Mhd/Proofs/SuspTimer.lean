import Mhd.Model.SuspTimer
namespace Mhd.SuspTimer

/-- reachable-state invariant: the activity stamp is never older than the last resume, and never in the future -/
structure TInv (s : TState) : Prop where
  fresh : s.suspended = false → s.timeout ≠ 0 → s.resumedAt ≤ s.lastAct
  past : s.lastAct ≤ s.now
  rpast : s.resumedAt ≤ s.now

theorem step_inv (g : TGuards) (hg : g.Sound) (s : TState) (h : TInv s) (op : TOp) : TInv (step g s op) := by
  obtain ⟨g1, g2, g3, g4⟩ := hg
  obtain ⟨h1, h2, h3⟩ := h
  cases op with
  | tick ms => exact ⟨h1, Nat.le_trans h2 (Nat.le_add_right _ _), Nat.le_trans h3 (Nat.le_add_right _ _)⟩
  | setTimeout ms =>
    simp only [step]; split
    · exact ⟨h1, h2, h3⟩
    · exact ⟨fun _ _ => h3, Nat.le_refl _, h3⟩
  | activity =>
    simp only [step]; split
    · exact ⟨h1, h2, h3⟩
    · split
      · exact ⟨h1, h2, h3⟩
      · exact ⟨fun _ _ => h3, Nat.le_refl _, h3⟩
  | idle =>
    simp only [step]; split
    · exact ⟨h1, h2, h3⟩
    · split
      · exact ⟨h1, h2, h3⟩
      · split <;> exact ⟨h1, h2, h3⟩
  | suspend =>
    simp only [step]; split
    · exact ⟨h1, h2, h3⟩
    · exact ⟨fun hx => absurd hx (by simp), h2, h3⟩
  | resume =>
    simp only [step]; split
    · exact ⟨h1, h2, h3⟩
    · refine ⟨fun _ hz => ?_, ?_, Nat.le_refl _⟩
      · show s.now ≤ (if s.timeout ≠ 0 ∧ (if s.inNormal = true then g.restartNormal else g.restartManual) = true then s.now else s.lastAct)
        have : (if s.inNormal = true then g.restartNormal else g.restartManual) = true := by split <;> assumption
        rw [if_pos ⟨hz, this⟩]; exact Nat.le_refl _
      · show (if s.timeout ≠ 0 ∧ (if s.inNormal = true then g.restartNormal else g.restartManual) = true then s.now else s.lastAct) ≤ s.now
        have aux : ∀ (p : Prop) [Decidable p], (if p then s.now else s.lastAct) ≤ s.now := by
          intro p _; split
          · exact Nat.le_refl _
          · exact h2
        exact aux _

theorem run_inv (g : TGuards) (hg : g.Sound) : ∀ (ops : List TOp) (s : TState), TInv s → TInv (run g s ops) := by
  intro ops; induction ops with
  | nil => intro s h; exact h
  | cons op r ih => intro s h; exact ih _ (step_inv g hg s h op)

/-- a start state: clock `t0`, daemon default `dflt`, the connection begins with the default timeout -/
def TState.start (t0 dflt : Nat) : TState := { now := t0, dflt := dflt, timeout := dflt, lastAct := t0, resumedAt := t0 }

theorem start_inv (t0 dflt : Nat) : TInv (TState.start t0 dflt) := ⟨fun _ _ => Nat.le_refl _, Nat.le_refl _, Nat.le_refl _⟩

theorem resume_restarts (g : TGuards) (hg : g.Sound) (s : TState) (hs : s.suspended = true) (ht : s.timeout ≠ 0) :
    (step g s .resume).lastAct = s.now ∧ (step g s .resume).suspended = false ∧ (step g s .resume).resumedAt = s.now := by
  obtain ⟨_, _, g3, g4⟩ := hg
  have : (if s.inNormal = true then g.restartNormal else g.restartManual) = true := by split <;> assumption
  simp [step, hs, ht, this]

theorem idle_suspended (g : TGuards) (hg : g.Sound) (s : TState) (hs : s.suspended = true) : step g s .idle = s := by
  simp [step, hg.2.1, hs]

theorem closed_only_when_idle_long (g : TGuards) (hg : g.Sound) (s : TState) (hi : TInv s) (h0 : s.closedTO = false)
    (h1 : (step g s .idle).closedTO = true) : s.suspended = false ∧ s.timeout ≠ 0 ∧ s.timeout < s.now - s.resumedAt := by
  by_cases hs : s.suspended = true
  · rw [idle_suspended g hg s hs, h0] at h1; exact absurd h1 (by simp)
  · have hs' : s.suspended = false := by simpa using hs
    simp only [step, h0, hs', Bool.and_false, Bool.false_eq_true, if_false] at h1
    by_cases hc : s.timeout ≠ 0 ∧ s.timeout < s.now - s.lastAct
    · have := hi.fresh hs' hc.1
      exact ⟨hs', hc.1, by omega⟩
    · rw [if_neg hc, h0] at h1; exact absurd h1 (by simp)

end Mhd.SuspTimer
