import Mhd.Model.SuspTimer
namespace Mhd.SuspTimer

@[simp] theorem link_now (s : TState) : s.link.now = s.now := by unfold TState.link; split <;> rfl
@[simp] theorem link_lastAct (s : TState) : s.link.lastAct = s.lastAct := by unfold TState.link; split <;> rfl
@[simp] theorem link_resumedAt (s : TState) : s.link.resumedAt = s.resumedAt := by unfold TState.link; split <;> rfl
@[simp] theorem link_suspended (s : TState) : s.link.suspended = s.suspended := by unfold TState.link; split <;> rfl
@[simp] theorem link_timeout (s : TState) : s.link.timeout = s.timeout := by unfold TState.link; split <;> rfl
@[simp] theorem link_closedTO (s : TState) : s.link.closedTO = s.closedTO := by unfold TState.link; split <;> rfl
@[simp] theorem link_dflt (s : TState) : s.link.dflt = s.dflt := by unfold TState.link; split <;> rfl
@[simp] theorem unlink_now (s : TState) : s.unlink.now = s.now := by unfold TState.unlink; split <;> rfl
@[simp] theorem unlink_lastAct (s : TState) : s.unlink.lastAct = s.lastAct := by unfold TState.unlink; split <;> rfl
@[simp] theorem unlink_resumedAt (s : TState) : s.unlink.resumedAt = s.resumedAt := by unfold TState.unlink; split <;> rfl
@[simp] theorem unlink_suspended (s : TState) : s.unlink.suspended = s.suspended := by unfold TState.unlink; split <;> rfl
@[simp] theorem unlink_timeout (s : TState) : s.unlink.timeout = s.timeout := by unfold TState.unlink; split <;> rfl
@[simp] theorem unlink_closedTO (s : TState) : s.unlink.closedTO = s.closedTO := by unfold TState.unlink; split <;> rfl
@[simp] theorem unlink_dflt (s : TState) : s.unlink.dflt = s.dflt := by unfold TState.unlink; split <;> rfl

/-- reachable-state invariant: the activity stamp is never older than the last resume, and never in the future -/
structure TInv (s : TState) : Prop where
  fresh : s.suspended = false → s.timeout ≠ 0 → s.resumedAt ≤ s.lastAct
  past : s.lastAct ≤ s.now
  rpast : s.resumedAt ≤ s.now

theorem TInv_setTO (g : TGuards) (s0 : TState) (ms : Nat) (f1 : s0.suspended = false → s0.resumedAt ≤ s0.lastAct)
    (f2 : s0.lastAct ≤ s0.now) (f3 : s0.resumedAt ≤ s0.now) : TInv (setTO g s0 ms) := by
  unfold setTO
  by_cases hs : s0.suspended = true
  · rw [if_pos hs]
    by_cases hg : g.setSkipsSusp = true
    · rw [if_pos hg]; exact ⟨fun hx => by simp [hs] at hx, f2, f3⟩
    · rw [if_neg hg]; exact ⟨fun hx => by simp [hs] at hx, by simpa using f2, by simpa using f3⟩
  · rw [if_neg hs]
    exact ⟨fun _ _ => by simpa using f1 (by simpa using hs), by simpa using f2, by simpa using f3⟩

theorem step_inv (g : TGuards) (hg : g.Sound) (s : TState) (h : TInv s) (op : TOp) : TInv (step g s op) := by
  obtain ⟨g1, g2, g3, g4, _⟩ := hg
  obtain ⟨h1, h2, h3⟩ := h
  cases op with
  | tick ms => exact ⟨h1, Nat.le_trans h2 (Nat.le_add_right _ _), Nat.le_trans h3 (Nat.le_add_right _ _)⟩
  | setTimeout ms =>
    simp only [step]
    by_cases hz : s.timeout = 0
    · simp only [hz, if_true]
      exact TInv_setTO g _ ms (fun _ => h3) (Nat.le_refl _) h3
    · simp only [hz, if_false]
      exact TInv_setTO g s ms (fun hs => h1 hs hz) h2 h3
  | activity =>
    simp only [step]; split
    · exact ⟨h1, h2, h3⟩
    · split
      · exact ⟨h1, h2, h3⟩
      · exact ⟨fun _ _ => h3, Nat.le_refl _, h3⟩
  | idle =>
    simp only [step]; split
    · exact ⟨h1, h2, h3⟩
    · split
      · exact ⟨h1, h2, h3⟩
      · split <;> exact ⟨h1, h2, h3⟩
  | suspend =>
    simp only [step]; split
    · exact ⟨h1, h2, h3⟩
    · exact ⟨fun hx => absurd hx (by simp), by simpa using h2, by simpa using h3⟩
  | resume =>
    simp only [step]; split
    · exact ⟨h1, h2, h3⟩
    · refine ⟨fun _ hz => ?_, ?_, by simp⟩
      · have hz' : s.timeout ≠ 0 := by simpa using hz
        have : (if s.inNormal = true then g.restartNormal else g.restartManual) = true := by split <;> assumption
        simp [hz', this]
      · have aux : ∀ (p : Prop) [Decidable p], (if p then s.now else s.lastAct) ≤ s.now := by
          intro p _; split
          · exact Nat.le_refl _
          · exact h2
        simpa using aux _

theorem run_inv (g : TGuards) (hg : g.Sound) : ∀ (ops : List TOp) (s : TState), TInv s → TInv (run g s ops) := by
  intro ops; induction ops with
  | nil => intro s h; exact h
  | cons op r ih => intro s h; exact ih _ (step_inv g hg s h op)

/-- a start state: clock `t0`, daemon default `dflt`, the connection begins with the default timeout -/
def TState.start (t0 dflt : Nat) : TState :=
  { now := t0, dflt := dflt, timeout := dflt, lastAct := t0, resumedAt := t0, cntNormal := 1 }

theorem start_inv (t0 dflt : Nat) : TInv (TState.start t0 dflt) := ⟨fun _ _ => Nat.le_refl _, Nat.le_refl _, Nat.le_refl _⟩

/-! ### the two timeout lists -/

/-- a suspended connection is linked into no timeout list; any other connection into exactly one, exactly
    once: the default-timeout list iff its timeout equals the daemon default -/
def LInv (s : TState) : Prop :=
  (s.suspended = true → s.cntNormal = 0 ∧ s.cntManual = 0) ∧
  (s.suspended = false → (s.inNormal = true → s.cntNormal = 1 ∧ s.cntManual = 0) ∧
                          (s.inNormal = false → s.cntNormal = 0 ∧ s.cntManual = 1))

theorem LInv_link (s : TState) (h : s.cntNormal = 0 ∧ s.cntManual = 0) (hs : s.suspended = false) : LInv s.link := by
  unfold TState.link LInv
  by_cases hn : s.inNormal = true
  · simp [hn, hs, h.1, h.2, TState.inNormal] at *; simp [hn]
  · simp [hn, hs, h.1, h.2, TState.inNormal] at *; simp [hn]

theorem unlink_counts (s : TState) (h : LInv s) (hs : s.suspended = false) : s.unlink.cntNormal = 0 ∧ s.unlink.cntManual = 0 := by
  unfold TState.unlink
  have a := h.2 hs
  by_cases hn : s.inNormal = true
  · have := a.1 hn; simp [hn, this.1, this.2]
  · have hn' : s.inNormal = false := by simpa using hn
    have := a.2 hn'; simp [hn', this.1, this.2]

theorem LInv_setTO (g : TGuards) (hg : g.setSkipsSusp = true) (s0 : TState) (ms : Nat) (h : LInv s0) : LInv (setTO g s0 ms) := by
  unfold setTO
  by_cases hs : s0.suspended = true
  · rw [if_pos hs, if_pos hg]
    exact ⟨fun _ => h.1 hs, fun hx => by simp [hs] at hx⟩
  · rw [if_neg hs]
    have hs' : s0.suspended = false := by simpa using hs
    have u := unlink_counts s0 h hs'
    exact LInv_link { s0.unlink with timeout := ms } u (by simpa using hs')

theorem step_linv (g : TGuards) (hg : g.Sound) (s : TState) (h : LInv s) (op : TOp) : LInv (step g s op) := by
  obtain ⟨_, _, _, _, g5⟩ := hg
  cases op with
  | tick ms => exact h
  | setTimeout ms =>
    simp only [step]
    by_cases hz : s.timeout = 0
    · simp only [hz, if_true]; exact LInv_setTO g g5 _ ms (by simpa [LInv, TState.inNormal, hz] using h)
    · simp only [hz, if_false]; exact LInv_setTO g g5 s ms h
  | activity =>
    simp only [step]; split
    · exact h
    · split
      · exact h
      · simpa [LInv, TState.inNormal] using h
  | idle =>
    simp only [step]; split
    · exact h
    · split
      · exact h
      · split
        · simpa [LInv, TState.inNormal] using h
        · exact h
  | suspend =>
    simp only [step]; split
    · exact h
    · next hc =>
      have hs' : s.suspended = false := by
        simp only [Bool.or_eq_true, not_or, Bool.not_eq_true] at hc; exact hc.2
      have u := unlink_counts s h hs'
      exact ⟨fun _ => u, fun hx => by simp at hx⟩
  | resume =>
    simp only [step]; split
    · exact h
    · next hc =>
      have hs : s.suspended = true := by simpa using hc
      exact LInv_link _ (h.1 hs) rfl

theorem run_linv (g : TGuards) (hg : g.Sound) : ∀ (ops : List TOp) (s : TState), LInv s → LInv (run g s ops) := by
  intro ops; induction ops with
  | nil => intro s h; exact h
  | cons op r ih => intro s h; exact ih _ (step_linv g hg s h op)

theorem start_linv (t0 dflt : Nat) : LInv (TState.start t0 dflt) := by
  simp [LInv, TState.start, TState.inNormal]

/-- MHD_set_connection_option (TIMEOUT) on a suspended connection records the value and touches no list -/
theorem setTimeout_suspended_counts (g : TGuards) (hg : g.setSkipsSusp = true) (s : TState) (hs : s.suspended = true) (ms : Nat) :
    (step g s (.setTimeout ms)).cntNormal = s.cntNormal ∧ (step g s (.setTimeout ms)).cntManual = s.cntManual ∧
    (step g s (.setTimeout ms)).timeout = ms ∧ (step g s (.setTimeout ms)).suspended = true := by
  simp only [step, setTO]
  by_cases hz : s.timeout = 0 <;> simp [hz, hs, hg]

theorem resume_restarts (g : TGuards) (hg : g.Sound) (s : TState) (hs : s.suspended = true) (ht : s.timeout ≠ 0) :
    (step g s .resume).lastAct = s.now ∧ (step g s .resume).suspended = false ∧ (step g s .resume).resumedAt = s.now := by
  obtain ⟨_, _, g3, g4, _⟩ := hg
  have : (if s.inNormal = true then g.restartNormal else g.restartManual) = true := by split <;> assumption
  simp [step, hs, ht, this]

theorem idle_suspended (g : TGuards) (hg : g.Sound) (s : TState) (hs : s.suspended = true) : step g s .idle = s := by
  simp [step, hg.2.1, hs]

theorem closed_only_when_idle_long (g : TGuards) (hg : g.Sound) (s : TState) (hi : TInv s) (h0 : s.closedTO = false)
    (h1 : (step g s .idle).closedTO = true) : s.suspended = false ∧ s.timeout ≠ 0 ∧ s.timeout < s.now - s.resumedAt := by
  by_cases hs : s.suspended = true
  · rw [idle_suspended g hg s hs, h0] at h1; exact absurd h1 (by simp)
  · have hs' : s.suspended = false := by simpa using hs
    simp only [step, h0, hs', Bool.and_false, Bool.false_eq_true, if_false] at h1
    by_cases hc : s.timeout ≠ 0 ∧ s.timeout < s.now - s.lastAct
    · have := hi.fresh hs' hc.1
      exact ⟨hs', hc.1, by omega⟩
    · rw [if_neg hc, h0] at h1; exact absurd h1 (by simp)

end Mhd.SuspTimer
