/-
  C14 helper lemmas: the grammar-level reference reader (`Mhd.Model.AuthRef`) returns a parse tree of its
  input — a well-formed `GElem` list whose rendering is the input.  With `parseDigest_renderG` this gives:
  whatever the reference reader accepts, parse_dauth_params accepts, with the same value for every
  parameter.
-/
import Mhd.Model.AuthRef
import Mhd.Proofs.AuthExt
namespace Mhd.Auth.Ref
open Mhd.Auth Mhd.Gen.Auth

theorem spanP_eq (p : UInt8 → Bool) (s : Bytes) : (spanP p s).1 ++ (spanP p s).2 = s := by
  induction s with
  | nil => simp [spanP]
  | cons c r ih =>
    simp only [spanP]
    by_cases h : p c = true
    · simp [h, ih]
    · simp [h]

theorem spanP_all (p : UInt8 → Bool) (s : Bytes) : (spanP p s).1.all p = true := by
  induction s with
  | nil => simp [spanP]
  | cons c r ih =>
    simp only [spanP]
    by_cases h : p c = true
    · simp [h, ih]
    · simp [h]

theorem spanP_rest (p : UInt8 → Bool) (s : Bytes) :
    (spanP p s).2 = [] ∨ ∃ c r, (spanP p s).2 = c :: r ∧ p c = false := by
  induction s with
  | nil => left; simp [spanP]
  | cons c r ih =>
    simp only [spanP]
    by_cases h : p c = true
    · simpa [h] using ih
    · right; exact ⟨c, r, by simp [h], by simpa using h⟩

theorem ws_allWs (s : Bytes) : allWs (spanP isWs s).1 = true := spanP_all isWs s

/-! ### character classes -/

def classOK (c : UInt8) : Bool :=
  (!tchar c || (tokByte c && c ≠ 34 && nameByte c && !isWs c)) &&
  (!qdtext c || (c ≠ 0 && c ≠ 34 && c ≠ 92)) && (!qpchar c || c ≠ 0)

theorem classAll_true : ((List.range 256).all fun n => classOK (UInt8.ofNat n)) = true := by decide +kernel

theorem class_ok (c : UInt8) : classOK c = true := by
  have h := List.all_eq_true.mp classAll_true c.toNat (by simp [c.toNat_lt])
  simpa using h

theorem tchar_props (c : UInt8) (h : tchar c = true) :
    tokByte c = true ∧ c ≠ 34 ∧ nameByte c = true ∧ isWs c = false := by
  have := class_ok c
  simp only [classOK, Bool.and_eq_true, Bool.or_eq_true, Bool.not_eq_true', decide_eq_true_eq] at this
  rcases this.1.1 with h1 | h1
  · rw [h] at h1; simp at h1
  · exact ⟨h1.1.1.1, h1.1.1.2, h1.1.2, h1.2⟩

theorem qdtext_props (c : UInt8) (h : qdtext c = true) : c ≠ 0 ∧ c ≠ 34 ∧ c ≠ 92 := by
  have := class_ok c
  simp only [classOK, Bool.and_eq_true, Bool.or_eq_true, Bool.not_eq_true', decide_eq_true_eq] at this
  rcases this.1.2 with h1 | h1
  · rw [h] at h1; simp at h1
  · exact ⟨h1.1.1, h1.1.2, h1.2⟩

theorem qpchar_props (c : UInt8) (h : qpchar c = true) : c ≠ 0 := by
  have := class_ok c
  simp only [classOK, Bool.and_eq_true, Bool.or_eq_true, Bool.not_eq_true', decide_eq_true_eq] at this
  rcases this.2 with h1 | h1
  · rw [h] at h1; simp at h1
  · exact h1

/-! ### quoted-string -/

theorem qstring_spec : ∀ (n : Nat) (s : Bytes) (x : Bytes × List Bool × Bytes), s.length ≤ n → qstring s = some x →
    s = escRender x.2.1 x.1 ++ 34 :: x.2.2 ∧ (∀ c ∈ x.1, c ≠ 0) := by
  intro n
  induction n with
  | zero =>
    intro s x hl h
    have : s = [] := List.length_eq_zero_iff.mp (by omega)
    subst this
    rw [qstring.eq_def] at h; simp at h
  | succ n ih =>
    intro s x hl h
    cases s with
    | nil => rw [qstring.eq_def] at h; simp at h
    | cons c r =>
      rw [qstring.eq_def] at h
      simp only at h
      by_cases h34 : c = 34
      · simp only [h34, if_true, Option.some.injEq] at h
        subst h; subst h34
        simp [escRender]
      simp only [h34, if_false] at h
      by_cases h92 : c = 92
      · simp only [h92, if_true] at h
        cases r with
        | nil => simp at h
        | cons c2 r2 =>
          simp only at h
          by_cases hq : qpchar c2 = true
          · simp only [hq, if_true, Option.map_eq_some_iff] at h
            obtain ⟨y, hy, hx⟩ := h
            obtain ⟨h1, h2⟩ := ih r2 y (by simp at hl; omega) hy
            subst hx; subst h92
            refine ⟨by simp [escRender]; exact h1, ?_⟩
            intro z hz
            rcases List.mem_cons.mp hz with hz | hz
            · rw [hz]; exact qpchar_props c2 hq
            · exact h2 z hz
          · simp [hq] at h
      · simp only [h92, if_false] at h
        by_cases hq : qdtext c = true
        · simp only [hq, if_true, Option.map_eq_some_iff] at h
          obtain ⟨y, hy, hx⟩ := h
          obtain ⟨h1, h2⟩ := ih r y (by simp at hl; omega) hy
          subst hx
          refine ⟨by simp [escRender, h34, h92]; exact h1, ?_⟩
          intro z hz
          rcases List.mem_cons.mp hz with hz | hz
          · rw [hz]; exact (qdtext_props c hq).1
          · exact h2 z hz
        · simp [hq] at h

/-! ### one parameter -/

/-- well-formedness of what `param` delivers -/
def valOK : Form → Bytes → Prop
  | .token, v => v ≠ [] ∧ v.all tchar = true
  | .quoted _, v => ∀ c ∈ v, c ≠ 0

def P.ok (p : P) : Prop :=
  p.name ≠ [] ∧ p.name.all tchar = true ∧ allWs p.ws1 = true ∧ allWs p.ws2 = true ∧ allWs p.ws3 = true ∧ valOK p.f p.v

def P.render (p : P) : Bytes := p.name ++ p.ws1 ++ 61 :: (p.ws2 ++ renderValue p.v p.f ++ p.ws3)

theorem pvalue_spec (s : Bytes) (f : Form) (v r6 : Bytes) (h : pvalue s = some (f, v, r6)) :
    s = renderValue v f ++ r6 ∧ valOK f v := by
  cases s with
  | nil => simp [pvalue] at h
  | cons q r5 =>
    simp only [pvalue] at h
    by_cases hq : q = 34
    · simp only [hq, if_true, Option.map_eq_some_iff, Prod.mk.injEq] at h
      obtain ⟨x, hx, hf, hv, hr⟩ := h
      obtain ⟨h1, h2⟩ := qstring_spec _ r5 x (Nat.le_refl _) hx
      subst hf; subst hv; subst hr; subst hq
      exact ⟨by simp [renderValue]; exact h1, h2⟩
    · simp only [hq, if_false] at h
      by_cases he : (spanP tchar (q :: r5)).1 = []
      · simp [he] at h
      · simp only [he, if_false, Option.some.injEq, Prod.mk.injEq] at h
        obtain ⟨hf, hv, hr⟩ := h
        subst hf; subst hv; subst hr
        exact ⟨by simp [renderValue, spanP_eq], he, spanP_all _ _⟩

theorem param_spec (s : Bytes) (p : P) (r7 : Bytes) (h : param s = some (p, r7)) :
    s = p.render ++ r7 ∧ p.ok ∧ (r7 = [] ∨ ∃ c r, r7 = c :: r ∧ isWs c = false) := by
  unfold param at h
  by_cases hn : (spanP tchar s).1 = []
  · simp [hn] at h
  simp only [hn, if_false] at h
  cases h2 : (spanP isWs (spanP tchar s).2).2 with
  | nil => simp [h2] at h
  | cons e r3 =>
    simp only [h2] at h
    by_cases he : e = 61
    · subst he
      simp only [ne_eq, not_true_eq_false, if_false] at h
      cases hv : pvalue (spanP isWs r3).2 with
      | none => simp [hv] at h
      | some x =>
        obtain ⟨f, v, r6⟩ := x
        simp only [hv, Option.some.injEq, Prod.mk.injEq] at h
        obtain ⟨hp, hr⟩ := h
        obtain ⟨hs4, hvok⟩ := pvalue_spec _ f v r6 hv
        subst hp; subst hr
        refine ⟨?_, ⟨hn, spanP_all _ _, ws_allWs _, ws_allWs _, ws_allWs _, hvok⟩, spanP_rest isWs r6⟩
        have e1 := spanP_eq tchar s
        have e2 := spanP_eq isWs (spanP tchar s).2
        have e3 := spanP_eq isWs r3
        have e4 := spanP_eq isWs r6
        rw [h2] at e2
        simp only [P.render]
        calc s = (spanP tchar s).1 ++ (spanP tchar s).2 := e1.symm
          _ = (spanP tchar s).1 ++ ((spanP isWs (spanP tchar s).2).1 ++ 61 :: r3) := by rw [e2]
          _ = (spanP tchar s).1 ++ ((spanP isWs (spanP tchar s).2).1 ++ 61 :: ((spanP isWs r3).1 ++ (spanP isWs r3).2)) := by rw [e3]
          _ = (spanP tchar s).1 ++ ((spanP isWs (spanP tchar s).2).1 ++ 61 :: ((spanP isWs r3).1 ++ (renderValue v f ++ ((spanP isWs r6).1 ++ (spanP isWs r6).2)))) := by rw [hs4, e4]
          _ = _ := by simp [List.append_assoc]
    · simp [he] at h

/-! ### the tree node -/

theorem slotOf_spec (l : Bytes) : ∀ (names : List Bytes) (i k : Nat), slotOf l names i = some k →
    i ≤ k ∧ names[k - i]? = some l := by
  intro names
  induction names with
  | nil => intro i k h; simp [slotOf] at h
  | cons nm t ih =>
    intro i k h
    simp only [slotOf] at h
    by_cases hnm : nm = l
    · simp only [hnm, if_true, Option.some.injEq] at h
      subst h; simp [hnm]
    · simp only [hnm, if_false] at h
      obtain ⟨h1, h2⟩ := ih (i + 1) k h
      refine ⟨by omega, ?_⟩
      have : k - i = (k - (i + 1)) + 1 := by omega
      rw [this]; simpa using h2

theorem slotOf_none (l : Bytes) : ∀ (names : List Bytes) (i : Nat), slotOf l names i = none → ∀ nm ∈ names, nm ≠ l := by
  intro names
  induction names with
  | nil => intro i _ nm hnm; simp at hnm
  | cons a t ih =>
    intro i h nm hnm
    simp only [slotOf] at h
    by_cases ha : a = l
    · simp [ha] at h
    · simp only [ha, if_false] at h
      rcases List.mem_cons.mp hnm with h1 | h1
      · rw [h1]; exact ha
      · exact ih (i + 1) h nm h1

theorem caseRender_back (name : Bytes) : caseRender (name.map isUpperB) (name.map toLowerB) = name := by
  induction name with
  | nil => rfl
  | cons c r ih =>
    simp only [List.map_cons, caseRender, ih]
    congr 1
    by_cases hu : isUpperB c = true
    · have h := hu
      simp only [isUpperB, decide_eq_true_eq] at h
      simp only [hu, if_true]
      apply (u8_eq_iff _ _).mpr
      have h1 := toLowerB_toNat c
      have h2 := toUpperB_toNat (toLowerB c)
      simp only [h.1, h.2, and_self, if_true] at h1
      rw [h2, h1]
      split <;> omega
    · have h := hu
      simp only [isUpperB, decide_eq_true_eq] at h
      simp only [hu, Bool.false_eq_true, if_false]
      apply (u8_eq_iff _ _).mpr
      have h1 := toLowerB_toNat c
      simp only [h, if_false] at h1
      exact h1

theorem paramNames_lower_all : ∀ kn ∈ paramNames, kn.map toLowerB = kn := by decide

theorem mk_spec (p : P) (ws4 : Bytes) (hp : p.ok) (hw4 : allWs ws4 = true) :
    (mk p ws4).wf = true ∧ (mk p ws4).render = p.render ∧ (mk p ws4).ws4 = ws4 := by
  obtain ⟨hne, hall, hw1, hw2, hw3, hv⟩ := hp
  unfold mk
  cases hs : slotOf (p.name.map toLowerB) paramNames 0 with
  | some k =>
    obtain ⟨_, hk⟩ := slotOf_spec _ _ _ _ hs
    simp only [Nat.sub_zero] at hk
    have hlt : k < paramNames.length := by
      rcases Nat.lt_or_ge k paramNames.length with hge | hge
      · exact hge
      · rw [List.getElem?_eq_none hge] at hk
        simp at hk
    simp only []
    have hname : nameOf k = p.name.map toLowerB := by simp [nameOf, List.getD, hk]
    refine ⟨?_, ?_, rfl⟩
    · cases hf : p.f with
      | token =>
        rw [hf] at hv
        simp only [valOK] at hv
        obtain ⟨c, r, hcr⟩ := List.exists_cons_of_ne_nil hv.1
        have hc := tchar_props c (List.all_eq_true.mp hv.2 c (by simp [hcr]))
        have hallt : p.v.all tokByte = true :=
          List.all_eq_true.mpr fun x hx => (tchar_props x (List.all_eq_true.mp hv.2 x hx)).1
        simp only [GElem.wf, Elem.wf, Bool.and_eq_true, decide_eq_true_eq, hallt, hw1, hw2, hw3, hw4, hlt, and_self, true_and]
        simp [hcr, hc.2.1]
      | quoted m =>
        rw [hf] at hv
        simp only [valOK] at hv
        have hall0 : p.v.all (· ≠ 0) = true := List.all_eq_true.mpr fun x hx => by simpa using hv x hx
        simp only [GElem.wf, Elem.wf, Bool.and_eq_true, decide_eq_true_eq, hall0, hw1, hw2, hw3, hw4, hlt, and_self]
    · simp only [GElem.render, renderElem, hname, caseRender_back, P.render]
  | none =>
    have hnot := slotOf_none _ _ _ hs
    simp only []
    refine ⟨?_, by simp [GElem.render, P.render], rfl⟩
    simp only [GElem.wf, Bool.and_eq_true, Bool.not_eq_true', List.isEmpty_eq_false_iff]
    refine ⟨⟨⟨⟨⟨⟨⟨hne, ?_⟩, ?_⟩, hw1⟩, hw2⟩, hw3⟩, hw4⟩, ?_⟩
    · exact List.all_eq_true.mpr fun x hx => (tchar_props x (List.all_eq_true.mp hall x hx)).2.2.1
    · apply List.all_eq_true.mpr
      intro kn hkn
      have := hnot kn hkn
      rw [paramNames_lower_all kn hkn]
      simp only [bne_iff_ne, ne_eq]
      exact fun h => this h.symm
    · cases hf : p.f with
      | token =>
        rw [hf] at hv
        simp only [valOK] at hv
        simp only [Bool.and_eq_true, Bool.not_eq_true', List.isEmpty_eq_false_iff]
        refine ⟨hv.1, List.all_eq_true.mpr fun x hx => ?_⟩
        have := tchar_props x (List.all_eq_true.mp hv.2 x hx)
        simp [this.1, this.2.1]
      | quoted m =>
        rw [hf] at hv
        simp only [valOK] at hv ⊢
        exact List.all_eq_true.mpr fun x hx => by simpa using hv x hx

/-! ### the list -/

theorem renderGList_cons_ne (g : GElem) (l : List GElem) (h : l ≠ []) :
    renderGList (g :: l) = g.render ++ 44 :: (g.ws4 ++ renderGList l) := by
  cases l with
  | nil => exact absurd rfl h
  | cons a b => rfl

theorem elems_tree : ∀ (fuel : Nat) (s : Bytes) (gs : List GElem), elems fuel s = some gs →
    gs ≠ [] ∧ renderGList gs = s ∧ gs.all GElem.wf = true := by
  intro fuel
  induction fuel with
  | zero => intro s gs h; simp [elems] at h
  | succ fuel ih =>
    intro s gs h
    cases s with
    | nil =>
      simp only [elems, Option.some.injEq] at h
      subst h
      exact ⟨by simp, by simp [renderGList, GElem.render], by simp [GElem.wf, allWs]⟩
    | cons c r =>
      simp only [elems] at h
      by_cases hc : c = 44
      · simp only [hc, if_true, Option.map_eq_some_iff] at h
        obtain ⟨gs', hgs', hgs⟩ := h
        obtain ⟨hne, hr, hwf⟩ := ih _ gs' hgs'
        subst hgs; subst hc
        refine ⟨by simp, ?_, by simp [GElem.wf, ws_allWs, hwf]⟩
        rw [renderGList_cons_ne _ _ hne, hr]
        simp [GElem.render, GElem.ws4, spanP_eq]
      · simp only [hc, if_false] at h
        cases hp : param (c :: r) with
        | none => simp [hp] at h
        | some x =>
          obtain ⟨p, r7⟩ := x
          obtain ⟨hs, hok, _⟩ := param_spec _ p r7 hp
          simp only [hp] at h
          cases r7 with
          | nil =>
            simp only [Option.some.injEq] at h
            subst h
            obtain ⟨hwf, hrend, _⟩ := mk_spec p [] hok (by simp [allWs])
            exact ⟨by simp, by simp [renderGList, hrend, hs], by simp [hwf]⟩
          | cons d r8 =>
            simp only at h
            by_cases hd : d = 44
            · simp only [hd, ne_eq, not_true_eq_false, if_false, Option.map_eq_some_iff] at h
              obtain ⟨gs', hgs', hgs⟩ := h
              obtain ⟨hne, hr, hwf'⟩ := ih _ gs' hgs'
              obtain ⟨hwf, hrend, hws4⟩ := mk_spec p (spanP isWs r8).1 hok (ws_allWs _)
              subst hgs; subst hd
              refine ⟨by simp, ?_, by simp [hwf, hwf']⟩
              rw [renderGList_cons_ne _ _ hne, hr, hrend, hws4, hs, spanP_eq]
            · simp [hd] at h

theorem parse_tree (s lead : Bytes) (gs : List GElem) (h : parse s = some (lead, gs)) :
    renderG lead gs = s ∧ WFG lead gs = true := by
  simp only [parse, Option.map_eq_some_iff, Prod.mk.injEq] at h
  obtain ⟨gs', hgs', hl, hg⟩ := h
  obtain ⟨_, hr, hwf⟩ := elems_tree _ _ gs' hgs'
  subst hl; subst hg
  exact ⟨by simp [renderG, hr, spanP_eq], by simp [WFG, ws_allWs, hwf]⟩

end Mhd.Auth.Ref
