/-
  Round trip of the multipart machine: the encoding re-bracketed the way the machine consumes it,
  the side conditions, and the invariant `MInv` that relates the state of the post processor to the
  rest of a well-formed `multipart/form-data` stream (single level).
-/
import Mhd.Proofs.PPMpScan
namespace Mhd.PP

/-! ### the encoding, re-bracketed the way the machine consumes it -/

def dispLine (p : Part) : Bytes :=
  ofStr "Content-Disposition: form-data; name=\"" ++ p.name ++ [cQuote]
  ++ (match p.filename with | some f => ofStr "; filename=\"" ++ f ++ [cQuote] | none => [])

/-- the header lines of a part, without their CRLF -/
def hdrLines (p : Part) : List Bytes :=
  dispLine p :: ((match p.ctype with | some t => [ofStr "Content-Type: " ++ t] | none => []) ++
    (match p.enc with | some e => [ofStr "Content-Transfer-Encoding: " ++ e] | none => []))

def linesEnc : List Bytes → Bytes
  | [] => []
  | ln :: rest => ln ++ (cCR :: cLF :: linesEnc rest)

theorem encPartHeaders_eq (p : Part) : encPartHeaders p = linesEnc (hdrLines p) ++ [cCR, cLF] := by
  unfold encPartHeaders hdrLines dispLine
  cases p.filename <;> cases p.ctype <;> cases p.enc <;> simp [linesEnc, sCRLF]

/-- what follows `"--" ++ B` -/
def afterB (B : Bytes) : List Part → Bytes
  | [] => [cDash, cDash, cCR, cLF]
  | p :: rest => cCR :: cLF :: (linesEnc (hdrLines p) ++ (cCR :: cLF :: (p.value ++ sCRLFDashDash ++ (B ++ afterB B rest))))

theorem encodeMultipart_eq (B : Bytes) : ∀ ps, encodeMultipart B ps = sDashDash ++ B ++ afterB B ps
  | [] => by simp [encodeMultipart, afterB, sDashDash, sCRLF]
  | p :: rest => by
    simp [encodeMultipart, afterB, encodeMultipart_eq B rest, encPartHeaders_eq, sDashDash, sCRLF, sCRLFDashDash]

/-! ### header lines → metadata -/

def PP.metaOf (pp : PP) : Meta := ⟨pp.cname, pp.cfile, pp.ctype, pp.cenc⟩

/-- what `process_multipart_headers` does to the four metadata strings for one header line -/
def hdrM (m : Meta) (line0 : Bytes) : Meta :=
  let line := cstr line0
  if eqCaselessN hdrDisposition line hdrDisposition.length then
    let rest := line.drop hdrDisposition.length
    { m with key := tryGetValue rest sName m.key, filename := tryGetValue rest sFilename m.filename }
  else
    { m with ctype := tryMatchHeader hdrType line m.ctype, enc := tryMatchHeader hdrEncoding line m.enc }

def metaP (p : Part) : Meta := ⟨some p.name, p.filename, p.ctype, p.enc⟩
def fieldOf (p : Part) : Meta × Bytes := (metaP p, p.value)

def LineOk (size : Nat) (ln : Bytes) : Prop := ln ≠ [] ∧ (∀ c ∈ ln, c ≠ cCR ∧ c ≠ cLF) ∧ ln.length < size

/-- side conditions on one part: its header lines fit the buffer and contain no CR/LF, the line parser
    of `process_multipart_headers` reads the intended metadata from them, and it is not a nested
    `multipart/mixed` container -/
structure PartOk (size : Nat) (p : Part) : Prop where
  lines : ∀ ln ∈ hdrLines p, LineOk size ln
  hdr : (hdrLines p).foldl hdrM ⟨none, none, none, none⟩ = metaP p
  notMixed : ∀ ct, p.ctype = some ct → eqCaselessN ct sMixed sMixed.length = false

structure Cfg where
  B : Bytes
  size : Nat
  parts : List Part

structure CfgOk (c : Cfg) : Prop where
  b1 : 1 ≤ c.B.length
  bs : c.B.length + 4 < c.size
  fresh : boundaryFresh c.B c.parts = true
  parts : ∀ p ∈ c.parts, PartOk c.size p

/-! ### the invariant -/

def RnOk (rn : RN) (R X : Bytes) : Prop :=
  (rn = .inactive ∧ R = X) ∨ (rn = .optN ∧ R = cLF :: X) ∨ ((rn = .full ∨ rn = .dash) ∧ R = cCR :: cLF :: X)

/-- the main state against the rest `X` of the stream (after what `skip_rn` still has to eat) -/
inductive MMain (c : Cfg) (pp : PP) (X : Bytes) : Prop
  | bnd0 (hs : pp.state = .init) (he : pp.evs = []) (hm : pp.metaOf = ⟨none, none, none, none⟩)
      (hX : X = sDashDash ++ c.B ++ afterB c.B c.parts)
  | hdr (done : List Part) (p : Part) (rest : List Part) (lines : List Bytes)
      (hsp : c.parts = done ++ p :: rest) (hd : Delivers pp.evs (done.map fieldOf))
      (hs : (pp.state = .processEntryHeaders ∧ lines.foldl hdrM pp.metaOf = metaP p) ∨
            (pp.state = .performCleanup ∧ lines = hdrLines p))
      (hl : ∀ ln ∈ lines, LineOk c.size ln)
      (hX : X = linesEnc lines ++ (cCR :: cLF :: (p.value ++ sCRLFDashDash ++ (c.B ++ afterB c.B rest))))
  | chk (done : List Part) (p : Part) (rest : List Part)
      (hsp : c.parts = done ++ p :: rest) (hd : Delivers pp.evs (done.map fieldOf))
      (hs : pp.state = .performCheckMultipart) (hm : pp.metaOf = metaP p) (hi : pp.mustIkvi = true)
      (hX : X = p.value ++ sCRLFDashDash ++ (c.B ++ afterB c.B rest))
  | val (done : List Part) (p : Part) (rest : List Part) (off : Nat) (evs0 cur : List Event)
      (hsp : c.parts = done ++ p :: rest) (hd : Delivers evs0 (done.map fieldOf))
      (he : pp.evs = evs0 ++ cur) (hp : Pieces (metaP p) 0 (p.value.take off) cur)
      (hi : cur ≠ [] ∨ pp.mustIkvi = true)
      (hs : pp.state = .processValueToBoundary) (hm : pp.metaOf = metaP p) (ho : pp.valueOffset = off)
      (hle : off ≤ p.value.length)
      (hX : X = p.value.drop off ++ sCRLFDashDash ++ (c.B ++ afterB c.B rest))

inductive MInv (c : Cfg) (pp : PP) (R : Bytes) : Prop
  | main (X : Bytes) (hr : RnOk pp.skipRn R X) (hm : MMain c pp X)
  | fin0 (hd : Delivers pp.evs (c.parts.map fieldOf)) (hr : pp.skipRn = .dash) (hds : pp.dashState = .done)
      (hR : R = [cDash, cDash, cCR, cLF])
  | fin1 (hd : Delivers pp.evs (c.parts.map fieldOf)) (hr : pp.skipRn = .dash2) (hds : pp.dashState = .done)
      (hR : R = [cDash, cCR, cLF])
  | fin2 (hd : Delivers pp.evs (c.parts.map fieldOf)) (hs : pp.state = .done) (hr : RnOk pp.skipRn R [])

/-- fields that never change in multipart mode -/
structure MBase (c : Cfg) (pp : PP) : Prop where
  size : pp.bufferSize = c.size
  bnd : pp.boundary = c.B
  xbuf : pp.xbuf = []
  fault : pp.fault = none

theorem MMain.congr {c : Cfg} {pp pp' : PP} {X : Bytes} (h : MMain c pp X) (h1 : pp'.state = pp.state)
    (h2 : pp'.evs = pp.evs) (h3 : pp'.metaOf = pp.metaOf) (h4 : pp'.mustIkvi = pp.mustIkvi)
    (h5 : pp'.valueOffset = pp.valueOffset) : MMain c pp' X := by
  cases h with
  | bnd0 hs he hm hX => exact .bnd0 (h1 ▸ hs) (h2 ▸ he) (h3 ▸ hm) hX
  | hdr done p rest lines hsp hd hs hl hX => exact .hdr done p rest lines hsp (h2 ▸ hd) (by rw [h1, h3]; exact hs) hl hX
  | chk done p rest hsp hd hs hm hi hX => exact .chk done p rest hsp (h2 ▸ hd) (h1 ▸ hs) (h3 ▸ hm) (h4 ▸ hi) hX
  | val done p rest off evs0 cur hsp hd he hp hi hs hm ho hle hX =>
    exact .val done p rest off evs0 cur hsp hd (h2 ▸ he) hp (h4 ▸ hi) (h1 ▸ hs) (h3 ▸ hm) (h5 ▸ ho) hle hX

theorem MInv.congr {c : Cfg} {pp pp' : PP} {R : Bytes} (h : MInv c pp R) (h0 : pp'.skipRn = pp.skipRn)
    (h1 : pp'.state = pp.state) (h2 : pp'.evs = pp.evs) (h3 : pp'.metaOf = pp.metaOf)
    (h4 : pp'.mustIkvi = pp.mustIkvi) (h5 : pp'.valueOffset = pp.valueOffset)
    (h6 : pp'.dashState = pp.dashState) : MInv c pp' R := by
  cases h with
  | main X hr hm => exact .main X (h0 ▸ hr) (hm.congr h1 h2 h3 h4 h5)
  | fin0 hd hr hds hR => exact .fin0 (h2 ▸ hd) (h0 ▸ hr) (h6 ▸ hds) hR
  | fin1 hd hr hds hR => exact .fin1 (h2 ▸ hd) (h0 ▸ hr) (h6 ▸ hds) hR
  | fin2 hd hs hr => exact .fin2 (h2 ▸ hd) (h1 ▸ hs) (h0 ▸ hr)

/-- the machine cannot do anything with the window it has -/
def Quiescent (pp : PP) : Prop :=
  pp.buf = [] ∨ (pp.skipRn = .inactive ∧
    ((pp.state = .init ∧ pp.buf.length < 2 + pp.boundary.length) ∨
     (pp.state = .processEntryHeaders ∧ lineEnd pp.buf = pp.buf.length) ∨
     (pp.state = .processValueToBoundary ∧ scanBoundary pp.buf pp.boundary pp.bufferSize 0 = .partialAt 0)))

/-! ### freshness of the boundary, in the form the scan lemma wants -/

theorem occursIn_false (needle : Bytes) : ∀ (hay : Bytes), occursIn needle hay = false →
    ∀ k, k + needle.length ≤ hay.length → slice hay k (k + needle.length) ≠ needle
  | [], h, k, hk => by
    have : needle = [] := List.length_eq_zero_iff.mp (by have : ([] : Bytes).length = 0 := rfl; omega)
    subst this; simp [occursIn] at h
  | c :: t, h, k, hk => by
    simp only [occursIn, Bool.or_eq_false_iff] at h
    cases k with
    | zero =>
      intro he
      have hp : needle <+: (c :: t) := by
        rw [← he]; simp only [slice, List.drop_zero, Nat.zero_add, Nat.sub_zero]; exact List.take_prefix _ _
      have := List.isPrefixOf_iff_prefix.mpr hp
      rw [this] at h; cases h.1
    | succ k =>
      have := occursIn_false needle t h.2 k (by simp at hk; omega)
      intro he; apply this
      rw [← he]; simp [slice]

theorem slice_drop (v z : Bytes) (off k e : Nat) (h : off ≤ v.length) :
    slice (v.drop off ++ z) k e = slice (v ++ z) (off + k) (off + e) := by
  unfold slice
  rw [← List.drop_append_of_le_length h, List.drop_drop]
  congr 1; omega

theorem fresh_drop (B v tl : Bytes) (off k : Nat)
    (hocc : occursIn (sCRLFDashDash ++ B) (v ++ (sCRLFDashDash ++ B).take ((sCRLFDashDash ++ B).length - 1)) = false)
    (hoff : off ≤ v.length) (hk : k < (v.drop off).length) :
    slice (v.drop off ++ sCRLFDashDash ++ (B ++ tl)) k (k + 4 + B.length) ≠ sCRLFDashDash ++ B := by
  have hdl : (sCRLFDashDash ++ B).length = 4 + B.length := by simp [sCRLFDashDash]; omega
  rw [List.append_assoc, slice_drop v _ off k _ hoff]
  have hsplit : v ++ (sCRLFDashDash ++ (B ++ tl)) =
      (v ++ (sCRLFDashDash ++ B).take ((sCRLFDashDash ++ B).length - 1)) ++
        ((sCRLFDashDash ++ B).drop ((sCRLFDashDash ++ B).length - 1) ++ tl) := by
    rw [List.append_assoc, ← List.append_assoc ((sCRLFDashDash ++ B).take _), List.take_append_drop]
    simp
  rw [hsplit]
  simp only [List.length_drop] at hk
  rw [slice_app _ _ _ _ (by simp only [List.length_append, List.length_take, hdl]; omega)]
  have := occursIn_false _ _ hocc (off + k) (by simp only [List.length_append, List.length_take, hdl]; omega)
  have e : off + (k + 4 + B.length) = off + k + (4 + B.length) := by omega
  rw [e, ← hdl]; exact this

end Mhd.PP
