import Mhd.Model.PoolOps

set_option linter.unusedSimpArgs false
namespace Mhd.Pool

/-! ### byte-list helpers -/

@[simp] theorem zeroRange_length (m : List UInt8) (off n : Nat) (h : off + n ≤ m.length) :
    (zeroRange m off n).length = m.length := by
  simp [zeroRange]; omega

@[simp] theorem writeAt_length (m : List UInt8) (off : Nat) (bs : List UInt8)
    (h : off + bs.length ≤ m.length) : (writeAt m off bs).length = m.length := by
  simp [writeAt]; omega

@[simp] theorem readAt_length (m : List UInt8) (off n : Nat) (h : off + n ≤ m.length) :
    (readAt m off n).length = n := by
  simp [readAt]; omega

theorem getElem?_zeroRange_outside (m : List UInt8) (off n i : Nat) (h : off + n ≤ m.length)
    (hi : i < off ∨ off + n ≤ i) : (zeroRange m off n)[i]? = m[i]? := by
  unfold zeroRange
  rcases hi with hi | hi
  · rw [List.append_assoc, List.getElem?_append_left (by simp; omega)]
    simp [List.getElem?_take, hi]
  · rw [List.getElem?_append_right (by simp; omega)]
    simp only [List.length_append, List.length_take, List.length_replicate, List.getElem?_drop]
    congr 1; omega

theorem getElem?_writeAt_outside (m : List UInt8) (off : Nat) (bs : List UInt8) (i : Nat)
    (h : off + bs.length ≤ m.length) (hi : i < off ∨ off + bs.length ≤ i) :
    (writeAt m off bs)[i]? = m[i]? := by
  unfold writeAt
  rcases hi with hi | hi
  · rw [List.append_assoc, List.getElem?_append_left (by simp; omega)]
    simp [List.getElem?_take, hi]
  · rw [List.getElem?_append_right (by simp; omega)]
    simp only [List.length_append, List.length_take, List.getElem?_drop]
    congr 1; omega

theorem getElem?_writeAt_inside (m : List UInt8) (off : Nat) (bs : List UInt8) (i : Nat)
    (h : off + bs.length ≤ m.length) (hi : i < bs.length) :
    (writeAt m off bs)[off + i]? = bs[i]? := by
  unfold writeAt
  rw [List.append_assoc, List.getElem?_append_right (by simp; omega)]
  rw [List.getElem?_append_left (by simp; omega)]
  simp only [List.length_take, List.getElem?_take]
  have : off + i - min off m.length = i := by omega
  rw [this]; simp; omega

theorem getElem?_readAt (m : List UInt8) (off n i : Nat) (hi : i < n) :
    (readAt m off n)[i]? = m[off + i]? := by
  simp [readAt, List.getElem?_take, hi]

/-- reading a range that an overwrite did not touch gives the old bytes -/
theorem readAt_zeroRange_disjoint (m : List UInt8) (off n o l : Nat) (h : off + n ≤ m.length)
    (hd : o + l ≤ off ∨ off + n ≤ o) : readAt (zeroRange m off n) o l = readAt m o l := by
  apply List.ext_getElem?
  intro i
  by_cases hi : i < l
  · rw [getElem?_readAt _ _ _ _ hi, getElem?_readAt _ _ _ _ hi]
    exact getElem?_zeroRange_outside _ _ _ _ h (by omega)
  · simp [readAt, List.getElem?_take, hi]

theorem readAt_writeAt_disjoint (m : List UInt8) (off : Nat) (bs : List UInt8) (o l : Nat)
    (h : off + bs.length ≤ m.length) (hd : o + l ≤ off ∨ off + bs.length ≤ o) :
    readAt (writeAt m off bs) o l = readAt m o l := by
  apply List.ext_getElem?
  intro i
  by_cases hi : i < l
  · rw [getElem?_readAt _ _ _ _ hi, getElem?_readAt _ _ _ _ hi]
    exact getElem?_writeAt_outside _ _ _ _ h (by omega)
  · simp [readAt, List.getElem?_take, hi]

theorem readAt_writeAt_same (m : List UInt8) (off : Nat) (bs : List UInt8) (l : Nat)
    (h : off + bs.length ≤ m.length) (hl : l ≤ bs.length) :
    readAt (writeAt m off bs) off l = bs.take l := by
  apply List.ext_getElem?
  intro i
  by_cases hi : i < l
  · rw [getElem?_readAt _ _ _ _ hi, getElem?_writeAt_inside _ _ _ _ h (by omega)]
    simp [List.getElem?_take, hi]
  · simp [readAt, List.getElem?_take, hi]

theorem readAt_take (m : List UInt8) (off n l : Nat) (hl : l ≤ n) :
    (readAt m off n).take l = readAt m off l := by
  simp [readAt, List.take_take]; omega

/-! ### rounding -/

theorem roundUp_spec (n : Nat) (h : n + (A - 1) < W) :
    n ≤ roundUp n ∧ roundUp n < n + A ∧ roundUp n % A = 0 := by
  simp only [roundUp, A, Mhd.Gen.Pool.alignSize, W] at *
  omega

theorem roundUp_aligned (n : Nat) : roundUp n % A = 0 := by
  simp only [roundUp, A, Mhd.Gen.Pool.alignSize, W]
  omega

theorem roundUp_of_aligned (n : Nat) (h : n % A = 0) (hn : n < W) : roundUp n = n := by
  simp only [roundUp, A, Mhd.Gen.Pool.alignSize, W] at *
  omega

end Mhd.Pool
