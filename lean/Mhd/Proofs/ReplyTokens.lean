import Mhd.Proofs.ReplyExtra
set_option linter.unusedSimpArgs false
set_option linter.unusedVariables false
namespace Mhd.Tok
open Mhd.ReplyStr Mhd.Resp
open Mhd.Http (splitComma trimOWS ciEq hasToken isOWS vClose lower)

/-- `", "`-separated list of elements (the normal form the response code keeps the Connection value in) -/
def joinE : List Bytes → Bytes
  | [] => []
  | [e] => e
  | e :: e' :: t => e ++ 44 :: 32 :: joinE (e' :: t)

/-- an element of the list: non-empty, no comma -/
def ElemOK (e : Bytes) : Prop := e ≠ [] ∧ ∀ b ∈ e, b ≠ 44

/-- the grammar's view of one element -/
def isTok (lit e : Bytes) : Bool := ciEq (trimOWS e) lit

theorem joinE_cons (e : Bytes) (t : List Bytes) (ht : t ≠ []) : joinE (e :: t) = e ++ 44 :: 32 :: joinE t := by
  cases t with
  | nil => exact absurd rfl ht
  | cons a b => rfl

theorem joinE_eq_nil (es : List Bytes) (h : ∀ e ∈ es, ElemOK e) : joinE es = [] ↔ es = [] := by
  constructor
  · intro hj
    cases es with
    | nil => rfl
    | cons e t =>
      exfalso
      have he := (h e (by simp)).1
      cases t with
      | nil => exact he hj
      | cons a b =>
        simp only [joinE] at hj
        cases e with
        | nil => exact he rfl
        | cons _ _ => simp at hj
  · intro h; subst h; rfl

theorem splitComma_ws_cons (x : UInt8) (s : Bytes) (hx : isOWS x = true) :
    (splitComma (x :: s)).map trimOWS = (splitComma s).map trimOWS := by
  have hx44 : x ≠ 44 := by intro h; subst h; simp [isOWS] at hx
  simp only [splitComma]
  cases hs : splitComma s with
  | nil => exact absurd hs (Mhd.Reply.splitComma_ne_nil s)
  | cons t ts =>
    simp only [hx44, if_false, List.map_cons, List.cons.injEq, and_true]
    simp [trimOWS, List.dropWhile, hx]

theorem splitComma_elem (e : Bytes) (he : ∀ b ∈ e, b ≠ 44) : splitComma e = [e] := by
  induction e with
  | nil => rfl
  | cons b t ih =>
    have := ih (fun x hx => he x (by simp [hx]))
    simp [splitComma, this, he b (by simp)]

/-- the grammar's tokenizer sees exactly the elements -/
theorem tokens_joinE : ∀ (es : List Bytes), es ≠ [] → (∀ e ∈ es, ElemOK e) →
    (splitComma (joinE es)).map trimOWS = es.map trimOWS
  | [], h, _ => absurd rfl h
  | [e], _, h => by simp [joinE, splitComma_elem e (h e (by simp)).2]
  | e :: e' :: t, _, h => by
    have ih := tokens_joinE (e' :: t) (by simp) (fun x hx => h x (by simp [hx]))
    simp only [joinE]
    rw [Mhd.Reply.splitComma_prefix e _ (h e (by simp)).2]
    simp only [List.map_cons]
    rw [splitComma_ws_cons 32 _ (by decide), ih]
    simp

theorem hasToken_joinE (es : List Bytes) (lit : Bytes) (hl : lit ≠ []) (h : ∀ e ∈ es, ElemOK e) :
    hasToken (joinE es) lit = es.any (isTok lit) := by
  cases es with
  | nil =>
    simp only [joinE, List.any_nil]
    unfold hasToken
    simp only [splitComma, List.any_cons, List.any_nil, Bool.or_false]
    unfold ciEq trimOWS
    cases lit with
    | nil => exact absurd rfl hl
    | cons _ _ => simp
  | cons e t =>
    unfold hasToken
    have := tokens_joinE (e :: t) (by simp) h
    have e1 : (splitComma (joinE (e :: t))).any (fun t => ciEq (trimOWS t) lit)
        = ((splitComma (joinE (e :: t))).map trimOWS).any (fun t => ciEq t lit) := by
      rw [List.any_map]; rfl
    rw [e1, this, List.any_map]; rfl

theorem joinE_append (a b : List Bytes) (ha : a ≠ []) (hb : b ≠ []) :
    joinE (a ++ b) = joinE a ++ 44 :: 32 :: joinE b := by
  induction a with
  | nil => exact absurd rfl ha
  | cons x t ih =>
    cases t with
    | nil => simp only [List.cons_append, List.nil_append]; rw [joinE_cons x b hb]; rfl
    | cons y t' =>
      have := ih (by simp)
      simp only [List.cons_append] at this ⊢
      rw [joinE_cons x (y :: (t' ++ b)) (by simp), this, joinE_cons x (y :: t') (by simp)]
      simp [List.append_assoc]

/-! ### the Connection value as an element list -/

def CloseFree (es : List Bytes) : Prop := ∀ e ∈ es, isTok vClose e = false

def connVal (r : Resp) : Option Bytes := (r.hdrs.find? (isHdr sConnection)).map (·.value)

/-- shape of the stored Connection value, given the close flag -/
def ValShape (cc : Bool) (v : Bytes) : Prop :=
  ∃ es, v = joinE es ∧ (∀ e ∈ es, ElemOK e) ∧
    (if cc then ∃ es', es = sClose :: es' ∧ CloseFree es' else CloseFree es)

/-- the additional invariant: the Connection value is a `", "`-list; `close` is its first element iff
    HAS_CONNECTION_CLOSE, and no other element is a `close` token for the grammar's tokenizer -/
def ConnTok (r : Resp) : Prop := ∀ v, connVal r = some v → ValShape r.fa.connClose v

theorem addEntry_shape (r : Resp) (k : Kind) (n v : Bytes) :
    (addEntry r k n v).2 = r ∨ ((addEntry r k n v).1 = true ∧ (addEntry r k n v).2 = { r with hdrs := r.hdrs ++ [⟨k, n, v⟩] }) := by
  cases h : addEntry r k n v with
  | mk ok r1 =>
    cases ok with
    | false => left; exact addEntry_false _ _ _ _ _ h
    | true => right; exact ⟨rfl, (addEntry_true _ _ _ _ _ h).1⟩

theorem connVal_append (r : Resp) (e : Hdr) (fa' : AutoFlags) (he : isHdr sConnection e = false) :
    connVal { r with hdrs := r.hdrs ++ [e], fa := fa' } = connVal r := by
  unfold connVal
  simp only [List.find?_append]
  cases r.hdrs.find? (isHdr sConnection) with
  | some x => rfl
  | none => simp [List.find?, he]

theorem find_eraseFirst (p q : Hdr → Bool) : ∀ (l : List Hdr) (x : Hdr) (l' : List Hdr),
    eraseFirst q l = some (x, l') → p x = false → l'.find? p = l.find? p
  | [], x, l', h, _ => by simp [eraseFirst] at h
  | a :: t, x, l', h, hx => by
    simp only [eraseFirst] at h
    by_cases hq : q a = true
    · simp [hq] at h; obtain ⟨rfl, rfl⟩ := h
      simp [List.find?, hx]
    · simp only [hq] at h
      cases he : eraseFirst q t with
      | none => rw [he] at h; simp at h
      | some z =>
        obtain ⟨y, t'⟩ := z
        rw [he] at h; simp at h; obtain ⟨rfl, rfl⟩ := h
        have := find_eraseFirst p q t y t' he hx
        simp only [List.find?, this]

/-- calls on other headers leave the Connection value and its close flag alone -/
theorem addHeader_rest_conn (r : Resp) (n v : Bytes) (hconn : strEqCaseless n sConnection = false) :
    connVal (addHeader r n v).2 = connVal r ∧ (addHeader r n v).2.fa.connClose = r.fa.connClose := by
  have hnc : ∀ val, isHdr sConnection ⟨.header, n, val⟩ = false := by
    intro val; rw [isHdr_header]; exact not_nameIs_of_not_strEq _ _ hconn
  unfold addHeader
  simp only [hconn, Bool.false_eq_true, if_false]
  split
  · split
    · exact ⟨rfl, rfl⟩
    · split
      · exact ⟨rfl, rfl⟩
      · split
        · exact ⟨rfl, rfl⟩
        · rcases addEntry_shape r .header n v with h | ⟨h1, h2⟩
          · cases hx : addEntry r .header n v with
            | mk ok r1 =>
              rw [hx] at h; simp only at h; subst h
              cases ok <;> exact ⟨rfl, rfl⟩
          · cases hx : addEntry r .header n v with
            | mk ok r1 =>
              rw [hx] at h1 h2; simp only at h1 h2; subst h1 h2
              exact ⟨connVal_append r _ _ (hnc v), rfl⟩
  · split
    · -- Date
      split
      · exact ⟨rfl, rfl⟩
      · rename_i r0 hr0
        have h0 : connVal r0 = connVal r ∧ r0.fa.connClose = r.fa.connClose := by
          split at hr0
          · split at hr0
            · simp at hr0
            · rename_i x hs' he
              simp at hr0; subst hr0
              obtain ⟨hp, _, _, _⟩ := eraseFirst_spec _ _ _ _ he
              have hxn : isHdr sConnection x = false := by
                rw [isHdr_of] at hp ⊢
                simp at hp
                simp [hp.1, nameIs_excl _ _ _ hp.2 lenNe_CD.symm]
              exact ⟨by unfold connVal; simp only; rw [find_eraseFirst _ _ _ _ _ he hxn], rfl⟩
          · simp at hr0; subst hr0; exact ⟨rfl, rfl⟩
        rcases addEntry_shape r0 .header n v with h | ⟨h1, h2⟩
        · cases hx : addEntry r0 .header n v with
          | mk ok r1 =>
            rw [hx] at h; simp only at h; subst h
            cases ok
            · exact h0
            · exact ⟨h0.1, h0.2⟩
        · cases hx : addEntry r0 .header n v with
          | mk ok r1 =>
            rw [hx] at h1 h2; simp only at h1 h2; subst h1 h2
            exact ⟨(connVal_append r0 _ _ (hnc v)).trans h0.1, h0.2⟩
    · split
      · split
        · rcases addEntry_shape r .header n v with h | ⟨h1, h2⟩
          · cases hx : addEntry r .header n v with
            | mk ok r1 =>
              rw [hx] at h; simp only at h; subst h
              cases ok <;> exact ⟨rfl, rfl⟩
          · cases hx : addEntry r .header n v with
            | mk ok r1 =>
              rw [hx] at h1 h2; simp only at h1 h2; subst h1 h2
              exact ⟨connVal_append r _ _ (hnc v), rfl⟩
        · exact ⟨rfl, rfl⟩
      · rcases addEntry_shape r .header n v with h | ⟨h1, h2⟩
        · cases hx : addEntry r .header n v with
          | mk ok r1 =>
            rw [hx] at h; simp only at h; subst h
            cases ok <;> exact ⟨rfl, rfl⟩
        · cases hx : addEntry r .header n v with
          | mk ok r1 =>
            rw [hx] at h1 h2; simp only at h1 h2; subst h1 h2
            exact ⟨connVal_append r _ _ (hnc v), rfl⟩

theorem addFooter_conn (r : Resp) (n v : Bytes) :
    connVal (addFooter r n v).2 = connVal r ∧ (addFooter r n v).2.fa.connClose = r.fa.connClose := by
  unfold addFooter
  rcases addEntry_shape r .footer n v with h | ⟨h1, h2⟩
  · cases hx : addEntry r .footer n v with
    | mk ok r1 =>
      rw [hx] at h; simp only at h; subst h
      cases ok <;> exact ⟨rfl, rfl⟩
  · cases hx : addEntry r .footer n v with
    | mk ok r1 =>
      rw [hx] at h1 h2; simp only at h1 h2; subst h1 h2
      exact ⟨connVal_append r _ _ (isHdr_footer _ _ _), rfl⟩

theorem setOptions_conn (r : Resp) (f : RFlags) :
    connVal (setOptions r f).2 = connVal r ∧ (setOptions r f).2.fa.connClose = r.fa.connClose := by
  unfold setOptions
  split
  · exact ⟨rfl, rfl⟩
  · split
    · exact ⟨rfl, rfl⟩
    · split <;> exact ⟨rfl, rfl⟩

theorem delHeader_rest_conn (r : Resp) (n v : Bytes) (hinv : Inv r)
    (hbr : (r.fa.connHdr && nameIs n sConnection) = false) :
    connVal (delHeader r n v).2 = connVal r ∧ (delHeader r n v).2.fa.connClose = r.fa.connClose := by
  unfold delHeader
  simp only [hbr, Bool.false_eq_true, if_false]
  cases he : eraseFirst (fun h => h.name == n && h.value == v) r.hdrs with
  | none => exact ⟨rfl, rfl⟩
  | some q =>
    obtain ⟨x, hs'⟩ := q
    simp only
    obtain ⟨hp, hxm, _, _⟩ := eraseFirst_spec _ _ _ _ he
    have hxn : x.name = n := by simp at hp; exact hp.1
    have hxc : isHdr sConnection x = false := by
      by_cases hf : r.fa.connHdr = true
      · simp [hf] at hbr
        rw [isHdr_of, hxn, hbr]; simp
      · have hcn := hinv.conn
        simp only [hf] at hcn
        exact cnt_zero_of_mem _ _ hcn.1 x hxm
    refine ⟨by unfold connVal; simp only; rw [find_eraseFirst _ _ _ _ _ he hxc], ?_⟩
    split
    · rfl
    · split
      · rfl
      · split
        · rfl
        · split
          · split <;> rfl
          · rfl

/-- what must be known about the two token editors of mhd_str.c (proved below) -/
structure EditorSpecs : Prop where
  rt : ∀ value n out rem, removeTokenCaseless value sClose n = some ⟨out, rem⟩ →
        ∃ es, out = joinE es ∧ (∀ e ∈ es, ElemOK e) ∧ CloseFree es
  rts : ∀ es toks out rem, (∀ e ∈ es, ElemOK e) → removeTokensCaseless (joinE es) toks = some ⟨out, rem⟩ →
        ∃ fs : List Bytes, fs.Sublist es ∧ out = joinE fs

theorem elemOK_sClose : ElemOK sClose := ⟨by decide, by decide⟩
theorem isTok_sClose : isTok vClose sClose = true := by decide

theorem closeFree_sub (es fs : List Bytes) (hs : fs.Sublist es) (h : CloseFree es) : CloseFree fs :=
  fun e he => h e (hs.subset he)

theorem closeFree_append (a b : List Bytes) (ha : CloseFree a) (hb : CloseFree b) : CloseFree (a ++ b) := by
  intro e he
  rcases List.mem_append.1 he with h | h
  · exact ha e h
  · exact hb e h

/-- `mergeConn` on element lists -/
theorem mergeConn_joinE (ins : Bool) (old : Option Bytes) (eo en : List Bytes)
    (ho : match old with | some o => o = joinE eo ∧ eo ≠ [] | none => eo = [])
    (heo : ∀ e ∈ eo, ElemOK e) (hen : ∀ e ∈ en, ElemOK e) :
    mergeConn ins old (joinE en) = joinE ((if ins then [sClose] else []) ++ eo ++ en) := by
  unfold mergeConn
  simp only
  have hne : (joinE en).isEmpty = decide (en = []) := by
    by_cases h : en = []
    · subst h; rfl
    · have : joinE en ≠ [] := fun hh => h ((joinE_eq_nil en hen).1 hh)
      cases hx : joinE en with
      | nil => exact absurd hx this
      | cons _ _ => simp [h]
  cases old with
  | none =>
    simp only at ho; subst ho
    simp only [List.append_nil]
    cases ins
    · simp only [Bool.false_eq_true, if_false, List.nil_append, List.isEmpty_nil, if_true]
      by_cases h : en = []
      · subst h; rfl
      · simp [hne, h]
    · simp only [if_true]
      by_cases h : en = []
      · subst h; simp [joinE]
      · have : sClose.isEmpty = false := by decide
        simp only [hne, h, decide_false, Bool.false_eq_true, if_false, this]
        rw [show [sClose] ++ en = [sClose] ++ en from rfl, joinE_append [sClose] en (by simp) h]
        simp [joinE, sSep]
  | some o =>
    obtain ⟨ho1, ho2⟩ := ho
    subst ho1
    have hjo : joinE eo ≠ [] := fun hh => ho2 ((joinE_eq_nil eo heo).1 hh)
    have hjoe : (joinE eo).isEmpty = false := by
      cases hx : joinE eo with
      | nil => exact absurd hx hjo
      | cons _ _ => rfl
    cases ins
    · simp only [Bool.false_eq_true, if_false, List.nil_append, List.isEmpty_nil, if_true, hjoe]
      by_cases h : en = []
      · subst h; simp [hne]
      · simp only [hne, h, decide_false, Bool.false_eq_true, if_false]
        rw [joinE_append eo en ho2 h]
        simp [sSep]
    · have hc : sClose.isEmpty = false := by decide
      simp only [if_true, hc, Bool.false_eq_true, if_false]
      have e1 : sClose ++ (sSep ++ joinE eo) = joinE ([sClose] ++ eo) := by
        rw [joinE_append [sClose] eo (by simp) ho2]; simp [joinE, sSep]
      by_cases h : en = []
      · subst h
        simp only [hne, decide_true, if_true, List.append_nil]
        exact e1
      · have hne2 : (sClose ++ (sSep ++ joinE eo)).isEmpty = false := by simp [sClose]
        simp only [hne, h, decide_false, Bool.false_eq_true, if_false, hne2]
        rw [e1, show [sClose] ++ eo ++ en = ([sClose] ++ eo) ++ en from rfl,
            joinE_append ([sClose] ++ eo) en (by simp) h]
        simp [sSep, List.append_assoc]

theorem connVal_of_shape (r : Resp) (v : Bytes) (rest : List Hdr) (h : r.hdrs = ⟨.header, sConnection, v⟩ :: rest) :
    connVal r = some v := by
  unfold connVal; rw [h]; simp [List.find?, Mhd.Resp.isHdr_conn_head]

theorem connVal_none (r : Resp) (hinv : Inv r) (hf : r.fa.connHdr = false) : connVal r = none := by
  unfold connVal
  have hcn := hinv.conn
  simp only [hf] at hcn
  rw [find_none_of_cnt_zero _ _ hcn.1]; rfl

theorem addHeaderConnection_connTok (S : EditorSpecs) (r : Resp) (value : Bytes) (hinv : Inv r) (hct : ConnTok r) :
    ConnTok (addHeaderConnection r value).2 := by
  unfold addHeaderConnection
  by_cases hcr : (value.contains 13 || value.contains 10) = true
  · simp only [hcr, if_true]; exact hct
  · simp only [hcr, Bool.false_eq_true, if_false]
    cases hrt : removeTokenCaseless value sClose (value.length + value.length / 2 + 1) with
    | none => exact hct
    | some res =>
      obtain ⟨norm0, vhc⟩ := res
      simp only
      obtain ⟨e0, he0, hok0, hcf0⟩ := S.rt _ _ _ _ hrt
      by_cases hupg : (r.upgrade && vhc) = true
      · simp only [hupg, if_true]; exact hct
      · simp only [hupg, Bool.false_eq_true, if_false]
        cases hnorm : (if norm0.isEmpty = true then some norm0
            else Option.map (fun x => x.out) (removeTokensCaseless norm0 sKeepAliveLower)) with
        | none => exact hct
        | some norm =>
          simp only
          -- the normalised new value as an element list
          obtain ⟨en, hen, hoken, hcfn⟩ : ∃ en, norm = joinE en ∧ (∀ e ∈ en, ElemOK e) ∧ CloseFree en := by
            split at hnorm
            · simp at hnorm; subst hnorm; exact ⟨e0, he0, hok0, hcf0⟩
            · cases hrts : removeTokensCaseless norm0 sKeepAliveLower with
              | none => rw [hrts] at hnorm; simp at hnorm
              | some res2 =>
                obtain ⟨o2, r2⟩ := res2
                rw [hrts] at hnorm; simp at hnorm; subst hnorm
                rw [he0] at hrts
                obtain ⟨fs, hsub, hp⟩ := S.rts e0 _ _ _ hok0 hrts
                exact ⟨fs, hp, fun e he => hok0 e (hsub.subset he), closeFree_sub _ _ hsub hcf0⟩
          subst hen
          by_cases hc1 : ((joinE en).isEmpty && !vhc) = true
          · simp only [hc1, if_true]; exact hct
          · simp only [hc1, Bool.false_eq_true, if_false]
            by_cases hf : r.fa.connHdr = true
            · obtain ⟨v0, rest, hh, hc0, hcp, hvc⟩ := conn_shape r hinv hf
              have hfind : r.hdrs.find? (isHdr sConnection) = some ⟨.header, sConnection, v0⟩ := by
                rw [hh]; simp [List.find?, Mhd.Resp.isHdr_conn_head]
              obtain ⟨eo, heo, hokeo, hsh⟩ := hct v0 (connVal_of_shape r v0 rest hh)
              have heo_ne : eo ≠ [] := by
                intro hh2; subst hh2; rw [heo] at hvc; exact hvc.1 rfl
              simp only [hf, if_true, hfind, Option.map_some]
              by_cases hc2 : ((joinE en).isEmpty && r.fa.connClose) = true
              · simp only [hc2, if_true]; exact hct
              · simp only [hc2, Bool.false_eq_true, if_false]
                have hset : setValueFirst (isHdr sConnection)
                    (mergeConn (vhc && !r.fa.connClose) (some v0) (joinE en)) r.hdrs
                    = ⟨.header, sConnection, mergeConn (vhc && !r.fa.connClose) (some v0) (joinE en)⟩ :: rest := by
                  rw [hh]; simp [setValueFirst, Mhd.Resp.isHdr_conn_head]
                rw [hset]
                have hm := mergeConn_joinE (vhc && !r.fa.connClose) (some v0) eo en ⟨heo, heo_ne⟩ hokeo hoken
                intro v hv
                by_cases hins : (vhc && !r.fa.connClose) = true
                · simp only [hins, if_true] at hv ⊢
                  rw [connVal_of_shape _ _ rest rfl] at hv
                  simp at hv; subst hv
                  rw [hins] at hm
                  have hcc : r.fa.connClose = false := by simp at hins; exact hins.2
                  rw [hcc] at hsh; simp only [Bool.false_eq_true, if_false] at hsh
                  refine ⟨[sClose] ++ eo ++ en, by simpa using hm, ?_, ?_⟩
                  · intro e he
                    simp only [List.mem_append, List.mem_singleton] at he
                    rcases he with (rfl | he) | he
                    · exact elemOK_sClose
                    · exact hokeo e he
                    · exact hoken e he
                  · simp only [if_true]
                    exact ⟨eo ++ en, by simp, closeFree_append _ _ hsh hcfn⟩
                · simp only [hins, Bool.false_eq_true, if_false] at hv ⊢
                  rw [connVal_of_shape _ _ rest rfl] at hv
                  simp at hv; subst hv
                  have hins' : (vhc && !r.fa.connClose) = false := by simpa using hins
                  rw [hins'] at hm
                  simp only [Bool.false_eq_true, if_false, List.nil_append] at hm
                  refine ⟨eo ++ en, hm, ?_, ?_⟩
                  · intro e he
                    rcases List.mem_append.1 he with he | he
                    · exact hokeo e he
                    · exact hoken e he
                  · by_cases hcc : r.fa.connClose = true
                    · rw [hcc] at hsh ⊢
                      simp only [if_true] at hsh ⊢
                      obtain ⟨es', h1, h2⟩ := hsh
                      exact ⟨es' ++ en, by rw [h1]; simp, closeFree_append _ _ h2 hcfn⟩
                    · have hcc' : r.fa.connClose = false := by simpa using hcc
                      rw [hcc'] at hsh ⊢
                      simp only [Bool.false_eq_true, if_false] at hsh ⊢
                      exact closeFree_append _ _ hsh hcfn
            · have hf' : r.fa.connHdr = false := by simpa using hf
              have hcn := hinv.conn
              simp only [hf'] at hcn
              simp only [hf', Bool.false_eq_true, if_false, Option.map_none, Bool.and_false]
              have hm := mergeConn_joinE (vhc && !false) none [] en rfl (by intro e he; cases he) hoken
              intro v hv
              rw [connVal_of_shape _ _ r.hdrs rfl] at hv
              simp at hv; subst hv
              simp only [hcn.2, Bool.false_or]
              cases vhc with
              | true =>
                simp only [Bool.not_false, Bool.and_self, if_true, List.append_nil] at hm
                refine ⟨[sClose] ++ en, by simpa using hm, ?_, ?_⟩
                · intro e he
                  simp only [List.mem_append, List.mem_singleton] at he
                  rcases he with rfl | he
                  · exact elemOK_sClose
                  · exact hoken e he
                · simp only [if_true]; exact ⟨en, by simp, hcfn⟩
              | false =>
                simp only [Bool.false_and, Bool.false_eq_true, if_false, List.nil_append, List.append_nil] at hm
                exact ⟨en, hm, hoken, by simpa using hcfn⟩

/-- a close-free list never looks like "close" / "close, …" -/
theorem closeFree_not_prefix (es : List Bytes) (hok : ∀ e ∈ es, ElemOK e) (hcf : CloseFree es)
    (hp : ClosePrefix (joinE es)) : False := by
  have h1 := Mhd.Reply.hasToken_close_of_prefix _ hp
  rw [hasToken_joinE es vClose (by decide) hok] at h1
  rw [List.any_eq_true] at h1
  obtain ⟨e, he, ht⟩ := h1
  rw [hcf e he] at ht; cases ht

def keepTest (v : Bytes) : Bool :=
  if v.length == 5 then v == sClose else if 7 < v.length then v.take 7 == sCloseSep else false

theorem keepTest_head (fs : List Bytes) (hok : ∀ e ∈ fs, ElemOK e) : keepTest (joinE (sClose :: fs)) = true := by
  cases fs with
  | nil => decide
  | cons a b =>
    have hne : joinE (a :: b) ≠ [] := fun hh => by
      have := (joinE_eq_nil (a :: b) hok).1 hh; cases this
    rw [joinE_cons sClose (a :: b) (by simp)]
    unfold keepTest
    cases hx : joinE (a :: b) with
    | nil => exact absurd hx hne
    | cons c d => simp [sClose, sCloseSep]

theorem keepTest_prefix (v : Bytes) (h : keepTest v = true) : ClosePrefix v := by
  unfold keepTest at h
  split at h
  · left; simpa using h
  · split at h
    · right
      refine ⟨v.drop 7, ?_⟩
      have h7 : v.take 7 = sCloseSep := by simpa using h
      rw [← h7, List.take_append_drop]
    · cases h

theorem delHeaderConnection_connTok (S : EditorSpecs) (r : Resp) (value : Bytes) (hinv : Inv r) (hct : ConnTok r)
    (hf : r.fa.connHdr = true) : ConnTok (delHeaderConnection r value).2 := by
  unfold delHeaderConnection
  obtain ⟨v0, rest, hh, hc0, hcp, hvc⟩ := conn_shape r hinv hf
  have hfind : r.hdrs.find? (isHdr sConnection) = some ⟨.header, sConnection, v0⟩ := by
    rw [hh]; simp [List.find?, Mhd.Resp.isHdr_conn_head]
  obtain ⟨eo, heo, hokeo, hsh⟩ := hct v0 (connVal_of_shape r v0 rest hh)
  simp only [hfind]
  cases hrt : removeTokensCaseless v0 value with
  | none => exact hct
  | some res =>
    obtain ⟨v', removed⟩ := res
    simp only
    rw [heo] at hrt
    obtain ⟨fs, hsub, hp⟩ := S.rts eo _ _ _ hokeo hrt
    have hokf : ∀ e ∈ fs, ElemOK e := fun e he => hokeo e (hsub.subset he)
    by_cases hrm : removed = true
    · simp only [hrm, Bool.not_true, Bool.false_eq_true, if_false]
      by_cases hemp : v'.isEmpty = true
      · simp only [hemp, if_true]
        have her : eraseFirst (isHdr sConnection) r.hdrs = some (⟨.header, sConnection, v0⟩, rest) := by
          rw [hh]; simp [eraseFirst, Mhd.Resp.isHdr_conn_head]
        simp only [her]
        intro v hv
        have : connVal { r with hdrs := rest, fa := { r.fa with connHdr := false, connClose := false } } = none := by
          unfold connVal; simp only
          rw [find_none_of_cnt_zero _ _ hc0]; rfl
        rw [this] at hv; cases hv
      · simp only [hemp, Bool.false_eq_true, if_false]
        have hset : setValueFirst (isHdr sConnection) v' r.hdrs = ⟨.header, sConnection, v'⟩ :: rest := by
          rw [hh]; simp [setValueFirst, Mhd.Resp.isHdr_conn_head]
        rw [hset]
        simp only [hf, Bool.true_or, Bool.true_and]
        have hkt : (if v'.length == 5 then v' == sClose else if 7 < v'.length then v'.take 7 == sCloseSep else false)
            = keepTest v' := rfl
        rw [hkt]
        by_cases hcc : r.fa.connClose = true
        · rw [hcc] at hsh; simp only [if_true] at hsh
          obtain ⟨es', h1, h2⟩ := hsh
          subst h1
          rcases List.sublist_cons_iff.1 hsub with hsub' | ⟨fs', hfs, hsub'⟩
          · -- the leading close is removed: what remains has no close token, so the test fails
            have hokf' : ∀ e ∈ fs, ElemOK e := hokf
            have hk : keepTest v' = false := by
              cases hx : keepTest v' with
              | false => rfl
              | true =>
                exfalso
                have := keepTest_prefix v' hx
                rw [hp] at this
                exact closeFree_not_prefix _ hokf' (closeFree_sub _ _ hsub' h2) this
            simp only [hk, Bool.not_false, if_true]
            intro v hv
            rw [connVal_of_shape _ _ rest rfl] at hv
            simp at hv; subst hv
            exact ⟨fs, hp, hokf', by simpa using closeFree_sub _ _ hsub' h2⟩
          · -- the leading close is kept
            subst hfs
            have hk : keepTest v' = true := by
              rw [hp]; exact keepTest_head _ (fun e he => hokf e (by simp [he]))
            simp only [hk, Bool.not_true, Bool.false_eq_true, if_false]
            intro v hv
            rw [connVal_of_shape _ _ rest rfl] at hv
            simp at hv; subst hv
            refine ⟨sClose :: fs', hp, hokf, ?_⟩
            rw [hcc]; simp only [if_true]
            exact ⟨fs', rfl, closeFree_sub _ _ hsub' h2⟩
        · have hcc' : r.fa.connClose = false := by simpa using hcc
          rw [hcc'] at hsh; simp only [Bool.false_eq_true, if_false] at hsh
          have hcf := closeFree_sub eo fs hsub hsh
          have hres : ∀ (fa' : AutoFlags), fa'.connClose = false →
              ConnTok { r with hdrs := ⟨.header, sConnection, v'⟩ :: rest, fa := fa' } := by
            intro fa' hfa v hv
            rw [connVal_of_shape _ _ rest rfl] at hv
            simp at hv; subst hv
            refine ⟨fs, hp, hokf, ?_⟩
            simp only [hfa, Bool.false_eq_true, if_false]; exact hcf
          split
          · exact hres _ rfl
          · exact hres _ hcc'
    · simp only [hrm, Bool.not_false, if_true]
      exact hct

/-- every call preserves the token-level invariant (given the editor specifications) -/
theorem applyCall_connTok (S : EditorSpecs) (r : Resp) (c : Call) (hinv : Inv r) (hct : ConnTok r) :
    ConnTok (applyCall r c).2 := by
  have keep : ∀ r' : Resp, connVal r' = connVal r ∧ r'.fa.connClose = r.fa.connClose → ConnTok r' := by
    intro r' ⟨h1, h2⟩ v hv
    rw [h1] at hv; rw [h2]; exact hct v hv
  cases c with
  | add n v =>
    simp only [applyCall]
    by_cases hc : strEqCaseless n sConnection = true
    · have : addHeader r n v = addHeaderConnection r v := by unfold addHeader; simp [hc]
      rw [this]; exact addHeaderConnection_connTok S r v hinv hct
    · exact keep _ (addHeader_rest_conn r n v (by simpa using hc))
  | del n v =>
    simp only [applyCall]
    by_cases hbr : (r.fa.connHdr && nameIs n sConnection) = true
    · have : delHeader r n v = delHeaderConnection r v := by unfold delHeader; simp [hbr]
      rw [this]
      simp at hbr
      exact delHeaderConnection_connTok S r v hinv hct hbr.1
    · exact keep _ (delHeader_rest_conn r n v hinv (by simpa using hbr))
  | foot n v => exact keep _ (addFooter_conn r n v)
  | opt f => exact keep _ (setOptions_conn r f)

theorem runCalls_connTok (S : EditorSpecs) (cs : List Call) : ∀ (r : Resp), Inv r → ConnTok r → (∀ c ∈ cs, c.Legal) →
    ConnTok (runCalls r cs) := by
  induction cs with
  | nil => intro r _ h _; exact h
  | cons c cs ih =>
    intro r hi hc hl
    unfold runCalls
    simp only [List.foldl]
    exact ih _ (applyCall_inv r c hi (hl c (by simp))) (applyCall_connTok S r c hi hc)
      (fun c' hc' => hl c' (by simp [hc']))

theorem connTok_of_nil (r : Resp) (h : r.hdrs = []) : ConnTok r := by
  intro v hv; unfold connVal at hv; rw [h] at hv; simp at hv

/-! ### the converse: an announced close means the daemon closes -/

open Mhd.Reply in
theorem hasToken_ws_cons (x : UInt8) (s lit : Bytes) (hx : isOWS x = true) : hasToken (x :: s) lit = hasToken s lit := by
  unfold hasToken
  have e : ∀ l : List Bytes, l.any (fun t => ciEq (trimOWS t) lit) = (l.map trimOWS).any (fun t => ciEq t lit) := by
    intro l; rw [List.any_map]; rfl
  rw [e, e, splitComma_ws_cons x s hx]

theorem hasToken_dropOWS (s lit : Bytes) : hasToken (s.dropWhile isOWS) lit = hasToken s lit := by
  induction s with
  | nil => rfl
  | cons x t ih =>
    simp only [List.dropWhile]
    by_cases hx : isOWS x = true
    · simp only [hx, if_true]; rw [ih, hasToken_ws_cons x t lit hx]
    · simp [hx]

theorem hasToken_prefix_elem (pre t lit : Bytes) (hp : ∀ b ∈ pre, b ≠ 44) :
    hasToken (pre ++ 44 :: t) lit = (ciEq (trimOWS pre) lit || hasToken t lit) := by
  unfold hasToken
  rw [Mhd.Reply.splitComma_prefix pre t hp]
  simp

open Mhd.Reply in
/-- with keep-alive decided and no close token stored, no Connection field of the header block has a close token -/
theorem no_close_in_fields (c : Conn) (r : Resp) (date : Option Bytes) (props : Props) (hinv : Inv r) (hct : ConnTok r)
    (hcc : r.fa.connClose = false) :
    Mhd.Http.announcesClose (((allFields c r date .useKeepalive props).map toHttp).map Mhd.Http.normField) = false := by
  unfold Mhd.Http.announcesClose
  rw [List.any_eq_false]
  intro f hf
  simp only [List.mem_map] at hf
  obtain ⟨g, ⟨g0, hg0, rfl⟩, rfl⟩ := hf
  simp only [Mhd.Http.normField, toHttp]
  by_cases hn : ciEq g0.name Mhd.Http.nConnection = true
  · simp only [hn, Bool.true_and, hasToken_dropOWS]
    have hnm : nameIs g0.name sConnection = true := by
      rw [Mhd.Bridge.nameIs_iff g0.name _ _ lower_sConn]; exact hn
    unfold allFields at hg0
    simp only [List.mem_append] at hg0
    intro hht
    rcases hg0 with ((hg | hg) | hg) | hg
    · unfold dateFields at hg
      split at hg
      · cases date with
        | none => simp at hg
        | some d => simp at hg; subst hg; rw [nameIs_date_conn] at hnm; cases hnm
      · simp at hg
    · unfold connFields at hg
      split at hg
      · have : useConnClose KA.useKeepalive = false := rfl
        simp only [this, Bool.false_eq_true, if_false] at hg
        split at hg
        · simp at hg; subst hg
          have : hasToken sKeepAlive vClose = false := by decide
          rw [this] at hht; cases hht
        · simp at hg
      · simp at hg
    · obtain ⟨h1, h2⟩ := userFields_unfold c r .useKeepalive props hinv
      by_cases hc : r.fa.connHdr = true
      · obtain ⟨v, rest, st, hh, hu, ha, hb⟩ := h1 hc
        obtain ⟨_, _, _, hc0, _, _⟩ := conn_shape r hinv hc
        rw [hu] at hg
        rcases List.mem_cons.1 hg with rfl | hg'
        · -- the stored Connection header, possibly with "Keep-Alive, " in front
          obtain ⟨es, hes, hok, hsh⟩ := hct v (connVal_of_shape r v rest hh)
          rw [hcc] at hsh; simp only [Bool.false_eq_true, if_false] at hsh
          have hv0 : hasToken v vClose = false := by
            rw [hes, hasToken_joinE es vClose (by decide) hok, List.any_eq_false]
            intro e he; simp [hsh e he]
          have huc : useConnClose KA.useKeepalive = false := rfl
          simp only [huc, Bool.false_and, Bool.false_eq_true, if_false] at hht
          split at hht
          · have : sKeepAliveSep ++ v = sKeepAlive ++ 44 :: (32 :: v) := by simp [sKeepAliveSep, sKeepAlive]
            rw [this, hasToken_prefix_elem _ _ _ (by decide), hasToken_ws_cons 32 v _ (by decide), hv0] at hht
            revert hht; decide
          · simp only [List.nil_append] at hht
            rw [hv0] at hht; cases hht
        · obtain ⟨h, hm, hk, he⟩ := userLoop_verbatim rest st ha hb g0 hg'
          have : isHdr sConnection h = true := by
            rw [isHdr_of, hk]; subst he; simpa using hnm
          have hrest : r.hdrs = ⟨.header, sConnection, v⟩ :: rest := hh
          have hcz : cnt sConnection rest = 0 := by
            have hcn := hinv.conn
            simp only [hc, if_true] at hcn
            obtain ⟨v', rest', e1, e2, _⟩ := hcn
            rw [hh] at e1; simp at e1; rw [e1.2]; exact e2
          rw [cnt_zero_of_mem _ _ hcz h hm] at this; cases this
      · have hc' : r.fa.connHdr = false := by simpa using hc
        obtain ⟨st, hu, ha, hb⟩ := h2 hc'
        rw [hu] at hg
        obtain ⟨h, hm, hk, he⟩ := userLoop_verbatim r.hdrs st ha hb g0 hg
        have : isHdr sConnection h = true := by
          rw [isHdr_of, hk]; subst he; simpa using hnm
        have hcn := hinv.conn
        simp only [hc'] at hcn
        rw [cnt_zero_of_mem _ _ hcn.1 h hm] at this; cases this
    · unfold bodyFields at hg
      split at hg
      · split at hg
        · split at hg
          · simp at hg; subst hg; rw [nameIs_te_conn] at hnm; cases hnm
          · simp at hg
        · split at hg
          · split at hg
            · simp at hg; subst hg; rw [nameIs_cl_conn] at hnm; cases hnm
            · simp at hg
          · simp at hg
      · simp at hg
  · simp [hn]
end Mhd.Tok
