/-
  C03 helper lemmas, part 8: a pipelined stream of valid generated requests is split into
  exactly those requests, at every level and for every segmentation.
-/
import Mhd.Proofs.FramingDecode
namespace Mhd.Framing
open Mhd.Gen.Framing Framer

set_option linter.unusedSectionVars false
variable [P : HeadParser] [L : LawfulHeadParser]

/-! ### pipelined streams of generated requests -/

/-- body of a generated request -/
inductive BodySpec
  | none
  | identity (data : Bytes)
  | chunked (cs : List Chunk) (last : Chunk) (trailer : Bytes)

def BodySpec.bytes : BodySpec → Bytes
  | .none => []
  | .identity d => d
  | .chunked cs last tr => encodeChunked cs last ++ tr

def BodySpec.data : BodySpec → Bytes
  | .none => []
  | .identity d => d
  | .chunked cs _ _ => cs.flatMap Chunk.data

structure Msg where
  headBytes : Bytes
  head : Head
  body : BodySpec

def Msg.bytes (m : Msg) : Bytes := m.headBytes ++ m.body.bytes

def Msg.seen (m : Msg) : Seen := ⟨m.head.method, m.head.target, m.body.data⟩

/-- a generated request that is valid at level `lvl`, keeps the connection alive and is rendered
    whose head bytes the head parser accepts (delivering `m.head`: any method, target, field list) -/
structure MsgOK (lvl : Int) (m : Msg) : Prop where
  headOK : P.head m.headBytes = .ok m.head []
  framing :
    match m.body with
    | .none => decideBody lvl m.head.http11 m.head.fields = .none ∨ decideBody lvl m.head.http11 m.head.fields = .len 0
    | .identity d => d ≠ [] ∧ decideBody lvl m.head.http11 m.head.fields = .len d.length
    | .chunked cs last tr => decideBody lvl m.head.http11 m.head.fields = .chunked false ∧
        (∀ c ∈ cs, ChunkOK lvl c) ∧ LastOK lvl last ∧ ∃ fs, P.trailers tr = .ok fs []
  noClose : lookupToken m.head.fields hdrConnection tokClose = false
  keep : m.head.http11 = true ∨ lookupToken m.head.fields hdrConnection tokKeepAlive = true

/-- the state right after `connection_reset (c, true)` -/
def fresh (i : Nat) (o : List Ev) (buf : Bytes) : St := { state := .init, buf := buf, nreq := i, out := o }

/-- events of one completely handled request, latest first -/
def msgEvents (m : Msg) (st : Nat) : List Ev :=
  [.reqDone, .reply st false, .final] ++ (if m.body.data = [] then [] else [.upload m.body.data]) ++
    [.first m.head.method m.head.target]

theorem emitUpload_first (d m t : Bytes) (o : List Ev) : emitUpload d (.first m t :: o) = .upload d :: .first m t :: o := rfl

/-- the tail of every request: final call, reply, reuse decision -/
theorem steps_reply (lvl : Int) (app : App) (i st : Nat) (o : List Ev) (rest : Bytes) (h : Head) (ch : Bool)
    (rem cur off : Nat)
    (happ : app i = .cont st false)
    (hnc : lookupToken h.fields hdrConnection tokClose = false)
    (hk : h.http11 = true ∨ lookupToken h.fields hdrConnection tokKeepAlive = true) :
    Steps lvl app { state := .fullReqReceived, buf := rest, nreq := i, out := o, head := h, chunked := ch,
                    remaining := rem, cur := cur, off := off }
      (fresh (i + 1) (.reqDone :: .reply st false :: .final :: o) rest) := by
  let s0 : St := { state := .fullReqReceived, buf := rest, nreq := i, out := o, head := h, chunked := ch,
                   remaining := rem, cur := cur, off := off }
  let s1 : St := { s0 with out := .final :: o, resp := some (st, false), state := .startReply }
  have e1 : idleStep lvl app s0 = some s1 := by
    unfold idleStep; simp only [s0, s1, happ]
  have hka : keepalivePossible s1 false = .use := by
    unfold keepalivePossible
    simp only [s1, s0, hnc]
    cases hk with
    | inl hk => simp [hk]
    | inr hk => cases h11 : h.http11 <;> simp [hk]
  let s2 : St := { s1 with keepalive := .use, state := .fullReplySent, out := .reply st false :: .final :: o }
  have e2 : idleStep lvl app s1 = some s2 := by
    unfold idleStep
    simp only [s1, s2, s0] at hka ⊢
    simp only [hka]
    rfl
  have e3 : idleStep lvl app s2 = some (fresh (i + 1) (.reqDone :: .reply st false :: .final :: o) rest) := by
    unfold idleStep
    simp only [s2, s1, s0, connReset, fresh]
    rfl
  exact Steps.head e1 (Steps.head e2 (Steps.one e3))

theorem parseTrailers_append (tr e : Bytes) (fs : List Field) (r : Bytes) (h : P.trailers tr = .ok fs r) :
    P.trailers (tr ++ e) = .ok fs (r ++ e) := L.trailers_append tr e fs r h

/-- one complete valid request from a fresh connection state back to a fresh connection state -/
theorem steps_request (lvl : Int) (app : App) (i st : Nat) (o : List Ev) (m : Msg) (rest : Bytes)
    (hm : MsgOK lvl m) (happ : app i = .cont st false) :
    Steps lvl app (fresh i o (m.bytes ++ rest)) (fresh (i + 1) (msgEvents m st ++ o) rest) := by
  obtain ⟨hcan, hfr, hnc, hk⟩ := hm
  have hp : P.head (m.bytes ++ rest) = .ok m.head (m.body.bytes ++ rest) := by
    have := L.head_append m.headBytes (m.body.bytes ++ rest) m.head [] hcan
    simpa [Msg.bytes, List.append_assoc] using this
  cases hb : m.body with
  | none =>
    rw [hb] at hfr
    let s1 : St := { fresh i o (rest) with state := .headersReceived, head := m.head }
    have e1 : idleStep lvl app (fresh i o (m.bytes ++ rest)) = some s1 := by
      have hbb : m.body.bytes ++ rest = rest := by rw [hb]; simp [BodySpec.bytes, List.append_assoc]
      rw [hbb] at hp
      unfold idleStep; simp only [fresh, hp, s1]
    refine Steps.head e1 ?_
    let s2 : St := { s1 with state := .headersProcessed, remaining := 0 }
    have e2 : idleStep lvl app s1 = some s2 := by
      unfold idleStep
      cases hfr with
      | inl h => simp only [s1, s2, fresh, h]
      | inr h => simp only [s1, s2, fresh, h]
    let s3 : St := { s2 with out := .first m.head.method m.head.target :: o, state := .fullReqReceived }
    have e3 : idleStep lvl app s2 = some s3 := by
      unfold idleStep; simp only [s1, s2, s3, fresh, happ]; rfl
    have e4 := steps_reply lvl app i st (.first m.head.method m.head.target :: o) rest m.head false 0 0 0 happ hnc hk
    have hev : msgEvents m st ++ o = .reqDone :: .reply st false :: .final :: .first m.head.method m.head.target :: o := by
      simp [msgEvents, hb, BodySpec.data]
    rw [hev]
    exact Steps.head e2 (Steps.head e3 e4)
  | identity d =>
    rw [hb] at hfr
    obtain ⟨hdne, hdec⟩ := hfr
    have hdl : 0 < d.length := by cases hd : d with | nil => exact absurd hd hdne | cons _ _ => simp
    let s1 : St := { fresh i o (d ++ rest) with state := .headersReceived, head := m.head }
    have e1 : idleStep lvl app (fresh i o (m.bytes ++ rest)) = some s1 := by
      have hbb : m.body.bytes ++ rest = d ++ rest := by rw [hb]; simp [BodySpec.bytes, List.append_assoc]
      rw [hbb] at hp
      unfold idleStep; simp only [fresh, hp, s1]
    refine Steps.head e1 ?_
    let s2 : St := { s1 with state := .headersProcessed, remaining := d.length }
    have e2 : idleStep lvl app s1 = some s2 := by
      unfold idleStep; simp only [s1, s2, fresh, hdec]
    let s3 : St := { s2 with out := .first m.head.method m.head.target :: o, state := .bodyReceiving }
    have e3 : idleStep lvl app s2 = some s3 := by
      unfold idleStep; simp only [s1, s2, s3, fresh, happ]
      have : ¬ d.length = 0 := by omega
      have hbe : (d ++ rest).isEmpty = false := by
        cases hd : d with
        | nil => exact absurd hd hdne
        | cons _ _ => rfl
      simp only [this, if_false, hbe, Bool.and_false, Bool.false_eq_true]
    let s4 : St := { s3 with buf := rest, remaining := 0, state := .bodyReceived,
                             out := .upload d :: .first m.head.method m.head.target :: o }
    have e4 : idleStep lvl app s3 = some s4 := by
      apply body_idleStep lvl app s3 s4 rfl (by show d.length ≠ 0; omega)
      have hne : s3.buf ≠ [] := by
        show d ++ rest ≠ []
        cases hd : d with | nil => exact absurd hd hdne | cons _ _ => simp
      rw [bodyStep_identity lvl s3 rfl hne]
      have hmin : min s3.remaining s3.buf.length = d.length := by
        show min d.length (d ++ rest).length = _
        simp only [List.length_append]; omega
      rw [hmin]
      have : s3.remaining - d.length = 0 := by show d.length - d.length = 0; omega
      rw [if_pos this]
      simp only [s4, s3, s2, s1, fresh, List.drop_left, List.take_left, emitUpload_first, Nat.sub_self]
    let s5 : St := { s4 with state := .fullReqReceived }
    have e5 : idleStep lvl app s4 = some s5 := by
      unfold idleStep; simp only [s5, s4, s3, s2, s1, fresh]; rfl
    have e6 := steps_reply lvl app i st (.upload d :: .first m.head.method m.head.target :: o) rest m.head false 0 0 0 happ hnc hk
    have hev : msgEvents m st ++ o
        = .reqDone :: .reply st false :: .final :: .upload d :: .first m.head.method m.head.target :: o := by
      simp [msgEvents, hb, BodySpec.data, hdne]
    rw [hev]
    exact Steps.head e2 (Steps.head e3 (Steps.head e4 (Steps.head e5 e6)))
  | chunked cs last tr =>
    rw [hb] at hfr
    obtain ⟨hdec, hcs, hlast, fs, htr⟩ := hfr
    let s1 : St := { fresh i o (encodeChunked cs last ++ (tr ++ rest)) with state := .headersReceived, head := m.head }
    have e1 : idleStep lvl app (fresh i o (m.bytes ++ rest)) = some s1 := by
      have hbb : m.body.bytes ++ rest = encodeChunked cs last ++ (tr ++ rest) := by rw [hb]; simp [BodySpec.bytes, List.append_assoc]
      rw [hbb] at hp
      unfold idleStep; simp only [fresh, hp, s1]
    refine Steps.head e1 ?_
    let s2 : St := { s1 with state := .headersProcessed, chunked := true, remaining := sizeUnknown }
    have e2 : idleStep lvl app s1 = some s2 := by
      unfold idleStep; simp only [s1, s2, fresh, hdec]; rfl
    let s3 : St := { s2 with out := .first m.head.method m.head.target :: o, state := .bodyReceiving }
    have e3 : idleStep lvl app s2 = some s3 := by
      unfold idleStep; simp only [s1, s2, s3, fresh, happ]
      have : ¬ sizeUnknown = 0 := by decide
      have hbe : (encodeChunked cs last ++ (tr ++ rest)).isEmpty = false := by
        have hne := Chunk.line_ne lvl last hlast.toLineOK
        cases hq : encodeChunked cs last ++ (tr ++ rest) with
        | nil =>
          have := congrArg List.length hq
          simp only [encodeChunked, List.length_append, List.length_nil] at this
          cases hl : last.line with
          | nil => exact absurd hl hne
          | cons _ _ => rw [hl] at this; simp at this
        | cons _ _ => rfl
      simp only [this, if_false, hbe, Bool.and_false, Bool.false_eq_true]
    have e4 := steps_chunked_body lvl app cs hcs last hlast (tr ++ rest) s3 rfl rfl
      (by show sizeUnknown ≠ 0; decide) rfl rfl rfl
    let s4 : St := { s3 with buf := tr ++ rest, out := uploadAll cs s3.out, state := .bodyReceived, remaining := 0 }
    let s5 : St := { s4 with state := .footersReceiving }
    have e5 : idleStep lvl app s4 = some s5 := by
      unfold idleStep; simp only [s5, s4, s3, s2, s1, fresh]; rfl
    let s6 : St := { s5 with state := .footersReceived, buf := rest }
    have e6 : idleStep lvl app s5 = some s6 := by
      unfold idleStep
      have := parseTrailers_append tr rest fs [] htr
      simp only [s6, s5, s4, s3, s2, s1, fresh, this, List.nil_append]
    let s7 : St := { s6 with state := .fullReqReceived }
    have e7 : idleStep lvl app s6 = some s7 := by
      unfold idleStep; simp only [s7, s6, s5, s4, s3, s2, s1, fresh]
    have e8 := steps_reply lvl app i st (uploadAll cs (.first m.head.method m.head.target :: o)) rest m.head true 0 0 0 happ hnc hk
    have hev : msgEvents m st ++ o
        = .reqDone :: .reply st false :: .final :: uploadAll cs (.first m.head.method m.head.target :: o) := by
      by_cases hce : cs = []
      · subst hce; simp [msgEvents, hb, BodySpec.data, uploadAll]
      · have hdne : cs.flatMap Chunk.data ≠ [] := by
          cases cs with
          | nil => exact absurd rfl hce
          | cons c t =>
            have := (hcs c List.mem_cons_self).nonEmpty
            simp only [List.flatMap_cons]
            cases hd : c.data with
            | nil => exact absurd hd this
            | cons _ _ => simp
        rw [uploadAll_eq cs _ hce, emitUpload_first]
        simp [msgEvents, hb, BodySpec.data, hdne]
    rw [hev]
    exact Steps.head e2 (Steps.head e3 (Steps.trans e4 (Steps.head e5 (Steps.head e6 (Steps.head e7 e8)))))

def statusOf (app : App) (i : Nat) : Nat :=
  match app i with
  | .cont st _ => st
  | .early st _ => st
  | .abort => 0

/-- all events of a pipeline of completely handled requests, latest first -/
def pipelineEvents (app : App) : Nat → List Msg → List Ev
  | _, [] => []
  | i, m :: t => pipelineEvents app (i + 1) t ++ msgEvents m (statusOf app i)

theorem steps_pipeline (lvl : Int) (app : App) (ms : List Msg) (i : Nat) (o : List Ev) (rest : Bytes)
    (hok : ∀ m ∈ ms, MsgOK lvl m) (happ : ∀ j, i ≤ j → j < i + ms.length → ∃ st, app j = .cont st false) :
    Steps lvl app (fresh i o (ms.flatMap Msg.bytes ++ rest))
      (fresh (i + ms.length) (pipelineEvents app i ms ++ o) rest) := by
  induction ms generalizing i o with
  | nil => simp only [List.flatMap_nil, List.nil_append, List.length_nil, Nat.add_zero, pipelineEvents]; exact Steps.refl _
  | cons m t ih =>
    obtain ⟨st, hst⟩ := happ i (Nat.le_refl i) (by simp only [List.length_cons]; omega)
    have h1 := steps_request lvl app i st o m (t.flatMap Msg.bytes ++ rest) (hok m List.mem_cons_self) hst
    have h2 := ih (i + 1) (msgEvents m st ++ o) (fun m' hm' => hok m' (List.mem_cons_of_mem _ hm'))
      (fun j h1 h2 => happ j (by omega) (by simp only [List.length_cons]; omega))
    have hs : statusOf app i = st := by simp [statusOf, hst]
    have e1 : (m :: t).flatMap Msg.bytes ++ rest = m.bytes ++ (t.flatMap Msg.bytes ++ rest) := by
      simp [List.flatMap_cons, List.append_assoc]
    have e2 : i + (m :: t).length = i + 1 + t.length := by simp only [List.length_cons]; omega
    have e3 : pipelineEvents app i (m :: t) ++ o = pipelineEvents app (i + 1) t ++ (msgEvents m st ++ o) := by
      simp [pipelineEvents, hs, List.append_assoc]
    rw [e1, e2, e3]
    exact Steps.trans h1 h2

theorem framesOfAux_msg (m : Msg) (st : Nat) (tail : List Ev) :
    framesOfAux ((msgEvents m st).reverse ++ tail) none = m.seen :: framesOfAux tail none := by
  by_cases hd : m.body.data = []
  · simp [msgEvents, hd, framesOfAux, Msg.seen]
  · simp [msgEvents, hd, framesOfAux, Msg.seen]

theorem framesOfAux_pipeline (app : App) (ms : List Msg) (i : Nat) :
    framesOfAux (pipelineEvents app i ms).reverse none = ms.map Msg.seen := by
  induction ms generalizing i with
  | nil => rfl
  | cons m t ih =>
    simp only [pipelineEvents, List.reverse_append, List.map_cons]
    rw [framesOfAux_msg, ih]

/-- **pipelined streams**: a stream made of valid generated requests (heads accepted by the head parser, any
    admissible chunking) is split into exactly those requests — same methods, targets and body
    bytes, in order — whatever the strictness level and however the bytes are segmented into reads -/
theorem pipeline_frames (lvl : Int) (app : App) (ms : List Msg) (segs : List Bytes)
    (hok : ∀ m ∈ ms, MsgOK lvl m) (happ : ∀ j, j < ms.length → ∃ st, app j = .cont st false)
    (hsegs : segs.flatten = ms.flatMap Msg.bytes) :
    framesOf (runSegs lvl app segs) = ms.map Msg.seen ∧
    runSegs lvl app segs = fresh ms.length (pipelineEvents app 0 ms) [] := by
  have hst := steps_pipeline lvl app ms 0 [] [] hok (fun j _ h => happ j (by omega))
  simp only [List.append_nil, Nat.zero_add] at hst
  have hidle := idle_of_steps lvl app _ _ hst (by simp [ChunkWF, fresh])
  have hq : idleStep lvl app (fresh ms.length (pipelineEvents app 0 ms) []) = none := by
    unfold idleStep; simp only [fresh, L.head_nil]
  have hrun : runSegs lvl app segs = fresh ms.length (pipelineEvents app 0 ms) [] := by
    rw [runSegs_flatten, hsegs]
    unfold runSegs
    simp only [List.foldl_cons, List.foldl_nil]
    rw [feed_eq]
    have : recv ({} : St) (ms.flatMap Msg.bytes) = fresh 0 [] (ms.flatMap Msg.bytes) := by
      unfold recv extend fresh; simp
    rw [this, hidle.1, idle_of_none lvl app _ hq]
  refine ⟨?_, hrun⟩
  rw [hrun]
  unfold framesOf
  exact framesOfAux_pipeline app ms 0
end Mhd.Framing
