/-
  Function-level facts about `connection_check_timedout` / `connection_get_wait`
  (model: `checkTimedOut`, `getWait`), with the uint64 wrap-around.
-/
import Mhd.Model.TmoLoop
namespace Mhd.Tmo
open Mhd.Gen.Tmo

theorem sub64_of_le {a b : Nat} (h : b ≤ a) (ha : a < W) : sub64 a b = a - b := by
  simp only [sub64, W] at *; omega

theorem sub64_of_lt {a b : Nat} (h : a < b) (hb : b < W) : sub64 a b = a + W - b := by
  simp only [sub64, W] at *; omega

/-- Exactness of the close decision under a clock that has not run backwards past the stamp. -/
theorem checkTimedOut_iff (now : Nat) (c : Conn) (h1 : c.la ≤ now) (h2 : now < 2 ^ 63) :
    checkTimedOut now c = true ↔ c.suspended = false ∧ c.tmo ≠ 0 ∧ c.tmo < now - c.la := by
  have hs : sub64 now c.la = now - c.la := sub64_of_le h1 (by simp only [W]; omega)
  unfold checkTimedOut
  simp only [hs, halfRange]
  cases hsu : c.suspended <;> simp
  by_cases h0 : c.tmo = 0
  · simp [h0]
  · simp only [h0, if_false]
    by_cases hlt : c.tmo < now - c.la
    · simp [hlt]; left; omega
    · simp [hlt]

theorem checkTimedOut_suspended (now : Nat) (c : Conn) (h : c.suspended = true) :
    checkTimedOut now c = false := by
  unfold checkTimedOut; simp [h]

theorem checkTimedOut_noTimeout (now : Nat) (c : Conn) (h : c.tmo = 0) :
    checkTimedOut now c = false := by
  unfold checkTimedOut; simp [h]

/-- The jump-back rule: a stamp at most `jumpBackLimit` ms in the future is not a timeout … -/
theorem checkTimedOut_jumpBack (now : Nat) (c : Conn) (h1 : now < c.la) (h2 : c.la - now ≤ jumpBackLimit)
    (hla : c.la < W) (ht : c.tmo < 2 ^ 63) : checkTimedOut now c = false := by
  have hs : sub64 now c.la = now + W - c.la := sub64_of_lt h1 hla
  have hj : sub64 c.la now = c.la - now := sub64_of_le (Nat.le_of_lt h1) hla
  unfold checkTimedOut
  simp only [hs, hj, halfRange]
  simp only [jumpBackLimit, W] at *
  cases c.suspended <;> simp
  intro _ _
  constructor <;> omega

/-- … and the sleep hint for such a connection is the granularity (100 ms), not 0. -/
theorem getWait_jumpBack (now : Nat) (c : Conn) (h1 : now < c.la) (h2 : c.la - now ≤ jumpBackLimit)
    (hla : c.la < W) (ht : c.tmo < 2 ^ 63) : getWait now c = granularity := by
  have hs : sub64 now c.la = now + W - c.la := sub64_of_lt h1 hla
  have hj : sub64 c.la now = c.la - now := sub64_of_le (Nat.le_of_lt h1) hla
  unfold getWait
  simp only [hs, hj, halfRange]
  simp only [jumpBackLimit, W] at *
  have a : c.tmo < now + 18446744073709551616 - c.la := by omega
  have b : 9223372036854775807 < now + 18446744073709551616 - c.la := by omega
  simp [a, b, h2]

/-- A larger backward jump is treated as a timeout (the code's rule). -/
theorem checkTimedOut_bigJumpBack (now : Nat) (c : Conn) (h1 : now < c.la) (h2 : jumpBackLimit < c.la - now)
    (h3 : c.la - now < 2 ^ 62) (hla : c.la < W) (ht : c.tmo < 2 ^ 62) (hs0 : c.suspended = false) (h0 : c.tmo ≠ 0) :
    checkTimedOut now c = true := by
  have hs : sub64 now c.la = now + W - c.la := sub64_of_lt h1 hla
  have hj : sub64 c.la now = c.la - now := sub64_of_le (Nat.le_of_lt h1) hla
  unfold checkTimedOut
  simp only [hs, hj, halfRange, hs0, h0]
  simp only [jumpBackLimit, W] at *
  have a : c.tmo < now + 18446744073709551616 - c.la := by omega
  have b : 9223372036854775807 < now + 18446744073709551616 - c.la := by omega
  have c' : ¬ (c.la - now ≤ 5000) := by omega
  simp [a, b, c']

/-- `connection_get_wait` and `connection_check_timedout` are in sync for every input
    (the comment in the source asks for it): the wait is 0 exactly when the connection is
    closed for timeout. -/
theorem getWait_zero_iff (now : Nat) (c : Conn) (hs0 : c.suspended = false) (h0 : c.tmo ≠ 0) :
    getWait now c = 0 ↔ checkTimedOut now c = true := by
  unfold getWait checkTimedOut
  simp only [hs0, h0, granularity]
  by_cases a : c.tmo < sub64 now c.la
  · by_cases b : halfRange < sub64 now c.la
    · by_cases d : sub64 c.la now ≤ jumpBackLimit <;> simp [a, b, d]
    · simp [a, b]
  · by_cases e : sub64 now c.la = c.tmo
    · simp [e]
    · simp [a, e]; omega

/-- Under a monotone clock the wait never exceeds the time left to the deadline plus the
    granularity, is 0 once the deadline has passed, and is positive before. -/
theorem getWait_bound (now : Nat) (c : Conn) (h1 : c.la ≤ now) (h2 : now < 2 ^ 63) :
    getWait now c ≤ (c.la + c.tmo - now) + granularity ∧
    (c.la + c.tmo < now → getWait now c = 0) ∧
    (now < c.la + c.tmo → getWait now c = c.la + c.tmo - now) := by
  have hs : sub64 now c.la = now - c.la := sub64_of_le h1 (by simp only [W]; omega)
  unfold getWait
  simp only [hs, halfRange, granularity]
  have nb : ¬ (9223372036854775807 < now - c.la) := by omega
  by_cases a : c.tmo < now - c.la
  · simp [a, nb]; omega
  · by_cases e : now - c.la = c.tmo
    · have a' : ¬ (c.tmo < c.tmo) := by omega
      simp [e, a']; omega
    · simp [a, e]; omega

/-- Exactness of the close decision when the clock may be up to `jumpBackLimit` behind the stamp
    (a small backward jump): closed iff not suspended, a timeout is set and the idle time measured
    on the clock, `now - la` (0 when the clock is behind the stamp), exceeds it. -/
theorem checkTimedOut_iff_jump (now : Nat) (c : Conn) (h1 : c.la ≤ now + jumpBackLimit) (h2 : now < 2 ^ 62)
    (ht : c.tmo < 2 ^ 63) :
    checkTimedOut now c = true ↔ c.suspended = false ∧ c.tmo ≠ 0 ∧ c.tmo < now - c.la := by
  by_cases hle : c.la ≤ now
  · exact checkTimedOut_iff now c hle (by omega)
  · have hlt : now < c.la := by omega
    have hla : c.la < W := by simp only [W, jumpBackLimit] at *; omega
    rw [checkTimedOut_jumpBack now c hlt (by omega) hla ht]
    have : now - c.la = 0 := by omega
    simp [this]

/-- The wait under the same hypothesis: never more than the time left to the deadline plus the
    granularity, and 0 once the deadline has passed. -/
theorem getWait_bound_jump (now : Nat) (c : Conn) (h1 : c.la ≤ now + jumpBackLimit) (h2 : now < 2 ^ 62)
    (ht : c.tmo < 2 ^ 63) :
    getWait now c ≤ (c.la + c.tmo - now) + granularity ∧ (c.la + c.tmo < now → getWait now c = 0) := by
  by_cases hle : c.la ≤ now
  · have := getWait_bound now c hle (by omega); exact ⟨this.1, this.2.1⟩
  · have hlt : now < c.la := by omega
    have hla : c.la < W := by simp only [W, jumpBackLimit] at *; omega
    rw [getWait_jumpBack now c hlt (by omega) hla ht]
    exact ⟨by omega, fun h => by omega⟩
end Mhd.Tmo
