/-
  C12 proofs: T1 — `expectedClass … = ok` iff the semantic credential is RFC-valid within the size limits.
-/
import Mhd.Proofs.DauthOk
namespace Mhd.Dauth
open Mhd.Auth Mhd.Gen.Auth Mhd.Gen.Dauth

theorem ext_none_iff {c : Cred} {lv : LenView} (hls : LenSem c lv) : lv kUsernameExt = none ↔ c.ext = none := by
  rw [hls.ext]; cases c.ext <;> simp

theorem presence_facts {a : Algo} {call : Call} {c : Cred} {lv : LenView} (hls : LenSem c lv)
    (hP : presenceV a call lv c.qop c.userhash = .ok ()) :
    ((c.val kUsername = none ∧ c.ext ≠ none ∧ c.userhash = false) ∨ (c.val kUsername ≠ none ∧ c.ext = none)) ∧
    (c.userhash = true → ∀ l, lv kUsername = some l → a.size * 2 ≤ l ∧ l ≤ a.size * 4) ∧
    ((isPassword call.secret = true ∨ c.userhash = true) → ∀ l, lv kRealm = some l → l ≤ maxParam) ∧
    (c.qop ≠ qopNone → (∀ l, lv kNc = some l → l ≤ ncMaxRaw) ∧ (∀ l, lv kCnonce = some l → l ≤ maxParam) ∧
      ∀ cn, c.val kCnonce = some cn → cn ≠ []) ∧
    (∀ l, lv kUri = some l → l ≤ maxParam) ∧ (∀ u, c.val kUri = some u → u ≠ []) ∧
    (∀ l, lv kNonce = some l → l ≤ a.stdLen * 2) ∧ (∀ l, lv kResponse = some l → l ≤ a.size * 4) := by
  rw [presenceV_ok] at hP
  obtain ⟨h1, h2, h3, h4, h5, h6⟩ := hP
  rw [presUsername_ok] at h1
  rw [presRealm_ok] at h2
  rw [presNcCnonce_ok] at h3
  rw [presUri_ok] at h4
  rw [presNonce_ok] at h5
  rw [presResponse_ok] at h6
  refine ⟨?_, ?_, ?_, ?_, ?_, ?_, ?_, ?_⟩
  · rcases h1 with ⟨el, hu, he, _, huh⟩ | ⟨ul, hu, he, _⟩
    · left
      refine ⟨(hls.none_iff _).mp hu, ?_, huh⟩
      intro hn; rw [(ext_none_iff hls).mpr hn] at he; cases he
    · right
      refine ⟨?_, (ext_none_iff hls).mp he⟩
      intro hn; rw [(hls.none_iff _).mpr hn] at hu; cases hu
  · intro huh l hl
    rcases h1 with ⟨el, hu, _⟩ | ⟨ul, hu, _, hb⟩
    · rw [hu] at hl; cases hl
    · rw [hu] at hl; injection hl with hl; subst hl; exact hb huh
  · intro hc l hl
    obtain ⟨l', hl', hb⟩ := h2
    rw [hl'] at hl; injection hl with hl; subst hl; exact hb hc
  · intro hq
    obtain ⟨l, cl, e1, _, b1, e2, z2, b2⟩ := h3 hq
    refine ⟨?_, ?_, ?_⟩
    · intro l' hl'; rw [e1] at hl'; injection hl' with hl'; subst hl'; exact b1
    · intro l' hl'; rw [e2] at hl'; injection hl' with hl'; subst hl'; exact b2
    · intro cn hcn hnil
      obtain ⟨l', hl', hz⟩ := lv_of_val hls hcn
      rw [e2] at hl'; injection hl' with hl'; subst hl'
      exact z2 (hz.mpr hnil)
  · intro l hl
    obtain ⟨l', hl', _, hb⟩ := h4
    rw [hl'] at hl; injection hl with hl; subst hl; exact hb
  · intro u hu hnil
    obtain ⟨l', hl', hz, _⟩ := h4
    obtain ⟨l'', hl'', hz''⟩ := lv_of_val hls hu
    rw [hl'] at hl''; injection hl'' with hl''; subst hl''
    exact hz (hz''.mpr hnil)
  · intro l hl
    obtain ⟨l', hl', _, hb⟩ := h5
    rw [hl'] at hl; injection hl with hl; subst hl; exact hb
  · intro l hl
    obtain ⟨l', hl', _, hb⟩ := h6
    rw [hl'] at hl; injection hl with hl; subst hl; exact hb

/-- the values `get_rq_dauth_qop` can produce -/
def QopRange (c : Cred) : Prop := c.qop = qopInvalid ∨ c.qop = qopNone ∨ c.qop = qopAuth ∨ c.qop = qopAuthInt

theorem qop_none_or_auth {call : Call} {c : Cred} (hr : QopRange c) (h : stageQopN call c.qop = .ok ()) :
    (c.qop = qopNone ∨ c.qop = qopAuth) ∧ c.qop = (c.qop &&& call.mqop) := by
  rw [stageQopN_iff] at h
  obtain ⟨h1, h2, h3⟩ := h
  refine ⟨?_, h2⟩
  rcases hr with hr | hr | hr | hr
  · exact absurd hr h1
  · exact Or.inl hr
  · exact Or.inr hr
  · rw [hr] at h3; exact absurd h3 (by decide)

/-- T1, first half: success implies validity -/
theorem valid_of_ok (cfg : Cfg) (tbl : Mhd.Nonce.Table) (now : Nat) (r : Req) (call : Call) (timeout maxNc : Nat)
    (c : Cred) (lv : LenView) (hls : LenSem c lv) (hr : QopRange c)
    (h : (expectedClass cfg tbl now r call timeout maxNc c lv).2 = .ok) :
    ∃ a nci nonce t, WithinLimits a call c lv ∧ RFCValid cfg tbl now r call timeout maxNc c a nci nonce t := by
  rw [expected_ok_stages] at h
  obtain ⟨a, nci, n, t, hpre, hfresh, hpost⟩ := h
  rw [specPre_ok_iff] at hpre
  obtain ⟨hA, hQ, hP, hR, hU, hNc, hNo⟩ := hpre
  rw [specPost_ok_iff] at hpost
  obtain ⟨uri, hUri, hResp, hBind⟩ := hpost
  obtain ⟨f1, f2, f3, f4, f5, f6, f7, f8⟩ := presence_facts hls hP
  rw [specUsername_iff a call c f1] at hU
  obtain ⟨hUser, hExtLim⟩ := hU
  rw [specUri_iff] at hUri
  obtain ⟨hu1, hu2, hu3⟩ := hUri
  rw [specNonce_iff] at hNo
  obtain ⟨hn1, hn2, hn3, hn4⟩ := hNo
  rw [specResponse_iff] at hResp
  obtain ⟨h1, resp, bin, nonce', mid, hr1, hr2, hr3, hr4, hr5, hr6, hr7, hr8⟩ := hResp
  rw [hn1] at hr6; injection hr6 with hr6; subst hr6
  obtain ⟨hq1, hq2⟩ := qop_none_or_auth hr hQ
  refine ⟨a, nci, n, t, ?_, ?_⟩
  · refine ⟨f2, f3, fun hq => (f4 hq).1, fun hq => (f4 hq).2.1, ?_, f7, f8, hExtLim⟩
    intro l hl
    rw [hl] at hu2
    exact (noBuffer_false_iff _).mp hu2
  · refine ⟨(stageAlgoN_iff _ _ _).mp hA, ⟨hq1, hq2⟩, hUser, (specRealm_iff _ _).mp hR, ⟨hn1, hn2, hn3, hn4⟩, hfresh,
      ⟨uri, hu1, f6 uri hu1, hu3⟩, ?_, ?_⟩
    · refine ⟨uri, mid, h1, resp, bin, hu1, ?_, hr1, hr2, hr4, hr3, hr5, hr8⟩
      rw [specQopPart_iff] at hr7
      rw [specNc_iff] at hNc
      rcases hr7 with ⟨hqn, hmid⟩ | ⟨hqn, nc, cn, q, e1, e2, e3, hmid⟩
      · rcases hNc with ⟨_, hn⟩ | ⟨hqn', _⟩
        · exact Or.inl ⟨hqn, hn, hmid⟩
        · exact absurd hqn hqn'
      · rcases hNc with ⟨hqn', _⟩ | ⟨_, txt, t1, t2, t3, t4, t5⟩
        · exact absurd hqn' hqn
        · rw [e1] at t1; injection t1 with t1; subst t1
          right
          refine ⟨hq1.resolve_left hqn, nc, cn, q, e1, e2, e3, (f4 hqn).2.2 cn e2, t3, by omega, t5, hmid⟩
    · intro hb
      rw [specBind_iff] at hBind
      obtain ⟨nn, hnn1, hnn2⟩ := hBind hb
      rw [hn1] at hnn2; injection hnn2 with hnn2; subst hnn2
      exact hnn1


theorem extName_len (e name : Bytes) (h : extName e = some name) : extMinLen ≤ e.length := by
  unfold extName at h
  split at h
  · cases h
  · omega

theorem parseNc_nil : Mhd.Nonce.parseNc [] = none := by decide
theorem hexToBin_nil : hexToBin [] = none := rfl

/-- T1, second half: validity (within the size limits) implies success -/
theorem ok_of_valid (cfg : Cfg) (tbl : Mhd.Nonce.Table) (now : Nat) (r : Req) (call : Call) (timeout maxNc : Nat)
    (c : Cred) (lv : LenView) (hls : LenSem c lv) (a : Algo) (nci : Nat) (nonce : Bytes) (t : Nat)
    (hl : WithinLimits a call c lv) (hv : RFCValid cfg tbl now r call timeout maxNc c a nci nonce t) :
    (expectedClass cfg tbl now r call timeout maxNc c lv).2 = .ok := by
  rw [expected_ok_stages]
  obtain ⟨uri, hu1, hu2, hu3⟩ := hv.uri
  obtain ⟨uri', mid, h1, resp, bin, hr0, hcount, hr1, hr2, hr4, hr3, hr5, hr8⟩ := hv.response
  rw [hu1] at hr0; injection hr0 with hr0; subst hr0
  obtain ⟨hn1, hn2, hn3, hn4⟩ := hv.nonceVal
  have hqne : c.qop ≠ qopInvalid := by rcases hv.qop.1 with h | h <;> rw [h] <;> decide
  have hqai : (c.qop &&& qopAuthInt) = 0 := by rcases hv.qop.1 with h | h <;> rw [h] <;> decide
  -- lengths
  obtain ⟨lu, hlu, hluz⟩ := lv_of_val hls hu1
  obtain ⟨ln, hln, hlnz⟩ := lv_of_val hls hn1
  obtain ⟨lr, hlr, hlrz⟩ := lv_of_val hls hr2
  obtain ⟨lrm, hlrm, _⟩ := lv_of_val hls hv.realm
  have hnne : nonce ≠ [] := by
    intro h; rw [h] at hn2; revert hn2; cases a <;> decide
  have hrne : resp ≠ [] := by intro h; rw [h, hexToBin_nil] at hr4; cases hr4
  -- the presence stage
  have hP : presenceV a call lv c.qop c.userhash = .ok () := by
    rw [presenceV_ok]
    refine ⟨?_, ?_, ?_, ?_, ?_, ?_⟩
    · rw [presUsername_ok]
      rcases hv.user with ⟨huh, hu, he⟩ | ⟨huh, hu, e, he, hx⟩ | ⟨huh, he, u, hu, _⟩
      · right
        obtain ⟨l, hl', _⟩ := lv_of_val hls hu
        exact ⟨l, hl', (ext_none_iff hls).mpr he, by intro h; rw [huh] at h; cases h⟩
      · left
        refine ⟨e.length, (hls.none_iff _).mpr hu, by rw [hls.ext, he]; rfl, extName_len e _ hx, huh⟩
      · right
        obtain ⟨l, hl', _⟩ := lv_of_val hls hu
        exact ⟨l, hl', (ext_none_iff hls).mpr he, fun _ => hl.userhash huh l hl'⟩
    · rw [presRealm_ok]
      exact ⟨lrm, hlrm, fun h => hl.realm h lrm hlrm⟩
    · rw [presNcCnonce_ok]
      intro hq
      rcases hcount with ⟨hqn, _⟩ | ⟨_, nc, cn, q, e1, e2, e3, hcn, hp, hpos, _⟩
      · exact absurd hqn hq
      · obtain ⟨l1, hl1, hz1⟩ := lv_of_val hls e1
        obtain ⟨l2, hl2, hz2⟩ := lv_of_val hls e2
        refine ⟨l1, l2, hl1, ?_, hl.nc hq l1 hl1, hl2, ?_, hl.cnonce hq l2 hl2⟩
        · intro h0; have := hz1.mp h0; rw [this, parseNc_nil] at hp; cases hp
        · intro h0; exact hcn (hz2.mp h0)
    · rw [presUri_ok]
      refine ⟨lu, hlu, fun h0 => hu2 (hluz.mp h0), ?_⟩
      have := hl.uri lu hlu; omega
    · rw [presNonce_ok]
      exact ⟨ln, hln, fun h0 => hnne (hlnz.mp h0), hl.nonce ln hln⟩
    · rw [presResponse_ok]
      exact ⟨lr, hlr, fun h0 => hrne (hlrz.mp h0), hl.response lr hlr⟩
  obtain ⟨f1, _⟩ := presence_facts hls hP
  refine ⟨a, nci, nonce, t, ?_, hv.fresh, ?_⟩
  · rw [specPre_ok_iff]
    refine ⟨(stageAlgoN_iff _ _ _).mpr hv.algo, (stageQopN_iff _ _).mpr ⟨hqne, hv.qop.2, hqai⟩, hP,
      (specRealm_iff _ _).mpr hv.realm, (specUsername_iff a call c f1).mpr ⟨hv.user, hl.ext⟩, ?_,
      (specNonce_iff _ _ _ _ _ _).mpr ⟨hn1, hn2, hn3, hn4⟩⟩
    rw [specNc_iff]
    rcases hcount with ⟨hqn, hn, _⟩ | ⟨hqa, nc, cn, q, e1, e2, e3, hcn, hp, hpos, hmx, _⟩
    · exact Or.inl ⟨hqn, hn⟩
    · right
      refine ⟨by rw [hqa]; decide, nc, e1, ?_, hp, by omega, hmx⟩
      intro h; rw [h, parseNc_nil] at hp; cases hp
  · rw [specPost_ok_iff]
    refine ⟨uri, (specUri_iff _ _ _ _ _).mpr ⟨hu1, ?_, hu3⟩, ?_, ?_⟩
    · rw [hlu]; exact (noBuffer_false_iff _).mpr (hl.uri lu hlu)
    · rw [specResponse_iff]
      refine ⟨h1, resp, bin, nonce, mid, hr1, hr2, hr3, hr4, hr5, hn1, ?_, hr8⟩
      rw [specQopPart_iff]
      rcases hcount with ⟨hqn, _, hm⟩ | ⟨hqa, nc, cn, q, e1, e2, e3, _, _, _, _, hm⟩
      · exact Or.inl ⟨hqn, hm⟩
      · exact Or.inr ⟨by rw [hqa]; decide, nc, cn, q, e1, e2, e3, hm⟩
    · rw [specBind_iff]
      intro hb
      exact ⟨nonce, hv.bind hb, hn1⟩

/-- T1: success iff RFC-valid (within the documented size limits) -/
theorem expected_ok_iff (cfg : Cfg) (tbl : Mhd.Nonce.Table) (now : Nat) (r : Req) (call : Call) (timeout maxNc : Nat)
    (c : Cred) (lv : LenView) (hls : LenSem c lv) (hr : QopRange c) :
    (expectedClass cfg tbl now r call timeout maxNc c lv).2 = .ok ↔
      ∃ a nci nonce t, WithinLimits a call c lv ∧ RFCValid cfg tbl now r call timeout maxNc c a nci nonce t :=
  ⟨valid_of_ok cfg tbl now r call timeout maxNc c lv hls hr,
   fun ⟨a, nci, nonce, t, hl, hv⟩ => ok_of_valid cfg tbl now r call timeout maxNc c lv hls a nci nonce t hl hv⟩

end Mhd.Dauth
