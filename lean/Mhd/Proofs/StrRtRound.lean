/-
  C17 proofs: `MHD_str_remove_tokens_caseless_` — the removal round for one token equals
  "filter the element list".
-/
import Mhd.Proofs.StrRtFun

namespace Mhd.Str

/-! ### the three parts of one iteration of the `do … while (1)` loop -/

def rtMatchPart (tokens : Bytes) (tkn tknLen len : Nat) (st : RtIn) : M Bool := do
  let atEnd ← (if len = st.pr + tknLen then pure true else do
                 let c ← rd st.buf (st.pr + tknLen)
                 pure (c == 0x2c) : M Bool)
  if atEnd then equalCaselessBinAt st.buf st.pr tokens tkn tknLen else pure false

def rtKeepPart (len : Nat) (st : RtIn) : M RtIn := do
  let (pw, buf) ← rtSep st.pr st.pw st.buf
  let (pr, pw, buf) ← iter (rtCopyElemStep len) (len + 1) (st.pr, pw, buf)
  pure { st with pr := pr + 2, pw := pw, buf := buf }

def rtTailPart (len tknLen : Nat) (st1 : RtIn) : M (RtIn ⊕ (Nat × Bytes × Bool)) := do
  if len < st1.pr + tknLen then
    if len > st1.pr then
      let copySize := len - st1.pr
      let (pw, buf) ← rtSep st1.pr st1.pw st1.buf
      let buf ← (if st1.pr ≠ pw then copyBytes buf st1.pr buf pw copySize else pure buf)
      return .inr (pw + copySize, buf, st1.removed)
    else return .inr (st1.pw, st1.buf, st1.removed)
  else return .inl st1

theorem rtInnerStep_eq (tokens : Bytes) (tkn tknLen len : Nat) (st : RtIn) :
    rtInnerStep tokens tkn tknLen len st = (do
      let isMatch ← rtMatchPart tokens tkn tknLen len st
      let st1 ← (if isMatch then pure { st with removed := true, pr := st.pr + tknLen + 2 } else rtKeepPart len st : M RtIn)
      rtTailPart len tknLen st1) := by
  unfold rtInnerStep rtMatchPart rtKeepPart rtTailPart
  simp only [bind_assoc]


theorem drop_at (buf : Bytes) (pr : Nat) (a b : Bytes) (h : buf.drop pr = a ++ b) : buf.drop (pr + a.length) = b := by
  rw [← List.drop_drop, h]; simp

theorem length_of_drop (buf : Bytes) (pr : Nat) (a : Bytes) (h : buf.drop pr = a) (hne : a ≠ []) :
    pr + a.length = buf.length := by
  have := congrArg List.length h
  simp at this
  have : pr < buf.length := by
    by_cases hl : pr < buf.length
    · exact hl
    · rw [List.drop_eq_nil_of_le (by omega)] at h; exact absurd h.symm hne
  omega

/-! ### the match test -/

theorem rtMatch_spec (tokens : Bytes) (tkn tknLen len : Nat) (T jt : Bytes) (st : RtIn) (e R junk : Bytes)
    (hT : tokens.drop tkn = T ++ jt) (hTl : T.length = tknLen) (hTc : ∀ x ∈ T, x ≠ 0x2c)
    (hbuf : st.buf.drop st.pr = e ++ R ++ junk) (hlen : st.pr + e.length + R.length = len)
    (he : ∀ x ∈ e, x ≠ 0x2c) (hR : R = [] ∨ ∃ R', R = 0x2c :: R') (hfit : st.pr + tknLen ≤ len) :
    rtMatchPart tokens tkn tknLen len st = .ok (ceqBytes e T) := by
  unfold rtMatchPart
  have hrd : ∀ k, k < e.length + R.length → ∃ c, st.buf[st.pr + k]? = some c ∧ (e ++ R)[k]? = some c := by
    intro k hk
    have h1 : k < (e ++ R).length := by simp; omega
    refine ⟨(e ++ R)[k], ?_, List.getElem?_eq_getElem h1⟩
    rw [← List.getElem?_drop, hbuf, List.getElem?_append_left h1, List.getElem?_eq_getElem h1]
  rcases Nat.lt_trichotomy e.length tknLen with hlt | heq | hgt
  · have hfalse : ceqBytes e T = false := ceqBytes_length_ne _ _ (by omega)
    rw [hfalse]
    obtain ⟨R', rfl⟩ : ∃ R', R = 0x2c :: R' := by
      rcases hR with rfl | h
      · simp at hlen; omega
      · exact h
    have hwin : st.buf.drop st.pr = (e ++ 0x2c :: R').take tknLen ++ ((e ++ 0x2c :: R').drop tknLen ++ junk) := by
      rw [hbuf, ← List.append_assoc, List.take_append_drop]
    have hwl : ((e ++ 0x2c :: R').take tknLen).length = tknLen := by simp at hlen ⊢; omega
    have hE := equalCaselessBinAt_spec st.buf st.pr tokens tkn tknLen _ T _ jt hwin hT hwl hTl
    have hne : ceqBytes ((e ++ 0x2c :: R').take tknLen) T = false := by
      cases hc : ceqBytes ((e ++ 0x2c :: R').take tknLen) T with
      | false => rfl
      | true =>
        exfalso
        refine ceqBytes_commafree _ _ hc hTc 0x2c ?_ rfl
        obtain ⟨k, hk⟩ : ∃ k, tknLen - e.length = k + 1 := ⟨tknLen - e.length - 1, by omega⟩
        rw [List.take_append, hk]
        apply List.mem_append_right
        simp
    rw [hE, hne]
    by_cases ha : len = st.pr + tknLen
    · simp [ha]
    · obtain ⟨c, hc, _⟩ := hrd tknLen (by simp at hlen ⊢; omega)
      simp only [ha, if_false, rd_some hc, bind_ok', pure_eq_ok]
      cases (c == 0x2c) <;> simp
  · have hwin : st.buf.drop st.pr = e ++ (R ++ junk) := by rw [hbuf, List.append_assoc]
    have hE := equalCaselessBinAt_spec st.buf st.pr tokens tkn tknLen e T _ jt hwin hT heq hTl
    rcases hR with rfl | ⟨R', rfl⟩
    · have ha : len = st.pr + tknLen := by simp at hlen; omega
      simp only [ha, if_true, pure_eq_ok, bind_ok']
      exact hE
    · by_cases ha : len = st.pr + tknLen
      · simp only [ha, if_true, pure_eq_ok, bind_ok']
        exact hE
      · obtain ⟨c, hc, hc2⟩ := hrd tknLen (by simp; omega)
        have : c = 0x2c := by
          rw [List.getElem?_append_right (by omega)] at hc2
          have h0 : tknLen - e.length = 0 := by omega
          rw [h0] at hc2; simp at hc2; exact hc2.symm
        subst this
        simp only [ha, if_false, rd_some hc, bind_ok', pure_eq_ok]
        exact hE
  · have hfalse : ceqBytes e T = false := ceqBytes_length_ne _ _ (by omega)
    rw [hfalse]
    have ha : len ≠ st.pr + tknLen := by omega
    obtain ⟨c, hc, hc2⟩ := hrd tknLen (by omega)
    have hcn : c ≠ 0x2c := by
      rw [List.getElem?_append_left hgt] at hc2
      have hm : c ∈ e := List.mem_of_getElem? hc2
      exact he c hm
    have : (c == 0x2c) = false := by simp [hcn]
    simp only [ha, if_false, rd_some hc, bind_ok', pure_eq_ok, this, Bool.false_eq_true]


/-! ### keeping an element -/

/-- what follows an element in the joined list -/
def afterElem (rest : List Bytes) : Bytes := if rest = [] then [] else sepCS ++ joinWith sepCS rest

theorem join_split (e : Bytes) (rest : List Bytes) : joinWith sepCS (e :: rest) = e ++ afterElem rest :=
  joinWith_cons _ _ _

theorem afterElem_nil : afterElem [] = [] := rfl

theorem afterElem_cons (a : Bytes) (t : List Bytes) :
    afterElem (a :: t) = 0x2c :: 0x20 :: joinWith sepCS (a :: t) := by
  simp [afterElem]

theorem afterElem_shape (rest : List Bytes) : afterElem rest = [] ∨ ∃ R', afterElem rest = 0x2c :: R' := by
  cases rest with
  | nil => left; rfl
  | cons a t => right; exact ⟨_, afterElem_cons a t⟩

theorem pr_le_of_drop (buf : Bytes) (pr : Nat) (a b : Bytes) (h : buf.drop pr = a ++ b) (ha : a ≠ []) :
    pr + a.length + b.length = buf.length := by
  have := length_of_drop buf pr (a ++ b) h (by simp [ha])
  simp at this; omega

theorem rtKeep_spec (len N : Nat) (junk : Bytes) (st : RtIn) (e : Bytes) (rest K : List Bytes)
    (heok : elemOk e = true)
    (hbuf : st.buf.drop st.pr = joinWith sepCS (e :: rest) ++ junk)
    (hlen : st.pr + (joinWith sepCS (e :: rest)).length = len)
    (hN : st.buf.length = N) (htake : st.buf.take st.pw = joinWith sepCS K) (h0 : st.pw = 0 ↔ K = [])
    (hgap : st.pw ≠ 0 → st.pw + 2 ≤ st.pr)
    (hsame : st.pw ≠ 0 → st.pr = st.pw + 2 → (st.buf.drop st.pw).take 2 = sepCS) :
    ∃ st1, rtKeepPart len st = .ok st1 ∧ st1.removed = st.removed ∧ st1.pr = st.pr + e.length + 2 ∧
      st1.buf.length = N ∧ st1.buf.take st1.pw = joinWith sepCS (K ++ [e]) ∧ st1.pw ≠ 0 ∧ st1.pw + 2 ≤ st1.pr ∧
      st1.buf.drop (st.pr + e.length) = st.buf.drop (st.pr + e.length) ∧
      (st1.pr = st1.pw + 2 → st1.pw = st.pr + e.length) := by
  obtain ⟨hene, hec⟩ := (elemOk_iff e).mp heok
  obtain ⟨c, cs, rfl⟩ : ∃ c cs, e = c :: cs := by
    cases e with
    | nil => exact absurd rfl hene
    | cons c cs => exact ⟨c, cs, rfl⟩
  have hjne : joinWith sepCS ((c :: cs) :: rest) ≠ [] := joinWith_ne_nil _ _ _ hene
  have hbl := pr_le_of_drop _ _ _ _ hbuf hjne
  unfold rtKeepPart
  obtain ⟨pw', buf1, hs, hl1, hpw', hpwle, ht1, hd1⟩ := rtSep_spec st.pr st.pw st.buf _ htake hgap (by omega) hsame
  rw [hs]; simp only [bind_ok']
  rw [join_split] at hbuf hlen
  have hd1' : buf1.drop st.pr = c :: cs ++ afterElem rest ++ junk := by rw [hd1, hbuf]
  obtain ⟨buf2, hc, hl2, ht2, hd2⟩ := rtCopyElem_go len junk cs c (afterElem rest) st.pr pw' buf1 (len + 1) hd1'
    (by simp at hlen ⊢; omega) (fun x hx => hec x (List.mem_cons_of_mem _ hx)) (afterElem_shape rest) hpwle
    (by simp at hlen; omega)
  rw [hc]; simp only [bind_ok', pure_eq_ok]
  refine ⟨_, rfl, rfl, by simp; omega, by simp; omega, ?_, by simp, by simp; omega, ?_, by simp; omega⟩
  · simp only []
    rw [ht2, ht1, joinWith_append _ K [c :: cs] (by simp)]
    by_cases hk : K = []
    · simp [hk, h0.mpr hk, joinWith]
    · have : st.pw ≠ 0 := fun h => hk (h0.mp h)
      simp [hk, this, joinWith]
  · simp only []
    have e1 : st.pr + (c :: cs).length = st.pr + cs.length + 1 := by simp; omega
    rw [e1, hd2]
    have e2 : st.pr + cs.length + 1 = st.pr + (cs.length + 1) := by omega
    rw [e2, ← List.drop_drop, ← List.drop_drop (l := st.buf), hd1]

/-! ### the end-of-round test -/

theorem rtTail_nil (len tknLen : Nat) (st1 : RtIn) (h : st1.pr = len + 2) :
    rtTailPart len tknLen st1 = .ok (.inr (st1.pw, st1.buf, st1.removed)) := by
  unfold rtTailPart
  have h1 : len < st1.pr + tknLen := by omega
  have h2 : ¬ len > st1.pr := by omega
  simp [h1, h2]

theorem rtTail_cons (len tknLen N : Nat) (junk : Bytes) (K' : List Bytes) (e' : Bytes) (rest' : List Bytes) (st1 : RtIn)
    (he' : elemOk e' = true)
    (hbuf : st1.buf.drop st1.pr = joinWith sepCS (e' :: rest') ++ junk)
    (hlen : st1.pr + (joinWith sepCS (e' :: rest')).length = len)
    (hN : st1.buf.length = N) (htake : st1.buf.take st1.pw = joinWith sepCS K') (h0 : st1.pw = 0 ↔ K' = [])
    (hgap : st1.pw ≠ 0 → st1.pw + 2 ≤ st1.pr)
    (hsame : st1.pw ≠ 0 → st1.pr = st1.pw + 2 → (st1.buf.drop st1.pw).take 2 = sepCS) :
    (len < st1.pr + tknLen → ∃ len' buf', rtTailPart len tknLen st1 = .ok (.inr (len', buf', st1.removed)) ∧
        buf'.length = N ∧ len' ≤ len ∧ buf'.take len' = joinWith sepCS (K' ++ e' :: rest')) ∧
    (¬ len < st1.pr + tknLen → rtTailPart len tknLen st1 = .ok (.inl st1)) := by
  constructor
  · intro hlt
    have hjne : joinWith sepCS (e' :: rest') ≠ [] := joinWith_ne_nil _ _ _ ((elemOk_iff e').mp he').1
    have hbl := pr_le_of_drop _ _ _ _ hbuf hjne
    have hpos : 0 < (joinWith sepCS (e' :: rest')).length := List.length_pos_iff.mpr hjne
    have hgt : len > st1.pr := by omega
    unfold rtTailPart
    simp only [hlt, hgt, if_true]
    obtain ⟨pw', buf1, hs, hl1, hpw', hpwle, ht1, hd1⟩ := rtSep_spec st1.pr st1.pw st1.buf _ htake hgap (by omega) hsame
    rw [hs]; simp only [bind_ok']
    obtain ⟨buf2, hcp, hl2, ht2⟩ : ∃ buf2, (if st1.pr ≠ pw' then copyBytes buf1 st1.pr buf1 pw' (len - st1.pr) else pure buf1 : M Bytes) = .ok buf2 ∧
        buf2.length = buf1.length ∧ buf2.take (pw' + (len - st1.pr)) = buf1.take pw' ++ (buf1.drop st1.pr).take (len - st1.pr) := by
      by_cases hne : st1.pr ≠ pw'
      · simp only [hne, ne_eq, not_false_eq_true, if_true]
        obtain ⟨d, hd, hdl, hdt⟩ := copyBytes_exact buf1 st1.pr buf1 pw' (len - st1.pr) (by omega) (by omega)
        exact ⟨d, hd, hdl, hdt⟩
      · have he : st1.pr = pw' := by omega
        simp only [hne, if_false, pure_eq_ok]
        exact ⟨buf1, rfl, rfl, by rw [← he, List.take_add]⟩
    simp only [pure_eq_ok] at hcp
    simp only [hcp, bind_ok', pure_eq_ok]
    refine ⟨_, _, rfl, by omega, by omega, ?_⟩
    rw [ht2, ht1, hd1, hbuf, List.take_left' (by omega), joinWith_append _ K' (e' :: rest') (by simp)]
    by_cases hk : K' = []
    · simp [hk, h0.mpr hk]
    · have : st1.pw ≠ 0 := fun h => hk (h0.mp h)
      simp [hk, this]
  · intro hge
    unfold rtTailPart
    simp [hge]

theorem short_no_match (T : Bytes) (l : List Bytes) (h : (joinWith sepCS l).length < T.length) :
    l.filter (fun x => !ceqBytes x T) = l ∧ l.any (fun x => ceqBytes x T) = false := by
  have hall : ∀ x ∈ l, ceqBytes x T = false := by
    intro x hx
    have := joinWith_length_mem sepCS l x hx
    exact ceqBytes_length_ne _ _ (by omega)
  constructor
  · apply List.filter_eq_self.mpr
    intro x hx; simp [hall x hx]
  · rw [List.any_eq_false]
    intro x hx; simp [hall x hx]


/-! ### the whole round -/

theorem rtInner_go (tokens : Bytes) (tkn tknLen len N : Nat) (T jt junk : Bytes)
    (hT : tokens.drop tkn = T ++ jt) (hTl : T.length = tknLen) (hTc : ∀ x ∈ T, x ≠ 0x2c) :
    ∀ (rest : List Bytes) (e : Bytes) (K : List Bytes) (st : RtIn) (n : Nat),
      (∀ x ∈ e :: rest, elemOk x = true) →
      st.buf.drop st.pr = joinWith sepCS (e :: rest) ++ junk →
      st.pr + (joinWith sepCS (e :: rest)).length = len →
      st.pr + tknLen ≤ len → st.buf.length = N →
      st.buf.take st.pw = joinWith sepCS K → (st.pw = 0 ↔ K = []) → st.pw ≤ st.pr →
      (st.pw ≠ 0 → st.pw + 2 ≤ st.pr) →
      (st.pw ≠ 0 → st.pr = st.pw + 2 → (st.buf.drop st.pw).take 2 = sepCS) →
      rest.length < n →
      ∃ len' buf', iter (rtInnerStep tokens tkn tknLen len) n st =
          .ok (len', buf', (st.removed || (e :: rest).any (fun x => ceqBytes x T))) ∧
        buf'.length = N ∧ len' ≤ len ∧
        buf'.take len' = joinWith sepCS (K ++ (e :: rest).filter (fun x => !ceqBytes x T)) := by
  intro rest
  induction rest with
  | nil =>
    intro e K st n hok hbuf hlen hfit hN htake h0 hle hgap hsame hn
    obtain ⟨n', rfl⟩ : ∃ n', n = n' + 1 := ⟨n - 1, by omega⟩
    have heok := hok e List.mem_cons_self
    obtain ⟨hene, hec⟩ := (elemOk_iff e).mp heok
    have hm := rtMatch_spec tokens tkn tknLen len T jt st e (afterElem []) junk hT hTl hTc
      (by rw [hbuf, join_split]) (by rw [← hlen, join_split]; simp [afterElem]) hec (afterElem_shape []) hfit
    have hjl : (joinWith sepCS [e]).length = e.length := by simp [joinWith]
    simp only [iter, rtInnerStep_eq, hm, bind_ok']
    cases hc : ceqBytes e T with
    | true =>
      have hel : e.length = tknLen := by rw [← hTl]; exact listEq_length hc
      simp only [if_true, pure_eq_ok, bind_ok']
      rw [rtTail_nil _ _ _ (by simp only []; omega)]
      refine ⟨st.pw, st.buf, by simp [hc], hN, by omega, ?_⟩
      simp [hc, htake]
    | false =>
      obtain ⟨st1, hk, q1, q2, q3, q4, q5, q6, q7, q8⟩ := rtKeep_spec len N junk st e [] K heok hbuf hlen hN htake h0 hgap hsame
      simp only [Bool.false_eq_true, if_false, hk, bind_ok']
      rw [rtTail_nil _ _ _ (by omega)]
      refine ⟨st1.pw, st1.buf, by simp [hc, q1], q3, by omega, ?_⟩
      simp [hc, q4]
  | cons e' rest' ih =>
    intro e K st n hok hbuf hlen hfit hN htake h0 hle hgap hsame hn
    obtain ⟨n', rfl⟩ : ∃ n', n = n' + 1 := ⟨n - 1, by omega⟩
    have heok := hok e List.mem_cons_self
    have hok' : ∀ x ∈ e' :: rest', elemOk x = true := fun x hx => hok x (List.mem_cons_of_mem _ hx)
    have heok' := hok' e' List.mem_cons_self
    obtain ⟨hene, hec⟩ := (elemOk_iff e).mp heok
    have hm := rtMatch_spec tokens tkn tknLen len T jt st e (afterElem (e' :: rest')) junk hT hTl hTc
      (by rw [hbuf, join_split]) (by rw [← hlen, join_split]; simp; omega) hec (afterElem_shape _) hfit
    have hjs : joinWith sepCS (e :: e' :: rest') = e ++ (sepCS ++ joinWith sepCS (e' :: rest')) := joinWith_cons_cons _ _ _ _
    have hjne : joinWith sepCS (e :: e' :: rest') ≠ [] := joinWith_ne_nil _ _ _ hene
    have hbl := pr_le_of_drop _ _ _ _ hbuf hjne
    -- the buffer behind the element and its separator
    have hnext : st.buf.drop (st.pr + e.length + 2) = joinWith sepCS (e' :: rest') ++ junk := by
      have h1 := drop_at st.buf st.pr e (sepCS ++ joinWith sepCS (e' :: rest') ++ junk)
        (by rw [hbuf, hjs]; simp [List.append_assoc])
      have h2 := drop_at st.buf (st.pr + e.length) sepCS (joinWith sepCS (e' :: rest') ++ junk)
        (by rw [h1]; simp [List.append_assoc])
      simpa using h2
    have hnlen : st.pr + e.length + 2 + (joinWith sepCS (e' :: rest')).length = len := by
      rw [← hlen, hjs]; simp; omega
    simp only [iter, rtInnerStep_eq, hm, bind_ok']
    cases hc : ceqBytes e T with
    | true =>
      have hel : e.length = tknLen := by rw [← hTl]; exact listEq_length hc
      simp only [if_true, pure_eq_ok, bind_ok']
      obtain ⟨t1, t2⟩ := rtTail_cons len tknLen N junk K e' rest'
        { st with removed := true, pr := st.pr + tknLen + 2 } heok'
        (by simp only []; rw [← hel]; exact hnext) (by simp only []; rw [← hel]; exact hnlen) hN htake h0
        (by simp only []; intro h; have := hgap h; omega) (by simp only []; intro h h2; have := hgap h; omega)
      by_cases hlt : len < st.pr + tknLen + 2 + tknLen
      · obtain ⟨len', buf', hr, r1, r2, r3⟩ := t1 hlt
        rw [hr]
        obtain ⟨s1, s2⟩ := short_no_match T (e' :: rest') (by omega)
        refine ⟨len', buf', ?_, r1, r2, ?_⟩
        · simp only [List.any_cons, hc, Bool.true_or, Bool.or_true]
        · rw [r3, List.filter_cons]; simp only [hc, Bool.not_true, Bool.false_eq_true, if_false]; rw [s1]
      · rw [t2 hlt]
        obtain ⟨len', buf', hr, r1, r2, r3⟩ := ih e' K { st with removed := true, pr := st.pr + tknLen + 2 } n' hok'
          (by simp only []; rw [← hel]; exact hnext) (by simp only []; rw [← hel]; exact hnlen) (by simp only []; omega) hN htake h0
          (by simp only []; omega) (by simp only []; intro h; have := hgap h; omega)
          (by simp only []; intro h h2; have := hgap h; omega) (by simp at hn; omega)
        simp only [] at hr
        refine ⟨len', buf', ?_, r1, r2, ?_⟩
        · simp only [hr]; simp [hc]
        · rw [r3, List.filter_cons (x := e)]; simp [hc]
    | false =>
      obtain ⟨st1, hk, q1, q2, q3, q4, q5, q6, q7, q8⟩ := rtKeep_spec len N junk st e (e' :: rest') K heok hbuf hlen hN htake h0 hgap hsame
      simp only [Bool.false_eq_true, if_false, hk, bind_ok']
      have hnext1 : st1.buf.drop st1.pr = joinWith sepCS (e' :: rest') ++ junk := by
        rw [q2]
        have : st.pr + e.length + 2 = (st.pr + e.length) + 2 := rfl
        rw [this, ← List.drop_drop, q7, List.drop_drop]; exact hnext
      have h01 : st1.pw = 0 ↔ K ++ [e] = [] := by
        constructor
        · intro h; exact absurd h q5
        · intro h; simp at h
      have hsame1 : st1.pw ≠ 0 → st1.pr = st1.pw + 2 → (st1.buf.drop st1.pw).take 2 = sepCS := by
        intro _ h2
        rw [q8 h2, q7]
        have h1 := drop_at st.buf st.pr e (sepCS ++ joinWith sepCS (e' :: rest') ++ junk)
          (by rw [hbuf, hjs]; simp [List.append_assoc])
        rw [h1]; simp
      obtain ⟨t1, t2⟩ := rtTail_cons len tknLen N junk (K ++ [e]) e' rest' st1 heok' hnext1 (by rw [q2]; exact hnlen) q3 q4 h01
        (fun _ => q6) hsame1
      by_cases hlt : len < st1.pr + tknLen
      · obtain ⟨len', buf', hr, r1, r2, r3⟩ := t1 hlt
        rw [hr]
        obtain ⟨s1, s2⟩ := short_no_match T (e' :: rest') (by omega)
        refine ⟨len', buf', ?_, r1, r2, ?_⟩
        · rw [q1, List.any_cons (a := e), hc, Bool.false_or, s2]; simp
        · rw [r3, List.filter_cons (x := e)]; simp only [hc, Bool.not_false, if_true]; rw [s1]; simp
      · rw [t2 hlt]
        obtain ⟨len', buf', hr, r1, r2, r3⟩ := ih e' (K ++ [e]) st1 n' hok' hnext1 (by rw [q2]; exact hnlen) (by omega) q3 q4 h01
          (by omega) (fun _ => q6) hsame1 (by simp at hn; omega)
        refine ⟨len', buf', ?_, r1, r2, ?_⟩
        · simp only [hr, q1]; simp [hc]
        · rw [r3, List.filter_cons (x := e)]; simp [hc]

end Mhd.Str
