/-
  C03 helper lemmas, part 6: one step of the idle loop commutes with the arrival of more bytes,
  hence `feed (feed s a) b = feed s (a ++ b)` and every segmentation of a stream gives the same result.
-/
import Mhd.Proofs.FramingIdle
namespace Mhd.Framing
open Mhd.Gen.Framing

set_option linter.unusedSectionVars false
variable [P : HeadParser] [L : LawfulHeadParser]

/-- bytes arrive: appended to the read buffer unless the connection is finished -/
def recv (s : St) (b : Bytes) : St :=
  if s.state = .closed ∨ s.state = .outOfDomain then s else extend s b

theorem feed_eq (lvl : Int) (app : App) (s : St) (b : Bytes) : feed lvl app s b = idle lvl app (recv s b) := by
  unfold feed recv
  split
  · rename_i h
    rw [idle_of_none]
    unfold idleStep
    cases h with
    | inl h => simp [h]
    | inr h => simp [h]
  · rfl

omit P L in
theorem emitUpload_emitUpload (x y : Bytes) (out : List Ev) :
    emitUpload y (emitUpload x out) = emitUpload (x ++ y) out := by
  unfold emitUpload
  cases out with
  | nil => simp
  | cons e t => cases e <;> simp

theorem chunkWF_extend (s : St) (b : Bytes) (wf : ChunkWF s) : ChunkWF (extend s b) := wf

theorem recv_of_state (s : St) (b : Bytes) (h1 : s.state ≠ .closed) (h2 : s.state ≠ .outOfDomain) :
    recv s b = extend s b := by
  unfold recv; simp [h1, h2]

/-- closing step: the buffer content is irrelevant -/
theorem idle_fullReplySent_noreuse (lvl : Int) (app : App) (s : St) (b : Bytes) (wf : ChunkWF s)
    (hs : s.state = .fullReplySent) (hr : (s.keepalive == KA.use && !s.readClosed && !s.discard) = false) :
    idle lvl app (extend s b) = idle lvl app s := by
  have h1 : idleStep lvl app (extend s b) = some (connReset s false) := by
    unfold idleStep; simp only [extend, hs, hr, connReset]; rfl
  have h2 : idleStep lvl app s = some (connReset s false) := by
    unfold idleStep; simp only [hs, hr]
  rw [idle_step lvl app _ _ (chunkWF_extend s b wf) h1, idle_step lvl app _ _ wf h2]

theorem errorReply_extend (s : St) (b : Bytes) (st : Nat) : errorReply (extend s b) st = errorReply s st := by
  unfold errorReply extend; simp

theorem idle_errorReply (lvl : Int) (app : App) (s : St) (b : Bytes) (st : Nat) (wf : ChunkWF s) :
    idle lvl app (recv (errorReply s st) b) = idle lvl app (errorReply s st) := by
  by_cases hse : s.stopErr = true
  · have : (errorReply s st).state = .closed := by unfold errorReply; simp [hse]
    unfold recv; simp [this]
  · have hst : (errorReply s st).state = .fullReplySent := by unfold errorReply; simp [hse]
    rw [recv_of_state _ _ (by simp [hst]) (by simp [hst])]
    apply idle_fullReplySent_noreuse lvl app _ b _ hst
    · unfold errorReply; simp [hse]
    · unfold errorReply; simp [hse]; exact wf

/-- a step whose result only differs from the start by fields other than `buf` commutes with `extend` -/
theorem comm_simple (lvl : Int) (app : App) (s s' : St) (b : Bytes) (wf : ChunkWF s)
    (h : idleStep lvl app (extend s b) = some (extend s' b))
    (h1 : s'.state ≠ .closed) (h2 : s'.state ≠ .outOfDomain) :
    idle lvl app (extend s b) = idle lvl app (recv s' b) := by
  rw [recv_of_state s' b h1 h2]
  exact idle_step lvl app _ _ (chunkWF_extend s b wf) h

theorem comm_terminal (lvl : Int) (app : App) (s s' : St) (b : Bytes) (wf : ChunkWF s)
    (h : idleStep lvl app (extend s b) = some s')
    (ht : s'.state = .closed ∨ s'.state = .outOfDomain) :
    idle lvl app (extend s b) = idle lvl app (recv s' b) := by
  have : recv s' b = s' := by unfold recv; simp [ht]
  rw [this]
  exact idle_step lvl app _ _ (chunkWF_extend s b wf) h

theorem comm_error (lvl : Int) (app : App) (s : St) (b : Bytes) (st : Nat) (wf : ChunkWF s)
    (h : idleStep lvl app (extend s b) = some (errorReply s st)) :
    idle lvl app (extend s b) = idle lvl app (recv (errorReply s st) b) := by
  rw [idle_errorReply lvl app s b st wf]
  exact idle_step lvl app _ _ (chunkWF_extend s b wf) h

theorem refuseWith_extend (s : St) (b : Bytes) (x : Option Nat) : refuseWith (extend s b) x = refuseWith s x := by
  cases x with
  | some st => exact errorReply_extend s b st
  | none => rfl

theorem comm_refuse (lvl : Int) (app : App) (s : St) (b : Bytes) (x : Option Nat) (wf : ChunkWF s)
    (h : idleStep lvl app (extend s b) = some (refuseWith s x)) :
    idle lvl app (extend s b) = idle lvl app (recv (refuseWith s x) b) := by
  cases x with
  | some st => exact comm_error lvl app s b st wf h
  | none => exact comm_terminal lvl app s _ b wf h (Or.inl rfl)

omit P L in
theorem bodyStep_term (lvl : Int) (u : St) (n : Nat) (hc : u.chunked = true)
    (ha : chunkAct lvl u.cur u.off u.buf = .term n) :
    bodyStep lvl u = some { u with buf := u.buf.drop n, cur := 0, off := 0 } := by
  unfold bodyStep; simp only [hc, ha, if_true]

omit P L in
theorem bodyStep_data (lvl : Int) (u : St) (n : Nat) (hc : u.chunked = true)
    (ha : chunkAct lvl u.cur u.off u.buf = .data n) :
    bodyStep lvl u = some { u with buf := u.buf.drop n, off := u.off + n, out := emitUpload (u.buf.take n) u.out } := by
  unfold bodyStep; simp only [hc, ha, if_true]

omit P L in
theorem bodyStep_line (lvl : Int) (u : St) (len size : Nat) (hc : u.chunked = true)
    (ha : chunkAct lvl u.cur u.off u.buf = .line len size) :
    bodyStep lvl u =
      if size = 0 then
        some { u with buf := u.buf.drop len, cur := 0, off := 0, remaining := 0, state := .bodyReceived }
      else some { u with buf := u.buf.drop len, cur := size, off := 0 } := by
  unfold bodyStep; simp only [hc, ha, if_true]

omit P L in
theorem bodyStep_err (lvl : Int) (u : St) (st : Nat) (hc : u.chunked = true)
    (ha : chunkAct lvl u.cur u.off u.buf = .err st) : bodyStep lvl u = some (errorReply u st) := by
  unfold bodyStep; simp only [hc, ha, if_true]

omit P L in
theorem bodyStep_identity (lvl : Int) (u : St) (hc : u.chunked = false) (hb : u.buf ≠ []) :
    bodyStep lvl u =
      some (if u.remaining - min u.remaining u.buf.length = 0
            then { u with buf := u.buf.drop (min u.remaining u.buf.length),
                          remaining := u.remaining - min u.remaining u.buf.length,
                          out := emitUpload (u.buf.take (min u.remaining u.buf.length)) u.out, state := .bodyReceived }
            else { u with buf := u.buf.drop (min u.remaining u.buf.length),
                          remaining := u.remaining - min u.remaining u.buf.length,
                          out := emitUpload (u.buf.take (min u.remaining u.buf.length)) u.out }) := by
  unfold bodyStep
  cases hbb : u.buf with
  | nil => exact absurd hbb hb
  | cons c t => simp only [hc, Bool.false_eq_true, if_false]

theorem bodyStep_comm (lvl : Int) (app : App) (s s' : St) (b : Bytes) (wf : ChunkWF s)
    (hs : s.state = .bodyReceiving) (hrem : s.remaining ≠ 0)
    (h : bodyStep lvl s = some s') :
    idle lvl app (extend s b) = idle lvl app (recv s' b) := by
  have hstep : ∀ (u t : St), u.state = .bodyReceiving → u.remaining ≠ 0 → bodyStep lvl u = some t →
      idleStep lvl app u = some t := by
    intro u t e1 e2 ht
    unfold idleStep; rw [e1]; simp only [e2, if_false]; exact ht
  by_cases hc : s.chunked = true
  · have hce : (extend s b).chunked = true := hc
    cases ha : chunkAct lvl s.cur s.off s.buf with
    | needMore => unfold bodyStep at h; simp [hc, ha] at h
    | term n =>
      rw [bodyStep_term lvl s n hc ha] at h; cases h
      have hb := chunkAct_term _ _ _ _ _ ha
      have ha' : chunkAct lvl (extend s b).cur (extend s b).off (extend s b).buf = .term n := by
        show chunkAct lvl s.cur s.off (s.buf ++ b) = _
        rw [chunkAct_append _ _ _ _ b (by simp [ha]) (by simp [ha]), ha]
      apply comm_simple lvl app s _ b wf _ (by simp [hs]) (by simp [hs])
      apply hstep (extend s b) _ hs hrem
      rw [bodyStep_term lvl _ n hce ha']
      simp only [extend, List.drop_append_of_le_length hb.2.1]
    | line len size =>
      rw [bodyStep_line lvl s len size hc ha] at h
      have hb := chunkAct_line _ _ _ _ _ _ ha
      have ha' : chunkAct lvl (extend s b).cur (extend s b).off (extend s b).buf = .line len size := by
        show chunkAct lvl s.cur s.off (s.buf ++ b) = _
        rw [chunkAct_append _ _ _ _ b (by simp [ha]) (by simp [ha]), ha]
      by_cases hz : size = 0
      · simp only [hz, if_true] at h; cases h
        apply comm_simple lvl app s _ b wf _ (by simp) (by simp)
        apply hstep (extend s b) _ hs hrem
        rw [bodyStep_line lvl _ len size hce ha']
        simp only [hz, if_true, extend, List.drop_append_of_le_length hb.2]
      · simp only [hz, if_false] at h; cases h
        apply comm_simple lvl app s _ b wf _ (by simp [hs]) (by simp [hs])
        apply hstep (extend s b) _ hs hrem
        rw [bodyStep_line lvl _ len size hce ha']
        simp only [hz, if_false, extend, List.drop_append_of_le_length hb.2]
    | err st =>
      rw [bodyStep_err lvl s st hc ha] at h; cases h
      have ha' : chunkAct lvl (extend s b).cur (extend s b).off (extend s b).buf = .err st := by
        show chunkAct lvl s.cur s.off (s.buf ++ b) = _
        rw [chunkAct_append _ _ _ _ b (by simp [ha]) (by simp [ha]), ha]
      apply comm_error lvl app s b st wf
      apply hstep (extend s b) _ hs hrem
      rw [bodyStep_err lvl _ st hce ha', errorReply_extend]
    | data n =>
      rw [bodyStep_data lvl s n hc ha] at h; cases h
      obtain ⟨h1, h2, h3, h4⟩ := chunkAct_data _ _ _ _ _ ha
      have hlt : s.off < s.cur := by
        unfold ChunkWF at wf
        by_cases e : s.off = s.cur
        · exact absurd ⟨e, h2⟩ h1
        · omega
      have hne : s.buf ++ b ≠ [] := by cases hb : s.buf with | nil => exact absurd hb h3 | cons _ _ => simp
      have ha' : chunkAct lvl (extend s b).cur (extend s b).off (extend s b).buf
          = .data (min (s.cur - s.off) (s.buf ++ b).length) := chunkAct_data_of lvl s.cur s.off _ h1 h2 hne
      by_cases hle : s.cur - s.off ≤ s.buf.length
      · -- the chunk ends inside the old buffer: same action
        have hn : n = s.cur - s.off := by omega
        have hn' : min (s.cur - s.off) (s.buf ++ b).length = n := by simp only [List.length_append]; omega
        rw [hn'] at ha'
        apply comm_simple lvl app s _ b wf _ (by simp [hs]) (by simp [hs])
        apply hstep (extend s b) _ hs hrem
        rw [bodyStep_data lvl _ n hce ha']
        have hnl : n ≤ s.buf.length := by omega
        simp only [extend, List.drop_append_of_le_length hnl, List.take_append_of_le_length hnl]
      · -- the whole old buffer was delivered; the new bytes continue the same chunk
        have hn : n = s.buf.length := by omega
        by_cases hbe : b = []
        · subst hbe
          have hn' : min (s.cur - s.off) (s.buf ++ []).length = n := by simp only [List.append_nil]; omega
          rw [hn'] at ha'
          apply comm_simple lvl app s _ [] wf _ (by simp [hs]) (by simp [hs])
          apply hstep (extend s []) _ hs hrem
          rw [bodyStep_data lvl _ n hce ha']
          simp only [extend, List.append_nil]
        · have hbne : b ≠ [] := hbe
          -- state after the first delivery, then extended
          let s1 : St := { s with buf := s.buf.drop n, off := s.off + n, out := emitUpload (s.buf.take n) s.out }
          have hs1buf : (extend s1 b).buf = b := by
            show s.buf.drop n ++ b = b
            rw [hn, List.drop_length]; rfl
          have ha1 : chunkAct lvl (extend s1 b).cur (extend s1 b).off (extend s1 b).buf
              = .data (min (s.cur - (s.off + n)) b.length) := by
            rw [hs1buf]
            exact chunkAct_data_of lvl s.cur (s.off + n) b (by intro hh; omega) h2 hbne
          have hL := hstep (extend s b) _ hs hrem (bodyStep_data lvl _ _ hce ha')
          have hR := hstep (extend s1 b) _ hs hrem (bodyStep_data lvl (extend s1 b) _ hc ha1)
          rw [recv_of_state _ _ (by simp [hs]) (by simp [hs])]
          rw [idle_step lvl app _ _ (chunkWF_extend s b wf) hL]
          have wf1 : ChunkWF (extend s1 b) := by simp only [ChunkWF, extend, s1]; omega
          rw [idle_step lvl app _ _ wf1 hR]
          congr 1
          have e1 : min (s.cur - s.off) (s.buf ++ b).length = n + min (s.cur - (s.off + n)) b.length := by
            simp only [List.length_append]; omega
          simp only [hs1buf, e1]
          simp only [extend, s1, emitUpload_emitUpload]
          have t1 : List.take (n + min (s.cur - (s.off + n)) b.length) (s.buf ++ b)
              = List.take n s.buf ++ List.take (min (s.cur - (s.off + n)) b.length) b := by
            rw [hn, List.take_length_add_append, List.take_length]
          have d1 : List.drop (n + min (s.cur - (s.off + n)) b.length) (s.buf ++ b)
              = List.drop (min (s.cur - (s.off + n)) b.length) b := by
            rw [hn, List.drop_length_add_append]
          rw [t1, d1]
          simp only [St.mk.injEq, true_and, and_true]
          omega
  · -- identity body
    have hc' : s.chunked = false := by simpa using hc
    have hce : (extend s b).chunked = false := hc'
    have hbn : s.buf ≠ [] := by
      intro e; unfold bodyStep at h; simp [hc', e] at h
    have hlen : 0 < s.buf.length := by cases hb : s.buf with | nil => exact absurd hb hbn | cons _ _ => simp
    have hne : (extend s b).buf ≠ [] := by
      show s.buf ++ b ≠ []
      cases hb : s.buf with | nil => exact absurd hb hbn | cons _ _ => simp
    rw [bodyStep_identity lvl s hc' hbn] at h
    have hL := hstep (extend s b) _ hs hrem (bodyStep_identity lvl (extend s b) hce hne)
    have p1 : (extend s b).remaining = s.remaining := rfl
    have p2 : (extend s b).buf = s.buf ++ b := rfl
    rw [p1, p2] at hL
    by_cases hle : s.remaining ≤ s.buf.length
    · have hn : min s.remaining s.buf.length = s.remaining := by omega
      have hn' : min s.remaining (s.buf ++ b).length = s.remaining := by
        simp only [List.length_append]; omega
      rw [hn] at h
      rw [hn'] at hL
      rw [if_pos (Nat.sub_self _)] at h hL
      cases h
      apply comm_simple lvl app s _ b wf _ (by simp) (by simp)
      rw [hL]
      simp only [extend, List.drop_append_of_le_length hle, List.take_append_of_le_length hle]
    · have hn : min s.remaining s.buf.length = s.buf.length := by omega
      rw [hn] at h
      have hnz : ¬ (s.remaining - s.buf.length = 0) := by omega
      rw [if_neg hnz] at h
      cases h
      by_cases hbe : b = []
      · subst hbe
        have hn' : min s.remaining (s.buf ++ []).length = s.buf.length := by
          simp only [List.append_nil]; omega
        rw [hn'] at hL
        rw [if_neg hnz] at hL
        apply comm_simple lvl app s _ [] wf _ (by simp [hs]) (by simp [hs])
        rw [hL]
        simp only [extend, List.append_nil]
      · let s1 : St := { s with buf := s.buf.drop s.buf.length, remaining := s.remaining - s.buf.length,
                                out := emitUpload (s.buf.take s.buf.length) s.out }
        have hs1buf : (extend s1 b).buf = b := by
          show s.buf.drop s.buf.length ++ b = b
          rw [List.drop_length]; rfl
        have hrem1 : (extend s1 b).remaining ≠ 0 := hnz
        have hR := hstep (extend s1 b) _ hs hrem1 (bodyStep_identity lvl (extend s1 b) hc' (by rw [hs1buf]; exact hbe))
        have q1 : (extend s1 b).remaining = s.remaining - s.buf.length := rfl
        rw [q1, hs1buf] at hR
        rw [recv_of_state _ _ (by simp [hs]) (by simp [hs])]
        rw [idle_step lvl app _ _ (chunkWF_extend s b wf) hL]
        have wf1 : ChunkWF (extend s1 b) := wf
        rw [idle_step lvl app _ _ wf1 hR]
        congr 1
        have e1 : min s.remaining (s.buf ++ b).length
            = s.buf.length + min (s.remaining - s.buf.length) b.length := by
          simp only [List.length_append]; omega
        rw [e1]
        have e3 : s.remaining - (s.buf.length + min (s.remaining - s.buf.length) b.length)
            = (s.remaining - s.buf.length) - min (s.remaining - s.buf.length) b.length := by omega
        rw [e3]
        have t1 : List.take (s.buf.length + min (s.remaining - s.buf.length) b.length) (s.buf ++ b)
            = List.take s.buf.length s.buf ++ List.take (min (s.remaining - s.buf.length) b.length) b := by
          rw [List.take_length_add_append, List.take_length]
        have d1 : List.drop (s.buf.length + min (s.remaining - s.buf.length) b.length) (s.buf ++ b)
            = List.drop (min (s.remaining - s.buf.length) b.length) b := by
          rw [List.drop_length_add_append]
        rw [t1, d1]
        simp only [extend, s1, emitUpload_emitUpload]

theorem step_comm (lvl : Int) (app : App) (s s' : St) (b : Bytes) (wf : ChunkWF s)
    (h : idleStep lvl app s = some s') :
    idle lvl app (extend s b) = idle lvl app (recv s' b) := by
  unfold idleStep at h
  split at h
  · rename_i hs
    cases hp : P.head s.buf with
    | incomplete => simp [hp] at h
    | bad =>
      simp only [hp] at h; cases h
      apply comm_terminal lvl app s _ b wf _ (Or.inr rfl)
      unfold idleStep; simp only [extend, hs, L.head_bad_append _ b hp]
    | refuse x =>
      simp only [hp] at h; cases h
      apply comm_refuse lvl app s b x wf
      have := L.head_refuse_append _ b x hp
      unfold idleStep; simp only [extend, hs, this]
      exact congrArg some (refuseWith_extend s b x)
    | ok hd rest =>
      simp only [hp] at h; cases h
      apply comm_simple lvl app s _ b wf _ (by simp) (by simp)
      unfold idleStep; simp only [extend, hs, L.head_append _ b _ _ hp]
  · rename_i hs
    cases hd : decideBody lvl s.head.http11 s.head.fields with
    | reject st =>
      simp only [hd] at h; cases h
      apply comm_error lvl app s b st wf
      unfold idleStep; simp only [extend, hs, hd]; exact congrArg some (errorReply_extend s b st)
    | none =>
      simp only [hd] at h; cases h
      apply comm_simple lvl app s _ b wf _ (by simp) (by simp)
      unfold idleStep; simp only [extend, hs, hd]
    | len n =>
      simp only [hd] at h; cases h
      apply comm_simple lvl app s _ b wf _ (by simp) (by simp)
      unfold idleStep; simp only [extend, hs, hd]
    | chunked mc =>
      simp only [hd] at h; cases h
      apply comm_simple lvl app s _ b wf _ (by simp) (by simp)
      unfold idleStep; simp only [extend, hs, hd]
  · rename_i hs
    cases ha : app s.nreq with
    | abort =>
      simp only [ha] at h; cases h
      apply comm_terminal lvl app s _ b wf _ (Or.inl rfl)
      unfold idleStep; simp only [extend, hs, ha]
    | early st ch =>
      simp only [ha] at h; cases h
      apply comm_simple lvl app s _ b wf _ (by simp) (by simp)
      unfold idleStep; simp only [extend, hs, ha]
    | cont st ch =>
      simp only [ha] at h; cases h
      -- whether "100 Continue" is due depends on the buffer being empty at the first call
      by_cases hc : (s.remaining = 0) ∨ ¬ ((need100Continue { s with out := .first s.head.method s.head.target :: s.out } && s.buf.isEmpty) = true)
          ∨ b = []
      · apply comm_simple lvl app s _ b wf _ (by simp only; repeat' split
                                                 all_goals simp) (by simp only; repeat' split
                                                                     all_goals simp)
        unfold idleStep; simp only [extend, hs, ha]
        have hN : ∀ (st : CState) (bf : Bytes) (o : List Ev),
            need100Continue { s with state := st, buf := bf, out := o } = need100Continue s := fun _ _ _ => rfl
        have hN2 : ∀ (o : List Ev), need100Continue { s with out := o } = need100Continue s := fun _ => rfl
        simp only [hN] 
        simp only [hN2] at hc
        by_cases hr : s.remaining = 0
        · simp only [hr, if_true]
        · simp only [hr, if_false]
          have hcond : (need100Continue s && (s.buf ++ b).isEmpty) = (need100Continue s && s.buf.isEmpty) := by
            rcases hc with hc | hc | hc
            · exact absurd hc hr
            · have hc' : (need100Continue s && s.buf.isEmpty) = false := by simpa using hc
              rw [hc']
              rw [Bool.and_eq_false_iff] at hc' ⊢
              cases hc' with
              | inl h1 => exact Or.inl h1
              | inr h1 =>
                right
                cases hb : s.buf with
                | nil => simp [hb] at h1
                | cons _ _ => rfl
            · subst hc; simp
          rw [hcond]
      · -- 100 Continue was due without `b`; with `b` in the buffer the body is read directly:
        -- both ways meet in `bodyReceiving` with `b` in the buffer
        have hc1 : ¬ s.remaining = 0 := fun e => hc (Or.inl e)
        have hc2 : (need100Continue { s with out := .first s.head.method s.head.target :: s.out } && s.buf.isEmpty) = true := by
          by_cases e : (need100Continue { s with out := .first s.head.method s.head.target :: s.out } && s.buf.isEmpty) = true
          · exact e
          · exact absurd (Or.inr (Or.inl e)) hc
        have hc3 : b ≠ [] := fun e => hc (Or.inr (Or.inr e))
        have hbe : s.buf = [] := by
          simp only [Bool.and_eq_true, List.isEmpty_iff] at hc2; exact hc2.2
        let t : St := { s with buf := s.buf ++ b, out := .first s.head.method s.head.target :: s.out, state := .bodyReceiving }
        have e1 : idleStep lvl app (extend s b) = some t := by
          unfold idleStep; simp only [extend, hs, ha, hc1, if_false, t]
          have : (s.buf ++ b).isEmpty = false := by
            rw [hbe]; cases hb : b with
            | nil => exact absurd hb hc3
            | cons _ _ => rfl
          simp [this]
        have e2 : idleStep lvl app (extend { s with out := .first s.head.method s.head.target :: s.out, state := .continueSending } b) = some t := by
          unfold idleStep; simp only [extend, t]
        simp only [hc1, if_false, hc2, if_true]
        rw [recv_of_state _ _ (by simp) (by simp)]
        have wf2 : ChunkWF (extend { s with out := .first s.head.method s.head.target :: s.out, state := .continueSending } b) := wf
        rw [idle_step lvl app _ _ (chunkWF_extend s b wf) e1, idle_step lvl app _ _ wf2 e2]
  · rename_i hs
    cases h
    apply comm_simple lvl app s _ b wf _ (by simp) (by simp)
    unfold idleStep; simp only [extend, hs]
  · rename_i hs
    split at h
    · rename_i hrem
      cases h
      apply comm_simple lvl app s _ b wf _ (by simp) (by simp)
      unfold idleStep; simp only [extend, hs, hrem, if_true]
    · rename_i hrem
      exact bodyStep_comm lvl app s s' b wf hs hrem h
  · rename_i hs
    cases h
    apply comm_simple lvl app s _ b wf _ (by simp only; split <;> simp) (by simp only; split <;> simp)
    unfold idleStep; simp only [extend, hs]
  · rename_i hs
    cases hp : P.trailers s.buf with
    | incomplete => simp [hp] at h
    | bad =>
      simp only [hp] at h; cases h
      apply comm_terminal lvl app s _ b wf _ (Or.inr rfl)
      unfold idleStep; simp only [extend, hs, L.trailers_bad_append _ b hp]
    | refuse x =>
      simp only [hp] at h; cases h
      apply comm_refuse lvl app s b x wf
      have := L.trailers_refuse_append _ b x hp
      unfold idleStep; simp only [extend, hs, this]
      exact congrArg some (refuseWith_extend s b x)
    | ok fs rest =>
      simp only [hp] at h; cases h
      apply comm_simple lvl app s _ b wf _ (by simp) (by simp)
      unfold idleStep; simp only [extend, hs, L.trailers_append _ b _ _ hp]
  · rename_i hs
    cases h
    apply comm_simple lvl app s _ b wf _ (by simp) (by simp)
    unfold idleStep; simp only [extend, hs]
  · rename_i hs
    cases ha : app s.nreq with
    | cont st ch =>
      simp only [ha] at h; cases h
      apply comm_simple lvl app s _ b wf _ (by simp) (by simp)
      unfold idleStep; simp only [extend, hs, ha]
    | early st ch => simp [ha] at h
    | abort => simp [ha] at h
  · rename_i hs
    cases hr : s.resp with
    | none => simp [hr] at h
    | some p =>
      obtain ⟨st, ch⟩ := p
      simp only [hr] at h; cases h
      apply comm_simple lvl app s _ b wf _ (by simp) (by simp)
      unfold idleStep; simp only [extend, hs, hr]; rfl
  · rename_i hs
    cases h
    cases hr : (s.keepalive == KA.use && !s.readClosed && !s.discard) with
    | true =>
      apply comm_simple lvl app s _ b wf _ (by simp [connReset]) (by simp [connReset])
      unfold idleStep; simp only [extend, hs, hr, connReset, if_true]
    | false =>
      apply comm_terminal lvl app s _ b wf _ (Or.inl (by simp [connReset]))
      unfold idleStep; simp only [extend, hs, hr, connReset]; rfl
  · cases h
  · cases h

/-! ### split independence -/

theorem recv_nil (s : St) : recv s [] = s := by
  unfold recv extend; split
  · rfl
  · simp

theorem recv_recv (s : St) (a b : Bytes) : recv (recv s a) b = recv s (a ++ b) := by
  unfold recv
  by_cases h : s.state = .closed ∨ s.state = .outOfDomain
  · simp [h]
  · have h' : (extend s a).state = s.state := rfl
    simp only [h, if_false, h', extend, List.append_assoc]

theorem chunkWF_recv (s : St) (b : Bytes) (wf : ChunkWF s) : ChunkWF (recv s b) := by
  unfold recv; split
  · exact wf
  · exact wf

theorem idle_recv_idle (lvl : Int) (app : App) (n : Nat) (s : St) (hm : measure s < n) (wf : ChunkWF s) (b : Bytes) :
    idle lvl app (recv (idle lvl app s) b) = idle lvl app (recv s b) := by
  induction n generalizing s with
  | zero => omega
  | succ n ih =>
    cases hs : idleStep lvl app s with
    | none => rw [idle_of_none lvl app s hs]
    | some s' =>
      have ok := step_ok lvl app s s' hs wf
      rw [idle_step lvl app s s' wf hs, ih s' (by have := ok.2; omega) ok.1]
      have hnt : ¬ (s.state = .closed ∨ s.state = .outOfDomain) := by
        intro h
        unfold idleStep at hs
        cases h with
        | inl h => simp [h] at hs
        | inr h => simp [h] at hs
      have : recv s b = extend s b := by unfold recv; simp [hnt]
      rw [this]
      exact (step_comm lvl app s s' b wf hs).symm

/-- Feeding `a` and then `b` is feeding `a ++ b`. -/
theorem feed_append (lvl : Int) (app : App) (s : St) (wf : ChunkWF s) (a b : Bytes) :
    feed lvl app (feed lvl app s a) b = feed lvl app s (a ++ b) := by
  rw [feed_eq, feed_eq, feed_eq]
  rw [idle_recv_idle lvl app _ (recv s a) (Nat.lt_succ_self _) (chunkWF_recv s a wf) b, recv_recv]

theorem feed_chunkWF (lvl : Int) (app : App) (s : St) (wf : ChunkWF s) (b : Bytes) :
    ChunkWF (feed lvl app s b) ∧ idleStep lvl app (feed lvl app s b) = none := by
  rw [feed_eq]
  have := idle_fix lvl app (recv s b) (chunkWF_recv s b wf)
  exact ⟨this.2, this.1⟩

theorem foldl_feed_flatten (lvl : Int) (app : App) (segs : List Bytes) (s : St) (wf : ChunkWF s)
    (hq : idleStep lvl app s = none) :
    segs.foldl (feed lvl app) s = feed lvl app s segs.flatten := by
  induction segs generalizing s with
  | nil =>
    simp only [List.foldl_nil, List.flatten_nil]
    rw [feed_eq, recv_nil, idle_of_none lvl app s hq]
  | cons a t ih =>
    simp only [List.foldl_cons, List.flatten_cons]
    have := feed_chunkWF lvl app s wf a
    rw [ih (feed lvl app s a) this.1 this.2, feed_append lvl app s wf]

theorem init_quiescent (lvl : Int) (app : App) : idleStep lvl app {} = none := by
  unfold idleStep; simp only [L.head_nil]

/-- every segmentation of a stream gives the same connection state (handler calls with coalesced
    upload data, replies, close) as delivering the stream in one piece -/
theorem runSegs_flatten (lvl : Int) (app : App) (segs : List Bytes) :
    runSegs lvl app segs = runSegs lvl app [segs.flatten] := by
  unfold runSegs
  rw [foldl_feed_flatten lvl app segs {} (by simp [ChunkWF]) (init_quiescent lvl app)]
  rfl
end Mhd.Framing
