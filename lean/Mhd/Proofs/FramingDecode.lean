/-
  C03 helper lemmas, part 7: the chunk decoder on every rendering of a chunked body that the
  strictness level admits (any chunk sizes, hex renderings, extensions, BWS, bare-LF line ends).
-/
import Mhd.Proofs.FramingSplit
import Mhd.Proofs.FramingDecide
namespace Mhd.Framing
open Mhd.Gen.Framing Framer


/-! ### the decoder on every admissible rendering of a chunk -/

def hexFrom (res : Nat) (ds : Bytes) : Nat := ds.foldl (fun a c => a * 16 + (hexVal c).getD 0) res

theorem hexValue_eq (ds : Bytes) : hexValue ds = hexFrom 0 ds := rfl

theorem hexFrom_ge (ds : Bytes) (res : Nat) : res ≤ hexFrom res ds := by
  induction ds generalizing res with
  | nil => simp [hexFrom]
  | cons c t ih =>
    simp only [hexFrom, List.foldl_cons]
    have := ih (res * 16 + (hexVal c).getD 0)
    simp only [hexFrom] at this
    omega

theorem hexVal_le (c : UInt8) (d : Nat) (h : hexVal c = some d) : d ≤ 15 := by
  unfold hexVal at h
  split at h
  · rename_i hc; cases h
    have := UInt8.le_iff_toNat_le.mp hc.2; simp at this; omega
  · split at h
    · rename_i hc; cases h
      have := UInt8.le_iff_toNat_le.mp hc.2; simp at this; omega
    · split at h
      · rename_i hc; cases h
        have := UInt8.le_iff_toNat_le.mp hc.2; simp at this; omega
      · cases h

theorem strxAux_digits (ds x : Bytes) (res i : Nat) (hd : ∀ d ∈ ds, isHex d = true)
    (hx : ∀ c r, x = c :: r → isHex c = false) (hv : hexFrom res ds ≤ uint64Max) :
    strxAux (ds ++ x) res i = (i + ds.length, hexFrom res ds) := by
  induction ds generalizing res i with
  | nil =>
    simp only [List.nil_append, List.length_nil, Nat.add_zero, hexFrom, List.foldl_nil]
    cases x with
    | nil => rfl
    | cons c r =>
      have := hx c r rfl
      unfold strxAux
      simp only [isHex, Option.isSome_eq_false_iff, Option.isNone_iff_eq_none] at this
      simp [this]
  | cons c t ih =>
    have hc := hd c List.mem_cons_self
    simp only [isHex, Option.isSome_iff_exists] at hc
    obtain ⟨d, hd'⟩ := hc
    simp only [List.cons_append]
    unfold strxAux
    simp only [hd']
    have hstep : hexFrom res (c :: t) = hexFrom (res * 16 + d) t := by
      simp [hexFrom, hd']
    rw [hstep] at hv ⊢
    have hge := hexFrom_ge t (res * 16 + d)
    have hno : mulOvf 16 res d = false := by
      cases ho : mulOvf 16 res d
      · rfl
      · have := (mulOvf16 res d (hexVal_le c d hd')).mp ho; omega
    simp only [hno, Bool.false_eq_true, if_false]
    rw [ih _ _ (fun d hd'' => hd d (List.mem_cons_of_mem _ hd'')) hv]
    simp only [List.length_cons]; congr 1; omega

theorem strx_digits (ds x : Bytes) (hd : ∀ d ∈ ds, isHex d = true)
    (hx : ∀ c r, x = c :: r → isHex c = false) (hv : hexValue ds ≤ uint64Max) :
    strx (ds ++ x) = (ds.length, hexValue ds) := by
  unfold strx
  rw [strxAux_digits ds x 0 0 hd hx (by rw [← hexValue_eq]; exact hv), hexValue_eq]; simp

theorem countWhile_prefix (p : UInt8 → Bool) (a r : Bytes) (ha : ∀ x ∈ a, p x = true)
    (hr : ∀ c t, r = c :: t → p c = false) : countWhile p (a ++ r) = a.length := by
  induction a with
  | nil =>
    cases r with
    | nil => rfl
    | cons c t => simp [countWhile, hr c t rfl]
  | cons c t ih =>
    simp only [List.cons_append, countWhile, ha c List.mem_cons_self, if_true, List.length_cons]
    rw [ih (fun x hx => ha x (List.mem_cons_of_mem _ hx))]

theorem isWs_cases (c : UInt8) (h : isWs c = true) : c = SP ∨ c = HT := by
  simpa [isWs] using h

theorem isWs_not_hex (c : UInt8) (h : isWs c = true) : isHex c = false := by
  cases isWs_cases c h with
  | inl h => subst h; decide
  | inr h => subst h; decide

theorem Eol.bytes_ne (e : Eol) : e.bytes ≠ [] := by cases e <;> simp [Eol.bytes]

theorem ne_LF_of_mem (e : Bytes) (h : ∀ d ∈ e, d ≠ LF) : ∀ x ∈ e, (fun x => x != LF) x = true := by
  intro x hx; simp [h x hx]

/-- the chunk-extension branch on `bws ++ ";" ++ e ++ eol ++ more` -/
theorem extAct_line (lvl : Int) (k size : Nat) (bws e : Bytes) (eol : Eol) (more : Bytes)
    (hbws : ∀ d ∈ bws, isWs d = true) (he : ∀ d ∈ e, d ≠ LF) (heol : eolOK lvl eol) :
    extAct (decide (lvl ≤ bareLfMaxLvl)) k size (bws ++ SEMI :: (e ++ eol.bytes ++ more))
      = .line (k + bws.length + 1 + e.length + eol.bytes.length) size := by
  unfold extAct
  simp only
  have hw : countWhile isWs (bws ++ SEMI :: (e ++ eol.bytes ++ more)) = bws.length :=
    countWhile_prefix isWs bws _ hbws (by intro c t h; cases h; decide)
  rw [hw, List.drop_left]
  simp only [beq_self_eq_true, if_true]
  cases eol with
  | crlf =>
    have hcw : countWhile (fun x => x != LF) (e ++ Eol.crlf.bytes ++ more) = e.length + 1 := by
      have : e ++ Eol.crlf.bytes ++ more = (e ++ [CR]) ++ (LF :: more) := by simp [Eol.bytes]
      rw [this, countWhile_prefix (fun x => x != LF) (e ++ [CR]) (LF :: more)]
      · simp
      · intro x hx
        simp only [List.mem_append, List.mem_singleton] at hx
        cases hx with
        | inl hx => exact ne_LF_of_mem e he x hx
        | inr hx => subst hx; decide
      · intro c t h; cases h; decide
    have hdrop : List.drop (e.length + 1) (e ++ Eol.crlf.bytes ++ more) = LF :: more := by
      have : e ++ Eol.crlf.bytes ++ more = (e ++ [CR]) ++ (LF :: more) := by simp [Eol.bytes]
      rw [this]
      have hl : (e ++ [CR]).length = e.length + 1 := by simp
      rw [← hl, List.drop_left]
    rw [hcw, hdrop]
    simp only
    have hprev : (e ++ Eol.crlf.bytes ++ more).getD (e.length + 1 - 1) 0 = CR := by
      simp [Eol.bytes, List.getD_eq_getElem?_getD]
    have hnz : ¬ (e.length + 1 = 0) := by omega
    rw [if_neg hnz, hprev]
    simp only [beq_self_eq_true, if_true, Eol.bytes, List.length_cons, List.length_nil]
    split <;> congr 1
  | lf =>
    have hbl : lvl ≤ bareLfMaxLvl := by
      cases heol with
      | inl h => cases h
      | inr h => exact h
    have hcw : countWhile (fun x => x != LF) (e ++ Eol.lf.bytes ++ more) = e.length := by
      have : e ++ Eol.lf.bytes ++ more = e ++ (LF :: more) := by simp [Eol.bytes]
      rw [this, countWhile_prefix (fun x => x != LF) e (LF :: more) (ne_LF_of_mem e he)]
      intro c t h; cases h; decide
    have hdrop : List.drop e.length (e ++ Eol.lf.bytes ++ more) = LF :: more := by
      have : e ++ Eol.lf.bytes ++ more = e ++ (LF :: more) := by simp [Eol.bytes]
      rw [this, List.drop_left]
    rw [hcw, hdrop]
    simp only [hbl, decide_true, if_true, Eol.bytes, List.length_cons, List.length_nil]

/-- a chunk-size line admitted by the level is recognised as exactly that line with that size -/
theorem sizeLineAct_line (lvl : Int) (c : Chunk) (h : LineOK lvl c) (more : Bytes) :
    sizeLineAct (decide (lvl ≤ bareLfMaxLvl)) (decide (bwsAboveLvl < lvl)) (c.line ++ more)
      = .line c.line.length (hexValue c.digits) := by
  obtain ⟨hne, hhex, hov, hbws, hbl, hext, heol⟩ := h
  -- what follows the digits
  have hX : c.line ++ more = c.digits ++ (c.bws ++ c.ext ++ c.eol.bytes ++ more) := by
    simp [Chunk.line, List.append_assoc]
  have hXhead : ∀ x r, c.bws ++ c.ext ++ c.eol.bytes ++ more = x :: r → isHex x = false := by
    intro x r hxr
    cases hb : c.bws with
    | cons w t =>
      rw [hb] at hxr; simp only [List.cons_append] at hxr
      cases hxr; exact isWs_not_hex _ (hbws _ (by rw [hb]; exact List.mem_cons_self))
    | nil =>
      rw [hb] at hxr; simp only [List.nil_append] at hxr
      cases hext with
      | inr he =>
        obtain ⟨e, he, _⟩ := he
        rw [he] at hxr; simp only [List.cons_append] at hxr
        cases hxr; decide
      | inl he =>
        rw [he] at hxr; simp only [List.nil_append] at hxr
        cases hce : c.eol <;> (rw [hce] at hxr; simp only [Eol.bytes, List.cons_append, List.nil_append] at hxr; cases hxr; decide)
  have hXne : c.bws ++ c.ext ++ c.eol.bytes ++ more ≠ [] := by
    have := Eol.bytes_ne c.eol
    cases hce : c.eol.bytes with
    | nil => exact absurd hce this
    | cons a t => simp
  have hsx := strx_digits c.digits _ hhex hXhead hov
  have hdl : 0 < c.digits.length := by cases hd : c.digits with | nil => exact absurd hd hne | cons _ _ => simp
  unfold sizeLineAct
  simp only
  rw [hX, hsx]
  simp only
  have hk1 : ¬ c.digits.length = (c.digits ++ (c.bws ++ c.ext ++ c.eol.bytes ++ more)).length := by
    have : 0 < (c.bws ++ c.ext ++ c.eol.bytes ++ more).length := by
      cases hq : c.bws ++ c.ext ++ c.eol.bytes ++ more with
      | nil => exact absurd hq hXne
      | cons _ _ => simp
    simp only [List.length_append] at this ⊢; omega
  have hk0 : ¬ c.digits.length = 0 := by omega
  rw [if_neg hk1, if_neg hk0, List.drop_left]
  cases hext with
  | inr hex =>
    obtain ⟨e, hee, hel⟩ := hex
    have hshape : c.bws ++ c.ext ++ c.eol.bytes ++ more = c.bws ++ SEMI :: (e ++ c.eol.bytes ++ more) := by
      rw [hee]; simp [List.append_assoc]
    rw [hshape]
    have hlen : c.line.length = c.digits.length + c.bws.length + 1 + e.length + c.eol.bytes.length := by
      simp only [Chunk.line, hee, List.length_append, List.length_cons]; omega
    rw [hlen, ← extAct_line lvl c.digits.length (hexValue c.digits) c.bws e c.eol more hbws hel heol]
    cases hb : c.bws with
    | nil => simp
    | cons w t =>
      have hw := isWs_cases w (hbws w (by rw [hb]; exact List.mem_cons_self))
      have hl := (hbl (by rw [hb]; simp)).1
      simp only [List.cons_append]
      have : (w == SEMI || decide (bwsAboveLvl < lvl) && (w == SP || w == HT)) = true := by
        cases hw with
        | inl h => subst h; simp [hl]
        | inr h => subst h; simp [hl]
      rw [if_pos this]
  | inl hex =>
    have hb : c.bws = [] := by
      cases hbq : c.bws with
      | nil => rfl
      | cons w t => exact absurd hex (hbl (by rw [hbq]; simp)).2
    have hlen : c.line.length = c.digits.length + c.eol.bytes.length := by
      simp only [Chunk.line, hex, hb, List.length_append, List.length_nil]; omega
    rw [hlen, hb, hex]
    simp only [List.nil_append, List.append_nil]
    cases hce : c.eol with
    | crlf =>
      simp only [Eol.bytes, List.cons_append, List.nil_append]
      have h1 : (CR == SEMI || decide (bwsAboveLvl < lvl) && (CR == SP || CR == HT)) = false := by
        have a1 : (CR == SEMI) = false := by decide
        have a2 : (CR == SP) = false := by decide
        have a3 : (CR == HT) = false := by decide
        simp [a1, a2, a3]
      simp only [h1, Bool.false_eq_true, if_false, beq_self_eq_true, Bool.and_self, if_true,
        List.length_cons, List.length_nil]
    | lf =>
      have hbl' : lvl ≤ bareLfMaxLvl := by
        cases heol with
        | inl h => rw [hce] at h; cases h
        | inr h => exact h
      simp only [Eol.bytes, List.cons_append, List.nil_append]
      have h1 : (LF == SEMI || decide (bwsAboveLvl < lvl) && (LF == SP || LF == HT)) = false := by
        have a1 : (LF == SEMI) = false := by decide
        have a2 : (LF == SP) = false := by decide
        have a3 : (LF == HT) = false := by decide
        simp [a1, a2, a3]
      have h2 : (LF == CR) = false := by decide
      simp only [h1, Bool.false_eq_true, if_false, List.length_cons, List.length_nil]
      cases more with
      | nil => simp [hbl']
      | cons d r => simp [h2, hbl']

theorem Chunk.line_ne (lvl : Int) (c : Chunk) (h : LineOK lvl c) : c.line ≠ [] := by
  have := h.digitsNonempty
  cases hd : c.digits with
  | nil => exact absurd hd this
  | cons a t => simp [Chunk.line, hd]

theorem chunkAct_line_ok (lvl : Int) (c : Chunk) (h : LineOK lvl c) (more : Bytes) :
    chunkAct lvl 0 0 (c.line ++ more) = .line c.line.length (hexValue c.digits) := by
  unfold chunkAct
  have hne := Chunk.line_ne lvl c h
  cases hl : c.line ++ more with
  | nil => cases hq : c.line with
    | nil => exact absurd hq hne
    | cons a t => rw [hq] at hl; simp at hl
  | cons a t =>
    simp only [ne_eq, not_true_eq_false, and_false, if_false]
    rw [← hl]
    exact sizeLineAct_line lvl c h more

theorem chunkAct_term_eol (lvl : Int) (n : Nat) (hn : n ≠ 0) (eol : Eol) (heol : eolOK lvl eol) (more : Bytes) :
    chunkAct lvl n n (eol.bytes ++ more) = .term eol.bytes.length := by
  unfold chunkAct
  cases eol with
  | crlf =>
    simp only [Eol.bytes, List.cons_append, List.nil_append, true_and]
    rw [if_pos hn]
    simp
  | lf =>
    have hbl : lvl ≤ bareLfMaxLvl := by
      cases heol with
      | inl h => cases h
      | inr h => exact h
    have h2 : (LF == CR) = false := by decide
    simp only [Eol.bytes, List.cons_append, List.nil_append, true_and]
    rw [if_pos hn]
    cases more with
    | nil => simp [hbl]
    | cons d r => simp [h2, hbl]

set_option linter.unusedSectionVars false
variable [P : HeadParser] [L : LawfulHeadParser]

/-- finitely many iterations of the idle loop with a fixed application -/
inductive Steps (lvl : Int) (app : App) : St → St → Prop
  | refl (s : St) : Steps lvl app s s
  | head {s t u : St} : idleStep lvl app s = some t → Steps lvl app t u → Steps lvl app s u

theorem Steps.trans {lvl : Int} {app : App} {s t u : St} (h1 : Steps lvl app s t) (h2 : Steps lvl app t u) :
    Steps lvl app s u := by
  induction h1 with
  | refl => exact h2
  | head hs _ ih => exact Steps.head hs (ih h2)

theorem Steps.one {lvl : Int} {app : App} {s t : St} (h : idleStep lvl app s = some t) : Steps lvl app s t :=
  Steps.head h (Steps.refl t)

theorem idle_of_steps (lvl : Int) (app : App) (s t : St) (h : Steps lvl app s t) (wf : ChunkWF s) :
    idle lvl app s = idle lvl app t ∧ ChunkWF t := by
  induction h with
  | refl => exact ⟨rfl, wf⟩
  | head hs _ ih =>
    have ok := step_ok lvl app _ _ hs wf
    have := ih ok.1
    exact ⟨(idle_step lvl app _ _ wf hs).trans this.1, this.2⟩

theorem body_idleStep (lvl : Int) (app : App) (u t : St) (e1 : u.state = .bodyReceiving) (e2 : u.remaining ≠ 0)
    (ht : bodyStep lvl u = some t) : idleStep lvl app u = some t := by
  unfold idleStep; rw [e1]; simp only [e2, if_false]; exact ht

/-- one complete chunk: size line, data, terminator -/
theorem steps_chunk (lvl : Int) (app : App) (s : St) (c : Chunk) (hc : ChunkOK lvl c) (more : Bytes)
    (hs : s.state = .bodyReceiving) (hch : s.chunked = true) (hrem : s.remaining ≠ 0)
    (hcur : s.cur = 0) (hoff : s.off = 0) (hbuf : s.buf = c.bytes ++ more) :
    Steps lvl app s { s with buf := more, out := emitUpload c.data s.out } := by
  have hsz : hexValue c.digits = c.data.length := hc.size
  have hdl : 0 < c.data.length := by
    cases hd : c.data with
    | nil => exact absurd hd hc.nonEmpty
    | cons _ _ => simp
  -- step 1: the size line
  have hb1 : s.buf = c.line ++ (c.data ++ c.dataEol.bytes ++ more) := by
    rw [hbuf]; simp [Chunk.bytes, List.append_assoc]
  have a1 : chunkAct lvl s.cur s.off s.buf = .line c.line.length c.data.length := by
    rw [hcur, hoff, hb1, chunkAct_line_ok lvl c hc.toLineOK, hsz]
  let s1 : St := { s with buf := c.data ++ c.dataEol.bytes ++ more, cur := c.data.length, off := 0 }
  have st1 : idleStep lvl app s = some s1 := by
    apply body_idleStep lvl app s s1 hs hrem
    rw [bodyStep_line lvl s _ _ hch a1, if_neg (by omega)]
    simp only [s1, hb1, List.drop_left]
  -- step 2: the data
  have a2 : chunkAct lvl s1.cur s1.off s1.buf = .data c.data.length := by
    show chunkAct lvl c.data.length 0 (c.data ++ c.dataEol.bytes ++ more) = _
    rw [chunkAct_data_of lvl _ _ _ (by omega) (by omega)]
    · simp only [List.length_append, Nat.sub_zero]; congr 1; omega
    · cases hd : c.data with
      | nil => exact absurd hd hc.nonEmpty
      | cons _ _ => simp
  let s2 : St := { s with buf := c.dataEol.bytes ++ more, cur := c.data.length, off := c.data.length,
                          out := emitUpload c.data s.out }
  have st2 : idleStep lvl app s1 = some s2 := by
    apply body_idleStep lvl app s1 s2 hs hrem
    rw [bodyStep_data lvl s1 _ hch a2]
    simp only [s1, s2, List.append_assoc, List.drop_left, List.take_left, Nat.zero_add]
  -- step 3: the terminator
  have a3 : chunkAct lvl s2.cur s2.off s2.buf = .term c.dataEol.bytes.length := by
    show chunkAct lvl c.data.length c.data.length (c.dataEol.bytes ++ more) = _
    exact chunkAct_term_eol lvl _ (by omega) _ hc.dataEolOK more
  have st3 : idleStep lvl app s2 = some { s with buf := more, out := emitUpload c.data s.out } := by
    apply body_idleStep lvl app s2 _ hs hrem
    rw [bodyStep_term lvl s2 _ hch a3]
    simp only [s2, List.drop_left, hcur, hoff]
  exact Steps.head st1 (Steps.head st2 (Steps.one st3))

/-- upload events of a list of chunks (coalesced by `emitUpload`) -/
def uploadAll (cs : List Chunk) (out : List Ev) : List Ev := cs.foldl (fun o c => emitUpload c.data o) out

omit P L in
theorem uploadAll_cons (c : Chunk) (cs : List Chunk) (out : List Ev) :
    uploadAll (c :: cs) out = uploadAll cs (emitUpload c.data out) := rfl

omit P L in
theorem uploadAll_emit (cs : List Chunk) (x : Bytes) (out : List Ev) :
    uploadAll cs (emitUpload x out) = emitUpload (x ++ cs.flatMap Chunk.data) out := by
  induction cs generalizing x with
  | nil => simp [uploadAll]
  | cons c t ih =>
    rw [uploadAll_cons, emitUpload_emitUpload, ih]
    simp [List.flatMap_cons, List.append_assoc]

omit P L in
/-- the upload events amount to one event carrying the concatenated chunk data -/
theorem uploadAll_eq (cs : List Chunk) (out : List Ev) (hne : cs ≠ []) :
    uploadAll cs out = emitUpload (cs.flatMap Chunk.data) out := by
  cases cs with
  | nil => exact absurd rfl hne
  | cons c t => rw [uploadAll_cons, uploadAll_emit]; simp [List.flatMap_cons]

theorem steps_chunks (lvl : Int) (app : App) (cs : List Chunk) (hcs : ∀ c ∈ cs, ChunkOK lvl c) (more : Bytes)
    (s : St) (hs : s.state = .bodyReceiving) (hch : s.chunked = true) (hrem : s.remaining ≠ 0)
    (hcur : s.cur = 0) (hoff : s.off = 0) (hbuf : s.buf = cs.flatMap Chunk.bytes ++ more) :
    Steps lvl app s { s with buf := more, out := uploadAll cs s.out } := by
  induction cs generalizing s with
  | nil =>
    simp only [List.flatMap_nil, List.nil_append] at hbuf
    have : { s with buf := more, out := uploadAll [] s.out } = s := by
      cases s; simp only [uploadAll, List.foldl_nil] at *; simp [hbuf]
    rw [this]; exact Steps.refl s
  | cons c t ih =>
    have h1 := steps_chunk lvl app s c (hcs c List.mem_cons_self) (t.flatMap Chunk.bytes ++ more) hs hch hrem hcur hoff
      (by rw [hbuf]; simp [List.flatMap_cons, List.append_assoc])
    have h2 := ih (fun c hc => hcs c (List.mem_cons_of_mem _ hc))
      { s with buf := t.flatMap Chunk.bytes ++ more, out := emitUpload c.data s.out } hs hch hrem hcur hoff rfl
    exact Steps.trans h1 h2

/-- **the chunk decoder on any admissible chunking**: from the start of a chunked body the
    automaton delivers exactly the chunk data, consumes exactly the encoding (the bytes after it
    are left in the buffer untouched) and arrives at `bodyReceived` -/
theorem steps_chunked_body (lvl : Int) (app : App) (cs : List Chunk) (hcs : ∀ c ∈ cs, ChunkOK lvl c)
    (last : Chunk) (hl : LastOK lvl last) (rest : Bytes)
    (s : St) (hs : s.state = .bodyReceiving) (hch : s.chunked = true) (hrem : s.remaining ≠ 0)
    (hcur : s.cur = 0) (hoff : s.off = 0) (hbuf : s.buf = encodeChunked cs last ++ rest) :
    Steps lvl app s { s with buf := rest, out := uploadAll cs s.out, state := .bodyReceived, remaining := 0 } := by
  have h1 := steps_chunks lvl app cs hcs (last.line ++ rest) s hs hch hrem hcur hoff
    (by rw [hbuf]; simp [encodeChunked, List.append_assoc])
  let s1 : St := { s with buf := last.line ++ rest, out := uploadAll cs s.out }
  have a1 : chunkAct lvl s1.cur s1.off s1.buf = .line last.line.length 0 := by
    show chunkAct lvl s.cur s.off (last.line ++ rest) = _
    rw [hcur, hoff, chunkAct_line_ok lvl last hl.toLineOK, hl.zero]
  have st : idleStep lvl app s1 = some { s with buf := rest, out := uploadAll cs s.out, state := .bodyReceived, remaining := 0 } := by
    apply body_idleStep lvl app s1 _ hs hrem
    rw [bodyStep_line lvl s1 _ _ hch a1, if_pos rfl]
    simp only [s1, List.drop_left, hcur, hoff]
  exact Steps.trans h1 (Steps.one st)
end Mhd.Framing
