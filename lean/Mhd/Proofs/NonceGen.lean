/-
  C13 proofs about nonce *generation* (`Mhd.Model.NonceGen`, `Mhd.Dauth.calcNonce`): format of a generated
  nonce, generation as a step of C13's runs, acceptance by the verifier's nonce checks, the binding re-check
  (modulo explicit hash-inequality hypotheses), the retry.
-/
import Mhd.Model.NonceGen
import Mhd.Proofs.NoncePolicy
import Mhd.Proofs.DauthHex
import Mhd.Proofs.DauthSem0

namespace Mhd.NonceGen
open Mhd.Nonce Mhd.Dauth Mhd.Gen.Dauth Mhd.Gen.NonceGen Mhd.Gen.Nonce Mhd.Auth Mhd.Gen.Auth

theorem sha256_len (m : Bytes) : (Algo.sha256.hash m).length = Algo.sha256.size := by
  simp [Algo.hash, Algo.size, Mhd.Hash.Spec.Sha256.hash, Mhd.Hash.Spec.Hash.hash, Mhd.Hash.Spec.Sha256.spec,
    Mhd.Hash.Spec.Sha256.out, Mhd.Hash.bytesBE32]
  rfl

theorem sha512_len (m : Bytes) : (Algo.sha512.hash m).length = Algo.sha512.size := by
  simp [Algo.hash, Algo.size, Mhd.Hash.Spec.Sha512.hash, Mhd.Hash.Spec.Hash.hash, Mhd.Hash.Spec.Sha512.spec,
    Mhd.Hash.Spec.Sha512.out, Mhd.Hash.bytesBE64]
  rfl

theorem hash_len (a : Algo) (m : Bytes) : (a.hash m).length = a.size := by
  cases a
  · exact md5_len m
  · exact sha256_len m
  · exact sha512_len m

theorem size_cases (a : Algo) : a.size = 16 ∨ a.size = 32 := by
  cases a <;> simp [Algo.size, md5Size, sha256Size, sha512Size]

theorem stdLen_cases (a : Algo) : a.stdLen = stdLenMd5 ∨ a.stdLen = stdLenSha := by
  cases a <;> simp [Algo.stdLen, Algo.size, md5Size, sha256Size, sha512Size, tsBin, stdLenMd5, stdLenSha]

theorem hexDigitL_eq (n : Nat) : hexDigitL n = hexChar n := rfl

/-- `MHD_bin_to_hex` of the six time-stamp bytes = the twelve hexadecimal digits of the trimmed time -/
theorem binToHex_tsBytes (t : Nat) : binToHex (tsBytes t) = hexTs t := by
  have h6 : List.range 6 = [0, 1, 2, 3, 4, 5] := by decide
  have h12 : List.range 12 = [0, 1, 2, 3, 4, 5, 6, 7, 8, 9, 10, 11] := by decide
  have hb : ∀ x : Nat, (UInt8.ofNat (x % 256)).toNat = x % 256 := by
    intro x; simp [UInt8.toNat_ofNat']
  simp only [tsBytes, hexTs, tsBin, tsChars, timestampBinSize, h6, h12, List.map_cons, List.map_nil, binToHex,
    hexDigitL_eq, hb, trim, tsBits]
  simp only [Nat.reducePow, Nat.reduceSub, Nat.reduceMul, Nat.div_one]
  have a0 : t / 1099511627776 % 256 / 16 = t % 281474976710656 / 17592186044416 % 16 := by omega
  have b0 : t / 1099511627776 % 256 % 16 = t % 281474976710656 / 1099511627776 % 16 := by omega
  have a1 : t / 4294967296 % 256 / 16 = t % 281474976710656 / 68719476736 % 16 := by omega
  have b1 : t / 4294967296 % 256 % 16 = t % 281474976710656 / 4294967296 % 16 := by omega
  have a2 : t / 16777216 % 256 / 16 = t % 281474976710656 / 268435456 % 16 := by omega
  have b2 : t / 16777216 % 256 % 16 = t % 281474976710656 / 16777216 % 16 := by omega
  have a3 : t / 65536 % 256 / 16 = t % 281474976710656 / 1048576 % 16 := by omega
  have b3 : t / 65536 % 256 % 16 = t % 281474976710656 / 65536 % 16 := by omega
  have a4 : t / 256 % 256 / 16 = t % 281474976710656 / 4096 % 16 := by omega
  have b4 : t / 256 % 256 % 16 = t % 281474976710656 / 256 % 16 := by omega
  have a5 : t % 256 / 16 = t % 281474976710656 / 16 % 16 := by omega
  have b5 : t % 256 % 16 = t % 281474976710656 % 16 := by omega
  rw [a0, b0, a1, b1, a2, b2, a3, b3, a4, b4, a5, b5]


/-- `calculate_nonce` = lower-case hex of the hash of the bound inputs, then the hex time stamp -/
theorem calcNonce_eq (cfg : Cfg) (r : Req) (realm : Bytes) (a : Algo) (t : Nat) (n : Bytes)
    (h : calcNonce cfg r realm a t = some n) :
    ∃ x, nonceInput cfg r realm t = some x ∧ n = mkNonce (binToHex (a.hash x)) t := by
  unfold calcNonce at h
  cases hx : nonceInput cfg r realm t with
  | none => rw [hx] at h; cases h
  | some x =>
    rw [hx] at h
    simp only [Option.map_some, Option.some.injEq] at h
    exact ⟨x, rfl, by rw [← h, binToHex_tsBytes]; rfl⟩

theorem hexTs_length (t : Nat) : (hexTs t).length = 12 := by simp [hexTs, tsChars, timestampBinSize]

theorem mkNonce_length (a : Algo) (x : Bytes) (t : Nat) : (mkNonce (binToHex (a.hash x)) t).length = a.stdLen := by
  simp only [mkNonce, List.length_append, binToHex_length, hash_len, hexTs_length, Algo.stdLen, tsBin]
  omega

theorem isLowerHex_hexChar : ∀ d, d < 16 → isLowerHex (hexChar d) = true := by decide

theorem binToHex_lower (b : Bytes) : ∀ c ∈ binToHex b, isLowerHex c = true := by
  induction b with
  | nil => intro c hc; cases hc
  | cons x t ih =>
    intro c hc
    simp only [binToHex, List.mem_cons] at hc
    have h1 : x.toNat / 16 < 16 := by have := x.toNat_lt; omega
    have h2 : x.toNat % 16 < 16 := by omega
    rcases hc with rfl | rfl | hc
    · exact isLowerHex_hexChar _ h1
    · exact isLowerHex_hexChar _ h2
    · exact ih c hc

theorem hexTs_lower (t : Nat) : ∀ c ∈ hexTs t, isLowerHex c = true := by
  intro c hc
  simp only [hexTs, List.mem_map, List.mem_range] at hc
  obtain ⟨j, _, rfl⟩ := hc
  exact isLowerHex_hexChar _ (Nat.mod_lt _ (by decide))

theorem lower_ne_zero (c : UInt8) (h : isLowerHex c = true) : c ≠ 0 := by
  intro hc; subst hc; revert h; decide

/-- everything `calculate_nonce` writes is a lower-case hexadecimal digit -/
theorem calcNonce_lower (cfg : Cfg) (r : Req) (realm : Bytes) (a : Algo) (t : Nat) (n : Bytes)
    (h : calcNonce cfg r realm a t = some n) : ∀ c ∈ n, isLowerHex c = true := by
  obtain ⟨x, _, rfl⟩ := calcNonce_eq cfg r realm a t n h
  intro c hc
  simp only [mkNonce, List.mem_append] at hc
  rcases hc with hc | hc
  · exact binToHex_lower _ c hc
  · exact hexTs_lower _ c hc

theorem calcNonce_length (cfg : Cfg) (r : Req) (realm : Bytes) (a : Algo) (t : Nat) (n : Bytes)
    (h : calcNonce cfg r realm a t = some n) : n.length = a.stdLen := by
  obtain ⟨x, _, rfl⟩ := calcNonce_eq cfg r realm a t n h
  exact mkNonce_length a x t

/-- a generated nonce satisfies what C13 assumes of a registered nonce (`Op.Wf`) -/
theorem calcNonce_wf (cfg : Cfg) (r : Req) (realm : Bytes) (a : Algo) (t : Nat) (n : Bytes)
    (h : calcNonce cfg r realm a t = some n) : (Op.add t n).Wf := by
  have hl := calcNonce_length cfg r realm a t n h
  have hs := stdLen_cases a
  refine ⟨fun b hb => lower_ne_zero b (calcNonce_lower cfg r realm a t n h b hb), ?_, ?_⟩
  · intro he; rw [he] at hl; simp only [List.length_nil, stdLenMd5, stdLenSha] at *; omega
  · simp only [stdLenMd5, stdLenSha, maxNonceLen] at *; omega

/-- `get_nonce_timestamp` reads the generation time back (trimmed to 48 bits) -/
theorem calcNonce_timestamp (cfg : Cfg) (r : Req) (realm : Bytes) (a : Algo) (t : Nat) (n : Bytes)
    (h : calcNonce cfg r realm a t = some n) : getNonceTimestamp n n.length = .ts (trim t) := by
  obtain ⟨x, _, rfl⟩ := calcNonce_eq cfg r realm a t n h
  have := getNonceTimestamp_mkNonce (binToHex (a.hash x)) [] t (by rw [mkNonce_length]; exact stdLen_cases a)
  rwa [List.append_nil] at this

/-- the age of a nonce as the verifier computes it (`TRIM_TO_TIMESTAMP (t' - nonce_time)`) is the real age,
    as long as that is below 2^48 ms -/
theorem age_eq (now t : Nat) (h1 : t ≤ now) (h2 : now < W64) (h3 : now - t < 2 ^ 48) :
    trim (sub64 now (trim t)) = now - t := by
  simp only [trim, sub64, W64, tsBits, timestampBinSize] at *
  omega

theorem tsBytes_trim (t : Nat) : tsBytes (trim t) = tsBytes t := by
  have h6 : List.range 6 = [0, 1, 2, 3, 4, 5] := by decide
  simp only [tsBytes, tsBin, h6, List.map_cons, List.map_nil, trim, tsBits, timestampBinSize]
  simp only [Nat.reducePow, Nat.reduceSub, Nat.reduceMul, Nat.div_one]
  have e0 : t % 281474976710656 / 1099511627776 % 256 = t / 1099511627776 % 256 := by omega
  have e1 : t % 281474976710656 / 4294967296 % 256 = t / 4294967296 % 256 := by omega
  have e2 : t % 281474976710656 / 16777216 % 256 = t / 16777216 % 256 := by omega
  have e3 : t % 281474976710656 / 65536 % 256 = t / 65536 % 256 := by omega
  have e4 : t % 281474976710656 / 256 % 256 = t / 256 % 256 := by omega
  have e5 : t % 281474976710656 % 256 = t % 256 := by omega
  rw [e0, e1, e2, e3, e4, e5]

/-- the verifier recomputes the nonce from the *parsed* time stamp: same bytes -/
theorem nonceInput_trim (cfg : Cfg) (r : Req) (realm : Bytes) (t : Nat) :
    nonceInput cfg r realm (trim t) = nonceInput cfg r realm t := by
  simp only [nonceInput, tsBytes_trim]

theorem calcNonce_trim (cfg : Cfg) (r : Req) (realm : Bytes) (a : Algo) (t : Nat) :
    calcNonce cfg r realm a (trim t) = calcNonce cfg r realm a t := by
  simp only [calcNonce, nonceInput_trim, tsBytes_trim]




/-! ### generation as an operation of C13's runs -/

def outOf (g : Gen) : Out := if g.added then .added else .refused

/-- `calculate_add_nonce` is `calculate_nonce` followed by the table step `add` of C13 -/
theorem calcAddNonce_step (cfg : Cfg) (tbl tbl' : Table) (r : Req) (realm : Bytes) (a : Algo) (t : Nat) (g : Gen)
    (h : calcAddNonce cfg tbl r realm a t = (tbl', some g)) :
    calcNonce cfg r realm a t = some g.nonce ∧ step tbl (.add t g.nonce) = (tbl', outOf g) := by
  unfold calcAddNonce at h
  cases hn : calcNonce cfg r realm a t with
  | none => rw [hn] at h; cases h
  | some n =>
    rw [hn] at h
    simp only [Prod.mk.injEq] at h
    obtain ⟨h1, h2⟩ := h
    cases hx : (addNonce tbl t n).2 with
    | added => rw [hx] at h2; cases h2; exact ⟨rfl, by simp [step, h1, hx, Out.ofAdd, outOf]⟩
    | refused => rw [hx] at h2; cases h2; exact ⟨rfl, by simp [step, h1, hx, Out.ofAdd, outOf]⟩
    | fault => rw [hx] at h2; cases h2

theorem runH_append (l1 l2 : List Op) : ∀ (tbl : Table) (h : List Ev),
    runH tbl h (l1 ++ l2) = runH (runH tbl h l1).1 (runH tbl h l1).2 l2 := by
  induction l1 with
  | nil => intro tbl h; rfl
  | cons o os ih => intro tbl h; simp only [List.cons_append, runH]; exact ih _ _

theorem run_snoc (size : Nat) (ops : List Op) (o : Op) :
    run size (ops ++ [o]) = ((step (run size ops).1 o).1, ⟨o, (step (run size ops).1 o).2⟩ :: (run size ops).2) := by
  unfold run
  rw [runH_append]
  rfl

/-- A generation at any point of any run is the run extended by the operation `add t nonce`
    with a *well-formed* nonce: every theorem of C13 about arbitrary well-formed operation
    sequences covers the nonces the daemon really makes. -/
theorem generation_is_run_step (size : Nat) (ops : List Op) (hwf : ∀ o ∈ ops, o.Wf)
    (cfg : Cfg) (r : Req) (realm : Bytes) (a : Algo) (t : Nat) (tbl' : Table) (g : Gen)
    (h : calcAddNonce cfg (run size ops).1 r realm a t = (tbl', some g)) :
    run size (ops ++ [.add t g.nonce]) = (tbl', ⟨.add t g.nonce, outOf g⟩ :: (run size ops).2) ∧
    (∀ o ∈ ops ++ [.add t g.nonce], o.Wf) := by
  obtain ⟨h1, h2⟩ := calcAddNonce_step cfg _ tbl' r realm a t g h
  refine ⟨by rw [run_snoc, h2], ?_⟩
  intro o ho
  rcases List.mem_append.mp ho with ho | ho
  · exact hwf o ho
  · simp only [List.mem_singleton] at ho; subst ho; exact calcNonce_wf cfg r realm a t g.nonce h1

/-! ### (a) well-formedness of a generated nonce -/

/-- the format checks of the verifier on the presence level -/
theorem presNonce_generated (cfg : Cfg) (r : Req) (realm : Bytes) (a : Algo) (t : Nat) (n : Bytes)
    (h : calcNonce cfg r realm a t = some n) (lv : LenView) (hl : lv kNonce = some n.length) :
    presNonce a lv = .ok () := by
  have hlen := calcNonce_length cfg r realm a t n h
  have hs := stdLen_cases a
  unfold presNonce
  rw [hl]
  simp only []
  rw [if_neg (by simp only [stdLenMd5, stdLenSha] at hs; omega), if_neg (by omega)]

/-- "Get 'nonce' with basic checks" accepts a generated nonce until it expires -/
theorem stageNonce_generated (cfg : Cfg) (r : Req) (realm : Bytes) (a : Algo) (t : Nat) (n : Bytes)
    (h : calcNonce cfg r realm a t = some n) (d : DAuth) (p : Param) (hp : d.slots kNonce = some p)
    (hu : getUnq p = .ok n) (now timeout : Nat) (h1 : t ≤ now) (h2 : now < W64)
    (h3 : now - t ≤ (timeout * 1000) % 2 ^ timeoutBits) :
    stageNonce a now timeout d = .ok (n, trim t) := by
  have hlen := calcNonce_length cfg r realm a t n h
  have hts := calcNonce_timestamp cfg r realm a t n h
  have hage : trim (sub64 now (trim t)) = now - t := by
    apply age_eq now t h1 h2
    have : (timeout * 1000) % 2 ^ timeoutBits < 2 ^ 32 := Nat.mod_lt _ (by decide)
    omega
  unfold stageNonce
  simp only [hp, need, bind, Except.bind, hu]
  rw [if_neg (by omega), hts]
  simp only []
  rw [if_neg (by rw [hage]; omega)]

/-- … and reports it stale afterwards -/
theorem stageNonce_generated_expired (cfg : Cfg) (r : Req) (realm : Bytes) (a : Algo) (t : Nat) (n : Bytes)
    (h : calcNonce cfg r realm a t = some n) (d : DAuth) (p : Param) (hp : d.slots kNonce = some p)
    (hu : getUnq p = .ok n) (now timeout : Nat) (h1 : t ≤ now) (h2 : now < W64) (h4 : now - t < 2 ^ 48)
    (h3 : now - t > (timeout * 1000) % 2 ^ timeoutBits) :
    stageNonce a now timeout d = .error .nonceStale := by
  have hlen := calcNonce_length cfg r realm a t n h
  have hts := calcNonce_timestamp cfg r realm a t n h
  have hage : trim (sub64 now (trim t)) = now - t := age_eq now t h1 h2 h4
  unfold stageNonce
  simp only [hp, need, bind, Except.bind, hu]
  rw [if_neg (by omega), hts]
  simp only []
  rw [if_pos (by rw [hage]; omega)]

/-! ### (c) the nonce length is tied to the client's algorithm -/

/-- the vetting sequence refuses (`MHD_DAUTH_NONCE_WRONG`, table untouched) every nonce whose
    length is not `NONCE_STD_LEN` of the *client's* algorithm — whatever `get_nonce_timestamp`
    would say about it -/
theorem present_length_tie (tbl : Table) (now tmo mx sl : Nat) (n : Bytes) (c : Nat)
    (hc : c ≠ 0) (hmx : c ≤ (if mx = 0 then defMaxNc else mx)) (hl : sl ≠ n.length) :
    present tbl now tmo mx sl n c = (tbl, .wrong) := by
  unfold present
  simp only []
  rw [if_neg hc, if_neg (by omega), if_pos hl]

theorem stageNonce_length_tie (a : Algo) (now timeout : Nat) (d : DAuth) (p : Param) (n : Bytes)
    (hp : d.slots kNonce = some p) (hu : getUnq p = .ok n) (hl : a.stdLen ≠ n.length) :
    stageNonce a now timeout d = .error .nonceWrong := by
  unfold stageNonce
  simp only [hp, need, bind, Except.bind, hu]
  rw [if_pos hl]

/-! ### (b) the binding re-check -/

theorem binToHex_inj (u v : Bytes) (h : binToHex u = binToHex v) : u = v := by
  have h1 := hexPairs_binToHex u
  rw [h, hexPairs_binToHex] at h1
  exact (Option.some.inj h1).symm

theorem stdLen_fits (a : Algo) : ¬ tmp1Size < a.stdLen + 1 := by
  have := stdLen_cases a
  simp only [stdLenMd5, stdLenSha, tmp1Size] at *
  omega

/-- the nonce the verifier recomputes equals the presented one ⇒ the binding check passes -/
theorem stageBind_same (cfg : Cfg) (a : Algo) (r r' : Req) (realm : Bytes) (call : Call) (d : DAuth) (t : Nat)
    (n : Bytes) (np : Param) (hg : calcNonce cfg r realm a t = some n)
    (hnp : d.slots kNonce = some np) (hpq : PQ np) (hun : paramUnq np = n)
    (hsame : nonceInput cfg r' call.realm t = nonceInput cfg r realm t) :
    stageBind cfg a r' call d (trim t) = .ok () := by
  unfold stageBind
  by_cases hb : cfg.bindType ≠ bindNone
  · rw [if_pos hb, if_neg (stdLen_fits a)]
    have : calcNonce cfg r' call.realm a (trim t) = some n := by
      rw [calcNonce_trim]
      simp only [calcNonce, hsame] at hg ⊢
      exact hg
    rw [this]
    simp only [hnp, need, bind, Except.bind, isParamEq_sem np n hpq, hun, decide_true, if_true]
  · rw [if_neg hb]

/-- different bound inputs whose hashes differ ⇒ `MHD_DAUTH_NONCE_OTHER_COND` -/
theorem stageBind_differs (cfg : Cfg) (a : Algo) (r r' : Req) (realm : Bytes) (call : Call) (d : DAuth) (t : Nat)
    (n : Bytes) (np : Param) (hg : calcNonce cfg r realm a t = some n) (hb : cfg.bindType ≠ bindNone)
    (hnp : d.slots kNonce = some np) (hpq : PQ np) (hun : paramUnq np = n)
    (x y : Bytes) (hx : nonceInput cfg r realm t = some x) (hy : nonceInput cfg r' call.realm t = some y)
    (hH : a.hash x ≠ a.hash y) :
    stageBind cfg a r' call d (trim t) = .error .nonceOtherCond := by
  unfold stageBind
  rw [if_pos hb, if_neg (stdLen_fits a), calcNonce_trim]
  have hn : n = binToHex (a.hash x) ++ binToHex (tsBytes t) := by
    simp only [calcNonce, hx, Option.map_some, Option.some.injEq] at hg; exact hg.symm
  simp only [calcNonce, hy, Option.map_some, hnp, need, bind, Except.bind, isParamEq_sem np _ hpq, hun]
  rw [if_neg]
  simp only [decide_eq_true_eq]
  intro he
  rw [hn] at he
  exact hH (binToHex_inj _ _ (List.append_cancel_right he))

/-- without a binding option the nonce is not re-derived at all (any client, any resource) -/
theorem stageBind_none (cfg : Cfg) (a : Algo) (r : Req) (call : Call) (d : DAuth) (t : Nat)
    (hb : cfg.bindType = bindNone) : stageBind cfg a r call d t = .ok () := by
  unfold stageBind
  rw [if_neg (by simp [hb])]


/-! ### the bound inputs really enter the hashed string -/

theorem nonceInput_url_ne (cfg : Cfg) (r : Req) (realm u' : Bytes) (t : Nat) (x y : Bytes)
    (hb : has cfg.bindType bindUri = true) (hu : u' ≠ r.url)
    (hx : nonceInput cfg r realm t = some x) (hy : nonceInput cfg { r with url := u' } realm t = some y) : x ≠ y := by
  have hm : methodForNonce { r with url := u' } = methodForNonce r := rfl
  unfold nonceInput at hx hy
  simp only [hb, hm] at hx hy
  split at hx
  · cases hx
  · rename_i ipPart hip
    rw [hip] at hy
    simp only [Option.some.injEq] at hx hy
    subst hx; subst hy
    intro h
    simp at h
    exact hu h.symm

theorem nonceInput_realm_ne (cfg : Cfg) (r : Req) (realm realm' : Bytes) (t : Nat) (x y : Bytes)
    (hb : has cfg.bindType bindRealm = true) (hu : realm' ≠ realm)
    (hx : nonceInput cfg r realm t = some x) (hy : nonceInput cfg r realm' t = some y) : x ≠ y := by
  unfold nonceInput at hx hy
  simp only [hb] at hx hy
  split at hx
  · cases hx
  · rename_i ipPart hip
    rw [hip] at hy
    simp only [Option.some.injEq] at hx hy
    subst hx; subst hy
    intro h
    simp at h
    exact hu h.symm

theorem nonceInput_args_ne (cfg : Cfg) (r : Req) (realm : Bytes) (args' : List (Bytes × Option Bytes)) (t : Nat) (x y : Bytes)
    (hb : has cfg.bindType bindUriParams = true) (hu : argsForNonce args' ≠ argsForNonce r.args)
    (hx : nonceInput cfg r realm t = some x) (hy : nonceInput cfg { r with args := args' } realm t = some y) : x ≠ y := by
  have hm : methodForNonce { r with args := args' } = methodForNonce r := rfl
  unfold nonceInput at hx hy
  simp only [hb, hm] at hx hy
  split at hx
  · cases hx
  · rename_i ipPart hip
    rw [hip] at hy
    simp only [Option.some.injEq] at hx hy
    subst hx; subst hy
    intro h
    simp at h
    exact hu h.symm

/-! ### calculate_add_nonce_with_retry -/

theorem jumpBack_le (rnd : Nat) : jumpBack rnd ≤ jumpbackMax := by
  unfold jumpBack
  exact Nat.and_le_right

/-- the second attempt never uses the first time stamp again, and is back-dated by at most
    `DAUTH_JUMPBACK_MAX` ms when the clock has not moved -/
theorem retryTime_ne (t1 t2 rnd : Nat) (h1 : t1 < W64) (h2 : t2 < W64) :
    retryTime t1 t2 rnd ≠ t1 ∧ retryTime t1 t2 rnd < W64 ∧
    (t1 = t2 → 1 ≤ sub64 t1 (retryTime t1 t2 rnd) ∧ sub64 t1 (retryTime t1 t2 rnd) ≤ jumpbackMax) := by
  have hj := jumpBack_le rnd
  have hs : ∀ x y, sub64 x y = (x + 18446744073709551616 - y) % 18446744073709551616 := fun _ _ => rfl
  have hw : W64 = 18446744073709551616 := rfl
  unfold retryTime
  by_cases h : t1 = t2
  · subst h
    rw [if_pos rfl]
    simp only []
    generalize hjd : sub64 t1 (jumpBack rnd) = j
    have hjv := hs t1 (jumpBack rnd)
    rw [hjd] at hjv
    simp only [jumpbackMax, retryFallback, hw] at *
    by_cases h' : t1 = j
    · rw [if_pos h', hs, hs]
      refine ⟨?_, ?_, fun _ => ⟨?_, ?_⟩⟩ <;> omega
    · rw [if_neg h', hs]
      refine ⟨fun e => h' e.symm, ?_, fun _ => ⟨?_, ?_⟩⟩ <;> omega
  · rw [if_neg h]
    exact ⟨fun e => h e.symm, h2, fun e => (h e).elim⟩

/-- what `calculate_add_nonce_with_retry` returns: either the outcome of the first attempt
    (registered, or no table), or — after a refused first attempt — the second nonce if that one
    was registered, else the first, unregistered, nonce (`false`: "the next request of the client
    will be recognized as valid, but 'stale'") -/
theorem retry_cases (cfg : Cfg) (tbl tbl' : Table) (r : Req) (realm : Bytes) (a : Algo) (t1 t2 rnd : Nat) (g : Gen)
    (h : calcAddNonceRetry cfg tbl r realm a t1 t2 rnd = (tbl', some g)) :
    (calcAddNonce cfg tbl r realm a t1 = (tbl', some g) ∧ (g.added = true ∨ tbl.length = 0)) ∨
    (∃ tbl1 g1 g2, calcAddNonce cfg tbl r realm a t1 = (tbl1, some g1) ∧ g1.added = false ∧ tbl.length ≠ 0 ∧
       calcAddNonce cfg tbl1 r realm a (retryTime t1 t2 rnd) = (tbl', some g2) ∧
       ((g2.added = true ∧ g = g2) ∨ (g2.added = false ∧ g = g1))) := by
  unfold calcAddNonceRetry at h
  cases h1 : calcAddNonce cfg tbl r realm a t1 with
  | mk tbl1 o1 =>
    rw [h1] at h
    cases o1 with
    | none => simp only [Prod.mk.injEq] at h; cases h.2
    | some g1 =>
      simp only [] at h
      by_cases ha : g1.added = true
      · rw [if_pos ha] at h
        simp only [Prod.mk.injEq, Option.some.injEq] at h
        obtain ⟨rfl, rfl⟩ := h
        exact Or.inl ⟨rfl, Or.inl ha⟩
      · rw [if_neg ha] at h
        by_cases hz : tbl.length = 0
        · rw [if_pos hz] at h
          simp only [Prod.mk.injEq, Option.some.injEq] at h
          obtain ⟨rfl, rfl⟩ := h
          exact Or.inl ⟨rfl, Or.inr hz⟩
        · rw [if_neg hz] at h
          cases h2 : calcAddNonce cfg tbl1 r realm a (retryTime t1 t2 rnd) with
          | mk tbl2 o2 =>
            rw [h2] at h
            cases o2 with
            | none => simp only [Prod.mk.injEq] at h; cases h.2
            | some g2 =>
              simp only [] at h
              refine Or.inr ⟨tbl1, g1, g2, rfl, by simpa using ha, hz, ?_⟩
              by_cases hb : g2.added = true
              · rw [if_pos hb] at h
                simp only [Prod.mk.injEq, Option.some.injEq] at h
                obtain ⟨rfl, rfl⟩ := h
                exact ⟨h2, Or.inl ⟨hb, rfl⟩⟩
              · rw [if_neg hb] at h
                simp only [Prod.mk.injEq, Option.some.injEq] at h
                obtain ⟨rfl, rfl⟩ := h
                exact ⟨h2, Or.inr ⟨by simpa using hb, rfl⟩⟩


end Mhd.NonceGen
