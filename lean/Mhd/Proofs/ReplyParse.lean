/- Lemmas about the specification parser (Mhd.Proofs.ReplyGrammar): a rendered head parses back, chunked
   bodies parse back, and the framing rules case by case.  Nothing here refers to the model. -/
import Mhd.Proofs.ReplyGrammar
set_option linter.unusedSimpArgs false
set_option linter.unusedVariables false
namespace Mhd.Http
def NoCRLF (l : Bytes) : Prop := ∀ b ∈ l, b ≠ 13 ∧ b ≠ 10

theorem takeLine_append (l rest : Bytes) (h : NoCRLF l) :
    takeLine (l ++ 13 :: 10 :: rest) = some (l, rest) := by
  induction l with
  | nil => simp [takeLine]
  | cons b l ih =>
    have hb := h b (by simp)
    have ih' := ih (fun x hx => h x (by simp [hx]))
    simp [takeLine, hb.1, hb.2, ih']

def NameOK (n : Bytes) : Prop := n ≠ [] ∧ ∀ b ∈ n, b ≠ 58 ∧ b ≠ 32 ∧ b ≠ 9 ∧ b ≠ 13 ∧ b ≠ 10

theorem takeWhile_append_stop (p : UInt8 → Bool) (n : Bytes) (x : UInt8) (v : Bytes)
    (hn : ∀ b ∈ n, p b = true) (hx : p x = false) : (n ++ x :: v).takeWhile p = n := by
  induction n with
  | nil => simp [List.takeWhile, hx]
  | cons b n ih =>
    have hb := hn b (by simp)
    simp [List.takeWhile, hb, ih (fun y hy => hn y (by simp [hy]))]

theorem dropWhile_append_stop (p : UInt8 → Bool) (n : Bytes) (x : UInt8) (v : Bytes)
    (hn : ∀ b ∈ n, p b = true) (hx : p x = false) : (n ++ x :: v).dropWhile p = x :: v := by
  induction n with
  | nil => simp [List.dropWhile, hx]
  | cons b n ih =>
    have hb := hn b (by simp)
    simp [List.dropWhile, hb, ih (fun y hy => hn y (by simp [hy]))]

theorem parseField_line (name value : Bytes) (h : NameOK name) :
    parseField (name ++ 58 :: 32 :: value) = some ⟨name, value.dropWhile isOWS⟩ := by
  unfold parseField
  have h1 : (name ++ 58 :: 32 :: value).takeWhile (fun b => decide (b ≠ 58)) = name :=
    takeWhile_append_stop _ name 58 _ (fun b hb => by simp [(h.2 b hb).1]) (by simp)
  simp only [h1, List.drop_left']
  have hne : name.isEmpty = false := by
    cases name with
    | nil => exact absurd rfl h.1
    | cons _ _ => rfl
  have hws : name.any isOWS = false := by
    rw [List.any_eq_false]
    intro b hb
    have := h.2 b hb
    simp [isOWS, this.2.1, this.2.2.1]
  simp [hne, hws, List.dropWhile, isOWS]

def ValueOK (v : Bytes) : Prop := NoCRLF v

def fieldLine (f : Field) : Bytes := f.name ++ 58 :: 32 :: (f.value ++ [13, 10])
def renderFields (fs : List Field) : Bytes := (fs.map fieldLine).flatten
def FieldOK (f : Field) : Prop := NameOK f.name ∧ NoCRLF f.value
def normField (f : Field) : Field := ⟨f.name, f.value.dropWhile isOWS⟩

theorem fieldLine_noCRLF (f : Field) (h : FieldOK f) : NoCRLF (f.name ++ 58 :: 32 :: f.value) := by
  intro b hb
  simp only [List.mem_append, List.mem_cons] at hb
  rcases hb with hb | hb | hb | hb
  · exact ⟨(h.1.2 b hb).2.2.2.1, (h.1.2 b hb).2.2.2.2⟩
  · subst hb; decide
  · subst hb; decide
  · exact h.2 b hb

theorem parseFields_render (fs : List Field) (rest : Bytes) (fuel : Nat)
    (h : ∀ f ∈ fs, FieldOK f) (hf : fs.length < fuel) :
    parseFields fuel (renderFields fs ++ 13 :: 10 :: rest) = some (fs.map normField, rest) := by
  induction fs generalizing fuel with
  | nil =>
    cases fuel with
    | zero => simp at hf
    | succ n => simp [renderFields, parseFields, takeLine]
  | cons f fs ih =>
    cases fuel with
    | zero => simp at hf
    | succ n =>
      have hfo := h f (by simp)
      have hl : takeLine (renderFields (f :: fs) ++ 13 :: 10 :: rest)
          = some (f.name ++ 58 :: 32 :: f.value, renderFields fs ++ 13 :: 10 :: rest) := by
        have := takeLine_append (f.name ++ 58 :: 32 :: f.value) (renderFields fs ++ 13 :: 10 :: rest)
          (fieldLine_noCRLF f hfo)
        simpa [renderFields, fieldLine, List.append_assoc] using this
      have hne : (f.name ++ 58 :: 32 :: f.value).isEmpty = false := by
        cases hn : f.name <;> simp
      have ih' := ih n (fun g hg => h g (by simp [hg])) (by simp at hf; omega)
      simp only [parseFields, hl, hne, parseField_line f.name f.value hfo.1, ih']
      simp [normField]

/-! ### chunked bodies -/

/-- one chunk on the wire: hex size line, data, CRLF -/
def chunkBytes (hex data : Bytes) : Bytes := hex ++ 13 :: 10 :: (data ++ [13, 10])

/-- a chunk whose size line `hex` reads as the (non-zero) data length -/
structure ChunkOK (c : Bytes × Bytes) : Prop where
  hexNoCRLF : NoCRLF c.1
  hexVal : parseHex c.1 = some c.2.length
  nonEmpty : c.2 ≠ []

theorem parseChunks_frames : ∀ (cs : List (Bytes × Bytes)) (rest : Bytes) (fuel : Nat),
    (∀ c ∈ cs, ChunkOK c) → cs.length < fuel →
    parseChunks fuel ((cs.map fun c => chunkBytes c.1 c.2).flatten ++ 48 :: 13 :: 10 :: rest)
      = some ((cs.map (·.2)).flatten, rest)
  | [], rest, fuel, h, hf => by
    cases fuel with
    | zero => simp at hf
    | succ n =>
      have hl : takeLine (48 :: 13 :: 10 :: rest) = some ([48], rest) := by
        have := takeLine_append [48] rest (by intro b hb; simp at hb; subst hb; decide)
        simpa using this
      have hz : parseHex [48] = some 0 := by decide
      simp [parseChunks, hl, hz]
  | (hex, data) :: cs, rest, fuel, h, hf => by
    cases fuel with
    | zero => simp at hf
    | succ n =>
      have hc := h (hex, data) (by simp)
      have ih := parseChunks_frames cs rest n (fun c hc => h c (by simp [hc])) (by simp at hf; omega)
      let tail := (cs.map fun c => chunkBytes c.1 c.2).flatten ++ 48 :: 13 :: 10 :: rest
      have hl : takeLine (((hex, data) :: cs).map (fun c => chunkBytes c.1 c.2) |>.flatten
            |> (· ++ 48 :: 13 :: 10 :: rest)) = some (hex, data ++ 13 :: 10 :: tail) := by
        have := takeLine_append hex (data ++ 13 :: 10 :: tail) hc.hexNoCRLF
        simpa [chunkBytes, List.append_assoc, tail] using this
      have hlen : data.length ≠ 0 := by
        intro hh; exact hc.nonEmpty (List.length_eq_zero_iff.1 hh)
      obtain ⟨k, hk⟩ : ∃ k, data.length = k + 1 := ⟨data.length - 1, by omega⟩
      have hv : parseHex hex = some (k + 1) := by rw [← hk]; exact hc.hexVal
      simp only [parseChunks]
      simp only at hl
      rw [hl]
      simp only [hv]
      have h1 : ¬ (data ++ 13 :: 10 :: tail).length < k + 1 + 2 := by simp; omega
      have h2 : ((data ++ 13 :: 10 :: tail).drop (k + 1)).take 2 = [13, 10] := by
        rw [← hk]; simp
      have h3 : (data ++ 13 :: 10 :: tail).drop (k + 1 + 2) = tail := by
        rw [← hk]
        have : data.length + 2 = data.length + 2 := rfl
        rw [List.drop_append]
        simp
      have h4 : (data ++ 13 :: 10 :: tail).take (k + 1) = data := by
        rw [← hk]; simp
      simp only [h1, if_false, h2, ne_eq, not_true_eq_false, h3, h4]
      simp only [tail] at ih ⊢
      rw [ih]
      simp

/-! ### status line and head -/

theorem okVersion_cases (v : Bytes) (h : okVersion v = true) :
    v = [72, 84, 84, 80, 47, 49, 46, 48] ∨ v = [72, 84, 84, 80, 47, 49, 46, 49] ∨ v = [73, 67, 89] := by
  unfold okVersion at h
  simp at h
  rcases h with (h | h) | h
  · exact Or.inl h
  · exact Or.inr (Or.inl h)
  · exact Or.inr (Or.inr h)

theorem parseStatusLine_render (v : Bytes) (d1 d2 d3 : UInt8) (reason : Bytes) (hv : okVersion v = true)
    (h1 : isDigit d1 = true) (h2 : isDigit d2 = true) (h3 : isDigit d3 = true) (h0 : d1 ≠ 48) (hr : reason ≠ []) :
    parseStatusLine (v ++ 32 :: d1 :: d2 :: d3 :: 32 :: reason) = some (v, decValue [d1, d2, d3], reason) := by
  have hre : reason.isEmpty = false := by cases reason <;> simp_all
  have htw : (v ++ 32 :: d1 :: d2 :: d3 :: 32 :: reason).takeWhile (fun b => decide (b ≠ 32)) = v := by
    apply takeWhile_append_stop
    · intro b hb
      rcases okVersion_cases v hv with h | h | h <;> (subst h; revert b; decide)
    · decide
  unfold parseStatusLine
  simp only [htw, List.drop_left']
  simp [hv, h1, h2, h3, h0, hre]

theorem noCRLF_version (v : Bytes) (hv : okVersion v = true) : NoCRLF v := by
  intro b hb
  rcases okVersion_cases v hv with h | h | h <;> (subst h; revert b; decide)

theorem isDigit_noCRLF (d : UInt8) (h : isDigit d = true) : d ≠ 13 ∧ d ≠ 10 := by
  unfold isDigit at h
  simp at h
  constructor <;> (intro hh; subst hh; simp at h)

theorem renderFields_cons (f : Field) (t : List Field) : renderFields (f :: t) = fieldLine f ++ renderFields t := by
  simp [renderFields]

theorem renderFields_length_ge : ∀ (fs : List Field), fs.length ≤ (renderFields fs).length
  | [] => by simp [renderFields]
  | f :: t => by
    rw [renderFields_cons]
    have := renderFields_length_ge t
    simp [fieldLine]; omega

/-- a rendered head parses back: the status line, then every field (with leading whitespace of the
    value dropped), then the framing rules are applied to what follows -/
theorem parseReply_render (req : Req) (v : Bytes) (d1 d2 d3 : UInt8) (reason : Bytes) (fs : List Field) (body : Bytes)
    (hv : okVersion v = true) (h1 : isDigit d1 = true) (h2 : isDigit d2 = true) (h3 : isDigit d3 = true)
    (h0 : d1 ≠ 48) (hr : reason ≠ []) (hrn : NoCRLF reason) (hf : ∀ f ∈ fs, FieldOK f) :
    parseReply req (v ++ 32 :: d1 :: d2 :: d3 :: 32 :: reason ++ 13 :: 10 :: (renderFields fs ++ 13 :: 10 :: body))
      = frameReply req v (decValue [d1, d2, d3]) reason (fs.map normField) body := by
  have hsl : NoCRLF (v ++ 32 :: d1 :: d2 :: d3 :: 32 :: reason) := by
    intro b hb
    simp only [List.mem_append, List.mem_cons] at hb
    rcases hb with hb | hb | hb | hb | hb | hb | hb
    · exact noCRLF_version v hv b hb
    · subst hb; decide
    · subst hb; exact isDigit_noCRLF _ h1
    · subst hb; exact isDigit_noCRLF _ h2
    · subst hb; exact isDigit_noCRLF _ h3
    · subst hb; decide
    · exact hrn b hb
  have hl := takeLine_append (v ++ 32 :: d1 :: d2 :: d3 :: 32 :: reason) (renderFields fs ++ 13 :: 10 :: body) hsl
  have hpf := parseFields_render fs body ((renderFields fs ++ 13 :: 10 :: body).length + 1) hf (by
    have := renderFields_length_ge fs
    simp; omega)
  unfold parseReply
  simp only [List.append_assoc] at hl ⊢
  rw [hl]
  simp only [List.cons_append] at *
  have := parseStatusLine_render v d1 d2 d3 reason hv h1 h2 h3 h0 hr
  simp only [this, hpf]

/-! ### the framing rules, case by case -/


/-- replies without a body (HEAD, 1xx, 204, 304) -/
theorem frameReply_noBody (req : Req) (ver : Bytes) (code : Nat) (reason : Bytes) (fields : List Field)
    (hcl : (clsOf fields).length ≤ 1) (hte : (tesOf fields).length ≤ 1) (hco : (connsOf fields).length ≤ 1)
    (hboth : clsOf fields = [] ∨ tesOf fields = [])
    (hclv : ∀ f ∈ clsOf fields, (parseDec f.value).isSome = true)
    (htev : ∀ f ∈ tesOf fields, ciEq f.value vChunked = true)
    (h11 : tesOf fields ≠ [] → req.http11 = true)
    (hnbh : (code < 200 ∨ code = 204) → clsOf fields = [] ∧ tesOf fields = [])
    (hnb : (code < 200 ∨ code = 204) ∨ req.head = true ∨ code = 304) :
    frameReply req ver code reason fields [] = some ⟨ver, code, reason, fields, .none, [], []⟩ := by
  unfold frameReply
  simp only
  have c1 : (decide ((clsOf fields).length > 1) || decide ((tesOf fields).length > 1) || decide ((connsOf fields).length > 1)) = false := by
    simp; omega
  have c2 : ((!(clsOf fields).isEmpty) && !(tesOf fields).isEmpty) = false := by
    rcases hboth with h | h <;> simp [h]
  have c3 : (clsOf fields).all (fun f => (parseDec f.value).isSome) = true := by
    rw [List.all_eq_true]; exact hclv
  have c4 : (tesOf fields).all (fun f => ciEq f.value vChunked) = true := by
    rw [List.all_eq_true]; exact htev
  have c5 : ((!(tesOf fields).isEmpty) && !req.http11) = false := by
    by_cases ht : tesOf fields = []
    · simp [ht]
    · simp [h11 ht]
  by_cases hh : (code < 200 ∨ code = 204)
  · obtain ⟨e1, e2⟩ := hnbh hh
    have hd : (decide (code < 200) || decide (code = 204)) = true := by simpa using hh
    simp only [c1, c2, c3, c4, c5, Bool.false_eq_true, if_false, Bool.not_true, hd, e1, e2]
    simp
    try omega
  · have hd : (decide (code < 200) || decide (code = 204)) = false := by simpa using hh
    have hd2 : (req.head || decide (code = 304)) = true := by
      rcases hnb with h | h | h
      · exact absurd h hh
      · simp [h]
      · simp [h]
    simp only [c1, c2, c3, c4, c5, Bool.false_eq_true, if_false, Bool.not_true, hd, Bool.false_and, Bool.false_or, hd2]
    simp

theorem not_noBody (req : Req) (code : Nat) (h : ¬ ((code < 200 ∨ code = 204) ∨ req.head = true ∨ code = 304)) :
    (decide (code < 200) || decide (code = 204)) = false ∧ (req.head || decide (code = 304)) = false := by
  constructor
  · cases hx : (decide (code < 200) || decide (code = 204)) with
    | false => rfl
    | true => exfalso; apply h; left; simpa using hx
  · cases hx : (req.head || decide (code = 304)) with
    | false => rfl
    | true => exfalso; apply h; right; simpa using hx

theorem chunks_length_ge : ∀ (cs : List (Bytes × Bytes)),
    cs.length ≤ ((cs.map fun (c : Bytes × Bytes) => chunkBytes c.1 c.2).flatten).length
  | [] => by simp
  | c :: t => by
    have := chunks_length_ge t
    simp only [List.map_cons, List.flatten_cons, List.length_append, List.length_cons]
    have : 1 ≤ (chunkBytes c.1 c.2).length := by simp [chunkBytes]; omega
    omega

/-- chunked body: chunks, last chunk, trailers, final CRLF -/
theorem frameReply_chunked (req : Req) (ver : Bytes) (code : Nat) (reason : Bytes) (fields : List Field)
    (cs : List (Bytes × Bytes)) (trailers : List Field)
    (hcl : clsOf fields = []) (hte : (tesOf fields).length = 1) (hco : (connsOf fields).length ≤ 1)
    (htev : ∀ f ∈ tesOf fields, ciEq f.value vChunked = true) (h11 : req.http11 = true)
    (hnb : ¬ ((code < 200 ∨ code = 204) ∨ req.head = true ∨ code = 304))
    (hcs : ∀ c ∈ cs, ChunkOK c) (htr : ∀ f ∈ trailers, FieldOK f) :
    frameReply req ver code reason fields
        ((cs.map fun (c : Bytes × Bytes) => chunkBytes c.1 c.2).flatten ++ 48 :: 13 :: 10 :: (renderFields trailers ++ [13, 10]))
      = some ⟨ver, code, reason, fields, .chunked, (cs.map (·.2)).flatten, trailers.map normField⟩ := by
  unfold frameReply
  simp only
  have hco' : decide ((connsOf fields).length > 1) = false := by simp; omega
  have hte0 : (tesOf fields).isEmpty = false := by
    cases hx : tesOf fields with
    | nil => rw [hx] at hte; simp at hte
    | cons _ _ => rfl
  have c4 : (tesOf fields).all (fun f => ciEq f.value vChunked) = true := by
    rw [List.all_eq_true]; exact htev
  obtain ⟨n1, n2⟩ := not_noBody req code hnb
  have hpc := parseChunks_frames cs (renderFields trailers ++ [13, 10])
    (((cs.map fun (c : Bytes × Bytes) => chunkBytes c.1 c.2).flatten ++ 48 :: 13 :: 10 :: (renderFields trailers ++ [13, 10])).length + 1)
    hcs (by
      have := chunks_length_ge cs
      simp only [List.length_append]; omega)
  have hpt := parseFields_render trailers [] ((renderFields trailers ++ [13, 10]).length + 1) htr (by
    have := renderFields_length_ge trailers
    simp; omega)
  rw [hpc]
  simp only [hcl, hte, hco', hte0, c4, h11, n1, n2, Bool.false_eq_true, if_false, List.isEmpty_nil, Bool.not_true,
    Bool.false_and, Bool.not_false, Bool.and_false, Bool.true_and, List.all_nil, Bool.and_self, Bool.or_false,
    if_true, hpt, List.length_nil, gt_iff_lt, Nat.lt_irrefl, decide_false, Nat.not_lt_zero, Bool.or_self, Bool.false_or]

/-- body delimited by Content-Length -/
theorem frameReply_length (req : Req) (ver : Bytes) (code : Nat) (reason : Bytes) (fields : List Field)
    (f : Field) (n : Nat) (body : Bytes)
    (hcl : clsOf fields = [f]) (hte : tesOf fields = []) (hco : (connsOf fields).length ≤ 1)
    (hv : parseDec f.value = some n) (hb : body.length = n)
    (hnb : ¬ ((code < 200 ∨ code = 204) ∨ req.head = true ∨ code = 304)) :
    frameReply req ver code reason fields body = some ⟨ver, code, reason, fields, .length n, body, []⟩ := by
  unfold frameReply
  simp only
  have hco' : decide ((connsOf fields).length > 1) = false := by simp; omega
  obtain ⟨n1, n2⟩ := not_noBody req code hnb
  simp [hcl, hte, hco', n1, n2, hv, hb]

/-- body delimited by closing the connection -/
theorem frameReply_close (req : Req) (ver : Bytes) (code : Nat) (reason : Bytes) (fields : List Field) (body : Bytes)
    (hcl : clsOf fields = []) (hte : tesOf fields = []) (hco : (connsOf fields).length ≤ 1)
    (hac : announcesClose fields = true)
    (hnb : ¬ ((code < 200 ∨ code = 204) ∨ req.head = true ∨ code = 304)) :
    frameReply req ver code reason fields body = some ⟨ver, code, reason, fields, .close, body, []⟩ := by
  unfold frameReply
  simp only
  have hco' : decide ((connsOf fields).length > 1) = false := by simp; omega
  obtain ⟨n1, n2⟩ := not_noBody req code hnb
  simp [hcl, hte, hco', n1, n2, hac]
end Mhd.Http
