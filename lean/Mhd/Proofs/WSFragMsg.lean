/-
  C19 helper lemmas, part 21: a whole fragmented message — first frame without FIN,
  continuation frames with ping / pong frames in between, last frame with FIN — by induction
  over the list of frames; assembling mode and fragment mode.
-/
import Mhd.Proofs.WSFragStep
namespace Mhd.WS

/-! ### gluing runs, validator over a concatenation -/

/-- running over `a` and then, from the state reached, over `b` is running over `a ++ b` -/
theorem run_glue {ws ws1 : WS} (hi : Inv ws) (hv : ws.validity ≠ 0) {a b : List UInt8} {E1 E2 : List Ev} {out : Out}
    (h1 : Run ws a E1 (.more ws1)) (h2 : Run ws1 b E2 out) : Run ws (a ++ b) (E1 ++ E2) out := by
  by_cases hb : b = []
  · subst hb
    obtain ⟨_, hq1, _⟩ := h1.more_quiet hi hv rfl
    obtain ⟨e1, e2⟩ := h2.nil_quiet hq1
    subst e1 e2
    simpa using h1
  · exact (h1.append hi hv b hb).2 ws1 rfl _ _ h2

theorem checkUtf8_append_ok (a b : List UInt8) (s s' : Nat) (h : checkUtf8 (a ++ b) s 0 = .ok s') :
    ∃ s1, checkUtf8 a s 0 = .ok s1 ∧ checkUtf8 b s1 0 = .ok s' := by
  rw [checkUtf8_append] at h
  cases ha : checkUtf8 a s 0 with
  | invalid o => rw [ha] at h; cases h
  | ok s1 =>
    rw [ha] at h
    simp only [] at h
    refine ⟨s1, rfl, ?_⟩
    rw [checkUtf8_shift] at h
    cases hb : checkUtf8 b s1 0 with
    | invalid o => rw [hb] at h; cases h
    | ok s2 => rw [hb] at h; exact h

theorem checkUtf8_ok_append (a b : List UInt8) (s s1 s' : Nat) (ha : checkUtf8 a s 0 = .ok s1)
    (hb : checkUtf8 b s1 0 = .ok s') : checkUtf8 (a ++ b) s 0 = .ok s' := by
  rw [checkUtf8_append, ha]
  simp only []
  rw [checkUtf8_shift, hb]

/-! ### the frames between the first and the last frame of a fragmented message -/

/-- what is sent between the first and the last frame of a fragmented message: a continuation
    frame without FIN carrying `p`, or a ping (`op = 9`) / pong (`op = 10`) frame -/
inductive Mid where
  | frag (p : List UInt8)
  | ctrl (op : Nat) (p : List UInt8)
  deriving Repr, DecidableEq

/-- the masking key of one frame (ignored when the sender is a server) -/
abbrev Key := UInt8 × UInt8 × UInt8 × UInt8

def keyOf (masked : Bool) (k : Key) : List UInt8 := if masked then [k.1, k.2.1, k.2.2.1, k.2.2.2] else [0, 0, 0, 0]

/-- RFC 6455 framing of one frame: first byte `b0`, payload `p`, masked with `k` iff `masked` -/
def wireOf (masked : Bool) (b0 : UInt8) (p : List UInt8) (k : Key) : List UInt8 :=
  frameBytes masked b0 p.length (keyOf masked k) (copyPayload p (keyOf masked k) 0)

def Mid.b0 : Mid → UInt8
  | .frag _ => 0x00
  | .ctrl op _ => UInt8.ofNat (0x80 + op)

def Mid.payload : Mid → List UInt8
  | .frag p => p
  | .ctrl _ p => p

def midWire (masked : Bool) : List (Mid × Key) → List UInt8
  | [] => []
  | (x, k) :: r => wireOf masked x.b0 x.payload k ++ midWire masked r

/-- the message bytes carried by the continuation frames -/
def midData : List Mid → List UInt8
  | [] => []
  | .frag p :: r => p ++ midData r
  | .ctrl _ _ :: r => midData r

/-- the ping / pong frames as the application gets them -/
def midCtrlEvs : List Mid → List Ev
  | [] => []
  | .frag _ :: r => midCtrlEvs r
  | .ctrl op p :: r => (Int.ofNat op, plOf p, p.length) :: midCtrlEvs r

/-- side conditions on an interleaved control frame: ping or pong, RFC 6455 5.5 length limit,
    within the receiver's maximum payload size and allocation limit -/
def CtrlOK (maxPayload allocLimit : Nat) : Mid → Prop
  | .frag _ => True
  | .ctrl op p => (op = 9 ∨ op = 10) ∧ p.length ≤ 125 ∧ (maxPayload = 0 ∨ p.length ≤ maxPayload) ∧
      p.length + 1 ≤ allocLimit

theorem Bnd.ctrl {ws ws' : WS} {t : Nat} {acc : List UInt8} {u v v' : Nat} (hb : Bnd ws t acc u v) (hi : Inv ws')
    (hs : ws'.step = 0) (hv : ws'.validity = v') (sd : SameData ws ws') : Bnd ws' t acc u v' :=
  ⟨hi, hs, hv, sd.1.trans hb.dtype, sd.2.1.trans hb.buf, sd.2.2.1.trans hb.size, sd.2.2.2.1.trans hb.u8⟩

/-- one ping / pong frame at a frame boundary: handed out, the message under assembly untouched -/
theorem ctrl_frame {ws : WS} {t : Nat} {acc : List UInt8} {u : Nat} (hb : Bnd ws t acc u 1)
    (masked : Bool) (hm : masked = !ws.isClient) (op : Nat) (p : List UInt8) (k : Key)
    (hok : CtrlOK ws.maxPayload ws.allocLimit (.ctrl op p)) :
    ∃ ws', Run ws (wireOf masked (UInt8.ofNat (0x80 + op)) p k) [(Int.ofNat op, plOf p, p.length)] (.more ws') ∧
      Bnd ws' t acc u 1 ∧ Cfg ws ws' := by
  obtain ⟨hop, hn, hmax, hal⟩ := hok
  have hv : ws.validity ≠ 0 := by rw [hb.val]; decide
  obtain ⟨ws', hrun, hsd, hval, hst⟩ := roundtrip_ctrl_run ws hb.inv hb.step hv op (by omega) p hn (by omega) hmax hal
    (by omega) k.1 k.2.1 k.2.2.1 k.2.2.2 masked hm (keyOf masked k) rfl
  refine ⟨ws', hrun, ?_, ⟨hsd.2.2.2.2.1, hsd.2.2.2.2.2.1, hsd.2.2.2.2.2.2⟩⟩
  obtain ⟨hi', _, _⟩ := hrun.more_quiet hb.inv hv rfl
  refine hb.ctrl hi' hst ?_ hsd
  rw [hval, if_neg (by omega), hb.val]

theorem rsv_zero : rsvBits 0x00 = 0 := by decide
theorem fin_zero : finBit 0x00 = false := by decide
theorem op_zero : opcodeOf 0x00 = 0 := by decide
theorem rsv_80 : rsvBits 0x80 = 0 := by decide
theorem fin_80 : finBit 0x80 = true := by decide
theorem op_80 : opcodeOf 0x80 = 0 := by decide

/-! ### assembling mode -/

/-- **assembling mode, the frames in the middle**: the ping / pong frames are handed out as they
    come, the payloads of the continuation frames are appended to the message under assembly -/
theorem mid_assemble (masked : Bool) (l : List (Mid × Key)) :
    ∀ {ws : WS} {t : Nat} {acc : List UInt8} {u : Nat}, Bnd ws t acc u 1 → t ≠ 0 → ws.wantFragments = false →
    masked = !ws.isClient → (∀ x ∈ l, CtrlOK ws.maxPayload ws.allocLimit x.1) →
    (ws.maxPayload = 0 ∨ acc.length + (midData (l.map Prod.fst)).length ≤ ws.maxPayload) →
    acc.length + (midData (l.map Prod.fst)).length + 1 ≤ ws.allocLimit →
    ∀ u', (t = 1 → checkUtf8 (midData (l.map Prod.fst)) u 0 = .ok u') → (t ≠ 1 → u' = u) →
    ∃ ws', Run ws (midWire masked l) (midCtrlEvs (l.map Prod.fst)) (.more ws') ∧
      Bnd ws' t (acc ++ midData (l.map Prod.fst)) u' 1 ∧ Cfg ws ws' := by
  induction l with
  | nil =>
    intro ws t acc u hb ht hw hm hctl hmax hal u' hck hnt
    have hq : sil ws = 0 := by unfold sil; rw [hb.step]; simp
    have hu : u' = u := by
      by_cases h1 : t = 1
      · have := hck h1
        simp only [List.map_nil, midData, checkUtf8] at this
        injection this with this; exact this.symm
      · exact hnt h1
    subst hu
    refine ⟨ws, Run.done _ _ _ (settle_quiet hq), ?_, ⟨rfl, rfl, rfl⟩⟩
    simpa [midData] using hb
  | cons xk r ih =>
    intro ws t acc u hb ht hw hm hctl hmax hal u' hck hnt
    obtain ⟨x, k⟩ := xk
    have hv : ws.validity ≠ 0 := by rw [hb.val]; decide
    have hlt := hb.inv.allocLt
    cases x with
    | frag p =>
      simp only [List.map_cons, midData, List.length_append] at hmax hal hck ⊢
      -- validator state after this fragment
      have hsplit : ∃ u1, (t = 1 → checkUtf8 p u 0 = .ok u1) ∧ (t ≠ 1 → u1 = u) ∧
          (t = 1 → checkUtf8 (midData (r.map Prod.fst)) u1 0 = .ok u') := by
        by_cases h1 : t = 1
        · obtain ⟨u1, a, b⟩ := checkUtf8_append_ok _ _ _ _ (hck h1)
          exact ⟨u1, fun _ => a, fun h => absurd h1 h, fun _ => b⟩
        · exact ⟨u, fun h => absurd h h1, fun _ => rfl, fun h => absurd h h1⟩
      obtain ⟨u1, hck1, hnt1, hck2⟩ := hsplit
      obtain ⟨ws1, hrun1, hb1, hc1⟩ := data_frame_assemble hb hw 0x00 rsv_zero fin_zero t (Or.inl ⟨op_zero, ht, rfl⟩) p
        k.1 k.2.1 k.2.2.1 k.2.2.2 masked hm (keyOf masked k) rfl (by omega)
        (by rcases hmax with a | a; exact Or.inl a; exact Or.inr (by omega)) (by omega) u1 hck1 hnt1
      obtain ⟨ws2, hrun2, hb2, hc2⟩ := ih hb1 ht (by rw [hc1.want]; exact hw) (by rw [hc1.client]; exact hm)
        (by intro y hy; rw [hc1.2.1, hc1.2.2]; exact hctl y (List.mem_cons_of_mem _ hy))
        (by rw [hc1.2.1, List.length_append]; rcases hmax with a | a; exact Or.inl a; exact Or.inr (by omega))
        (by rw [hc1.2.2, List.length_append]; omega) u' hck2 (by intro h; rw [hnt h, hnt1 h])
      refine ⟨ws2, ?_, by rw [← List.append_assoc]; exact hb2, hc1.trans hc2⟩
      have := run_glue hb.inv hv hrun1 hrun2
      simpa [midWire, midCtrlEvs, wireOf, Mid.b0, Mid.payload] using this
    | ctrl op p =>
      simp only [List.map_cons, midData] at hmax hal hck ⊢
      obtain ⟨ws1, hrun1, hb1, hc1⟩ := ctrl_frame hb masked hm op p k (hctl (.ctrl op p, k) (List.mem_cons_self ..))
      obtain ⟨ws2, hrun2, hb2, hc2⟩ := ih hb1 ht (by rw [hc1.want]; exact hw) (by rw [hc1.client]; exact hm)
        (by intro y hy; rw [hc1.2.1, hc1.2.2]; exact hctl y (List.mem_cons_of_mem _ hy))
        (by rw [hc1.2.1]; exact hmax) (by rw [hc1.2.2]; exact hal) u' hck hnt
      refine ⟨ws2, ?_, hb2, hc1.trans hc2⟩
      have := run_glue hb.inv hv hrun1 hrun2
      simpa [midWire, midCtrlEvs, Mid.b0, Mid.payload] using this

theorem ofNat_op (op : Nat) (hop : op = 1 ∨ op = 2) :
    rsvBits (UInt8.ofNat op) = 0 ∧ finBit (UInt8.ofNat op) = false ∧ opcodeOf (UInt8.ofNat op) = op := by
  rcases hop with h | h <;> subst h <;> decide

theorem bnd_cfg_hyps {ws ws1 : WS} (hc : Cfg ws ws1) :
    ws1.maxPayload = ws.maxPayload ∧ ws1.allocLimit = ws.allocLimit ∧ ws1.isClient = ws.isClient ∧
    ws1.wantFragments = ws.wantFragments := ⟨hc.2.1, hc.2.2, hc.client, hc.want⟩

/-- **assembling mode, a whole fragmented message**: first frame (text / binary, no FIN), any
    continuation frames with ping / pong frames in between, last frame (continuation, FIN): the
    application gets the control frames in order and then one message, the concatenation -/
theorem msg_assembled {ws : WS} (hb : Bnd ws 0 [] 0 1) (hw : ws.wantFragments = false) (masked : Bool)
    (hm : masked = !ws.isClient) (op : Nat) (hop : op = 1 ∨ op = 2) (p0 : List UInt8) (k0 : Key)
    (l : List (Mid × Key)) (pn : List UInt8) (kn : Key)
    (hctl : ∀ x ∈ l, CtrlOK ws.maxPayload ws.allocLimit x.1)
    (hmax : ws.maxPayload = 0 ∨ (p0 ++ midData (l.map Prod.fst) ++ pn).length ≤ ws.maxPayload)
    (hal : (p0 ++ midData (l.map Prod.fst) ++ pn).length + 1 ≤ ws.allocLimit)
    (hutf : op = 1 → checkUtf8 (p0 ++ midData (l.map Prod.fst) ++ pn) 0 0 = .ok 0) :
    ∃ ws', Run ws (wireOf masked (UInt8.ofNat op) p0 k0 ++ midWire masked l ++ wireOf masked 0x80 pn kn)
        (midCtrlEvs (l.map Prod.fst) ++ [(Int.ofNat op, plOf (p0 ++ midData (l.map Prod.fst) ++ pn),
           (p0 ++ midData (l.map Prod.fst) ++ pn).length)]) (.more ws') ∧ Bnd ws' 0 [] 0 1 ∧ Cfg ws ws' := by
  obtain ⟨hr0, hf0, ho0⟩ := ofNat_op op hop
  have hv : ws.validity ≠ 0 := by rw [hb.val]; decide
  have hlt := hb.inv.allocLt
  have hop0 : op ≠ 0 := by omega
  simp only [List.length_append] at hmax hal
  -- validator states at the two inner frame boundaries
  have hsplit : ∃ u1 u2, (op = 1 → checkUtf8 p0 0 0 = .ok u1) ∧ (op ≠ 1 → u1 = 0) ∧
      (op = 1 → checkUtf8 (midData (l.map Prod.fst)) u1 0 = .ok u2) ∧ (op ≠ 1 → u2 = u1) ∧
      (op = 1 → checkUtf8 pn u2 0 = .ok 0) := by
    by_cases h1 : op = 1
    · obtain ⟨u2, a, b⟩ := checkUtf8_append_ok _ _ _ _ (hutf h1)
      obtain ⟨u1, c, d⟩ := checkUtf8_append_ok _ _ _ _ a
      exact ⟨u1, u2, fun _ => c, fun h => absurd h1 h, fun _ => d, fun h => absurd h1 h, fun _ => b⟩
    · exact ⟨0, 0, fun h => absurd h h1, fun _ => rfl, fun h => absurd h h1, fun _ => rfl, fun h => absurd h h1⟩
  obtain ⟨u1, u2, hck0, hnt0, hck1, hnt1, hck2⟩ := hsplit
  obtain ⟨ws1, hrun1, hb1, hc1⟩ := data_frame_assemble hb hw (UInt8.ofNat op) hr0 hf0 op
    (Or.inr ⟨by rw [ho0]; exact hop, rfl, rfl, ho0.symm⟩) p0 k0.1 k0.2.1 k0.2.2.1 k0.2.2.2 masked hm (keyOf masked k0) rfl
    (by simp only [List.length_nil]; omega)
    (by simp only [List.length_nil]; rcases hmax with a | a; exact Or.inl a; exact Or.inr (by omega))
    (by simp only [List.length_nil]; omega) u1 hck0 hnt0
  obtain ⟨e1, e2, e3, e4⟩ := bnd_cfg_hyps hc1
  rw [List.nil_append] at hb1
  obtain ⟨ws2, hrun2, hb2, hc2⟩ := mid_assemble masked l hb1 hop0 (by rw [e4]; exact hw) (by rw [e3]; exact hm)
    (by rw [e1, e2]; exact hctl) (by rw [e1]; rcases hmax with a | a; exact Or.inl a; exact Or.inr (by omega))
    (by rw [e2]; omega) u2 hck1 hnt1
  obtain ⟨f1, f2, f3, f4⟩ := bnd_cfg_hyps (hc1.trans hc2)
  obtain ⟨ws3, hrun3, hb3, hc3⟩ := data_frame_fin hb2 0x80 rsv_80 fin_80 op (Or.inl ⟨op_80, hop0, rfl⟩) pn
    kn.1 kn.2.1 kn.2.2.1 kn.2.2.2 masked (by rw [f3]; exact hm) (keyOf masked kn) rfl
    (by simp only [List.length_append]; omega)
    (by rw [f1]; simp only [List.length_append]; rcases hmax with a | a; exact Or.inl a; exact Or.inr (by omega))
    (by rw [f2]; simp only [List.length_append]; omega) hck2
  refine ⟨ws3, ?_, hb3, (hc1.trans hc2).trans hc3⟩
  have hv1 : ws1.validity ≠ 0 := by rw [hb1.val]; decide
  have h23 := run_glue hb1.inv hv1 hrun2 hrun3
  have h123 := run_glue hb.inv hv hrun1 h23
  have hfs : finStatus ws2.wantFragments (decide (opcodeOf 0x80 = 0)) op = Int.ofNat op := by
    unfold finStatus; rw [f4, hw]; simp
  rw [hfs] at h123
  simpa [wireOf, plOf, bufOf, List.append_assoc, Nat.add_assoc] using h123

/-! ### fragment mode -/

/-- how many bytes of an unfinished character a fragment-mode decoder may keep back -/
def slack (t : Nat) : Nat := if t = 1 then 3 else 0

/-- the validator state after the payload `p` (text messages only) -/
def stepAfter (t u : Nat) (p : List UInt8) : Nat :=
  if t = 1 then (match checkUtf8 p u 0 with | .ok s => s | .invalid _ => 0) else u

/-- what is handed out for a non-final fragment `p` when `c` was kept back before: status mark
    `m`, the complete characters of `c ++ p` -/
def fragEv (t m u : Nat) (c p : List UInt8) : Ev :=
  (fragMark t m, cutPl (c ++ p) (cutLen t (stepAfter t u p) (c ++ p)), cutLen t (stepAfter t u p) (c ++ p))

/-- … and what is kept back then -/
def fragKeep (t u : Nat) (c p : List UInt8) : List UInt8 := (c ++ p).drop (cutLen t (stepAfter t u p) (c ++ p))

/-- fragment mode: what the application gets for the frames in the middle, from validator
    state `u` with `c` kept back -/
def fragEvs (t : Nat) : Nat → List UInt8 → List Mid → List Ev
  | _, _, [] => []
  | u, c, .ctrl op p :: r => (Int.ofNat op, plOf p, p.length) :: fragEvs t u c r
  | u, c, .frag p :: r => fragEv t 0x20 u c p :: fragEvs t (stepAfter t u p) (fragKeep t u c p) r

def fragCarry (t : Nat) : Nat → List UInt8 → List Mid → List UInt8
  | _, c, [] => c
  | u, c, .ctrl _ _ :: r => fragCarry t u c r
  | u, c, .frag p :: r => fragCarry t (stepAfter t u p) (fragKeep t u c p) r

/-- side conditions, fragment mode: each fragment (plus the ≤ 3 bytes that may have been kept
    back, text only) within the maximum payload size and the allocation limit -/
def FragOK (t maxPayload allocLimit : Nat) : Mid → Prop
  | .frag p => (maxPayload = 0 ∨ p.length + slack t ≤ maxPayload) ∧ p.length + slack t + 1 ≤ allocLimit
  | .ctrl op p => CtrlOK maxPayload allocLimit (.ctrl op p)

theorem givenUtf8_le3 (s : Nat) : givenUtf8 s ≤ 3 := by
  unfold givenUtf8; split <;> omega

theorem fragKeep_le (t u : Nat) (c p : List UInt8) : (fragKeep t u c p).length ≤ slack t := by
  unfold fragKeep cutLen slack
  simp only [List.length_drop]
  have := givenUtf8_le3 (stepAfter t u p)
  split <;> omega

theorem stepAfter_eq (t u u1 : Nat) (p : List UInt8) (hck : t = 1 → checkUtf8 p u 0 = .ok u1) (hnt : t ≠ 1 → u1 = u) :
    stepAfter t u p = u1 := by
  unfold stepAfter
  by_cases h1 : t = 1
  · rw [if_pos h1, hck h1]
  · rw [if_neg h1, hnt h1]

/-- **fragment mode, the frames in the middle** -/
theorem mid_fragment (masked : Bool) (l : List (Mid × Key)) :
    ∀ {ws : WS} {t : Nat} {acc : List UInt8} {u : Nat}, Bnd ws t acc u 1 → t ≠ 0 → ws.wantFragments = true →
    masked = !ws.isClient → acc.length ≤ slack t → 4 ≤ ws.allocLimit →
    (∀ x ∈ l, FragOK t ws.maxPayload ws.allocLimit x.1) →
    ∀ u', (t = 1 → checkUtf8 (midData (l.map Prod.fst)) u 0 = .ok u') → (t ≠ 1 → u' = u) →
    ∃ ws', Run ws (midWire masked l) (fragEvs t u acc (l.map Prod.fst)) (.more ws') ∧
      Bnd ws' t (fragCarry t u acc (l.map Prod.fst)) u' 1 ∧ Cfg ws ws' ∧
      (fragCarry t u acc (l.map Prod.fst)).length ≤ slack t := by
  induction l with
  | nil =>
    intro ws t acc u hb ht hw hm hacc hal4 hok u' hck hnt
    have hq : sil ws = 0 := by unfold sil; rw [hb.step]; simp
    have hu : u' = u := by
      by_cases h1 : t = 1
      · have := hck h1
        simp only [List.map_nil, midData, checkUtf8] at this
        injection this with this; exact this.symm
      · exact hnt h1
    subst hu
    exact ⟨ws, Run.done _ _ _ (settle_quiet hq), hb, ⟨rfl, rfl, rfl⟩, hacc⟩
  | cons xk r ih =>
    intro ws t acc u hb ht hw hm hacc hal4 hok u' hck hnt
    obtain ⟨x, k⟩ := xk
    have hv : ws.validity ≠ 0 := by rw [hb.val]; decide
    have hlt := hb.inv.allocLt
    cases x with
    | frag p =>
      simp only [List.map_cons, midData] at hck ⊢
      obtain ⟨hmaxp, halp⟩ : FragOK t ws.maxPayload ws.allocLimit (.frag p) := hok (.frag p, k) (List.mem_cons_self ..)
      have hsplit : ∃ u1, (t = 1 → checkUtf8 p u 0 = .ok u1) ∧ (t ≠ 1 → u1 = u) ∧
          (t = 1 → checkUtf8 (midData (r.map Prod.fst)) u1 0 = .ok u') := by
        by_cases h1 : t = 1
        · obtain ⟨u1, a, b⟩ := checkUtf8_append_ok _ _ _ _ (hck h1)
          exact ⟨u1, fun _ => a, fun h => absurd h1 h, fun _ => b⟩
        · exact ⟨u, fun h => absurd h h1, fun _ => rfl, fun h => absurd h h1⟩
      obtain ⟨u1, hck1, hnt1, hck2⟩ := hsplit
      obtain ⟨ws1, hrun1, hb1, hc1⟩ := data_frame_fragment hb hw 0x00 rsv_zero fin_zero t (Or.inl ⟨op_zero, ht, rfl⟩) p
        k.1 k.2.1 k.2.2.1 k.2.2.2 masked hm (keyOf masked k) rfl (by omega)
        (by rcases hmaxp with a | a; exact Or.inl a; exact Or.inr (by omega)) (by omega) hal4 u1 hck1 hnt1
      obtain ⟨e1, e2, e3, e4⟩ := bnd_cfg_hyps hc1
      have hsa := stepAfter_eq t u u1 p hck1 hnt1
      have hkeep : (acc ++ p).drop (cutLen t u1 (acc ++ p)) = fragKeep t u acc p := by unfold fragKeep; rw [hsa]
      rw [hkeep] at hb1
      obtain ⟨ws2, hrun2, hb2, hc2, hle2⟩ := ih hb1 ht (by rw [e4]; exact hw) (by rw [e3]; exact hm)
        (fragKeep_le t u acc p) (by rw [e2]; exact hal4)
        (by intro y hy; rw [e1, e2]; exact hok y (List.mem_cons_of_mem _ hy))
        u' hck2 (by intro h; rw [hnt h, hnt1 h])
      refine ⟨ws2, ?_, by simpa [fragCarry, hsa] using hb2, hc1.trans hc2, by simpa [fragCarry, hsa] using hle2⟩
      have := run_glue hb.inv hv hrun1 hrun2
      simpa [midWire, fragEvs, fragEv, wireOf, Mid.b0, Mid.payload, hsa, op_zero] using this
    | ctrl op p =>
      simp only [List.map_cons, midData] at hck ⊢
      obtain ⟨ws1, hrun1, hb1, hc1⟩ := ctrl_frame hb masked hm op p k (hok (.ctrl op p, k) (List.mem_cons_self ..))
      obtain ⟨e1, e2, e3, e4⟩ := bnd_cfg_hyps hc1
      obtain ⟨ws2, hrun2, hb2, hc2, hle2⟩ := ih hb1 ht (by rw [e4]; exact hw) (by rw [e3]; exact hm) hacc
        (by rw [e2]; exact hal4) (by intro y hy; rw [e1, e2]; exact hok y (List.mem_cons_of_mem _ hy)) u' hck hnt
      refine ⟨ws2, ?_, hb2, hc1.trans hc2, hle2⟩
      have := run_glue hb.inv hv hrun1 hrun2
      simpa [midWire, fragEvs, Mid.b0, Mid.payload] using this

/-- **fragment mode, a whole fragmented message**: the application gets the first fragment
    (status FIRST), each continuation frame (NEXT) and each ping / pong frame in place, the last
    fragment (LAST); an unfinished character at the end of a text fragment is kept back and
    handed out at the head of the following fragment -/
theorem msg_fragments {ws : WS} (hb : Bnd ws 0 [] 0 1) (hw : ws.wantFragments = true) (masked : Bool)
    (hm : masked = !ws.isClient) (op : Nat) (hop : op = 1 ∨ op = 2) (p0 : List UInt8) (k0 : Key)
    (l : List (Mid × Key)) (pn : List UInt8) (kn : Key) (hal4 : 4 ≤ ws.allocLimit)
    (hok : ∀ x ∈ l, FragOK op ws.maxPayload ws.allocLimit x.1)
    (hok0 : FragOK op ws.maxPayload ws.allocLimit (.frag p0)) (hokn : FragOK op ws.maxPayload ws.allocLimit (.frag pn))
    (hutf : op = 1 → checkUtf8 (p0 ++ midData (l.map Prod.fst) ++ pn) 0 0 = .ok 0) :
    ∃ ws', Run ws (wireOf masked (UInt8.ofNat op) p0 k0 ++ midWire masked l ++ wireOf masked 0x80 pn kn)
        (fragEv op 0x10 0 [] p0 :: fragEvs op (stepAfter op 0 p0) (fragKeep op 0 [] p0) (l.map Prod.fst) ++
          [(Int.ofNat (op ||| 0x40),
            plOf (fragCarry op (stepAfter op 0 p0) (fragKeep op 0 [] p0) (l.map Prod.fst) ++ pn),
            (fragCarry op (stepAfter op 0 p0) (fragKeep op 0 [] p0) (l.map Prod.fst) ++ pn).length)])
        (.more ws') ∧ Bnd ws' 0 [] 0 1 ∧ Cfg ws ws' := by
  obtain ⟨hr0, hf0, ho0⟩ := ofNat_op op hop
  have hv : ws.validity ≠ 0 := by rw [hb.val]; decide
  have hlt := hb.inv.allocLt
  have hop0 : op ≠ 0 := by omega
  obtain ⟨hmax0, halp0⟩ := hok0
  obtain ⟨hmaxn, halpn⟩ := hokn
  have hsplit : ∃ u1 u2, (op = 1 → checkUtf8 p0 0 0 = .ok u1) ∧ (op ≠ 1 → u1 = 0) ∧
      (op = 1 → checkUtf8 (midData (l.map Prod.fst)) u1 0 = .ok u2) ∧ (op ≠ 1 → u2 = u1) ∧
      (op = 1 → checkUtf8 pn u2 0 = .ok 0) := by
    by_cases h1 : op = 1
    · obtain ⟨u2, a, b⟩ := checkUtf8_append_ok _ _ _ _ (hutf h1)
      obtain ⟨u1, c, d⟩ := checkUtf8_append_ok _ _ _ _ a
      exact ⟨u1, u2, fun _ => c, fun h => absurd h1 h, fun _ => d, fun h => absurd h1 h, fun _ => b⟩
    · exact ⟨0, 0, fun h => absurd h h1, fun _ => rfl, fun h => absurd h h1, fun _ => rfl, fun h => absurd h h1⟩
  obtain ⟨u1, u2, hck0, hnt0, hck1, hnt1, hck2⟩ := hsplit
  obtain ⟨ws1, hrun1, hb1, hc1⟩ := data_frame_fragment hb hw (UInt8.ofNat op) hr0 hf0 op
    (Or.inr ⟨by rw [ho0]; exact hop, rfl, rfl, ho0.symm⟩) p0 k0.1 k0.2.1 k0.2.2.1 k0.2.2.2 masked hm (keyOf masked k0) rfl
    (by simp only [List.length_nil]; omega)
    (by simp only [List.length_nil]; rcases hmax0 with a | a; exact Or.inl a; exact Or.inr (by omega))
    (by simp only [List.length_nil]; omega) hal4 u1 hck0 hnt0
  obtain ⟨e1, e2, e3, e4⟩ := bnd_cfg_hyps hc1
  have hsa := stepAfter_eq op 0 u1 p0 hck0 hnt0
  have hkeep : ([] ++ p0).drop (cutLen op u1 ([] ++ p0)) = fragKeep op 0 [] p0 := by unfold fragKeep; rw [hsa]
  rw [hkeep] at hb1
  obtain ⟨ws2, hrun2, hb2, hc2, hle2⟩ := mid_fragment masked l hb1 hop0 (by rw [e4]; exact hw) (by rw [e3]; exact hm)
    (fragKeep_le op 0 [] p0) (by rw [e2]; exact hal4) (by rw [e1, e2]; exact hok) u2 hck1 hnt1
  obtain ⟨f1, f2, f3, f4⟩ := bnd_cfg_hyps (hc1.trans hc2)
  rw [← hsa] at hb2 hle2
  generalize hC : fragCarry op (stepAfter op 0 p0) (fragKeep op 0 [] p0) (l.map Prod.fst) = C at *
  have hsl : slack op ≤ 3 := by unfold slack; split <;> omega
  obtain ⟨ws3, hrun3, hb3, hc3⟩ := data_frame_fin hb2 0x80 rsv_80 fin_80 op (Or.inl ⟨op_80, hop0, rfl⟩) pn
    kn.1 kn.2.1 kn.2.2.1 kn.2.2.2 masked (by rw [f3]; exact hm) (keyOf masked kn) rfl
    (by omega)
    (by rw [f1]; rcases hmaxn with a | a; exact Or.inl a; exact Or.inr (by omega))
    (by rw [f2]; omega) hck2
  refine ⟨ws3, ?_, hb3, (hc1.trans hc2).trans hc3⟩
  have hv1 : ws1.validity ≠ 0 := by rw [hb1.val]; decide
  have h23 := run_glue hb1.inv hv1 hrun2 hrun3
  have h123 := run_glue hb.inv hv hrun1 h23
  have hfs : finStatus ws2.wantFragments (decide (opcodeOf 0x80 = 0)) op = Int.ofNat (op ||| 0x40) := by
    unfold finStatus; rw [f4, hw]; simp [op_80]
  rw [hfs] at h123
  have hne1 : opcodeOf (UInt8.ofNat op) ≠ 0 := by rw [ho0]; exact hop0
  simpa [wireOf, plOf, bufOf, fragEv, List.append_assoc, hsa, hne1] using h123

end Mhd.WS
