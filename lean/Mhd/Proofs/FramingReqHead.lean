/-
  C03 helper lemmas, part 13: the composition of C02's request-line scanner and header-section
  scanner (`reqParser`) is a lawful head parser — from C02's scanner laws (`rlLaws`, `HSP.hsLaws`:
  a finished run is not changed by bytes arriving behind it), `rl_run_done` (shape of every accepted
  request line) and `HSP.run_stable` (every string handed out lies below `read_buffer`).
-/
import Mhd.Model.FramingReqHead
import Mhd.Proofs.ReqStable
import Mhd.Proofs.ReqLinePost
namespace Mhd.Framing
open Mhd.Gen
open Mhd.Req (Scanner)

/-! ### byte views do not change when bytes are appended to the buffer -/

theorem sl0_append (buf e : Req.Bytes) (sl : Req.Slice) (h : sl.region = 0 → sl.off + sl.len ≤ buf.size) :
    sl0 (buf ++ e) sl = sl0 buf sl := by
  unfold sl0
  by_cases hr : sl.region = 0
  · have hb := h hr
    simp only [hr, if_true, Array.toList_append]
    have h1 : sl.off ≤ buf.toList.length := by simp only [Array.length_toList]; omega
    rw [List.drop_append_of_le_length h1]
    rw [List.take_append_of_le_length (by simp only [List.length_drop, Array.length_toList]; omega)]
  · simp only [hr, if_false]

theorem fieldOf_append (buf e : Req.Bytes) (el : Req.Elem)
    (h : ∀ sl ∈ Req.HSP.Elem.slices el, sl.region = 0 → sl.off + sl.len ≤ buf.size) :
    fieldOf (buf ++ e) el = fieldOf buf el := by
  unfold fieldOf
  have hk := sl0_append buf e el.key (h el.key (by simp [Req.HSP.Elem.slices]))
  cases hv : el.value with
  | none => simp only [hk]
  | some v =>
    have := sl0_append buf e v (h v (by simp [Req.HSP.Elem.slices, hv]))
    simp only [hk, this]

theorem fieldsOf_append (buf e : Req.Bytes) (els : List Req.Elem)
    (h : ∀ el ∈ els, ∀ sl ∈ Req.HSP.Elem.slices el, sl.region = 0 → sl.off + sl.len ≤ buf.size) :
    fieldsOf (buf ++ e) els = fieldsOf buf els := by
  unfold fieldsOf
  induction els with
  | nil => rfl
  | cons a t ih =>
    simp only [List.filterMap_cons]
    rw [fieldOf_append buf e a (h a List.mem_cons_self), ih (fun el hm => h el (List.mem_cons_of_mem _ hm))]

theorem drop_append (buf e : Req.Bytes) (n : Nat) (h : n ≤ buf.size) :
    (buf ++ e).toList.drop n = buf.toList.drop n ++ e.toList := by
  rw [Array.toList_append, List.drop_append_of_le_length (by simp only [Array.length_toList]; exact h)]

/-! ### finished runs are stable under extension (C02's scanner laws) -/

theorem rl_done_ext (F : Req.RLFlags) (b e : Req.Bytes) (d : Req.RLDone)
    (h : (Req.rlScanner F).run (Req.RL.init b 0) = .done d) :
    (Req.rlScanner F).run (Req.RL.init (b ++ e) 0) = .done (Req.rlExtendR d e) := by
  have := Scanner.feed_run (Req.rlLaws F) (Req.RL.init b 0) (Req.RLInv.init b 0 (Nat.zero_le _)) e
  rw [h] at this
  exact this.symm

theorem rl_no_fault (F : Req.RLFlags) (b : Req.Bytes) (f : Req.Fault) :
    (Req.rlScanner F).run (Req.RL.init b 0) ≠ .fault f :=
  Scanner.run_no_fault (Req.rlLaws F) _ (Req.RLInv.init b 0 (Nat.zero_le _)) f

theorem hs_done_ext (F : Req.FLFlags) (fs : Nat) (s : Req.HS) (hi : Req.HSP.Inv s) (e : Req.Bytes) (d : Req.HDone)
    (h : (Req.hsScanner F fs).run s = .done d) :
    (Req.hsScanner F fs).run (Req.hsExtend s e) = .done (Req.hsExtendR d e) := by
  have := Scanner.feed_run (Req.HSP.hsLaws F fs) s hi e
  rw [h] at this
  exact this.symm

theorem hs_no_fault (F : Req.FLFlags) (fs : Nat) (s : Req.HS) (hi : Req.HSP.Inv s) (f : Req.Fault) :
    (Req.hsScanner F fs).run s ≠ .fault f :=
  Scanner.run_no_fault (Req.HSP.hsLaws F fs) s hi f

/-! ### the start state of header parsing -/

/-- the state in which `get_req_headers` starts after the request line `r` -/
def hsAfter (r : Req.ReqLine) (rbSize : Nat) : Req.HS :=
  { buf := r.buf, rb := r.rb, rbSize := rbSize, method := r.method, version := r.version, crSp := r.crSp }

theorem hsStart_inv (buf : Req.Bytes) (rb rbSize method version crSp : Nat) (h1 : rb ≤ buf.size)
    (h2 : version + Discipline.httpVerLen + 1 ≤ rb) :
    Req.HSP.Inv { buf := buf, rb := rb, rbSize := rbSize, method := method, version := version, crSp := crSp } ∧
    Req.HSP.Inv2 { buf := buf, rb := rb, rbSize := rbSize, method := method, version := version, crSp := crSp } := by
  refine ⟨⟨by simpa using h1, by show 1 ≤ rb; omega, Nat.le_refl _, Nat.le_refl _, Nat.le_refl _, h2,
    fun el hm => by cases hm⟩, ⟨fun _ => rfl, fun _ _ => rfl, fun h => absurd rfl h, ?_, fun el hm => by cases hm⟩⟩
  show version + Discipline.httpVerLen ≤ _
  unfold Req.lastElemEnd
  simp

/-- what a finished header section guarantees for the views -/
theorem headers_views (F : Req.FLFlags) (fs : Nat) (s : Req.HS) (hi : Req.HSP.Inv s) (h2 : Req.HSP.Inv2 s) (h : Req.Headers)
    (hr : (Req.hsScanner F fs).run s = .done (.ok h)) (hg : h.rb ≤ h.buf.size) (e : Req.Bytes) :
    fieldsOf (h.buf ++ e) h.elems = fieldsOf h.buf h.elems ∧ s.version + Discipline.httpVerLen + 1 ≤ h.rb := by
  have st := Req.HSP.run_stable F fs s hi h2 h hr
  refine ⟨fieldsOf_append h.buf e h.elems ?_, st.1.1⟩
  intro el hm sl hsl hr0
  have := st.1.2 el hm sl hsl hr0
  omega

theorem guard_ext (inLen : Nat) (h : Req.Headers) (ea : Req.Bytes) (hg : headersGuard inLen h = true) :
    headersGuard (inLen + ea.size) { h with buf := h.buf ++ ea } = true ∧ h.rb ≤ h.buf.size := by
  unfold headersGuard at hg ⊢
  simp only [Bool.and_eq_true, decide_eq_true_eq] at hg ⊢
  refine ⟨⟨?_, ?_⟩, hg.1⟩
  · show h.rb ≤ (h.buf ++ ea).size; rw [Array.size_append]; omega
  · show (h.buf ++ ea).size - h.rb < _; rw [Array.size_append]; omega

theorem toArray_cons_append (c : UInt8) (t e : Bytes) : (c :: (t ++ e)).toArray = (c :: t).toArray ++ e.toArray := by
  simp

theorem httpVerLen_eq : Discipline.httpVerLen = 8 := rfl

/-! ### the trailer-section parser -/

theorem reqTrailers_cases (lvl : Int) (rbSize : Nat) (c : UInt8) (t : Bytes) :
    let s0 : Req.HS := { buf := Array.replicate 9 0 ++ (c :: t).toArray, rb := 9, rbSize := rbSize, method := 0, version := 0 }
    Req.HSP.Inv s0 ∧ Req.HSP.Inv2 s0 := by
  intro s0
  exact hsStart_inv _ 9 rbSize 0 0 0 (by simp [Array.size_append]) (by rw [httpVerLen_eq]; omega)

theorem reqTrailers_append (lvl : Int) (rbSize : Nat) (b e : Bytes) (fs : List Field) (r : Bytes)
    (h : reqTrailers lvl rbSize b = .ok fs r) : reqTrailers lvl rbSize (b ++ e) = .ok fs (r ++ e) := by
  cases b with
  | nil => simp [reqTrailers] at h
  | cons c t =>
    obtain ⟨inv, inv2⟩ := reqTrailers_cases lvl rbSize c t
    simp only [reqTrailers] at h
    simp only [reqTrailers, List.cons_append]
    rw [toArray_cons_append, ← Array.append_assoc]
    cases hrun : (Req.hsScanner (Req.FLFlags.ofLevel lvl) 9).run
        { buf := Array.replicate 9 0 ++ (c :: t).toArray, rb := 9, rbSize := rbSize, method := 0, version := 0 } with
    | more s => rw [hrun] at h; cases h
    | fault f => rw [hrun] at h; cases h
    | done d =>
      rw [hrun] at h
      have hx := hs_done_ext _ 9 _ inv e.toArray d hrun
      simp only [Req.hsExtend] at hx
      rw [hx]
      cases d with
      | err k => cases h
      | ok hd =>
        simp only at h
        by_cases hg : headersGuard (c :: t).length hd = true
        · rw [if_pos hg] at h
          simp only [FieldsRes.ok.injEq] at h
          obtain ⟨g', hrb⟩ := guard_ext _ hd e.toArray hg
          have hv := headers_views _ 9 _ inv inv2 hd hrun hrb e.toArray
          simp only [Req.hsExtendR]
          have hlen : (c :: (t ++ e)).length = (c :: t).length + e.toArray.size := by simp; omega
          rw [hlen, if_pos g', hv.1, drop_append _ _ _ hrb, h.1, h.2]
        · rw [if_neg hg] at h; cases h

theorem reqTrailers_bad_append (lvl : Int) (rbSize : Nat) (b e : Bytes)
    (h : reqTrailers lvl rbSize b = .bad) : reqTrailers lvl rbSize (b ++ e) = .bad := by
  cases b with
  | nil => simp [reqTrailers] at h
  | cons c t =>
    obtain ⟨inv, inv2⟩ := reqTrailers_cases lvl rbSize c t
    simp only [reqTrailers] at h
    simp only [reqTrailers, List.cons_append]
    rw [toArray_cons_append, ← Array.append_assoc]
    cases hrun : (Req.hsScanner (Req.FLFlags.ofLevel lvl) 9).run
        { buf := Array.replicate 9 0 ++ (c :: t).toArray, rb := 9, rbSize := rbSize, method := 0, version := 0 } with
    | more s => rw [hrun] at h; cases h
    | fault f => exact absurd hrun (hs_no_fault _ 9 _ inv f)
    | done d =>
      rw [hrun] at h
      have hx := hs_done_ext _ 9 _ inv e.toArray d hrun
      simp only [Req.hsExtend] at hx
      rw [hx]
      cases d with
      | err k => cases h
      | ok hd =>
        simp only at h
        split at h <;> cases h

theorem reqTrailers_refuse_append (lvl : Int) (rbSize : Nat) (b e : Bytes) (x : Option Nat)
    (h : reqTrailers lvl rbSize b = .refuse x) : reqTrailers lvl rbSize (b ++ e) = .refuse x := by
  cases b with
  | nil => simp [reqTrailers] at h
  | cons c t =>
    obtain ⟨inv, inv2⟩ := reqTrailers_cases lvl rbSize c t
    simp only [reqTrailers] at h
    simp only [reqTrailers, List.cons_append]
    rw [toArray_cons_append, ← Array.append_assoc]
    cases hrun : (Req.hsScanner (Req.FLFlags.ofLevel lvl) 9).run
        { buf := Array.replicate 9 0 ++ (c :: t).toArray, rb := 9, rbSize := rbSize, method := 0, version := 0 } with
    | more s => rw [hrun] at h; cases h
    | fault f => rw [hrun] at h; cases h
    | done d =>
      rw [hrun] at h
      have hx := hs_done_ext _ 9 _ inv e.toArray d hrun
      simp only [Req.hsExtend] at hx
      rw [hx]
      cases d with
      | err k => exact h
      | ok hd =>
        simp only at h
        split at h <;> cases h

theorem reqTrailers_length (lvl : Int) (rbSize : Nat) (b : Bytes) (fs : List Field) (r : Bytes)
    (h : reqTrailers lvl rbSize b = .ok fs r) : r.length < b.length := by
  cases b with
  | nil => simp [reqTrailers] at h
  | cons c t =>
    simp only [reqTrailers] at h
    split at h
    · cases h
    · cases h
    · cases h
    · rename_i hd _
      split at h
      · rename_i hg
        simp only [FieldsRes.ok.injEq] at h
        unfold headersGuard at hg
        simp only [Bool.and_eq_true, decide_eq_true_eq] at hg
        rw [← h.2]
        simp only [List.length_drop, Array.length_toList]
        exact hg.2
      · cases h

/-! ### the request-head parser -/

theorem reqHead_start (F : Req.RLFlags) (b : Req.Bytes) (r : Req.ReqLine) (rbSize : Nat)
    (hr : (Req.rlScanner F).run (Req.RL.init b 0) = .done (.ok r)) :
    let s0 : Req.HS := { buf := r.buf, rb := r.rb, rbSize := rbSize, method := r.method, version := r.version, crSp := r.crSp }
    Req.RLPost r ∧ r.buf.size = b.size ∧ Req.HSP.Inv s0 ∧ Req.HSP.Inv2 s0 := by
  intro s0
  have post := Req.rl_run_done F (Req.RLInvX.init F b 0 (Nat.zero_le _)) hr
  have := hsStart_inv r.buf r.rb rbSize r.method r.version r.crSp post.1.hrb post.1.hv
  exact ⟨post.1, post.2.1, this.1, this.2⟩

theorem reqHead_append (lvl : Int) (rbSize : Nat) (b e : Bytes) (hd : Head) (rest : Bytes)
    (h : reqHead lvl rbSize b = .ok hd rest) : reqHead lvl rbSize (b ++ e) = .ok hd (rest ++ e) := by
  cases b with
  | nil => simp [reqHead] at h
  | cons c t =>
    simp only [reqHead] at h
    simp only [reqHead, List.cons_append]
    rw [toArray_cons_append]
    cases hrl : (Req.rlScanner (Req.RLFlags.ofLevel lvl)).run (Req.RL.init (c :: t).toArray 0) with
    | more s => rw [hrl] at h; cases h
    | fault f => rw [hrl] at h; cases h
    | done d =>
      rw [hrl] at h
      rw [rl_done_ext _ _ e.toArray d hrl]
      cases d with
      | err k => cases h
      | ok r =>
        obtain ⟨post, hsz, inv, inv2⟩ := reqHead_start _ _ r rbSize hrl
        simp only at h
        simp only [Req.rlExtendR]
        cases hrun : (Req.hsScanner (Req.FLFlags.ofLevel lvl) r.rb).run
            { buf := r.buf, rb := r.rb, rbSize := rbSize, method := r.method, version := r.version, crSp := r.crSp } with
        | more s => rw [hrun] at h; cases h
        | fault f => rw [hrun] at h; cases h
        | done d2 =>
          rw [hrun] at h
          have hx := hs_done_ext _ r.rb _ inv e.toArray d2 hrun
          simp only [Req.hsExtend] at hx
          rw [hx]
          cases d2 with
          | err k => cases h
          | ok hh =>
            simp only at h
            by_cases hg : (headersGuard (c :: t).length hh && lineGuard r) = true
            · rw [if_pos hg] at h
              simp only [HeadRes.ok.injEq] at h
              simp only [Bool.and_eq_true] at hg
              obtain ⟨g', hrb⟩ := guard_ext _ hh e.toArray hg.1
              have hv := headers_views _ r.rb _ inv inv2 hh hrun hrb e.toArray
              have hl : r.method + r.methodLen ≤ r.tgt := by
                have := hg.2; unfold lineGuard at this; simpa using this
              have hver : r.version + 8 + 1 ≤ hh.rb := by have := hv.2; rw [httpVerLen_eq] at this; exact this
              have htl := post.htl
              simp only [Req.hsExtendR]
              have hlen : (c :: (t ++ e)).length = (c :: t).length + e.toArray.size := by simp; omega
              have hlg : lineGuard { r with buf := r.buf ++ e.toArray } = lineGuard r := rfl
              rw [hlen, g', hlg, hg.2, Bool.and_self, if_pos rfl, hv.1, drop_append _ _ _ hrb]
              rw [sl0_append hh.buf e.toArray ⟨0, r.method, r.methodLen⟩ (fun _ => by show r.method + r.methodLen ≤ _; omega),
                  sl0_append hh.buf e.toArray ⟨0, r.tgt, r.tgtLen⟩ (fun _ => by show r.tgt + r.tgtLen ≤ _; omega)]
              rw [← h.1, ← h.2]
            · rw [if_neg hg] at h; cases h

theorem reqHead_bad_append (lvl : Int) (rbSize : Nat) (b e : Bytes)
    (h : reqHead lvl rbSize b = .bad) : reqHead lvl rbSize (b ++ e) = .bad := by
  cases b with
  | nil => simp [reqHead] at h
  | cons c t =>
    simp only [reqHead] at h
    simp only [reqHead, List.cons_append]
    rw [toArray_cons_append]
    cases hrl : (Req.rlScanner (Req.RLFlags.ofLevel lvl)).run (Req.RL.init (c :: t).toArray 0) with
    | more s => rw [hrl] at h; cases h
    | fault f => exact absurd hrl (rl_no_fault _ _ f)
    | done d =>
      rw [hrl] at h
      rw [rl_done_ext _ _ e.toArray d hrl]
      cases d with
      | err k => cases h
      | ok r =>
        obtain ⟨post, hsz, inv, inv2⟩ := reqHead_start _ _ r rbSize hrl
        simp only at h
        simp only [Req.rlExtendR]
        cases hrun : (Req.hsScanner (Req.FLFlags.ofLevel lvl) r.rb).run
            { buf := r.buf, rb := r.rb, rbSize := rbSize, method := r.method, version := r.version, crSp := r.crSp } with
        | more s => rw [hrun] at h; cases h
        | fault f => exact absurd hrun (hs_no_fault _ r.rb _ inv f)
        | done d2 =>
          rw [hrun] at h
          have hx := hs_done_ext _ r.rb _ inv e.toArray d2 hrun
          simp only [Req.hsExtend] at hx
          rw [hx]
          cases d2 with
          | err k => cases h
          | ok hh =>
            simp only at h
            split at h <;> cases h

theorem reqHead_refuse_append (lvl : Int) (rbSize : Nat) (b e : Bytes) (x : Option Nat)
    (h : reqHead lvl rbSize b = .refuse x) : reqHead lvl rbSize (b ++ e) = .refuse x := by
  cases b with
  | nil => simp [reqHead] at h
  | cons c t =>
    simp only [reqHead] at h
    simp only [reqHead, List.cons_append]
    rw [toArray_cons_append]
    cases hrl : (Req.rlScanner (Req.RLFlags.ofLevel lvl)).run (Req.RL.init (c :: t).toArray 0) with
    | more s => rw [hrl] at h; cases h
    | fault f => rw [hrl] at h; cases h
    | done d =>
      rw [hrl] at h
      rw [rl_done_ext _ _ e.toArray d hrl]
      cases d with
      | err k => exact h
      | ok r =>
        obtain ⟨post, hsz, inv, inv2⟩ := reqHead_start _ _ r rbSize hrl
        simp only at h
        simp only [Req.rlExtendR]
        cases hrun : (Req.hsScanner (Req.FLFlags.ofLevel lvl) r.rb).run
            { buf := r.buf, rb := r.rb, rbSize := rbSize, method := r.method, version := r.version, crSp := r.crSp } with
        | more s => rw [hrun] at h; cases h
        | fault f => rw [hrun] at h; cases h
        | done d2 =>
          rw [hrun] at h
          have hx := hs_done_ext _ r.rb _ inv e.toArray d2 hrun
          simp only [Req.hsExtend] at hx
          rw [hx]
          cases d2 with
          | err k => exact h
          | ok hh =>
            simp only at h
            split at h <;> cases h

theorem reqHead_length (lvl : Int) (rbSize : Nat) (b : Bytes) (hd : Head) (rest : Bytes)
    (h : reqHead lvl rbSize b = .ok hd rest) : rest.length < b.length := by
  cases b with
  | nil => simp [reqHead] at h
  | cons c t =>
    simp only [reqHead] at h
    split at h
    · cases h
    · cases h
    · cases h
    · split at h
      · cases h
      · cases h
      · cases h
      · split at h
        · rename_i hg
          simp only [HeadRes.ok.injEq] at h
          simp only [Bool.and_eq_true] at hg
          have hg1 := hg.1
          unfold headersGuard at hg1
          simp only [Bool.and_eq_true, decide_eq_true_eq] at hg1
          rw [← h.2]
          simp only [List.length_drop, Array.length_toList]
          exact hg1.2
        · cases h

/-- **C02's request-line scanner followed by C02's header-section scanner is a lawful head parser**,
    at every level and for every read-buffer size -/
theorem reqParser_lawful (lvl : Int) (rbSize : Nat) : @LawfulHeadParser (reqParser lvl rbSize) :=
  @LawfulHeadParser.mk (reqParser lvl rbSize)
    rfl
    (reqHead_append lvl rbSize)
    (reqHead_bad_append lvl rbSize)
    (reqHead_refuse_append lvl rbSize)
    (reqHead_length lvl rbSize)
    (reqTrailers_append lvl rbSize)
    (reqTrailers_bad_append lvl rbSize)
    (reqTrailers_refuse_append lvl rbSize)
    (reqTrailers_length lvl rbSize)

end Mhd.Framing
