/-
  C12: a concrete valid credential (non-vacuity of the validity theorems): user `us\er`, realm `r"lm`,
  request `GET /a%20b?k=v+w&e=` seen by the handler as path "/a b" with arguments k="v w", e; qop=auth,
  nc=0000000A, a registered MD5-sized nonce of age 1 s.  The response is the RFC value, kept symbolic.
-/
import Mhd.Proofs.DauthHex
namespace Mhd.Dauth
open Mhd.Auth Mhd.Gen.Auth Mhd.Gen.Dauth

/-- lengths as sent of the canonical rendering (nothing escaped) -/
def canonLv (c : Cred) : LenView := fun k => (c.val k).map List.length

theorem lenSem_canon (c : Cred) (h : c.ext = c.val kUsernameExt) : LenSem c (canonLv c) := by
  refine ⟨fun k => ?_, fun k => ?_, ?_⟩
  · simp [canonLv]
  · simp only [canonLv]
    cases c.val k with
    | none => simp
    | some v => simp [List.length_eq_zero_iff]
  · simp [canonLv, h]

namespace Ex
def nonce : Bytes := ([48, 48, 48, 48, 48, 48, 48, 48, 48, 48, 48, 48, 48, 48, 48, 48, 48, 48, 48, 48, 48, 48, 48, 48, 48, 48, 48, 48, 48, 48, 48, 48, 48, 48, 48, 48, 48, 48, 48, 48, 49, 51, 56, 56] : Bytes)
def cfg : Cfg := ⟨bindNone, [], 90, 1000, true⟩
def tbl : Mhd.Nonce.Table := [{ nonce := nonce ++ List.replicate 33 0, nc := 0, nmask := 0 }]
def req : Req := { method := ([71, 69, 84] : Bytes), mthd := 1, url := ([47, 97, 32, 98] : Bytes), args := [(([107] : Bytes), some (([118, 32, 119] : Bytes))), (([101] : Bytes), none)], hdrs := [], addr := [] }
def call : Call := ⟨([114, 34, 108, 109] : Bytes), ([117, 115, 92, 101, 114] : Bytes), .password (([112, 119] : Bytes)), 0, 0, mqopAuth, malgoMd5⟩
def uri : Bytes := ([47, 97, 37, 50, 48, 98, 63, 107, 61, 118, 43, 119, 38, 101, 61] : Bytes)
def mid : Bytes := ([48, 48, 48, 48, 48, 48, 48, 65] : Bytes) ++ 58 :: (([99, 110] : Bytes) ++ 58 :: (([97, 117, 116, 104] : Bytes) ++ [58]))
def h1 : Bytes := binToHex (userdigest .md5 call.username call.realm (([112, 119] : Bytes)))
def respBin : Bytes := rfcResponse .md5 h1 nonce mid uri req.method
def cred : Cred :=
  { algo3 := algoMd5, qop := qopAuth, userhash := false, ext := none,
    val := fun k =>
      if k = kUsername then some call.username else if k = kRealm then some call.realm
      else if k = kNonce then some nonce else if k = kUri then some uri
      else if k = kNc then some (([48, 48, 48, 48, 48, 48, 48, 65] : Bytes)) else if k = kCnonce then some (([99, 110] : Bytes))
      else if k = kQop then some (([97, 117, 116, 104] : Bytes)) else if k = kResponse then some (binToHex respBin) else none }

theorem respBin_len : respBin.length = 16 := md5_len _

set_option maxRecDepth 100000 in
theorem valid : RFCValid cfg tbl 6000 req call 90 1000 cred .md5 10 nonce 5000 where
  algo := by decide
  qop := by decide
  user := Or.inl ⟨rfl, rfl, rfl⟩
  realm := rfl
  nonceVal := ⟨rfl, by decide, by decide, by decide⟩
  fresh := by decide
  uri := ⟨uri, rfl, by decide, by decide⟩
  response := ⟨uri, mid, h1, binToHex respBin, respBin, rfl,
    Or.inr ⟨rfl, ([48, 48, 48, 48, 48, 48, 48, 65] : Bytes), ([99, 110] : Bytes), ([97, 117, 116, 104] : Bytes), rfl, rfl, rfl, by decide, by decide, by decide, Or.inr (by decide), rfl⟩,
    rfl, rfl,
    hexToBin_binToHex _ (by intro h; have := respBin_len; rw [h] at this; cases this),
    by rw [binToHex_length, respBin_len]; decide, respBin_len, rfl⟩
  bind := fun h => absurd rfl h

theorem limits : WithinLimits .md5 call cred (canonLv cred) where
  userhash := fun h => by cases h
  realm := fun _ l hl => by simp [canonLv, cred, kRealm, kUsername] at hl; subst hl; decide
  nc := fun _ l hl => by simp [canonLv, cred, kNc, kUsername, kRealm, kNonce, kUri] at hl; subst hl; decide
  cnonce := fun _ l hl => by simp [canonLv, cred, kNc, kUsername, kRealm, kNonce, kUri, kCnonce] at hl; subst hl; decide
  uri := fun l hl => by simp [canonLv, cred, kUsername, kRealm, kNonce, kUri] at hl; subst hl; decide
  nonce := fun l hl => by simp [canonLv, cred, kUsername, kRealm, kNonce] at hl; subst hl; decide
  response := fun l hl => by
    simp [canonLv, cred, kNc, kUsername, kRealm, kNonce, kUri, kCnonce, kQop, kResponse] at hl
    subst hl; rw [binToHex_length, respBin_len]; decide
  ext := fun e he => by cases he

/-- a valid credential is accepted, and its count is then spent -/
theorem accepted : (expectedClass cfg tbl 6000 req call 90 1000 cred (canonLv cred)).2 = .ok :=
  ok_of_valid cfg tbl 6000 req call 90 1000 cred (canonLv cred) (lenSem_canon cred rfl) .md5 10 nonce 5000 limits valid
end Ex

end Mhd.Dauth
