/-
  Tokens of well-formed `application/x-www-form-urlencoded` text and the byte-level facts
  about them that the proofs about `process_value` need:
  decoding of token lists, cutting a byte prefix into whole tokens plus a partial escape,
  and what the "escape at the end of the staging buffer" test of `process_value` finds.
-/
import Mhd.Model.PP
namespace Mhd.PP


/-- a token of well-formed urlencoded text -/
inductive Tok
  | lit (c : UInt8)
  | esc (a b : UInt8)
  deriving DecidableEq, Repr

def isHex (c : UInt8) : Bool := (hexVal c).isSome

def Tok.raw : Tok → Bytes
  | .lit c => [c]
  | .esc a b => [cPct, a, b]

/-- literal bytes that stand for themselves (or, for '+', a space) -/
def litOk (c : UInt8) : Bool :=
  c != 0 && c != cPct && c != cAmp && c != cEq && c != cCR && c != cLF

def Tok.ok : Tok → Bool
  | .lit c => litOk c
  | .esc a b => isHex a && isHex b

def Tok.dec : Tok → UInt8
  | .lit c => if c = cPlus then cSp else c
  | .esc a b => UInt8.ofNat ((hexVal a).getD 0 * 16 + (hexVal b).getD 0)

def rawOf (ts : List Tok) : Bytes := (ts.map Tok.raw).flatten
def decOf (ts : List Tok) : Bytes := ts.map Tok.dec

@[simp] theorem rawOf_nil : rawOf [] = [] := rfl
@[simp] theorem rawOf_cons (t : Tok) (ts) : rawOf (t :: ts) = t.raw ++ rawOf ts := by simp [rawOf]
@[simp] theorem rawOf_append (a b : List Tok) : rawOf (a ++ b) = rawOf a ++ rawOf b := by simp [rawOf]
@[simp] theorem decOf_nil : decOf [] = [] := rfl
@[simp] theorem decOf_cons (t : Tok) (ts) : decOf (t :: ts) = t.dec :: decOf ts := rfl
@[simp] theorem decOf_append (a b : List Tok) : decOf (a ++ b) = decOf a ++ decOf b := by simp [decOf]

def AllOk (ts : List Tok) : Prop := ∀ t ∈ ts, t.ok = true

theorem hex_ne_zero {c : UInt8} (h : isHex c = true) : c ≠ 0 := by
  intro hc; subst hc; simp [isHex, hexVal] at h

theorem hex_ne_pct {c : UInt8} (h : isHex c = true) : c ≠ cPct := by
  intro hc; subst hc; simp [isHex, hexVal, cPct] at h

theorem hex_ne_plus {c : UInt8} (h : isHex c = true) : c ≠ cPlus := by
  intro hc; subst hc; simp [isHex, hexVal, cPlus] at h

theorem raw_no_zero (ts : List Tok) (h : AllOk ts) : ∀ c ∈ rawOf ts, c ≠ 0 := by
  induction ts with
  | nil => simp
  | cons t ts ih =>
    intro c hc
    simp only [rawOf_cons, List.mem_append] at hc
    have ht : t.ok = true := h t (by simp)
    rcases hc with hc | hc
    · cases t with
      | lit x =>
        simp [Tok.raw] at hc; subst hc
        simp [Tok.ok, litOk] at ht; exact ht.1.1.1.1.1
      | esc a b =>
        simp [Tok.raw] at hc
        simp [Tok.ok] at ht
        rcases hc with hc | hc | hc
        · subst hc; simp [cPct]
        · subst hc; exact hex_ne_zero ht.1
        · subst hc; exact hex_ne_zero ht.2
    · exact ih (fun t ht => h t (by simp [ht])) c hc

theorem cstr_of_no_zero (l : Bytes) (h : ∀ c ∈ l, c ≠ 0) : cstr l = l := by
  simp only [cstr]
  induction l with
  | nil => rfl
  | cons x t ih =>
    have hx : x ≠ 0 := h x (by simp)
    have ih' := ih (fun c hc => h c (by simp [hc]))
    simp only [List.takeWhile_cons, hx, ne_eq, not_false_eq_true, decide_true, if_true]
    rw [ih']

theorem pd_lit (c : UInt8) (r : Bytes) (h : c ≠ cPct) : pctDecode (c :: r) = c :: pctDecode r := by
  rw [pctDecode.eq_def]; simp [h]

theorem pd_esc (a b : UInt8) (r : Bytes) (x y : Nat) (ha : hexVal a = some x) (hb : hexVal b = some y) :
    pctDecode (cPct :: a :: b :: r) = UInt8.ofNat (x * 16 + y) :: pctDecode r := by
  rw [pctDecode.eq_def]; simp [ha, hb]

theorem plusSp_cons (c : UInt8) (r : Bytes) : plusSp (c :: r) = (if c = cPlus then cSp else c) :: plusSp r := rfl

theorem pctDecode_plusSp_raw (ts : List Tok) (h : AllOk ts) :
    pctDecode (plusSp (rawOf ts)) = decOf ts := by
  induction ts with
  | nil => simp [plusSp, pctDecode]
  | cons t ts ih =>
    have ht : t.ok = true := h t (by simp)
    have ih' := ih (fun t ht => h t (by simp [ht]))
    cases t with
    | lit c =>
      simp [Tok.ok, litOk] at ht
      have hc : c ≠ cPct := ht.1.1.1.1.2
      simp only [rawOf_cons, Tok.raw, List.singleton_append, plusSp_cons, decOf_cons, Tok.dec]
      by_cases hp : c = cPlus
      · simp only [hp, if_true]
        rw [pd_lit _ _ (by decide), ih']
      · simp only [hp, if_false]
        rw [pd_lit _ _ hc, ih']
    | esc a b =>
      simp [Tok.ok] at ht
      obtain ⟨ha, hb⟩ := ht
      have ha' := hex_ne_plus ha
      have hb' := hex_ne_plus hb
      simp only [isHex, Option.isSome_iff_exists] at ha hb
      obtain ⟨x, hx⟩ := ha
      obtain ⟨y, hy⟩ := hb
      have hpp : cPct ≠ cPlus := by decide
      simp only [rawOf_cons, Tok.raw, List.cons_append, List.nil_append, plusSp_cons, hpp, ha', hb', if_false,
        decOf_cons, Tok.dec, hx, hy, Option.getD_some]
      rw [pd_esc a b _ x y hx hy, ih']

theorem unescape_raw (ts : List Tok) (h : AllOk ts) : unescape (rawOf ts) = decOf ts := by
  rw [unescape, cstr_of_no_zero _ (raw_no_zero ts h), pctDecode_plusSp_raw ts h]



/-- `p` is the part already received of the first token of `ts` (possibly nothing) -/
def Carry (p : Bytes) (ts : List Tok) : Prop :=
  p = [] ∨ ∃ t rest q, ts = t :: rest ∧ t.raw = p ++ q ∧ q ≠ []

theorem AllOk.tail {t : Tok} {ts : List Tok} (h : AllOk (t :: ts)) : AllOk ts :=
  fun x hx => h x (by simp [hx])
theorem AllOk.head {t : Tok} {ts : List Tok} (h : AllOk (t :: ts)) : t.ok = true := h t (by simp)
theorem AllOk.append_left {a b : List Tok} (h : AllOk (a ++ b)) : AllOk a :=
  fun x hx => h x (by simp [hx])
theorem AllOk.append_right {a b : List Tok} (h : AllOk (a ++ b)) : AllOk b :=
  fun x hx => h x (by simp [hx])

/-- every byte prefix of well-formed text is a list of whole tokens plus the beginning of the next -/
theorem cut (ts : List Tok) : ∀ (X W : Bytes), rawOf ts = X ++ W →
    ∃ ts1 ts2 p, ts = ts1 ++ ts2 ∧ X = rawOf ts1 ++ p ∧ Carry p ts2 ∧ rawOf ts2 = p ++ W := by
  induction ts with
  | nil =>
    intro X W h
    simp at h
    exact ⟨[], [], [], by simp, by simp [h.1], Or.inl rfl, by simp [h.2]⟩
  | cons t ts ih =>
    intro X W h
    rw [rawOf_cons] at h
    rcases List.append_eq_append_iff.mp h with ⟨a', h1, h2⟩ | ⟨c', h1, h2⟩
    · -- X = t.raw ++ a', rawOf ts = a' ++ W
      obtain ⟨ts1, ts2, p, e1, e2, e3, e4⟩ := ih a' W h2
      exact ⟨t :: ts1, ts2, p, by simp [e1], by simp [h1, e2], e3, e4⟩
    · -- t.raw = X ++ c', W = c' ++ rawOf ts
      by_cases hc : c' = []
      · subst hc
        simp at h1 h2
        obtain ⟨ts1, ts2, p, e1, e2, e3, e4⟩ := ih [] W (by simp [h2])
        exact ⟨t :: ts1, ts2, p, by simp [e1], by simp [h1, e2], e3, e4⟩
      · exact ⟨[], t :: ts, X, by simp, by simp, Or.inr ⟨t, ts, c', rfl, h1, hc⟩, by simp [h1, h2]⟩

theorem carry_forms {p : Bytes} {ts : List Tok} (hc : Carry p ts) (hok : AllOk ts) :
    p = [] ∨ p = [cPct] ∨ ∃ a, isHex a = true ∧ p = [cPct, a] := by
  rcases hc with h | ⟨t, rest, q, rfl, hr, hq⟩
  · exact Or.inl h
  · have ht := hok.head
    cases t with
    | lit c =>
      simp [Tok.raw] at hr
      rcases List.singleton_eq_append_iff.mp hr with ⟨h1, h2⟩ | ⟨h1, h2⟩
      · exact Or.inl h1
      · exact absurd h2 hq
    | esc a b =>
      simp [Tok.ok] at ht
      simp only [Tok.raw] at hr
      match p, hr with
      | [], _ => exact Or.inl rfl
      | [x], hr => simp at hr; right; left; simp [hr.1]
      | [x, y], hr => simp at hr; right; right; exact ⟨a, ht.1, by simp [hr.1, hr.2.1]⟩
      | [x, y, z], hr => simp at hr; exact absurd hr.2.2.2 hq
      | x :: y :: z :: w :: r, hr => simp at hr

theorem rev_ind {α : Type} {P : List α → Prop} (h0 : P []) (h1 : ∀ l a, P l → P (l ++ [a])) : ∀ l, P l := by
  intro l
  have : ∀ r : List α, P r.reverse := by
    intro r
    induction r with
    | nil => simpa using h0
    | cons a r ih => simpa using h1 _ a ih
  simpa using this l.reverse

theorem raw_last_ne_pct (ts : List Tok) (hok : AllOk ts) (A : Bytes) (c : UInt8)
    (h : rawOf ts = A ++ [c]) : c ≠ cPct := by
  revert A c
  refine rev_ind (P := fun ts => AllOk ts → ∀ A c, rawOf ts = A ++ [c] → c ≠ cPct) ?_ ?_ ts hok
  · intro _ A c h; simp at h
  · intro ts t _ hok A c h
    have ht : t.ok = true := hok t (by simp)
    rw [rawOf_append] at h
    cases t with
    | lit x =>
      simp [Tok.raw] at h
      rw [← h.2]
      simp [Tok.ok, litOk] at ht; exact ht.1.1.1.1.2
    | esc a b =>
      simp [Tok.raw] at h
      have e : rawOf ts ++ [cPct, a] ++ [b] = A ++ [c] := by simpa using h
      have := List.append_inj_right' e (by simp)
      simp at this; subst this
      simp [Tok.ok] at ht; exact hex_ne_pct ht.2

theorem raw_last2_ne_pct (ts : List Tok) (hok : AllOk ts) (A : Bytes) (b c : UInt8)
    (h : rawOf ts = A ++ [b, c]) : b ≠ cPct := by
  revert A b c
  refine rev_ind (P := fun ts => AllOk ts → ∀ A b c, rawOf ts = A ++ [b, c] → b ≠ cPct) ?_ ?_ ts hok
  · intro _ A b c h; simp at h
  · intro ts t _ hok A b c h
    have ht : t.ok = true := hok t (by simp)
    rw [rawOf_append] at h
    cases t with
    | lit x =>
      simp [Tok.raw] at h
      have e : rawOf ts ++ [x] = (A ++ [b]) ++ [c] := by simpa using h
      have e1 := List.append_inj_left' e (by simp)
      exact raw_last_ne_pct ts hok.append_left A b e1
    | esc a' b' =>
      simp [Tok.raw] at h
      have e : (rawOf ts ++ [cPct]) ++ [a', b'] = A ++ [b, c] := by simpa using h
      have := List.append_inj_right' e (by simp)
      simp at this
      simp [Tok.ok] at ht
      rw [← this.1]; exact hex_ne_pct ht.1



theorem escTail_pct (A : Bytes) :
    escTail (A ++ [cPct]) = (A.length, (A.length + 1 != XBUF), if (A.length + 1 != XBUF) then 0 else 1) := by
  simp [escTail]

theorem escTail_pct2 (A : Bytes) (a : UInt8) (ha : a ≠ cPct) :
    escTail (A ++ [cPct, a]) = (A.length, (A.length + 2 != XBUF), if (A.length + 2 != XBUF) then 0 else 2) := by
  have e : A ++ [cPct, a] = (A ++ [cPct]) ++ [a] := by simp
  simp only [escTail]
  have h1 : (A ++ [cPct, a])[(A ++ [cPct, a]).length - 1]? = some a := by
    rw [e]; simp
  have h2 : (A ++ [cPct, a])[(A ++ [cPct, a]).length - 2]? = some cPct := by
    simp
  simp [ha]

theorem split_last {X : Bytes} {x : UInt8} (hx : X[X.length - 1]? = some x) (hl : X.length > 0) :
    X = X.dropLast ++ [x] := by
  have hne : X ≠ [] := by intro h; subst h; simp at hl
  have h1 := List.dropLast_concat_getLast hne
  have h2 : X.getLast hne = x := by
    rw [List.getLast_eq_getElem]
    have : X.length - 1 < X.length := by omega
    rw [List.getElem?_eq_getElem this] at hx
    exact Option.some.inj hx
  rw [h2] at h1
  exact h1.symm

theorem escTail_none (X : Bytes) (h1 : ∀ A c, X = A ++ [c] → c ≠ cPct)
    (h2 : ∀ A b c, X = A ++ [b, c] → b ≠ cPct) : escTail X = (X.length, false, 0) := by
  simp only [escTail]
  have n1 : ¬ (X.length > 0 ∧ X[X.length - 1]? = some cPct) := by
    rintro ⟨hl, hx⟩
    exact h1 _ _ (split_last hx hl) rfl
  have n2 : ¬ (X.length > 1 ∧ X[X.length - 2]? = some cPct) := by
    rintro ⟨hl, hx⟩
    have hlt : X.length - 1 < X.length := by omega
    have e1 : X = X.dropLast ++ [X[X.length - 1]] := split_last (List.getElem?_eq_getElem hlt) (by omega)
    have hl2 : X.dropLast.length = X.length - 1 := by simp
    have hx' : X.dropLast[X.dropLast.length - 1]? = some cPct := by
      rw [hl2, List.getElem?_dropLast]
      have : X.length - 1 - 1 = X.length - 2 := by omega
      rw [this]
      simp [hx]; omega
    have e2 : X.dropLast = X.dropLast.dropLast ++ [cPct] := split_last hx' (by rw [hl2]; omega)
    have : X = X.dropLast.dropLast ++ [cPct, X[X.length - 1]] := by
      conv => lhs; rw [e1, e2]
      simp
    exact h2 _ _ _ this rfl
  simp [n1, n2]

end Mhd.PP
