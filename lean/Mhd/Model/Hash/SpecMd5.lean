/-
  MD5 written from RFC 1321 (April 1992): §2 (terminology: little-endian words, X <<< s),
  §3.1–3.2 (padding, length), §3.3 (MD buffer), §3.4 (processing in 16-word blocks), §3.5 (output).
  Part of the trusted base of C16.  Core Lean only.
-/
import Mhd.Model.Hash.MD

namespace Mhd.Hash.Spec.Md5

/-- §2: X <<< s, circular left shift by s bit positions (0 < s < 32) -/
def rotl (s : Nat) (x : UInt32) : UInt32 := (x <<< s.toUInt32) ||| (x >>> (32 - s).toUInt32)

/-- §3.4 auxiliary functions -/
def F (x y z : UInt32) : UInt32 := (x &&& y) ||| (~~~x &&& z)
def G (x y z : UInt32) : UInt32 := (x &&& z) ||| (y &&& ~~~z)
def H (x y z : UInt32) : UInt32 := x ^^^ y ^^^ z
def I (x y z : UInt32) : UInt32 := y ^^^ (x ||| ~~~z)

/-- §3.4: T[i] = integer part of 4294967296 · |sin i|, i = 1..64 (here 0-based) -/
def T : List UInt32 :=
  [0xd76aa478, 0xe8c7b756, 0x242070db, 0xc1bdceee, 0xf57c0faf, 0x4787c62a, 0xa8304613, 0xfd469501,
   0x698098d8, 0x8b44f7af, 0xffff5bb1, 0x895cd7be, 0x6b901122, 0xfd987193, 0xa679438e, 0x49b40821,
   0xf61e2562, 0xc040b340, 0x265e5a51, 0xe9b6c7aa, 0xd62f105d, 0x02441453, 0xd8a1e681, 0xe7d3fbc8,
   0x21e1cde6, 0xc33707d6, 0xf4d50d87, 0x455a14ed, 0xa9e3e905, 0xfcefa3f8, 0x676f02d9, 0x8d2a4c8a,
   0xfffa3942, 0x8771f681, 0x6d9d6122, 0xfde5380c, 0xa4beea44, 0x4bdecfa9, 0xf6bb4b60, 0xbebfbc70,
   0x289b7ec6, 0xeaa127fa, 0xd4ef3085, 0x04881d05, 0xd9d4d039, 0xe6db99e5, 0x1fa27cf8, 0xc4ac5665,
   0xf4292244, 0x432aff97, 0xab9423a7, 0xfc93a039, 0x655b59c3, 0x8f0ccc92, 0xffeff47d, 0x85845dd1,
   0x6fa87e4f, 0xfe2ce6e0, 0xa3014314, 0x4e0811a1, 0xf7537e82, 0xbd3af235, 0x2ad7d2bb, 0xeb86d391]

/-- §3.4: the word index k of the 64 operations [abcd k s i], as listed for rounds 1–4 -/
def K : List Nat :=
  [0, 1, 2, 3, 4, 5, 6, 7, 8, 9, 10, 11, 12, 13, 14, 15,
   1, 6, 11, 0, 5, 10, 15, 4, 9, 14, 3, 8, 13, 2, 7, 12,
   5, 8, 11, 14, 1, 4, 7, 10, 13, 0, 3, 6, 9, 12, 15, 2,
   0, 7, 14, 5, 12, 3, 10, 1, 8, 15, 6, 13, 4, 11, 2, 9]

/-- §3.4: the shift amount s of the 64 operations -/
def S : List Nat :=
  [7, 12, 17, 22, 7, 12, 17, 22, 7, 12, 17, 22, 7, 12, 17, 22,
   5, 9, 14, 20, 5, 9, 14, 20, 5, 9, 14, 20, 5, 9, 14, 20,
   4, 11, 16, 23, 4, 11, 16, 23, 4, 11, 16, 23, 4, 11, 16, 23,
   6, 10, 15, 21, 6, 10, 15, 21, 6, 10, 15, 21, 6, 10, 15, 21]

/-- the auxiliary function of operation i (round 1: F, 2: G, 3: H, 4: I) -/
def aux (i : Nat) : UInt32 → UInt32 → UInt32 → UInt32 :=
  if i < 16 then F else if i < 32 then G else if i < 48 then H else I

/-- §3.3 -/
def IV : R4 UInt32 := ⟨0x67452301, 0xefcdab89, 0x98badcfe, 0x10325476⟩

/-- §3.4: operation number i (0-based), "[abcd k s i]: a = b + ((a + f(b,c,d) + X[k] + T[i]) <<< s)".
    The RFC lists the operations with the register names cycling ABCD, DABC, CDAB, BCDA;
    equivalently the four values rotate one place after each operation. -/
def op (X : List UInt32) (r : R4 UInt32) (i : Nat) : R4 UInt32 :=
  let a' := r.b + rotl (S.getD i 0) (r.a + aux i r.b r.c r.d + X.getD (K.getD i 0) 0 + T.getD i 0)
  ⟨r.d, a', r.b, r.c⟩

/-- §3.4: one 16-word block (§2: words are little-endian) -/
def compress (Hc : R4 UInt32) (blk : List UInt8) : R4 UInt32 :=
  let X := wordsLE32 blk
  let r := (List.range 64).foldl (op X) Hc
  ⟨Hc.a + r.a, Hc.b + r.b, Hc.c + r.c, Hc.d + r.d⟩

/-- §3.2: the 64-bit length in bits, low-order word first, each word low-order byte first;
    "only the low-order 64 bits of b are used" -/
def lenField (n : Nat) : List UInt8 := bytesLE64 (UInt64.ofNat (8 * n))

/-- §3.5: A, B, C, D, beginning with the low-order byte of A -/
def out (Hc : R4 UInt32) : List UInt8 :=
  bytesLE32 Hc.a ++ bytesLE32 Hc.b ++ bytesLE32 Hc.c ++ bytesLE32 Hc.d

def spec : Spec.Hash (R4 UInt32) :=
  { B := 64, L := 8, iv := IV, compress := compress, lenField := lenField, out := out }

/-- MD5 of a message -/
def hash (msg : List UInt8) : List UInt8 := spec.hash msg

end Mhd.Hash.Spec.Md5
