/-
  The block-iterated ("Merkle–Damgård") frame shared by MD5 (RFC 1321 §3.1–3.4) and the
  SHA family (FIPS 180-4 §5.1, §5.2, §6):

    Spec  – pad the message, cut it into blocks, fold the compression function.
    Impl  – the incremental shape of md5.c / sha1.c / sha256.c / sha512_256.c:
            `init`, `update` (three-phase buffering), `finish` (one-or-two-block
            padding, length field, context wipe).  The four C files contain the
            same update/finish text up to the block size, the length-field size
            and (SHA-512/256) the split bit counter; they are modelled by one
            function parameterised by `Alg`.
  Core Lean only.
-/
import Mhd.Model.Hash.Common

namespace Mhd.Hash

/-- consecutive `B`-byte blocks of `xs` (an incomplete tail is dropped) -/
def blocks (B : Nat) (xs : List UInt8) : List (List UInt8) :=
  let blk := xs.take B
  if _h : 0 < B ∧ blk.length = B then blk :: blocks B (xs.drop B) else []
termination_by xs.length
decreasing_by
  have := _h.2
  simp only [List.length_take, blk] at this
  simp only [List.length_drop]; omega

namespace Spec

/-- number of zero *bytes* of padding: the smallest `k ≥ 0` with
    `n + 1 + k + L ≡ 0 (mod B)`  (FIPS 180-4 §5.1.1/§5.1.2, RFC 1321 §3.1, in bytes:
    the mandatory `1` bit and the first seven `0` bits are the byte `0x80`) -/
def padZeros (B L n : Nat) : Nat := (B - (n + 1 + L) % B) % B

/-- a block-iterated hash function as the standards define it -/
structure Hash (S : Type) where
  /-- block size in bytes -/
  B : Nat
  /-- size of the length field in bytes -/
  L : Nat
  /-- initial hash value -/
  iv : S
  /-- compression function: chaining value, one `B`-byte block -/
  compress : S → List UInt8 → S
  /-- the `L`-byte field holding the message length in *bits*, from the length in bytes -/
  lenField : Nat → List UInt8
  /-- the digest bytes of the final chaining value -/
  out : S → List UInt8

/-- padded message: `M ‖ 0x80 ‖ 0^k ‖ len` -/
def Hash.pad (h : Hash S) (msg : List UInt8) : List UInt8 :=
  msg ++ [0x80] ++ List.replicate (padZeros h.B h.L msg.length) 0 ++ h.lenField msg.length

/-- the hash of a complete message -/
def Hash.hash (h : Hash S) (msg : List UInt8) : List UInt8 :=
  h.out ((blocks h.B (h.pad msg)).foldl h.compress h.iv)

end Spec

/-! ## Implementation shape -/

/-- what distinguishes the four C files -/
structure Alg (S : Type) where
  /-- `*_BLOCK_SIZE` -/
  B : Nat
  /-- `*_SIZE_OF_LEN_ADD` -/
  L : Nat
  /-- alignment the transform wants for its data pointer (`_MHD_UINT32_ALIGN` / `_MHD_UINT64_ALIGN`) -/
  align : Nat
  /-- values stored by `*_init` -/
  iv : S
  /-- all-zero chaining value (after the wipe in `*_finish`) -/
  zero : S
  /-- `*_transform (H, data)`; the flag says that the data pointer is misaligned -/
  transform : Bool → S → List UInt8 → Except Fault S
  /-- the byte-counter update at the top of `*_update`: count, count_bits_hi, length ↦ new pair -/
  bump : Nat → Nat → Nat → Nat × Nat
  /-- the length field stored by `*_finish` from count_bits_hi and `num_bits` -/
  putLen : Nat → Nat → List UInt8
  /-- the digest bytes stored by `*_finish` from `H[]` -/
  digest : S → List UInt8

/-- `struct Md5Ctx` / `sha1_ctx` / `Sha256Ctx` / `Sha512_256Ctx` -/
structure Ctx (S : Type) where
  H : S
  /-- always `B` bytes -/
  buffer : List UInt8
  /-- `uint64_t count` -/
  count : Nat
  /-- `uint64_t count_bits_hi` (SHA-512/256 only, otherwise 0) -/
  countHi : Nat
  deriving Repr, DecidableEq

def liftO (f : Fault) : Option α → Except Fault α
  | some a => .ok a
  | none => .error f

/-- `x - y` as C computes it on `unsigned int` operands (both `< 2^32`): wraps when `y > x` -/
def usub (x y : Nat) : Nat := if y ≤ x then x - y else x + 4294967296 - y

variable {S : Type}

/-- `*_init`: stores the initial hash value and zeroes the counters; the buffer is not touched -/
def init (A : Alg S) (c : Ctx S) : Ctx S :=
  { c with H := A.iv, count := 0, countHi := 0 }

/-- one call of the transform through a data pointer that has `src` behind it -/
def callTransform (A : Alg S) (mis : Bool) (H : S) (src : List UInt8) : Except Fault S :=
  match readBlock src A.B with
  | none => .error .blockRead
  | some blk => A.transform mis H blk

/-- the `while (BLOCK_SIZE <= length)` loop of `*_update`: full blocks straight from the
    caller's data (`data += BLOCK_SIZE; length -= BLOCK_SIZE`) -/
def blocksLoop (A : Alg S) (addr : Nat) (H : S) (data : List UInt8) (length : Nat) :
    Except Fault (S × List UInt8 × Nat) :=
  if _h : 0 < A.B ∧ A.B ≤ length then
    match callTransform A (addr % A.align != 0) H data with
    | .error e => .error e
    | .ok H' => blocksLoop A (addr + A.B) H' (data.drop A.B) (length - A.B)
  else .ok (H, data, length)
termination_by length
decreasing_by omega

/-- first phase of `*_update`: top up a partly filled buffer and process it.
    Result: H, buffer, bytes_have, data address, data, length -/
def phase1 (A : Alg S) (H : S) (buffer : List UInt8) (bytesHave : Nat) (addr : Nat)
    (data : List UInt8) (length : Nat) :
    Except Fault (S × List UInt8 × Nat × Nat × List UInt8 × Nat) :=
  if bytesHave ≠ 0 then
    let bytesLeft := usub A.B bytesHave
    if length ≥ bytesLeft then
      match readBlock data bytesLeft with
      | none => .error .blockRead
      | some part =>
        match bufWrite buffer bytesHave part with
        | none => .error .bufWrite
        | some buf =>
          match callTransform A false H buf with
          | .error e => .error e
          | .ok H' => .ok (H', buf, 0, addr + bytesLeft, data.drop bytesLeft, length - bytesLeft)
    else .ok (H, buffer, bytesHave, addr, data, length)
  else .ok (H, buffer, bytesHave, addr, data, length)

/-- last phase of `*_update`: keep the incomplete tail in the buffer -/
def phase3 (buffer : List UInt8) (bytesHave : Nat) (data : List UInt8) (length : Nat) :
    Except Fault (List UInt8) :=
  if length ≠ 0 then
    match readBlock data length with
    | none => .error .blockRead
    | some part => liftO .bufWrite (bufWrite buffer bytesHave part)
  else .ok buffer

/-- `*_update (ctx, data, length)` with `length = |data|`; `addr` is the numeric value of
    the pointer `data` (only its alignment is looked at) -/
def update (A : Alg S) (c : Ctx S) (addr : Nat) (data : List UInt8) : Except Fault (Ctx S) :=
  let length := data.length
  if length = 0 then .ok c   -- shortcut, do nothing
  else
    let bytesHave := c.count % A.B
    let cnt := A.bump c.count c.countHi length
    match phase1 A c.H c.buffer bytesHave addr data length with
    | .error e => .error e
    | .ok (H1, buf1, bytesHave1, addr1, data1, length1) =>
      match blocksLoop A addr1 H1 data1 length1 with
      | .error e => .error e
      | .ok (H2, data2, length2) =>
        match phase3 buf1 bytesHave1 data2 length2 with
        | .error e => .error e
        | .ok buf3 => .ok { H := H2, buffer := buf3, count := cnt.1, countHi := cnt.2 }

/-- the "no space for the length in the current block" branch of `*_finish` -/
def finishSpill (A : Alg S) (H : S) (buf : List UInt8) (bytesHave : Nat) :
    Except Fault (S × List UInt8 × Nat) :=
  if usub A.B bytesHave < A.L then
    match (if bytesHave < A.B then bufFill buf bytesHave (usub A.B bytesHave) else some buf) with
    | none => .error .bufFill
    | some buf' =>
      match callTransform A false H buf' with
      | .error e => .error e
      | .ok H' => .ok (H', buf', 0)
  else .ok (H, buf, bytesHave)

/-- the context after the final `memset (ctx, 0, sizeof …)` -/
def wiped (A : Alg S) : Ctx S :=
  { H := A.zero, buffer := List.replicate A.B 0, count := 0, countHi := 0 }

/-- the body of `*_finish` after `num_bits` and `bytes_have` have been computed;
    `lenBytes` is what `_MHD_PUT_64BIT_xx (…, num_bits)` stores -/
def finishCore (A : Alg S) (H : S) (buffer : List UInt8) (bytesHave : Nat) (lenBytes : List UInt8) :
    Except Fault (List UInt8 × Ctx S) :=
  -- ((uint8_t *) ctx->buffer)[bytes_have++] = 0x80;
  match bufWrite buffer bytesHave [0x80] with
  | none => .error .bufWrite
  | some buf1 =>
    match finishSpill A H buf1 (bytesHave + 1) with
    | .error e => .error e
    | .ok (H2, buf2, bytesHave2) =>
      -- memset (buffer + bytes_have, 0, BLOCK_SIZE - SIZE_OF_LEN_ADD - bytes_have);
      match bufFill buf2 bytesHave2 (usub (A.B - A.L) bytesHave2) with
      | none => .error .bufFill
      | some buf3 =>
        match bufWrite buf3 (A.B - A.L) lenBytes with
        | none => .error .bufWrite
        | some buf4 =>
          match callTransform A false H2 buf4 with
          | .error e => .error e
          | .ok H3 => .ok (A.digest H3, wiped A)

/-- `*_finish (ctx, digest)`: digest and the (wiped) context -/
def finish (A : Alg S) (c : Ctx S) : Except Fault (List UInt8 × Ctx S) :=
  let numBits := (c.count * 8) % 2 ^ 64          -- count << 3
  let bytesHave := c.count % A.B
  finishCore A c.H c.buffer bytesHave (A.putLen c.countHi numBits)

/-- feed a list of (address, chunk) pairs -/
def feed (A : Alg S) (c : Ctx S) : List (Nat × List UInt8) → Except Fault (Ctx S)
  | [] => .ok c
  | (addr, d) :: rest =>
    match update A c addr d with
    | .error e => .error e
    | .ok c' => feed A c' rest

/-- `init`, every chunk through `update`, `finish` -/
def run (A : Alg S) (c : Ctx S) (chunks : List (Nat × List UInt8)) : Except Fault (List UInt8 × Ctx S) :=
  match feed A (init A c) chunks with
  | .error e => .error e
  | .ok c' => finish A c'

/-- the counter update of md5.c / sha1.c / sha256.c: `ctx->count += length` -/
def bump64 (count _hi length : Nat) : Nat × Nat := ((count + length) % 2 ^ 64, 0)

end Mhd.Hash
