/-
  Model of src/microhttpd/sha1.c and of the second copy src/microhttpd_ws/sha1.c
  (same text up to casts): `sha1_transform` as the unrolled sequence of `SHA1STEP32`
  invocations recorded in `Mhd.Gen.Hash.sha1Steps` / `wsSha1Steps`.
-/
import Mhd.Gen.Hash
import Mhd.Model.Hash.MD

namespace Mhd.Hash.Sha1
open Mhd.Gen.Hash

/-- `_MHD_ROTL32` (inline-function variant) -/
def rotl32 (x : UInt32) (bits : Nat) : UInt32 :=
  let bits := bits % 32
  if bits = 0 then x else (x <<< bits.toUInt32) ||| (x >>> (32 - bits).toUInt32)

def Ch (x y z : UInt32) : UInt32 := z ^^^ (x &&& (y ^^^ z))
def Maj (x y z : UInt32) : UInt32 := (x &&& y) ^^^ (z &&& (x ^^^ y))
def Par (x y z : UInt32) : UInt32 := x ^^^ y ^^^ z

/-- the `ft` argument of a step: 0 = Ch, 1 = Par, 2 = Maj -/
def ftOf (k : Nat) : UInt32 → UInt32 → UInt32 → UInt32 :=
  if k = 0 then Ch else if k = 1 then Par else Maj

/-- `Wgen (w, t)` on the 16-word cyclic buffer -/
def wgen (w : Array UInt32) (t : Nat) : UInt32 :=
  rotl32 (w.getD ((t + 13) % 16) 0 ^^^ w.getD ((t + 8) % 16) 0 ^^^ w.getD ((t + 2) % 16) 0
    ^^^ w.getD (t % 16) 0) 1

structure TS where
  v : R5 UInt32
  w : Array UInt32
  ok : Bool

/-- (regs vA..vE, f, K, dst, kind, arg) -/
abbrev Row := List Nat × Nat × Nat × Nat × Nat × Nat

def rowOK : Row → Bool
  | (regs, fk, _k, dst, kind, arg) =>
    regs.length == 5 && regs.all (· < 5) && fk < 3 && dst < 16 &&
    ((kind == 0 && arg < 16) || (kind == 1 && 16 ≤ arg))

/-- one `SHA1STEP32 (vA,vB,vC,vD,vE, ft, kt, W[dst] = …)` -/
def step (blk : List UInt8) (s : TS) (row : Row) : TS :=
  if !rowOK row then { s with ok := false } else
  match row with
  | ([iA, iB, iC, iD, iE], fk, k, dst, kind, arg) =>
    let wt := if kind = 0 then getBE32 blk arg else wgen s.w arg
    let w' := s.w.setIfInBounds dst wt
    let v := s.v
    -- (vE) += _MHD_ROTL32 ((vA), 5) + ft ((vB), (vC), (vD)) + (kt) + (wt);
    let v := v.set iE (v.get iE + (rotl32 (v.get iA) 5 + ftOf fk (v.get iB) (v.get iC) (v.get iD) + k.toUInt32 + wt))
    -- (vB) = _MHD_ROTL32 ((vB), 30);
    let v := v.set iB (rotl32 (v.get iB) 30)
    { v := v, w := w', ok := s.ok }
  | _ => { s with ok := false }

/-- `sha1_transform (H, data)` over a given pair of recorded tables -/
def transformWith (tbl tblMis : List Row) (mis : Bool) (H : R5 UInt32) (blk : List UInt8) :
    Except Fault (R5 UInt32) :=
  let t := if mis then tblMis else tbl
  let s := t.foldl (step blk) { v := H, w := Array.replicate 16 0, ok := true }
  if s.ok then .ok ⟨H.a + s.v.a, H.b + s.v.b, H.c + s.v.c, H.d + s.v.d, H.e + s.v.e⟩
  else .error .table

def ivOf (l : List Nat) : R5 UInt32 :=
  ⟨(l.getD 0 0).toUInt32, (l.getD 1 0).toUInt32, (l.getD 2 0).toUInt32, (l.getD 3 0).toUInt32,
   (l.getD 4 0).toUInt32⟩

/-- `_MHD_PUT_32BIT_BE` of H[0..4] -/
def digest (H : R5 UInt32) : List UInt8 :=
  bytesBE32 H.a ++ bytesBE32 H.b ++ bytesBE32 H.c ++ bytesBE32 H.d ++ bytesBE32 H.e

def mkAlg (tbl tblMis : List Row) (iv : List Nat) (B L : Nat) : Alg (R5 UInt32) :=
  { B := B, L := L, align := 4,
    iv := ivOf iv, zero := ⟨0, 0, 0, 0, 0⟩,
    transform := transformWith tbl tblMis,
    bump := bump64,
    -- `_MHD_PUT_64BIT_BE_SAFE (…, num_bits)`
    putLen := fun _hi numBits => bytesBE64 (UInt64.ofNat numBits),
    digest := digest }

/-- src/microhttpd/sha1.c -/
def alg : Alg (R5 UInt32) := mkAlg sha1Steps sha1StepsMis sha1IV sha1Block sha1LenAdd

/-- src/microhttpd_ws/sha1.c -/
def wsAlg : Alg (R5 UInt32) := mkAlg wsSha1Steps wsSha1StepsMis wsSha1IV wsSha1Block wsSha1LenAdd

end Mhd.Hash.Sha1
