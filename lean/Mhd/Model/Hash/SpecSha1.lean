/-
  SHA-1 written from FIPS PUB 180-4 (August 2015): §3.2 (ROTL), §4.1.1 (functions), §4.2.1 (constants),
  §5.1.1 (padding), §5.2.1 (parsing), §5.3.1 (initial value), §6.1.2 (computation).
  Part of the trusted base of C16.  Core Lean only.
-/
import Mhd.Model.Hash.MD

namespace Mhd.Hash.Spec.Sha1

/-- §3.2 ROTL^n(x) = (x << n) ∨ (x >> w − n), w = 32 -/
def rotl (n : Nat) (x : UInt32) : UInt32 := (x <<< n.toUInt32) ||| (x >>> (32 - n).toUInt32)

/-- §4.1.1 (4.1) -/
def ch (x y z : UInt32) : UInt32 := (x &&& y) ^^^ (~~~x &&& z)
def parity (x y z : UInt32) : UInt32 := x ^^^ y ^^^ z
def maj (x y z : UInt32) : UInt32 := (x &&& y) ^^^ (x &&& z) ^^^ (y &&& z)

/-- §4.1.1: f_t -/
def f (t : Nat) : UInt32 → UInt32 → UInt32 → UInt32 :=
  if t < 20 then ch else if t < 40 then parity else if t < 60 then maj else parity

/-- §4.2.1: K_t -/
def K (t : Nat) : UInt32 :=
  if t < 20 then 0x5a827999 else if t < 40 then 0x6ed9eba1 else if t < 60 then 0x8f1bbcdc else 0xca62c1d6

/-- §5.3.1 -/
def H0 : R5 UInt32 := ⟨0x67452301, 0xefcdab89, 0x98badcfe, 0x10325476, 0xc3d2e1f0⟩

/-- §6.1.2 step 1: W_t = ROTL^1(W_{t−3} ⊕ W_{t−8} ⊕ W_{t−14} ⊕ W_{t−16})   (t = |W| ≥ 16) -/
def nextW (W : List UInt32) : UInt32 :=
  let t := W.length
  rotl 1 (W.getD (t - 3) 0 ^^^ W.getD (t - 8) 0 ^^^ W.getD (t - 14) 0 ^^^ W.getD (t - 16) 0)

/-- §6.1.2 step 1: W_0..W_15 = M_0..M_15, then 64 more words -/
def schedule (M : List UInt32) : List UInt32 :=
  (List.range 64).foldl (fun W _ => W ++ [nextW W]) M

/-- §6.1.2 step 3, iteration `t` with W_t -/
def round (s : R5 UInt32) (tw : Nat × UInt32) : R5 UInt32 :=
  let T := rotl 5 s.a + f tw.1 s.b s.c s.d + s.e + K tw.1 + tw.2
  ⟨T, s.a, rotl 30 s.b, s.c, s.d⟩

/-- §6.1.2 steps 1–4 for one 512-bit block -/
def compress (H : R5 UInt32) (blk : List UInt8) : R5 UInt32 :=
  let W := schedule (wordsBE32 blk)
  let r := ((List.range 80).zip W).foldl round H
  ⟨r.a + H.a, r.b + H.b, r.c + H.c, r.d + H.d, r.e + H.e⟩

/-- §5.1.1: the 64-bit big-endian bit length (low 64 bits for the impossible ℓ ≥ 2^64) -/
def lenField (n : Nat) : List UInt8 := bytesBE64 (UInt64.ofNat (8 * n))

/-- §6.1.2: the digest is H_0 ‖ … ‖ H_4, big-endian -/
def out (H : R5 UInt32) : List UInt8 :=
  bytesBE32 H.a ++ bytesBE32 H.b ++ bytesBE32 H.c ++ bytesBE32 H.d ++ bytesBE32 H.e

def spec : Spec.Hash (R5 UInt32) :=
  { B := 64, L := 8, iv := H0, compress := compress, lenField := lenField, out := out }

/-- SHA-1 of a message -/
def hash (msg : List UInt8) : List UInt8 := spec.hash msg

end Mhd.Hash.Spec.Sha1
