/-
  Model of src/microhttpd/sha256.c (configured build: !MHD_FAVOR_SMALL_CODE, little-endian):
  `sha256_transform` as the unrolled sequence of `SHA2STEP32` invocations recorded in
  `Mhd.Gen.Hash.sha256Steps` (registers updated in place under rotating names, 16-word
  cyclic schedule buffer), plugged into the common update/finish shape of `MD.lean`.
-/
import Mhd.Gen.Hash
import Mhd.Model.Hash.MD

namespace Mhd.Hash.Sha256
open Mhd.Gen.Hash

/-- `_MHD_ROTR32` (the inline-function variant compiled by gcc) -/
def rotr32 (x : UInt32) (bits : Nat) : UInt32 :=
  let bits := bits % 32
  if bits = 0 then x else (x >>> bits.toUInt32) ||| (x <<< (32 - bits).toUInt32)

def Ch (x y z : UInt32) : UInt32 := z ^^^ (x &&& (y ^^^ z))
def Maj (x y z : UInt32) : UInt32 := (x &&& y) ^^^ (z &&& (x ^^^ y))
def SIG0 (x : UInt32) : UInt32 := rotr32 x 2 ^^^ rotr32 x 13 ^^^ rotr32 x 22
def SIG1 (x : UInt32) : UInt32 := rotr32 x 6 ^^^ rotr32 x 11 ^^^ rotr32 x 25
def sig0 (x : UInt32) : UInt32 := rotr32 x 7 ^^^ rotr32 x 18 ^^^ (x >>> 3)
def sig1 (x : UInt32) : UInt32 := rotr32 x 17 ^^^ rotr32 x 19 ^^^ (x >>> 10)

/-- `Wgen (w, t)` on the 16-word cyclic buffer -/
def wgen (w : Array UInt32) (t : Nat) : UInt32 :=
  w.getD ((t - 16) % 16) 0 + sig1 (w.getD ((t - 2) % 16) 0)
    + w.getD ((t - 7) % 16) 0 + sig0 (w.getD ((t - 15) % 16) 0)

/-- working variables a…h, cyclic buffer W[16], and "the table made sense so far" -/
structure TS where
  v : R8 UInt32
  w : Array UInt32
  ok : Bool

abbrev Row := List Nat × Nat × Nat × Nat × Nat

/-- the row names eight existing registers, an existing W slot, and a legal operand -/
def rowOK : Row → Bool
  | (regs, _k, dst, kind, arg) =>
    regs.length == 8 && regs.all (· < 8) && dst < 16 &&
    ((kind == 0 && arg < 16) || (kind == 1 && 16 ≤ arg))

/-- one `SHA2STEP32 (vA,…,vH, kt, W[dst] = …)` -/
def step (blk : List UInt8) (s : TS) (row : Row) : TS :=
  if !rowOK row then { s with ok := false } else
  match row with
  | ([iA, iB, iC, iD, iE, iF, iG, iH], k, dst, kind, arg) =>
    -- wt: `W[dst] = GET_W_FROM_DATA (data, arg)` or `W[dst] = Wgen (W, arg)`
    let wt := if kind = 0 then getBE32 blk arg else wgen s.w arg
    let w' := s.w.setIfInBounds dst wt
    let v := s.v
    -- (vD) += ((vH) += SIG1 (vE) + Ch (vE,vF,vG) + kt + wt);
    let h1 := v.get iH + (SIG1 (v.get iE) + Ch (v.get iE) (v.get iF) (v.get iG) + k.toUInt32 + wt)
    let v := v.set iH h1
    let v := v.set iD (v.get iD + h1)
    -- (vH) += SIG0 (vA) + Maj (vA,vB,vC);
    let v := v.set iH (v.get iH + (SIG0 (v.get iA) + Maj (v.get iA) (v.get iB) (v.get iC)))
    { v := v, w := w', ok := s.ok }
  | _ => { s with ok := false }

/-- `sha256_transform (H, data)`.  A misaligned `data` is first copied to `W` and read from
    there — the same bytes; which unrolled block then runs is what the two tables record. -/
def transform (mis : Bool) (H : R8 UInt32) (blk : List UInt8) : Except Fault (R8 UInt32) :=
  let tbl := if mis then sha256StepsMis else sha256Steps
  let s := tbl.foldl (step blk) { v := H, w := Array.replicate 16 0, ok := true }
  if s.ok then
    .ok ⟨H.a + s.v.a, H.b + s.v.b, H.c + s.v.c, H.d + s.v.d,
         H.e + s.v.e, H.f + s.v.f, H.g + s.v.g, H.h + s.v.h⟩
  else .error .table

def ivOf (l : List Nat) : R8 UInt32 :=
  ⟨(l.getD 0 0).toUInt32, (l.getD 1 0).toUInt32, (l.getD 2 0).toUInt32, (l.getD 3 0).toUInt32,
   (l.getD 4 0).toUInt32, (l.getD 5 0).toUInt32, (l.getD 6 0).toUInt32, (l.getD 7 0).toUInt32⟩

/-- `_MHD_PUT_32BIT_BE` of H[0..7] -/
def digest (H : R8 UInt32) : List UInt8 :=
  bytesBE32 H.a ++ bytesBE32 H.b ++ bytesBE32 H.c ++ bytesBE32 H.d ++
  bytesBE32 H.e ++ bytesBE32 H.f ++ bytesBE32 H.g ++ bytesBE32 H.h

def alg : Alg (R8 UInt32) :=
  { B := sha256Block, L := sha256LenAdd, align := 4,
    iv := ivOf sha256IV, zero := ⟨0, 0, 0, 0, 0, 0, 0, 0⟩,
    transform := transform,
    bump := bump64,
    -- `_MHD_PUT_64BIT_BE_SAFE (…, num_bits)`
    putLen := fun _hi numBits => bytesBE64 (UInt64.ofNat numBits),
    digest := digest }

end Mhd.Hash.Sha256
