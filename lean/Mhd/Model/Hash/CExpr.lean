/-
  Integer expressions of the C source, as far as they are needed to bound the value that a
  narrowing conversion receives (C16: the model's `length`, `count`, `bytes_have` are natural
  numbers; that is a sound abstraction of `size_t`/`uint64_t`/`unsigned int` only if no conversion
  on their way loses bits).  tools/props/C16.py (`gen_hash_casts`) reads every conversion from a
  64-bit to a narrower integer type in the update/finish functions out of clang's AST and emits
  its operand in this form (Mhd.Gen.HashCasts).  Core Lean only.
-/
namespace Mhd.Hash

/-- operand of a conversion; everything the translator does not understand is `other` -/
inductive CExpr where
  /-- any expression of an unsigned integer type of that many bits (source text kept for the reader) -/
  | other (text : String) (bits : Nat)
  /-- integer constant (folded by the translator) -/
  | lit (n : Nat)
  /-- `a & b` -/
  | band (a b : CExpr)
  /-- `a % b` -/
  | mod (a b : CExpr)
  /-- `a >> b` -/
  | shr (a b : CExpr)
  deriving Repr, DecidableEq

/-- value of an expression when the `other` sub-expressions take the values `env text`
    (reduced to their type's width, as every C value of that type is) -/
def CExpr.eval (env : String → Nat) : CExpr → Nat
  | .other t bits => env t % 2 ^ bits
  | .lit n => n
  | .band a b => a.eval env &&& b.eval env
  | .mod a b => a.eval env % b.eval env
  | .shr a b => a.eval env >>> b.eval env

/-- the constant an expression is, if it is one -/
def CExpr.const? : CExpr → Option Nat
  | .lit n => some n
  | _ => none

/-- a syntactic strict upper bound of the value (`none`: not bounded by this analysis) -/
def CExpr.ub : CExpr → Option Nat
  | .other _ bits => some (2 ^ bits)
  | .lit n => some (n + 1)
  | .band a b =>
    match a.ub, b.ub with
    | some x, some y => some (min x y)
    | some x, none => some x
    | none, some y => some y
    | none, none => none
  | .mod a b =>
    match b.const? with
    | some n => if n = 0 then a.ub else some n
    | none => a.ub
  | .shr a b =>
    match a.ub, b.const? with
    | some x, some s => some ((x - 1) / 2 ^ s + 1)
    | some x, none => some x
    | none, _ => none

/-- one narrowing integer conversion found in the source -/
structure NarrowCast where
  /-- function it occurs in -/
  fn : String
  /-- source text of the converted expression -/
  text : String
  /-- line, counted from the first line of the function definition -/
  line : Nat
  /-- written as a cast (`(unsigned int) x`) rather than inserted by the compiler -/
  explicit : Bool
  /-- inside the condition of an `if`/`while`/`for`/`do`/`?:` -/
  inCondition : Bool
  /-- the converted value is only an argument of a call or stored to memory inside a *finish* function
      (the length field and the digest bytes: data, looked at by the byte-counter cases of the
      correspondence run), not something a comparison, a loop bound or a local variable sees -/
  dataPath : Bool
  srcBits : Nat
  dstBits : Nat
  operand : CExpr
  deriving Repr, DecidableEq

/-- the conversion provably keeps the value: the operand is bounded by what the target type holds -/
def NarrowCast.harmless (c : NarrowCast) : Bool :=
  match c.operand.ub with
  | some b => b ≤ 2 ^ c.dstBits
  | none => false

end Mhd.Hash
