/-
  Model of src/microhttpd/sha512_256.c (configured build: !MHD_FAVOR_SMALL_CODE, little-endian,
  SIZEOF_SIZE_T = 8): `sha512_256_transform` as the unrolled sequence of `SHA2STEP64`
  invocations recorded in `Mhd.Gen.Hash.sha512Steps`, the split bit counter
  (`count` < 2^61 bytes, `count_bits_hi`), plugged into the common update/finish shape.
-/
import Mhd.Gen.Hash
import Mhd.Model.Hash.MD

namespace Mhd.Hash.Sha512
open Mhd.Gen.Hash

/-- `_MHD_ROTR64` (the inline-function variant compiled by gcc) -/
def rotr64 (x : UInt64) (bits : Nat) : UInt64 :=
  let bits := bits % 64
  if bits = 0 then x else (x >>> bits.toUInt64) ||| (x <<< (64 - bits).toUInt64)

def Ch (x y z : UInt64) : UInt64 := z ^^^ (x &&& (y ^^^ z))
def Maj (x y z : UInt64) : UInt64 := (x &&& y) ^^^ (z &&& (x ^^^ y))
def SIG0 (x : UInt64) : UInt64 := rotr64 x 28 ^^^ rotr64 x 34 ^^^ rotr64 x 39
def SIG1 (x : UInt64) : UInt64 := rotr64 x 14 ^^^ rotr64 x 18 ^^^ rotr64 x 41
def sig0 (x : UInt64) : UInt64 := rotr64 x 1 ^^^ rotr64 x 8 ^^^ (x >>> 7)
def sig1 (x : UInt64) : UInt64 := rotr64 x 19 ^^^ rotr64 x 61 ^^^ (x >>> 6)

/-- `Wgen (w, t)` on the 16-word cyclic buffer -/
def wgen (w : Array UInt64) (t : Nat) : UInt64 :=
  w.getD ((t - 16) % 16) 0 + sig1 (w.getD ((t - 2) % 16) 0)
    + w.getD ((t - 7) % 16) 0 + sig0 (w.getD ((t - 15) % 16) 0)

structure TS where
  v : R8 UInt64
  w : Array UInt64
  ok : Bool

abbrev Row := List Nat × Nat × Nat × Nat × Nat

def rowOK : Row → Bool
  | (regs, _k, dst, kind, arg) =>
    regs.length == 8 && regs.all (· < 8) && dst < 16 &&
    ((kind == 0 && arg < 16) || (kind == 1 && 16 ≤ arg))

/-- one `SHA2STEP64 (vA,…,vH, kt, W[dst] = …)` -/
def step (blk : List UInt8) (s : TS) (row : Row) : TS :=
  if !rowOK row then { s with ok := false } else
  match row with
  | ([iA, iB, iC, iD, iE, iF, iG, iH], k, dst, kind, arg) =>
    let wt := if kind = 0 then getBE64 blk arg else wgen s.w arg
    let w' := s.w.setIfInBounds dst wt
    let v := s.v
    -- (vD) += ((vH) += SIG1 (vE) + Ch (vE,vF,vG) + kt + wt);
    let h1 := v.get iH + (SIG1 (v.get iE) + Ch (v.get iE) (v.get iF) (v.get iG) + k.toUInt64 + wt)
    let v := v.set iH h1
    let v := v.set iD (v.get iD + h1)
    -- (vH) += SIG0 (vA) + Maj (vA,vB,vC);
    let v := v.set iH (v.get iH + (SIG0 (v.get iA) + Maj (v.get iA) (v.get iB) (v.get iC)))
    { v := v, w := w', ok := s.ok }
  | _ => { s with ok := false }

/-- `sha512_256_transform (H, data)` -/
def transform (mis : Bool) (H : R8 UInt64) (blk : List UInt8) : Except Fault (R8 UInt64) :=
  let tbl := if mis then sha512StepsMis else sha512Steps
  let s := tbl.foldl (step blk) { v := H, w := Array.replicate 16 0, ok := true }
  if s.ok then
    .ok ⟨H.a + s.v.a, H.b + s.v.b, H.c + s.v.c, H.d + s.v.d,
         H.e + s.v.e, H.f + s.v.f, H.g + s.v.g, H.h + s.v.h⟩
  else .error .table

def ivOf (l : List Nat) : R8 UInt64 :=
  ⟨(l.getD 0 0).toUInt64, (l.getD 1 0).toUInt64, (l.getD 2 0).toUInt64, (l.getD 3 0).toUInt64,
   (l.getD 4 0).toUInt64, (l.getD 5 0).toUInt64, (l.getD 6 0).toUInt64, (l.getD 7 0).toUInt64⟩

/-- `_MHD_PUT_64BIT_BE` of H[0..3] -/
def digest (H : R8 UInt64) : List UInt8 :=
  bytesBE64 H.a ++ bytesBE64 H.b ++ bytesBE64 H.c ++ bytesBE64 H.d

/-- the counter update at the top of `MHD_SHA512_256_update`:
    ```
    ctx->count += length;
    if (length > ctx->count) ctx->count_bits_hi += 1U << 3;   /* value wrap, SIZEOF_SIZE_T > 7 */
    count_hi = ctx->count >> 61;
    if (0 != count_hi) { ctx->count_bits_hi += count_hi; ctx->count &= 0x1FFFFFFFFFFFFFFF; }
    ```
    (all arithmetic on `uint64_t`; `length` must be a `size_t`) -/
def bump512 (count hi length : Nat) : Nat × Nat :=
  let count1 := (count + length) % 18446744073709551616
  let hi1 := if length > count1 then (hi + 8) % 18446744073709551616 else hi
  let countHi := count1 / 2305843009213693952
  if countHi ≠ 0 then (count1 % 2305843009213693952, (hi1 + countHi) % 18446744073709551616)
  else (count1, hi1)

def alg : Alg (R8 UInt64) :=
  { B := sha512Block, L := sha512LenAdd, align := 8,
    iv := ivOf sha512IV, zero := ⟨0, 0, 0, 0, 0, 0, 0, 0⟩,
    transform := transform,
    bump := bump512,
    -- `_MHD_PUT_64BIT_BE (…, count_bits_hi); _MHD_PUT_64BIT_BE (…, num_bits)`
    putLen := fun hi numBits => bytesBE64 (UInt64.ofNat hi) ++ bytesBE64 (UInt64.ofNat numBits),
    digest := digest }

end Mhd.Hash.Sha512
