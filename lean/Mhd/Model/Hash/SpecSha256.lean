/-
  SHA-256 written from FIPS PUB 180-4 (August 2015): §3.2 (operations), §4.1.2 (functions),
  §4.2.2 (constants), §5.1.1 (padding), §5.2.1 (parsing), §5.3.3 (initial value), §6.2 (computation).
  This file is part of the trusted base of C16: it is what "the standard" means in the theorems.
  Core Lean only.
-/
import Mhd.Model.Hash.MD

namespace Mhd.Hash.Spec.Sha256

/-- §3.2 ROTR^n(x) = (x >> n) ∨ (x << w − n), w = 32, 0 ≤ n < w -/
def rotr (n : Nat) (x : UInt32) : UInt32 := (x >>> n.toUInt32) ||| (x <<< (32 - n).toUInt32)
/-- §3.2 SHR^n(x) = x >> n -/
def shr (n : Nat) (x : UInt32) : UInt32 := x >>> n.toUInt32

/-- §4.1.2 (4.2) -/
def ch (x y z : UInt32) : UInt32 := (x &&& y) ^^^ (~~~x &&& z)
/-- §4.1.2 (4.3) -/
def maj (x y z : UInt32) : UInt32 := (x &&& y) ^^^ (x &&& z) ^^^ (y &&& z)
/-- §4.1.2 (4.4) Σ0 -/
def bsig0 (x : UInt32) : UInt32 := rotr 2 x ^^^ rotr 13 x ^^^ rotr 22 x
/-- §4.1.2 (4.5) Σ1 -/
def bsig1 (x : UInt32) : UInt32 := rotr 6 x ^^^ rotr 11 x ^^^ rotr 25 x
/-- §4.1.2 (4.6) σ0 -/
def ssig0 (x : UInt32) : UInt32 := rotr 7 x ^^^ rotr 18 x ^^^ shr 3 x
/-- §4.1.2 (4.7) σ1 -/
def ssig1 (x : UInt32) : UInt32 := rotr 17 x ^^^ rotr 19 x ^^^ shr 10 x

/-- §4.2.2: first 32 bits of the fractional parts of the cube roots of the first 64 primes -/
def K : List UInt32 :=
  [0x428a2f98, 0x71374491, 0xb5c0fbcf, 0xe9b5dba5, 0x3956c25b, 0x59f111f1, 0x923f82a4, 0xab1c5ed5,
   0xd807aa98, 0x12835b01, 0x243185be, 0x550c7dc3, 0x72be5d74, 0x80deb1fe, 0x9bdc06a7, 0xc19bf174,
   0xe49b69c1, 0xefbe4786, 0x0fc19dc6, 0x240ca1cc, 0x2de92c6f, 0x4a7484aa, 0x5cb0a9dc, 0x76f988da,
   0x983e5152, 0xa831c66d, 0xb00327c8, 0xbf597fc7, 0xc6e00bf3, 0xd5a79147, 0x06ca6351, 0x14292967,
   0x27b70a85, 0x2e1b2138, 0x4d2c6dfc, 0x53380d13, 0x650a7354, 0x766a0abb, 0x81c2c92e, 0x92722c85,
   0xa2bfe8a1, 0xa81a664b, 0xc24b8b70, 0xc76c51a3, 0xd192e819, 0xd6990624, 0xf40e3585, 0x106aa070,
   0x19a4c116, 0x1e376c08, 0x2748774c, 0x34b0bcb5, 0x391c0cb3, 0x4ed8aa4a, 0x5b9cca4f, 0x682e6ff3,
   0x748f82ee, 0x78a5636f, 0x84c87814, 0x8cc70208, 0x90befffa, 0xa4506ceb, 0xbef9a3f7, 0xc67178f2]

/-- §5.3.3 -/
def H0 : R8 UInt32 :=
  ⟨0x6a09e667, 0xbb67ae85, 0x3c6ef372, 0xa54ff53a, 0x510e527f, 0x9b05688c, 0x1f83d9ab, 0x5be0cd19⟩

/-- §6.2.2 step 1, one more word of the message schedule:
    W_t = σ1(W_{t−2}) + W_{t−7} + σ0(W_{t−15}) + W_{t−16}   (t = |W| ≥ 16) -/
def nextW (W : List UInt32) : UInt32 :=
  let t := W.length
  ssig1 (W.getD (t - 2) 0) + W.getD (t - 7) 0 + ssig0 (W.getD (t - 15) 0) + W.getD (t - 16) 0

/-- §6.2.2 step 1: W_0..W_15 = M_0..M_15, then 48 more words -/
def schedule (M : List UInt32) : List UInt32 :=
  (List.range 48).foldl (fun W _ => W ++ [nextW W]) M

/-- §6.2.2 step 3, one iteration with K_t and W_t -/
def round (s : R8 UInt32) (kw : UInt32 × UInt32) : R8 UInt32 :=
  let T1 := s.h + bsig1 s.e + ch s.e s.f s.g + kw.1 + kw.2
  let T2 := bsig0 s.a + maj s.a s.b s.c
  ⟨T1 + T2, s.a, s.b, s.c, s.d + T1, s.e, s.f, s.g⟩

/-- §6.2.2 steps 1–4 for one 512-bit block (§5.2.1: sixteen big-endian 32-bit words) -/
def compress (H : R8 UInt32) (blk : List UInt8) : R8 UInt32 :=
  let W := schedule (wordsBE32 blk)
  let r := (K.zip W).foldl round H
  ⟨r.a + H.a, r.b + H.b, r.c + H.c, r.d + H.d, r.e + H.e, r.f + H.f, r.g + H.g, r.h + H.h⟩

/-- §5.1.1: the 64-bit big-endian bit length (the standard requires ℓ < 2^64; for longer
    messages — which do not exist in practice — the low 64 bits are used) -/
def lenField (n : Nat) : List UInt8 := bytesBE64 (UInt64.ofNat (8 * n))

/-- §6.2.2: the digest is H_0 ‖ … ‖ H_7, big-endian -/
def out (H : R8 UInt32) : List UInt8 :=
  bytesBE32 H.a ++ bytesBE32 H.b ++ bytesBE32 H.c ++ bytesBE32 H.d ++
  bytesBE32 H.e ++ bytesBE32 H.f ++ bytesBE32 H.g ++ bytesBE32 H.h

def spec : Spec.Hash (R8 UInt32) :=
  { B := 64, L := 8, iv := H0, compress := compress, lenField := lenField, out := out }

/-- SHA-256 of a message -/
def hash (msg : List UInt8) : List UInt8 := spec.hash msg

end Mhd.Hash.Spec.Sha256
