/-
  SHA-512/256 written from FIPS PUB 180-4 (August 2015): §3.2, §4.1.3 (functions), §4.2.3 (constants),
  §5.1.2 (padding), §5.2.2 (parsing), §5.3.6.2 (initial value), §6.4 (SHA-512 computation),
  §6.7 (SHA-512/256: SHA-512 with the other initial value, truncated to the left-most 256 bits).
  Part of the trusted base of C16.  Core Lean only.
-/
import Mhd.Model.Hash.MD

namespace Mhd.Hash.Spec.Sha512

/-- §3.2 ROTR^n(x), w = 64 -/
def rotr (n : Nat) (x : UInt64) : UInt64 := (x >>> n.toUInt64) ||| (x <<< (64 - n).toUInt64)
/-- §3.2 SHR^n(x) -/
def shr (n : Nat) (x : UInt64) : UInt64 := x >>> n.toUInt64

/-- §4.1.3 (4.8) -/
def ch (x y z : UInt64) : UInt64 := (x &&& y) ^^^ (~~~x &&& z)
/-- §4.1.3 (4.9) -/
def maj (x y z : UInt64) : UInt64 := (x &&& y) ^^^ (x &&& z) ^^^ (y &&& z)
/-- §4.1.3 (4.10) Σ0 -/
def bsig0 (x : UInt64) : UInt64 := rotr 28 x ^^^ rotr 34 x ^^^ rotr 39 x
/-- §4.1.3 (4.11) Σ1 -/
def bsig1 (x : UInt64) : UInt64 := rotr 14 x ^^^ rotr 18 x ^^^ rotr 41 x
/-- §4.1.3 (4.12) σ0 -/
def ssig0 (x : UInt64) : UInt64 := rotr 1 x ^^^ rotr 8 x ^^^ shr 7 x
/-- §4.1.3 (4.13) σ1 -/
def ssig1 (x : UInt64) : UInt64 := rotr 19 x ^^^ rotr 61 x ^^^ shr 6 x

/-- §4.2.3: first 64 bits of the fractional parts of the cube roots of the first 80 primes -/
def K : List UInt64 :=
  [0x428a2f98d728ae22, 0x7137449123ef65cd, 0xb5c0fbcfec4d3b2f, 0xe9b5dba58189dbbc,
   0x3956c25bf348b538, 0x59f111f1b605d019, 0x923f82a4af194f9b, 0xab1c5ed5da6d8118,
   0xd807aa98a3030242, 0x12835b0145706fbe, 0x243185be4ee4b28c, 0x550c7dc3d5ffb4e2,
   0x72be5d74f27b896f, 0x80deb1fe3b1696b1, 0x9bdc06a725c71235, 0xc19bf174cf692694,
   0xe49b69c19ef14ad2, 0xefbe4786384f25e3, 0x0fc19dc68b8cd5b5, 0x240ca1cc77ac9c65,
   0x2de92c6f592b0275, 0x4a7484aa6ea6e483, 0x5cb0a9dcbd41fbd4, 0x76f988da831153b5,
   0x983e5152ee66dfab, 0xa831c66d2db43210, 0xb00327c898fb213f, 0xbf597fc7beef0ee4,
   0xc6e00bf33da88fc2, 0xd5a79147930aa725, 0x06ca6351e003826f, 0x142929670a0e6e70,
   0x27b70a8546d22ffc, 0x2e1b21385c26c926, 0x4d2c6dfc5ac42aed, 0x53380d139d95b3df,
   0x650a73548baf63de, 0x766a0abb3c77b2a8, 0x81c2c92e47edaee6, 0x92722c851482353b,
   0xa2bfe8a14cf10364, 0xa81a664bbc423001, 0xc24b8b70d0f89791, 0xc76c51a30654be30,
   0xd192e819d6ef5218, 0xd69906245565a910, 0xf40e35855771202a, 0x106aa07032bbd1b8,
   0x19a4c116b8d2d0c8, 0x1e376c085141ab53, 0x2748774cdf8eeb99, 0x34b0bcb5e19b48a8,
   0x391c0cb3c5c95a63, 0x4ed8aa4ae3418acb, 0x5b9cca4f7763e373, 0x682e6ff3d6b2b8a3,
   0x748f82ee5defb2fc, 0x78a5636f43172f60, 0x84c87814a1f0ab72, 0x8cc702081a6439ec,
   0x90befffa23631e28, 0xa4506cebde82bde9, 0xbef9a3f7b2c67915, 0xc67178f2e372532b,
   0xca273eceea26619c, 0xd186b8c721c0c207, 0xeada7dd6cde0eb1e, 0xf57d4f7fee6ed178,
   0x06f067aa72176fba, 0x0a637dc5a2c898a6, 0x113f9804bef90dae, 0x1b710b35131c471b,
   0x28db77f523047d84, 0x32caab7b40c72493, 0x3c9ebe0a15c9bebc, 0x431d67c49c100d4c,
   0x4cc5d4becb3e42b6, 0x597f299cfc657e2a, 0x5fcb6fab3ad6faec, 0x6c44198c4a475817]

/-- §5.3.6.2 -/
def H0 : R8 UInt64 :=
  ⟨0x22312194FC2BF72C, 0x9F555FA3C84C64C2, 0x2393B86B6F53B151, 0x963877195940EABD,
   0x96283EE2A88EFFE3, 0xBE5E1E2553863992, 0x2B0199FC2C85B8AA, 0x0EB72DDC81C52CA2⟩

/-- §6.4.2 step 1: W_t = σ1(W_{t−2}) + W_{t−7} + σ0(W_{t−15}) + W_{t−16}   (t = |W| ≥ 16) -/
def nextW (W : List UInt64) : UInt64 :=
  let t := W.length
  ssig1 (W.getD (t - 2) 0) + W.getD (t - 7) 0 + ssig0 (W.getD (t - 15) 0) + W.getD (t - 16) 0

/-- §6.4.2 step 1: W_0..W_15 = M_0..M_15, then 64 more words -/
def schedule (M : List UInt64) : List UInt64 :=
  (List.range 64).foldl (fun W _ => W ++ [nextW W]) M

/-- §6.4.2 step 3, one iteration with K_t and W_t -/
def round (s : R8 UInt64) (kw : UInt64 × UInt64) : R8 UInt64 :=
  let T1 := s.h + bsig1 s.e + ch s.e s.f s.g + kw.1 + kw.2
  let T2 := bsig0 s.a + maj s.a s.b s.c
  ⟨T1 + T2, s.a, s.b, s.c, s.d + T1, s.e, s.f, s.g⟩

/-- §6.4.2 steps 1–4 for one 1024-bit block (§5.2.2: sixteen big-endian 64-bit words) -/
def compress (H : R8 UInt64) (blk : List UInt8) : R8 UInt64 :=
  let W := schedule (wordsBE64 blk)
  let r := (K.zip W).foldl round H
  ⟨r.a + H.a, r.b + H.b, r.c + H.c, r.d + H.d, r.e + H.e, r.f + H.f, r.g + H.g, r.h + H.h⟩

/-- §5.1.2: the 128-bit big-endian bit length (high 64 bits, low 64 bits) -/
def lenField (n : Nat) : List UInt8 :=
  bytesBE64 (UInt64.ofNat (8 * n / 2 ^ 64)) ++ bytesBE64 (UInt64.ofNat (8 * n))

/-- §6.7: the left-most 256 bits of H_0 ‖ … ‖ H_7 -/
def out (H : R8 UInt64) : List UInt8 :=
  bytesBE64 H.a ++ bytesBE64 H.b ++ bytesBE64 H.c ++ bytesBE64 H.d

def spec : Spec.Hash (R8 UInt64) :=
  { B := 128, L := 16, iv := H0, compress := compress, lenField := lenField, out := out }

/-- SHA-512/256 of a message -/
def hash (msg : List UInt8) : List UInt8 := spec.hash msg

end Mhd.Hash.Spec.Sha512
