/-
  Model of src/microhttpd/md5.c (configured build: !MHD_FAVOR_SMALL_CODE, little-endian):
  `md5_transform` as the sequence of `MD5STEP_R1..R4` invocations recorded in
  `Mhd.Gen.Hash.md5Steps` (aligned input: round 1 loads `X[k] = GET_X_FROM_DATA (M, k)`)
  and `md5StepsMis` (misaligned input: the block is first copied to `X[]`, round 1 reads `X[k]`).
-/
import Mhd.Gen.Hash
import Mhd.Model.Hash.MD

namespace Mhd.Hash.Md5
open Mhd.Gen.Hash

/-- `_MHD_ROTL32` (inline-function variant) -/
def rotl32 (x : UInt32) (bits : Nat) : UInt32 :=
  let bits := bits % 32
  if bits = 0 then x else (x <<< bits.toUInt32) ||| (x >>> (32 - bits).toUInt32)

def F_FUNC (x y z : UInt32) : UInt32 := ((y ^^^ z) &&& x) ^^^ z
def G_FUNC_1 (_x y z : UInt32) : UInt32 := (~~~z) &&& y
def G_FUNC_2 (x _y z : UInt32) : UInt32 := z &&& x
def H_FUNC (x y z : UInt32) : UInt32 := x ^^^ y ^^^ z
def I_FUNC (x y z : UInt32) : UInt32 := ((~~~z) ||| x) ^^^ y

/-- working variables A…D, data buffer X[16], "the table made sense so far" -/
structure TS where
  v : R4 UInt32
  x : Array UInt32
  ok : Bool

/-- (regs va..vd, round, shift, T, dst, kind, arg) -/
abbrev Row := List Nat × Nat × Nat × Nat × Nat × Nat × Nat

def rowOK : Row → Bool
  | (regs, round, _s, _t, dst, kind, arg) =>
    regs.length == 4 && regs.all (· < 4) && 1 ≤ round && round ≤ 4 && dst < 16 && arg < 16 &&
    (kind == 0 || kind == 2)

/-- one `MD5STEP_Rn (va, vb, vc, vd, vX, vs, vT)` -/
def step (blk : List UInt8) (s : TS) (row : Row) : TS :=
  if !rowOK row then { s with ok := false } else
  match row with
  | ([ia, ib, ic, id], round, sh, t, dst, kind, arg) =>
    -- vX: `X[dst] = GET_X_FROM_DATA (M, arg)` or `X[arg]`
    let x' := if kind = 0 then s.x.setIfInBounds dst (getLE32 blk arg) else s.x
    let vX := if kind = 0 then getLE32 blk arg else s.x.getD arg 0
    let v := s.v
    -- (va) += (vX) + (vT);
    let v := v.set ia (v.get ia + (vX + t.toUInt32))
    -- (va) += f ((vb),(vc),(vd));      [round 2: two additions, G_FUNC_1 then G_FUNC_2]
    let v :=
      if round = 1 then v.set ia (v.get ia + F_FUNC (v.get ib) (v.get ic) (v.get id))
      else if round = 2 then
        let v := v.set ia (v.get ia + G_FUNC_1 (v.get ib) (v.get ic) (v.get id))
        v.set ia (v.get ia + G_FUNC_2 (v.get ib) (v.get ic) (v.get id))
      else if round = 3 then v.set ia (v.get ia + H_FUNC (v.get ib) (v.get ic) (v.get id))
      else v.set ia (v.get ia + I_FUNC (v.get ib) (v.get ic) (v.get id))
    -- (va) = _MHD_ROTL32 ((va),(vs)) + (vb);
    let v := v.set ia (rotl32 (v.get ia) sh + v.get ib)
    { v := v, x := x', ok := s.ok }
  | _ => { s with ok := false }

/-- the sixteen little-endian words of a block: what `memcpy (X, M, 64)` leaves in `X[]`
    on the (little-endian) configured machine -/
def loadX (blk : List UInt8) : Array UInt32 :=
  ((List.range 16).map (getLE32 blk)).toArray

/-- `md5_transform (H, M)` -/
def transform (mis : Bool) (H : R4 UInt32) (blk : List UInt8) : Except Fault (R4 UInt32) :=
  let tbl := if mis then md5StepsMis else md5Steps
  let x0 := if mis then loadX blk else Array.replicate 16 0
  let s := tbl.foldl (step blk) { v := H, x := x0, ok := true }
  if s.ok then .ok ⟨H.a + s.v.a, H.b + s.v.b, H.c + s.v.c, H.d + s.v.d⟩
  else .error .table

def ivOf (l : List Nat) : R4 UInt32 :=
  ⟨(l.getD 0 0).toUInt32, (l.getD 1 0).toUInt32, (l.getD 2 0).toUInt32, (l.getD 3 0).toUInt32⟩

/-- `_MHD_PUT_32BIT_LE` of H[0..3] -/
def digest (H : R4 UInt32) : List UInt8 :=
  bytesLE32 H.a ++ bytesLE32 H.b ++ bytesLE32 H.c ++ bytesLE32 H.d

def alg : Alg (R4 UInt32) :=
  { B := md5Block, L := md5LenAdd, align := 4,
    iv := ivOf md5IV, zero := ⟨0, 0, 0, 0⟩,
    transform := transform,
    bump := bump64,
    -- `_MHD_PUT_64BIT_LE_SAFE (…, num_bits)`
    putLen := fun _hi numBits => bytesLE64 (UInt64.ofNat numBits),
    digest := digest }

end Mhd.Hash.Md5
