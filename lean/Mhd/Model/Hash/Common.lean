/-
  Shared vocabulary of the hash models and specifications (C16):
  register files, byte/word conversions, checked buffer primitives.
  Core Lean only (linked into the driver).
-/
namespace Mhd.Hash

/-- four working registers / chaining words (MD5: A B C D) -/
structure R4 (α : Type) where
  a : α
  b : α
  c : α
  d : α
  deriving Repr, DecidableEq

/-- five working registers / chaining words (SHA-1: a b c d e) -/
structure R5 (α : Type) where
  a : α
  b : α
  c : α
  d : α
  e : α
  deriving Repr, DecidableEq

/-- eight working registers / chaining words (SHA-2: a … h) -/
structure R8 (α : Type) where
  a : α
  b : α
  c : α
  d : α
  e : α
  f : α
  g : α
  h : α
  deriving Repr, DecidableEq

/-! ### bytes ↔ words -/

/-- big-endian 32-bit word from four bytes (FIPS 180-4 §3.1) -/
def be32 (b0 b1 b2 b3 : UInt8) : UInt32 :=
  (b0.toUInt32 <<< 24) ||| (b1.toUInt32 <<< 16) ||| (b2.toUInt32 <<< 8) ||| b3.toUInt32

/-- little-endian 32-bit word from four bytes (RFC 1321 §2) -/
def le32 (b0 b1 b2 b3 : UInt8) : UInt32 :=
  b0.toUInt32 ||| (b1.toUInt32 <<< 8) ||| (b2.toUInt32 <<< 16) ||| (b3.toUInt32 <<< 24)

/-- big-endian 64-bit word from eight bytes -/
def be64 (b0 b1 b2 b3 b4 b5 b6 b7 : UInt8) : UInt64 :=
  (b0.toUInt64 <<< 56) ||| (b1.toUInt64 <<< 48) ||| (b2.toUInt64 <<< 40) ||| (b3.toUInt64 <<< 32) |||
  (b4.toUInt64 <<< 24) ||| (b5.toUInt64 <<< 16) ||| (b6.toUInt64 <<< 8) ||| b7.toUInt64

/-- the four bytes of a 32-bit word, most significant first -/
def bytesBE32 (w : UInt32) : List UInt8 :=
  [(w >>> 24).toUInt8, (w >>> 16).toUInt8, (w >>> 8).toUInt8, w.toUInt8]

/-- the four bytes of a 32-bit word, least significant first -/
def bytesLE32 (w : UInt32) : List UInt8 :=
  [w.toUInt8, (w >>> 8).toUInt8, (w >>> 16).toUInt8, (w >>> 24).toUInt8]

/-- the eight bytes of a 64-bit word, most significant first -/
def bytesBE64 (w : UInt64) : List UInt8 :=
  [(w >>> 56).toUInt8, (w >>> 48).toUInt8, (w >>> 40).toUInt8, (w >>> 32).toUInt8,
   (w >>> 24).toUInt8, (w >>> 16).toUInt8, (w >>> 8).toUInt8, w.toUInt8]

/-- the eight bytes of a 64-bit word, least significant first -/
def bytesLE64 (w : UInt64) : List UInt8 :=
  [w.toUInt8, (w >>> 8).toUInt8, (w >>> 16).toUInt8, (w >>> 24).toUInt8,
   (w >>> 32).toUInt8, (w >>> 40).toUInt8, (w >>> 48).toUInt8, (w >>> 56).toUInt8]

/-- a byte string parsed into big-endian 32-bit words (trailing <4 bytes dropped) -/
def wordsBE32 : List UInt8 → List UInt32
  | b0 :: b1 :: b2 :: b3 :: rest => be32 b0 b1 b2 b3 :: wordsBE32 rest
  | _ => []

/-- a byte string parsed into little-endian 32-bit words -/
def wordsLE32 : List UInt8 → List UInt32
  | b0 :: b1 :: b2 :: b3 :: rest => le32 b0 b1 b2 b3 :: wordsLE32 rest
  | _ => []

/-- a byte string parsed into big-endian 64-bit words -/
def wordsBE64 : List UInt8 → List UInt64
  | b0 :: b1 :: b2 :: b3 :: b4 :: b5 :: b6 :: b7 :: rest =>
      be64 b0 b1 b2 b3 b4 b5 b6 b7 :: wordsBE64 rest
  | _ => []

/-! ### checked buffer primitives (the context's fixed-size `buffer[]`) -/

/-- sites at which the model can leave the bounds of a C object -/
inductive Fault where
  | bufWrite   -- memcpy / store beyond ctx->buffer
  | bufFill    -- memset beyond ctx->buffer
  | blockRead  -- transform would read beyond the supplied data
  | table      -- step table refers to a register / word that does not exist
  deriving Repr, DecidableEq

/-- `memcpy (buf + off, src, |src|)` into a fixed-size buffer; `none` if it would overrun -/
def bufWrite (buf : List UInt8) (off : Nat) (src : List UInt8) : Option (List UInt8) :=
  if off + src.length ≤ buf.length then
    some (buf.take off ++ src ++ buf.drop (off + src.length))
  else none

/-- `memset (buf + off, 0, n)`; `none` if it would overrun -/
def bufFill (buf : List UInt8) (off n : Nat) : Option (List UInt8) :=
  bufWrite buf off (List.replicate n 0)

/-- the `n` bytes a transform reads through its data pointer; `none` if fewer are there -/
def readBlock (src : List UInt8) (n : Nat) : Option (List UInt8) :=
  let blk := src.take n
  if blk.length = n then some blk else none

end Mhd.Hash

namespace Mhd.Hash

/-! ### register files addressed by index (the step macros name their registers) -/

def R4.get (r : R4 α) : Nat → α
  | 0 => r.a | 1 => r.b | 2 => r.c | _ => r.d
def R4.set (r : R4 α) : Nat → α → R4 α
  | 0, x => { r with a := x } | 1, x => { r with b := x } | 2, x => { r with c := x }
  | _, x => { r with d := x }

def R5.get (r : R5 α) : Nat → α
  | 0 => r.a | 1 => r.b | 2 => r.c | 3 => r.d | _ => r.e
def R5.set (r : R5 α) : Nat → α → R5 α
  | 0, x => { r with a := x } | 1, x => { r with b := x } | 2, x => { r with c := x }
  | 3, x => { r with d := x } | _, x => { r with e := x }

def R8.get (r : R8 α) : Nat → α
  | 0 => r.a | 1 => r.b | 2 => r.c | 3 => r.d | 4 => r.e | 5 => r.f | 6 => r.g | _ => r.h
def R8.set (r : R8 α) : Nat → α → R8 α
  | 0, x => { r with a := x } | 1, x => { r with b := x } | 2, x => { r with c := x }
  | 3, x => { r with d := x } | 4, x => { r with e := x } | 5, x => { r with f := x }
  | 6, x => { r with g := x } | _, x => { r with h := x }

/-- big-endian 32-bit word number `t` of a block (`_MHD_GET_32BIT_BE (buf + 4 t)`) -/
def getBE32 (blk : List UInt8) (t : Nat) : UInt32 :=
  be32 (blk.getD (4 * t) 0) (blk.getD (4 * t + 1) 0) (blk.getD (4 * t + 2) 0) (blk.getD (4 * t + 3) 0)

/-- little-endian 32-bit word number `t` of a block (`_MHD_GET_32BIT_LE`) -/
def getLE32 (blk : List UInt8) (t : Nat) : UInt32 :=
  le32 (blk.getD (4 * t) 0) (blk.getD (4 * t + 1) 0) (blk.getD (4 * t + 2) 0) (blk.getD (4 * t + 3) 0)

/-- big-endian 64-bit word number `t` of a block (`_MHD_GET_64BIT_BE`) -/
def getBE64 (blk : List UInt8) (t : Nat) : UInt64 :=
  be64 (blk.getD (8 * t) 0) (blk.getD (8 * t + 1) 0) (blk.getD (8 * t + 2) 0) (blk.getD (8 * t + 3) 0)
       (blk.getD (8 * t + 4) 0) (blk.getD (8 * t + 5) 0) (blk.getD (8 * t + 6) 0) (blk.getD (8 * t + 7) 0)

end Mhd.Hash
